package control

// C18 sub-monitor: for how long a sniffed name counts as "known genuine
// (resolved through dae)" in dial_mode domain. Histories of scoped cache
// inserts (several as-is resolvers answering the same question), removals,
// janitor runs and fixed_domain_ttl settings; the dial target is probed
//   - while some currently cached answer is inside its ORIGINAL TTL  -> the name;
//   - after the original TTL of EVERY answer ever resolved has passed -> the IP
// (the name is negative-cached for the real-domain probe, so DNS knowledge is
// the only thing that can vouch for it). Probes in between carry no verdict.

import (
	"context"
	"fmt"
	"math/rand/v2"
	"net"
	"net/netip"
	"sync"
	"time"

	"github.com/bits-and-blooms/bloom/v3"
	"github.com/daeuniverse/dae/common/consts"
	"github.com/daeuniverse/dae/component/dns"
	"github.com/daeuniverse/dae/component/sniffing"
	"github.com/daeuniverse/dae/config"
	vk "github.com/daeuniverse/dae/verifkit"
	dnsmessage "github.com/miekg/dns"
)

func verifC18KnowledgeHistories(m *vk.Monitor) {
	n := vk.Scale(72, 600)
	var wg sync.WaitGroup
	sem := make(chan struct{}, 36)
	for i := 0; i < n; i++ {
		wg.Add(1)
		sem <- struct{}{}
		go func(id int) {
			defer wg.Done()
			defer func() { <-sem }()
			verifC18KnowledgeHistory(m, id)
		}(i)
	}
	wg.Wait()
}

func verifC18KnowledgeHistory(m *vk.Monitor, id int) {
	r := rand.New(rand.NewPCG(vk.Seed(), 0xC18000+uint64(id)))
	log := verifQuietLog()
	name := fmt.Sprintf("k%d.example", id)
	fixed := map[string]int{}
	fixedKind := "none"
	switch r.IntN(3) {
	case 0:
		fixed[name], fixedKind = 3600, "longer"
	case 1:
		fixed[name], fixedKind = 0, "zero"
	}
	routing, err := dns.New(&config.Dns{Routing: config.DnsRouting{
		Request:  config.DnsRequestRouting{Fallback: "asis"},
		Response: config.DnsResponseRouting{Fallback: "accept"},
	}}, &dns.NewOption{Logger: log, UpstreamReadyCallback: func(*dns.Upstream) error { return nil }})
	if err != nil {
		m.Inconclusive("dns.New: %v", err)
		return
	}
	ctrl, err := NewDnsController(routing, &DnsControllerOption{
		Log:              log,
		LifecycleContext: context.Background(),
		NewCache: func(fqdn string, answers, ns, extra []dnsmessage.RR, deadline time.Time, originalDeadline time.Time) (*DnsCache, error) {
			return &DnsCache{NS: ns, Extra: extra, Answer: answers, Deadline: deadline, OriginalDeadline: originalDeadline}, nil
		},
		FixedDomainTtl: fixed,
	})
	if err != nil {
		m.Inconclusive("NewDnsController: %v", err)
		return
	}
	defer ctrl.Close()
	ctx, cancel := context.WithCancel(context.Background())
	defer cancel()
	cp := &ControlPlane{realDomainSet: bloom.NewWithEstimates(2048, 0.001), log: log, ctx: ctx, cancel: cancel}
	cp.dnsController = ctrl
	cp.dialMode = consts.DialMode_Domain
	cp.realDomainNegSet.Store(name, time.Now().Add(time.Hour).UnixNano())

	resolvers := []string{"8.8.8.8:53", "1.1.1.1:53", "9.9.9.9:53"}
	base := ctrl.cacheKey(dnsmessage.Fqdn(name), dnsmessage.TypeA)
	keyOf := func(res string) string {
		return ctrl.responseCacheKey(base, &udpRequest{realDst: netip.MustParseAddrPort(res)}, consts.DnsRequestOutboundIndex_AsIs, nil)
	}
	type ent struct{ origEnd time.Time }
	cached := map[string]ent{} // by resolver
	var everEnd time.Time      // latest original deadline of any answer ever resolved (upper bound, measured after the call)
	var hist []string
	dst := netip.MustParseAddrPort("203.0.113.10:443")
	const guard = 30 * time.Millisecond

	probe := func() {
		t0 := time.Now()
		target, reroute, dialIp := cp.ChooseDialTarget(consts.OutboundUserDefinedMin, dst, name)
		t1 := time.Now()
		// "some cached answer is still inside its original TTL": the latest original deadline among
		// the answers currently cached (whichever was stored last; a later, shorter-lived answer of
		// another resolver does not make the name less genuine)
		var minCachedEnd time.Time
		for _, e := range cached {
			if minCachedEnd.IsZero() || e.origEnd.After(minCachedEnd) {
				minCachedEnd = e.origEnd
			}
		}
		hist = append(hist, fmt.Sprintf("probe -> target=%q reroute=%v dialIp=%v", target, reroute, dialIp))
		m.Eval(1)
		switch {
		case len(cached) > 0 && t1.Before(minCachedEnd.Add(-300*time.Millisecond-guard)):
			// inside the original TTL of every cached answer (origEnd is an upper bound taken after
			// the insert returned; 300 ms of slack): must dial the name
			m.Count("knowledge_probe_inside_original_ttl", 1)
			m.Distinct("knowledge|inside|fixed=" + fixedKind + fmt.Sprintf("|cached=%d", len(cached)))
			if target != name+":443" || dialIp {
				m.Violation("knowledge/name-not-dialled-inside-original-ttl/fixed="+fixedKind,
					fmt.Sprintf("domain mode, name resolved through dae and inside its original TTL: target=%q dialIp=%v, want %q", target, dialIp, name+":443"),
					map[string]any{"history": hist, "fixed_domain_ttl": fixedKind})
			}
		case !everEnd.IsZero() && t0.After(everEnd.Add(guard)):
			m.Count("knowledge_probe_after_every_original_ttl", 1)
			m.Distinct("knowledge|after|fixed=" + fixedKind + fmt.Sprintf("|cached=%d", len(cached)))
			if target != dst.String() || !dialIp || reroute {
				m.Violation("knowledge/outlives-original-ttl/fixed="+fixedKind,
					fmt.Sprintf("domain mode, the original TTL of every answer resolved through dae is over (and the real-domain probe is negative): target=%q reroute=%v dialIp=%v, want %q,false,true", target, reroute, dialIp, dst.String()),
					map[string]any{"history": hist, "fixed_domain_ttl": fixedKind})
			}
		default:
			m.Count("knowledge_probe_ambiguous", 1)
		}
	}
	steps := 3 + r.IntN(5)
	// a third of the histories start with the sibling pattern: a long-lived answer, then a
	// shorter-lived answer to the same question from another resolver, then a probe after the
	// shorter one's original TTL and well inside the longer one's
	script := []int{}
	if id%3 == 0 {
		script = []int{0, 0, 8}
		steps += 3
	}
	for s := 0; s < steps && m.Violations() < 5; s++ {
		op := r.IntN(10)
		if s < len(script) {
			op = script[s]
		}
		switch {
		case op < 4 || len(cached) == 0: // resolve through dae via one resolver
			res := resolvers[r.IntN(len(resolvers))]
			ttl := uint32(1 + r.IntN(2))
			if len(cached) == 0 && r.IntN(2) == 0 {
				ttl = 4 // a long-lived first answer, so that later, shorter-lived siblings expire inside it
			}
			if s < len(script) {
				res, ttl = resolvers[s], []uint32{4, 1}[s]
			}
			rr, _ := dnsmessage.NewRR(fmt.Sprintf("%s. %d IN A 203.0.113.10", name, ttl))
			if err := ctrl.UpdateDnsCacheTtlWithKey(keyOf(res), dnsmessage.Fqdn(name), dnsmessage.TypeA, []dnsmessage.RR{rr}, nil, nil, int(ttl)); err != nil {
				m.Inconclusive("UpdateDnsCacheTtlWithKey: %v", err)
				return
			}
			end := time.Now().Add(time.Duration(ttl) * time.Second)
			cached[res] = ent{end}
			if end.After(everEnd) {
				everEnd = end
			}
			hist = append(hist, fmt.Sprintf("resolve via %s ttl=%ds", res, ttl))
		case op < 6: // a scoped entry goes away (eviction / explicit removal)
			for res := range cached {
				ctrl.RemoveDnsRespCache(keyOf(res))
				delete(cached, res)
				hist = append(hist, "remove entry of "+res)
				m.Count("knowledge_sibling_removed", 1)
				break
			}
		case op < 7:
			ctrl.evictExpiredDnsCache(time.Now())
			for res, e := range cached {
				if time.Now().After(e.origEnd) || fixedKind == "zero" {
					delete(cached, res) // may be gone; stop relying on it
				}
			}
			hist = append(hist, "janitor")
		case op < 9:
			d := time.Duration(100+r.IntN(500)) * time.Millisecond
			if r.IntN(3) == 0 || s < len(script) {
				d = time.Duration(1050+r.IntN(300)) * time.Millisecond // just past a 1 s answer
			}
			time.Sleep(d)
			hist = append(hist, fmt.Sprintf("sleep %v", d))
		default:
			if !everEnd.IsZero() {
				if d := time.Until(everEnd.Add(3 * guard)); d > 0 {
					time.Sleep(d)
					hist = append(hist, fmt.Sprintf("sleep %v (past every original TTL)", d))
				}
			}
		}
		probe()
	}
	if !everEnd.IsZero() {
		if d := time.Until(everEnd.Add(3 * guard)); d > 0 {
			time.Sleep(d)
		}
		hist = append(hist, "sleep past every original TTL")
		probe()
	}
	if m.WantSample() {
		m.Sample(map[string]any{"knowledge_history": hist, "fixed_domain_ttl": fixedKind})
	}
}

// verifC18ViaSniffer: the value ChooseDialTarget gets is what the sniffers hand over, i.e. the
// Host header / SNI after sniffing.NormalizeDomain. For Host values written in every form the
// statement names (name, name:port, IPv4, IPv4:port, IPv6 literal with and without brackets,
// [v6]:port, upper case, trailing dot) the target in domain+ / domain++ must be the written host
// (lower-cased, without brackets, port and trailing dot) joined with the destination port: a
// well-formed host:port that net.SplitHostPort takes apart into exactly those two.
func verifC18ViaSniffer(m *vk.Monitor, cp *ControlPlane) {
	type hv struct{ written, host string }
	vals := []hv{
		{"example.com", "example.com"}, {"Example.COM", "example.com"}, {"example.com:8443", "example.com"}, {"example.com.", "example.com"},
		{"1.2.3.4", "1.2.3.4"}, {"1.2.3.4:8080", "1.2.3.4"},
		{"2001:db8::1", "2001:db8::1"}, {"2001:DB8::1", "2001:db8::1"}, {"::1", "::1"}, {"::ffff:192.0.2.7", "::ffff:192.0.2.7"}, {"2001:db8::", "2001:db8::"},
		{"[2001:db8::1]", "2001:db8::1"}, {"[2001:db8::1]:8443", "2001:db8::1"}, {"[::ffff:192.0.2.7]:80", "::ffff:192.0.2.7"},
	}
	saved := cp.dialMode
	defer func() { cp.dialMode = saved }()
	for _, mode := range []consts.DialMode{consts.DialMode_DomainPlus, consts.DialMode_DomainCao} {
		cp.dialMode = mode
		for _, dst := range []netip.AddrPort{netip.MustParseAddrPort("198.51.100.1:443"), netip.MustParseAddrPort("[2001:db8:1::1]:8080")} {
			for _, v := range vals {
				sniffed := sniffing.NormalizeDomain(v.written)
				target, _, _ := cp.ChooseDialTarget(consts.OutboundUserDefinedMin, dst, sniffed)
				m.Eval(1)
				m.Count("via_sniffer_cells", 1)
				m.Distinct(fmt.Sprintf("via-sniffer|%s|%s|%v", mode, v.written, dst.Addr().Is4()))
				h, p, err := net.SplitHostPort(target)
				want := net.JoinHostPort(v.host, fmt.Sprint(dst.Port()))
				if err != nil || h != v.host || p != fmt.Sprint(dst.Port()) {
					m.Violation("via-sniffer/wrong-or-malformed-target", fmt.Sprintf("Host %q (handed over by the sniffer as %q), dial_mode %s: target %q, want %q", v.written, sniffed, mode, target, want),
						map[string]any{"host_header": v.written, "sniffed": sniffed, "dial_mode": fmt.Sprint(mode), "destination": dst.String(), "target": target})
					return
				}
			}
		}
	}
}
