package control

// C18 sub-monitor: for how long a sniffed name counts as "known genuine
// (resolved through dae)" in dial_mode domain. Histories of scoped cache
// inserts (several as-is resolvers answering the same question), removals,
// janitor runs and fixed_domain_ttl settings; the dial target is probed
//   - while some currently cached answer is inside its ORIGINAL TTL  -> the name;
//   - after the original TTL of EVERY answer ever resolved has passed -> the IP
// (the name is negative-cached for the real-domain probe, so DNS knowledge is
// the only thing that can vouch for it). Probes in between carry no verdict.

import (
	"context"
	"fmt"
	"math/rand/v2"
	"net/netip"
	"sync"
	"time"

	"github.com/bits-and-blooms/bloom/v3"
	"github.com/daeuniverse/dae/common/consts"
	"github.com/daeuniverse/dae/component/dns"
	"github.com/daeuniverse/dae/config"
	vk "github.com/daeuniverse/dae/verifkit"
	dnsmessage "github.com/miekg/dns"
)

func verifC18KnowledgeHistories(m *vk.Monitor) {
	n := vk.Scale(24, 300)
	var wg sync.WaitGroup
	sem := make(chan struct{}, 24)
	for i := 0; i < n; i++ {
		wg.Add(1)
		sem <- struct{}{}
		go func(id int) {
			defer wg.Done()
			defer func() { <-sem }()
			verifC18KnowledgeHistory(m, id)
		}(i)
	}
	wg.Wait()
}

func verifC18KnowledgeHistory(m *vk.Monitor, id int) {
	r := rand.New(rand.NewPCG(vk.Seed(), 0xC18000+uint64(id)))
	log := verifQuietLog()
	name := fmt.Sprintf("k%d.example", id)
	fixed := map[string]int{}
	fixedKind := "none"
	switch r.IntN(3) {
	case 0:
		fixed[name], fixedKind = 3600, "longer"
	case 1:
		fixed[name], fixedKind = 0, "zero"
	}
	routing, err := dns.New(&config.Dns{Routing: config.DnsRouting{
		Request:  config.DnsRequestRouting{Fallback: "asis"},
		Response: config.DnsResponseRouting{Fallback: "accept"},
	}}, &dns.NewOption{Logger: log, UpstreamReadyCallback: func(*dns.Upstream) error { return nil }})
	if err != nil {
		m.Inconclusive("dns.New: %v", err)
		return
	}
	ctrl, err := NewDnsController(routing, &DnsControllerOption{
		Log:              log,
		LifecycleContext: context.Background(),
		NewCache: func(fqdn string, answers, ns, extra []dnsmessage.RR, deadline time.Time, originalDeadline time.Time) (*DnsCache, error) {
			return &DnsCache{NS: ns, Extra: extra, Answer: answers, Deadline: deadline, OriginalDeadline: originalDeadline}, nil
		},
		FixedDomainTtl: fixed,
	})
	if err != nil {
		m.Inconclusive("NewDnsController: %v", err)
		return
	}
	defer ctrl.Close()
	ctx, cancel := context.WithCancel(context.Background())
	defer cancel()
	cp := &ControlPlane{realDomainSet: bloom.NewWithEstimates(2048, 0.001), log: log, ctx: ctx, cancel: cancel}
	cp.dnsController = ctrl
	cp.dialMode = consts.DialMode_Domain
	cp.realDomainNegSet.Store(name, time.Now().Add(time.Hour).UnixNano())

	resolvers := []string{"8.8.8.8:53", "1.1.1.1:53", "9.9.9.9:53"}
	base := ctrl.cacheKey(dnsmessage.Fqdn(name), dnsmessage.TypeA)
	keyOf := func(res string) string {
		return ctrl.responseCacheKey(base, &udpRequest{realDst: netip.MustParseAddrPort(res)}, consts.DnsRequestOutboundIndex_AsIs, nil)
	}
	type ent struct{ origEnd time.Time }
	cached := map[string]ent{} // by resolver
	var everEnd time.Time      // latest original deadline of any answer ever resolved (upper bound, measured after the call)
	var hist []string
	dst := netip.MustParseAddrPort("203.0.113.10:443")
	const guard = 30 * time.Millisecond

	probe := func() {
		t0 := time.Now()
		target, reroute, dialIp := cp.ChooseDialTarget(consts.OutboundUserDefinedMin, dst, name)
		t1 := time.Now()
		// lower bound of "some cached answer still inside its original TTL"
		var minCachedEnd time.Time
		for _, e := range cached {
			if minCachedEnd.IsZero() || e.origEnd.Before(minCachedEnd) {
				minCachedEnd = e.origEnd
			}
		}
		hist = append(hist, fmt.Sprintf("probe -> target=%q reroute=%v dialIp=%v", target, reroute, dialIp))
		m.Eval(1)
		switch {
		case len(cached) > 0 && t1.Before(minCachedEnd.Add(-300*time.Millisecond-guard)):
			// inside the original TTL of every cached answer (origEnd is an upper bound taken after
			// the insert returned; 300 ms of slack): must dial the name
			m.Count("knowledge_probe_inside_original_ttl", 1)
			m.Distinct("knowledge|inside|fixed=" + fixedKind + fmt.Sprintf("|cached=%d", len(cached)))
			if target != name+":443" || dialIp {
				m.Violation("knowledge/name-not-dialled-inside-original-ttl/fixed="+fixedKind,
					fmt.Sprintf("domain mode, name resolved through dae and inside its original TTL: target=%q dialIp=%v, want %q", target, dialIp, name+":443"),
					map[string]any{"history": hist, "fixed_domain_ttl": fixedKind})
			}
		case !everEnd.IsZero() && t0.After(everEnd.Add(guard)):
			m.Count("knowledge_probe_after_every_original_ttl", 1)
			m.Distinct("knowledge|after|fixed=" + fixedKind + fmt.Sprintf("|cached=%d", len(cached)))
			if target != dst.String() || !dialIp || reroute {
				m.Violation("knowledge/outlives-original-ttl/fixed="+fixedKind,
					fmt.Sprintf("domain mode, the original TTL of every answer resolved through dae is over (and the real-domain probe is negative): target=%q reroute=%v dialIp=%v, want %q,false,true", target, reroute, dialIp, dst.String()),
					map[string]any{"history": hist, "fixed_domain_ttl": fixedKind})
			}
		default:
			m.Count("knowledge_probe_ambiguous", 1)
		}
	}
	steps := 3 + r.IntN(5)
	for s := 0; s < steps && m.Violations() < 5; s++ {
		switch op := r.IntN(10); {
		case op < 4 || len(cached) == 0: // resolve through dae via one resolver
			res := resolvers[r.IntN(len(resolvers))]
			ttl := uint32(1 + r.IntN(2))
			rr, _ := dnsmessage.NewRR(fmt.Sprintf("%s. %d IN A 203.0.113.10", name, ttl))
			if err := ctrl.UpdateDnsCacheTtlWithKey(keyOf(res), dnsmessage.Fqdn(name), dnsmessage.TypeA, []dnsmessage.RR{rr}, nil, nil, int(ttl)); err != nil {
				m.Inconclusive("UpdateDnsCacheTtlWithKey: %v", err)
				return
			}
			end := time.Now().Add(time.Duration(ttl) * time.Second)
			cached[res] = ent{end}
			if end.After(everEnd) {
				everEnd = end
			}
			hist = append(hist, fmt.Sprintf("resolve via %s ttl=%ds", res, ttl))
		case op < 6: // a scoped entry goes away (eviction / explicit removal)
			for res := range cached {
				ctrl.RemoveDnsRespCache(keyOf(res))
				delete(cached, res)
				hist = append(hist, "remove entry of "+res)
				m.Count("knowledge_sibling_removed", 1)
				break
			}
		case op < 7:
			ctrl.evictExpiredDnsCache(time.Now())
			for res, e := range cached {
				if time.Now().After(e.origEnd) || fixedKind == "zero" {
					delete(cached, res) // may be gone; stop relying on it
				}
			}
			hist = append(hist, "janitor")
		case op < 9:
			d := time.Duration(100+r.IntN(500)) * time.Millisecond
			time.Sleep(d)
			hist = append(hist, fmt.Sprintf("sleep %v", d))
		default:
			if !everEnd.IsZero() {
				if d := time.Until(everEnd.Add(3 * guard)); d > 0 {
					time.Sleep(d)
					hist = append(hist, fmt.Sprintf("sleep %v (past every original TTL)", d))
				}
			}
		}
		probe()
	}
	if !everEnd.IsZero() {
		if d := time.Until(everEnd.Add(3 * guard)); d > 0 {
			time.Sleep(d)
		}
		hist = append(hist, "sleep past every original TTL")
		probe()
	}
	if m.WantSample() {
		m.Sample(map[string]any{"knowledge_history": hist, "fixed_domain_ttl": fixedKind})
	}
}
