package control

// C07 monitor, level 2t: the transport that delivers an upstream's answer must not change how the
// answer is routed.
//
// The upstreams of a generated dns section are rewritten to every documented scheme (udp, tcp,
// tcp+udp / udp+tcp, tls, https, quic, h3 / http3; docs/en/configuration/dns.md "Schema"), the
// section goes through the production front end, and questions are sent through a DnsController
// whose scripted network distinguishes the ATTEMPTS at one upstream by transport: an attempt is
// answered, refused, times out, or (UDP) comes back truncated. For tcp+udp upstreams the UDP
// attempt mostly fails so that the answer arrives over the TCP attempt dae makes next.
//
// Oracle (verifkit.RefDnsWalk, which knows upstream tags only, no transports): the upstreams that
// ANSWERED, in order, are the reference walk's calls (a prefix of them when the script leaves an
// upstream of the walk unable to answer at all), every failed attempt was made at the upstream the
// walk is at, and the client gets what the first matching response rules make of the answers.
// Whether dae retries over another transport is not judged (the statement is silent): giving up
// with an error is recorded only.

import (
	"context"
	"fmt"
	"math/rand/v2"
	"net"
	"net/netip"
	"os"
	"strings"
	"sync"
	"syscall"

	"github.com/daeuniverse/dae/common/consts"
	"github.com/daeuniverse/dae/component/dns"
	vk "github.com/daeuniverse/dae/verifkit"
	dnsmessage "github.com/miekg/dns"
)

// verifC07TSchemes: as written in the section -> (documented transports, first one is tried first).
var verifC07TSchemes = map[string][]string{
	"udp":     {"udp"},
	"tcp":     {"tcp"},
	"tcp+udp": {"udp", "tcp"},
	"udp+tcp": {"udp", "tcp"},
	"tls":     {"tcp"},
	"https":   {"tcp"},
	"quic":    {"udp"},
	"h3":      {"udp"},
	"http3":   {"udp"},
}

var verifC07TSchemePool = []string{"tcp+udp", "tcp+udp", "tcp+udp", "udp+tcp", "udp", "tcp", "tls", "https", "quic", "h3", "http3"}

type verifC07TAttempt struct {
	Tag    string
	L4     string
	Scheme string // scheme of the upstream object the forwarder was created for
	How    string // answer | refused | timeout | truncated
	Name   string
	Qtype  uint16
}

type verifC07TNet struct {
	mu       sync.Mutex
	host2tag map[string]string
	book     map[string][]vk.DRR
	script   map[string]map[string]string // tag -> l4proto -> answer | refused | timeout | truncated
	preferT  map[string]bool              // two-transport upstream: the dialer chooser prefers TCP for this question
	attempts []verifC07TAttempt
}

type verifC07TForwarder struct {
	n      *verifC07TNet
	host   string
	scheme string
	l4     string
}

// verifC07TCur: scripted network of the level 2t controller currently running in the main loop.
var verifC07TCur *verifC07TNet

func (f *verifC07TForwarder) Close() error { return nil }

func (f *verifC07TForwarder) ForwardDNS(ctx context.Context, data []byte) (*dnsmessage.Msg, error) {
	var req dnsmessage.Msg
	if err := req.Unpack(data); err != nil {
		return nil, fmt.Errorf("fake upstream: cannot unpack query: %w", err)
	}
	f.n.mu.Lock()
	defer f.n.mu.Unlock()
	tag, ok := f.n.host2tag[f.host]
	if !ok {
		tag = "?" + f.host
	}
	how := f.n.script[tag][f.l4]
	if how == "" {
		how = "answer"
	}
	a := verifC07TAttempt{Tag: tag, L4: f.l4, Scheme: f.scheme, How: how}
	if len(req.Question) > 0 {
		a.Name, a.Qtype = req.Question[0].Name, req.Question[0].Qtype
	}
	f.n.attempts = append(f.n.attempts, a)
	resp := new(dnsmessage.Msg)
	resp.SetReply(&req)
	resp.RecursionAvailable = true
	switch how {
	case "refused":
		return nil, &net.OpError{Op: "dial", Net: f.l4, Err: os.NewSyscallError("connect", syscall.ECONNREFUSED)}
	case "timeout":
		return nil, &net.OpError{Op: "read", Net: f.l4, Err: os.ErrDeadlineExceeded}
	case "truncated":
		// what dae's UDP transport hands back for TC=1: the (answerless) message and ErrDNSTruncated
		resp.Truncated = true
		return resp, ErrDNSTruncated
	}
	if len(req.Question) > 0 {
		resp.Answer = verifC07RRs(req.Question[0].Name, f.n.book[tag])
	}
	return resp, nil
}

// verifC07TRewrite gives every upstream of p one of the documented schemes; at least one upstream
// gets the two-transport scheme.
func verifC07TRewrite(rr *rand.Rand, p *vk.DProg) (pt *vk.DProg, scheme map[string]string) {
	pt = p.Clone()
	scheme = map[string]string{"asis": "udp"}
	two := rr.IntN(len(pt.Upstreams))
	for k := range pt.Upstreams {
		u := &pt.Upstreams[k]
		s := verifC07TSchemePool[rr.IntN(len(verifC07TSchemePool))]
		if k == two && len(verifC07TSchemes[s]) < 2 {
			s = []string{"tcp+udp", "tcp+udp", "udp+tcp"}[rr.IntN(3)]
		}
		scheme[u.Tag] = s
		host := u.Host
		if strings.Contains(host, ":") {
			host = "[" + host + "]"
		}
		port := ":53"
		path := ""
		switch s {
		case "tls", "quic":
			port = []string{":853", ""}[rr.IntN(2)]
		case "https", "h3", "http3":
			port = []string{":443", "", ":8443"}[rr.IntN(3)]
			path = []string{"", "/dns-query", "/custom-path"}[rr.IntN(3)]
		default:
			if rr.IntN(4) == 0 {
				port = ""
			}
		}
		u.Link = s + "://" + host + port + path
	}
	return pt, scheme
}

// verifC07Transport runs level 2t for one generated program.
func verifC07Transport(m *vk.Monitor, rr *rand.Rand, p *vk.DProg, qs []vk.DQuestion, nask int) {
	pt, scheme := verifC07TRewrite(rr, p)
	b, err := verifC07Build(pt)
	if err != nil {
		m.Violation("build-error/upstream-schemes", "well-formed generated dns section (documented upstream schemes) rejected or crashed: "+err.Error(),
			map[string]any{"text": pt.Text(), "error": err.Error()})
		return
	}
	m.Count("l2t_programs", 1)
	n := &verifC07TNet{host2tag: map[string]string{verifC07AsIsHost: "asis"}}
	tags := []string{"asis"}
	for _, u := range pt.Upstreams {
		n.host2tag[u.Host] = u.Tag
		tags = append(tags, u.Tag)
		m.Count("l2t_written_scheme_"+scheme[u.Tag], 1)
		// level 1 on the rewritten section: the scheme a link is written with must not matter to
		// upstream(...) conditions
		if up := b.ups[u.Tag]; up != nil {
			want := verifC07TSchemes[scheme[u.Tag]]
			_, l4s := up.SupportedNetworks()
			got := []string{}
			for _, l := range l4s {
				got = append(got, string(l))
			}
			if !verifC07SameStrings(got, want) {
				m.Count("l2t_transports_differ_from_documented_schema", 1) // transports are not C07's subject: recorded
			}
		}
	}
	verifC07TCur = n
	defer func() { verifC07TCur = nil }()

	opt := verifC07Option()
	opt.BestDialerChooser = func(ctx context.Context, req *udpRequest, upstream *dns.Upstream) (*dialArgument, error) {
		ipv := consts.IpVersionStr_4
		var target netip.AddrPort
		if upstream.Ip46 != nil && upstream.Ip4.IsValid() {
			target = netip.AddrPortFrom(upstream.Ip4, upstream.Port)
		} else if upstream.Ip46 != nil && upstream.Ip6.IsValid() {
			target = netip.AddrPortFrom(upstream.Ip6, upstream.Port)
			ipv = consts.IpVersionStr_6
		}
		// the documented transport of the scheme the upstream object carries; for the
		// two-transport scheme the one this question's script prefers (the production chooser
		// takes the lower-latency one)
		l4 := consts.L4ProtoStr_UDP
		switch string(upstream.Scheme) {
		case "tcp", "tls", "https":
			l4 = consts.L4ProtoStr_TCP
		case "tcp+udp", "udp+tcp":
			n.mu.Lock()
			if n.preferT[n.host2tag[upstream.Hostname]] {
				l4 = consts.L4ProtoStr_TCP
			}
			n.mu.Unlock()
		}
		return &dialArgument{l4proto: l4, ipversion: ipv, bestTarget: target}, nil
	}
	ctrl, err := NewDnsController(b.routing, opt)
	if err != nil {
		m.Inconclusive("NewDnsController failed: %v", err)
		return
	}
	defer ctrl.Close()

	// questions: one per cache key, those whose reference walk reaches a two-transport upstream first
	type cand struct {
		q    vk.DQuestion
		book map[string][]vk.DRR
		w    vk.DWalk
	}
	var hot, cold []cand
	seen := map[string]bool{}
	for _, q := range qs {
		if !strings.HasSuffix(q.Name, ".") {
			continue
		}
		key := strings.ToLower(q.Name) + fmt.Sprint(q.Qtype)
		if seen[key] {
			continue
		}
		seen[key] = true
		book := map[string][]vk.DRR{}
		for _, tg := range tags {
			book[tg] = vk.DProbeAnswer(pt, q, rr)
		}
		w := vk.RefDnsWalk(pt, q, book, MaxDnsLookupDepth)
		c := cand{q, book, w}
		isHot := false
		for _, tg := range w.Calls {
			if len(verifC07TSchemes[scheme[tg]]) == 2 {
				isHot = true
			}
		}
		if isHot {
			hot = append(hot, c)
		} else {
			cold = append(cold, c)
		}
	}
	if len(cold) > 2 {
		cold = cold[:2]
	}
	cands := append(hot, cold...)
	if len(cands) > nask {
		cands = cands[:nask]
	}

	id := uint16(3000)
	for _, c := range cands {
		q, book, w := c.q, c.book, c.w
		// the script of this question
		script := map[string]map[string]string{}
		preferT := map[string]bool{}
		for _, tg := range tags {
			tr := verifC07TSchemes[scheme[tg]]
			s := map[string]string{}
			if len(tr) == 2 {
				preferT[tg] = rr.IntN(6) == 0
				switch k := rr.IntN(10); {
				case k < 2:
					s["udp"] = "refused"
				case k < 4:
					s["udp"] = "timeout"
				case k < 7:
					s["udp"] = "truncated"
				default:
					s["udp"] = "answer"
				}
				s["tcp"] = "answer"
				if rr.IntN(10) == 0 {
					s["tcp"] = []string{"refused", "timeout"}[rr.IntN(2)]
				}
			} else {
				s[tr[0]] = "answer"
				if rr.IntN(14) == 0 {
					s[tr[0]] = []string{"refused", "timeout"}[rr.IntN(2)]
					if tr[0] == "udp" && rr.IntN(3) == 0 {
						s[tr[0]] = "truncated"
					}
				}
			}
			script[tg] = s
		}
		// which calls of the walk can be answered at all (some transport of the upstream answers),
		// and which only over the second transport dae's order of attempts gets to
		dead := -1
		overFallback := false
		for k, tg := range w.Calls {
			tr := verifC07TSchemes[scheme[tg]]
			first := tr[0]
			if len(tr) == 2 && preferT[tg] {
				first = "tcp"
			}
			can := false
			for _, t := range tr {
				if script[tg][t] == "answer" {
					can = true
				}
			}
			if !can {
				dead = k
				break
			}
			if script[tg][first] != "answer" {
				if first != "udp" {
					m.Count("l2t_call_answerable_only_over_udp_after_tcp_"+script[tg]["tcp"], 1)
				} else {
					overFallback = true
					m.Count("l2t_call_answerable_only_over_second_transport_after_"+script[tg]["udp"], 1)
					ips := vk.AnswerIPs(book[tg])
					d1, _ := vk.RefDnsResponse(pt, q, ips, tg)
					d2, _ := vk.RefDnsResponse(pt, q, ips, "asis")
					if d1 != d2 {
						kind := d1
						if kind != "accept" && kind != "reject" {
							kind = "reask"
						}
						m.Count("l2t_second_transport_answer_whose_routing_depends_on_the_answering_upstream", 1)
						m.Count("l2t_second_transport_answer_whose_routing_depends_on_the_answering_upstream_"+kind, 1)
					}
				}
			}
			if s := scheme[tg]; tg != "asis" {
				ips := vk.AnswerIPs(book[tg])
				d1, _ := vk.RefDnsResponse(pt, q, ips, tg)
				d2, _ := vk.RefDnsResponse(pt, q, ips, "asis")
				if d1 != d2 {
					m.Count("l2t_answer_whose_routing_depends_on_the_answering_upstream_scheme_"+s, 1)
				}
			}
		}
		if dead >= 0 {
			if len(verifC07TSchemes[scheme[w.Calls[dead]]]) == 2 {
				m.Count("l2t_two_transport_upstream_unable_to_answer", 1)
			} else {
				m.Count("l2t_single_transport_upstream_unable_to_answer", 1)
			}
		}

		n.mu.Lock()
		n.book, n.script, n.preferT, n.attempts = book, script, preferT, nil
		n.mu.Unlock()
		id++
		query := new(dnsmessage.Msg)
		query.Id = id
		query.RecursionDesired = true
		query.Question = []dnsmessage.Question{{Name: q.Name, Qtype: q.Qtype, Qclass: dnsmessage.ClassINET}}
		wr := &verifC07Writer{}
		var o verifC07Obs
		func() {
			defer func() {
				if r := recover(); r != nil {
					o.Panic = fmt.Sprint(r)
				}
			}()
			if err := ctrl.HandleWithResponseWriter_(context.Background(), query, verifC07Req, wr); err != nil {
				o.Err = err.Error()
			}
		}()
		n.mu.Lock()
		attempts := append([]verifC07TAttempt(nil), n.attempts...)
		n.mu.Unlock()
		if wr.msg != nil {
			o.Replied = true
			o.Answer = verifC07AnswerStrings(wr.msg.Answer)
			o.Rcode = wr.msg.Rcode
		}
		m.Eval(1)
		m.Count("l2t_cases", 1)
		m.Count("l2t_final_"+w.Final, 1)
		via := "first-transport"
		if overFallback {
			via = "second-transport"
		}
		dk := "all-answerable"
		if dead >= 0 {
			dk = "unanswerable-upstream"
		}
		m.Distinct(fmt.Sprintf("L2T|%s|%d|%s|%s", w.Final, len(w.Calls), via, dk))

		wit := func() map[string]any {
			bk := map[string][]string{}
			for k, v := range book {
				bk[k] = verifC07WantStrings(v)
			}
			prefer := map[string]string{}
			for tg, t := range preferT {
				if len(verifC07TSchemes[scheme[tg]]) == 2 {
					prefer[tg] = map[bool]string{false: "udp", true: "tcp"}[t]
				}
			}
			exp := map[string]any{"calls": w.Calls, "final": w.Final, "answer": verifC07WantStrings(w.Answer), "request_rule": w.ReqRule, "response_rules": w.RespRules}
			if dead >= 0 {
				exp["upstream_of_call_unable_to_answer"] = dead
			}
			return map[string]any{"text": pt.Text(), "qname": q.Name, "qtype": q.Qtype, "upstream_answers": bk,
				"transport_script": script, "dialer_prefers": prefer, "expected": exp,
				"observed": map[string]any{"attempts": attempts, "reply": o}}
		}
		if o.Panic != "" {
			m.Violation("transport/panic", "DNS handler panicked: "+o.Panic, wit())
			continue
		}
		if strings.Contains(o.Err, "context deadline exceeded") || strings.Contains(o.Err, "context canceled") {
			m.Count("l2t_ambiguous_handler_timeout", 1) // dae's own budgets fired: the machine stalled
			continue
		}
		// attempts: the answered ones are the calls of the walk
		var answered []string
		bad := ""
		limit := len(w.Calls)
		if dead >= 0 {
			limit = dead
		}
		secondUsed := false
		for i, a := range attempts {
			if a.Name != q.Name || a.Qtype != q.Qtype {
				bad = "question-altered"
				break
			}
			m.Count("l2t_attempt_"+a.L4+"_"+a.How, 1)
			at := len(answered) // the call of the walk this attempt belongs to
			if a.How == "answer" {
				if at >= limit || w.Calls[at] != a.Tag {
					bad = "wrong-upstream-sequence"
					break
				}
				answered = append(answered, a.Tag)
				m.Count("l2t_answered_by_scheme_"+scheme[a.Tag], 1)
				if i > 0 && attempts[i-1].Tag == a.Tag && attempts[i-1].How != "answer" {
					secondUsed = true
					m.Count("l2t_answer_over_second_transport_after_"+attempts[i-1].How, 1)
				}
				continue
			}
			if at >= len(w.Calls) || w.Calls[at] != a.Tag {
				bad = "attempt-at-wrong-upstream"
				break
			}
		}
		sv := via
		if secondUsed {
			sv = "second-transport"
		}
		got := []string{}
		for _, a := range attempts {
			got = append(got, a.Tag+"/"+a.L4+":"+a.How)
		}
		switch bad {
		case "question-altered":
			m.Violation("transport/question-altered", "an upstream received a different question than the client asked", wit())
			continue
		case "wrong-upstream-sequence", "attempt-at-wrong-upstream":
			m.Violation("transport/"+bad+"/"+sv, fmt.Sprintf("attempts %v: the upstreams that answer must be, in order, %v%s (reference walk by the first matching rules; the transport an answer arrives over does not enter)",
				got, w.Calls, map[bool]string{false: "", true: fmt.Sprintf(" up to call %d, whose upstream cannot answer", dead)}[dead >= 0]), wit())
			continue
		}
		if len(attempts) > 2*MaxDnsLookupDepth {
			m.Count("l2t_more_than_two_attempts_per_call", 1) // answered attempts are bounded by the walk (above); how often a failing upstream is retried is not C07's subject
		}
		if len(answered) < len(w.Calls) {
			// dae stopped before the end of the walk: fine only as a failure
			switch {
			case o.Replied && len(o.Answer) > 0:
				m.Violation("transport/chain-cut-short/"+sv, fmt.Sprintf("attempts %v, reference walk %v: client was given %v although the walk had not ended", got, w.Calls, o.Answer), wit())
			case o.Replied && dead < 0:
				m.Violation("transport/chain-cut-short/"+sv, fmt.Sprintf("attempts %v, reference walk %v: client was given an empty reply although the walk had not ended", got, w.Calls), wit())
			case dead >= 0 && len(answered) == dead:
				m.Count("l2t_failed_at_the_unanswerable_upstream", 1)
			default:
				m.Count("l2t_gave_up_although_another_transport_would_answer", 1)
			}
			continue
		}
		switch w.Final {
		case "reject":
			if !o.Replied || len(o.Answer) != 0 {
				m.Violation("transport/reject-not-empty/"+sv, fmt.Sprintf("reject must be answered with an empty answer; replied=%v answer=%v err=%q", o.Replied, o.Answer, o.Err), wit())
				continue
			}
		case "accept":
			if !o.Replied || !verifC07SameStrings(o.Answer, verifC07WantStrings(w.Answer)) {
				m.Violation("transport/accept-answer-differs/"+sv, fmt.Sprintf("accepted answer must be the answering upstream's: want %v got %v (replied=%v err=%q)", verifC07WantStrings(w.Answer), o.Answer, o.Replied, o.Err), wit())
				continue
			}
		case "too-deep":
			if o.Replied && len(o.Answer) != 0 {
				m.Count("l2t_too_deep_replied_with_records", 1)
			}
		}
		m.Count("l2t_judged_complete_walk", 1)
		if secondUsed {
			m.Count("l2t_judged_complete_walk_with_answer_over_second_transport", 1)
		}
	}
}

var verifC07TRequired = []string{
	"l2t_cases", "l2t_judged_complete_walk", "l2t_judged_complete_walk_with_answer_over_second_transport",
	"l2t_answer_over_second_transport_after_refused", "l2t_answer_over_second_transport_after_timeout", "l2t_answer_over_second_transport_after_truncated",
	"l2t_second_transport_answer_whose_routing_depends_on_the_answering_upstream_reask",
	"l2t_second_transport_answer_whose_routing_depends_on_the_answering_upstream_reject",
	"l2t_second_transport_answer_whose_routing_depends_on_the_answering_upstream_accept",
	"l2t_two_transport_upstream_unable_to_answer", "l2t_single_transport_upstream_unable_to_answer", "l2t_failed_at_the_unanswerable_upstream",
	"l2t_answered_by_scheme_udp", "l2t_answered_by_scheme_tcp", "l2t_answered_by_scheme_tcp+udp", "l2t_answered_by_scheme_udp+tcp",
	"l2t_answered_by_scheme_tls", "l2t_answered_by_scheme_https", "l2t_answered_by_scheme_quic", "l2t_answered_by_scheme_h3", "l2t_answered_by_scheme_http3",
	"l2t_answer_whose_routing_depends_on_the_answering_upstream_scheme_tls", "l2t_answer_whose_routing_depends_on_the_answering_upstream_scheme_https",
	"l2t_answer_whose_routing_depends_on_the_answering_upstream_scheme_quic", "l2t_answer_whose_routing_depends_on_the_answering_upstream_scheme_h3",
	"l2t_final_accept", "l2t_final_reject", "l2t_final_too-deep",
}
