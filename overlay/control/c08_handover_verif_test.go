package control

// C08 monitor, part 3: the histories of the property run ACROSS the reload
// hand-over paths that carry the cache to the next generation (driver and oracle
// live in c08_dnscache_verif_test.go; these histories only generate workloads,
// keep the reference model's last-use brackets / deadlines across the hand-over
// and feed the same token/bracket oracle).
//
// Hand-over shapes (all production functions, called the way the daemon calls them):
//
//	clone-restore  CloneCacheForReload on the running controller, RestoreReloadCache
//	               into a controller freshly built by NewDnsController with the NEXT
//	               generation's options (ControlPlane.replayDnsReloadCache)
//	self-restore   CloneCacheForReload + RestoreReloadCache into the SAME controller
//	               (ControlPlane.RebuildReloadDatapath after a failed staged reload)
//	reuse          ReuseForReload with the next generation's options: the successor
//	               is a fresh facade over the shared store (reuseDNSControllerFrom)
//
//   - "handover-lru": entries with distinct last-use brackets in the running
//     generation, hand-over at a random point, then on the successor the size limit
//     bites (limit lowered by the reload, predecessor already over its limit with no
//     janitor run since, or over-limit insertion on the successor) BEFORE any restored
//     entry was looked up again, or after some of them were; later rounds mix last
//     uses of both generations, optionally across a second hand-over. Oracle: the
//     LRU oracle of runLRU, an entry's last use being its last lookup in EITHER
//     generation (bracket [a0,a1] around the lookup; a survivor whose bracket ends
//     more than 1 ms before an evicted entry's bracket begins is a violation), plus
//     the size verdicts of runReconfSize for the limit in force on the successor.
//     Time plays no role: entries carry TTL 1 h (or are "never expire" entries,
//     optimistic_cache_ttl=0 with a size limit in both generations).
//
//   - "handover-timing": the timing history of runReconf with hand-overs instead of
//     in-place updates: an entry's Deadline is read once after its insert and all
//     later probes, on whichever generation, are judged against it and the stale
//     window of the configuration IN FORCE on the generation asked (hand-over must
//     neither extend nor reset a deadline; an entry expired before the hand-over must
//     not be fresh after it). Probes of never-obtained neighbours (other scope,
//     other type, other upstream at the same routing index, near names) continue on
//     the successor. fixed_domain_ttl: the entry of the carried name is the same in
//     every generation (what a changed entry means for answers already cached is not
//     stated); a second name, inserted only on successors, has a DIFFERENT entry in
//     each generation, and its stored Deadline is validated against the successor's.
//     Where the successor's configuration equals the predecessor's, "still served
//     while fresh / inside the window" is judged as on a single controller; where it
//     differs only "must not be served" is (as in the runtime-update histories).

import (
	"fmt"
	"strings"
	"time"

	dnsmessage "github.com/miekg/dns"
)

var c08HandoverVias = []string{"clone-restore", "self-restore", "reuse"}

// handover carries the cache of cc to the next generation. next/nextFixed are
// the successor's options (ignored by self-restore: the same controller goes on).
// The reference model's slots (current generation of every key, its Deadline) go
// with it. Returns nil if the successor could not be built.
func (h *c08Hist) handover(cc *c08Ctrl, via string, next c08Cfg, nextFixed map[string]int) (succ *c08Ctrl) {
	defer h.guard("handover")
	m := h.env.m
	prev := h.cfg
	n := 0
	switch via {
	case "clone-restore":
		prevFixed := h.fixed
		h.cfg, h.fixed = next, nextFixed
		to := h.newCtrl("clone")
		if to == nil {
			h.cfg, h.fixed = prev, prevFixed
			return nil
		}
		entries := cc.c.CloneCacheForReload()
		n = to.c.RestoreReloadCache(entries, c08Bitmap, time.Now())
		now := time.Now()
		for k, s := range cc.slots {
			cp := *s
			cp.since, cp.inFlight = now, false // the clone has its own, reset, refreshing flag
			to.slots[k] = &cp
		}
		succ = to
	case "self-restore":
		next = prev
		entries := cc.c.CloneCacheForReload()
		n = cc.c.RestoreReloadCache(entries, c08Bitmap, time.Now())
		now := time.Now()
		for _, s := range cc.slots {
			s.since, s.inFlight = now, false
		}
		succ = &c08Ctrl{id: len(h.ctrls), c: cc.c, by: "clone", slots: cc.slots}
		h.ctrls = append(h.ctrls, succ)
	case "reuse":
		nc, err := cc.c.ReuseForReload(h.env.option(next, nextFixed), h.env.routing)
		if err != nil || nc == nil {
			m.Inconclusive("ReuseForReload with valid options failed: %v", err)
			return nil
		}
		h.cfg, h.fixed = next, nextFixed
		succ = &c08Ctrl{id: len(h.ctrls), c: nc, by: cc.by, slots: cc.slots}
		h.ctrls = append(h.ctrls, succ)
	default:
		panic("c08: unknown hand-over shape " + via)
	}
	changed := next.Opt != prev.Opt || next.Stale != prev.Stale || next.Max != prev.Max
	if changed {
		for _, s := range succ.slots {
			// The entry lives under two configurations; the statement does not say that it must
			// survive the change. From here on only "must NOT be served" is judged for it.
			s.lru = true
		}
		m.Count("handover_config_changed", 1)
	} else {
		m.Count("handover_config_unchanged", 1)
	}
	h.sigCtx = "/after-reload-handover"
	h.tr("HAND-OVER via=%s ctrl=%d -> ctrl=%d entries=%d: %s -> %s fixed=%v", via, cc.id, succ.id, n, prev.cell(), h.cfg.cell(), h.fixed)
	m.Count("handover_via_"+via, 1)
	m.Distinct(fmt.Sprintf("%s|handover|%s|changed=%v|%s", prev.cell(), via, changed, h.kind))
	return succ
}

// ---- history kind 8: LRU order and size limit across the hand-over ------------------

type c08HoEnt struct {
	c08LruEnt
	useGen int // number of hand-overs that had happened at the last use
}

func (h *c08Hist) runHandoverLRU(ord int) {
	defer h.closeAll()
	defer h.guard("handover-lru-history")
	r := h.r
	m := h.env.m
	sc := c08AsIs(c08AsIsPool[r.IntN(len(c08AsIsPool))])
	via := c08HandoverVias[ord%3]
	shape := []string{"janitor-before-any-lookup", "overlimit-insertion-on-successor", "some-looked-up-on-successor"}[(ord/3)%3]
	n0 := 5 + r.IntN(8) // entries obtained by the running generation: 5..12

	// limits of the two generations
	var maxA, maxB int
	switch {
	case shape == "overlimit-insertion-on-successor":
		maxA = n0 + r.IntN(2) // not exceeded until the successor obtains more answers
		maxB = maxA
	case via == "self-restore":
		maxA = 2 + r.IntN(n0-2) // 2..n0-1: already over the limit at the hand-over, no janitor run since
		maxB = maxA
	default:
		maxA = []int{0, n0 + 3, n0 - 1 - r.IntN(2)}[r.IntN(3)] // none / roomy / already exceeded
		maxB = 1 + r.IntN(n0-2)                                 // the reload lowers the limit below what is cached
	}
	cfgA := c08Cfg{Opt: r.IntN(2) == 0, Stale: r.IntN(3), Max: maxA, Fixed: "none"}
	cfgB := c08Cfg{Opt: r.IntN(2) == 0, Stale: r.IntN(3), Max: maxB, Fixed: "none"}
	if via == "self-restore" || r.IntN(3) == 0 {
		cfgB.Opt, cfgB.Stale = cfgA.Opt, cfgA.Stale
	}
	ttl := uint32(3600) // far beyond any starvation of the history: these entries never expire while it runs
	neverExpire := cfgA.Opt && cfgA.Stale == 0 && maxA > 0 && maxB > 0 && r.IntN(2) == 0
	if neverExpire {
		// expired entries that never expire (optimistic_cache_ttl=0 with a size limit, in both generations)
		cfgB.Opt, cfgB.Stale = true, 0
		ttl = 1
	}
	h.cfg = cfgA
	h.name = fmt.Sprintf("h%d.c08.test.", h.id)
	cur := h.newCtrl("insert")
	if cur == nil {
		return
	}
	gen := 0
	var ents []*c08HoEnt
	probeReq := sc.req(r)
	ksOf := func(e *c08HoEnt) string { return h.keyString(cur, e.name, dnsmessage.TypeA, sc, probeReq) }
	present := func(e *c08HoEnt) bool { _, ok := cur.c.dnsCache.Load(ksOf(e)); return ok }
	touch := func(e *c08HoEnt) {
		t0 := time.Now()
		h.lookup(cur, e.name, dnsmessage.TypeA, sc, 1, false)
		e.a0, e.a1, e.used, e.useGen = t0, time.Now(), true, gen
		time.Sleep(time.Duration(2500+r.IntN(2000)) * time.Microsecond)
	}
	add := func(n int) {
		for i := 0; i < n; i++ {
			e := &c08HoEnt{}
			e.name = fmt.Sprintf("e%d.h%d.c08.test.", len(ents), h.id)
			e.k = c08Key{LName: e.name, Qtype: dnsmessage.TypeA, Scope: sc.label}
			if h.insert(cur, e.name, dnsmessage.TypeA, sc, ttl) == nil {
				continue
			}
			cur.slots[e.k].lru = true
			ents = append(ents, e)
			if r.IntN(8) != 0 { // production looks up right after the insert
				touch(e)
			}
		}
	}
	live := func() (l []*c08HoEnt) {
		for _, e := range ents {
			if present(e) {
				l = append(l, e)
			}
		}
		return
	}
	// round: one janitor run on jc (a facade of the store cur serves from) and the verdicts on it.
	round := func(tag string, jc *c08Ctrl) bool {
		before := live()
		if neverExpire {
			time.Sleep(50 * time.Millisecond)
		}
		h.janitor(jc)
		var surv, evic []*c08HoEnt
		for _, e := range before {
			if present(e) {
				surv = append(surv, e)
			} else {
				evic = append(evic, e)
				cur.slots[e.k].gone = true
			}
		}
		m.Eval(1)
		max := h.cfg.Max // the limit IN FORCE on this generation
		h.tr("%s: before=%d survivors=%d evicted=%d max_in_force=%d", tag, len(before), len(surv), len(evic), max)
		want := len(before)
		if max > 0 && want > max {
			want = max
		}
		switch {
		case len(surv) < want:
			h.violate("evicted-within-size-limit", fmt.Sprintf("janitor left %d live entries although max_cache_size=%d is in force and %d were present", len(surv), max, len(before)), nil)
		case max > 0 && len(surv) > max:
			h.violate("size-limit-in-force-not-applied", fmt.Sprintf("max_cache_size=%d is in force, %d live entries were present, and a janitor run on the otherwise idle controller evicted %d of them (%d left)", max, len(before), len(evic), len(surv)), nil)
		case len(evic) > 0:
			m.Count("handover_lru_exact_size_after_janitor", 1)
		}
		if len(evic) > 0 && gen > 0 {
			m.Count("handover_lru_evictions_on_successor", int64(len(evic)))
			m.Distinct(fmt.Sprintf("%s|handover-lru|%s|%s|n=%d|evict=%d|never-expire=%v", h.cfg.cell(), via, tag, len(before), len(evic), neverExpire))
		}
		for _, s := range surv {
			if !s.used {
				m.Count("handover_lru_never_accessed_survived", 1)
				continue
			}
			for _, v := range evic {
				if !v.used {
					m.Count("handover_lru_never_accessed_evicted", 1)
					continue
				}
				m.Count("handover_lru_pairs_checked", 1)
				switch {
				case gen > 0 && s.useGen < gen && v.useGen < gen:
					m.Count("handover_lru_pairs_both_last_used_before_handover", 1)
				case gen > 0 && (s.useGen < gen || v.useGen < gen):
					m.Count("handover_lru_pairs_last_used_in_different_generations", 1)
				}
				if s.a1.Add(time.Millisecond).Before(v.a0) {
					h.violate("lru-order", "a surviving entry was last used strictly before an evicted one (last use = last lookup in either generation)",
						map[string]any{"round": tag, "handover_shape": via, "survivor": s.name, "evicted": v.name,
							"survivor_last_use_ms": ms(s.a1.Sub(h.start)), "evicted_last_use_ms": ms(v.a0.Sub(h.start)),
							"survivor_last_used_in_generation": s.useGen, "evicted_last_used_in_generation": v.useGen, "generation_now": gen})
					return false
				}
			}
		}
		// survivors must still answer
		for _, s := range surv {
			if r.IntN(2) == 0 {
				cur.slots[s.k].lru = false
				touch(s)
				cur.slots[s.k].lru = true
			}
		}
		return true
	}
	doHandover := func(v string, next c08Cfg) bool {
		before := live()
		to := h.handover(cur, v, next, nil)
		if to == nil {
			return false
		}
		cur = to
		gen++
		var kept, lost []*c08HoEnt
		for _, e := range before {
			if present(e) {
				kept = append(kept, e)
			} else {
				lost = append(lost, e)
			}
		}
		if len(lost) == 0 {
			return true
		}
		// Whether answers must survive a reload is not stated: evidence only. One case is stated: if
		// the successor's size limit is what explains the loss (more was cached than it allows, and
		// exactly down to / not below the limit was carried), the entries dropped for size must be
		// the least recently used ones.
		m.Count("handover_lru_entries_absent_after_handover", int64(len(lost)))
		for _, e := range lost {
			cur.slots[e.k].gone = true
		}
		if max := h.cfg.Max; max > 0 && len(before) > max && len(kept) >= max {
			m.Count("handover_lru_entries_dropped_for_size_at_handover", int64(len(lost)))
			for _, s := range kept {
				for _, l := range lost {
					if s.used && l.used && s.a1.Add(time.Millisecond).Before(l.a0) {
						h.violate("lru-order/dropped-at-handover", "the hand-over dropped entries because of the successor's size limit, and a carried entry was last used strictly before a dropped one",
							map[string]any{"handover_shape": v, "carried": s.name, "dropped": l.name, "max_cache_size_of_successor": max,
								"cached_before": len(before), "carried_count": len(kept),
								"carried_last_use_ms": ms(s.a1.Sub(h.start)), "dropped_last_use_ms": ms(l.a0.Sub(h.start))})
						return false
					}
				}
			}
		}
		return true
	}

	// ---- the running generation
	add(n0)
	if neverExpire {
		time.Sleep(1100 * time.Millisecond)
	}
	if l := live(); len(l) > 0 {
		for i := 0; i < 2*len(l); i++ {
			touch(l[r.IntN(len(l))])
		}
	}
	if maxA > 0 && maxA < n0 && via != "self-restore" && r.IntN(2) == 0 {
		if !round("predecessor", cur) {
			return
		}
		add(1 + r.IntN(3)) // over the limit again, no janitor run before the reload
	}
	if r.IntN(4) == 0 {
		// an answer is refreshed (a new entry object under the same key) shortly before the reload
		if l := live(); len(l) > 0 {
			e := l[r.IntN(len(l))]
			if h.insert(cur, e.name, dnsmessage.TypeA, sc, ttl) != nil {
				cur.slots[e.k].lru = true
				e.used = false
				if r.IntN(4) != 0 {
					touch(e)
				}
				m.Count("handover_lru_reinserted_before_handover", 1)
			}
		}
	}

	// ---- hand-over, then the size limit bites on the successor
	pred := cur
	if !doHandover(via, cfgB) {
		return
	}
	jc := cur
	if via == "reuse" && r.IntN(2) == 0 {
		jc = pred // the store's janitor goroutine belongs to the facade that started it
	}
	switch shape {
	case "janitor-before-any-lookup":
	case "overlimit-insertion-on-successor":
		k := h.cfg.Max - len(live()) + 1 + r.IntN(2)
		if k < 1 {
			k = 1
		}
		add(k)
		if neverExpire {
			time.Sleep(1100 * time.Millisecond)
		}
	case "some-looked-up-on-successor":
		if l := live(); len(l) > 1 {
			for i, k := 0, 1+r.IntN(len(l)/2); i < k; i++ {
				touch(l[r.IntN(len(l))])
			}
		}
	}
	if len(live()) > h.cfg.Max {
		m.Count("handover_lru_successor_over_limit_at_first_janitor_"+shape, 1)
	}
	if !round("successor-"+shape, jc) {
		return
	}

	// ---- later on the successor: last uses of both generations mixed, maybe a second reload
	add(1 + r.IntN(3))
	if neverExpire {
		time.Sleep(1100 * time.Millisecond)
	}
	if l := live(); len(l) > 0 {
		for i := 0; i < len(l); i++ {
			touch(l[r.IntN(len(l))])
		}
	}
	jc = cur
	if r.IntN(3) == 0 {
		v2 := c08HandoverVias[r.IntN(3)]
		next := h.cfg
		if v2 != "self-restore" && next.Max > 1 && r.IntN(2) == 0 {
			next.Max--
		}
		if !doHandover(v2, next) {
			return
		}
		jc = cur
		m.Count("handover_lru_second_handover", 1)
	}
	if !round("successor-later", jc) {
		return
	}
	m.Count("handover_lru_histories_completed", 1)
	if m.WantSample() && len(h.trace) > 6 {
		m.Sample(map[string]any{"kind": h.kind, "handover_shape": via, "after_handover": shape, "config_predecessor": cfgA, "config_successor": cfgB,
			"never_expire_entries": neverExpire, "trace_tail": h.trace[len(h.trace)-6:]})
	}
}

// ---- history kind 9: deadlines, stale window and scope across the hand-over ---------

func (h *c08Hist) runHandoverTiming(ord int) {
	defer h.closeAll()
	defer h.guard("handover-timing-history")
	r := h.r
	m := h.env.m
	h.perName = true
	h.name = fmt.Sprintf("v%d-%d.c08.test.", h.id, 10+r.IntN(90))
	host := strings.TrimSuffix(h.name, ".")
	name2 := fmt.Sprintf("w%d-%d.c08.test.", h.id, 10+r.IntN(90))
	host2 := strings.TrimSuffix(name2, ".")
	sc := h.pickScope()
	var sc2 c08Scope
	for {
		sc2 = h.pickScope()
		if sc2.label != sc.label {
			break
		}
	}
	q := c08Qtypes[r.IntN(len(c08Qtypes))]
	q2 := c08Qtypes[(indexOfQ(q)+1+r.IntN(2))%len(c08Qtypes)]
	k := c08Key{LName: h.name, Qtype: q, Scope: sc.label}
	mixed := r.IntN(2) == 0
	near := []string{"x" + h.name, h.name[1:], strings.TrimSuffix(h.name, "test.") + "tes.", h.name + "x."}

	// fixed_domain_ttl. The carried name keeps its entry in every generation; name2's entry is
	// different in every generation (absent / 1 s / 3 s against an upstream TTL of 2 s).
	ttl0 := uint32(1 + r.IntN(2))
	fix1, has1 := 0, false
	switch h.cfg.Fixed {
	case "shorter":
		ttl0 = uint32(2 + r.IntN(2))
		fix1, has1 = int(ttl0)-1, true
	case "longer":
		fix1, has1 = int(ttl0)+1, true
	}
	base2 := r.IntN(3)
	fixedOf := func(gen int) map[string]int {
		f := map[string]int{}
		if has1 {
			f[host] = fix1
		}
		if v := []int{-1, 1, 3}[(base2+gen)%3]; v >= 0 {
			f[host2] = v
		}
		if len(f) == 0 {
			return nil
		}
		return f
	}
	h.fixed = fixedOf(0)

	cur := h.newCtrl("insert")
	if cur == nil {
		return
	}
	gen := 0
	var lastHo time.Time
	var prevCfg *c08Cfg
	var prevFixed map[string]int
	name2On := -1 // generation name2 was last obtained on
	stalePool := []int{0, 1, 2, 3, 3600}
	maxPool := []int{0, 8, 4096} // four keys at most: no size limit ever bites in this history
	nextCfg := func(via string) c08Cfg {
		c := h.cfg
		if via == "self-restore" || r.IntN(3) == 0 {
			return c
		}
		switch r.IntN(5) {
		case 0:
			c.Opt = !c.Opt
		case 1:
			c.Stale = c08Other(r, stalePool, c.Stale)
		case 2:
			c.Max = c08Other(r, maxPool, c.Max)
		case 3:
			c.Opt, c.Stale, c.Max = !c.Opt, c08Other(r, stalePool, c.Stale), c08Other(r, maxPool, c.Max)
		default:
			c.Opt, c.Stale = !c.Opt, 3600
		}
		return c
	}
	nHo := 1 + r.IntN(2)
	hoAt := []int{r.IntN(6), 6 + r.IntN(8)}
	done := 0
	doHandover := func() bool {
		via := c08HandoverVias[(ord+done)%3]
		if done > 0 {
			via = c08HandoverVias[r.IntN(3)]
		}
		done++
		before := h.cfg
		fx := h.fixed
		prevFixed = h.fixed
		if via != "self-restore" {
			fx = fixedOf(gen + 1)
		}
		to := h.handover(cur, via, nextCfg(via), fx)
		if to == nil {
			return false
		}
		cur = to
		gen++
		lastHo = time.Now()
		prevCfg = &before
		if done == 2 {
			m.Count("handover_timing_second_handover", 1)
		}
		return true
	}
	// neighbours: never obtained under these keys, on whichever generation
	neighbours := func() {
		switch r.IntN(5) {
		case 0:
			h.lookup(cur, near[r.IntN(len(near))], q, sc, 1, mixed)
		case 1:
			h.lookup(cur, h.name, q2, sc, 1, mixed)
		case 2:
			h.lookup(cur, h.name, q, sc2, 1, mixed)
		case 3:
			h.lookup(cur, h.name, q, c08AsIs("203.0.113.9:53"), 1, mixed)
		default:
			if sc.up != nil {
				other := c08Up(c08UpPool[r.IntN(len(c08UpPool))], []uint16{53, 5353}[r.IntN(2)])
				other.idx = sc.idx
				if other.label != sc.label {
					h.lookup(cur, h.name, q, other, 1, mixed)
					if gen > 0 {
						m.Count("other_upstream_at_same_routing_index_probes_after_reload_handover", 1)
					}
				}
			}
		}
		if gen > 0 {
			m.Count("handover_neighbour_probes_on_successor", 1)
		}
	}
	// a name first obtained on the successor: its Deadline follows the successor's fixed_domain_ttl
	obtainName2 := func() {
		if gen == 0 || name2On == gen {
			return
		}
		name2On = -1
		if g2 := h.insert(cur, c08Case(r, name2, mixed && r.IntN(3) == 0), q, sc, 2); g2 != nil {
			name2On = gen
			h.lookup(cur, name2, q, sc, 1, mixed)
			m.Count("handover_successor_fixed_ttl_checked", 1)
			pv, pok := prevFixed[host2]
			cv, cok := h.fixed[host2]
			if pok != cok || pv != cv {
				m.Count("handover_successor_fixed_ttl_differs_from_predecessor", 1)
			}
		}
	}

	step := 0
	for round := 0; round < 2; round++ {
		ttl := ttl0
		if round == 1 {
			ttl = 1
			// whatever hand-over is still due happens before the second answer is obtained, so that
			// every hand-over is followed by a full probe series of an entry obtained AFTER it
			for done < nHo {
				if !doHandover() {
					return
				}
				obtainName2()
			}
		}
		g := h.insert(cur, c08Case(r, h.name, mixed && r.IntN(3) == 0), q, sc, ttl)
		if g == nil {
			return
		}
		h.lookup(cur, h.name, q, sc, 1, mixed)
		if !g.known || time.Until(g.D) > 10*time.Second {
			m.Count("handover_history_abandoned_deadline_off", 1)
			return
		}
	replan:
		for _, off := range h.offsets(g) {
			at := g.D.Add(off)
			if time.Until(at) < -time.Millisecond {
				m.Count("probe_skipped_already_past", 1)
				continue
			}
			c08Sleep(at)
			step++
			if done < nHo && step > hoAt[done] {
				wasCfg := h.cfg
				if !doHandover() {
					return
				}
				obtainName2()
				if h.cfg != wasCfg {
					goto replan // another window is in force now: plan the remaining probes of this entry against it
				}
			}
			if r.IntN(5) == 0 {
				h.janitor(cur)
			}
			n := 1
			if r.IntN(10) < 2 {
				n = 2 + r.IntN(5)
			}
			t0 := time.Now()
			h.lookup(cur, h.name, q, sc, n, mixed) // a needRefresh handed out stays in flight: nobody refreshes
			t1 := time.Now()
			if s := cur.slots[k]; gen > 0 && s != nil && s.gen == g && g.known {
				m.Count("handover_timing_probes_after_handover", 1)
				if g.T1.Before(lastHo) { // obtained before the (last) hand-over
					want := h.mustServe(h.cfg, g, t0, t1)
					switch {
					case want > 0:
						m.Count("handover_probes_of_carried_entry_inside_lifetime", 1)
					case want < 0:
						m.Count("handover_probes_of_carried_entry_beyond_lifetime", 1)
					}
					if g.D.Before(lastHo) && want != 0 {
						m.Count("handover_probes_of_entry_expired_before_handover", 1)
					}
					if prevCfg != nil {
						if o := h.mustServe(*prevCfg, g, t0, t1); want != 0 && o != 0 && o != want {
							m.Count("handover_probes_where_predecessor_config_would_differ", 1)
						}
					}
				}
			}
			if r.IntN(3) == 0 {
				neighbours()
			}
			if name2On == gen && r.IntN(3) == 0 {
				h.lookup(cur, name2, q, sc, 1, mixed)
			}
			if r.IntN(5) == 0 {
				h.janitor(cur)
			}
		}
	}
	m.Count("handover_timing_histories_completed", 1)
	if m.WantSample() && len(h.trace) > 8 {
		m.Sample(map[string]any{"kind": h.kind, "config_at_end": h.cfg, "name": h.name, "trace_head": h.trace[:8]})
	}
}
