package control

// C02 monitor, part "realmaps": what the control plane REALLY installs, over
// histories of generations sharing one set of kernel BPF maps.
//
// Part "main" feeds kernsim with bytes produced by dae's encoders one program at
// a time. This part lets the production installer run - the REAL
// (*routingKernspaceSnapshot).BuildKernspace, the REAL
// (*ControlPlane).RebuildReloadDatapath and the REAL slot bookkeeping
// (EjectLpmIndices / InheritLpmIndices / ReplaceLpmIndices / controlPlaneCore.Close)
// - against REAL routing_map / routing_meta_map / lpm_array_map (+ inner LPM
// tries) created with bpf(2), in the order cmd/run.go calls them for start-up,
// successful reloads and failed staged reloads (roll-back = the SAME snapshot is
// committed again). After every step the three maps are read back from the
// kernel as raw bytes (array lookups, lpm_array_map[i] -> inner map id -> key
// iteration), loaded verbatim into tproxy.c's maps in kernsim, and route() is
// compared with the userspace matcher of the generation that is serving at that
// moment. Nothing structural is judged: a match set that points at an empty
// slot, a stale trie, a stale match set behind a wrong length - all of it shows
// (or does not show) in the verdicts of route().

import (
	"context"
	"encoding/binary"
	"errors"
	"fmt"
	"math/rand/v2"
	"os"
	"sort"
	"sync"
	"testing"
	"unsafe"

	"github.com/cilium/ebpf"
	"github.com/cilium/ebpf/rlimit"
	"github.com/daeuniverse/dae/common/consts"
	vk "github.com/daeuniverse/dae/verifkit"
	"github.com/sirupsen/logrus"
	"golang.org/x/sys/unix"
)

// ---- real maps -----------------------------------------------------------------

const (
	c02rmNoPrealloc = 1 // BPF_F_NO_PREALLOC
	c02rmSetSize    = unsafe.Sizeof(bpfMatchSet{})
	c02rmKeySize    = unsafe.Sizeof(_bpfLpmKey{})
)

var c02rmMemlockOnce sync.Once

type c02rmMaps struct {
	domain, routing, meta, lpmArray, lpmType *ebpf.Map
}

func (x *c02rmMaps) close() {
	for _, m := range []*ebpf.Map{x.domain, x.routing, x.meta, x.lpmArray, x.lpmType} {
		if m != nil {
			_ = m.Close()
		}
	}
}

func (x *c02rmMaps) objects() *bpfObjects {
	return &bpfObjects{bpfMaps: bpfMaps{
		DomainRoutingMap: x.domain,
		RoutingMap:       x.routing,
		RoutingMetaMap:   x.meta,
		LpmArrayMap:      x.lpmArray,
		UnusedLpmType:    x.lpmType,
	}}
}

// c02rmMapSpecs: the definitions of control/kern/tproxy.c (sizes from the Go types the
// production code marshals into them; kernsim rejects a value whose size differs from the C struct).
func c02rmMapSpecs() map[string]*ebpf.MapSpec {
	lpm := &ebpf.MapSpec{Name: "c02_lpm_type", Type: ebpf.LPMTrie, Flags: c02rmNoPrealloc,
		KeySize: uint32(c02rmKeySize), ValueSize: 4, MaxEntries: 2048000} // MAX_LPM_SIZE
	return map[string]*ebpf.MapSpec{
		"domain_routing_map": {Name: "c02_domain_rt", Type: ebpf.Hash, Flags: c02rmNoPrealloc,
			KeySize: uint32(unsafe.Sizeof([4]uint32{})), ValueSize: uint32(unsafe.Sizeof(bpfDomainRouting{})), MaxEntries: 65536},
		"routing_map": {Name: "c02_routing", Type: ebpf.Array,
			KeySize: 4, ValueSize: uint32(c02rmSetSize), MaxEntries: uint32(consts.MaxMatchSetLen)},
		"routing_meta_map": {Name: "c02_routing_meta", Type: ebpf.Array, KeySize: 4, ValueSize: 4, MaxEntries: 1},
		"unused_lpm_type":  lpm,
		"lpm_array_map": {Name: "c02_lpm_array", Type: ebpf.ArrayOfMaps, KeySize: 4, ValueSize: 4,
			MaxEntries: uint32(consts.MaxMatchSetLen) + 8, InnerMap: lpm.Copy()}, // MAX_LPM_NUM
	}
}

func c02rmNewMaps() (x *c02rmMaps, err error) {
	c02rmMemlockOnce.Do(func() { _ = rlimit.RemoveMemlock() })
	specs := c02rmMapSpecs()
	x = &c02rmMaps{}
	defer func() {
		if err != nil {
			x.close()
			x = nil
		}
	}()
	for _, it := range []struct {
		name string
		dst  **ebpf.Map
	}{{"domain_routing_map", &x.domain}, {"routing_map", &x.routing}, {"routing_meta_map", &x.meta},
		{"unused_lpm_type", &x.lpmType}, {"lpm_array_map", &x.lpmArray}} {
		if *it.dst, err = ebpf.NewMap(specs[it.name]); err != nil {
			return x, fmt.Errorf("create %s: %w", it.name, err)
		}
	}
	return x, nil
}

// ---- the kernel state, read back as raw bytes -----------------------------------

type c02rmSlot struct {
	id   uint32 // kernel id of the inner trie
	ents []vk.LpmEnt
}

type c02rmImage struct {
	meta    [4]byte
	routing [][c02rmSetSize]byte // every entry of routing_map
	slots   map[uint32]*c02rmSlot
}

func c02rmDump(x *c02rmMaps) (*c02rmImage, error) {
	img := &c02rmImage{slots: map[uint32]*c02rmSlot{}}
	if err := x.meta.Lookup(uint32(0), &img.meta); err != nil {
		return nil, fmt.Errorf("read routing_meta_map: %w", err)
	}
	n := x.routing.MaxEntries()
	img.routing = make([][c02rmSetSize]byte, n)
	for i := uint32(0); i < n; i++ {
		if err := x.routing.Lookup(i, &img.routing[i]); err != nil {
			return nil, fmt.Errorf("read routing_map[%d]: %w", i, err)
		}
	}
	for i := uint32(0); i < x.lpmArray.MaxEntries(); i++ {
		var id uint32
		err := x.lpmArray.Lookup(i, &id)
		if errors.Is(err, ebpf.ErrKeyNotExist) {
			continue
		}
		if err != nil {
			return nil, fmt.Errorf("read lpm_array_map[%d]: %w", i, err)
		}
		inner, err := ebpf.NewMapFromID(ebpf.MapID(id))
		if err != nil {
			return nil, fmt.Errorf("open inner map %d of lpm_array_map[%d]: %w", id, i, err)
		}
		s := &c02rmSlot{id: id}
		var k [c02rmKeySize]byte
		var v uint32
		it := inner.Iterate()
		for it.Next(&k, &v) {
			e := vk.LpmEnt{PrefixLen: binary.NativeEndian.Uint32(k[:4])}
			copy(e.Data[:], k[4:])
			s.ents = append(s.ents, e)
		}
		err = it.Err()
		_ = inner.Close()
		if err != nil {
			return nil, fmt.Errorf("iterate inner map of lpm_array_map[%d]: %w", i, err)
		}
		img.slots[i] = s
	}
	return img, nil
}

// c02rmLoad makes kernsim's maps equal to the dumped kernel state.
func c02rmLoad(k *vk.KS, img *c02rmImage) error {
	k.Reset()
	slots := make([]uint32, 0, len(img.slots))
	for s := range img.slots {
		slots = append(slots, s)
	}
	sort.Slice(slots, func(i, j int) bool { return slots[i] < slots[j] })
	for _, s := range slots {
		rc, ks := k.LpmSet(s, img.slots[s].ents)
		if rc != 0 {
			return fmt.Errorf("kernsim refuses the trie of lpm_array_map[%d]: rc=%d", s, rc)
		}
		if uintptr(ks) != c02rmKeySize {
			return fmt.Errorf("lpm key size: C=%d Go=%d", ks, c02rmKeySize)
		}
	}
	var zero [c02rmSetSize]byte
	for i := range img.routing {
		if img.routing[i] != zero {
			k.QMapUpdate("routing_map", verifU32(uint32(i)), append([]byte(nil), img.routing[i][:]...), 0)
		}
	}
	k.QMapUpdate("routing_meta_map", verifU32(0), append([]byte(nil), img.meta[:]...), 0)
	for _, r := range k.Sync() {
		if r.Rc != 0 {
			return fmt.Errorf("kernsim refuses a dumped routing_map/routing_meta_map value: rc=%d (size mismatch between bpfMatchSet and struct match_set?)", r.Rc)
		}
	}
	return k.Dead()
}

// c02rmDescribe decodes the dumped state for witnesses (never for verdicts).
func c02rmDescribe(img *c02rmImage) map[string]any {
	n := binary.NativeEndian.Uint32(img.meta[:])
	var refs []string
	for i := uint32(0); i < n && int(i) < len(img.routing); i++ {
		ms := (*bpfMatchSet)(unsafe.Pointer(&img.routing[i][0]))
		switch consts.MatchType(ms.Type) {
		case consts.MatchType_IpSet, consts.MatchType_SourceIpSet, consts.MatchType_Mac:
			slot := binary.LittleEndian.Uint32(ms.Value[:4])
			if s, ok := img.slots[slot]; ok {
				refs = append(refs, fmt.Sprintf("match_set[%d] type=%d -> lpm_array_map[%d]: trie id %d with %d keys", i, ms.Type, slot, s.id, len(s.ents)))
			} else {
				refs = append(refs, fmt.Sprintf("match_set[%d] type=%d -> lpm_array_map[%d]: NO TRIE", i, ms.Type, slot))
			}
		}
	}
	var live []string
	for s, v := range img.slots {
		live = append(live, fmt.Sprintf("%d(id %d, %d keys)", s, v.id, len(v.ents)))
	}
	sort.Strings(live)
	return map[string]any{"routing_meta_map[0]": n, "lpm_match_sets_in_active_range": refs, "slots_of_lpm_array_map_holding_a_trie": live}
}

// ---- generations ----------------------------------------------------------------

type c02rmGen struct {
	name   string
	prog   *vk.RProg
	text   string
	built  *verifBuilt
	core   *controlPlaneCore
	cp     *ControlPlane
	builds int
}

// c02rmNewGen: the fields the routing commit / roll-back / slot bookkeeping read.
func c02rmNewGen(log *logrus.Logger, name string, p *vk.RProg, bpf *bpfObjects) (*c02rmGen, error) {
	rules, fb, err := verifParseRouting(p.Text())
	if err != nil {
		return nil, err
	}
	built, err := verifBuildMatcher(rules, fb, verifProductionOptimizers()...)
	if err != nil {
		return nil, err
	}
	closed, toClose := context.WithCancel(context.Background())
	core := &controlPlaneCore{log: log, closed: closed, close: toClose}
	core.bpf.Store(bpf)
	cp := &ControlPlane{log: log, core: core}
	cp.routingMatcher = built.matcher
	cp.routingKernspaceSnapshot = built.snap
	return &c02rmGen{name: name, prog: p, text: p.Text(), built: built, core: core, cp: cp}, nil
}

// commit: what newControlPlane (start-up, non-staged reload) and CommitPreparedDatapath
// (staged reload) do with the routing snapshot.
func (g *c02rmGen) commit(log *logrus.Logger, bpf *bpfObjects) (idx []uint32, err error) {
	defer func() {
		if r := recover(); r != nil {
			err = fmt.Errorf("PANIC in BuildKernspace: %v", r)
		}
	}()
	idx, err = g.cp.routingKernspaceSnapshot.BuildKernspace(log, bpf)
	if err != nil {
		return nil, err
	}
	g.core.lpmTrieIndices = idx
	g.builds++
	return idx, nil
}

func (g *c02rmGen) rebuild() (err error) {
	defer func() {
		if r := recover(); r != nil {
			err = fmt.Errorf("PANIC in RebuildReloadDatapath: %v", r)
		}
	}()
	if err = g.cp.RebuildReloadDatapath(); err == nil {
		g.builds++
	}
	return err
}

func (g *c02rmGen) closeCore() (err error) {
	defer func() {
		if r := recover(); r != nil {
			err = fmt.Errorf("PANIC in controlPlaneCore.Close: %v", r)
		}
	}()
	return g.core.Close()
}

// ---- histories -------------------------------------------------------------------

type c02rmStep struct {
	Kind  string `json:"op"`
	Prog  int    `json:"program"`
	Fault string `json:"injected_fault,omitempty"`
}

type c02rmHist struct {
	Programs  []string    `json:"programs"`
	RingStart uint32      `json:"lpm_ring_cursor_at_start"`
	Steps     []c02rmStep `json:"steps"`
	Log       []string    `json:"what_happened"`
	progs     []*vk.RProg
	npkt      int // probe packets per probe (0: the run's default)
}

const (
	c02rmReloadOK          = "reload-succeeds"
	c02rmFailAfterCommit   = "staged-reload-fails-after-committing-its-datapath"
	c02rmFailBeforeCommit  = "staged-reload-fails-before-committing"
	c02rmFailCommitError   = "staged-reload-commit-returns-error"
	c02rmFaultMetaClosed   = "routing_meta_map-unwritable"
	c02rmFaultRoutingSmall = "routing_map-write-refused"
	c02rmFaultLpmSpec      = "lpm-trie-creation-refused"
)

var c02rmFaults = []string{c02rmFaultMetaClosed, c02rmFaultRoutingSmall, c02rmFaultLpmSpec}

// c02rmFaulty: the shared objects with one map replaced by one that refuses the write.
func c02rmFaulty(x *c02rmMaps, fault string) (*bpfObjects, func(), error) {
	o := x.objects()
	specs := c02rmMapSpecs()
	switch fault {
	case c02rmFaultMetaClosed: // every trie and the whole match-set array are written, the length is not
		m, err := ebpf.NewMap(specs["routing_meta_map"])
		if err != nil {
			return nil, nil, err
		}
		_ = m.Close()
		o.RoutingMetaMap = m
		return o, func() {}, nil
	case c02rmFaultRoutingSmall: // the tries are written, the match-set array is refused
		sp := specs["routing_map"]
		sp.MaxEntries = 1
		m, err := ebpf.NewMap(sp)
		if err != nil {
			return nil, nil, err
		}
		o.RoutingMap = m
		return o, func() { _ = m.Close() }, nil
	default: // the first trie cannot be created; only the ring cursor has moved
		m, err := ebpf.NewMap(&ebpf.MapSpec{Name: "c02_lpm_bad", Type: ebpf.LPMTrie, Flags: c02rmNoPrealloc, KeySize: 12, ValueSize: 4, MaxEntries: 16})
		if err != nil {
			return nil, nil, err
		}
		o.UnusedLpmType = m
		return o, func() { _ = m.Close() }, nil
	}
}

type c02rmEnv struct {
	m       *vk.Monitor
	k       *vk.KS
	r       *rand.Rand
	log     *logrus.Logger
	id2name map[uint8]string
	npkt    int
	prev    map[uint32]uint32 // slot -> inner map id at the previous dump of the running history
}

var c02rmLpmFuncs = map[string]bool{"dip": true, "sip": true, "ip": true, "mac": true}

func c02rmEnvError(err error) bool {
	for _, e := range []error{unix.EPERM, unix.EACCES, unix.ENOSYS, unix.ENOMEM, unix.EMFILE, unix.ENFILE} {
		if errors.Is(err, e) {
			return true
		}
	}
	return false
}

// probe reads the kernel maps back, mirrors them into kernsim and compares route() with the
// userspace matcher of g (the generation whose program the kernel is expected to run now).
// judge=false only records (states the statement is silent about).
func (env *c02rmEnv) probe(h *c02rmHist, x *c02rmMaps, stage string, g *c02rmGen, judge bool) (ok bool, err error) {
	m, k := env.m, env.k
	img, err := c02rmDump(x)
	if err != nil {
		return false, err
	}
	if judge { // slot traffic since the previous judged dump
		for s, id := range env.prev {
			cur, live := img.slots[s]
			switch {
			case !live:
				m.Count("lpm_slots_released_between_probes", 1)
			case cur.id != id:
				m.Count("lpm_slots_holding_another_trie_than_at_the_previous_probe", 1)
			}
		}
		env.prev = map[uint32]uint32{}
		for s, v := range img.slots {
			env.prev[s] = v.id
		}
		m.Count("lpm_tries_read_back_from_kernel", int64(len(img.slots)))
	}
	if err = c02rmLoad(k, img); err != nil {
		if k.Dead() != nil {
			m.Violation("realmaps/sanitizer/load", "kernsim died while loading the dumped kernel maps", map[string]any{"history": h, "stage": stage, "report": k.Dead().Error(), "replay": k.Replay})
			return false, nil
		}
		m.Violation("realmaps/load-error", err.Error(), map[string]any{"history": h, "stage": stage, "kernel_state": c02rmDescribe(img)})
		return false, nil
	}
	// packets at the boundaries of the constants of EVERY program of the history: a stale trie or
	// match set of another generation decides differently exactly there
	merged := &vk.RProg{Fallback: g.prog.Fallback}
	for _, p := range h.progs {
		merged.Rules = append(merged.Rules, p.Rules...)
	}
	npkt := env.npkt
	if h.npkt > 0 {
		npkt = h.npkt
	}
	pkts := vk.ProbePackets(merged, env.r, npkt)
	type pc struct {
		pkt vk.RPkt
		wan bool
	}
	cases := make([]pc, len(pkts))
	for j := range pkts {
		wan := env.r.IntN(2) == 0
		if !wan {
			pkts[j].Pname = ""
		} else if env.r.IntN(3) == 0 {
			pkts[j].Mac = [6]byte{}
		}
		cases[j] = pc{pkts[j], wan}
		a16 := pkts[j].Dst.Addr().As16()
		if pkts[j].Domain != "" {
			bm := g.built.matcher.domainMatcher.MatchDomainBitmap(pkts[j].Domain)
			k.QMapUpdate("domain_routing_map", verifDomainKey(a16), verifDomainVal(bm), 0)
		} else {
			k.QMapDelete("domain_routing_map", verifDomainKey(a16))
		}
		rq := verifRouteReq(pkts[j], wan)
		k.QRoute(&rq)
	}
	res := k.Sync()
	if k.Dead() != nil {
		m.Violation("realmaps/sanitizer/route", "kernsim died (ASan/UBSan report or crash) while routing over the dumped kernel maps",
			map[string]any{"history": h, "stage": stage, "report": k.Dead().Error(), "replay": k.Replay, "kernel_state": c02rmDescribe(img)})
		return false, nil
	}
	if !judge {
		m.Count("recorded_only_probes/"+stage, 1)
	} else {
		m.Count("probes/"+stage, 1)
	}
	differing := 0
	for j, c := range cases {
		cres := res[2*j+1].Route
		if res[2*j].Op == 2 && res[2*j].Rc != 0 {
			m.Violation("realmaps/domain-map-update", fmt.Sprintf("domain_routing_map update rc=%d", res[2*j].Rc), map[string]any{"history": h, "stage": stage})
			return false, nil
		}
		var mac16 [16]byte
		copy(mac16[10:], c.pkt.Mac[:])
		ipv, fam := consts.IpVersion_6, "v6"
		if c.pkt.Dst.Addr().Is4() {
			ipv, fam = consts.IpVersion_4, "v4"
		}
		gob, gmark, gmust, gerr := g.built.matcher.Match(c.pkt.Src.Addr().As16(), c.pkt.Dst.Addr().As16(), c.pkt.Src.Port(), c.pkt.Dst.Port(),
			ipv, verifL4(c.pkt.L4), c.pkt.Domain, verifPname(c.pkt.Pname), c.pkt.Dscp, mac16)
		dns := c.pkt.Dst.Port() == 53
		bad, kind := "", "kern-vs-user"
		if gerr != nil {
			bad, kind = "Go matcher error: "+gerr.Error(), "matcher-error"
		} else if cres < 0 {
			bad, kind = fmt.Sprintf("route() returned error %d; the userspace matcher of the serving generation says (%s/%d, mark=%d, must=%v)", cres, env.id2name[uint8(gob)], uint8(gob), gmark, gmust), "route-error"
		} else {
			cob := uint8(cres & 0xff)
			cmark := uint32(cres >> 8)
			cmust := (cres>>40)&1 == 1
			if dns && !gmust {
				if cob != uint8(consts.OutboundControlPlaneRouting) || cmark != gmark || cmust {
					bad = fmt.Sprintf("port-53 non-must packet: want outbound 0xFD mark=%d must=0, C says outbound=%#x mark=%d must=%v", gmark, cob, cmark, cmust)
				}
			} else if cob != uint8(gob) || cmark != gmark || cmust != gmust {
				bad = fmt.Sprintf("C route() over the installed maps = (%s/%d, mark=%d, must=%v) but Go Match of the serving generation = (%s/%d, mark=%d, must=%v)",
					env.id2name[cob], cob, cmark, cmust, env.id2name[uint8(gob)], uint8(gob), gmark, gmust)
			}
		}
		if !judge {
			if bad != "" {
				differing++
			}
			continue
		}
		m.Eval(1)
		ref := vk.RefRoute(g.prog, c.pkt)
		shape, last := "fallback", len(g.prog.Rules)-1
		if ref.Rule >= 0 {
			shape, last = g.prog.Rules[ref.Rule].ShapeSig(), ref.Rule
		}
		lpmSeen := false
		for i := 0; i <= last && !lpmSeen; i++ {
			for _, cd := range g.prog.Rules[i].Conds {
				if c02rmLpmFuncs[cd.Func] {
					lpmSeen = true
					break
				}
			}
		}
		if lpmSeen {
			m.Count("pairs_evaluated_past_an_lpm_backed_rule", 1)
		}
		if dns {
			m.Count("port53_pairs", 1)
			if !gmust {
				m.Count("control_plane_routing_expected", 1)
			}
		}
		if c.wan {
			m.Count("wan_pairs", 1)
		} else {
			m.Count("lan_pairs", 1)
		}
		if g.builds >= 2 {
			m.Count("pairs_over_a_snapshot_committed_more_than_once", 1)
		}
		m.Distinct(fmt.Sprintf("%s|%s|%s|wan=%v|dns=%v", stage, shape, fam, c.wan, dns))
		if bad != "" {
			m.Violation("realmaps/"+stage+"/"+kind, stage+": "+bad, map[string]any{"history": h, "stage": stage, "serving_generation": g.name,
				"serving_program": g.text, "times_its_snapshot_was_committed": g.builds, "packet": c.pkt.String(), "wan": c.wan,
				"reference": ref, "kernel_state": c02rmDescribe(img), "kernsim_replay": k.Replay})
			return false, nil
		}
	}
	if !judge {
		if differing == 0 {
			m.Count("recorded_only/"+stage+"/kernel_still_equals_serving_generation", 1)
		} else {
			m.Count("recorded_only/"+stage+"/kernel_differs_from_serving_generation", 1)
		}
	}
	return true, nil
}

func c02rmGenHist(r *rand.Rand, gen *vk.RGen, big bool) *c02rmHist {
	h := &c02rmHist{}
	np := 2 + r.IntN(2)
	for i := 0; i < np; i++ {
		gen.Funcs = nil
		gen.ExactRules = 0
		if r.IntN(5) < 3 { // LPM-heavy alphabet
			gen.Funcs = []string{"dip", "sip", "mac", "ip", "dip", "sip", "dport", "l4proto", "domain", "pname"}
		}
		if big && i < 2 {
			gen.ExactRules = 50 + r.IntN(60)
		}
		p := gen.Gen()
		h.progs = append(h.progs, p)
		h.Programs = append(h.Programs, p.Text())
	}
	h.Steps = append(h.Steps, c02rmStep{Kind: "start", Prog: 0})
	ns := 1 + r.IntN(vk.Scale(3, 5))
	kinds := []string{c02rmReloadOK, c02rmReloadOK, c02rmReloadOK, c02rmFailAfterCommit, c02rmFailAfterCommit, c02rmFailAfterCommit,
		c02rmFailBeforeCommit, c02rmFailBeforeCommit, c02rmFailCommitError, c02rmFailCommitError}
	for i := 0; i < ns; i++ {
		s := c02rmStep{Kind: kinds[r.IntN(len(kinds))], Prog: r.IntN(np)}
		if s.Kind == c02rmFailCommitError {
			s.Fault = c02rmFaults[r.IntN(len(c02rmFaults))]
		}
		h.Steps = append(h.Steps, s)
	}
	return h
}

// c02rmHugeProg: n rules with one prefix set each (alternating outbounds, so that the optimisers
// cannot merge neighbours): n tries. Two commits of such a program need more slots than the ring
// has, so the slot set of a commit overlaps the one it supersedes.
func c02rmHugeProg(r *rand.Rand, n int) *vk.RProg {
	outs := append([]string{"direct", "block"}, verifGroups...)
	fns := []string{"dip", "sip"}
	p := &vk.RProg{Fallback: vk.ROut{Name: outs[r.IntN(len(outs))]}}
	base := r.IntN(200)
	for i := 0; i < n; i++ {
		v := fmt.Sprintf("10.%d.%d.0/24", base+i/256, i%256)
		if r.IntN(8) == 0 {
			v = fmt.Sprintf("2001:db8:%x::/48", i)
		}
		p.Rules = append(p.Rules, vk.RRule{Conds: []vk.RCond{{Func: fns[r.IntN(2)], Params: []vk.RParam{{Val: v}}}}, Out: vk.ROut{Name: outs[i%len(outs)]}})
	}
	return p
}

func c02rmHugeHist(r *rand.Rand, i int) *c02rmHist {
	h := &c02rmHist{}
	for j := 0; j < 2; j++ {
		p := c02rmHugeProg(r, 515+r.IntN(40))
		h.progs = append(h.progs, p)
		h.Programs = append(h.Programs, fmt.Sprintf("%d rules like %q (text omitted)", len(p.Rules), p.Rules[0].Text()))
	}
	h.Steps = []c02rmStep{{Kind: "start", Prog: 0}}
	if i%2 == 0 {
		h.Steps = append(h.Steps, c02rmStep{Kind: c02rmFailBeforeCommit, Prog: 1}, c02rmStep{Kind: c02rmReloadOK, Prog: 1})
	} else {
		h.Steps = append(h.Steps, c02rmStep{Kind: c02rmReloadOK, Prog: 1}, c02rmStep{Kind: c02rmFailBeforeCommit, Prog: 0})
	}
	return h
}

// c02rmWideProg: ns rules, each with ONE address set of many distinct prefixes (set sizes unequal:
// a few prefixes, around a hundred, exactly/just past powers of two, some hundreds), alternating
// outbounds so that the optimisers cannot merge neighbours. The key-conversion stage of
// BuildKernspace then has many sets of many keys in flight at once - more keys in total than any
// fixed-size scratch, pool or arena a worker might carve them from.
func c02rmWideProg(r *rand.Rand, ns int) (*vk.RProg, int) {
	outs := append([]string{"direct", "block"}, verifGroups...)
	fns := []string{"dip", "sip", "dip", "sip", "ip"}
	p := &vk.RProg{Fallback: vk.ROut{Name: outs[r.IntN(len(outs))]}}
	base := r.IntN(180)
	sizes := []int{3, 17, 64, 100, 127, 128, 129, 200, 256, 300}
	total := 0
	for i := 0; i < ns; i++ {
		w := sizes[r.IntN(len(sizes))]
		if r.IntN(3) == 0 {
			w = 60 + r.IntN(70)
		}
		c := vk.RCond{Func: fns[r.IntN(len(fns))]}
		for j := 0; j < w; j++ {
			var v string
			switch r.IntN(10) {
			case 0:
				v = fmt.Sprintf("2001:db8:%x:%x::/64", i, j)
			case 1:
				v = fmt.Sprintf("10.%d.%d.%d/32", (base+i)%256, j%256, 1+j/256)
			case 2:
				v = fmt.Sprintf("10.%d.%d.%d/25", (base+i)%256, j%256, 128*(j/256%2))
			default:
				v = fmt.Sprintf("10.%d.%d.0/24", (base+i)%256, j%256)
			}
			c.Params = append(c.Params, vk.RParam{Val: v})
		}
		total += w
		p.Rules = append(p.Rules, vk.RRule{Conds: []vk.RCond{c}, Out: vk.ROut{Name: outs[i%len(outs)]}})
	}
	return p, total
}

// c02rmWideHist: two wide programs; start, a reload, and a roll-back that commits a snapshot again.
func c02rmWideHist(r *rand.Rand, m *vk.Monitor) *c02rmHist {
	h := &c02rmHist{npkt: vk.Scale(500, 1500)}
	for j := 0; j < 2; j++ {
		ns := 12 + r.IntN(vk.Scale(20, 40))
		p, total := c02rmWideProg(r, ns)
		h.progs = append(h.progs, p)
		first := p.Rules[0].Text()
		if len(first) > 60 {
			first = first[:60]
		}
		h.Programs = append(h.Programs, fmt.Sprintf("%d rules, one address set each, %d prefixes in all, like %q... (text omitted)", ns, total, first))
		m.Count("wide_programs", 1)
		if total > 1024 {
			m.Count("wide_programs_with_more_than_1024_prefixes", 1)
		}
		if total > 4096 {
			m.Count("wide_programs_with_more_than_4096_prefixes", 1)
		}
	}
	h.Steps = []c02rmStep{{Kind: "start", Prog: 0}, {Kind: c02rmReloadOK, Prog: 1}}
	switch r.IntN(3) {
	case 0:
		h.Steps = append(h.Steps, c02rmStep{Kind: c02rmFailBeforeCommit, Prog: 0})
	case 1:
		h.Steps = append(h.Steps, c02rmStep{Kind: c02rmFailAfterCommit, Prog: 0})
	}
	return h
}

// c02rmOverlapHist: the cheap way around the ring. Generation A (nA tries) serves; the commit of a
// staged generation B with nB = 1024-nA-k tries is refused at its first trie (injected), which has
// already moved the ring cursor by nB; the roll-back then commits A's snapshot again on slots that
// overlap the ones A still owns by nA-k.
func c02rmOverlapHist(r *rand.Rand) *c02rmHist {
	h := &c02rmHist{}
	nA := 13 + r.IntN(30)
	nB := consts.MaxMatchSetLen - nA - r.IntN(nA)
	for _, n := range []int{nA, nB} {
		p := c02rmHugeProg(r, n)
		h.progs = append(h.progs, p)
		h.Programs = append(h.Programs, fmt.Sprintf("%d rules like %q (text omitted)", len(p.Rules), p.Rules[0].Text()))
	}
	h.Steps = []c02rmStep{{Kind: "start", Prog: 0}, {Kind: c02rmFailCommitError, Prog: 1, Fault: c02rmFaultLpmSpec}}
	switch r.IntN(3) {
	case 0:
		h.Steps = append(h.Steps, c02rmStep{Kind: c02rmReloadOK, Prog: 0})
	case 1:
		h.Steps = append(h.Steps, c02rmStep{Kind: c02rmFailBeforeCommit, Prog: 0})
	}
	return h
}

// run replays one history over one fresh set of kernel maps.
func (env *c02rmEnv) run(h *c02rmHist, ringMode int) (err error) {
	m := env.m
	x, err := c02rmNewMaps()
	if err != nil {
		return err
	}
	defer x.close()
	bpf := x.objects()
	env.prev = map[uint32]uint32{}
	logf := func(f string, a ...any) { h.Log = append(h.Log, fmt.Sprintf(f, a...)) }

	var gens []*c02rmGen
	defer func() {
		for _, g := range gens {
			_ = g.closeCore()
		}
	}()
	newGen := func(prog int) (*c02rmGen, error) {
		g, e := c02rmNewGen(env.log, fmt.Sprintf("G%d(program %d)", len(gens), prog), h.progs[prog], bpf)
		if e != nil {
			return nil, e
		}
		gens = append(gens, g)
		return g, nil
	}
	// build error of a generated program: main part judges the builder; here the history is skipped
	first, err := newGen(0)
	if err != nil {
		m.Count("histories_skipped_builder_refused_a_program", 1)
		m.Set("last_builder_refusal", err.Error())
		return nil
	}
	n0 := len(first.built.snap.simulatedLpmTries)
	max := uint32(consts.MaxMatchSetLen)
	switch ringMode { // previous reloads of the process have moved the ring cursor
	case 0:
		h.RingStart = uint32(env.r.IntN(int(max)))
	case 1: // the first commit wraps
		h.RingStart = (max - uint32(env.r.IntN(n0+1))) % max
	case 2: // a later commit wraps
		h.RingStart = (max - uint32(n0+env.r.IntN(2*n0+3))) % max
	default:
		h.RingStart = 0
	}
	globalNextLpmIndex.Store(h.RingStart)

	build := func(what string, f func() error) error {
		before := globalNextLpmIndex.Load()
		e := f()
		after := globalNextLpmIndex.Load()
		if after < before {
			m.Count("builds_that_wrapped_the_lpm_ring", 1)
		}
		logf("%s: ring cursor %d -> %d, err=%v", what, before, after, e)
		return e
	}
	fail := func(sig, what string, e error) error {
		if c02rmEnvError(e) {
			return fmt.Errorf("%s: %w", what, e)
		}
		m.Violation(sig, fmt.Sprintf("%s: %v", what, e), map[string]any{"history": h})
		return errStopHistory
	}
	countTries := func(g *c02rmGen) {
		n := len(g.built.snap.simulatedLpmTries)
		m.Count("lpm_tries_committed", int64(n))
		if n >= 4 {
			m.Count("commits_with_4_or_more_tries(parallel path)", 1)
		}
		if n == 0 {
			m.Count("commits_of_programs_without_tries", 1)
		}
	}

	cur := first
	if e := build("start "+cur.name+": BuildKernspace", func() error {
		idx, e := cur.commit(env.log, bpf)
		logf("  slots %v", idx)
		return e
	}); e != nil {
		return fail("realmaps/build-error", "BuildKernspace of the first generation over real maps", e)
	}
	countTries(cur)
	m.Count("steps/start", 1)
	if ok, e := env.probe(h, x, "after-first-commit", cur, true); e != nil || !ok {
		return e
	}

	for si := 1; si < len(h.Steps); si++ {
		st := h.Steps[si]
		next, e := newGen(st.Prog)
		if e != nil {
			m.Count("histories_cut_builder_refused_a_program", 1)
			return nil
		}
		m.Count("steps/"+st.Kind, 1)
		if next.text == cur.text {
			m.Count("reloads_with_unchanged_program", 1)
		}
		rollback := func(stage string) (bool, error) {
			// rollbackStagedReloadHandoff closes the new generation, then the old one rebuilds
			if e := next.closeCore(); e != nil {
				logf("close of %s: %v", next.name, e)
			}
			again := cur.builds
			owned := append([]uint32(nil), cur.core.lpmTrieIndices...)
			if e := build("roll back to "+cur.name+": RebuildReloadDatapath", cur.rebuild); e != nil {
				return false, fail("realmaps/rebuild-error", "RebuildReloadDatapath over real maps", e)
			}
			if c02rmIntersect(owned, cur.core.lpmTrieIndices) {
				m.Count("rebuilds_whose_slots_overlap_the_slots_they_supersede", 1)
			}
			logf("  slots now owned by %s: %v", cur.name, cur.core.lpmTrieIndices)
			m.Count("rebuilds_of_an_already_committed_snapshot", 1)
			if again >= 2 {
				m.Count("snapshots_committed_a_third_time_or_more", 1)
			}
			countTries(cur)
			return env.probe(h, x, stage, cur, true)
		}
		switch st.Kind {
		case c02rmReloadOK:
			if e := build("reload "+next.name+": BuildKernspace", func() error {
				idx, e := next.commit(env.log, bpf)
				logf("  slots %v", idx)
				return e
			}); e != nil {
				return fail("realmaps/build-error", "BuildKernspace of a reloaded generation over real maps", e)
			}
			countTries(next)
			// cmd/run.go: the new generation takes over the old one's slots, the old one retires
			old := cur.cp.EjectLpmIndices()
			if c02rmIntersect(old, next.core.lpmTrieIndices) {
				m.Count("reloads_whose_slots_overlap_the_previous_generation's", 1)
			}
			next.cp.InheritLpmIndices(old)
			logf("  %s inherited %v from %s, owns %v", next.name, old, cur.name, next.core.lpmTrieIndices)
			if e := cur.closeCore(); e != nil {
				logf("close of %s: %v", cur.name, e)
			}
			cur = next
			if ok, e := env.probe(h, x, "after-successful-reload", cur, true); e != nil || !ok {
				return e
			}
		case c02rmFailAfterCommit:
			if e := build("staged "+next.name+": BuildKernspace", func() error {
				idx, e := next.commit(env.log, bpf)
				logf("  slots %v", idx)
				return e
			}); e != nil {
				return fail("realmaps/build-error", "BuildKernspace of a staged generation over real maps", e)
			}
			countTries(next)
			if ok, e := env.probe(h, x, "staged-generation-committed", next, true); e != nil || !ok {
				return e
			}
			m.Count("rollbacks_after_another_generation_committed", 1)
			if ok, e := rollback("after-rollback-of-a-committed-reload"); e != nil || !ok {
				return e
			}
		case c02rmFailBeforeCommit:
			if ok, e := rollback("after-rollback-of-an-uncommitted-reload"); e != nil || !ok {
				return e
			}
		case c02rmFailCommitError:
			bad, cleanup, e := c02rmFaulty(x, st.Fault)
			if e != nil {
				return fmt.Errorf("create substitute map for fault %s: %w", st.Fault, e)
			}
			next.core.bpf.Store(bad)
			ce := build("staged "+next.name+" with "+st.Fault+": BuildKernspace", func() error {
				_, e := next.commit(env.log, bad)
				return e
			})
			if ce != nil {
				m.Count("injected_commit_faults_effective/"+st.Fault, 1)
				m.Count("injected_commit_faults_effective", 1)
				// the old generation is still the one serving; what the maps hold in this window is recorded only
				if _, e := env.probe(h, x, "window-after-failed-commit("+st.Fault+")", cur, false); e != nil {
					cleanup()
					return e
				}
			} else {
				m.Count("injected_commit_faults_without_effect", 1)
			}
			ok, e := rollback("after-rollback-of-a-failed-commit")
			cleanup()
			if e != nil || !ok {
				return e
			}
		}
	}
	return nil
}

var errStopHistory = errors.New("history stopped after a violation")

func c02rmIntersect(a, b []uint32) bool {
	set := make(map[uint32]struct{}, len(a))
	for _, v := range a {
		set[v] = struct{}{}
	}
	for _, v := range b {
		if _, ok := set[v]; ok {
			return true
		}
	}
	return false
}

// ---- the test ----------------------------------------------------------------------

func TestVerifC02RealMaps(t *testing.T) {
	m := vk.NewMonitor("C02", "realmaps", "translation_validation",
		"seeded histories of 2-4 (thorough 2-6) generations sharing one set of REAL kernel maps (routing_map, routing_meta_map, lpm_array_map + inner LPM tries, created with bpf(2) "+
			"with the definitions of tproxy.c): start-up commit, then reloads that succeed / fail after the staged generation committed / fail before it committed / fail because its "+
			"commit hit an injected map error; every commit is the REAL routingKernspaceSnapshot.BuildKernspace, every roll-back the REAL ControlPlane.RebuildReloadDatapath (same snapshot "+
			"committed again), slot hand-over and release by the REAL Eject/Inherit/ReplaceLpmIndices and controlPlaneCore.Close, ring cursor pre-advanced (random / wrapping in the first / in a later commit); "+
			"after every step the kernel maps are read back as raw bytes, mirrored into tproxy.c's maps (native, ASan+UBSan) and route() is compared with the userspace matcher of the generation serving at that moment "+
			"on boundary packets of ALL programs of the history; distinct = step kind x shape of deciding rule x family x LAN/WAN x port-53")
	m.SetFloor(150)
	m.Assume("kernel array / array-of-maps / LPM-trie semantics and cilium/ebpf's lookups and key iteration are trusted for reading the state back; route() runs in kernsim over that state (LPM lookup emulated by the shim as in part main)",
		"ControlPlane/controlPlaneCore values carry only the fields BuildKernspace, RebuildReloadDatapath, Eject/Inherit/ReplaceLpmIndices and controlPlaneCore.Close read; the call order is the one of cmd/run.go and CommitPreparedDatapath",
		"the transitional window between a failed commit / the close of a failed generation and the roll-back is recorded, not judged",
		"commit faults are injected by substituting one map of the bpf objects with one that refuses the write")
	verifGroupIDs = []uint8{2, 100, 250, uint8(consts.OutboundUserDefinedMax)}
	defer func() { verifGroupIDs = nil }()
	_, id2name := verifOutboundTable()

	probe, err := c02rmNewMaps()
	if err != nil {
		m.Inconclusive("cannot create BPF maps in this environment: %v", err)
		m.Done(t)
		return
	}
	specs := map[string]string{}
	for name, mp := range map[string]*ebpf.Map{"routing_map": probe.routing, "routing_meta_map": probe.meta, "lpm_array_map": probe.lpmArray, "unused_lpm_type": probe.lpmType} {
		specs[name] = fmt.Sprintf("%s key=%d value=%d max_entries=%d flags=%#x", mp.Type(), mp.KeySize(), mp.ValueSize(), mp.MaxEntries(), mp.Flags())
	}
	m.Set("real_maps", specs)
	probe.close()

	k, err := vk.StartKernsim("C02", "realmaps")
	if err != nil {
		m.Inconclusive("cannot build/start kernsim: %v", err)
		m.Done(t)
		return
	}
	defer k.Close()
	r := vk.NewRand(0xC02B)
	env := &c02rmEnv{m: m, k: k, r: r, log: verifQuietLog(), id2name: id2name, npkt: vk.Scale(40, 100)}
	gen := &vk.RGen{R: r, Groups: verifGroups, NeighbourBias: 0.2, V6Slash0: true, WideOr: true, MaxRules: 6}
	// every trie committed or released costs one synchronize_rcu in the kernel (map-in-map update), so the quick tier keeps to ~800 tries
	nh := vk.Scale(55, 1200)
	nbig := vk.Scale(1, 15)
	saved := globalNextLpmIndex.Load()
	defer globalNextLpmIndex.Store(saved)
	// thorough only (each costs ~1600 tries): programs of 515-554 tries, so that consecutive commits overlap on the ring
	nhuge := vk.Scale(0, 3)
	if os.Getenv("VERIF_C02_HUGE") != "" {
		nhuge = 2
	}
	nover := vk.Scale(2, 40)
	// programs of 12-50 address sets with up to 300 prefixes each (thousands of keys per commit)
	nwide := vk.Scale(3, 40)
	rW := vk.NewRand(0xC02D) // own stream: the other histories keep their cases
	for i := 0; i < nh+nbig+nover+nhuge+nwide && m.Violations() < 3; i++ {
		big, over, huge := i >= nh && i < nh+nbig, i >= nh+nbig && i < nh+nbig+nover, i >= nh+nbig+nover && i < nh+nbig+nover+nhuge
		wide := i >= nh+nbig+nover+nhuge
		var h *c02rmHist
		switch {
		case wide:
			h = c02rmWideHist(rW, m)
			m.Count("wide_histories", 1)
		case huge:
			h = c02rmHugeHist(r, i-nh-nbig-nover)
			m.Count("huge_histories", 1)
		case over:
			h = c02rmOverlapHist(r)
			m.Count("ring_overlap_histories", 1)
		default:
			h = c02rmGenHist(r, gen, big)
		}
		ringMode := r.IntN(4)
		if big {
			ringMode = 1 + r.IntN(2)
		}
		var rerr error
		func() {
			defer func() {
				if p := recover(); p != nil {
					m.Violation("realmaps/crash", fmt.Sprintf("panic while replaying a history: %v", p), map[string]any{"history": h})
				}
			}()
			rerr = env.run(h, ringMode)
		}()
		m.Count("histories", 1)
		if big {
			m.Count("big_histories", 1)
		}
		if rerr != nil && !errors.Is(rerr, errStopHistory) {
			m.Inconclusive("history %d: %v", i, rerr)
			break
		}
		if k.Dead() != nil {
			break
		}
		if m.WantSample() && len(h.Steps) > 2 {
			m.Sample(map[string]any{"history": h})
		}
	}
	m.Require("histories", "steps/"+c02rmReloadOK, "steps/"+c02rmFailAfterCommit, "steps/"+c02rmFailBeforeCommit, "steps/"+c02rmFailCommitError,
		"probes/after-first-commit", "probes/after-successful-reload", "probes/staged-generation-committed", "probes/after-rollback-of-a-committed-reload",
		"probes/after-rollback-of-an-uncommitted-reload", "probes/after-rollback-of-a-failed-commit",
		"rebuilds_of_an_already_committed_snapshot", "snapshots_committed_a_third_time_or_more", "rollbacks_after_another_generation_committed",
		"pairs_over_a_snapshot_committed_more_than_once", "pairs_evaluated_past_an_lpm_backed_rule", "lpm_tries_read_back_from_kernel",
		"lpm_slots_released_between_probes", "builds_that_wrapped_the_lpm_ring", "commits_with_4_or_more_tries(parallel path)",
		"injected_commit_faults_effective", "reloads_with_unchanged_program", "port53_pairs", "control_plane_routing_expected", "wan_pairs", "lan_pairs", "big_histories")
	m.Require("ring_overlap_histories", "rebuilds_whose_slots_overlap_the_slots_they_supersede")
	m.Require("wide_histories", "wide_programs_with_more_than_1024_prefixes")
	if nhuge > 0 {
		m.Require("huge_histories", "reloads_whose_slots_overlap_the_previous_generation's")
	}
	m.Done(t)
}
