package control

// C10 monitor, part "seam": DEFERRED WORK RUN AT EVERY SEAM OF AN OPERATION ON THE SAME KEY.
//
// A periodic route refresh of the published entry E(old) of cache key K is queued and dae's own
// bpf-update worker is parked with it (verif yield points: before the worker looks at the task, or
// after its "still published" pre-check). Then ONE production operation on K runs (replacement by a
// new upstream answer, upstream-ready insert, removal, family removal, janitor eviction, expiry
// lookup, re-query) and the parked refresh is released, and runs to completion, at one chosen point
// of that operation at which the production code calls OUT of the DNS controller into a closure of
// the controller option:
//
//	new-cache     the NewCache closure (the operation has not touched the cache or the table yet)
//	before-sync   the operation's own route callback for K (CacheAccessCallback with the new entry /
//	              CacheDeleteCallback for K) has been entered, the production closure not yet called
//	after-sync    that production closure has returned, the operation has not yet returned
//	after-return  the operation has returned
//
// The option is the one (*ControlPlane).dnsControllerOption() returns; each closure is wrapped by a
// function that calls the production closure unchanged and only decides WHEN the parked worker runs.
// Oracle unchanged: at quiescence (the parked task and everything queued behind it finished) the
// table folded from the observed kernel batches must equal the fold of the live cache, also after
// each of a few follow-up operations on K.

import (
	"fmt"
	"math/rand/v2"
	"sort"
	"strings"
	"sync"
	"testing"
	"time"

	componentdns "github.com/daeuniverse/dae/component/dns"
	vk "github.com/daeuniverse/dae/verifkit"
	dnsmessage "github.com/miekg/dns"
	"github.com/sirupsen/logrus"
)

const (
	c10sNewCache    = "new-cache"
	c10sBeforeSync  = "before-sync"
	c10sAfterSync   = "after-sync"
	c10sAfterReturn = "after-return"
)

var c10sSeamsAll = []string{c10sNewCache, c10sBeforeSync, c10sAfterSync, c10sAfterReturn}
var c10sOps = []string{"store", "upready", "remove", "family", "janitor", "query", "lookup"}
var c10sParks = []string{c10PointTask, c10PointRefresh}

// c10sSeams: scheduling state shared by the wrapped option closures (they may run on dae's goroutines).
type c10sSeams struct {
	mu         sync.Mutex
	armed      bool
	key        string
	fqdn       string
	old        *DnsCache
	seam       string
	fired      bool
	firedAt    string
	release    func() error
	err        error
	calls      map[string]int // callbacks of the armed operation that concerned K
	refreshOld int            // refresh callbacks for E(old) while armed or being released
	marker     *DnsCache
	markerDone chan struct{}
}

func (s *c10sSeams) note(cb string) {
	s.mu.Lock()
	if s.armed && s.calls != nil {
		s.calls[cb]++
	}
	s.mu.Unlock()
}

// at: a candidate seam has been reached by the armed operation.
func (s *c10sSeams) at(seam, cb string) {
	s.mu.Lock()
	if !s.armed || s.fired || s.seam != seam || s.release == nil {
		s.mu.Unlock()
		return
	}
	s.fired, s.firedAt = true, cb
	rel := s.release
	s.mu.Unlock()
	if err := rel(); err != nil {
		s.mu.Lock()
		s.err = err
		s.mu.Unlock()
	}
}

func (s *c10sSeams) matchAccess(cache *DnsCache) bool {
	s.mu.Lock()
	defer s.mu.Unlock()
	return s.armed && cache != nil && cache != s.old && cache != s.marker && cache.RouteOwnerKey == s.key
}

func (s *c10sSeams) matchKey(key string) bool {
	s.mu.Lock()
	defer s.mu.Unlock()
	return s.armed && key == s.key
}

func (s *c10sSeams) matchFqdn(fqdn string) bool {
	s.mu.Lock()
	defer s.mu.Unlock()
	return s.armed && strings.EqualFold(fqdn, s.fqdn)
}

// isMarker: the monitor's own end-of-queue marker task; it never reaches a production closure.
func (s *c10sSeams) isMarker(cache *DnsCache) bool {
	s.mu.Lock()
	defer s.mu.Unlock()
	if s.marker == nil || cache != s.marker {
		return false
	}
	if s.markerDone != nil {
		close(s.markerDone)
		s.markerDone = nil
	}
	return true
}

func (s *c10sSeams) wrap(opt *DnsControllerOption) {
	if acc := opt.CacheAccessCallback; acc != nil {
		opt.CacheAccessCallback = func(cache *DnsCache) error {
			if s.isMarker(cache) {
				return nil
			}
			mine := s.matchAccess(cache)
			if mine {
				s.note("access")
				s.at(c10sBeforeSync, "access")
			}
			err := acc(cache)
			if mine {
				s.at(c10sAfterSync, "access")
			}
			return err
		}
	}
	if ref := opt.CacheRefreshCallback; ref != nil {
		opt.CacheRefreshCallback = func(cache *DnsCache, stillCurrent func() bool) error {
			if s.isMarker(cache) {
				return nil
			}
			s.mu.Lock()
			if cache != nil && cache == s.old {
				s.refreshOld++
			}
			s.mu.Unlock()
			return ref(cache, stillCurrent)
		}
	}
	if del := opt.CacheDeleteCallback; del != nil {
		opt.CacheDeleteCallback = func(cacheKey string, cache *DnsCache) error {
			mine := s.matchKey(cacheKey)
			if mine {
				s.note("delete")
				s.at(c10sBeforeSync, "delete")
			}
			err := del(cacheKey, cache)
			if mine {
				s.at(c10sAfterSync, "delete")
			}
			return err
		}
	}
	if nc := opt.NewCache; nc != nil {
		opt.NewCache = func(fqdn string, answers, ns, extra []dnsmessage.RR, deadline, originalDeadline time.Time) (*DnsCache, error) {
			if s.matchFqdn(fqdn) {
				s.note("new-cache")
				s.at(c10sNewCache, "new-cache")
			}
			return nc(fqdn, answers, ns, extra, deadline, originalDeadline)
		}
	}
}

// drain: a marker task is put behind everything queued for the single worker; when the worker
// hands it to the refresh closure every earlier task has been processed (applied or dropped).
func (s *c10sSeams) drain(ctrl *DnsController) error {
	ctrl.bpfUpdateStopMu.Lock()
	ch := ctrl.bpfUpdateCh
	ctrl.bpfUpdateStopMu.Unlock()
	if ch == nil {
		return nil
	}
	mk := &DnsCache{} // no owner key: the worker's liveness check lets it through to the (wrapped) closure
	done := make(chan struct{})
	s.mu.Lock()
	s.marker, s.markerDone = mk, done
	s.mu.Unlock()
	deadline := time.Now().Add(30 * time.Second)
	for !ctrl.sendBpfUpdateTask(&bpfUpdateTask{cache: mk, now: time.Unix(1, 0)}) {
		if time.Now().After(deadline) {
			return fmt.Errorf("bpf-update queue stayed full for 30s")
		}
		time.Sleep(100 * time.Microsecond)
	}
	select {
	case <-done:
		return nil
	case <-time.After(30 * time.Second):
		return fmt.Errorf("bpf-update worker did not reach the marker task within 30s after its release")
	}
}

// ---- one scenario ------------------------------------------------------------------

type c10sCase struct {
	Cfg   int     `json:"cfg"`
	Prog  int     `json:"prog"`
	Fixed bool    `json:"fixed_ttl"`
	Setup []c10Op `json:"setup"`     // other entries (overlapping addresses)
	Old   c10Op   `json:"old_entry"` // the store that publishes E(old) under K
	Park  string  `json:"worker_parked_at"`
	Op    c10Op   `json:"operation"` // the operation on K during which the parked refresh is released
	Seam  string  `json:"seam"`
	After []c10Op `json:"follow_ups"`
}

type c10sResult struct {
	fired      bool
	firedAt    string
	parked     bool
	oldNonZero bool
	oldAddrs   int
	outcome    string // what became of K: replaced / removed / unchanged
	changed    bool   // address set listed under K differs from E(old)'s
	refreshRan bool
}

func c10sAddrSet(c *DnsCache) map[c10Key]struct{} {
	out := map[c10Key]struct{}{}
	if c == nil {
		return out
	}
	for _, rr := range c.Answer {
		if a, ok, unspec := c10AddrOfRR(rr); ok && !unspec {
			out[a] = struct{}{}
		}
	}
	return out
}

func c10sRun(env *c10Env, seams *c10sSeams, sc *c10sCase, stats map[string]int64) (fail *c10Fail, res c10sResult, err error) {
	h := &c10Hist{Cfg: sc.Cfg, Prog: sc.Prog, Fixed: sc.Fixed}
	w := &c10World{env: env, h: h, tokenSeen: map[string]bool{}, stats: stats, prevOwners: map[c10Key]map[string]struct{}{}}
	env.shadow.clear()
	env.gate.set(false)
	w.prog, w.cfg = sc.Prog, sc.Cfg
	if w.cp, w.ctrl, w.core, w.cancel, err = w.newGeneration(sc.Prog, sc.Cfg, nil); err != nil {
		return nil, res, err
	}
	defer func() {
		seams.mu.Lock()
		seams.armed, seams.release, seams.old = false, nil, nil
		seams.mu.Unlock()
		w.closeAll()
	}()
	step := func(i int, op *c10Op, phase string) (*c10Fail, error) {
		if e := w.apply(i, op); e != nil {
			return &c10Fail{Sig: "crash/" + phase + "/" + op.Kind, What: e.Error(), OpIdx: i, Detail: map[string]any{}}, nil
		}
		if e := w.barrier(w.ctrl); e != nil {
			return nil, e
		}
		if f := w.check(i, op); f != nil {
			return f, nil
		}
		return nil, nil
	}
	idx := 0
	for i := range sc.Setup {
		f, e := step(idx, &sc.Setup[i], "setup")
		if e != nil {
			return nil, res, e
		}
		if f != nil {
			f.Sig = "seam-part/before-any-parked-refresh/" + f.Sig
			return f, res, nil
		}
		idx++
	}
	if f, e := step(idx, &sc.Old, "setup"); e != nil || f != nil {
		if f != nil {
			f.Sig = "seam-part/before-any-parked-refresh/" + f.Sig
		}
		return f, res, e
	}
	idx++
	K := w.key(&sc.Old)
	v, ok := w.ctrl.dnsCache.Load(K)
	old, _ := v.(*DnsCache)
	if !ok || old == nil {
		w.count("seam/old_entry_not_published", 1)
		return nil, res, nil
	}
	res.oldNonZero = !c10IsZero(old.DomainBitmap)
	oldAddrs := c10sAddrSet(old)
	res.oldAddrs = len(oldAddrs)

	// queue the periodic refresh of E(old) and park the worker with it
	g := env.gate
	g.mu.Lock()
	p0 := g.parked
	if sc.Park == c10PointRefresh {
		p0 = g.parked2
	}
	g.mu.Unlock()
	g.closeAt(sc.Park)
	w.ctrl.triggerBpfUpdateIfNeeded(old, time.Now().Add(MaxBpfUpdateInterval+time.Second))
	for t0 := time.Now(); time.Since(t0) < 5*time.Second; {
		g.mu.Lock()
		p := g.parked
		if sc.Park == c10PointRefresh {
			p = g.parked2
		}
		g.mu.Unlock()
		if p > p0 {
			res.parked = true
			break
		}
		time.Sleep(50 * time.Microsecond)
	}
	if !res.parked {
		w.count("seam/worker_did_not_park_within_5s", 1)
		g.set(false)
		return nil, res, w.barrier(w.ctrl)
	}
	ctrl := w.ctrl
	seams.mu.Lock()
	seams.armed, seams.key, seams.fqdn, seams.old, seams.seam = true, K, c10Names[sc.Old.Name], old, sc.Seam
	seams.fired, seams.firedAt, seams.err, seams.refreshOld = false, "", nil, 0
	seams.calls = map[string]int{}
	seams.release = func() error {
		g.set(false)
		return seams.drain(ctrl)
	}
	seams.mu.Unlock()

	if e := w.apply(idx, &sc.Op); e != nil {
		return &c10Fail{Sig: "crash/with-parked-refresh/" + sc.Op.Kind, What: e.Error(), OpIdx: idx, Detail: map[string]any{}}, res, nil
	}
	seams.mu.Lock()
	res.fired, res.firedAt = seams.fired, seams.firedAt
	serr := seams.err
	calls := seams.calls
	seams.armed = false // callbacks of later operations are not seams
	seams.mu.Unlock()
	if serr != nil {
		return nil, res, serr
	}
	for cb, n := range calls {
		w.count("seam/callbacks_of_the_operation_for_the_key/"+sc.Op.Kind+"/"+cb, int64(n))
	}
	if !res.fired {
		if sc.Seam != c10sAfterReturn {
			w.count("seam/seam_not_reached_released_after_return/"+sc.Op.Kind+"/"+sc.Seam, 1)
		}
		res.firedAt = "after-return"
		g.set(false)
		if e := seams.drain(ctrl); e != nil {
			return nil, res, e
		}
	}
	seams.mu.Lock()
	res.refreshRan = seams.refreshOld > 0
	seams.mu.Unlock()
	if e := w.barrier(w.ctrl); e != nil {
		return nil, res, e
	}
	res.outcome = "removed"
	if cur, ok := w.ctrl.dnsCache.Load(K); ok {
		if cc, _ := cur.(*DnsCache); cc == old {
			res.outcome = "unchanged"
		} else {
			res.outcome = "replaced"
			na := c10sAddrSet(cc)
			res.changed = len(na) != len(oldAddrs)
			for a := range na {
				if _, ok := oldAddrs[a]; !ok {
					res.changed = true
				}
			}
		}
	} else {
		res.changed = len(oldAddrs) > 0
	}
	effSeam := sc.Seam
	if !res.fired {
		effSeam = c10sAfterReturn
	}
	if f := w.check(idx, &sc.Op); f != nil {
		kind := strings.SplitN(f.Sig, "/", 2)[0]
		f.Sig = "deferred-refresh-at-seam/" + sc.Op.Kind + "/" + effSeam + "/" + kind
		f.What = fmt.Sprintf("a queued route refresh of the entry published under %q was parked (%s), released and finished at seam %q (%s) of a %s of that key; at quiescence: %s",
			K, sc.Park, effSeam, res.firedAt, sc.Op.Kind, f.What)
		f.Detail["key"] = K
		f.Detail["key_after_operation"] = res.outcome
		f.Detail["refresh_closure_entered_for_old_entry"] = res.refreshRan
		return f, res, nil
	}
	idx++
	for i := range sc.After {
		f, e := step(idx, &sc.After[i], "follow-up")
		if e != nil {
			return nil, res, e
		}
		if f != nil {
			kind := strings.SplitN(f.Sig, "/", 2)[0]
			f.Sig = "deferred-refresh-at-seam/" + sc.Op.Kind + "/" + effSeam + "/surfaced-after-follow-up/" + kind
			return f, res, nil
		}
		idx++
	}
	return nil, res, nil
}

// ---- generator -----------------------------------------------------------------------

func c10sGen(r *rand.Rand, i int, nprogs int) *c10sCase {
	sc := &c10sCase{Cfg: r.IntN(len(c10Cfgs)), Prog: 1 + r.IntN(nprogs-1), Fixed: r.IntN(6) == 0}
	if r.IntN(10) == 0 {
		sc.Prog = 0 // no domain rule: every bitmap zero
	}
	// the (operation, seam, park point) combinations are enumerated, everything else is drawn
	kind := c10sOps[i%len(c10sOps)]
	sc.Seam = c10sSeamsAll[(i/len(c10sOps))%len(c10sSeamsAll)]
	sc.Park = c10sParks[(i/(len(c10sOps)*len(c10sSeamsAll)))%len(c10sParks)]
	qt := func() uint16 {
		if r.IntN(2) == 0 {
			return dnsmessage.TypeA
		}
		return dnsmessage.TypeAAAA
	}
	name := r.IntN(len(c10Names) - 1) // not the reject-routed name for K
	q := qt()
	scope := 1 + r.IntN(3)
	if kind == "upready" || (kind != "query" && r.IntN(6) == 0) {
		scope = 0
	}
	oldAns := c10GenAnswer(r, q)
	for try := 0; try < 3 && len(oldAns.Addrs) == 0; try++ {
		oldAns = c10GenAnswer(r, q)
	}
	oldAns.Cname = false
	switch kind {
	case "janitor":
		oldAns.Ttl = []uint32{0, 2, 2, 60}[r.IntN(4)]
	case "query", "lookup":
		oldAns.Ttl = []uint32{0, 0, 2, 60}[r.IntN(4)]
	default:
		oldAns.Ttl = []uint32{60, 600, 600, 2}[r.IntN(4)]
	}
	sc.Old = c10Op{Kind: "store", Name: name, Qtype: q, Scope: scope, Ans: oldAns}
	for k := r.IntN(4); k > 0; k-- {
		q2 := qt()
		s2 := 1 + r.IntN(3)
		if r.IntN(5) == 0 {
			s2 = 0
		}
		a := c10GenAnswer(r, q2)
		a.Ttl = 600
		sc.Setup = append(sc.Setup, c10Op{Kind: "store", Name: r.IntN(len(c10Names)), Qtype: q2, Scope: s2, Ans: a})
	}
	newAns := func() *c10Answer {
		a := c10GenAnswer(r, q)
		for try := 0; try < 4 && fmt.Sprint(a.Addrs) == fmt.Sprint(oldAns.Addrs); try++ {
			a = c10GenAnswer(r, q)
		}
		if a.Ttl < 60 && r.IntN(3) != 0 {
			a.Ttl = 60
		}
		return a
	}
	switch kind {
	case "store":
		sc.Op = c10Op{Kind: "store", Name: name, Qtype: q, Scope: scope, Ans: newAns()}
	case "query":
		sc.Op = c10Op{Kind: "query", Name: name, Qtype: q, Scope: scope, Ans: newAns()}
	case "upready":
		// the upstream's own addresses: the family of K almost always present (K is then replaced)
		a := &c10Answer{}
		if (q == dnsmessage.TypeA && r.IntN(8) != 0) || (q != dnsmessage.TypeA && r.IntN(2) == 0) {
			a.Addrs = append(a.Addrs, c10V4[r.IntN(len(c10V4))])
		}
		if (q == dnsmessage.TypeAAAA && r.IntN(8) != 0) || (q != dnsmessage.TypeAAAA && r.IntN(2) == 0) {
			a.Addrs = append(a.Addrs, c10V6[r.IntN(len(c10V6))])
		}
		sc.Op = c10Op{Kind: "upready", Name: name, Ans: a}
	case "remove":
		sc.Op = c10Op{Kind: "remove", Name: name, Qtype: q, Scope: scope}
	case "family":
		sc.Op = c10Op{Kind: "family", Name: name, Qtype: q}
	case "janitor":
		sc.Op = c10Op{Kind: "janitor", Delta: []int{100, 1000, 1000}[r.IntN(3)]}
	case "lookup":
		sc.Op = c10Op{Kind: "lookup", Name: name, Qtype: q, Scope: scope, Flag: r.IntN(2) == 0}
	}
	for k := r.IntN(3); k > 0; k-- {
		switch r.IntN(5) {
		case 0:
			sc.After = append(sc.After, c10Op{Kind: "remove", Name: name, Qtype: q, Scope: scope})
		case 1:
			sc.After = append(sc.After, c10Op{Kind: "trigger", Name: name, Qtype: q, Scope: scope, Delta: 300})
		case 2:
			sc.After = append(sc.After, c10Op{Kind: "janitor", Delta: 1000})
		default:
			sc.After = append(sc.After, c10Op{Kind: "store", Name: name, Qtype: q, Scope: scope, Ans: newAns()})
		}
	}
	return sc
}

func c10sDescribe(env *c10Env, sc *c10sCase) map[string]any {
	ops := append(append(append([]c10Op(nil), sc.Setup...), sc.Old, sc.Op), sc.After...)
	d := c10Describe(env, &c10Hist{Cfg: sc.Cfg, Prog: sc.Prog, Fixed: sc.Fixed, Ops: ops})
	rd, _ := d["ops_readable"].([]string)
	n := len(sc.Setup)
	if len(rd) > n+1 {
		rd[n] += "   <- publishes E(old); then its periodic route refresh is queued and the worker parked at " + sc.Park
		rd[n+1] += "   <- the parked refresh is released and finishes at seam " + sc.Seam + " of this operation"
	}
	d["ops_readable"] = rd
	d["scenario"] = sc
	delete(d, "ops")
	return d
}

// c10sMinimize drops setup and follow-up operations while a failure with the same signature reproduces.
func c10sMinimize(env *c10Env, seams *c10sSeams, sc *c10sCase, f *c10Fail) (*c10sCase, *c10Fail) {
	cur, curF := sc, f
	try := func(cand *c10sCase) *c10Fail {
		for k := 0; k < 2; k++ {
			f2, _, err := c10sRun(env, seams, cand, map[string]int64{})
			if err == nil && f2 != nil && f2.Sig == f.Sig {
				return f2
			}
		}
		return nil
	}
	if strings.HasPrefix(f.Sig, "deferred-refresh-at-seam/") && !strings.Contains(f.Sig, "surfaced-after-follow-up") {
		cand := *cur
		cand.After = nil
		cur = &cand
	}
	for i := 0; i < len(cur.Setup); {
		cand := *cur
		cand.Setup = append(append([]c10Op(nil), cur.Setup[:i]...), cur.Setup[i+1:]...)
		if f2 := try(&cand); f2 != nil {
			cur, curF = &cand, f2
		} else {
			i++
		}
	}
	return cur, curF
}

// ---- the test ------------------------------------------------------------------------------

func TestVerifC10Seam(t *testing.T) {
	m := vk.NewMonitor("C10", "seam", "exploration",
		"scenarios: 0-3 other cached entries over the small name/address pools, then E(old) stored under key K (production NormalizeAndCacheDnsResp_), its periodic route refresh queued "+
			"(triggerBpfUpdateIfNeeded, the call a cache hit makes) with dae's bpf-update worker parked before it looks at the task or after its still-published pre-check; then one operation on K "+
			"(store of a different answer, upstream-ready insert, RemoveDnsRespCache, RemoveDnsRespCacheFamily, janitor eviction, expiry lookup, re-query) during which the parked refresh is released and runs to completion at one seam "+
			"(NewCache closure / operation's own route closure entered / that closure returned / operation returned); the (operation, seam, park point) combinations are enumerated, the rest is drawn; then 0-2 follow-up operations on K; "+
			"after the operation and after every follow-up the table folded from the observed kernel batches is compared with the fold of the live cache; "+
			"distinct = (operation, seam actually reached, park point, cache config, what became of K, E(old) bitmap zero or not, address set changed or not); non-trivial = E(old) had a non-zero bitmap and the operation changed the address set listed under K")
	m.SetFloor(vk.Scale(60, 150))
	m.Assume("the option closures are the production ones of (*ControlPlane).dnsControllerOption(); each is wrapped by a function that calls it unchanged and, for the one armed operation, releases the parked worker and waits until a marker task queued behind everything else has been handed to the refresh closure (single worker, FIFO queue); the marker never reaches a production closure",
		"seams are the points at which the DNS controller calls out into its option (NewCache, CacheAccessCallback, CacheDeleteCallback); points between two statements inside the controller are reachable only where a verif yield point exists (worker side: dns-bpf-update-task, dns-bpf-update-refresh)",
		"worlds as in part main (DomainRoutingMap == nil, table = fold of the batches handed to the kernel calls); one issuing goroutine; nothing is judged while the worker is parked",
		"whether an operation reaches a seam at all (a re-query served from the cache calls nothing out) is observed, not assumed: an unreached seam releases the worker after the operation returned and is counted as such")

	log := verifQuietLog()
	r := vk.NewRand(0xC105)
	seams := &c10sSeams{}
	env := &c10Env{log: log, shadow: &c10Shadow{S: map[c10Key]c10Bm{}}, gate: newC10Gate(), wrapOpt: seams.wrap}
	for i := 0; i < 6; i++ {
		text := c10GenProgText(r, i)
		p, err := c10BuildProg(text)
		if err != nil {
			m.Inconclusive("cannot build routing program %d: %v\n%s", i, err, text)
			m.Done(t)
			return
		}
		env.progs = append(env.progs, p)
	}
	var err error
	if env.routing, err = c10BuildDnsRouting(log); err != nil {
		m.Inconclusive("cannot build dns routing: %v", err)
		m.Done(t)
		return
	}
	obs := func(upd [][4]uint32, vals []bpfDomainRouting, del [][4]uint32) { env.shadow.observe(upd, vals, del) }
	VerifDomainRoutingObserver.Store(&obs)
	defer VerifDomainRoutingObserver.Store(nil)
	yh := env.gate.hook
	VerifYieldHook.Store(&yh)
	defer VerifYieldHook.Store(nil)
	origFactory := dnsForwarderFactory
	dnsForwarderFactory = func(*componentdns.Upstream, dialArgument, *logrus.Logger) (DnsForwarder, error) {
		return &stubDnsForwarder{forward: env.forward}, nil
	}
	defer func() { dnsForwarderFactory = origFactory }()

	stats := map[string]int64{}
	minimized := map[string]bool{}
	n := vk.Scale(1120, 22400)
	for i := 0; i < n && m.Violations() < 3; i++ {
		sc := c10sGen(r, i, len(env.progs))
		c0 := stats["checks"]
		fail, res, rerr := c10sRun(env, seams, sc, stats)
		m.Count("scenarios", 1)
		if rerr != nil {
			m.Inconclusive("scenario %d: %v", i, rerr)
			break
		}
		m.Eval(int(stats["checks"] - c0))
		if res.parked {
			eff := sc.Seam
			if !res.fired {
				eff = c10sAfterReturn
			}
			m.Count("parked_refresh_ran_at/"+sc.Op.Kind+"/"+eff, 1)
			m.Count("parked_refresh_ran_via/"+res.firedAt, 1)
			m.Count("worker_parked_at/"+sc.Park, 1)
			m.Count("key_after_operation/"+sc.Op.Kind+"/"+res.outcome, 1)
			if res.refreshRan {
				m.Count("released_refresh_reached_the_refresh_closure/"+eff, 1)
			} else {
				m.Count("released_refresh_dropped_by_the_worker_precheck/"+eff, 1)
			}
			nz := "zero-bitmap"
			if res.oldNonZero {
				nz = "nonzero-bitmap"
			}
			ch := "same-addresses"
			if res.changed {
				ch = "addresses-changed"
			}
			if res.oldNonZero && res.changed {
				m.Count("nontrivial_scenarios", 1)
				m.Count("nontrivial_at/"+sc.Op.Kind+"/"+eff, 1)
				m.Distinct(strings.Join([]string{sc.Op.Kind, eff, sc.Park, c10Cfgs[sc.Cfg].Name, res.outcome, nz, ch}, "|"))
				if m.WantSample() && fail == nil {
					d := c10sDescribe(env, sc)
					delete(d, "routing_programs")
					delete(d, "scenario")
					d["key_after_operation"] = res.outcome
					d["seam_reached_via"] = res.firedAt
					m.Sample(d)
				}
			}
		}
		if fail != nil {
			minS, minF := sc, fail
			if !minimized[fail.Sig] {
				minimized[fail.Sig] = true
				minS, minF = c10sMinimize(env, seams, sc, fail)
			}
			wit := c10sDescribe(env, minS)
			wit["failure"] = minF.Detail
			wit["failure_text"] = minF.What
			wit["scenario_index"] = i
			m.Violation(minF.Sig, minF.What, wit)
		}
	}
	keys := make([]string, 0, len(stats))
	for k := range stats {
		keys = append(keys, k)
	}
	sort.Strings(keys)
	for _, k := range keys {
		m.Count(k, stats[k])
	}
	req := []string{"nontrivial_scenarios", "worker_parked_at/" + c10PointTask, "worker_parked_at/" + c10PointRefresh,
		"released_refresh_reached_the_refresh_closure/" + c10sNewCache, "mirror_agrees_with_shadow",
		"key_after_operation/store/replaced", "key_after_operation/upready/replaced", "key_after_operation/remove/removed",
		"key_after_operation/family/removed", "key_after_operation/janitor/removed"}
	for _, op := range []string{"store", "upready"} {
		for _, s := range c10sSeamsAll {
			req = append(req, "parked_refresh_ran_at/"+op+"/"+s, "nontrivial_at/"+op+"/"+s)
		}
	}
	for _, op := range []string{"remove", "family", "janitor"} {
		for _, s := range []string{c10sBeforeSync, c10sAfterSync, c10sAfterReturn} {
			req = append(req, "parked_refresh_ran_at/"+op+"/"+s, "nontrivial_at/"+op+"/"+s)
		}
	}
	m.Require(req...)
	m.Done(t)
}
