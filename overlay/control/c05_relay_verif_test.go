//go:build linux

package control

// C05 monitor: TCP relay integrity, half-close, detection deadlines.
//
// Real 127.0.0.1 TCP socket pairs (client <-> "dae listener side", "dae dial
// side" <-> fake upstream). The dae side is composed exactly as
// ControlPlane.handleConn composes it (DNS fast-path probe for dst port 53 ->
// bufioConn; shouldTryTcpSniff -> prefetchForTcpSniff -> prefixedConn ->
// ConnSniffer.SniffTcp; then RelayTCPContextWithRecords with non-nil
// recorders). Only the ~50 lines of wiring between those real pieces are
// re-implemented (handleConn needs a loaded datapath); the pieces are dae's.
//
// Oracles (from the property statement only):
//   * conservation: each peer sends a stream whose every 16-byte unit embeds
//     (connection id, direction, unit index, PRNG(unit index)); the receiving
//     side compares on the fly and classifies the first difference as
//     loss / duplication / foreign-connection / corruption / extra / short;
//   * half-close: after A's write-shutdown B must see EOF while the B->A
//     direction still delivers data (checked inside a 3 s window, and only
//     judged when B->A traffic sent after the shutdown demonstrably arrived);
//     nothing may be cut earlier than 5 s after a half-close;
//   * detection deadlines: the harness never closes; at
//     T_compose_start + detection window + 2 s the relay must still run, no
//     peer may have seen EOF/RST, and a late unit must pass in both directions;
//   * composition delay <= sum of detection windows + 2 s.
// Violations need positive evidence (mismatch, EOF/RST/relay return that
// nobody asked for); pure watchdog expiry is INCONCLUSIVE.

import (
	"bufio"
	"bytes"
	"context"
	"crypto/tls"
	"encoding/binary"
	"encoding/json"
	"errors"
	"fmt"
	"io"
	"math/rand/v2"
	"net"
	"net/netip"
	"os"
	"path/filepath"
	"runtime"
	"sort"
	"strings"
	"sync"
	"sync/atomic"
	"testing"
	"time"

	"github.com/daeuniverse/dae/common/consts"
	daerrors "github.com/daeuniverse/dae/common/errors"
	"github.com/daeuniverse/dae/component/sniffing"
	vk "github.com/daeuniverse/dae/verifkit"
	"github.com/daeuniverse/outbound/netproxy"
)

// ---------------------------------------------------------------------------
// streams with embedded position counters

const c05Unit = 16

func c05Mix(x uint64) uint64 {
	x += 0x9e3779b97f4a7c15
	x = (x ^ (x >> 30)) * 0xbf58476d1ce4e5b9
	x = (x ^ (x >> 27)) * 0x94d049bb133111eb
	return x ^ (x >> 31)
}

func c05Key(seed uint64, id uint16, dir byte) uint64 {
	return c05Mix(seed ^ uint64(id)<<16 ^ uint64(dir))
}

type c05Stream struct {
	pre   []byte
	id    uint16
	dir   byte
	seed  uint64
	key   uint64
	total int64
}

func c05NewStream(seed uint64, id uint16, dir byte, pre []byte, body int64) *c05Stream {
	return &c05Stream{pre: pre, id: id, dir: dir, seed: seed, key: c05Key(seed, id, dir), total: int64(len(pre)) + body}
}

func c05PutUnit(out []byte, id uint16, dir byte, key uint64, i uint32) {
	out[0] = 0xC5
	out[1] = dir
	out[2] = byte(id >> 8)
	out[3] = byte(id)
	binary.BigEndian.PutUint32(out[4:8], i)
	binary.BigEndian.PutUint64(out[8:16], c05Mix(key+uint64(i)))
}

// fill writes the stream bytes [off, off+len(p)) into p (no bound on total).
func (s *c05Stream) fill(p []byte, off int64) {
	n := 0
	if off < int64(len(s.pre)) {
		n = copy(p, s.pre[off:])
		off += int64(n)
	}
	var u [c05Unit]byte
	for n < len(p) {
		b := off - int64(len(s.pre))
		i := uint32(b / c05Unit)
		c05PutUnit(u[:], s.id, s.dir, s.key, i)
		c := copy(p[n:], u[b%c05Unit:])
		n += c
		off += int64(c)
	}
}

type c05Mismatch struct {
	Kind     string `json:"kind"`
	Offset   int64  `json:"stream_offset"`
	Shift    int64  `json:"shift_bytes,omitempty"`
	InPre    bool   `json:"inside_probe_prefix"`
	Expected string `json:"expected_hex"`
	Got      string `json:"got_hex"`
	Note     string `json:"note,omitempty"`
}

type c05Checker struct {
	s       *c05Stream
	off     int64
	scratch []byte
	bad     *c05Mismatch
}

func (c *c05Checker) feed(p []byte) {
	if c.bad != nil || len(p) == 0 {
		c.off += int64(len(p))
		return
	}
	n := len(p)
	if c.off+int64(n) > c.s.total {
		n = int(c.s.total - c.off)
		if n < 0 {
			n = 0
		}
	}
	if cap(c.scratch) < n {
		c.scratch = make([]byte, n)
	}
	exp := c.scratch[:n]
	c.s.fill(exp, c.off)
	if !bytes.Equal(exp, p[:n]) {
		i := 0
		for i < n && exp[i] == p[i] {
			i++
		}
		c.bad = c.s.classify(c.off+int64(i), p[i:])
	} else if n < len(p) {
		g := p[n:]
		if len(g) > 32 {
			g = g[:32]
		}
		c.bad = &c05Mismatch{Kind: "extra", Offset: c.s.total, Got: fmt.Sprintf("%x", g),
			Note: "bytes received beyond the end of the sent stream"}
		if m := c.s.locate(p[n:]); m != nil {
			c.bad.Note += "; " + m.Note
		}
	}
	c.off += int64(len(p))
}

// locate finds a self-describing unit inside got and says which stream
// position (of which connection) it came from.
func (s *c05Stream) locate(got []byte) *c05Mismatch {
	for j := 0; j+c05Unit <= len(got) && j < 64; j++ {
		g := got[j:]
		if g[0] != 0xC5 || (g[1] != 'c' && g[1] != 's') {
			continue
		}
		id := uint16(g[2])<<8 | uint16(g[3])
		i := binary.BigEndian.Uint32(g[4:8])
		if binary.BigEndian.Uint64(g[8:16]) != c05Mix(c05Key(s.seed, id, g[1])+uint64(i)) {
			continue
		}
		pos := int64(len(s.pre)) + int64(i)*c05Unit - int64(j)
		if id != s.id || g[1] != s.dir {
			return &c05Mismatch{Kind: "foreign", Note: fmt.Sprintf("bytes belong to connection id=%d dir=%c unit=%d", id, g[1], i)}
		}
		return &c05Mismatch{Shift: pos, Note: fmt.Sprintf("received bytes are this stream's offset %d", pos)}
	}
	return nil
}

func (s *c05Stream) classify(off int64, got []byte) *c05Mismatch {
	w := len(got)
	if w > 48 {
		w = 48
	}
	exp := make([]byte, w)
	s.fill(exp, off)
	mm := &c05Mismatch{Kind: "differs", Offset: off, InPre: off < int64(len(s.pre)),
		Expected: fmt.Sprintf("%x", exp), Got: fmt.Sprintf("%x", got[:w])}
	if w >= 8 {
		cmp := w
		if cmp > 24 {
			cmp = 24
		}
		tmp := make([]byte, cmp)
		for k := int64(1); k <= 80000 && off+k+int64(cmp) <= s.total; k++ {
			s.fill(tmp, off+k)
			if bytes.Equal(tmp, got[:cmp]) {
				mm.Kind, mm.Shift = "loss", k
				mm.Note = fmt.Sprintf("%d bytes missing at offset %d", k, off)
				return mm
			}
		}
		for k := int64(1); k <= 80000 && k <= off; k++ {
			s.fill(tmp, off-k)
			if bytes.Equal(tmp, got[:cmp]) {
				mm.Kind, mm.Shift = "dup", -k
				mm.Note = fmt.Sprintf("bytes from offset %d repeated at offset %d", off-k, off)
				return mm
			}
		}
	}
	if l := s.locate(got); l != nil {
		if l.Kind == "foreign" {
			mm.Kind, mm.Note = "foreign", l.Note
		} else if l.Shift > off {
			mm.Kind, mm.Shift, mm.Note = "loss", l.Shift-off, l.Note
		} else {
			mm.Kind, mm.Shift, mm.Note = "dup", l.Shift-off, l.Note
		}
	}
	return mm
}

// ---------------------------------------------------------------------------
// first-bytes corpora

var (
	c05HelloOnce  sync.Once
	c05HelloSmall []byte
	c05HelloLarge []byte
)

func c05CaptureHello(cfg *tls.Config) []byte {
	a, b := net.Pipe()
	defer a.Close()
	defer b.Close()
	go func() { _ = tls.Client(a, cfg).Handshake() }()
	_ = b.SetReadDeadline(time.Now().Add(5 * time.Second))
	hdr := make([]byte, 5)
	if _, err := io.ReadFull(b, hdr); err != nil {
		return nil
	}
	body := make([]byte, int(hdr[3])<<8|int(hdr[4]))
	if _, err := io.ReadFull(b, body); err != nil {
		return nil
	}
	return append(hdr, body...)
}

func c05Hellos() ([]byte, []byte) {
	c05HelloOnce.Do(func() {
		c05HelloSmall = c05CaptureHello(&tls.Config{ServerName: "c05-small.example.com", InsecureSkipVerify: true,
			CurvePreferences: []tls.CurveID{tls.X25519}, MaxVersion: tls.VersionTLS12})
		c05HelloLarge = c05CaptureHello(&tls.Config{ServerName: "c05-large.example.com", InsecureSkipVerify: true,
			NextProtos: []string{"h2", "http/1.1"}})
	})
	return c05HelloSmall, c05HelloLarge
}

func c05RandBytes(r *rand.Rand, n int) []byte {
	b := make([]byte, n)
	for i := range b {
		b[i] = byte(r.Uint32())
	}
	return b
}

// c05DNSResponseFrame: a well-formed DNS-over-TCP frame whose QR bit says
// "response" (so it is not a client query).
func c05DNSResponseFrame(r *rand.Rand) []byte {
	msg := []byte{byte(r.Uint32()), byte(r.Uint32()), 0x81, 0x80, 0, 1, 0, 0, 0, 0, 0, 0}
	msg = append(msg, 7, 'e', 'x', 'a', 'm', 'p', 'l', 'e', 3, 'c', 'o', 'm', 0, 0, 1, 0, 1)
	return append([]byte{byte(len(msg) >> 8), byte(len(msg))}, msg...)
}

func c05Preamble(r *rand.Rand, class string, id int) []byte {
	small, large := c05Hellos()
	switch class {
	case "none":
		return nil
	case "tls-small":
		return append([]byte(nil), small...)
	case "tls-large":
		return append([]byte(nil), large...)
	case "http":
		return []byte(fmt.Sprintf("GET /c05/%d HTTP/1.1\r\nHost: c05-%d.example.com\r\nUser-Agent: verif\r\nAccept: */*\r\n\r\n", id, id))
	case "http-longhost":
		// the Host line is the long tail of what a trickling client has sent so far
		lbl := func(n int) string {
			b := c05RandBytes(r, n)
			for i := range b {
				b[i] = 'a' + b[i]%26
			}
			return string(b)
		}
		return []byte(fmt.Sprintf("GET /c05/%d HTTP/1.1\r\nUser-Agent: verif\r\nHost: c05-%d.%s.%s.%s.example.com\r\nAccept: */*\r\n\r\n", id, id, lbl(60), lbl(60), lbl(50)))
	case "http-big":
		return []byte(fmt.Sprintf("POST /c05/%d HTTP/1.1\r\nX-Pad: %s\r\nHost: c05-%d.example.com\r\n\r\n", id, strings.Repeat("p", 3000+r.IntN(3000)), id))
	case "tlsish-garbage":
		// looks like a TLS handshake record that never completes
		return append([]byte{0x16, 0x03, 0x01, 0x3f, 0xff, 0x01}, c05RandBytes(r, 40+r.IntN(300))...)
	case "httpish-garbage":
		b := c05RandBytes(r, 30+r.IntN(200))
		for i := range b {
			b[i] = 'a' + b[i]%26
		}
		return append([]byte("GET "), b...)
	case "garbage":
		b := c05RandBytes(r, 1+r.IntN(400))
		b[0] = 0x80 | b[0] // neither 0x16 nor an ASCII method letter
		return b
	// ---- destination port 53
	case "short-len":
		return append([]byte{0x00, byte(r.IntN(12))}, c05RandBytes(r, 5+r.IntN(60))...)
	case "big-len":
		return []byte("SSH-2.0-OpenSSH_9.6 c05\r\n")
	case "max-len":
		// a binary protocol whose first two bytes read as the largest DNS-over-TCP frame lengths
		return append([]byte{0xff, byte(0xfd + r.IntN(3))}, c05RandBytes(r, 10+r.IntN(200))...)
	case "bad-parse":
		n := 20 + r.IntN(100)
		b := c05RandBytes(r, n)
		b[4], b[5], b[6], b[7] = 0xff, 0xff, 0xff, 0xff // qdcount/ancount absurd
		return append([]byte{0, byte(n)}, b...)
	case "partial-frame":
		// announces 300 bytes, far fewer follow before the client falls silent
		return append([]byte{0x01, 0x2c}, c05RandBytes(r, 20+r.IntN(60))...)
	case "dns-response":
		return c05DNSResponseFrame(r)
	}
	panic("c05: unknown preamble class " + class)
}

// ---------------------------------------------------------------------------
// case description

type c05Case struct {
	ID       int    `json:"id"`
	CaseSeed uint64 `json:"case_seed"`
	Stack    string `json:"stack"` // plain | sniff | dns53
	WindowMs int    `json:"sniffing_timeout_ms"`
	Pre      string `json:"first_bytes"`
	PreLen   int    `json:"first_bytes_len"`
	Arrival  string `json:"client_first_write"` // before | inside | after | never
	Split    int    `json:"first_burst_len"`    // 0 = no split
	Gap      string `json:"gap_after_first_burst"`
	C2S      int    `json:"c2s_body"`
	S2C      int    `json:"s2c_body"`
	SegC     string `json:"seg_client"`
	SegS     string `json:"seg_server"`
	RConn    string `json:"upstream_conn"` // tcp | opaque
	Close    string `json:"close_order"`   // client-first | server-first | simul | never
	SrvStart string `json:"server_start"`  // immediate | after-first-byte
	DstPort  uint16 `json:"dst_port"`
	// Eager: the closing side shuts down its write side right after its last
	// write, without waiting for delivery (EOF may be pending when the relay
	// starts). LongGrace: the opposite direction keeps flowing for ~4 s.
	SmallWin  bool `json:"small_receive_window"` // harness peers use 128 KiB SO_RCVBUF and read slowly: back-pressure, partial writes
	Eager     bool `json:"eager_close"`
	LongGrace bool `json:"long_grace"`
	// OldConn: the connection idles for longer than the relay's half-close grace
	// period (10 s) before the first half-close, so a grace deadline that is not
	// anchored at the moment of the half-close shows up.
	OldConn bool `json:"old_connection_before_half_close"`
	// DialDelayMs: time the (simulated) upstream dial takes between composition and relay start.
	DialDelayMs int `json:"dial_delay_ms"`
	// Trickle: the client's first flight (first_bytes) arrives as this many fragments, TrickleMs apart,
	// every gap shorter than the detection window and the whole flight far longer than it.
	Trickle   int `json:"trickle_fragments,omitempty"`
	TrickleMs int `json:"trickle_spacing_ms,omitempty"`
	// TinyBuf: SO_SNDBUF of dae's dialled upstream socket and SO_RCVBUF of the upstream's socket (bytes);
	// the upstream starts reading ReadDelayMs after accepting: the first write of the copy path meets a
	// full socket. TinyBoth: the same on the client side (dae's accepted socket / the client's socket).
	TinyBuf     int  `json:"tiny_socket_buffers,omitempty"`
	TinyBoth    bool `json:"tiny_socket_buffers_client_side_too,omitempty"`
	ReadDelayMs int  `json:"receiver_starts_reading_after_ms,omitempty"`
}

func c05Pick[T any](r *rand.Rand, xs ...T) T { return xs[r.IntN(len(xs))] }

func c05Size(r *rand.Rand, budget *int64) int {
	var n int
	switch x := r.IntN(100); {
	case x < 50:
		n = c05Pick(r, 0, 1, 7, 8, 9, 15, 16, 17, 31, 100, 1447, 1448, 1449, 4094, 4095, 4096, 4097)
	case x < 70:
		n = r.IntN(70000)
	case x < 94:
		n = c05Pick(r, 32767, 32768, 32769, 65535, 65536, 100000, 262143, 262144, 262145, 300001)
	default:
		n = c05Pick(r, 1<<20, 1<<20+13, 4<<20)
	}
	if int64(n) > *budget {
		n = r.IntN(5000)
	}
	*budget -= int64(n)
	return n
}

func c05GenCase(r *rand.Rand, id int, budget *int64) *c05Case {
	cs := &c05Case{ID: id, CaseSeed: r.Uint64()}
	switch x := r.IntN(100); {
	case x < 18:
		cs.Stack = "plain"
	case x < 75:
		cs.Stack = "sniff"
	default:
		cs.Stack = "dns53"
	}
	cs.WindowMs = c05Pick(r, 60, 150, 400)
	switch cs.Stack {
	case "plain":
		cs.Pre = c05Pick(r, "none", "garbage", "http", "tls-small")
		cs.DstPort = c05Pick[uint16](r, 80, 443, 22, 8080) // 22 is sniff-excluded; 80/443 use outbound direct
	case "sniff":
		cs.Pre = c05Pick(r, "tls-small", "tls-large", "tls-large", "http", "http-big", "tlsish-garbage", "httpish-garbage", "garbage", "none")
		cs.DstPort = c05Pick[uint16](r, 80, 443, 8443, 5222)
	case "dns53":
		cs.Pre = c05Pick(r, "short-len", "big-len", "bad-parse", "partial-frame", "dns-response", "none")
		if rand.New(rand.NewPCG(cs.CaseSeed, 0x3A71)).IntN(6) == 0 {
			cs.Pre = "max-len"
		}
		cs.DstPort = 53
	}
	cs.C2S = c05Size(r, budget)
	cs.S2C = c05Size(r, budget)
	cs.SegC = c05Pick(r, "1", "rand", "rand", "mss", "one")
	cs.SegS = c05Pick(r, "1", "rand", "mss", "one", "one")
	cs.RConn = c05Pick(r, "tcp", "tcp", "opaque")
	cs.SrvStart = c05Pick(r, "immediate", "after-first-byte")
	cs.Arrival = c05Pick(r, "before", "before", "inside", "after", "never")
	if cs.Stack == "dns53" {
		cs.Close = c05Pick(r, "never", "never", "never", "client-first", "server-first", "simul")
	} else {
		cs.Close = c05Pick(r, "never", "never", "client-first", "client-first", "server-first", "server-first", "simul")
	}
	cs.DialDelayMs = c05Pick(rand.New(rand.NewPCG(cs.CaseSeed, 0xD1A1)), 0, 0, 3, 15, 40)
	cs.SmallWin = (cs.C2S >= 65535 || cs.S2C >= 65535) && r.IntN(2) == 0
	cs.Eager = cs.Close != "never" && r.IntN(5) < 2
	cs.LongGrace = (cs.Close == "client-first" || cs.Close == "server-first") && r.IntN(3) == 0
	if (cs.Close == "client-first" || cs.Close == "server-first") && r.IntN(10) == 0 {
		cs.OldConn, cs.Eager = true, false
	}
	return cs
}

// ---------------------------------------------------------------------------
// copy-path observation: which dae copy routine invoked the traffic recorder

var c05PathCache sync.Map // innermost pcs -> string

func c05CallerPath() string {
	var pcs [12]uintptr
	n := runtime.Callers(3, pcs[:])
	if n == 0 {
		return "unknown"
	}
	key := [4]uintptr{pcs[0], pcs[1], pcs[2], pcs[3]}
	if v, ok := c05PathCache.Load(key); ok {
		return v.(string)
	}
	path := "unknown"
	frames := runtime.CallersFrames(pcs[:n])
	for {
		f, more := frames.Next()
		fn := f.Function
		switch {
		case strings.HasSuffix(fn, ".relaySpliceCopyExact"), strings.HasSuffix(fn, ".relayChunkedSpliceCopy"):
			path = "splice"
		case strings.HasSuffix(fn, ".tryRelayGatherWrite"):
			path = "gather"
		case strings.HasSuffix(fn, ".relayCopyLoop"), strings.HasSuffix(fn, ".relayCopyDirect"):
			path = "loop"
		}
		if path != "unknown" || !more {
			break
		}
	}
	c05PathCache.Store(key, path)
	return path
}

type c05PathSet struct {
	mu sync.Mutex
	b  map[string]int64
}

func (p *c05PathSet) record(n int64) {
	path := c05CallerPath()
	p.mu.Lock()
	if p.b == nil {
		p.b = map[string]int64{}
	}
	p.b[path] += n
	p.mu.Unlock()
}

func (p *c05PathSet) String() string {
	p.mu.Lock()
	defer p.mu.Unlock()
	var ks []string
	for k := range p.b {
		ks = append(ks, k)
	}
	sort.Strings(ks)
	return strings.Join(ks, "+")
}

// opaque upstream conn: a proxy-protocol-like conn that cannot be unwrapped to
// a *net.TCPConn (forces the buffered loop) but supports write-shutdown.
type c05OpaqueConn struct {
	c           *net.TCPConn
	closeWrites atomic.Int32
}

func (o *c05OpaqueConn) Read(b []byte) (int, error)         { return o.c.Read(b) }
func (o *c05OpaqueConn) Write(b []byte) (int, error)        { return o.c.Write(b) }
func (o *c05OpaqueConn) Close() error                       { return o.c.Close() }
func (o *c05OpaqueConn) SetDeadline(t time.Time) error      { return o.c.SetDeadline(t) }
func (o *c05OpaqueConn) SetReadDeadline(t time.Time) error  { return o.c.SetReadDeadline(t) }
func (o *c05OpaqueConn) SetWriteDeadline(t time.Time) error { return o.c.SetWriteDeadline(t) }
func (o *c05OpaqueConn) CloseWrite() error {
	o.closeWrites.Add(1)
	return o.c.CloseWrite()
}

// ---------------------------------------------------------------------------
// handleConn wiring (control/tcp.go:138-218 + 266), re-implemented verbatim

type c05Composed struct {
	outcome  string
	sniffer  *sniffing.ConnSniffer
	handled  bool
	domain   string
	sniffErr string
	windows  time.Duration // sum of the detection windows of the probes that ran
}

func c05Compose(cp *ControlPlane, lConn net.Conn, dst netip.AddrPort, rr *bpfRoutingResult, out *c05Composed) (lRelayConn netproxy.Conn, err error) {
	ctx := context.Background()
	src := lConn.RemoteAddr().(*net.TCPAddr).AddrPort()
	out.outcome = "plain"
	if dst.Port() == 53 {
		out.windows += TCPDNSFirstReadTimeout
		bufReader := bufio.NewReader(lConn)
		handled, dnsErr := cp.handleTCPDnsFastPath(ctx, lConn, bufReader, src, dst, rr)
		if handled {
			out.handled = true
			out.outcome = "dns-handled"
			return nil, dnsErr
		}
		lConn = &bufioConn{Conn: lConn, reader: bufReader}
		out.outcome = "bufio"
	}
	lRelayConn = lConn
	if cp.shouldTryTcpSniff(dst, rr) {
		cacheKey := newTcpSniffNegKey(dst, rr)
		now := time.Now()
		if cp.shouldSkipTcpSniffByNegativeCache(cacheKey, now) {
			out.outcome += "+negskip"
		} else {
			out.windows += cp.sniffingTimeout
			probeConn, prefetched, ready, probeErr := prefetchForTcpSniff(lConn, cp.sniffingTimeout, tcpSniffPrefetchBytes)
			if probeErr != nil {
				out.outcome = "prefetch-error"
				return nil, probeErr
			}
			switch {
			case !ready:
				cp.noteTcpSniffFailure(cacheKey, now)
				lRelayConn = probeConn
				out.outcome = strings.Replace(out.outcome, "plain", "raw-noready", 1)
			case !isLikelyHttpOrTLSPrefix(prefetched):
				cp.noteTcpSniffFailure(cacheKey, now)
				lRelayConn = probeConn
				out.outcome = strings.Replace(out.outcome, "plain", "prefixed", 1)
			default:
				out.windows += cp.sniffingTimeout
				sniffer := sniffing.NewConnSniffer(probeConn, cp.sniffingTimeout)
				out.sniffer = sniffer
				lRelayConn = sniffer
				domain, serr := sniffer.SniffTcp()
				if serr != nil {
					if !sniffing.IsSniffingError(serr) && !daerrors.IsIgnorableConnectionError(serr) {
						out.outcome = "sniff-fatal"
						return nil, serr
					}
					cp.noteTcpSniffFailure(cacheKey, now)
					out.sniffErr = serr.Error()
					out.outcome = strings.Replace(out.outcome, "plain", "sniffer-err", 1)
				} else {
					cp.clearTcpSniffNegative(cacheKey)
					out.domain = domain
					out.outcome = strings.Replace(out.outcome, "plain", "sniffer-ok", 1)
				}
			}
		}
	}
	return lRelayConn, nil
}

// ---------------------------------------------------------------------------
// scheduling-lag heartbeat: every verdict that depends on "nothing happened
// within N seconds" is only drawn when this process demonstrably kept running
// (no timer overslept by >= c05LagLimit) during the judged interval.

const c05LagLimit = 150 * time.Millisecond

type c05Heartbeat struct {
	mu   sync.Mutex
	lags []struct {
		at  time.Time
		lag time.Duration
	}
	max  time.Duration
	stop chan struct{}
	// completed rounds of the two probes (see settle)
	ticksTimer, ticksSock atomic.Int64
	sockProbe             atomic.Bool
}

var c05HB = &c05Heartbeat{}

// settle waits until both probes have completed two more rounds. A stall that ended just before a
// verdict is drawn wakes the judged goroutine and the probes at the same moment; whichever runs first
// wins, so the lag list is only consulted after the probes had their turn. false = they did not get
// it within 3 s (the machine is not calm).
func (h *c05Heartbeat) settle() bool {
	a, b := h.ticksTimer.Load(), h.ticksSock.Load()
	for dl := time.Now().Add(3 * time.Second); time.Now().Before(dl); {
		if h.ticksTimer.Load() >= a+2 && (!h.sockProbe.Load() || h.ticksSock.Load() >= b+2) {
			return true
		}
		time.Sleep(time.Millisecond)
	}
	return false
}

func (h *c05Heartbeat) start() {
	h.stop = make(chan struct{})
	go func() {
		const tick = 5 * time.Millisecond
		prev := time.Now()
		for {
			select {
			case <-h.stop:
				return
			default:
			}
			time.Sleep(tick)
			now := time.Now()
			if lag := now.Sub(prev) - tick; lag > 20*time.Millisecond {
				h.mu.Lock()
				h.lags = append(h.lags, struct {
					at  time.Time
					lag time.Duration
				}{now, lag})
				if lag > h.max {
					h.max = lag
				}
				h.mu.Unlock()
			}
			prev = now
			h.ticksTimer.Add(1)
		}
	}()
	// Second probe: a goroutine woken by a timer (or a channel) is run next on its P, whereas a
	// goroutine woken by socket readiness - every relay and harness reader here - queues behind all
	// runnable goroutines. Under heavy load the first probe therefore underestimates what the judged
	// goroutines suffer: a loopback ping measures the delay of exactly their wake-up path.
	ln, err := c05ListenLoopback()
	if err != nil {
		return
	}
	a, err := net.DialTCP("tcp", nil, ln.Addr().(*net.TCPAddr))
	if err != nil {
		_ = ln.Close()
		return
	}
	b, err := ln.AcceptTCP()
	_ = ln.Close()
	if err != nil {
		_ = a.Close()
		return
	}
	go func() {
		defer a.Close()
		var stamp [8]byte
		for {
			select {
			case <-h.stop:
				return
			default:
			}
			time.Sleep(5 * time.Millisecond)
			binary.BigEndian.PutUint64(stamp[:], uint64(time.Now().UnixNano()))
			if _, err := a.Write(stamp[:]); err != nil {
				return
			}
		}
	}()
	go func() {
		defer b.Close()
		var stamp [8]byte
		for {
			if _, err := io.ReadFull(b, stamp[:]); err != nil {
				return
			}
			now := time.Now()
			if lag := now.Sub(time.Unix(0, int64(binary.BigEndian.Uint64(stamp[:])))); lag > 20*time.Millisecond {
				h.mu.Lock()
				h.lags = append(h.lags, struct {
					at  time.Time
					lag time.Duration
				}{now, lag})
				if lag > h.max {
					h.max = lag
				}
				h.mu.Unlock()
			}
			h.ticksSock.Add(1)
		}
	}()
	h.sockProbe.Store(true)
}

// maxLag is the largest oversleep whose interval overlaps [from, to].
func (h *c05Heartbeat) maxLag(from, to time.Time) time.Duration {
	h.mu.Lock()
	defer h.mu.Unlock()
	var m time.Duration
	for _, l := range h.lags {
		if l.at.After(from) && l.at.Add(-l.lag).Before(to) && l.lag > m {
			m = l.lag
		}
	}
	return m
}

func (x *c05Run) calm(from time.Time) bool {
	to := time.Now()
	if !c05HB.settle() || c05HB.maxLag(from, to) >= c05LagLimit {
		x.m.Count("timing_verdict_skipped_scheduler_lag", 1)
		return false
	}
	return true
}

// ---------------------------------------------------------------------------
// one connection

type c05Peer struct {
	name  string
	conn  *net.TCPConn
	out   *c05Stream
	chk   *c05Checker
	recvd atomic.Int64
	sent  atomic.Int64
	eofAt atomic.Int64 // ns since t0 (+1), 0 = not seen
	errAt atomic.Int64
	cwAt  atomic.Int64
	rerr  atomic.Value
	werr  atomic.Value
	werrA atomic.Int64
	rdone chan struct{}
	// readDelay: the peer's application starts reading this long after the connection is up
	readDelay time.Duration
}

type c05Run struct {
	cs   *c05Case
	m    *vk.Monitor
	r    *rand.Rand
	seed uint64
	cp   *ControlPlane

	t0      time.Time
	cli     *c05Peer
	srv     *c05Peer
	abort   atomic.Bool
	tearing atomic.Int64 // ns since t0 when the harness began tearing down

	comp        c05Composed
	composeDur  time.Duration
	composeErr  string
	composed    chan struct{}
	relayDoneAt atomic.Int64
	relayErr    atomic.Value
	relayDone   chan struct{}
	panicVal    atomic.Value
	opaque      *c05OpaqueConn
	pathL2R     c05PathSet
	pathR2L     c05PathSet

	cutReported bool
	trk         c05TrickleState
	// afterDetection (optional) is called once the detection phase of the case is over and judged
	afterDetection func()
	// detection (composition) bracket, UnixNano; read by the watchdog while the case may still run
	composeStartNs, composeEndNs atomic.Int64

	evMu   sync.Mutex
	events []string
}

func (x *c05Run) now() int64 { return int64(time.Since(x.t0)) + 1 }

func (x *c05Run) ev(format string, a ...any) {
	s := fmt.Sprintf("%8.1fms ", float64(time.Since(x.t0))/1e6) + fmt.Sprintf(format, a...)
	x.evMu.Lock()
	if len(x.events) < 60 {
		x.events = append(x.events, s)
	}
	x.evMu.Unlock()
}

func (x *c05Run) wait(cond func() bool, max time.Duration) bool {
	dl := time.Now().Add(max)
	for i := 0; ; i++ {
		if cond() {
			return true
		}
		if x.abort.Load() || time.Now().After(dl) {
			return cond()
		}
		if i < 50 {
			time.Sleep(200 * time.Microsecond)
		} else {
			time.Sleep(2 * time.Millisecond)
		}
	}
}

func (p *c05Peer) reader(x *c05Run) {
	defer close(p.rdone)
	buf := make([]byte, 64<<10)
	if p.readDelay > 0 {
		time.Sleep(p.readDelay)
	}
	for i := 0; ; i++ {
		if p.readDelay > 0 && i < 60 {
			time.Sleep(time.Millisecond) // keeps draining slowly for a while: the sender's socket stays full
		}
		if x.cs.SmallWin && i < 150 {
			time.Sleep(2 * time.Millisecond) // slow consumer: lets the relay's socket buffers fill
		}
		n, err := p.conn.Read(buf)
		if n > 0 {
			p.chk.feed(buf[:n])
			p.recvd.Add(int64(n))
		}
		if err != nil {
			if err == io.EOF {
				p.eofAt.Store(x.now())
				x.ev("%s reader: EOF after %d bytes", p.name, p.recvd.Load())
			} else {
				p.rerr.Store(err.Error())
				p.errAt.Store(x.now())
				x.ev("%s reader: error after %d bytes: %v", p.name, p.recvd.Load(), err)
			}
			return
		}
	}
}

// send writes stream bytes [from,to) using the segmentation policy.
func (p *c05Peer) send(x *c05Run, r *rand.Rand, from, to int64, seg string) bool {
	var buf []byte
	for off := from; off < to; {
		var n int64
		switch seg {
		case "1":
			if off-from < 300 {
				n = 1
			} else {
				n = 1 + r.Int64N(8000)
			}
		case "rand":
			if r.IntN(20) == 0 {
				n = 1 + r.Int64N(120000)
			} else {
				n = 1 + r.Int64N(3000)
			}
		case "mss":
			n = 1448
		default:
			n = to - off
		}
		if n > to-off {
			n = to - off
		}
		if int64(cap(buf)) < n {
			buf = make([]byte, n)
		}
		b := buf[:n]
		p.out.fill(b, off)
		w, err := p.conn.Write(b)
		p.sent.Add(int64(w))
		if err != nil {
			p.werr.Store(err.Error())
			p.werrA.Store(x.now())
			x.ev("%s writer: error at offset %d: %v", p.name, off+int64(w), err)
			return false
		}
		off += n
	}
	return true
}

func (p *c05Peer) closeWrite(x *c05Run) {
	p.cwAt.Store(x.now())
	x.ev("%s: CloseWrite (harness) after sending %d bytes", p.name, p.sent.Load())
	_ = p.conn.CloseWrite()
}

func c05ListenLoopback() (*net.TCPListener, error) {
	return net.ListenTCP("tcp", &net.TCPAddr{IP: net.IPv4(127, 0, 0, 1)})
}

func (x *c05Run) daeSide(lConn *net.TCPConn, upstream *net.TCPAddr, dst netip.AddrPort, rr *bpfRoutingResult) {
	defer close(x.relayDone)
	defer func() {
		if p := recover(); p != nil {
			x.panicVal.Store(fmt.Sprintf("%v", p))
			x.relayDoneAt.Store(x.now())
		}
	}()
	defer func() { _ = lConn.Close() }()
	c0 := time.Now()
	signalled := false
	defer func() {
		if !signalled {
			close(x.composed)
		}
	}()
	x.composeStartNs.Store(c0.UnixNano())
	lRelay, err := c05Compose(x.cp, lConn, dst, rr, &x.comp)
	x.composeDur = time.Since(c0)
	x.composeEndNs.Store(time.Now().UnixNano())
	if x.comp.sniffer != nil {
		defer func() { _ = x.comp.sniffer.Close() }()
	}
	if err != nil {
		x.composeErr = err.Error()
	}
	x.ev("dae: composition done outcome=%s err=%q sniffErr=%q domain=%q", x.comp.outcome, x.composeErr, x.comp.sniffErr, x.comp.domain)
	signalled = true
	close(x.composed)
	if lRelay == nil {
		x.relayDoneAt.Store(x.now())
		return
	}
	if d := x.cs.DialDelayMs; d > 0 {
		// the dial of a real outbound takes time; whatever the composition holds on to meanwhile
		// (probe bytes, prefetched prefix) must survive other connections being accepted: one more
		// client-first connection is accepted and probed on this very goroutine (so that per-P pooled
		// buffers are handed out again at once), then the dial "completes"
		c05NeighbourAccepted(x.cp.sniffingTimeout)
		time.Sleep(time.Duration(d) * time.Millisecond)
	}
	rRaw, err := net.DialTCP("tcp", nil, upstream)
	if err != nil {
		x.composeErr = "harness dial: " + err.Error()
		x.relayDoneAt.Store(x.now())
		return
	}
	if x.cs.TinyBuf > 0 {
		_ = rRaw.SetWriteBuffer(x.cs.TinyBuf)
	}
	var rConn netproxy.Conn = rRaw
	if x.cs.RConn == "opaque" {
		x.opaque = &c05OpaqueConn{c: rRaw}
		rConn = x.opaque
	}
	defer func() { _ = rConn.Close() }()
	rerr := RelayTCPContextWithRecords(context.Background(), lRelay, rConn, x.pathR2L.record, x.pathL2R.record)
	if rerr != nil {
		x.relayErr.Store(rerr.Error())
	}
	x.relayDoneAt.Store(x.now())
	x.ev("dae: relay returned err=%v", rerr)
}

type c05Verdict struct {
	sig  string
	what string
	more map[string]any
}

func (x *c05Run) witness(extra map[string]any) map[string]any {
	x.evMu.Lock()
	evs := append([]string(nil), x.events...)
	x.evMu.Unlock()
	w := map[string]any{"case": x.cs, "composition": x.comp.outcome, "compose_ms": float64(x.composeDur) / 1e6,
		"compose_err": x.composeErr, "sniff_err": x.comp.sniffErr, "events": evs,
		"paths_l2r": x.pathL2R.String(), "paths_r2l": x.pathR2L.String(),
		"client_sent": x.cli.sent.Load(), "client_recvd": x.cli.recvd.Load()}
	if x.srv != nil {
		w["server_sent"] = x.srv.sent.Load()
		w["server_recvd"] = x.srv.recvd.Load()
	}
	if v := x.relayErr.Load(); v != nil {
		w["relay_err"] = v
	}
	for k, v := range extra {
		w[k] = v
	}
	return w
}

// one full report (replay file) per structural signature; further occurrences
// are only counted, so that every distinct kind of failure gets printed.
var (
	c05SigMu   sync.Mutex
	c05SigSeen = map[string]int{}
)

func (x *c05Run) violate(sig, what string, extra map[string]any) {
	c05SigMu.Lock()
	c05SigSeen[sig]++
	first := c05SigSeen[sig] == 1
	c05SigMu.Unlock()
	if first {
		x.m.Violation(sig, what, x.witness(extra))
	}
}

func ms(ns int64) float64 { return float64(ns) / 1e6 }

// cut returns a description if the dae side terminated or damaged the
// connection although the harness had not asked for it.
func (x *c05Run) cut() (string, int64) {
	if v := x.panicVal.Load(); v != nil {
		return "panic in relay code: " + v.(string), x.relayDoneAt.Load()
	}
	cliCW, srvCW := int64(0), int64(0)
	cliCW = x.cli.cwAt.Load()
	if x.srv != nil {
		srvCW = x.srv.cwAt.Load()
	}
	tear := x.tearing.Load()
	before := func(t int64) bool { return t != 0 && (tear == 0 || t < tear) }
	if t := x.cli.errAt.Load(); before(t) {
		return fmt.Sprintf("client read error %v", x.cli.rerr.Load()), t
	}
	if t := x.cli.eofAt.Load(); before(t) && (srvCW == 0 || t < srvCW) {
		return "client saw EOF although the upstream never shut down its write side", t
	}
	if t := x.cli.werrA.Load(); before(t) {
		return fmt.Sprintf("client write error %v", x.cli.werr.Load()), t
	}
	if x.srv != nil {
		if t := x.srv.errAt.Load(); before(t) {
			return fmt.Sprintf("upstream read error %v", x.srv.rerr.Load()), t
		}
		if t := x.srv.eofAt.Load(); before(t) && (cliCW == 0 || t < cliCW) {
			return "upstream saw EOF although the client never shut down its write side", t
		}
		if t := x.srv.werrA.Load(); before(t) {
			return fmt.Sprintf("upstream write error %v", x.srv.werr.Load()), t
		}
	}
	if t := x.relayDoneAt.Load(); before(t) && (cliCW == 0 || srvCW == 0 || t < cliCW || t < srvCW) {
		return fmt.Sprintf("relay returned (err=%v) while at least one peer had not finished", x.relayErr.Load()), t
	}
	return "", 0
}

func (x *c05Run) judgeCut() bool {
	what, at := x.cut()
	if what == "" {
		return false
	}
	if x.cutReported {
		return true
	}
	x.cutReported = true
	// a half-close that happened >= 5 s before the cut: grace period, not judged
	first := int64(0)
	for _, p := range []*c05Peer{x.cli, x.srv} {
		if p == nil {
			continue
		}
		if t := p.cwAt.Load(); t != 0 && t <= at && (first == 0 || t < first) {
			first = t
		}
	}
	kind := "healthy-cut"
	if first != 0 {
		if at-first >= int64(5*time.Second) {
			x.m.Count("grace_cut_after_5s_unjudged", 1)
			return true
		}
		kind = "cut-during-grace"
	}
	x.violate(kind+"/"+x.comp.outcome, fmt.Sprintf("%s at %.0f ms after composition start (composition %s took %.0f ms; first half-close at %.0f ms)",
		what, ms(at), x.comp.outcome, ms(int64(x.composeDur)), ms(first)), map[string]any{"cut_at_ms": ms(at)})
	return true
}

// shortAtEOF: a reader saw EOF (after its peer's write-shutdown) having
// received fewer bytes than the peer had written before shutting down.
func (x *c05Run) shortAtEOF() (dir string, got, want int64) {
	if x.srv == nil {
		return "", 0, 0
	}
	for _, d := range []struct {
		dir  string
		p, q *c05Peer
	}{{"l2r", x.srv, x.cli}, {"r2l", x.cli, x.srv}} {
		e, cw := d.p.eofAt.Load(), d.q.cwAt.Load()
		if e != 0 && cw != 0 && e >= cw {
			// The reader itself shut down its write side >= 5 s before this EOF: the relay's bounded
			// grace period for the opposite direction (10 s) may have run out while the sender was
			// still writing (a slow sender on a loaded machine); like judgeCut, not judged.
			if own := d.p.cwAt.Load(); own != 0 && e-own >= int64(5*time.Second) {
				continue // see graceExpired
			}
			if g, w := d.p.recvd.Load(), d.q.sent.Load(); g < w {
				return d.dir, g, w
			}
		}
	}
	return "", 0, 0
}

// graceExpired: a reader saw EOF short of what its peer wrote, and the reader itself had shut down
// its write side >= 5 s earlier. The relay's bounded grace period for the direction that was still
// flowing ran out while the sender kept writing; the statement allows the cut. Terminal, unjudged.
func (x *c05Run) graceExpired() bool {
	if x.srv == nil {
		return false
	}
	for _, d := range [][2]*c05Peer{{x.srv, x.cli}, {x.cli, x.srv}} {
		p, q := d[0], d[1]
		e, cw, own := p.eofAt.Load(), q.cwAt.Load(), p.cwAt.Load()
		if e != 0 && cw != 0 && e >= cw && own != 0 && e-own >= int64(5*time.Second) && p.recvd.Load() < q.sent.Load() {
			return true
		}
	}
	return false
}

func (x *c05Run) judgeShort() bool {
	dir, got, want := x.shortAtEOF()
	if dir == "" {
		return false
	}
	x.violate(fmt.Sprintf("stream-mismatch/%s/%s/short/at-eof", dir, x.comp.outcome),
		fmt.Sprintf("%s: EOF delivered after %d of the %d bytes written before the sender's write-shutdown", dir, got, want), nil)
	return true
}

func (x *c05Run) judgeStreams() bool {
	bad := false
	for _, d := range []struct {
		dir  string
		p    *c05Peer
		kind string
	}{{"l2r", x.srv, x.comp.outcome}, {"r2l", x.cli, x.cs.RConn}} {
		if d.p == nil {
			continue
		}
		select {
		case <-d.p.rdone:
		default:
			continue // reader still running; its checker is not ours to read
		}
		if mm := d.p.chk.bad; mm != nil {
			where := "body"
			if mm.InPre {
				where = "probe-prefix"
			}
			x.violate(fmt.Sprintf("stream-mismatch/%s/%s/%s/%s", d.dir, x.comp.outcome, mm.Kind, where),
				fmt.Sprintf("%s stream differs at offset %d: %s %s", d.dir, mm.Offset, mm.Kind, mm.Note), map[string]any{"mismatch": mm})
			bad = true
		}
	}
	return bad
}

func (x *c05Run) run() {
	cs, m := x.cs, x.m
	r := x.r
	W := time.Duration(cs.WindowMs) * time.Millisecond
	pre := c05Preamble(r, cs.Pre, cs.ID)
	cs.PreLen = len(pre)
	late := int64(0)
	if cs.Close == "never" {
		late = c05Unit
	}
	cOut := c05NewStream(x.seed, uint16(cs.ID), 'c', pre, int64(cs.C2S)+late)
	sOut := c05NewStream(x.seed, uint16(cs.ID), 's', nil, int64(cs.S2C)+late)
	if cs.Arrival == "never" && sOut.total-late == 0 {
		cs.Arrival = "after"
	}
	if cs.Arrival == "never" || cOut.total-late == 0 {
		cs.SrvStart = "immediate"
	}
	// first burst / gap (partial prefix)
	cs.Split, cs.Gap = 0, "none"
	if cs.Trickle == 0 && cs.TinyBuf == 0 && cOut.total-late > 1 && r.IntN(2) == 0 {
		cands := []int{1, 2, 5, 15, 16, 17, len(pre) / 2, len(pre) - 1, len(pre), len(pre) + 3, 600}
		k := cands[r.IntN(len(cands))]
		if k >= 1 && int64(k) < cOut.total-late {
			cs.Split = k
			cs.Gap = c05Pick(r, "short", "long", "long")
		}
	}
	window := W
	if cs.Stack == "dns53" {
		window = TCPDNSFirstReadTimeout
	}

	lnA, err := c05ListenLoopback()
	if err != nil {
		m.Inconclusive("listen: %v", err)
		return
	}
	defer lnA.Close()
	lnB, err := c05ListenLoopback()
	if err != nil {
		m.Inconclusive("listen: %v", err)
		return
	}
	defer lnB.Close()
	if cs.TinyBuf > 0 {
		c05SetListenerRcvBuf(lnB, cs.TinyBuf) // inherited by the accepted socket, in force before the handshake
	}
	cliConn, err := c05DialLoopback(lnA.Addr().(*net.TCPAddr), c05If(cs.TinyBoth, cs.TinyBuf, 0))
	if err != nil {
		m.Inconclusive("dial: %v", err)
		return
	}
	defer cliConn.Close()
	x.t0 = time.Now()
	if cs.SmallWin {
		_ = cliConn.SetReadBuffer(128 << 10)
	}
	x.cli = &c05Peer{name: "client", conn: cliConn, out: cOut, chk: &c05Checker{s: sOut}, rdone: make(chan struct{})}
	if cs.TinyBoth {
		x.cli.readDelay = time.Duration(cs.ReadDelayMs) * time.Millisecond
	}
	cBulkEnd, sBulkEnd := cOut.total-late, sOut.total-late
	tailLen := int64(6 * (1 + r.IntN(200)))
	var cTail, sTail int64
	switch cs.Close {
	case "client-first":
		sTail = min(int64(cs.S2C), tailLen)
		sBulkEnd -= sTail
	case "server-first":
		cTail = min(int64(cs.C2S), tailLen)
		cBulkEnd -= cTail
	}
	// keep the scripted peers from waiting on bytes the other one holds back
	if cs.Arrival == "never" && sBulkEnd == 0 {
		if sTail > 1 {
			sTail--
			sBulkEnd++
		} else {
			cs.Arrival = "after"
		}
	}
	if cBulkEnd == 0 {
		cs.SrvStart = "immediate"
	}
	firstEnd := cBulkEnd
	if cs.Split > 0 {
		firstEnd = min(int64(cs.Split), cBulkEnd)
	}
	wroteFirst := false
	preAccept := int64(0)
	if cs.Arrival == "before" {
		// data is already queued on the socket when dae accepts the connection
		// (bounded so that the write cannot block on a full socket buffer)
		preAccept = min(firstEnd, 32<<10)
		x.cli.send(x, r, 0, preAccept, cs.SegC)
		wroteFirst = true
	}
	_ = lnA.SetDeadline(time.Now().Add(10 * time.Second))
	lConn, err := lnA.AcceptTCP()
	if err != nil {
		m.Inconclusive("accept: %v", err)
		return
	}
	if wroteFirst {
		time.Sleep(2 * time.Millisecond)
	}
	if cs.TinyBoth {
		_ = lConn.SetWriteBuffer(cs.TinyBuf)
	}
	x.t0 = time.Now() // composition start
	go x.cli.reader(x)

	// dae side
	outb := uint8(consts.OutboundControlPlaneRouting)
	if cs.Stack == "plain" && cs.DstPort != 22 {
		outb = uint8(consts.OutboundDirect)
	}
	rr := &bpfRoutingResult{Outbound: outb}
	dst := netip.AddrPortFrom(netip.AddrFrom4([4]byte{10, 5, byte(cs.ID >> 8), byte(cs.ID)}), cs.DstPort)
	x.composed = make(chan struct{})
	x.relayDone = make(chan struct{})
	go x.daeSide(lConn, lnB.Addr().(*net.TCPAddr), dst, rr)

	// client bulk writer
	cBulkDone := make(chan bool, 1)
	cr := rand.New(rand.NewPCG(cs.CaseSeed, 1))
	go func() {
		ok := true
		if cs.Trickle > 0 {
			ok = x.sendTrickle(pre, window)
			preAccept = int64(len(pre))
		} else if !wroteFirst {
			switch cs.Arrival {
			case "inside":
				time.Sleep(min(window/3, 1500*time.Millisecond))
			case "after":
				time.Sleep(window + max(window/2, 150*time.Millisecond))
			case "never":
				ok = x.wait(func() bool { return x.cli.recvd.Load() > 0 }, 30*time.Second)
			}
		}
		if ok && preAccept < firstEnd {
			ok = x.cli.send(x, cr, preAccept, firstEnd, cs.SegC)
		}
		if ok && firstEnd < cBulkEnd {
			switch cs.Gap {
			case "short":
				time.Sleep(min(window/4, 700*time.Millisecond))
			case "long":
				time.Sleep(window + max(window/2, 120*time.Millisecond))
			}
			ok = x.cli.send(x, cr, firstEnd, cBulkEnd, cs.SegC)
		}
		if ok && cs.Eager && (cs.Close == "client-first" || cs.Close == "simul") {
			x.cli.closeWrite(x)
		}
		cBulkDone <- ok
	}()

	// upstream side
	_ = lnB.SetDeadline(time.Now().Add(window*2 + 12*time.Second))
	srvConn, aerr := lnB.AcceptTCP()
	if aerr != nil {
		<-x.composed
		x.wait(func() bool { return x.cli.eofAt.Load() != 0 || x.cli.errAt.Load() != 0 }, 3*time.Second)
		m.Count("no_upstream_dial", 1)
		if x.comp.handled {
			x.violate("nondns-handled-as-dns/"+cs.Pre, "bytes that are not a DNS query were consumed by the DNS fast path", nil)
		} else if !x.judgeCut() {
			m.Inconclusive("case %d: dae side never dialled upstream and no termination observed (compose err %q)", cs.ID, x.composeErr)
		}
		x.teardown(nil)
		<-cBulkDone
		return
	}
	defer srvConn.Close()
	if cs.SmallWin {
		_ = srvConn.SetReadBuffer(128 << 10)
	}
	x.srv = &c05Peer{name: "upstream", conn: srvConn, out: sOut, chk: &c05Checker{s: cOut}, rdone: make(chan struct{})}
	if cs.TinyBuf > 0 {
		x.srv.readDelay = time.Duration(cs.ReadDelayMs) * time.Millisecond
	}
	go x.srv.reader(x)
	sBulkDone := make(chan bool, 1)
	sr := rand.New(rand.NewPCG(cs.CaseSeed, 2))
	go func() {
		ok := true
		if cs.SrvStart == "after-first-byte" {
			ok = x.wait(func() bool { return x.srv.recvd.Load() > 0 }, 30*time.Second)
		}
		if ok {
			ok = x.srv.send(x, sr, 0, sBulkEnd, cs.SegS)
		}
		if ok && cs.Eager && (cs.Close == "server-first" || cs.Close == "simul") {
			x.srv.closeWrite(x)
		}
		sBulkDone <- ok
	}()

	// composition delay (detection windows)
	<-x.composed
	if cs.Trickle > 0 {
		x.noteTrickleAtComposition()
	}
	if x.composeDur > x.comp.windows+2*time.Second {
		if cs.Trickle > 0 {
			// judged at the end of the run, when nothing else is going on in this process (c05_edge_verif_test.go)
			c05TrickleCands.add(x, pre, dst, rr)
		} else if x.calm(x.t0) {
			x.violate("detection-delay/"+x.comp.outcome, fmt.Sprintf("protocol detection delayed the connection by %.0f ms, windows sum to %.0f ms",
				ms(int64(x.composeDur)), ms(int64(x.comp.windows))), nil)
		}
	}
	if x.afterDetection != nil {
		x.afterDetection()
	}

	// phase 1: bulk
	okC, okS := <-cBulkDone, <-sBulkDone
	stalled := false
	lastN, lastT := int64(-1), time.Now()
	delivered := okC && okS && x.wait(func() bool {
		if w, _ := x.cut(); w != "" {
			return true
		}
		if d, _, _ := x.shortAtEOF(); d != "" {
			return true
		}
		if x.graceExpired() {
			return true
		}
		if x.srv.recvd.Load() >= cBulkEnd && x.cli.recvd.Load() >= sBulkEnd {
			return true
		}
		if n := x.srv.recvd.Load() + x.cli.recvd.Load(); n != lastN {
			lastN, lastT = n, time.Now()
		} else if time.Since(lastT) > 10*time.Second {
			stalled = true
			return true
		}
		return false
	}, 90*time.Second) && !stalled
	if stalled {
		// Both senders finished writing >= 10 s ago and nothing moves. Turn the
		// stall into positive evidence: shut down both write sides (a legal
		// thing for peers to do) and see whether EOF overtakes missing bytes.
		x.ev("harness: no progress for 10 s (c2s %d/%d, s2c %d/%d); closing write sides as a probe",
			x.srv.recvd.Load(), cBulkEnd, x.cli.recvd.Load(), sBulkEnd)
		m.Count("stall_probe_by_close", 1)
		for _, p := range []*c05Peer{x.cli, x.srv} {
			if p.cwAt.Load() == 0 {
				p.closeWrite(x)
			}
		}
		x.wait(func() bool { d, _, _ := x.shortAtEOF(); return d != "" }, 5*time.Second)
	}
	if x.judgeCut() || x.judgeShort() {
		x.teardown(srvConn)
		x.judgeStreams()
		return
	}
	if x.graceExpired() {
		m.Count("grace_short_after_5s_unjudged", 1)
		x.teardown(srvConn)
		x.judgeStreams()
		return
	}
	if !delivered {
		if !x.judgeStreamsLive() {
			dump := filepath.Join(vk.BuildDir(), "replay", "C05", fmt.Sprintf("stall-case%d.json", cs.ID))
			_ = os.MkdirAll(filepath.Dir(dump), 0o755)
			if b, err := json.MarshalIndent(x.witness(map[string]any{"goroutines": c05Stacks()}), "", " "); err == nil {
				_ = os.WriteFile(dump, b, 0o644)
			}
			m.Inconclusive("case %d (%s/%s): bulk phase stalled (no progress for 10 s) and nothing was terminated (c2s %d/%d, s2c %d/%d); state in %s",
				cs.ID, x.comp.outcome, cs.Pre, x.srv.recvd.Load(), cBulkEnd, x.cli.recvd.Load(), sBulkEnd, dump)
		}
		x.teardown(srvConn)
		return
	}
	m.Count("bulk_delivered", 1)
	if cs.OldConn {
		x.ev("harness: idling 11 s (connection older than the half-close grace period before the first half-close)")
		time.Sleep(11 * time.Second)
		if x.judgeCut() {
			x.teardown(srvConn)
			return
		}
		m.Count("old_connection_half_close", 1)
	}

	// phase 2: close order
	halfClose := func(closer, other *c05Peer, otherTailFrom, otherTailTo int64, seg *rand.Rand, dir, dstKind string) {
		if closer.cwAt.Load() == 0 {
			closer.closeWrite(x)
		}
		cw := closer.cwAt.Load()
		gap := 150 * time.Millisecond
		if cs.LongGrace {
			gap = 650 * time.Millisecond
		}
		// the opposite direction keeps flowing: dribble the tail
		flowed := otherTailTo > otherTailFrom
		chunk := (otherTailTo - otherTailFrom + 5) / 6
		for off := otherTailFrom; off < otherTailTo; off += chunk {
			time.Sleep(gap)
			if !other.send(x, seg, off, min(off+chunk, otherTailTo), "one") {
				flowed = false
				break
			}
		}
		if flowed {
			flowed = x.wait(func() bool { return closer.recvd.Load() >= otherTailTo }, 3*time.Second)
		}
		if x.judgeCut() {
			return
		}
		if flowed {
			m.Count("grace_flow_delivered", 1)
		}
		// EOF must have been passed on as a write-shutdown
		x.wait(func() bool { return other.eofAt.Load() != 0 || other.errAt.Load() != 0 },
			max(time.Duration(cw)+3*time.Second-time.Since(x.t0), time.Second))
		switch {
		case other.eofAt.Load() != 0:
			m.Count("eof_propagated_"+dir, 1)
			if other.recvd.Load() != closer.out.total {
				x.violate(fmt.Sprintf("stream-mismatch/%s/%s/short/at-eof", dir, x.comp.outcome),
					fmt.Sprintf("EOF delivered after %d of %d bytes", other.recvd.Load(), closer.out.total), nil)
			}
		case other.errAt.Load() != 0:
			x.judgeCut()
			return
		case flowed && !x.calm(x.t0.Add(time.Duration(cw))):
			m.Count("eof_unjudged_scheduler_lag", 1)
		case flowed:
			x.violate("eof-not-propagated/"+dir+"/"+dstKind,
				fmt.Sprintf("%s shut down its write side; %d bytes sent in the opposite direction AFTER that were relayed, but no EOF reached %s within %.1f s",
					closer.name, otherTailTo-otherTailFrom, other.name, ms(x.now()-cw)/1000), map[string]any{"dst_kind": dstKind})
		default:
			m.Count("eof_unjudged_no_flow_guard", 1)
		}
		other.closeWrite(x)
		// both sides closed: wait for the remaining EOF (not judged, only observed)
		if x.wait(func() bool { return closer.eofAt.Load() != 0 || closer.errAt.Load() != 0 }, 4*time.Second) && closer.eofAt.Load() != 0 {
			m.Count("final_eof_seen", 1)
			if e, own := closer.eofAt.Load(), closer.cwAt.Load(); closer.recvd.Load() != other.out.total && own != 0 && e-own >= int64(5*time.Second) {
				// the reader shut down its own write side >= 5 s before this EOF: the relay's bounded grace
				// period for the opposite direction may have run out while the sender was still writing
				// (a stalled machine); the statement allows that cut - like shortAtEOF, not judged
				m.Count("grace_final_short_after_5s_unjudged", 1)
			} else if closer.recvd.Load() != other.out.total {
				x.violate(fmt.Sprintf("stream-mismatch/%s/%s/short/at-eof", map[string]string{"l2r": "r2l", "r2l": "l2r"}[dir], x.comp.outcome),
					fmt.Sprintf("EOF delivered after %d of %d bytes", closer.recvd.Load(), other.out.total), nil)
			}
		} else {
			m.Count("final_eof_missing_unjudged", 1)
		}
	}
	leftKind := x.comp.outcome
	switch cs.Close {
	case "client-first":
		halfClose(x.cli, x.srv, sBulkEnd, sBulkEnd+sTail, sr, "l2r", cs.RConn)
	case "server-first":
		halfClose(x.srv, x.cli, cBulkEnd, cBulkEnd+cTail, cr, "r2l", leftKind)
	case "simul":
		var wg sync.WaitGroup
		wg.Add(2)
		for _, p := range []*c05Peer{x.cli, x.srv} {
			go func() {
				defer wg.Done()
				if p.cwAt.Load() == 0 {
					p.closeWrite(x)
				}
			}()
		}
		wg.Wait()
		got := x.wait(func() bool {
			return (x.cli.eofAt.Load() != 0 || x.cli.errAt.Load() != 0) && (x.srv.eofAt.Load() != 0 || x.srv.errAt.Load() != 0)
		}, 4*time.Second)
		if !x.judgeCut() {
			if got && x.cli.eofAt.Load() != 0 && x.srv.eofAt.Load() != 0 {
				m.Count("simul_both_eof", 1)
				if x.cli.recvd.Load() != sOut.total || x.srv.recvd.Load() != cOut.total {
					x.violate("stream-mismatch/both/"+x.comp.outcome+"/short/at-eof", fmt.Sprintf("EOF with c2s %d/%d s2c %d/%d",
						x.srv.recvd.Load(), cOut.total, x.cli.recvd.Load(), sOut.total), nil)
				}
			} else {
				m.Count("simul_eof_missing_unjudged", 1)
			}
		}
	case "never":
		// the harness closes nothing: the relay must outlive every detection window
		checkAt := x.t0.Add(x.comp.windows + 2*time.Second)
		if x.comp.windows == 0 {
			checkAt = x.t0.Add(400 * time.Millisecond)
		}
		x.wait(func() bool { w, _ := x.cut(); return w != "" || !time.Now().Before(checkAt) }, time.Until(checkAt)+time.Second)
		if x.judgeCut() {
			break
		}
		m.Count("alive_after_window", 1)
		okL := x.cli.send(x, cr, cBulkEnd, cOut.total, "one") && x.srv.send(x, sr, sBulkEnd, sOut.total, "one")
		arrived := okL && x.wait(func() bool {
			if w, _ := x.cut(); w != "" {
				return true
			}
			return x.srv.recvd.Load() >= cOut.total && x.cli.recvd.Load() >= sOut.total
		}, 5*time.Second)
		if x.judgeCut() {
			break
		}
		if arrived {
			m.Count("late_unit_delivered", 1)
		} else {
			m.Inconclusive("case %d (%s): late unit not delivered within 5 s but nothing was terminated", cs.ID, x.comp.outcome)
		}
	}
	x.teardown(srvConn)
	x.judgeStreams()

	// coverage
	pl, pr := x.pathL2R.String(), x.pathR2L.String()
	for _, p := range strings.Split(pl+"+"+pr, "+") {
		if p != "" {
			m.Count("path_"+p, 1)
		}
	}
	m.Count("outcome_"+x.comp.outcome, 1)
	m.Count("close_"+cs.Close, 1)
	m.Count("arrival_"+cs.Arrival, 1)
	if cs.Split > 0 {
		m.Count("partial_prefix_"+cs.Gap, 1)
	}
	if cs.Eager {
		m.Count("eager_close", 1)
	}
	if cs.SmallWin {
		m.Count("small_window_backpressure", 1)
	}
	if cs.TinyBuf > 0 {
		// the first write of these copy paths went to a socket with a tiny send buffer whose peer was not reading yet
		for _, p := range strings.Split(pl, "+") {
			if p != "" {
				m.Count("tinybuf_l2r_path_"+p, 1)
			}
		}
		if cs.TinyBoth {
			for _, p := range strings.Split(pr, "+") {
				if p != "" {
					m.Count("tinybuf_r2l_path_"+p, 1)
				}
			}
		}
		m.Count("tinybuf_outcome_"+x.comp.outcome, 1)
	}
	if cs.Trickle > 0 {
		m.Count("trickle_cases_completed", 1)
	}
	if cs.LongGrace && cs.Close != "never" {
		m.Count("long_grace_4s", 1)
	}
	if x.opaque != nil && x.opaque.closeWrites.Load() > 0 {
		m.Count("closewrite_calls_on_opaque_upstream", int64(x.opaque.closeWrites.Load()))
	}
	m.Distinct(strings.Join([]string{x.comp.outcome, pl, pr, cs.Arrival, cs.Close, cs.Pre, cs.RConn}, "|"))
	if m.WantSample() {
		m.Sample(map[string]any{"case": cs, "composition": x.comp.outcome, "paths_l2r": pl, "paths_r2l": pr,
			"compose_ms": ms(int64(x.composeDur)), "sniffed": x.comp.domain})
	}
}

// judgeStreamsLive inspects checkers whose readers may still be running; only
// used on the inconclusive path right before teardown, after a 30 s stall.
func (x *c05Run) judgeStreamsLive() bool {
	x.teardownConns()
	return x.judgeStreams()
}

func (x *c05Run) teardownConns() {
	x.tearing.CompareAndSwap(0, x.now())
	x.abort.Store(true)
	_ = x.cli.conn.Close()
	if x.srv != nil {
		_ = x.srv.conn.Close()
	}
	<-x.cli.rdone
	if x.srv != nil {
		<-x.srv.rdone
	}
}

func (x *c05Run) teardown(_ *net.TCPConn) {
	x.teardownConns()
	select {
	case <-x.relayDone:
		x.m.Count("relay_returned", 1)
		if x.relayErr.Load() == nil {
			x.m.Count("relay_returned_nil", 1)
		}
	case <-time.After(20 * time.Second):
		x.m.Count("relay_stuck_after_both_peers_closed", 1)
		x.m.Inconclusive("case %d (%s): relay did not return within 20 s after both peers closed", x.cs.ID, x.comp.outcome)
	}
}

// ---------------------------------------------------------------------------

// c05AbortedRelay relays one plain TCP pair (the splice-eligible composition) whose receiving side
// stops reading, so that the relay's buffers and the kernel pipe fill up, and then tears the
// connection down abortively (RST from the blocked receiver, RST from the sender, or cancellation).
// Nothing is judged on this connection itself: it only has to die with bytes in flight.
func c05AbortedRelay(m *vk.Monitor, r *rand.Rand, id int) {
	ln, err := c05ListenLoopback()
	if err != nil {
		return
	}
	defer func() { _ = ln.Close() }()
	dial := func() (a, b *net.TCPConn) {
		c, err := net.DialTCP("tcp", nil, ln.Addr().(*net.TCPAddr))
		if err != nil {
			return nil, nil
		}
		s, err := ln.AcceptTCP()
		if err != nil {
			_ = c.Close()
			return nil, nil
		}
		return c, s
	}
	cli, lConn := dial() // client <-> dae's accepted side
	rConn, srv := dial() // dae's dialled side <-> upstream
	if cli == nil || rConn == nil {
		for _, c := range []*net.TCPConn{cli, lConn, rConn, srv} {
			if c != nil {
				_ = c.Close()
			}
		}
		return
	}
	defer func() {
		for _, c := range []*net.TCPConn{cli, lConn, rConn, srv} {
			_ = c.Close()
		}
	}()
	sender, blocked := cli, srv // bulk upload against an upstream that does not read
	if r.IntN(3) == 0 {
		sender, blocked = srv, cli // bulk download against a client that does not read
	}
	_ = blocked.SetReadBuffer(16 << 10)
	ctx, cancel := context.WithCancel(context.Background())
	defer cancel()
	var paths c05PathSet
	var relayed atomic.Int64
	rec := func(n int64) { relayed.Add(n); paths.record(n) }
	done := make(chan struct{})
	go func() {
		defer close(done)
		defer func() { _ = recover() }()
		_ = RelayTCPContextWithRecords(ctx, lConn, rConn, rec, rec)
	}()
	var sent atomic.Int64
	wdone := make(chan struct{})
	go func() {
		defer close(wdone)
		buf := bytes.Repeat([]byte{0xEE, 0xAB}, 32<<10) // matches no judged stream
		for sent.Load() < 64<<20 {
			_ = sender.SetWriteDeadline(time.Now().Add(2 * time.Second))
			n, err := sender.Write(buf)
			sent.Add(int64(n))
			if err != nil {
				return
			}
		}
	}()
	// wait until the relay has stalled against the blocked receiver
	last, still := int64(-1), 0
	for i := 0; i < 400 && still < 5; i++ {
		time.Sleep(10 * time.Millisecond)
		if v := relayed.Load(); v == last && v > 0 {
			still++
		} else {
			last, still = v, 0
		}
	}
	how := r.IntN(3)
	switch how {
	case 0:
		_ = blocked.SetLinger(0)
		_ = blocked.Close()
	case 1:
		_ = sender.SetLinger(0)
		_ = sender.Close()
	default:
		cancel()
	}
	select {
	case <-done:
	case <-time.After(1500 * time.Millisecond):
		// e.g. the sender is gone but the relay is still blocked writing to the receiver that does
		// not read: take the sockets away (no verdict is attached to how long this relay lingers)
		m.Count("torn_down_relay_needed_all_sockets_closed", 1)
		for _, c := range []*net.TCPConn{cli, srv, lConn, rConn} {
			_ = c.SetLinger(0)
			_ = c.Close()
		}
		select {
		case <-done:
		case <-time.After(30 * time.Second):
			m.Inconclusive("torn-down relay %d did not return 30 s after all four sockets were closed", id)
		}
	}
	_ = sender.Close()
	<-wdone
	m.Count("torn_down_relays", 1)
	if still >= 5 && sent.Load() > relayed.Load() {
		m.Count("torn_down_relays_with_bytes_in_flight", 1)
	}
	m.Count("torn_down_relay_path_"+paths.String(), 1)
	m.Count(fmt.Sprintf("torn_down_relay_how_%d", how), 1)
}

// c05NeighbourAccepted: another client-first connection (first bytes that match no judged stream)
// goes through dae's prefetch step and is dropped.
func c05NeighbourAccepted(wait time.Duration) {
	ln, err := c05ListenLoopback()
	if err != nil {
		return
	}
	defer func() { _ = ln.Close() }()
	c, err := net.DialTCP("tcp", nil, ln.Addr().(*net.TCPAddr))
	if err != nil {
		return
	}
	defer func() { _ = c.Close() }()
	a, err := ln.AcceptTCP()
	if err != nil {
		return
	}
	defer func() { _ = a.Close() }()
	_, _ = c.Write(bytes.Repeat([]byte{0xA5, 0x5A, 0xEE}, 40))
	_, _, _, _ = prefetchForTcpSniff(a, wait, tcpSniffPrefetchBytes)
}

func c05Stacks() string {
	buf := make([]byte, 4<<20)
	buf = buf[:runtime.Stack(buf, true)]
	// only goroutines inside dae's relay / wrappers are of interest
	var keep []string
	for _, g := range strings.Split(string(buf), "\n\n") {
		if strings.Contains(g, "control.relay") || strings.Contains(g, "control.(*relay") || strings.Contains(g, "bufioConn") || strings.Contains(g, "RelayTCP") {
			keep = append(keep, g)
		}
	}
	if len(keep) > 40 {
		keep = keep[:40]
	}
	return strings.Join(keep, "\n\n")
}

func TestVerifC05(t *testing.T) {
	m := vk.NewMonitor("C05", "", "exploration",
		"seeded connection cases on real loopback TCP pairs: (handleConn stack plain|sniff|dns53) x first bytes (TLS hello, HTTP head, garbage, TLS/HTTP look-alikes, none, port-53 non-DNS frames, DNS response) x "+
			"arrival (before accept, inside/after window, server-first) x partial-prefix split+gap x payload 0..4MiB x segmentation x upstream conn kind x half-close order; "+
			"distinct = (composition outcome, copy paths observed l2r, r2l, arrival, close order, first-bytes class, upstream kind); non-trivial = bulk phase delivered through the real relay")
	m.SetFloor(60)
	m.Assume("handleConn wiring between DNS probe, prefetch, sniffer and relay is re-implemented from control/tcp.go:138-218,266 (handleConn itself needs a loaded datapath); dst address/port are passed as values, sockets live on 127.0.0.1",
		"copy path is attributed by the dae function that invoked the traffic recorder (runtime.Callers) plus relayGatherWriteTestHook",
		"timing verdicts use bands of >= 2 s around dae's own windows; absence-of-EOF is judged only when opposite-direction traffic sent later was demonstrably relayed",
		"lock-step class: a message that does not get through is a violation only when dae's own I/O at the monitor's conns (or the kernel's socket queue counters) shows that dae took the bytes from the source and did not hand them to the destination while the sender, by protocol, sends nothing more; the 20 s watchdog only triggers the inspection; the inspection is checked in every run against a relay of the monitor's own that withholds a lone byte")
	if s, l := c05Hellos(); len(s) == 0 || len(l) == 0 {
		m.Inconclusive("could not capture TLS ClientHello samples")
		m.Done(t)
		return
	}
	seed := vk.Seed()
	r := vk.NewRand(0xC05)
	n := vk.Scale(300, 5000)
	par := vk.Scale(56, 64)
	budget := int64(vk.Scale(160, 3000)) << 20

	var gatherCalls, gatherWithBody atomic.Int64
	relayGatherWriteTestHookMu.Lock()
	oldHook := relayGatherWriteTestHook
	relayGatherWriteTestHook = func(prefixLen, bodyLen int) {
		gatherCalls.Add(1)
		if bodyLen > 0 {
			gatherWithBody.Add(1)
		}
	}
	relayGatherWriteTestHookMu.Unlock()
	defer func() {
		relayGatherWriteTestHookMu.Lock()
		relayGatherWriteTestHook = oldHook
		relayGatherWriteTestHookMu.Unlock()
	}()

	var wv c05WritevObs
	defer wv.install()()
	c05HB.start()
	defer close(c05HB.stop)
	cps := map[int]*ControlPlane{}
	for _, w := range []int{60, 150, 400} {
		cps[w] = &ControlPlane{sniffingTimeout: time.Duration(w) * time.Millisecond}
	}
	cases := make([]*c05Case, n)
	for i := range cases {
		cases[i] = c05GenCase(r, i+1, &budget)
	}
	// trickled first flights and back-pressure on the first write (c05_edge_verif_test.go), from a
	// generator of their own so that the cases above stay what they were
	cases = append(cases, c05GenEdgeCases(vk.NewRand(0xC05ED), 10000)...)
	// long-running (port 53, trickle) cases first so that they overlap with the rest
	order := make([]int, len(cases))
	for i := range order {
		order[i] = i
	}
	long := func(cs *c05Case) bool { return cs.Stack == "dns53" || cs.OldConn || cs.Trickle > 0 }
	sort.SliceStable(order, func(a, b int) bool {
		return long(cases[order[a]]) && !long(cases[order[b]])
	})
	sem := make(chan struct{}, par)
	var wg sync.WaitGroup
	launch := func(cs *c05Case, slot bool, afterDetection func()) {
		wg.Add(1)
		go func() {
			defer wg.Done()
			if slot {
				defer func() { <-sem }()
			}
			x := &c05Run{cs: cs, m: m, seed: seed, cp: cps[cs.WindowMs], r: rand.New(rand.NewPCG(cs.CaseSeed, 0)), afterDetection: afterDetection}
			done := make(chan struct{})
			go func() {
				defer close(done)
				defer func() {
					if p := recover(); p != nil {
						m.Violation("harness-panic", fmt.Sprintf("panic while running case: %v", p), map[string]any{"case": cs})
					}
				}()
				m.Eval(1)
				x.run()
			}()
			select {
			case <-done:
			case <-time.After(120 * time.Second):
				x.abort.Store(true)
				x.watchdogExpired()
			}
			if afterDetection != nil {
				afterDetection()
			}
		}()
	}
	// Trickled first flights start alone: their detection phases (<= 2 sniffing windows, 5 s on port
	// 53) are timed, and the timing verdicts are only drawn while the lag probes are quiet, which is
	// far likelier before the bulk traffic below starts. What is left of the flights afterwards runs
	// next to everything else.
	{
		var batch []*c05Case
		for _, i := range order {
			if cs := cases[i]; cs.Trickle > 0 {
				batch = append(batch, cs)
			}
		}
		// if the machine was too busy for a single one of them to be timed, a few more are tried
		// (the timed part of a flight is short on code that keeps its windows) before the run is
		// declared inconclusive for the class
		extra, extraID := vk.NewRand(0xC05EE), 11000
		for round := 0; ; round++ {
			var detecting sync.WaitGroup
			for _, cs := range batch {
				detecting.Add(1)
				var once sync.Once
				launch(cs, false, func() { once.Do(detecting.Done) })
			}
			over := make(chan struct{})
			go func() { detecting.Wait(); close(over) }()
			select {
			case <-over:
			case <-time.After(15 * time.Second):
				m.Count("trickle_detection_phase_still_running_when_bulk_started", 1)
			}
			if c05TrickleJudged.Load() > 0 || round == 4 {
				break
			}
			m.Count("trickle_extra_batch_after_none_could_be_timed", 1)
			batch = c05GenTrickleSniff(extra, &extraID, 4)
		}
	}
	// end of stream during detection (c05_eos_verif_test.go): short connections, run before the bulk starts
	c05EOSBatch(m)
	// Torn-down relays run next to the judged cases: whatever a relay that died with bytes in flight
	// leaves behind in process-wide state (pooled splice pipes, pooled buffers) must not leak into
	// the streams of the other connections, which keep being compared byte for byte.
	abortStop := make(chan struct{})
	abortDone := make(chan struct{})
	go func() {
		defer close(abortDone)
		ar := vk.NewRand(0xC05AB)
		for i, min := 0, vk.Scale(12, 120); ; i++ {
			select {
			case <-abortStop:
				if i >= min {
					return
				}
			default:
			}
			if i >= vk.Scale(60, 1500) {
				return
			}
			c05AbortedRelay(m, ar, i)
		}
	}()
	// lock-step exchanges (c05_lockstep_verif_test.go) run next to the bulk cases: same process-wide pools
	lockStepDone := make(chan struct{})
	go func() {
		defer close(lockStepDone)
		c05LockStepBatch(m, seed)
	}()
	for _, i := range order {
		cs := cases[i]
		if cs.Trickle > 0 {
			continue
		}
		sem <- struct{}{}
		launch(cs, true, nil)
	}
	wg.Wait()
	<-lockStepDone
	close(abortStop)
	<-abortDone
	// connections relayed after the last torn-down relay: its leftovers, if any, are still pooled
	{
		tail := int64(64) << 20
		for i := 0; i < 8; i++ {
			cs := c05GenCase(r, n+1+i, &tail)
			cs.Stack, cs.RConn, cs.Pre, cs.Arrival, cs.SrvStart, cs.Close = "plain", "tcp", "none", "after", "immediate", "client-first"
			cs.OldConn, cs.LongGrace = false, false
			if cs.C2S < 4096 {
				cs.C2S = 4096 + i*1000
			}
			if cs.S2C < 4096 {
				cs.S2C = 6000 + i*1000
			}
			wg.Add(1)
			go func() {
				defer wg.Done()
				m.Eval(1)
				x := &c05Run{cs: cs, m: m, seed: seed, cp: cps[cs.WindowMs], r: rand.New(rand.NewPCG(cs.CaseSeed, 0))}
				defer func() {
					if p := recover(); p != nil {
						m.Violation("harness-panic", fmt.Sprintf("panic while running case: %v", p), map[string]any{"case": cs})
					}
				}()
				x.run()
				m.Count("cases_after_last_torn_down_relay", 1)
			}()
		}
		wg.Wait()
	}
	// trickled flights whose detection phase outlasted its windows: judged now, with nothing else running
	c05TrickleCands.judge(m)
	c05SigMu.Lock()
	if len(c05SigSeen) > 0 {
		m.Set("failure_signature_counts", c05SigSeen)
		var sigs []string
		for k, v := range c05SigSeen {
			sigs = append(sigs, fmt.Sprintf("%s x%d", k, v))
		}
		sort.Strings(sigs)
		fmt.Printf("C05 failure signatures (occurrences): %s\n", strings.Join(sigs, "; "))
	}
	c05SigMu.Unlock()
	c05HB.mu.Lock()
	m.Set("scheduler_lag_max_ms", ms(int64(c05HB.max)))
	m.Set("scheduler_lag_events_over_20ms", len(c05HB.lags))
	c05HB.mu.Unlock()
	m.Count("gather_hook_calls", gatherCalls.Load())
	m.Count("gather_hook_with_pending_body", gatherWithBody.Load())
	wv.report(m)
	m.Require("trickle_sniff_detection_ended_mid_flight", "trickle_dns53_detection_ended_mid_flight", "trickle_every_gap_shorter_than_window",
		"trickle_detection_delay_judged", "trickle_cases_completed", "trickle_first_bytes_tls-small", "trickle_first_bytes_tls-large", "trickle_first_bytes_http-longhost",
		"tinybuf_l2r_path_gather", "tinybuf_l2r_path_splice", "tinybuf_l2r_path_loop", "tinybuf_r2l_path_splice", "tinybuf_r2l_path_loop",
		"tinybuf_outcome_prefixed", "tinybuf_outcome_sniffer-ok", "tinybuf_outcome_bufio",
		"gather_writev_short_ending_inside_a_segment", "gather_writev_short_inside_segment_then_eagain")
	m.Require("path_gather", "path_splice", "path_loop", "gather_hook_calls",
		"eof_propagated_l2r", "eof_propagated_r2l", "grace_flow_delivered", "alive_after_window", "late_unit_delivered", "eager_close", "long_grace_4s", "small_window_backpressure", "old_connection_half_close",
		"outcome_plain", "outcome_bufio", "outcome_prefixed", "outcome_sniffer-ok", "outcome_raw-noready",
		"torn_down_relays_with_bytes_in_flight", "torn_down_relay_path_splice", "cases_after_last_torn_down_relay")
	m.Require("lockstep_conns_completed", "lockstep_boundary_size_msgs", "lockstep_seg_last-alone", "lockstep_seg_bytes",
		"lockstep_lone_byte_after_burst_l2r_fast", "lockstep_lone_byte_after_burst_l2r_buffered", "lockstep_lone_byte_after_burst_l2r_gather-cont",
		"lockstep_lone_byte_after_burst_r2l_fast", "lockstep_lone_byte_after_burst_r2l_buffered",
		"lockstep_tracked_both_ends", "lockstep_tracked_upstream_only", "lockstep_plain_tcp_both_ends", "lockstep_server_first",
		"lockstep_proof_control_ok_monitor-conn_monitor-conn", "lockstep_proof_control_ok_kernel-queues_kernel-queues")
	m.Require(c05EOSRequired...)
	m.Require("eos_cases_judged", "eos_banner_after_shutdown_delivered_then_eof", "eos_outcome_bufio", "eos_closewrite_on_opaque_upstream")
	_ = errors.Is
	m.Done(t)
}
