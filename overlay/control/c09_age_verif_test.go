package control

// C09 monitor, layer L5: every constructor of reply bytes x every age of the
// cached answer x every client ingress.
//
// The other layers ask a question, get the answer and ask again at once: every
// cache hit they see is served from the bytes packed when the answer was
// stored. A cached answer lives for its TTL, and what dae writes to a client
// for it changes over that life: the ready-made reply is packed anew when its
// TTL has drifted from the remaining one, concurrent hits during that repack
// are packed from the client's own message, an expired entry inside the stale
// window (optimistic cache) is served as it was last packed, an entry restored
// by a reload keeps serving the previous generation's bytes. The statement
// ("each reply carries that client's transaction ID and question") quantifies
// over all of them.
//
// Time is not waited for. An entry that was stored d seconds ago is produced
// from the entry dae itself stored: the monitor publishes a copy whose
// deadline and packing stamps lie d seconds earlier (package-internal access;
// the records and the packed bytes are dae's own). d is drawn around dae's
// documented repack threshold (15 s) and over the rest of the entry's life:
// {0, 13..17, almost the whole TTL, past the TTL inside / outside the stale
// window}. The verdict never depends on which of dae's constructors produced
// the bytes nor on the clock: EVERY reply must carry the ID and the complete
// question (QDCOUNT 1, name case-insensitively, type, class) of the query sent
// on that client connection and only records generated for that (name, type).
// Which constructor / age class a reply went through is observed (packed-bytes
// pointer before/after, upstream call log) for the coverage counters only.
//
// Client ingresses: "writer" (HandleWithResponseWriter_ as tcp.go and
// dns_listener.go call it), "listener" (dae's dnsHandler.ServeDNS, the
// dns_listener entry point, with a ControlPlane carrying the controller),
// "udp" (Handle_ + dae's packet sender, as control/udp.go), "tcpfast"
// (handleTCPDnsFastPath on a real loopback TCP connection).

import (
	"bufio"
	"context"
	"fmt"
	"math/rand/v2"
	"net"
	"net/netip"
	"strconv"
	"strings"
	"sync"
	"sync/atomic"
	"time"

	componentdns "github.com/daeuniverse/dae/component/dns"
	dnsmessage "github.com/miekg/dns"
	"github.com/sirupsen/logrus"
)

// dae documents the threshold ("TTL is refreshed when difference exceeds 15
// seconds"); used to place the ageing amounts and to label coverage, never in a verdict.
const c09RepackThresholdS = 15

var c09L5Paths = []string{"writer", "listener", "udp", "tcpfast"}
var c09L5Buckets = []string{"fresh", "below-threshold", "at-threshold", "threshold+1", "beyond-threshold", "stale"}

const c09RejectName = "rej.c09.test."

// c09LWriter is the ResponseWriter of a dns_listener client: it has a peer address.
type c09LWriter struct {
	c09Writer
	remote net.Addr
}

func (w *c09LWriter) RemoteAddr() net.Addr { return w.remote }
func (w *c09LWriter) LocalAddr() net.Addr {
	return &net.UDPAddr{IP: net.IPv4(127, 0, 0, 1), Port: 53}
}

type c09L5 struct {
	e       *c09Env
	r       *rand.Rand
	rd      *c09Round
	ctrl    *DnsController
	handler *dnsHandler
	addr    string // loopback listener in front of handleTCPDnsFastPath
	dst     netip.AddrPort
	paths   []string
	mu      sync.Mutex
	steps   []string
	nextIdx int
	via     string // how the entry the current step looks at was made (coverage only)
	broken  atomic.Bool
}

func (x *c09L5) logf(format string, a ...any) {
	x.mu.Lock()
	if len(x.steps) < 200 {
		x.steps = append(x.steps, fmt.Sprintf(format, a...))
	}
	x.mu.Unlock()
}

func (x *c09L5) witness(extra map[string]any) map[string]any {
	x.mu.Lock()
	st := append([]string(nil), x.steps...)
	x.mu.Unlock()
	w := map[string]any{"history": st}
	for k, v := range extra {
		w[k] = v
	}
	return x.rd.witness(w)
}

func (x *c09L5) idx() int {
	x.mu.Lock()
	defer x.mu.Unlock()
	x.nextIdx++
	return x.nextIdx
}

// do sends one query through one ingress and collects what the client received.
func (x *c09L5) do(path string, q c09Q, id uint16) *c09Client {
	c := &c09Client{Idx: x.idx(), ID: id, Path: path, Q: q, Qs: q.String(), dst: x.dst, Dst: x.dst.String()}
	w := x.rd.world
	switch path {
	case "udp":
		s, err := net.ListenUDP("udp4", &net.UDPAddr{IP: net.IPv4(127, 0, 0, 1)})
		if err != nil {
			c.Path = "writer"
			c.run(x.e, x.ctrl, w)
			return c
		}
		c.sock = s
		c.run(x.e, x.ctrl, w)
		_ = s.Close()
	case "listener":
		msg := new(dnsmessage.Msg)
		msg.Id = id
		msg.RecursionDesired = true
		msg.Question = []dnsmessage.Question{{Name: q.Name, Qtype: q.Type, Qclass: q.Class}}
		wr := &c09LWriter{remote: &net.UDPAddr{IP: net.IPv4(127, 0, 0, 1), Port: 30000 + c.Idx%20000}}
		c.TCall = w.now()
		func() {
			defer func() {
				if p := recover(); p != nil {
					c.panicV = p
				}
			}()
			x.handler.ServeDNS(wr, msg)
		}()
		c.TRet = w.now()
		wr.mu.Lock()
		c.replies = wr.msgs
		wr.mu.Unlock()
		for _, rp := range c.replies {
			c.Replies = append(c.Replies, c09MsgString(rp))
		}
	case "tcpfast":
		tc := &c09TcpConn{Idx: c.Idx, Seg: "wait", Queries: []*c09Client{c}}
		replies, err := tc.run(x.addr, w)
		c.TCall, c.TRet = tc.start, tc.end
		if err != nil {
			c.Err = err.Error()
		}
		if tc.stuck {
			x.broken.Store(true)
			x.e.m.Inconclusive("L5 round %d: no reply and no close within 20s on a single-query TCP connection (watchdog)", x.rd.seq)
		}
		c.replies = replies
		for _, rp := range replies {
			c.Replies = append(c.Replies, c09MsgString(rp))
		}
	default:
		c.run(x.e, x.ctrl, w)
	}
	return c
}

// judge applies the reply oracle to everything the client received.
func (x *c09L5) judge(c *c09Client, class string) {
	m := x.e.m
	m.Eval(1)
	where := "L5/" + c.Path + "/" + class
	x.mu.Lock()
	x.rd.clients = append(x.rd.clients, c)
	x.mu.Unlock()
	x.logf("%s via %s id=%d (%s): %s %s", class, c.Path, c.ID, c.Q, strings.Join(c.Replies, " || "), c.Err)
	if c.panicV != nil {
		c09V(m, "panic-in-dns-path/L5/"+c.Path, fmt.Sprintf("panic while handling (%s): %v", c.Q, c.panicV), x.witness(map[string]any{"client": c}))
		return
	}
	for _, rp := range c.replies {
		if rp == nil {
			c09V(m, "reply-undecodable/"+where, "client received bytes that do not parse as a DNS message", x.witness(map[string]any{"client": c}))
			continue
		}
		c09JudgeClientMsg(m, where, c.ID, c.Q, rp, func() any { return x.witness(map[string]any{"client": c, "reply_class": class}) })
	}
	if len(c.replies) == 0 {
		m.Count("L5_queries_without_reply/"+c.Path, 1)
	}
	m.Count("reply_kind_"+c09ReplyKind(c), 1)
}

// entries returns the cache keys under which (name,type) is stored (one per scope).
func (x *c09L5) entries(q c09Q) []string {
	base := q.canon() + strconv.Itoa(int(q.Type))
	var keys []string
	x.ctrl.dnsCache.Range(func(k, _ any) bool {
		if s, _ := k.(string); s == base || strings.HasPrefix(s, base+"|") {
			keys = append(keys, s)
		}
		return true
	})
	return keys
}

// bucket labels the age of an entry as a lookup at this moment would see it (coverage only).
func (x *c09L5) bucket(key string) (string, *DnsCache) {
	v, ok := x.ctrl.dnsCache.Load(key)
	if !ok {
		return "missing", nil
	}
	en := v.(*DnsCache)
	rem := en.deadlineNano.Load() - time.Now().UnixNano()
	if rem <= 0 {
		if x.rd.tp.optimistic && -rem <= int64(60*time.Second) {
			return "stale", en
		}
		return "expired", en
	}
	if p := en.packedResponse.Load(); p == nil || *p == nil {
		return "no-packed-bytes", en
	}
	cur := rem / int64(time.Second)
	if cur == 0 {
		cur = 1
	}
	drift := int64(en.packedResponseTTL.Load()) - cur
	if drift < 0 {
		drift = -drift
	}
	switch {
	case drift <= 1:
		return "fresh", en
	case drift < c09RepackThresholdS:
		return "below-threshold", en
	case drift == c09RepackThresholdS:
		return "at-threshold", en
	case drift == c09RepackThresholdS+1:
		return "threshold+1", en
	default:
		return "beyond-threshold", en
	}
}

// age publishes, in place of the entry under key, the same entry as it would be d seconds later:
// deadline and packing stamps d seconds earlier. via says how the copy is made.
func (x *c09L5) age(key string, q c09Q, d int64, via string) bool {
	v, ok := x.ctrl.dnsCache.Load(key)
	if !ok {
		return false
	}
	old := v.(*DnsCache)
	var n *DnsCache
	if via == "reload-clone" {
		n = old.CloneForReload() // what a reload hands to the next generation
	} else {
		n = &DnsCache{RouteOwnerKey: old.RouteOwnerKey, DomainBitmap: old.DomainBitmap, Answer: old.Answer, NS: old.NS, Extra: old.Extra,
			Deadline: old.Deadline, OriginalDeadline: old.OriginalDeadline}
		if via != "no-packed-bytes" { // an entry whose packing at insert failed has none ("will fall back to Pack() on hit")
			if p := old.packedResponse.Load(); p != nil {
				n.packedResponse.Store(p)
				n.packedResponseTTL.Store(old.packedResponseTTL.Load())
				n.packedResponseCreatedAt.Store(old.packedResponseCreatedAt.Load())
			}
		}
		n.deadlineNano.Store(old.deadlineNano.Load())
		n.lastAccessNano.Store(old.lastAccessNano.Load())
	}
	shift := time.Duration(d) * time.Second
	n.Deadline = n.Deadline.Add(-shift)
	n.OriginalDeadline = n.OriginalDeadline.Add(-shift)
	n.deadlineNano.Store(n.deadlineNano.Load() - int64(shift))
	if c := n.packedResponseCreatedAt.Load(); c != 0 {
		n.packedResponseCreatedAt.Store(c - int64(shift))
	}
	if via == "PrepackResponse" {
		// the exported constructor ("should be called once when creating the cache entry"), as an embedder would
		if err := n.PrepackResponse(q.canon(), q.Type); err != nil {
			x.e.m.Count("L5_PrepackResponse_errors", 1)
		}
	}
	x.ctrl.dnsCache.Store(key, n)
	return true
}

func (x *c09L5) settle(what string) bool {
	if !x.rd.tp.optimistic {
		return true
	}
	if !c09WaitFor(15*time.Second, func() bool { return c09RefreshGoroutines() == 0 }) {
		x.e.m.Inconclusive("L5 round %d: background refreshes still running 15s after %s (watchdog)", x.rd.seq, what)
		x.broken.Store(true)
		return false
	}
	x.e.m.Count("L5_entries_marked_refreshing_with_no_refresh_running", int64(c09ClearOrphanRefreshMarks(x.ctrl)))
	return true
}

func (x *c09L5) path() string { return x.paths[x.r.IntN(len(x.paths))] }
func (x *c09L5) id() uint16   { return uint16(7 + x.r.IntN(2)) }

// hitClass runs one query against an entry of known age and judges it.
func (x *c09L5) hit(path string, q c09Q, key string, negative bool) {
	m := x.e.m
	b, before := x.bucket(key)
	var p0 *[]byte
	if before != nil {
		p0 = before.packedResponse.Load()
	}
	calls0 := len(x.rd.world.snapshotCalls())
	c := x.do(path, q, x.id())
	class := "hit-" + b
	x.judge(c, class)
	if len(c.replies) == 0 || c.replies[0] == nil {
		return
	}
	m.Count("L5_hit/"+c.Path+"/"+b, 1)
	m.Distinct(fmt.Sprintf("L5|%s|%s|%s|%s|neg=%v|opt=%v", x.rd.tp.scheme, c.Path, b, dnsmessage.TypeToString[q.Type], negative, x.rd.tp.optimistic))
	if negative {
		m.Count("L5_negative_hit/"+b, 1)
	}
	if len(x.rd.world.snapshotCalls()) == calls0 {
		m.Count("L5_hits_served_without_upstream_call", 1)
		m.Count("L5_served_from_entry_via_"+x.via+"/"+b, 1)
		x.via = "earlier-hit"
		if rq := c.replies[0].Question; len(rq) == 1 && rq[0].Name == q.Name && q.Name != q.canon() {
			// the stored bytes spell the name in lower case: this reply was packed from the client's own message
			m.Count("L5_hits_packed_from_client_message", 1)
		}
	}
	if v, ok := x.ctrl.dnsCache.Load(key); ok && before != nil && v.(*DnsCache) == before {
		if p1 := before.packedResponse.Load(); p1 != p0 && p1 != nil {
			m.Count("L5_hits_that_repacked_the_ready_made_reply", 1)
			m.Count("L5_repack_at/"+b, 1)
		}
	}
}

// clock walks one entry through its life with a VIRTUAL clock: the two calls LookupDnsRespCache_ makes
// for an unexpired entry (the ready-made reply for the approximate TTL, else the reply packed from
// the client's own message) are given a later `now` each time, on a private copy of the entry dae
// stored, and what they return goes to a client through writeCachedResponse, dae's writer of cached
// replies (ResponseWriter and UDP form). Offsets are exact here: the drift compared with the
// threshold is (TTL the bytes were packed with) - (TTL left at `now`).
func (x *c09L5) clock(name string, q0 c09Q, key string, ask func(string) c09Q) {
	m := x.e.m
	v, ok := x.ctrl.dnsCache.Load(key)
	if !ok {
		return
	}
	old := v.(*DnsCache)
	base := time.Now()
	rem := (old.deadlineNano.Load() - base.UnixNano()) / int64(time.Second)
	if rem < 3 {
		return
	}
	n := &DnsCache{RouteOwnerKey: old.RouteOwnerKey, DomainBitmap: old.DomainBitmap, Answer: old.Answer, NS: old.NS, Extra: old.Extra,
		Deadline: old.Deadline, OriginalDeadline: old.OriginalDeadline}
	if p := old.packedResponse.Load(); p != nil {
		n.packedResponse.Store(p)
		n.packedResponseTTL.Store(old.packedResponseTTL.Load())
		n.packedResponseCreatedAt.Store(old.packedResponseCreatedAt.Load())
	}
	n.deadlineNano.Store(old.deadlineNano.Load())
	// a rising sequence of offsets: steps of threshold-1 .. threshold+2 seconds and a few long ones
	var offs []int64
	at := int64(0)
	for i := 0; i < 3+x.r.IntN(5); i++ {
		switch x.r.IntN(8) {
		case 0:
			at += 0
		case 1:
			at += 1 + int64(x.r.IntN(5))
		case 7:
			at += 2*c09RepackThresholdS + int64(x.r.IntN(40))
		default:
			at += int64(c09RepackThresholdS - 1 + x.r.IntN(4))
		}
		if at >= rem-1 {
			break
		}
		offs = append(offs, at)
	}
	if x.r.IntN(2) == 0 && rem-2 > at {
		offs = append(offs, rem-2) // almost the whole life
	}
	for _, off := range offs {
		now := base.Add(time.Duration(off) * time.Second)
		q := ask(name)
		id := x.id()
		cur := (n.deadlineNano.Load() - now.UnixNano()) / int64(time.Second)
		drift := int64(n.packedResponseTTL.Load()) - cur
		cls := "beyond-threshold"
		switch {
		case drift < c09RepackThresholdS:
			cls = "below-threshold"
		case drift == c09RepackThresholdS:
			cls = "at-threshold"
		case drift == c09RepackThresholdS+1:
			cls = "threshold+1"
		}
		msg := new(dnsmessage.Msg)
		msg.Id = id
		msg.RecursionDesired = true
		msg.Question = []dnsmessage.Question{{Name: q.Name, Qtype: q.Type, Qclass: q.Class}}
		c := &c09Client{Idx: x.idx(), ID: id, Path: "writer", Q: q, Qs: q.String(), dst: x.dst, Dst: x.dst.String()}
		how := "ready-made"
		var resp []byte
		func() {
			defer func() {
				if p := recover(); p != nil {
					c.panicV = p
				}
			}()
			resp = n.GetPackedResponseWithApproximateTTL(q.Name, q.Type, now)
			if resp == nil {
				how = "packed-from-client-message"
				resp = n.fillIntoWithTTLInPlace(msg, now)
			}
		}()
		if resp == nil && c.panicV == nil {
			m.Count("L5_clock_no_bytes", 1)
			continue
		}
		src := netip.MustParseAddrPort("127.0.0.1:" + strconv.Itoa(20000+c.Idx%20000))
		req := &udpRequest{realSrc: src, realDst: x.dst, src: src, routingResult: &bpfRoutingResult{}}
		if c.panicV == nil {
			if x.r.IntN(3) == 0 {
				if sock, err := net.ListenUDP("udp4", &net.UDPAddr{IP: net.IPv4(127, 0, 0, 1)}); err == nil {
					c.Path = "udp"
					src = sock.LocalAddr().(*net.UDPAddr).AddrPort()
					req.realSrc, req.src, req.lConn = src, src, x.e.lConn
					if err := x.ctrl.writeCachedResponse(resp, id, req, nil); err != nil {
						c.Err = err.Error()
					}
					buf := make([]byte, 4096)
					_ = sock.SetReadDeadline(time.Now().Add(150 * time.Millisecond))
					if k, _, rerr := sock.ReadFromUDPAddrPort(buf); rerr == nil {
						var rm dnsmessage.Msg
						if rm.Unpack(buf[:k]) == nil {
							c.replies = append(c.replies, &rm)
						} else {
							c.replies = append(c.replies, nil)
						}
					}
					_ = sock.Close()
				}
			}
			if c.Path == "writer" {
				wr := &c09Writer{}
				if err := x.ctrl.writeCachedResponse(resp, id, req, wr); err != nil {
					c.Err = err.Error()
				}
				c.replies = wr.msgs
			}
		}
		for _, rp := range c.replies {
			c.Replies = append(c.Replies, c09MsgString(rp))
		}
		x.logf("virtual clock +%ds on %s: bytes %s, TTL drift %d (%s)", off, key, how, drift, cls)
		x.judge(c, "clock-"+cls)
		if len(c.replies) > 0 {
			m.Count("L5_clock/"+cls+"/"+how, 1)
			m.Count("L5_clock_replies/"+c.Path, 1)
			m.Distinct(fmt.Sprintf("L5|clock|%s|%s|%s|%s", c.Path, cls, how, dnsmessage.TypeToString[q.Type]))
		}
	}
}

// c09SigClassNotEchoed is the one signature of the known finding "a query of a class other than IN
// for a (name, type) that is in the cache is answered with a class-IN question section". Nothing
// else is reported under it: the reply must have the client's ID, exactly one question with the
// client's name and type, and class IN where the client sent another class.
const c09SigClassNotEchoed = "reply-question-class-not-echoed/cache-hit"

// classProbe: queries of class CH (3). (a) for a (name, type) that is in the cache and fresh (an IN
// query just before makes sure of it; "served from the cache" is read from the upstream call log);
// (b) for a name of the pool this round has not used (cache miss: goes upstream).
func (x *c09L5) classProbe(state map[string]string, qtype map[string]uint16) {
	m := x.e.m
	w := x.rd.world
	r := x.r
	// ---- (a) cache hit
	var cands []string
	for _, q := range x.rd.qs {
		if st := state[q.Name]; st == "answer" || st == "slow" || st == "negative" {
			cands = append(cands, q.Name)
		}
	}
	if len(cands) == 0 {
		m.Count("L5_class_probe_skipped_no_cacheable_name", 1)
	} else {
		name := cands[r.IntN(len(cands))]
		in := c09Q{Name: c09MixCase(r, name), Type: qtype[name], Class: dnsmessage.ClassINET}
		c := x.do("writer", in, x.id())
		x.judge(c, "class-probe-prime")
		x.settle("the class probe's priming query")
		keys := x.entries(in)
		fresh := false
		if len(keys) > 0 {
			b, _ := x.bucket(keys[0])
			fresh = b != "stale" && b != "expired" && b != "missing"
		}
		if !fresh {
			m.Count("L5_class_probe_skipped_entry_not_fresh", 1)
		} else {
			q := in
			q.Name = c09MixCase(r, name)
			q.Class = dnsmessage.ClassCHAOS
			calls0 := len(w.snapshotCalls())
			c := x.do(x.path(), q, x.id())
			hit := len(w.snapshotCalls()) == calls0
			x.logf("class CH query for a cached (name,type) via %s (%s), served from cache=%v: %s %s", c.Path, q, hit, strings.Join(c.Replies, " || "), c.Err)
			if !hit {
				m.Count("L5_class_probe_went_upstream_although_cached", 1)
				x.judge(c, "class-CH-after-prime-miss")
			} else {
				m.Count("L5_class_probe_cache_hit_judged", 1)
				m.Count("L5_class_probe_cache_hit_judged/"+c.Path, 1)
				for i, rp := range c.replies {
					if rp == nil || len(rp.Question) != 1 || rp.Question[0].Qclass != dnsmessage.ClassINET {
						continue // anything else is for the ordinary oracle below
					}
					// the known finding, and only it: class IN in place of the client's class. The rest of
					// the reply is judged as if the class had been echoed.
					cc := c
					c09V(m, c09SigClassNotEchoed,
						fmt.Sprintf("query (%s) for a cached (name,type): the reply's question section is [%s %s c%d], the client asked class %d",
							q, rp.Question[0].Name, dnsmessage.TypeToString[rp.Question[0].Qtype], rp.Question[0].Qclass, q.Class),
						x.witness(map[string]any{"client": cc, "cache_key": keys[0]}))
					m.Count("L5_class_probe_cache_hit_answered_with_class_IN", 1)
					cp := rp.Copy()
					cp.Question[0].Qclass = q.Class
					c.replies[i] = cp
				}
				x.judge(c, "class-CH-cache-hit")
				for _, rp := range c.replies {
					if rp != nil && len(rp.Question) == 1 && rp.Question[0].Qclass == q.Class {
						m.Count("L5_class_probe_cache_hit_replies", 1)
					}
				}
			}
		}
	}
	// ---- (b) cache miss: a pool name the round does not use
	if r.IntN(2) == 0 {
		used := map[string]bool{}
		for _, q := range x.rd.qs {
			used[q.Name] = true
		}
		var free []string
		for _, n := range c09NamePool {
			if !used[n] {
				free = append(free, n)
			}
		}
		if len(free) == 0 {
			return
		}
		name := free[r.IntN(len(free))]
		q := c09Q{Name: c09MixCase(r, name), Type: []uint16{dnsmessage.TypeA, dnsmessage.TypeTXT}[r.IntN(2)], Class: dnsmessage.ClassCHAOS}
		if len(x.entries(q)) > 0 {
			return
		}
		calls0 := len(w.snapshotCalls())
		c := x.do(x.path(), q, x.id())
		calls := w.snapshotCalls()
		x.logf("class CH query for an uncached name via %s (%s): %s %s", c.Path, q, strings.Join(c.Replies, " || "), c.Err)
		if len(calls) == calls0 {
			m.Count("L5_class_miss_probe_no_upstream_call", 1)
		}
		for _, uc := range calls[calls0:] {
			if strings.HasSuffix(uc.Q, fmt.Sprintf("class=%d", q.Class)) {
				m.Count("L5_class_miss_probe_upstream_saw_the_clients_class", 1)
			} else {
				m.Count("L5_class_miss_probe_upstream_saw_another_class", 1)
			}
		}
		m.Count("L5_class_miss_probe/"+c.Path, 1)
		if c09ClassMissJudged {
			x.judge(c, "class-CH-cache-miss")
		} else {
			for _, rp := range c.replies {
				switch {
				case rp == nil || len(rp.Question) != 1:
					m.Count("L5_class_miss_probe_observed/reply_without_one_question", 1)
				case rp.Question[0].Qclass == q.Class:
					m.Count("L5_class_miss_probe_observed/class_echoed", 1)
				default:
					m.Count("L5_class_miss_probe_observed/reply_question_has_class_"+strconv.Itoa(int(rp.Question[0].Qclass)), 1)
				}
			}
		}
	}
}

// c09ClassMissJudged: whether the reply to a class-CH query that misses the cache goes through the reply oracle.
const c09ClassMissJudged = false

func (e *c09Env) c09L5Round(r *rand.Rand, seq int) {
	m := e.m
	if e.l4Broken {
		return
	}
	tp := c09Topology{name: "u1-udp", scheme: "udp", upstream: netip.MustParseAddrPort("127.0.0.1:5394"), dsts: e.replyAddrs[:1]}
	switch r.IntN(5) {
	case 0:
		tp = c09Topology{name: "u1-tcp+udp", scheme: "tcp+udp", upstream: netip.MustParseAddrPort("127.0.0.1:5395"), dsts: e.replyAddrs[:1]}
	case 1:
		tp = c09Topology{name: "u1-tcp", scheme: "tcp", upstream: netip.MustParseAddrPort("127.0.0.1:5396"), dsts: e.replyAddrs[:1]}
	case 2:
		tp = c09Topology{name: "asis", scheme: "asis", dsts: e.replyAddrs[:1]}
	}
	tp.optimistic = r.IntN(3) != 0
	if tp.optimistic {
		tp.name += "+optimistic-cache"
	}
	tp.reject = []string{c09RejectName}
	rd := &c09Round{layer: "L5", tp: tp, seq: seq, qs: c09RoundQuestions(r)}
	rd.world = c09NewWorld(r, rd.qs)
	w := rd.world
	state := map[string]string{}
	ttls := map[string]uint32{}
	qtype := map[string]uint16{}
	for _, q := range rd.qs {
		st := []string{"answer", "answer", "answer", "slow", "slow", "negative", "error"}[r.IntN(7)]
		state[q.Name] = st
		ttl := []uint32{20, 60, 60, 300, 3600, 86400}[r.IntN(6)]
		ttls[q.Name] = ttl
		w.setTTL(q.Name, ttl)
		qtype[q.Name] = []uint16{dnsmessage.TypeA, dnsmessage.TypeA, dnsmessage.TypeA, dnsmessage.TypeAAAA, dnsmessage.TypeTXT, 257}[r.IntN(6)]
		var s []c09Beh
		switch st {
		case "answer":
			s = []c09Beh{c09OK}
		case "slow":
			s = []c09Beh{c09Slow, c09OK}
		case "negative":
			s = []c09Beh{c09Empty}
		case "error":
			s = []c09Beh{c09Err, c09OK}
		}
		w.setScript("udp", q.Name, s)
		w.setScript("tcp", q.Name, s)
	}
	dnsForwarderFactory = func(up *componentdns.Upstream, da dialArgument, _ *logrus.Logger) (DnsForwarder, error) {
		return c09NewFakeFwd(w, da.bestTarget.String(), string(da.l4proto)), nil
	}
	ctrl, err := e.c09NewController(tp, nil)
	if err != nil {
		m.Inconclusive("L5: cannot build controller: %v", err)
		return
	}
	plane := &ControlPlane{log: e.log, controlPlaneDNSRuntime: controlPlaneDNSRuntime{dnsController: ctrl}}
	lst := &DNSListener{log: e.log}
	lst.controller.Store(plane)
	ln, err := net.Listen("tcp4", "127.0.0.1:0")
	if err != nil {
		m.Inconclusive("L5: cannot listen on loopback: %v", err)
		_ = ctrl.Close()
		return
	}
	x := &c09L5{e: e, r: r, rd: rd, ctrl: ctrl, handler: &dnsHandler{listener: lst, log: e.log}, addr: ln.Addr().String(), dst: tp.dsts[0],
		paths: c09L5Paths}
	if tp.scheme == "asis" {
		// the listener's clients talk to dae's own address, which is another asis scope (another cache
		// entry) than the resolver address of the transparent clients
		x.paths = []string{"writer", "udp", "tcpfast"}
	}
	var srvWg sync.WaitGroup
	var panics atomic.Pointer[string]
	go func() {
		for {
			c, aerr := ln.Accept()
			if aerr != nil {
				return
			}
			srvWg.Add(1)
			go func(c net.Conn) {
				defer srvWg.Done()
				defer c.Close()
				defer func() {
					if p := recover(); p != nil {
						s := fmt.Sprint(p)
						panics.CompareAndSwap(nil, &s)
					}
				}()
				src := c.RemoteAddr().(*net.TCPAddr).AddrPort()
				_, _ = plane.handleTCPDnsFastPath(context.Background(), c, bufio.NewReader(c), src, x.dst, &bpfRoutingResult{})
			}(c)
		}
	}()
	finish := func() {
		_ = ln.Close()
		w.shutdown.Store(true)
		_ = ctrl.Close()
		srvWg.Wait()
	}
	ask := func(name string) c09Q {
		return c09Q{Name: c09MixCase(r, name), Type: qtype[name], Class: dnsmessage.ClassINET}
	}
	x.logf("topology %s; per name state/ttl: %v %v", tp.name, state, ttls)

	// ---- phase A: the first answer of every name (relayed from upstream; a slow upstream is met by a
	// burst of identical questions over all ingresses: one resolution, many waiters)
	for _, qq := range rd.qs {
		name := qq.Name
		switch state[name] {
		case "slow":
			n := 3 + r.IntN(6)
			cl := make([]*c09Client, n)
			paths := make([]string, n)
			qs := make([]c09Q, n)
			ids := make([]uint16, n)
			for i := range cl {
				paths[i], qs[i], ids[i] = x.path(), ask(name), x.id()
			}
			var wg sync.WaitGroup
			for i := range cl {
				wg.Add(1)
				go func(i int) {
					defer wg.Done()
					cl[i] = x.do(paths[i], qs[i], ids[i])
				}(i)
			}
			wg.Wait()
			for _, c := range cl {
				x.judge(c, "singleflight-burst")
				if len(c.replies) > 0 {
					m.Count("L5_singleflight_burst/"+c.Path, 1)
				}
			}
		case "error":
			c := x.do(x.path(), ask(name), x.id())
			x.judge(c, "upstream-error")
			if len(c.replies) > 0 && c.replies[0] != nil && c.replies[0].Rcode == dnsmessage.RcodeServerFailure {
				m.Count("L5_servfail/"+c.Path, 1)
			}
			c = x.do(x.path(), ask(name), x.id())
			x.judge(c, "relay")
		default:
			c := x.do(x.path(), ask(name), x.id())
			x.judge(c, "relay")
			if len(c.replies) > 0 {
				m.Count("L5_relay/"+c.Path, 1)
			}
		}
		if x.broken.Load() {
			e.l4Broken = true
			finish()
			return
		}
	}

	// ---- phase B/C: hits at every age. A step takes one cached name, makes its entries d seconds
	// older, then asks: one client, or a burst of clients at once (the first to notice the drifted TTL
	// repacks, the others must not be given another question meanwhile).
	var cached []string
	for _, qq := range rd.qs {
		if len(x.entries(c09Q{Name: qq.Name, Type: qtype[qq.Name]})) > 0 {
			cached = append(cached, qq.Name)
		}
	}
	if len(cached) == 0 {
		m.Count("L5_rounds_without_cached_answer", 1)
	}
	if len(cached) > 0 && r.IntN(2) == 0 {
		name := cached[r.IntN(len(cached))]
		cq := c09Q{Name: name, Type: qtype[name], Class: dnsmessage.ClassINET}
		if keys := x.entries(cq); len(keys) > 0 {
			x.clock(name, cq, keys[0], ask)
		}
	}
	steps := 0
	if len(cached) > 0 {
		steps = 5 + r.IntN(6)
	}
	for s := 0; s < steps && !x.broken.Load(); s++ {
		name := cached[r.IntN(len(cached))]
		cq := c09Q{Name: name, Type: qtype[name], Class: dnsmessage.ClassINET}
		keys := x.entries(cq)
		if len(keys) == 0 { // expired and dropped by an earlier step: ask again (relay), it is cached anew
			c := x.do(x.path(), ask(name), x.id())
			x.judge(c, "relay")
			m.Count("L5_relay_after_expiry", 1)
			if !x.settle("a query after expiry") {
				break
			}
			continue
		}
		key := keys[0]
		_, en := x.bucket(key)
		if en == nil {
			continue
		}
		rem := (en.deadlineNano.Load() - time.Now().UnixNano()) / int64(time.Second)
		cur := rem
		if cur < 1 {
			cur = 1
		}
		driftNow := int64(en.packedResponseTTL.Load()) - cur // what a lookup at this moment compares with the threshold
		var d int64
		kind := r.IntN(16)
		switch {
		case s == 0 || kind == 0:
			d = 0
		case kind <= 8 || kind == 15:
			// around the threshold: the drift a lookup sees after the step is threshold-6 .. threshold+2
			target := int64(c09RepackThresholdS) + []int64{-6, -1, -1, 0, 0, 1, 1, 1, 2}[r.IntN(9)]
			if d = target - driftNow; d < 0 {
				d = 0
			}
		case kind <= 10:
			d = rem - 1 - int64(r.IntN(3)) // large, but the entry is still fresh
		case kind <= 13:
			d = rem + 1 + []int64{0, 1, 30, 58}[r.IntN(4)] // expired, inside the 60 s stale window
		default:
			d = rem + 62 + int64(r.IntN(100)) // expired beyond the stale window
		}
		if d < 0 || (d >= rem && kind <= 10) {
			d = 0
		}
		via := []string{"copy", "copy", "copy", "copy", "reload-clone", "reload-clone", "PrepackResponse", "no-packed-bytes"}[r.IntN(8)]
		if via == "PrepackResponse" && d >= rem {
			via = "copy"
		}
		if d == 0 && via == "copy" {
			via = "untouched"
		} else {
			for _, k := range keys {
				x.age(k, cq, d, via)
			}
		}
		b, _ := x.bucket(key)
		x.logf("step %d: %s %s: entry made %d s older (%s), a lookup now sees it as %s", s, name, dnsmessage.TypeToString[cq.Type], d, via, b)
		m.Count("L5_age_steps", 1)
		m.Count("L5_entry_via_"+via, 1)
		neg := state[name] == "negative"
		x.via = via
		if r.IntN(3) == 0 {
			// burst
			n := 4 + r.IntN(9)
			paths := make([]string, n)
			qs := make([]c09Q, n)
			ids := make([]uint16, n)
			cl := make([]*c09Client, n)
			for i := 0; i < n; i++ {
				paths[i], qs[i], ids[i] = x.path(), ask(name), uint16(7+i%2)
			}
			calls0 := len(w.snapshotCalls())
			var wg sync.WaitGroup
			start := make(chan struct{})
			for i := 0; i < n; i++ {
				wg.Add(1)
				go func(i int) {
					defer wg.Done()
					<-start
					cl[i] = x.do(paths[i], qs[i], ids[i])
				}(i)
			}
			close(start)
			wg.Wait()
			noUp := len(w.snapshotCalls()) == calls0
			for _, c := range cl {
				x.judge(c, "burst-"+b)
				if len(c.replies) == 0 || c.replies[0] == nil {
					continue
				}
				m.Count("L5_burst_hit/"+c.Path+"/"+b, 1)
				if noUp {
					if rq := c.replies[0].Question; len(rq) == 1 && rq[0].Name == c.Q.Name && c.Q.Name != c.Q.canon() {
						m.Count("L5_hits_packed_from_client_message", 1)
					}
				}
			}
			m.Count("L5_bursts/"+b, 1)
			m.Distinct(fmt.Sprintf("L5|burst|%s|%s|n=%d|%s", tp.scheme, b, n/4, via))
		} else {
			x.hit(x.path(), ask(name), key, neg)
			if r.IntN(2) == 0 { // and once more: now from whatever the first hit left behind
				x.hit(x.path(), ask(name), key, neg)
			}
		}
		if b == "stale" || b == "expired" {
			if !x.settle("a hit on an expired entry") {
				break
			}
		}
	}

	// ---- phase D: a name the request routing rejects: dae's own empty reply
	if !x.broken.Load() {
		for i := 0; i < 1+r.IntN(2); i++ {
			c := x.do(x.path(), c09Q{Name: c09MixCase(r, c09RejectName), Type: []uint16{dnsmessage.TypeA, dnsmessage.TypeAAAA}[r.IntN(2)], Class: dnsmessage.ClassINET}, x.id())
			x.judge(c, "reject")
			if len(c.replies) > 0 && c.replies[0] != nil && len(c.replies[0].Answer) == 0 {
				m.Count("L5_reject/"+c.Path, 1)
			}
		}
		x.classProbe(state, qtype)
		for _, uc := range w.snapshotCalls() {
			if strings.Contains(strings.ToLower(uc.Q), c09RejectName) {
				m.Count("L5_rejected_name_went_upstream", 1)
			}
		}
	}
	if x.broken.Load() {
		e.l4Broken = true
		finish()
		return
	}
	e.c09JudgeCache(rd, ctrl)
	if p := panics.Load(); p != nil {
		c09V(m, "panic-in-dns-path/L5", "panic in handleTCPDnsFastPath: "+*p, x.witness(nil))
	}
	finish()
	c09JudgeForwarders(m, "L5", w, func(f *c09FakeFwd) any { return x.witness(map[string]any{"forwarder": f.up + "/" + f.proto}) })
	m.Count("L5_rounds", 1)
	if m.WantSample() && seq%10 == 0 {
		x.mu.Lock()
		st := append([]string(nil), x.steps...)
		x.mu.Unlock()
		if len(st) > 12 {
			st = st[:12]
		}
		m.Sample(map[string]any{"layer": "L5", "topology": tp.name, "history_head": st})
	}
}

// c09L5Required lists the counters without which the age layer has not seen what it is for.
func c09L5Required() []string {
	req := []string{"L5_rounds", "L5_hits_that_repacked_the_ready_made_reply", "L5_hits_served_without_upstream_call",
		"L5_entry_via_reload-clone", "L5_entry_via_PrepackResponse", "L5_entry_via_no-packed-bytes", "L5_entry_via_copy",
		"L5_negative_hit/fresh", "L5_negative_hit/beyond-threshold",
		"L5_served_from_entry_via_PrepackResponse/fresh", "L5_served_from_entry_via_reload-clone/fresh", "L5_served_from_entry_via_reload-clone/beyond-threshold",
		"L5_served_from_entry_via_no-packed-bytes/no-packed-bytes", "L5_served_from_entry_via_copy/threshold+1",
		"L5_hits_packed_from_client_message",
		"L5_clock/below-threshold/ready-made", "L5_clock/at-threshold/ready-made", "L5_clock/threshold+1/ready-made", "L5_clock/beyond-threshold/ready-made",
		"L5_clock_replies/writer", "L5_clock_replies/udp",
		"L5_class_probe_cache_hit_judged", "L5_class_miss_probe_upstream_saw_the_clients_class"}
	for _, p := range c09L5Paths {
		req = append(req, "L5_class_probe_cache_hit_judged/"+p, "L5_class_miss_probe/"+p)
	}
	for _, p := range c09L5Paths {
		req = append(req, "L5_relay/"+p, "L5_singleflight_burst/"+p, "L5_reject/"+p)
		for _, b := range c09L5Buckets {
			req = append(req, "L5_hit/"+p+"/"+b)
		}
		req = append(req, "L5_hit/"+p+"/expired")
	}
	for _, p := range []string{"listener", "udp", "tcpfast"} {
		req = append(req, "L5_servfail/"+p)
	}
	for _, b := range []string{"fresh", "beyond-threshold", "stale"} {
		req = append(req, "L5_bursts/"+b)
	}
	return req
}
