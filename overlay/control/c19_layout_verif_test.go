package control

// C19 monitor: every structure, constant and map key shared between the Go
// control plane and control/kern/tproxy.c must agree. Observations come from
// executed code on both sides: the C compiler's sizeof/offsetof (native and
// -target bpf), Go's reflect on the live types, sentinel bytes written by one
// side and read by the other, keys logged by the C program in action.

import (
	"bytes"
	"encoding/binary"
	"encoding/json"
	"fmt"
	"go/ast"
	"go/constant"
	"go/parser"
	"go/printer"
	"go/token"
	"go/types"
	"net/netip"
	"os"
	"os/exec"
	"path/filepath"
	"reflect"
	"regexp"
	"sort"
	"strconv"
	"strings"
	"testing"
	"unsafe"

	"github.com/cilium/ebpf"
	"github.com/cilium/ebpf/rlimit"
	"github.com/daeuniverse/dae/common"
	"github.com/daeuniverse/dae/common/consts"
	"github.com/daeuniverse/dae/component/outbound/dialer"
	vk "github.com/daeuniverse/dae/verifkit"
)

type c19Field struct{ size, off uint64 }

type c19CLayout struct {
	structs map[string]map[string]c19Field // "struct x" -> path -> (size, off); "" path = whole struct
	order   map[string][]string            // declared field order
	types   map[string]map[string]string   // field -> named type
	consts  map[string]int64
	maps    [][4]string
	rowKeys [][2]string // F rows in emission order (struct, path)
}

func c19ParseLayout(text string) *c19CLayout {
	l := &c19CLayout{structs: map[string]map[string]c19Field{}, order: map[string][]string{}, types: map[string]map[string]string{}, consts: map[string]int64{}}
	for _, line := range strings.Split(text, "\n") {
		if len(line) < 3 {
			continue
		}
		fs := strings.Split(line[2:], "|")
		switch line[0] {
		case 'F':
			sz, _ := strconv.ParseUint(fs[2], 10, 64)
			off, _ := strconv.ParseUint(fs[3], 10, 64)
			if l.structs[fs[0]] == nil {
				l.structs[fs[0]] = map[string]c19Field{}
			}
			l.structs[fs[0]][fs[1]] = c19Field{sz, off}
			if fs[1] != "" {
				l.order[fs[0]] = append(l.order[fs[0]], fs[1])
			}
			l.rowKeys = append(l.rowKeys, [2]string{fs[0], fs[1]})
		case 'T':
			if l.types[fs[0]] == nil {
				l.types[fs[0]] = map[string]string{}
			}
			l.types[fs[0]][fs[1]] = fs[2]
		case 'C':
			v, _ := strconv.ParseInt(fs[1], 10, 64)
			l.consts[fs[0]] = v
		case 'M':
			l.maps = append(l.maps, [4]string{fs[0], fs[1], fs[2], fs[3]})
		}
	}
	return l
}

func c19Norm(path string) string {
	return strings.ToLower(strings.ReplaceAll(path, "_", ""))
}

// flatten returns normalised leaf/inner paths of a C struct with nested named types expanded.
func (l *c19CLayout) flatten(name string, base uint64, prefix string, out map[string]c19Field, depth int) {
	for _, f := range l.order[name] {
		fd := l.structs[name][f]
		p := prefix + c19Norm(f)
		out[p] = c19Field{fd.size, base + fd.off}
		if t, ok := l.types[name][f]; ok && depth < 6 {
			l.flatten(t, base+fd.off, p+".", out, depth+1)
		}
	}
}

func c19GoLeaves(t reflect.Type, base uintptr, prefix string, out map[string]c19Field) {
	for i := 0; i < t.NumField(); i++ {
		f := t.Field(i)
		if f.Name == "_" {
			continue
		}
		p := prefix + c19Norm(f.Name)
		out[p] = c19Field{uint64(f.Type.Size()), uint64(base + f.Offset)}
		if f.Type.Kind() == reflect.Struct {
			c19GoLeaves(f.Type, base+f.Offset, p+".", out)
		}
	}
}

var c19Pairs = map[string]any{
	"struct dae_param":             bpfDaeParam{},
	"struct domain_routing":        bpfDomainRouting{},
	"struct match_set":             bpfMatchSet{},
	"struct pid_pname":             bpfPidPname{},
	"struct port_range":            bpfPortRange{},
	"struct redirect_entry":        bpfRedirectEntry{},
	"struct redirect_tuple":        bpfRedirectTuple{},
	"struct routing_result":        bpfRoutingResult{},
	"struct routing_handoff_entry": bpfRoutingHandoffEntry{},
	"struct tuples_key":            bpfTuplesKey{},
	"struct conn_state":            bpfConnState{},
	"struct dae_event":             bpfDaeEvent{},
	"struct lpm_key":               _bpfLpmKey{},
}

// C structs that are private to the kernel program (per-CPU scratch, helper arguments).
var c19KernelPrivate = map[string]bool{
	"union ip6": true, "struct ip_port": true, "struct tuples": true, "struct ip_port_proto": true, "union routing_meta": true,
	"struct parse_transport_ctx": true, "struct parsed_packet": true, "struct route_ctx": true, "struct route_loop_ctx": true,
	"struct wan_egress_route_scratch": true, "struct conntrack_args": true, "struct get_real_comm_ctx": true,
}

func c19ComparePair(m *vk.Monitor, target string, l *c19CLayout, cname string, gov any) {
	gt := reflect.TypeOf(gov)
	cs, ok := l.structs[cname]
	if !ok {
		m.Violation("layout/missing-c-struct/"+cname, "C struct paired with Go type "+gt.Name()+" no longer exists in tproxy.c", map[string]any{"target": target})
		return
	}
	m.Eval(1)
	m.Distinct("layout|" + target + "|" + cname)
	if cs[""].size != uint64(gt.Size()) {
		m.Violation("layout/size/"+cname, fmt.Sprintf("[%s] sizeof(%s)=%d but Go %s is %d bytes", target, cname, cs[""].size, gt.Name(), gt.Size()),
			map[string]any{"target": target, "c": cname, "go": gt.Name()})
	}
	cf := map[string]c19Field{}
	l.flatten(cname, 0, "", cf, 0)
	gf := map[string]c19Field{}
	c19GoLeaves(gt, 0, "", gf)
	matchedOff := map[uint64]bool{}
	for p, g := range gf {
		m.Eval(1)
		c, ok := cf[p]
		if !ok {
			inner := false
			for gp := range gf {
				if strings.HasPrefix(gp, p+".") {
					inner = true
				}
			}
			if inner {
				continue // an inner Go struct that C declares anonymously; its leaves are compared
			}
			m.Violation("layout/go-field-without-c/"+cname+"."+p, fmt.Sprintf("[%s] Go field %s.%s has no counterpart in %s", target, gt.Name(), p, cname),
				map[string]any{"target": target, "c_fields": fmt.Sprint(cf)})
			continue
		}
		matchedOff[c.off] = true
		if c != g {
			m.Violation("layout/field/"+cname+"."+p, fmt.Sprintf("[%s] %s.%s: C (size %d, offset %d) vs Go %s (size %d, offset %d)", target, cname, p, c.size, c.off, gt.Name(), g.size, g.off),
				map[string]any{"target": target})
		}
	}
	for _, f := range l.order[cname] {
		p := c19Norm(f)
		if _, ok := gf[p]; ok {
			continue
		}
		hasSub := false
		for gp := range gf {
			if strings.HasPrefix(gp, p+".") {
				hasSub = true
			}
		}
		c := cf[p]
		if hasSub || matchedOff[c.off] || strings.HasPrefix(p, "pad") {
			continue // expanded on the Go side, a union alternative of a paired field, or explicit padding
		}
		m.Violation("layout/c-field-without-go/"+cname+"."+p, fmt.Sprintf("[%s] C field %s.%s (size %d, offset %d) has no Go counterpart in %s", target, cname, f, c.size, c.off, gt.Name()),
			map[string]any{"target": target})
	}
}

func c19StubTypes() ([]string, error) {
	src, err := os.ReadFile(filepath.Join(vk.RepoDir(), "control", "bpf_stub.go"))
	if err != nil {
		return nil, err
	}
	fset := token.NewFileSet()
	f, err := parser.ParseFile(fset, "bpf_stub.go", src, 0)
	if err != nil {
		return nil, err
	}
	var out []string
	for _, d := range f.Decls {
		g, ok := d.(*ast.GenDecl)
		if !ok {
			continue
		}
		for _, s := range g.Specs {
			ts, ok := s.(*ast.TypeSpec)
			if !ok {
				continue
			}
			st, ok := ts.Type.(*ast.StructType)
			if !ok || len(st.Fields.List) == 0 {
				continue
			}
			var b bytes.Buffer
			_ = printer.Fprint(&b, fset, st)
			if strings.Contains(b.String(), "structs.HostLayout") {
				out = append(out, ts.Name.Name)
			}
		}
	}
	return out, nil
}

// c19ParamLiteral lifts the anonymous PARAM struct type out of fullLoadBpfObjects and
// runs a generated program that prints its layout (in memory and as encoding/binary packs it).
func c19ParamLiteral() (map[string]c19Field, uint64, map[string]uint64, error) {
	src, err := os.ReadFile(filepath.Join(vk.RepoDir(), "control", "bpf_utils.go"))
	if err != nil {
		return nil, 0, nil, err
	}
	fset := token.NewFileSet()
	f, err := parser.ParseFile(fset, "bpf_utils.go", src, 0)
	if err != nil {
		return nil, 0, nil, err
	}
	var st *ast.StructType
	ast.Inspect(f, func(n ast.Node) bool {
		kv, ok := n.(*ast.KeyValueExpr)
		if !ok {
			return true
		}
		if bl, ok := kv.Key.(*ast.BasicLit); ok && bl.Value == `"PARAM"` {
			if cl, ok := kv.Value.(*ast.CompositeLit); ok {
				if s, ok := cl.Type.(*ast.StructType); ok {
					st = s
				}
			}
		}
		return true
	})
	if st == nil {
		return nil, 0, nil, fmt.Errorf("PARAM struct literal not found in bpf_utils.go")
	}
	var tb bytes.Buffer
	_ = printer.Fprint(&tb, fset, st)
	var names []string
	for _, fl := range st.Fields.List {
		for _, n := range fl.Names {
			names = append(names, n.Name)
		}
	}
	var prog bytes.Buffer
	fmt.Fprintf(&prog, "package main\nimport (\"fmt\"; \"unsafe\"; \"encoding/binary\")\ntype P %s\nfunc main() {\n\tvar p P\n\tfmt.Println(\"size\", unsafe.Sizeof(p), binary.Size(p))\n\tpacked := 0\n", tb.String())
	for _, n := range names {
		fmt.Fprintf(&prog, "\tfmt.Println(%q, unsafe.Sizeof(p.%s), unsafe.Offsetof(p.%s), packed)\n\tpacked += binary.Size(p.%s)\n", n, n, n, n)
	}
	prog.WriteString("}\n")
	dir, err := os.MkdirTemp(filepath.Join(vk.BuildDir(), "run"), "c19param")
	if err != nil {
		return nil, 0, nil, err
	}
	defer os.RemoveAll(dir)
	_ = os.WriteFile(filepath.Join(dir, "main.go"), prog.Bytes(), 0o644)
	_ = os.WriteFile(filepath.Join(dir, "go.mod"), []byte("module c19param\n\ngo 1.26\n"), 0o644)
	cmd := exec.Command("go1.26", "run", ".")
	cmd.Dir = dir
	out, err := cmd.CombinedOutput()
	if err != nil {
		return nil, 0, nil, fmt.Errorf("running PARAM probe: %v: %s", err, out)
	}
	fields := map[string]c19Field{}
	packed := map[string]uint64{}
	var size uint64
	for _, line := range strings.Split(strings.TrimSpace(string(out)), "\n") {
		fs := strings.Fields(line)
		if len(fs) == 3 && fs[0] == "size" {
			size, _ = strconv.ParseUint(fs[1], 10, 64)
			ps, _ := strconv.ParseUint(fs[2], 10, 64)
			packed[""] = ps
			continue
		}
		if len(fs) == 4 {
			sz, _ := strconv.ParseUint(fs[1], 10, 64)
			off, _ := strconv.ParseUint(fs[2], 10, 64)
			pk, _ := strconv.ParseUint(fs[3], 10, 64)
			fields[c19Norm(fs[0])] = c19Field{sz, off}
			packed[c19Norm(fs[0])] = pk
		}
	}
	return fields, size, packed, nil
}

func c19CheckConsts(m *vk.Monitor, l *c19CLayout) {
	want := map[string]int64{
		"OUTBOUND_DIRECT": int64(consts.OutboundDirect), "OUTBOUND_BLOCK": int64(consts.OutboundBlock), "OUTBOUND_MUST_RULES": int64(consts.OutboundMustRules),
		"OUTBOUND_CONTROL_PLANE_ROUTING": int64(consts.OutboundControlPlaneRouting), "OUTBOUND_LOGICAL_OR": int64(consts.OutboundLogicalOr),
		"OUTBOUND_LOGICAL_AND": int64(consts.OutboundLogicalAnd), "OUTBOUND_LOGICAL_MASK": int64(consts.OutboundLogicalMask),
		"MatchType_DomainSet": int64(consts.MatchType_DomainSet), "MatchType_IpSet": int64(consts.MatchType_IpSet), "MatchType_SourceIpSet": int64(consts.MatchType_SourceIpSet),
		"MatchType_Port": int64(consts.MatchType_Port), "MatchType_SourcePort": int64(consts.MatchType_SourcePort), "MatchType_L4Proto": int64(consts.MatchType_L4Proto),
		"MatchType_IpVersion": int64(consts.MatchType_IpVersion), "MatchType_Mac": int64(consts.MatchType_Mac), "MatchType_ProcessName": int64(consts.MatchType_ProcessName),
		"MatchType_Dscp": int64(consts.MatchType_Dscp), "MatchType_Fallback": int64(consts.MatchType_Fallback), "MatchType_MustRules": int64(consts.MatchType_MustRules),
		"MatchType_Upstream": int64(consts.MatchType_Upstream), "MatchType_QType": int64(consts.MatchType_QType),
		"L4ProtoType_TCP": int64(consts.L4ProtoType_TCP), "L4ProtoType_UDP": int64(consts.L4ProtoType_UDP), "L4ProtoType_X": int64(consts.L4ProtoType_X),
		"IpVersionType_4": int64(consts.IpVersion_4), "IpVersionType_6": int64(consts.IpVersion_6), "IpVersionType_X": int64(consts.IpVersion_X),
		"MAX_MATCH_SET_LEN": int64(consts.MaxMatchSetLen), "TASK_COMM_LEN": int64(consts.TaskCommLen), "TPROXY_MARK": int64(consts.TproxyMark),
		"IPPROTO_TCP": int64(consts.IPPROTO_TCP), "IPPROTO_UDP": int64(consts.IPPROTO_UDP),
	}
	keys := make([]string, 0, len(want))
	for k := range want {
		keys = append(keys, k)
	}
	sort.Strings(keys)
	for _, k := range keys {
		m.Eval(1)
		cv, ok := l.consts[k]
		if !ok {
			if k == "IPPROTO_TCP" || k == "IPPROTO_UDP" {
				continue // system header constants, not emitted
			}
			m.Violation("const/missing/"+k, "constant "+k+" no longer defined on the C side", nil)
			continue
		}
		m.Distinct("const|" + k)
		if cv != want[k] {
			m.Violation("const/value/"+k, fmt.Sprintf("%s = %d in C but %d in Go", k, cv, want[k]), nil)
		}
	}
	// every C enumerator of the synced enums must exist on the Go side
	for k := range l.consts {
		if strings.HasPrefix(k, "MatchType_") || strings.HasPrefix(k, "L4ProtoType_") || strings.HasPrefix(k, "IpVersionType_") || strings.HasPrefix(k, "OUTBOUND_") {
			if _, ok := want[k]; !ok {
				m.Violation("const/c-only/"+k, "C enumerator "+k+" has no Go counterpart known to the monitor (enum grew on one side?)", nil)
			}
		}
	}
	m.Count("constants_compared", int64(len(keys)))
}

func c19CheckGenerator(m *vk.Monitor) {
	tmp, err := os.MkdirTemp(filepath.Join(vk.BuildDir(), "run"), "c19gen")
	if err != nil {
		m.Inconclusive("mkdtemp: %v", err)
		return
	}
	defer os.RemoveAll(tmp)
	bin := filepath.Join(tmp, "gen_ebpf_sync")
	cmd := exec.Command("go1.26", "build", "-o", bin, "./cmd/generators/gen_ebpf_sync")
	cmd.Dir = vk.RepoDir()
	if out, err := cmd.CombinedOutput(); err != nil {
		m.Violation("generator/build", fmt.Sprintf("gen_ebpf_sync does not build: %v: %s", err, out), nil)
		return
	}
	root := filepath.Join(tmp, "root")
	_ = os.MkdirAll(filepath.Join(root, "common", "consts"), 0o755)
	_ = os.MkdirAll(filepath.Join(root, "control", "kern"), 0o755)
	_ = os.WriteFile(filepath.Join(root, "go.mod"), []byte("module x\n"), 0o644)
	spec, err := os.ReadFile(filepath.Join(vk.RepoDir(), "common", "consts", "ebpf_sync_spec.json"))
	if err != nil {
		m.Violation("generator/spec", err.Error(), nil)
		return
	}
	_ = os.WriteFile(filepath.Join(root, "common", "consts", "ebpf_sync_spec.json"), spec, 0o644)
	run := exec.Command(bin)
	run.Dir = root
	if out, err := run.CombinedOutput(); err != nil {
		m.Violation("generator/run", fmt.Sprintf("gen_ebpf_sync failed: %v: %s", err, out), nil)
		return
	}
	c19GeneratorMalformedSpecs(m, bin, tmp, spec)
	for _, rel := range []string{"common/consts/ebpf_generated.go", "control/kern/ebpf_sync_defs.h"} {
		m.Eval(1)
		got, _ := os.ReadFile(filepath.Join(root, rel))
		have, _ := os.ReadFile(filepath.Join(vk.RepoDir(), rel))
		if !bytes.Equal(got, have) {
			m.Violation("generator/stale/"+filepath.Base(rel), "checked-in "+rel+" differs from what gen_ebpf_sync produces from ebpf_sync_spec.json", map[string]any{"generated": string(got), "checked_in": string(have)})
		} else {
			m.Count("generated_files_identical", 1)
			m.Distinct("generator|" + rel)
		}
	}
}

func TestVerifC19(t *testing.T) {
	part := os.Getenv("VERIF_PART")
	m := vk.NewMonitor("C19", part, "translation_validation",
		"all shared struct declarations of tproxy.c (sizeof/offsetof from the C compiler, native and -target bpf) vs reflect on the live Go types of this build ("+part+"); PARAM literal lifted from fullLoadBpfObjects and laid out by a generated Go program; every shared constant; gen_ebpf_sync re-run; "+
			"keys in action: flow-tuple keys logged by the TC program vs bpfTuplesKeyFromAddrPorts, connectivity slots by behaviour over all 256x6 (outbound, type) pairs, domain-table and LPM keys through route(); "+
			"slots in action: every table read or written by a constant/enumerated slot driven end to end between the TC program in kernsim and the production Go reader/writer over real kernel maps (bpf_stats_map with monitor-chosen distinct per-protocol overflow counts, listen_socket_map after publishListenerSockets, routing_map/routing_meta_map/lpm_array_map after BuildKernspace with ring blocks crossing the ring end); Go and C integer constants paired by name; distinct = declaration or (key kind, class)")
	m.SetFloor(40)
	m.Set("exhaustive", true)
	m.Assume("Go HostLayout structs reach the kernel as their in-memory bytes; the PARAM literal is observed on a generated copy of its type expression (fullLoadBpfObjects cannot run here)",
		"the -target bpf layout is taken from clang's constant evaluation of sizeof/offsetof in an object file")
	r := vk.NewRand(0xC19)
	k, err := vk.StartKernsim("C19", "main-"+part)
	if err != nil {
		m.Inconclusive("cannot build/start kernsim: %v", err)
		m.Done(t)
		return
	}
	defer k.Close()
	native := c19ParseLayout(k.Layout())
	rows, err := vk.BuildBpfLayout()
	if err != nil {
		m.Inconclusive("cannot build BPF-target layout probe: %v", err)
		m.Done(t)
		return
	}
	if len(rows) != len(native.rowKeys) {
		m.Inconclusive("BPF layout rows %d != native rows %d", len(rows), len(native.rowKeys))
		m.Done(t)
		return
	}
	bpf := c19ParseLayout("") // same names/types, BPF numbers
	bpf.order, bpf.types, bpf.consts, bpf.maps, bpf.rowKeys = native.order, native.types, native.consts, native.maps, native.rowKeys
	for i, rk := range native.rowKeys {
		if bpf.structs[rk[0]] == nil {
			bpf.structs[rk[0]] = map[string]c19Field{}
		}
		bpf.structs[rk[0]][rk[1]] = c19Field{rows[i][0], rows[i][1]}
	}
	programs := 0
	for _, tl := range []struct {
		name string
		l    *c19CLayout
	}{{"x86_64", native}, {"bpf", bpf}} {
		names := make([]string, 0, len(c19Pairs))
		for n := range c19Pairs {
			names = append(names, n)
		}
		sort.Strings(names)
		for _, n := range names {
			c19ComparePair(m, tl.name, tl.l, n, c19Pairs[n])
			programs++
		}
	}
	m.Count("struct_pairs_compared", int64(programs))
	for _, n := range []string{"struct conn_state", "struct tuples_key", "struct dae_param"} {
		cf := map[string]c19Field{}
		native.flatten(n, 0, "", cf, 0)
		gf := map[string]c19Field{}
		c19GoLeaves(reflect.TypeOf(c19Pairs[n]), 0, "", gf)
		m.Sample(map[string]any{"c_struct": n, "go_type": reflect.TypeOf(c19Pairs[n]).Name(), "c_fields_size_offset": fmt.Sprint(cf), "go_fields_size_offset": fmt.Sprint(gf),
			"sizeof_x86_64": native.structs[n][""].size, "sizeof_bpf": bpf.structs[n][""].size})
	}
	// no shared struct may escape the pairing table
	for sname := range native.structs {
		if _, ok := c19Pairs[sname]; !ok && !c19KernelPrivate[sname] {
			m.Violation("layout/unpaired-c-struct/"+sname, "C "+sname+" is neither paired with a Go type nor listed as kernel-private (new shared struct?)", nil)
		}
	}
	for _, mp := range native.maps {
		if strings.Contains(mp[3], "PERCPU") {
			continue
		}
		for _, ty := range mp[1:3] {
			if strings.HasPrefix(ty, "struct ") {
				if _, ok := c19Pairs[ty]; !ok {
					m.Violation("layout/map-type-unpaired/"+ty, "map "+mp[0]+" uses "+ty+" which has no paired Go type", nil)
				}
			}
		}
	}
	if stubTypes, err := c19StubTypes(); err == nil {
		paired := map[string]bool{}
		for _, v := range c19Pairs {
			paired[reflect.TypeOf(v).Name()] = true
		}
		for _, n := range stubTypes {
			m.Eval(1)
			if !paired[n] {
				m.Violation("layout/unpaired-go-type/"+n, "Go HostLayout type "+n+" in bpf_stub.go is not paired with a C struct", nil)
			}
		}
		m.Count("go_hostlayout_types", int64(len(stubTypes)))
	}

	// sentinel round trip: C-side bytes (one pattern per top-level C field) read through the Go struct
	for cname, gov := range c19Pairs {
		gt := reflect.TypeOf(gov)
		buf := make([]byte, native.structs[cname][""].size)
		for i, f := range native.order[cname] {
			fd := native.structs[cname][f]
			for j := uint64(0); j < fd.size && fd.off+j < uint64(len(buf)); j++ {
				if buf[fd.off+j] == 0 { // first declared alternative of a union wins
					buf[fd.off+j] = byte(0xA0 + i)
				}
			}
		}
		if uint64(gt.Size()) != uint64(len(buf)) {
			continue // already reported
		}
		pv := reflect.New(gt)
		copy(unsafeBytes(pv), buf)
		gf := map[string]c19Field{}
		c19GoLeaves(gt, 0, "", gf)
		cf := map[string]c19Field{}
		native.flatten(cname, 0, "", cf, 0)
		for p, g := range gf {
			if _, isInner := gf[p+"."]; isInner {
				continue
			}
			c, ok := cf[p]
			if !ok {
				continue
			}
			m.Eval(1)
			raw := unsafeBytes(pv)[g.off : g.off+g.size]
			want := buf[c.off : c.off+c.size]
			if !bytes.Equal(raw, want) {
				m.Violation("sentinel/"+cname+"."+p, fmt.Sprintf("bytes the C side wrote into %s.%s are read as %x through Go field (expected %x)", cname, p, raw, want), nil)
			}
		}
		m.Count("sentinel_structs", 1)
	}

	// PARAM: C size vs Go stub type vs the literal in fullLoadBpfObjects
	var gp bpfDaeParam
	if cs := k.SetParam(verifRaw(&gp)); uintptr(cs) != reflect.TypeOf(gp).Size() {
		m.Violation("param/size", fmt.Sprintf("sizeof(PARAM)=%d, Go bpfDaeParam=%d", cs, reflect.TypeOf(gp).Size()), nil)
	}
	if lit, size, packed, err := c19ParamLiteral(); err != nil {
		m.Violation("param/literal-probe", err.Error(), nil)
	} else {
		for _, tl := range []*c19CLayout{native, bpf} {
			cf := map[string]c19Field{}
			tl.flatten("struct dae_param", 0, "", cf, 0)
			if size != tl.structs["struct dae_param"][""].size || packed[""] != size {
				m.Violation("param/literal-size", fmt.Sprintf("PARAM literal: in-memory %d bytes, packed %d bytes; C struct dae_param %d", size, packed[""], tl.structs["struct dae_param"][""].size), nil)
			}
			for p, c := range cf {
				m.Eval(1)
				g, ok := lit[p]
				if !ok {
					m.Violation("param/literal-missing-field/"+p, "PARAM literal in fullLoadBpfObjects lacks field "+p+" of struct dae_param", nil)
					continue
				}
				if g != c || packed[p] != c.off {
					m.Violation("param/literal-field/"+p, fmt.Sprintf("PARAM literal field %s: Go (size %d, offset %d, packed offset %d) vs C (size %d, offset %d)", p, g.size, g.off, packed[p], c.size, c.off), nil)
				}
			}
			if len(lit) != len(cf) {
				m.Violation("param/literal-extra-field", fmt.Sprintf("PARAM literal has %d fields, struct dae_param %d", len(lit), len(cf)), nil)
			}
		}
		m.Count("param_literal_fields", int64(len(lit)))
		m.Distinct("param-literal")
	}

	c19CheckConsts(m, native)
	c19CheckNamePairedConsts(m, native)
	c19CheckGenerator(m)
	if part != "stub" {
		c19KeysInAction(m, k, r)
		c19SlotsInAction(m, k, r, native)
		c19AnswerKeysInAction(m, k, r)
		c19PnameWidths(m, k, r)
	}
	m.Set("programs", programs)
	m.Set("disagreements_checked", int(m.Counter("struct_pairs_compared")+m.Counter("constants_compared")+m.Counter("tuple_keys_compared")+m.Counter("connectivity_slots_probed")))
	m.Require("struct_pairs_compared", "constants_compared", "generated_files_identical", "param_literal_fields", "sentinel_structs", "go_hostlayout_types", "damaged_specs_tried", "constants_paired_by_name")
	if part != "stub" {
		// every known by-slot consumer exercised end to end, the entities told apart by distinct non-zero values
		m.Require("slot_consumer_exercised/bpf_stats_map", "stats_reads_judged_distinct_nonzero", "stats_overflows_caused/proto6", "stats_overflows_caused/proto17",
			"slot_consumer_exercised/listen_socket_map", "slot_consumer_exercised/lpm_array_map", "slot_consumer_exercised/routing_meta_map", "slot_consumer_exercised/routing_map",
			"routing_installs_crossing_the_ring_end")
		m.Require("tuple_keys_compared", "connectivity_slots_probed", "domain_keys_probed", "lpm_keys_probed", "lpm_key_bytes_compared", "tuple_keys_compared_reverse_hooks", "entry_point_lookups_hit/v4-after-v6", "entry_point_lookups_hit/v6-after-v4", "entry_point_lookups_hit/v4-after-v4")
		// domain-table keys over whole answers: every record-order shape, several entries per goroutine, both oracle branches
		m.Require("answer_entries_processed", "answer_shapes/v4-after-v6", "answer_shapes/v6-after-v4", "answer_shapes/v4-after-v4", "answer_shapes/v6-after-v6", "answer_shapes/mapped",
			"answer_shapes/duplicates", "answer_shapes/non-address-record-between", "answer_permutation_sets_exhausted", "answer_goroutines_with_several_entries", "answer_entries_with_5_to_8_records",
			"answer_entries_rewritten_with_another_answer", "answer_removals_checked", "answer_keys_compared_with_kernel", "answer_frames_routed_by_installed_key", "answer_tables_empty_after_removal")
		// fixed-width name field: every length class around the width, by bytes and through route()
		m.Require("pname_values_compared/shorter", "pname_values_compared/width-2", "pname_values_compared/width-1", "pname_values_compared/width+0", "pname_values_compared/width+1", "pname_values_compared/width+2",
			"pname_values_compared/much-longer", "pname_rules_hit_in_route")
	}
	m.Done(t)
}

func unsafeBytes(pv reflect.Value) []byte {
	return reflect.NewAt(reflect.ArrayOf(int(pv.Elem().Type().Size()), reflect.TypeOf(byte(0))), pv.UnsafePointer()).Elem().Slice(0, int(pv.Elem().Type().Size())).Bytes()
}

// ---- keys in action (real build only: the stub build stubs the encoders) -----------

func c19KeysInAction(m *vk.Monitor, k *vk.KS, r interface{ IntN(int) int }) {
	name2id, _ := verifOutboundTable()
	// one rule program: everything to g1, domain rule to g2, lpm rule to g3
	p := &vk.RProg{Rules: []vk.RRule{
		{Conds: []vk.RCond{{Func: "domain", Params: []vk.RParam{{Key: "full", Val: "key.example"}}}}, Out: vk.ROut{Name: verifGroups[2]}},
		{Conds: []vk.RCond{{Func: "dip", Params: []vk.RParam{{Val: "203.0.113.0/24"}, {Val: "2001:db8:77::/48"}}}}, Out: vk.ROut{Name: verifGroups[3]}},
	}, Fallback: vk.ROut{Name: verifGroups[1]}}
	rules, fb, err := verifParseRouting(p.Text())
	if err != nil {
		m.Inconclusive("keys: %v", err)
		return
	}
	b, err := verifBuildMatcher(rules, fb, verifProductionOptimizers()...)
	if err != nil {
		m.Inconclusive("keys: %v", err)
		return
	}
	k.Reset()
	var prm bpfDaeParam
	prm.Dae0Ifindex = 9
	prm.ControlPlanePid = 1
	k.SetParam(verifRaw(&prm))
	k.SetTime(5000e9)
	if _, err := verifLoadProgram(k, b.snap); err != nil {
		m.Violation("keys/load", err.Error(), nil)
		return
	}
	ent := c19NewEntryMaps()
	if ent == nil {
		m.Count("entry_point_real_maps_unavailable", 1)
	} else {
		defer ent.close()
	}
	// (1) flow-tuple keys: frames through the LAN hook; the key the C side used for
	// conn_state_map / routing_handoff_map must equal bpfTuplesKeyFromAddrPorts byte for byte.
	for i := 0; i < vk.Scale(2000, 20000); i++ {
		v6 := r.IntN(2) == 0
		mk := func() netip.Addr {
			if v6 {
				var a [16]byte
				for j := range a {
					a[j] = byte(r.IntN(256))
				}
				a[0] = 0x20
				return netip.AddrFrom16(a)
			}
			return netip.AddrFrom4([4]byte{byte(1 + r.IntN(223)), byte(r.IntN(256)), byte(r.IntN(256)), byte(r.IntN(256))})
		}
		f := vk.Frame{L2: true, Src: mk(), Dst: mk(), Sport: uint16(r.IntN(65536)), Dport: uint16(1 + r.IntN(65535)), Payload: 10,
			SrcMac: [6]byte{2, 0, 0, 0, 0, byte(r.IntN(256))}}
		if f.Dport == 53 {
			f.Dport = 54
		}
		if r.IntN(2) == 0 {
			f.Proto, f.Syn = 6, true
		} else {
			f.Proto = 17
		}
		data := f.Bytes()
		k.QMapUpdate("outbound_connectivity_map", verifU32(outboundConnectivityMapKey(name2id[verifGroups[1]], c03NetworkType(f.Proto == 17, v6))), verifU32(1), 0)
		k.QPkt(&vk.PktReq{Hook: vk.HookLanIngressL2, Protocol: f.SkbProtocol(), Ifindex: 2, PullMode: vk.PullForceOK, HeadLen: uint32(len(data)), Data: data})
		res := k.Sync()
		if k.Dead() != nil {
			m.Violation("keys/sanitizer", k.Dead().Error(), nil)
			return
		}
		pr := res[len(res)-1].Pkt
		gk := bpfTuplesKeyFromAddrPorts(netip.AddrPortFrom(f.Src, f.Sport), netip.AddrPortFrom(f.Dst, f.Dport), f.Proto)
		found := 0
		for _, e := range pr.Events {
			if e.Kind == 1 && len(e.Key) == len(verifRaw(&gk)) {
				found++
				m.Eval(1)
				if !bytes.Equal(e.Key, verifRaw(&gk)) {
					m.Violation("keys/tuple", fmt.Sprintf("flow key used by the TC program %x != bpfTuplesKeyFromAddrPorts %x", e.Key, verifRaw(&gk)), map[string]any{"frame": f.String()})
					return
				}
			}
		}
		if found > 0 {
			m.Count("tuple_keys_compared", int64(found))
			m.Distinct(fmt.Sprintf("tuplekey|v6=%v|proto=%d", v6, f.Proto))
		}
		// the production READER of these entries: what the TC program stored under its key is copied
		// verbatim into real kernel maps and looked up through controlPlaneCore.RetrieveRoutingResult,
		// flow after flow on one goroutine with the families interleaved (whatever the reader keeps
		// between two calls must not leak into the next key)
		if ent != nil {
			c19EntryLookup(m, k, ent, pr.Events, f)
		}
		// the reverse-direction hooks build their keys on another code path (get_tuples on a stack
		// struct + copy_reversed_tuples): a connection opened from the WAN side is tracked under the
		// key of its reply direction (local -> remote)
		wf := vk.Frame{L2: true, Src: mk(), Dst: mk(), Sport: uint16(1024 + r.IntN(60000)), Dport: uint16(1024 + r.IntN(60000)), Payload: 10, Proto: f.Proto, Syn: f.Proto == 6,
			SrcMac: [6]byte{2, 0, 0, 0, 1, byte(r.IntN(256))}}
		wdata := wf.Bytes()
		for _, hook := range []uint8{vk.HookWanIngressL2, vk.HookLanEgressL2} {
			wf.Sport++
			wdata = wf.Bytes()
			k.QPkt(&vk.PktReq{Hook: hook, Protocol: wf.SkbProtocol(), Ifindex: 3, PullMode: vk.PullForceOK, HeadLen: uint32(len(wdata)), Data: wdata})
			res := k.Sync()
			if k.Dead() != nil {
				m.Violation("keys/sanitizer", k.Dead().Error(), nil)
				return
			}
			rk := bpfTuplesKeyFromAddrPorts(netip.AddrPortFrom(wf.Dst, wf.Dport), netip.AddrPortFrom(wf.Src, wf.Sport), wf.Proto)
			for _, e := range res[len(res)-1].Pkt.Events {
				if e.Kind == 1 && len(e.Key) == len(verifRaw(&rk)) {
					m.Eval(1)
					if !bytes.Equal(e.Key, verifRaw(&rk)) {
						m.Violation("keys/tuple-reverse-hook", fmt.Sprintf("flow key written by the reverse-direction TC program (hook %d) %x != bpfTuplesKeyFromAddrPorts of the reply direction %x", hook, e.Key, verifRaw(&rk)), map[string]any{"frame": wf.String()})
						return
					}
					m.Count("tuple_keys_compared_reverse_hooks", 1)
					m.Distinct(fmt.Sprintf("tuplekey-rev|hook%d|v6=%v|proto=%d", hook, v6, wf.Proto))
				}
			}
		}
	}
	// (2) connectivity slots by behaviour: clear exactly the slot Go computes; the frame for
	// that (outbound, type) must be dropped and the neighbouring types must pass.
	types := []struct {
		udp, v6 bool
	}{{false, false}, {false, true}, {true, false}, {true, true}}
	for ob := 2; ob < int(consts.OutboundUserDefinedMax)+1; ob++ {
		verifGroupIDs = []uint8{2, uint8(ob), 250, 251}
		if ob == 2 {
			verifGroupIDs = []uint8{3, 2, 250, 251}
		}
		if ob == 250 || ob == 251 {
			verifGroupIDs = []uint8{3, uint8(ob), 4, 5}
		}
		rules, fb, _ := verifParseRouting(p.Text())
		b, err := verifBuildMatcher(rules, fb, verifProductionOptimizers()...)
		if err != nil {
			m.Violation("keys/build", err.Error(), nil)
			break
		}
		if _, err := verifLoadProgram(k, b.snap); err != nil {
			m.Violation("keys/load", err.Error(), nil)
			break
		}
		for ti, ty := range types {
			for tj, other := range types {
				v := uint32(1)
				if ti == tj {
					v = 0
				}
				k.QMapUpdate("outbound_connectivity_map", verifU32(outboundConnectivityMapKey(uint8(ob), c03NetworkType(other.udp, other.v6))), verifU32(v), 0)
			}
			dnsT := &dialer.NetworkType{L4Proto: consts.L4ProtoStr_UDP, IpVersion: consts.IpVersionStr_4, IsDns: true, UdpHealthDomain: dialer.UdpHealthDomainDns}
			if ty.v6 {
				dnsT.IpVersion = consts.IpVersionStr_6
			}
			k.QMapUpdate("outbound_connectivity_map", verifU32(outboundConnectivityMapKey(uint8(ob), dnsT)), verifU32(1), 0)
			for tj, other := range types {
				f := vk.Frame{L2: true, Sport: 1000 + uint16(ob), Dport: 8080, Payload: 4}
				if other.v6 {
					f.Src, f.Dst = netip.MustParseAddr("fd00::5"), netip.MustParseAddr("fd00::6")
				} else {
					f.Src, f.Dst = netip.MustParseAddr("10.9.9.5"), netip.MustParseAddr("10.9.9.6")
				}
				if other.udp {
					f.Proto = 17
				} else {
					f.Proto, f.Syn = 6, true
				}
				data := f.Bytes()
				k.QPkt(&vk.PktReq{Hook: vk.HookLanIngressL2, Protocol: f.SkbProtocol(), Ifindex: 2, PullMode: vk.PullForceOK, HeadLen: uint32(len(data)), Data: data})
				_ = tj
			}
			res := k.Sync()
			if k.Dead() != nil {
				m.Violation("keys/sanitizer", k.Dead().Error(), nil)
				return
			}
			pk := 0
			for _, q := range res {
				if q.Op != 10 {
					continue
				}
				m.Eval(1)
				wantShot := pk == ti
				gotShot := q.Pkt.Rc == c03ActShot
				if wantShot != gotShot {
					m.Violation("keys/connectivity-slot", fmt.Sprintf("outbound %d: cleared the slot Go computes for type %+v; frame of type %+v got rc=%d (dropped=%v, expected dropped=%v)", ob, ty, types[pk], q.Pkt.Rc, gotShot, wantShot), nil)
					verifGroupIDs = nil
					return
				}
				pk++
			}
			m.Count("connectivity_slots_probed", 1)
			m.Distinct(fmt.Sprintf("connslot|udp=%v|v6=%v", ty.udp, ty.v6))
		}
	}
	verifGroupIDs = nil
	// (3) domain-table key and LPM key through route()
	rules, fb, _ = verifParseRouting(p.Text())
	b, _ = verifBuildMatcher(rules, fb, verifProductionOptimizers()...)
	k.Reset()
	if _, err := verifLoadProgram(k, b.snap); err != nil {
		m.Violation("keys/load", err.Error(), nil)
		return
	}
	_, id2name := verifOutboundTable()
	for i := 0; i < 400; i++ {
		v6 := r.IntN(2) == 0
		var dst netip.Addr
		inLpm := r.IntN(2) == 0
		switch {
		case v6 && inLpm:
			dst = netip.AddrFrom16([16]byte{0x20, 0x01, 0x0d, 0xb8, 0, 0x77, byte(r.IntN(256)), byte(r.IntN(256)), 15: byte(r.IntN(256))})
		case v6:
			dst = netip.AddrFrom16([16]byte{0x20, 0x01, 0x0d, 0xb8, 0, 0x78, byte(r.IntN(256)), 15: byte(r.IntN(256))})
		case inLpm:
			dst = netip.AddrFrom4([4]byte{203, 0, 113, byte(r.IntN(256))})
		default:
			dst = netip.AddrFrom4([4]byte{203, 0, 114, byte(r.IntN(256))})
		}
		withDomain := r.IntN(2) == 0
		pk := vk.RPkt{L4: "tcp", Src: netip.AddrPortFrom(dst, 999), Dst: netip.AddrPortFrom(dst, 443)}
		if withDomain {
			pk.Domain = "key.example"
			k.QMapUpdate("domain_routing_map", verifRaw(ptr(common.Ipv6ByteSliceToUint32Array(addrSlice(dst)))), verifDomainVal(b.matcher.domainMatcher.MatchDomainBitmap(pk.Domain)), 0)
		} else {
			k.QMapDelete("domain_routing_map", verifRaw(ptr(common.Ipv6ByteSliceToUint32Array(addrSlice(dst)))))
		}
		rq := verifRouteReq(pk, false)
		k.QRoute(&rq)
		res := k.Sync()
		got := id2name[uint8(res[len(res)-1].Route&0xff)]
		want := vk.RefRoute(p, pk).Outbound
		m.Eval(1)
		if got != want {
			kind := "lpm"
			if withDomain {
				kind = "domain"
			}
			m.Violation("keys/"+kind, fmt.Sprintf("route() with Go-encoded %s key: got %s want %s (dst %v)", kind, got, want, dst), nil)
			return
		}
		if withDomain {
			m.Count("domain_keys_probed", 1)
		} else {
			m.Count("lpm_keys_probed", 1)
		}
		m.Distinct(fmt.Sprintf("routekey|v6=%v|lpm=%v|domain=%v", v6, inLpm, withDomain))
	}
	_ = binary.LittleEndian
	// (4) prefix keys, byte level: the kernel looks every address up as 16 bytes in network order
	// (IPv4 embedded as ::ffff:a.b.c.d) with prefixlen 128, so the entry for a prefix of length n
	// must carry prefixlen n (+96 for IPv4) in native order followed by those 16 bytes; bits past
	// the prefix length are ignored by the trie and are not compared. Every length of both
	// families, the mapped forms and the zero-length prefixes.
	var prefixes []netip.Prefix
	for n := 0; n <= 32; n++ {
		prefixes = append(prefixes, netip.PrefixFrom(netip.AddrFrom4([4]byte{203, 0, 113, 0xa5}), n), netip.PrefixFrom(netip.AddrFrom4([4]byte{0, 0, 0, 0}), n))
	}
	for n := 0; n <= 128; n++ {
		prefixes = append(prefixes, netip.PrefixFrom(netip.MustParseAddr("2001:db8:77:1:a5a5:5a5a:ffff:1"), n))
	}
	for _, n := range []int{0, 1, 95, 96, 97, 104, 120, 127, 128} {
		prefixes = append(prefixes, netip.PrefixFrom(netip.MustParseAddr("::ffff:198.51.100.7"), n), netip.PrefixFrom(netip.MustParseAddr("::"), n))
	}
	for _, pf := range prefixes {
		key := cidrToBpfLpmKey(pf)
		raw := verifRaw(&key)
		m.Eval(1)
		wantLen := pf.Bits()
		if pf.Addr().Is4() {
			wantLen += 96
		}
		a16 := pf.Addr().As16()
		bad := ""
		if len(raw) != 20 {
			bad = fmt.Sprintf("key is %d bytes, struct lpm_key is 20", len(raw))
		} else if got := binary.NativeEndian.Uint32(raw[:4]); int(got) != wantLen {
			bad = fmt.Sprintf("prefixlen %d, want %d", got, wantLen)
		} else {
			for i := 0; i < wantLen; i++ {
				if (raw[4+i/8]>>(7-i%8))&1 != (a16[i/8]>>(7-i%8))&1 {
					bad = fmt.Sprintf("bit %d of the address differs from the 16-byte network-order form %x", i, a16)
					break
				}
			}
		}
		if bad != "" {
			m.Violation("keys/lpm-bytes", fmt.Sprintf("cidrToBpfLpmKey(%v) = % x: %s", pf, raw, bad), map[string]any{"prefix": pf.String(), "key_hex": fmt.Sprintf("%x", raw)})
			return
		}
		m.Count("lpm_key_bytes_compared", 1)
		m.Distinct(fmt.Sprintf("lpmbytes|v4=%v|mapped=%v|len%d", pf.Addr().Is4(), pf.Addr().Is4In6(), pf.Bits()))
	}
}

func ptr[T any](v T) *T { return &v }

// c19GeneratorMalformedSpecs: the Go constants and the C header come from ONE spec; whatever the
// generator does with a damaged spec (an element blanked, not an identifier, duplicated, dropped,
// a value out of range), it must not hand out two files that number the same name differently.
// Refusing the spec is fine; a Go file that does not type-check is counted, not judged.
func c19GeneratorMalformedSpecs(m *vk.Monitor, bin, tmp string, spec []byte) {
	var doc map[string]any
	if err := json.Unmarshal(spec, &doc); err != nil {
		m.Inconclusive("spec: %v", err)
		return
	}
	clone := func() map[string]any {
		var d map[string]any
		b, _ := json.Marshal(doc)
		_ = json.Unmarshal(b, &d)
		return d
	}
	type mut struct {
		what string
		doc  map[string]any
	}
	var muts []mut
	lists := make([]string, 0, len(doc))
	for k := range doc {
		lists = append(lists, k)
	}
	sort.Strings(lists)
	for _, ln := range lists {
		l, ok := doc[ln].([]any)
		if !ok {
			continue
		}
		for _, pos := range []int{0, 1, len(l) / 2, len(l) - 2, len(l) - 1} {
			if pos < 0 || pos >= len(l) {
				continue
			}
			for _, bad := range []string{"", "Source-Mac", " ", "9lives"} {
				d := clone()
				dl := d[ln].([]any)
				switch e := dl[pos].(type) {
				case string:
					dl[pos] = bad
				case map[string]any:
					e["name"] = bad
				}
				muts = append(muts, mut{fmt.Sprintf("%s[%d] name=%q", ln, pos, bad), d})
			}
			d := clone()
			dl := d[ln].([]any)
			d[ln] = append(append([]any{}, dl[:pos]...), dl[pos+1:]...)
			muts = append(muts, mut{fmt.Sprintf("%s[%d] dropped", ln, pos), d})
			if pos+1 < len(l) {
				d := clone()
				dl := d[ln].([]any)
				dl[pos+1] = dl[pos]
				muts = append(muts, mut{fmt.Sprintf("%s[%d] duplicated over its successor", ln, pos), d})
			}
		}
	}
	reC := regexp.MustCompile(`(?m)^\s*(?:#define\s+)?([A-Za-z_][A-Za-z0-9_]*)\s*=?\s+(0x[0-9A-Fa-f]+|[0-9]+),?\s*$`)
	m.Count("damaged_specs_tried", int64(len(muts)))
	for i, mu := range muts {
		root := filepath.Join(tmp, fmt.Sprintf("mal%d", i))
		_ = os.MkdirAll(filepath.Join(root, "common", "consts"), 0o755)
		_ = os.MkdirAll(filepath.Join(root, "control", "kern"), 0o755)
		_ = os.WriteFile(filepath.Join(root, "go.mod"), []byte("module x\n"), 0o644)
		b, _ := json.MarshalIndent(mu.doc, "", "  ")
		_ = os.WriteFile(filepath.Join(root, "common", "consts", "ebpf_sync_spec.json"), b, 0o644)
		run := exec.Command(bin)
		run.Dir = root
		out, err := run.CombinedOutput()
		m.Eval(1)
		if err != nil {
			m.Count("generator_refused_damaged_spec", 1)
			m.Distinct("generator-damaged|refused|" + strings.SplitN(mu.what, "[", 2)[0])
			continue
		}
		goSrc, e1 := os.ReadFile(filepath.Join(root, "common/consts/ebpf_generated.go"))
		hdr, e2 := os.ReadFile(filepath.Join(root, "control/kern/ebpf_sync_defs.h"))
		if e1 != nil || e2 != nil {
			m.Count("generator_accepted_damaged_spec_without_output", 1)
			continue
		}
		m.Count("generator_accepted_damaged_spec", 1)
		fset := token.NewFileSet()
		f, perr := parser.ParseFile(fset, "ebpf_generated.go", goSrc, 0)
		var goVals map[string]uint64
		if perr == nil {
			nerr := 0
			conf := types.Config{Error: func(error) { nerr++ }}
			pkg, _ := conf.Check("consts", fset, []*ast.File{f}, nil)
			if pkg != nil && nerr == 0 { // a Go file the compiler rejects cannot reach a build: not judged
				goVals = map[string]uint64{}
				for _, n := range pkg.Scope().Names() {
					if c, ok := pkg.Scope().Lookup(n).(*types.Const); ok {
						if v, ok := constant.Uint64Val(constant.ToInt(c.Val())); ok {
							goVals[n] = v
						}
					}
				}
			}
		}
		if goVals == nil {
			m.Count("generator_output_go_file_does_not_compile", 1)
			continue
		}
		cVals := map[string]uint64{}
		for _, mm := range reC.FindAllStringSubmatch(string(hdr), -1) {
			if v, err := strconv.ParseUint(mm[2], 0, 64); err == nil {
				cVals[mm[1]] = v
			}
		}
		compared := 0
		for n, cv := range cVals {
			gv, ok := goVals[n]
			if !ok {
				continue // the two files name some constants differently; only common names are judged
			}
			compared++
			if gv != cv {
				m.Violation("generator/damaged-spec-go-and-c-disagree", fmt.Sprintf("from one spec (%s) gen_ebpf_sync wrote %s = %d into the Go constants and %s = %d into the C header", mu.what, n, gv, n, cv),
					map[string]any{"damage": mu.what, "spec": string(b), "go": string(goSrc), "header": string(hdr), "generator_output": string(out)})
				return
			}
		}
		m.Count("damaged_spec_common_constants_compared", int64(compared))
		m.Distinct("generator-damaged|accepted|" + strings.SplitN(mu.what, "[", 2)[0])
	}
}

// c19EntryMaps are real kernel maps with the key/value sizes of conn_state_map and
// routing_handoff_map behind a controlPlaneCore, so that RetrieveRoutingResult runs unmodified.
type c19EntryMaps struct {
	conn, handoff *ebpf.Map
	core          *controlPlaneCore
}

func c19NewEntryMaps() *c19EntryMaps {
	_ = rlimit.RemoveMemlock()
	var k bpfTuplesKey
	var cs bpfConnState
	var he bpfRoutingHandoffEntry
	// value sizes as the ebpf library marshals these Go types (the declarations synthesised for this
	// build carry no explicit tail padding, so that is what Lookup can decode); the keys are what is judged
	conn, err := ebpf.NewMap(&ebpf.MapSpec{Name: "c19_conn_state", Type: ebpf.Hash, KeySize: uint32(unsafe.Sizeof(k)), ValueSize: uint32(binary.Size(cs)), MaxEntries: 4096})
	if err != nil {
		return nil
	}
	handoff, err := ebpf.NewMap(&ebpf.MapSpec{Name: "c19_handoff", Type: ebpf.Hash, KeySize: uint32(unsafe.Sizeof(k)), ValueSize: uint32(binary.Size(he)), MaxEntries: 4096})
	if err != nil {
		_ = conn.Close()
		return nil
	}
	core := &controlPlaneCore{log: verifQuietLog()}
	core.bpf.Store(&bpfObjects{bpfMaps: bpfMaps{ConnStateMap: conn, RoutingHandoffMap: handoff}})
	return &c19EntryMaps{conn: conn, handoff: handoff, core: core}
}

func (e *c19EntryMaps) close() { _ = e.conn.Close(); _ = e.handoff.Close() }

func c19EntryLookup(m *vk.Monitor, k *vk.KS, ent *c19EntryMaps, events []vk.KEvent, f vk.Frame) {
	var zero bpfTuplesKey
	ksz := int(unsafe.Sizeof(zero))
	expect := false
	var stored []string
	for _, e := range events {
		if e.Kind != 1 || len(e.Key) != ksz {
			continue
		}
		if val, ok := k.MapGet("conn_state_map", e.Key); ok && len(val) == int(unsafe.Sizeof(bpfConnState{})) {
			if err := ent.conn.Update(e.Key, val[:ent.conn.ValueSize()], ebpf.UpdateAny); err != nil {
				m.Count("entry_point_real_map_update_failed", 1)
				return
			}
			cs := (*bpfConnState)(unsafe.Pointer(&val[0]))
			if cs.Meta.Data.HasRouting != 0 {
				expect = true
				stored = append(stored, fmt.Sprintf("conn_state_map[%x] outbound=%d mark=%d", e.Key, cs.Meta.Data.Outbound, cs.Meta.Data.Mark))
			}
		}
		if val, ok := k.MapGet("routing_handoff_map", e.Key); ok && len(val) == int(unsafe.Sizeof(bpfRoutingHandoffEntry{})) {
			// the entry's age is judged against the machine's monotonic clock: stamp it as just seen
			if now, err := monotonicNowNano(); err == nil {
				(*bpfRoutingHandoffEntry)(unsafe.Pointer(&val[0])).LastSeenNs = now
			}
			if err := ent.handoff.Update(e.Key, val[:ent.handoff.ValueSize()], ebpf.UpdateAny); err != nil {
				m.Count("entry_point_real_map_update_failed", 1)
				return
			}
			expect = true
			stored = append(stored, fmt.Sprintf("routing_handoff_map[%x]", e.Key))
		}
	}
	if !expect {
		m.Count("entry_point_flows_without_stored_routing", 1)
		return
	}
	m.Eval(1)
	res, err := ent.core.RetrieveRoutingResult(netip.AddrPortFrom(f.Src, f.Sport), netip.AddrPortFrom(f.Dst, f.Dport), f.Proto)
	fam := "v4"
	if f.Src.Is6() {
		fam = "v6"
	}
	if err != nil || res == nil {
		m.Violation("keys/entry-point-lookup-miss", fmt.Sprintf("RetrieveRoutingResult does not find the routing result the TC program stored for this flow: %v", err),
			map[string]any{"frame": f.String(), "stored": stored, "previous_lookup_family": c19PrevEntryFamily})
		c19PrevEntryFamily = fam
		return
	}
	m.Count("entry_point_lookups_hit/"+fam+"-after-"+c19PrevEntryFamily, 1)
	m.Distinct("entry-lookup|" + fam + "-after-" + c19PrevEntryFamily + fmt.Sprintf("|proto=%d", f.Proto))
	c19PrevEntryFamily = fam
}

var c19PrevEntryFamily = "none"

func addrSlice(a netip.Addr) []byte {
	b := a.As16()
	return b[:]
}
