package control

// C03 monitor: the TC hook bodies of control/kern/tproxy.c, compiled natively
// (ASan+UBSan) and driven with frame histories, against a reference flow
// table written from the property statement. Three children run in lockstep
// with different header-parsing paths forced; they must agree on everything.

import (
	"bytes"
	"encoding/binary"
	"fmt"
	"math/rand/v2"
	"net/netip"
	"strings"
	"testing"
	"unsafe"

	"github.com/daeuniverse/dae/common/consts"
	"github.com/daeuniverse/dae/component/outbound/dialer"
	vk "github.com/daeuniverse/dae/verifkit"
)

type c03Flow struct {
	dec       vk.RDecision
	hasDec    bool
	closing   bool
	last      uint64
	wanOrigin bool
}

type c03Cookie struct {
	pid   uint32
	pname string
}

type c03World struct {
	t                     *testing.T
	m                     *vk.Monitor
	r                     *rand.Rand
	ks                    [3]*vk.KS
	prog                  *vk.RProg
	built                 *verifBuilt
	domains               map[netip.Addr]string
	dead                  map[uint32]bool // connectivity keys (Go formula) currently down
	now                   uint64
	flows                 map[string]*c03Flow
	cookies               map[uint64]c03Cookie
	sockMark              uint32
	hist                  []string // textual history (witness)
	lastConn, lastHandoff []byte
	pressure              bool
	failed                bool
	cpu                   uint32  // simulated CPU the next frame runs on
	cpuUsed               [4]bool // CPUs that ran a frame since the last Reset (their per-CPU scratch is no longer all zero)
	connCap               uint32  // conn_state_map capacity of this program
}

var c03ModeNames = [3]string{"kernel-pull", "force-fast", "force-slow"}

func (w *c03World) log(format string, a ...any) {
	w.hist = append(w.hist, fmt.Sprintf("@%d.%03ds ", w.now/1e9, (w.now/1e6)%1000)+fmt.Sprintf(format, a...))
}

func (w *c03World) violation(sig, what string) {
	if w.failed {
		return
	}
	w.failed = true
	rep := ""
	for i, k := range w.ks {
		if k.Dead() != nil {
			rep += fmt.Sprintf("[%s] %v\n", c03ModeNames[i], k.Dead())
		}
	}
	w.m.Violation(sig, what, map[string]any{"rules": w.prog.Text(), "history": w.hist, "sanitizer": rep,
		"kernsim_replay": w.ks[0].Replay})
}

func (w *c03World) anyDead() bool {
	for i, k := range w.ks {
		if k.Dead() != nil {
			w.violation("sanitizer/"+c03ModeNames[i], "kernsim child died (ASan/UBSan report or crash): "+firstLine(k.Dead().Error()))
			return true
		}
	}
	return false
}

func firstLine(s string) string {
	for _, l := range strings.Split(s, "\n") {
		if strings.Contains(l, "ERROR") || strings.Contains(l, "runtime error") {
			return l
		}
	}
	if i := strings.IndexByte(s, '\n'); i > 0 {
		return s[:i]
	}
	return s
}

// ---- world set-up ----------------------------------------------------------

func (w *c03World) setParam() {
	var p bpfDaeParam
	p.TproxyPort = 12345
	p.ControlPlanePid = c03DaePid
	p.Dae0Ifindex = c03Dae0Ifindex
	p.Dae0peerMac = [6]uint8{2, 0, 0, 0, 0, 9}
	p.DaeSocketMark = w.sockMark
	raw := verifRaw(&p)
	for _, k := range w.ks {
		k.QSetParam(raw)
		for _, r := range k.Sync() {
			if r.Op == 7 && uintptr(r.Rc) != unsafe.Sizeof(p) {
				w.violation("param-size", fmt.Sprintf("sizeof(struct dae_param)=%d but Go bpfDaeParam=%d", r.Rc, unsafe.Sizeof(p)))
			}
		}
	}
}

func (w *c03World) loadRules(p *vk.RProg) bool {
	rules, fb, err := verifParseRouting(p.Text())
	if err != nil {
		return false
	}
	b, err := verifBuildMatcher(rules, fb, verifProductionOptimizers()...)
	if err != nil {
		return false
	}
	start := globalNextLpmIndex.Load()
	for _, k := range w.ks {
		globalNextLpmIndex.Store(start)
		if _, err := verifLoadProgram(k, b.snap); err != nil {
			w.violation("load-error", err.Error())
			return false
		}
	}
	w.prog, w.built = p, b
	w.installDomains()
	w.log("RULES loaded:\n%s", p.Text())
	return true
}

func (w *c03World) installDomains() {
	for a, d := range w.domains {
		key := verifDomainKey(a.As16())
		for _, k := range w.ks {
			if d == "" {
				k.QMapDelete("domain_routing_map", key)
			} else {
				k.QMapUpdate("domain_routing_map", key, verifDomainVal(w.built.matcher.domainMatcher.MatchDomainBitmap(d)), 0)
			}
		}
	}
}

func (w *c03World) setDomain(a netip.Addr, d string) {
	w.domains[a] = d
	w.installDomains()
	w.log("DOMAIN %v -> %q", a, d)
}

func (w *c03World) setAlive(outbound uint8, udp, v6, alive bool) {
	key := outboundConnectivityMapKey(outbound, c03NetworkType(udp, v6))
	v := uint32(0)
	if alive {
		v = 1
		delete(w.dead, key)
	} else {
		w.dead[key] = true
	}
	for _, k := range w.ks {
		k.QMapUpdate("outbound_connectivity_map", verifU32(key), verifU32(v), 0)
	}
	w.log("ALIVE outbound=%d udp=%v v6=%v -> %v (key %d)", outbound, udp, v6, alive, key)
}

// initAlive mirrors what the dialer groups' initial alive callbacks do at start-up:
// every (group, network type) slot is marked alive.
func (w *c03World) initAlive() {
	name2id, _ := verifOutboundTable()
	for _, id := range name2id { // direct and block are dialer groups too
		for _, udp := range []bool{false, true} {
			for _, v6 := range []bool{false, true} {
				nts := []*dialer.NetworkType{c03NetworkType(udp, v6)}
				if udp {
					dns := c03NetworkType(udp, v6)
					dns.IsDns, dns.UdpHealthDomain = true, dialer.UdpHealthDomainDns
					nts = append(nts, dns)
				}
				for _, nt := range nts {
					key := outboundConnectivityMapKey(id, nt)
					for _, k := range w.ks {
						k.QMapUpdate("outbound_connectivity_map", verifU32(key), verifU32(1), 0)
					}
				}
			}
		}
	}
	for _, k := range w.ks {
		k.Sync()
	}
}

func (w *c03World) setCookie(cookie uint64, pid uint32, pname string) {
	var v bpfPidPname
	v.Pid = pid
	v.LastSeenNs = w.now
	for i := 0; i < len(pname) && i < 16; i++ {
		v.Pname[i] = int8(pname[i])
	}
	var kb [8]byte
	binary.NativeEndian.PutUint64(kb[:], cookie)
	for _, k := range w.ks {
		k.QMapUpdate("cookie_pid_map", kb[:], verifRaw(&v), 0)
	}
	w.cookies[cookie] = c03Cookie{pid, pname}
}

// setCPU moves the following frames to another simulated CPU: per-CPU array maps (the
// programs' scratch areas) keep one copy per CPU, exactly as in the kernel.
func (w *c03World) setCPU(c uint32) {
	if c == w.cpu {
		return
	}
	w.cpu = c
	for _, k := range w.ks {
		k.QSetCPU(c)
	}
	w.log("CPU -> %d", c)
}

func (w *c03World) advance(ns uint64) {
	w.now += ns
	for _, k := range w.ks {
		k.QSetTime(w.now)
	}
}

// ---- frames ----------------------------------------------------------------

type c03Step struct {
	hook      uint8 // L2 hook id; L3 variant chosen from the frame
	f         vk.Frame
	cookie    uint64
	mark      uint32
	ingressIf uint32
}

func (w *c03World) run(st *c03Step) (res [3]vk.PktRes, ok bool) {
	data := st.f.Bytes()
	hook := st.hook
	if !st.f.L2 {
		hook++ // *_l3 variant
	}
	for i, k := range w.ks {
		rq := vk.PktReq{Hook: hook, Protocol: st.f.SkbProtocol(), Ifindex: 3, IngressIfindex: st.ingressIf, Mark: st.mark,
			PullMode: uint8(i), HeadLen: uint32(len(data)), Cookie: st.cookie, Data: data}
		k.QPkt(&rq)
		if i == 0 && (st.f.Proto == 6 || st.f.Proto == 17) && st.f.Src.IsValid() {
			key := bpfTuplesKeyFromAddrPorts(netip.AddrPortFrom(st.f.Src, st.f.Sport), netip.AddrPortFrom(st.f.Dst, st.f.Dport), st.f.Proto)
			k.QMapGet("conn_state_map", verifRaw(&key))
			k.QMapGet("routing_handoff_map", verifRaw(&key))
		}
		k.Kick()
	}
	w.lastConn, w.lastHandoff = nil, nil
	for i, k := range w.ks {
		qr := k.Sync()
		for j := range qr {
			if qr[j].Op == 10 {
				res[i] = qr[j].Pkt
				if i == 0 && j+2 < len(qr) && qr[j+1].Op == 4 {
					if qr[j+1].Found {
						w.lastConn = qr[j+1].Val
					}
					if qr[j+2].Found {
						w.lastHandoff = qr[j+2].Val
					}
				}
			} else if qr[j].Op == 2 && qr[j].Rc != 0 {
				w.violation("map-update-rejected", fmt.Sprintf("a map update with Go-encoded bytes was rejected by the C side: rc=%d", qr[j].Rc))
			}
		}
	}
	if w.anyDead() {
		return res, false
	}
	w.cpuUsed[w.cpu&3] = true
	w.m.Eval(1)
	// (g) no verdict depends on the header parsing path
	for i := 1; i < 3; i++ {
		if d := c03Diff(&res[0], &res[i]); d != "" {
			w.log("FRAME hook=%d %s", hook, st.f.String())
			w.violation("parser-path-dependent/"+c03FrameClass(&st.f), fmt.Sprintf("%s and %s disagree: %s", c03ModeNames[0], c03ModeNames[i], d))
			return res, false
		}
	}
	if res[0].SkRefs != 0 {
		w.violation("sock-ref-leak", fmt.Sprintf("socket references acquired and not released: %d", res[0].SkRefs))
		return res, false
	}
	return res, true
}

func c03FrameClass(f *vk.Frame) string {
	s := "v4"
	if f.V6() {
		s = "v6"
	}
	switch f.Proto {
	case 6:
		s += "/tcp"
		if f.Syn {
			s += "S"
		}
		if f.Ack {
			s += "A"
		}
		if f.Fin || f.Rst {
			s += "F"
		}
	case 17:
		s += "/udp"
	default:
		s += fmt.Sprintf("/p%d", f.Proto)
	}
	if f.Truncate > 0 {
		s += "/trunc"
	}
	if len(f.Ext) > 0 {
		s += "/ext"
	}
	if f.FragOff != 0 {
		s += "/frag"
	}
	return s
}

func c03Diff(a, b *vk.PktRes) string {
	switch {
	case a.Rc != b.Rc:
		return fmt.Sprintf("return code %d vs %d", a.Rc, b.Rc)
	case a.Mark != b.Mark:
		return fmt.Sprintf("skb->mark %#x vs %#x", a.Mark, b.Mark)
	case a.Cb0 != b.Cb0 || a.Cb1 != b.Cb1:
		return fmt.Sprintf("cb (%#x,%d) vs (%#x,%d)", a.Cb0, a.Cb1, b.Cb0, b.Cb1)
	case a.Redirected != b.Redirected || a.RedirIf != b.RedirIf || a.RedirFlags != b.RedirFlags:
		return "redirect target differs"
	case !bytes.Equal(a.Out, b.Out):
		return "packet bytes after the program differ"
	case len(a.Events) != len(b.Events):
		return fmt.Sprintf("map mutations: %d vs %d", len(a.Events), len(b.Events))
	}
	for i := range a.Events {
		x, y := a.Events[i], b.Events[i]
		if x.Kind != y.Kind || x.MapID != y.MapID || !bytes.Equal(x.Key, y.Key) || !bytes.Equal(x.Val, y.Val) {
			return fmt.Sprintf("map mutation %d differs (kind %d/%d map %d/%d)", i, x.Kind, y.Kind, x.MapID, y.MapID)
		}
	}
	return ""
}

// ---- reference model ----------------------------------------------------------

func c03Tuple(f *vk.Frame) string {
	return fmt.Sprintf("%d|%v:%d>%v:%d", f.Proto, f.Src, f.Sport, f.Dst, f.Dport)
}
func c03RevTuple(f *vk.Frame) string {
	return fmt.Sprintf("%d|%v:%d>%v:%d", f.Proto, f.Dst, f.Dport, f.Src, f.Sport)
}

func (w *c03World) lookup(key string, tcp bool) *c03Flow {
	st := w.flows[key]
	if st == nil {
		return nil
	}
	timeout := uint64(120e9)
	if tcp && st.closing {
		timeout = 10e9
	}
	if w.now-st.last > timeout {
		delete(w.flows, key)
		return nil
	}
	return st
}

func (w *c03World) decide(f *vk.Frame, wan bool, cookie uint64) vk.RDecision {
	k := vk.RPkt{Src: netip.AddrPortFrom(f.Src, f.Sport), Dst: netip.AddrPortFrom(f.Dst, f.Dport), Dscp: f.Dscp}
	if f.Proto == 6 {
		k.L4 = "tcp"
	} else {
		k.L4 = "udp"
	}
	k.Domain = w.domains[f.Dst]
	if f.L2 {
		k.Mac = f.SrcMac
	}
	if wan {
		if c, ok := w.cookies[cookie]; ok {
			k.Pname = c.pname
		}
	}
	return vk.RefRoute(w.prog, k)
}

type c03Expect struct {
	judge  bool
	class  string // "ok", "shot", "redirect"
	markOK bool   // check skb->mark == mark (LAN direct)
	mark   uint32
	rec    *bpfRoutingResult
	why    string
	kind   string // rule outcome: plain_direct, direct_mark, group, group_down, block, dns, dae_own, wan_origin
}

func (w *c03World) verdict(dec vk.RDecision, f *vk.Frame, wan bool, cookie uint64) c03Expect {
	name2id, _ := verifOutboundTable()
	e := c03Expect{judge: true}
	rec := &bpfRoutingResult{Mark: dec.Mark, Dscp: f.Dscp}
	if dec.Must {
		rec.Must = 1
	}
	if f.L2 {
		rec.Mac = f.SrcMac
	}
	if wan {
		if c, ok := w.cookies[cookie]; ok {
			rec.Pid = c.pid
			rec.Pname = verifPname(c.pname)
		}
	}
	dns := f.Dport == 53
	if dns && !dec.Must {
		rec.Outbound = uint8(consts.OutboundControlPlaneRouting)
		rec.Must = 0
		e.class, e.rec, e.why, e.kind = "redirect", rec, "port-53 not covered by must => control plane", "dns"
		return e
	}
	switch dec.Outbound {
	case "direct":
		if wan && dec.Mark != 0 {
			rec.Outbound = uint8(consts.OutboundDirect)
			e.class, e.rec, e.why, e.kind = "redirect", rec, "locally originated direct traffic needing a mark is handed to dae", "direct_mark"
			return e
		}
		e.class, e.why, e.kind = "ok", "direct", "plain_direct"
		if !wan {
			e.markOK, e.mark = true, dec.Mark
			if dec.Mark != 0 {
				e.kind = "direct_mark"
			}
		}
		return e
	case "block":
		e.class, e.why, e.kind = "shot", "block", "block"
		return e
	}
	id := name2id[dec.Outbound]
	rec.Outbound = id
	key := outboundConnectivityMapKey(id, c03NetworkType(f.Proto == 17, f.V6()))
	if w.dead[key] && !dns {
		e.class, e.why, e.kind = "shot", fmt.Sprintf("group %s health bit down (key %d)", dec.Outbound, key), "group_down"
		return e
	}
	e.class, e.rec, e.why, e.kind = "redirect", rec, "proxy group "+dec.Outbound, "group"
	return e
}

func (w *c03World) isDaeOwn(st *c03Step) bool {
	if c, ok := w.cookies[st.cookie]; ok {
		return c.pid == c03DaePid
	}
	return w.sockMark != 0 && st.mark == w.sockMark
}

// model computes the expectation for a frame at a hook and updates the reference flow table.
func (w *c03World) model(st *c03Step) c03Expect {
	f := &st.f
	tcp := f.Proto == 6
	newSyn := tcp && f.Syn && !f.Ack
	finrst := tcp && (f.Fin || f.Rst)
	shortLived := f.Proto == 17 && (f.Sport == 53 || f.Dport == 53)
	key := c03Tuple(f)
	switch st.hook {
	case vk.HookLanIngressL2, vk.HookWanEgressL2:
		wan := st.hook == vk.HookWanEgressL2
		if wan && st.ingressIf != 0 {
			return c03Expect{} // forwarded traffic on the WAN hook: not covered by the statement
		}
		if wan && (f.Proto == 17 || newSyn) && w.isDaeOwn(st) {
			return c03Expect{judge: true, class: "ok", why: "sent by dae itself", kind: "dae_own"}
		}
		if tcp {
			if !newSyn {
				fs := w.lookup(key, true)
				if fs == nil {
					return c03Expect{} // untracked mid-flow packet: statement silent
				}
				fs.last = w.now
				if finrst {
					fs.closing = true
				}
				if fs.wanOrigin {
					return c03Expect{judge: true, class: "ok", why: "reply of a WAN-originated connection", kind: "wan_origin"}
				}
				if !fs.hasDec {
					return c03Expect{}
				}
				e := w.verdict(fs.dec, f, wan, st.cookie)
				e.why = "later packet follows first decision: " + e.why
				return e
			}
			dec := w.decide(f, wan, st.cookie)
			w.flows[key] = &c03Flow{dec: dec, hasDec: true, last: w.now}
			return w.verdict(dec, f, wan, st.cookie)
		}
		if shortLived {
			return w.verdict(w.decide(f, wan, st.cookie), f, wan, st.cookie)
		}
		fs := w.lookup(key, false)
		if fs != nil {
			fs.last = w.now
			if fs.wanOrigin {
				return c03Expect{judge: true, class: "ok", why: "reply of a WAN-originated flow", kind: "wan_origin"}
			}
			if fs.hasDec {
				e := w.verdict(fs.dec, f, wan, st.cookie)
				e.why = "later packet follows first decision: " + e.why
				return e
			}
		}
		dec := w.decide(f, wan, st.cookie)
		w.flows[key] = &c03Flow{dec: dec, hasDec: true, last: w.now}
		return w.verdict(dec, f, wan, st.cookie)
	case vk.HookWanIngressL2, vk.HookLanEgressL2:
		rk := c03RevTuple(f)
		if tcp {
			if newSyn {
				w.flows[rk] = &c03Flow{wanOrigin: true, last: w.now}
			} else if fs := w.lookup(rk, true); fs != nil {
				fs.last = w.now
				if finrst {
					fs.closing = true
				}
			}
		} else if f.Proto == 17 && !shortLived {
			if fs := w.lookup(rk, false); fs != nil {
				fs.last = w.now
			} else {
				w.flows[rk] = &c03Flow{wanOrigin: true, last: w.now}
			}
		}
	}
	return c03Expect{}
}

func (w *c03World) check(st *c03Step, e c03Expect, res *vk.PktRes) {
	if w.pressure {
		w.m.Count("frames_under_map_pressure", 1)
		for _, ev := range res.Events {
			if ev.Kind == 3 {
				w.m.Count("overflow_events_under_pressure", 1)
			}
		}
		return
	}
	if !e.judge {
		w.m.Count("frames_not_judged", 1)
		return
	}
	w.m.Count("verdict_"+e.class, 1)
	hookName := c03HookName(st.hook)
	w.m.Distinct(fmt.Sprintf("%s|%s|%s|%s", hookName, c03FrameClass(&st.f), e.class, strings.SplitN(e.why, ":", 2)[0]))
	bad, src := w.eval(st, e, res)
	if src != "" {
		w.m.Count("records_recovered_from_"+src, 1)
	}
	if bad != "" {
		w.violation("verdict/"+hookName+"/"+e.class+"/"+strings.SplitN(e.why, ":", 2)[0], bad)
	}
}

func c03HookName(hook uint8) string {
	return map[uint8]string{vk.HookLanIngressL2: "lan_ingress", vk.HookWanEgressL2: "wan_egress"}[hook]
}

// eval compares what the program did with a frame against the expectation; "" = as expected.
// src names the map the control plane recovered the record from (redirects only).
func (w *c03World) eval(st *c03Step, e c03Expect, res *vk.PktRes) (bad, src string) {
	switch e.class {
	case "ok":
		if res.Rc != c03ActOK || res.Redirected != 0 {
			bad = fmt.Sprintf("expected pass (TC_ACT_OK, no redirect) because %s; got rc=%d redirected=%d", e.why, res.Rc, res.Redirected)
		} else if e.markOK && res.Mark != e.mark {
			bad = fmt.Sprintf("direct LAN traffic must carry the rule's mark %#x, skb->mark=%#x", e.mark, res.Mark)
		} else if !bytes.Equal(res.Out, st.f.Bytes()) {
			bad = "passed frame was modified"
		}
	case "shot":
		if res.Rc != c03ActShot {
			bad = fmt.Sprintf("expected drop (TC_ACT_SHOT) because %s; got rc=%d redirected=%d", e.why, res.Rc, res.Redirected)
		}
	case "redirect":
		if res.Rc != c03ActRedirect || res.Redirected == 0 || res.RedirIf != c03Dae0Ifindex {
			bad = fmt.Sprintf("expected redirect to dae0 (ifindex %d) because %s; got rc=%d redirected=%d ifindex=%d", c03Dae0Ifindex, e.why, res.Rc, res.Redirected, res.RedirIf)
		} else if res.Cb0 != consts.TproxyMark {
			bad = fmt.Sprintf("redirected frame lacks the tproxy cb mark: cb[0]=%#x", res.Cb0)
		} else if got, from, err := w.retrieve(&st.f); err != nil {
			bad = "control plane cannot recover the routing record: " + err.Error()
		} else if *got != *e.rec {
			bad = fmt.Sprintf("record recovered by the control plane (%s) %+v != kernel decision %+v", from, *got, *e.rec)
		} else {
			src = from
		}
	}
	return bad, src
}

// retrieve mirrors controlPlaneCore.RetrieveRoutingResult on kernsim's map bytes:
// key from the REAL bpfTuplesKeyFromAddrPorts, values decoded with the REAL Go structs.
func (w *c03World) retrieve(f *vk.Frame) (*bpfRoutingResult, string, error) {
	key := bpfTuplesKeyFromAddrPorts(netip.AddrPortFrom(f.Src, f.Sport), netip.AddrPortFrom(f.Dst, f.Dport), f.Proto)
	kb := verifRaw(&key)
	if v, ok := w.lastConn, w.lastConn != nil; ok {
		if uintptr(len(v)) != unsafe.Sizeof(bpfConnState{}) {
			return nil, "", fmt.Errorf("conn_state value is %d bytes, Go bpfConnState %d", len(v), unsafe.Sizeof(bpfConnState{}))
		}
		var cs bpfConnState
		copy(verifRaw(&cs), v)
		if cs.Meta.Data.HasRouting != 0 {
			r := routingResultFromConnState(cs.Meta.Data.Mark, cs.Meta.Data.Must, cs.Meta.Data.Outbound, cs.Mac, cs.Meta.Data.Dscp, cs.Pname, cs.Pid)
			return &r, "conn_state", nil
		}
	}
	v, ok := w.lastHandoff, w.lastHandoff != nil
	if !ok {
		return nil, "", fmt.Errorf("no conn_state routing and no routing_handoff entry under the Go-computed key %x", kb)
	}
	if uintptr(len(v)) != unsafe.Sizeof(bpfRoutingHandoffEntry{}) {
		return nil, "", fmt.Errorf("routing_handoff value is %d bytes, Go %d", len(v), unsafe.Sizeof(bpfRoutingHandoffEntry{}))
	}
	var en bpfRoutingHandoffEntry
	copy(verifRaw(&en), v)
	if en.LastSeenNs == 0 {
		return nil, "", fmt.Errorf("handoff entry has zero timestamp (treated as expired)")
	}
	r := routingResultFromConnState(en.Result.Mark, en.Result.Must, en.Result.Outbound, en.Result.Mac, en.Result.Dscp, en.Result.Pname, en.Result.Pid)
	return &r, "handoff", nil
}

func (w *c03World) step(st *c03Step) bool {
	e := w.model(st)
	w.log("FRAME hook=%s cookie=%d mark=%#x %s   expect=%s (%s)", []string{"lan_ingress", "", "lan_egress", "", "wan_ingress", "", "wan_egress"}[st.hook], st.cookie, st.mark, st.f.String(), e.class, e.why)
	res, ok := w.run(st)
	if !ok {
		return false
	}
	w.hist[len(w.hist)-1] += fmt.Sprintf("   got rc=%d redir=%d mark=%#x", res[0].Rc, res[0].Redirected, res[0].Mark)
	w.check(st, e, &res[0])
	return !w.failed
}

// ---- workload --------------------------------------------------------------------

var c03Gaps = []uint64{0, 3e8, 2e9, 60e9, 110e9}

func (w *c03World) pickAddrs(v6 bool) (netip.Addr, netip.Addr) {
	var pool []netip.Addr
	for _, rl := range w.prog.Rules {
		for _, c := range rl.Conds {
			if c.Func == "dip" || c.Func == "sip" || c.Func == "ip" {
				for _, p := range c.Params {
					for _, a := range vk.AddrsAround(p.Val) {
						if a.Is6() == v6 && a.IsValid() {
							pool = append(pool, a)
						}
					}
				}
			}
		}
	}
	if v6 {
		pool = append(pool, netip.MustParseAddr("fd00::1"), netip.MustParseAddr("2001:db8::1"), netip.MustParseAddr("2001:db8:1::9"))
	} else {
		pool = append(pool, netip.MustParseAddr("10.1.2.3"), netip.MustParseAddr("8.8.8.8"), netip.MustParseAddr("192.168.0.7"))
	}
	return pool[w.r.IntN(len(pool))], pool[w.r.IntN(len(pool))]
}

func (w *c03World) worldChange() {
	switch w.r.IntN(5) {
	case 0: // new rules
		gen := &vk.RGen{R: w.r, Groups: verifGroups, NeighbourBias: 0.1, V6Slash0: true, MaxRules: 6}
		if w.r.IntN(3) == 0 {
			// the extreme swaps: everything plain direct / everything to one group / everything blocked
			p := &vk.RProg{Fallback: vk.ROut{Name: []string{"direct", "direct", verifGroups[1], "block"}[w.r.IntN(4)]}}
			if w.loadRules(p) {
				w.m.Count("rule_swaps_midflow", 1)
				w.m.Count("rule_swaps_to_constant_program", 1)
				return
			}
		}
		for i := 0; i < 5; i++ {
			if w.loadRules(gen.Gen()) {
				w.m.Count("rule_swaps_midflow", 1)
				return
			}
		}
	case 1, 2: // learned domain changes
		for a := range w.domains {
			w.setDomain(a, []string{"", "example.com", "www.example.org", "x.com"}[w.r.IntN(4)])
			w.m.Count("domain_changes_midflow", 1)
			break
		}
	case 3, 4:
		name2id, _ := verifOutboundTable()
		g := verifGroups[w.r.IntN(len(verifGroups))]
		w.setAlive(name2id[g], w.r.IntN(2) == 0, w.r.IntN(2) == 0, w.r.IntN(2) == 0)
		w.m.Count("alive_flips", 1)
	}
}

func (w *c03World) history() {
	r := w.r
	w.flows = map[string]*c03Flow{}
	w.hist = w.hist[:0]
	w.log("RULES:\n%s", w.prog.Text())
	v6 := r.IntN(2) == 0
	src, dst := w.pickAddrs(v6)
	f := vk.Frame{L2: r.IntN(4) != 0, Src: src, Dst: dst, Dscp: []uint8{0, 4, 8, 63}[r.IntN(4)],
		Sport: []uint16{1000, 53, 40000, 65535}[r.IntN(4)], Dport: []uint16{53, 80, 443, 8443, 1}[r.IntN(5)]}
	f.SrcMac = [][6]byte{{2, 0x42, 0xac, 0x11, 0, 2}, {2, 0x42, 0xac, 0x11, 0, 3}, {0, 0, 0, 0, 0, 1}}[r.IntN(3)]
	f.DstMac = [6]byte{2, 0, 0, 0, 0, 1}
	if r.IntN(2) == 0 {
		f.Proto = 6
	} else {
		f.Proto = 17
	}
	if !v6 && r.IntN(4) == 0 {
		f.IHL = uint8(6 + r.IntN(10))
	}
	if v6 && r.IntN(3) == 0 {
		n := 1 + r.IntN(3)
		for i := 0; i < n; i++ {
			f.Ext = append(f.Ext, vk.ExtHdr{Type: []uint8{0, 43, 60}[r.IntN(3)], Len8: uint8(r.IntN(3))})
		}
		if r.IntN(3) == 0 {
			f.Ext = append(f.Ext, vk.ExtHdr{Type: 44, FragOff: 1}) // first fragment (M flag, offset 0)
		}
	}
	f.Payload = []int{0, 1, 100, 1200}[r.IntN(4)]
	w.domains[dst] = []string{"", "example.com", "www.example.org", "a.b.example.com"}[r.IntN(4)]
	w.installDomains()
	w.log("DOMAIN %v -> %q", dst, w.domains[dst])
	w.advance(400e9) // every flow state left by earlier histories is past its idle timeout

	scenario := r.IntN(10)
	fwdHook := uint8(vk.HookLanIngressL2)
	var cookie uint64
	var mark uint32
	if scenario >= 4 && scenario <= 7 { // WAN egress originated
		fwdHook = vk.HookWanEgressL2
		cookie = uint64(100 + r.IntN(4))
		switch r.IntN(4) {
		case 0:
			cookie = uint64(900 + r.IntN(50)) // no mapping known
		case 1:
			if r.IntN(2) == 0 {
				w.setCookie(cookie, c03DaePid, "dae")
				w.m.Count("dae_own_pid_flows", 1)
			} else if w.sockMark != 0 {
				cookie = uint64(900 + r.IntN(50))
				mark = w.sockMark
				w.m.Count("dae_own_mark_flows", 1)
			}
		default:
			w.setCookie(cookie, uint32(1000+r.IntN(9)), vk.PoolPnames[r.IntN(len(vk.PoolPnames))])
		}
	}
	mk := func(hook uint8, fr vk.Frame) *c03Step {
		return &c03Step{hook: hook, f: fr, cookie: cookie, mark: mark}
	}
	rev := func(fr vk.Frame) vk.Frame {
		x := fr
		x.Src, x.Dst, x.Sport, x.Dport = fr.Dst, fr.Src, fr.Dport, fr.Sport
		x.SrcMac, x.DstMac = fr.DstMac, fr.SrcMac
		return x
	}
	gap := func() { w.advance(c03Gaps[r.IntN(len(c03Gaps))]) }
	maybeChange := func() {
		if r.IntN(2) == 0 {
			w.worldChange()
		}
	}
	revHook := uint8(vk.HookWanIngressL2)
	if r.IntN(2) == 0 {
		revHook = vk.HookLanEgressL2
	}
	switch {
	case scenario <= 7 && f.Proto == 6: // TCP flow opened from LAN (0-3) or locally (4-7)
		// several connection epochs on ONE 4-tuple: every new SYN restarts tracking with
		// the rules current at that moment, whatever state the previous epoch left behind
		// (still ACTIVE, CLOSING, or expired).
		syn := f
		syn.Syn = true
		ack := f
		ack.Ack = true
		epochs := 1 + r.IntN(3)
		for ep := 0; ep < epochs; ep++ {
			if !w.step(mk(fwdHook, syn)) {
				return
			}
			if ep > 0 {
				w.m.Count("tcp_restart_on_syn", 1)
			}
			maybeChange()
			for i := 0; i < 1+r.IntN(3); i++ {
				gap()
				if r.IntN(3) == 0 {
					ra := rev(ack)
					if r.IntN(3) == 0 {
						ra.Syn = true // SYN-ACK from the peer
					}
					if !w.step(mk(revHook, ra)) {
						return
					}
				}
				if !w.step(mk(fwdHook, ack)) {
					return
				}
				if r.IntN(3) == 0 {
					maybeChange()
				}
			}
			switch r.IntN(3) {
			case 0: // tuple re-used while the old entry is still ACTIVE (no FIN/RST seen, no idle timeout)
				w.m.Count("tcp_tuple_reused_while_active", 1)
				gap()
				if r.IntN(2) == 0 {
					w.worldChange()
				}
			case 1: // idle past the established timeout
				w.advance([]uint64{125e9, 300e9}[r.IntN(2)])
			default: // orderly or abortive close, then the closing timeout
				fin := ack
				if r.IntN(2) == 0 {
					fin.Fin = true
				} else {
					fin.Rst = true
				}
				gap()
				if r.IntN(2) == 0 {
					if !w.step(mk(fwdHook, fin)) {
						return
					}
				} else if !w.step(mk(revHook, rev(fin))) {
					return
				}
				w.advance([]uint64{1e9, 8e9}[r.IntN(2)])
				if !w.step(mk(fwdHook, ack)) { // still tracked inside the closing timeout
					return
				}
				w.m.Count("closing_window_probes", 1)
				// a half-closed connection that keeps carrying packets never went idle: every gap is
				// well inside the 10 s closing timeout although the FIN/RST is soon more than 10 s old
				for i, n := 0, r.IntN(3); i < n; i++ {
					w.advance(6e9)
					if r.IntN(3) == 0 {
						if !w.step(mk(revHook, rev(ack))) {
							return
						}
					} else if !w.step(mk(fwdHook, ack)) {
						return
					}
					w.m.Count("closing_kept_alive_by_traffic_probes", 1)
				}
				if r.IntN(2) == 0 {
					w.advance(12e9)
					if !w.step(mk(fwdHook, ack)) { // expired: not judged
						return
					}
				}
			}
			maybeChange()
		}
	case scenario <= 7: // UDP flow
		if !w.step(mk(fwdHook, f)) {
			return
		}
		for i := 0; i < 2+r.IntN(3); i++ {
			if r.IntN(2) == 0 {
				maybeChange()
			}
			gap()
			if fwdHook == vk.HookWanEgressL2 && r.IntN(3) == 0 {
				// a datagram sent by dae itself on the very same (still tracked) 5-tuple: the
				// other process's socket went away and dae got the same source port
				own := mk(fwdHook, f)
				if w.sockMark != 0 && r.IntN(2) == 0 {
					own.cookie, own.mark = uint64(950+r.IntN(5)), w.sockMark
				} else {
					own.cookie, own.mark = 199, 0
					w.setCookie(199, c03DaePid, "dae")
				}
				if !w.step(own) {
					return
				}
				w.m.Count("dae_own_on_tracked_tuple", 1)
			}
			if r.IntN(3) == 0 {
				if !w.step(mk(revHook, rev(f))) {
					return
				}
			}
			if !w.step(mk(fwdHook, f)) {
				return
			}
		}
		w.advance([]uint64{125e9, 300e9}[r.IntN(2)])
		maybeChange()
		if !w.step(mk(fwdHook, f)) { // expired: decided again with the current rules
			return
		}
		w.m.Count("udp_redecided_after_idle", 1)
		if r.IntN(2) == 0 {
			// after another idle period the same 5-tuple is used by a flow opened from the OTHER
			// side: nothing of the expired flow (direction, decision, MAC, process) may survive
			w.advance([]uint64{125e9, 300e9}[r.IntN(2)])
			if !w.step(mk(vk.HookWanIngressL2, rev(f))) {
				return
			}
			maybeChange()
			gap()
			if !w.step(mk(fwdHook, f)) {
				return
			}
			w.m.Count("opener_swapped_after_expiry", 1)
		}
	default: // connection opened from the WAN side towards a local/LAN service; replies must pass
		in := rev(f) // as seen on wan ingress: remote -> local
		first := in
		if f.Proto == 6 {
			first.Syn = true
		}
		if !w.step(mk(vk.HookWanIngressL2, first)) {
			return
		}
		if r.IntN(2) == 0 {
			if !w.step(mk(vk.HookLanEgressL2, first)) { // forwarded on to a LAN host
				return
			}
		}
		replyHook := uint8(vk.HookLanIngressL2)
		if r.IntN(2) == 0 {
			replyHook = vk.HookWanEgressL2
			cookie = uint64(100 + r.IntN(4))
			w.setCookie(cookie, 2000, "sshd")
		}
		reply := f
		if f.Proto == 6 {
			reply.Syn, reply.Ack = true, true // SYN-ACK
		}
		maybeChange()
		gap()
		if !w.step(mk(replyHook, reply)) {
			return
		}
		w.m.Count("wan_origin_reply_probes", 1)
		reply.Syn = false
		if f.Proto == 6 {
			reply.Ack = true
		}
		for i := 0; i < 1+r.IntN(2); i++ {
			gap()
			if r.IntN(2) == 0 {
				if !w.step(mk(vk.HookWanIngressL2, func() vk.Frame { x := in; x.Ack = f.Proto == 6; return x }())) {
					return
				}
			}
			if !w.step(mk(replyHook, reply)) {
				return
			}
			w.m.Count("wan_origin_reply_probes", 1)
		}
		if r.IntN(2) == 0 {
			// the tuple is re-used, after the idle timeout, by a flow opened from the local side
			w.advance([]uint64{125e9, 300e9}[r.IntN(2)])
			maybeChange()
			first := f
			first.Syn = f.Proto == 6
			if !w.step(mk(replyHook, first)) {
				return
			}
			w.m.Count("opener_swapped_after_expiry", 1)
		}
	}
	if w.m.WantSample() {
		w.m.Sample(map[string]any{"history": append([]string(nil), w.hist...)})
	}
}

// ---- interleaved multi-flow histories and conn-state exhaustion -----------------------
//
// Every flow's frames are judged against the decision for THAT flow only (reference flow
// table keyed by 5-tuple), whatever other flows' frames ran in between on the same or on
// another CPU, and whatever the health bits of the other family / protocol say.

type c03MFlow struct {
	f       vk.Frame
	hook    uint8
	cookie  uint64
	mark    uint32
	started bool
	done    bool
	tracked bool // exhaustion histories: a conn_state entry existed after the first packet
}

var c03NonZeroMarks = []string{"1", "0x800", "255", "0x80000000", "0xffffffff", "010"}

// loadPalette loads a program in which every rule outcome named by the statement (plain
// direct, direct with a mark, proxy group with and without mark, block, must) is selected by
// one of the destination ports the flows use, so that a history meets all of them.
func (w *c03World) loadPalette() bool {
	r := w.r
	g := func() string { return verifGroups[r.IntN(len(verifGroups))] }
	mk := func() string { return c03NonZeroMarks[r.IntN(len(c03NonZeroMarks))] }
	outs := []vk.ROut{
		{Name: "direct"},
		{Name: "direct", HasMark: true, MarkTxt: mk()},
		{Name: g()},
		{Name: g(), HasMark: true, MarkTxt: mk()},
		{Name: "block"},
		{Name: []string{"must_direct", "must_" + g(), "direct", g()}[r.IntN(4)], MustPar: r.IntN(2) == 0},
		{Name: "direct", HasMark: true, MarkTxt: mk(), MustPar: r.IntN(3) == 0},
	}
	r.Shuffle(len(outs), func(i, j int) { outs[i], outs[j] = outs[j], outs[i] })
	p := &vk.RProg{Fallback: outs[len(outs)-1]}
	for i, dp := range []string{"80", "443", "8443", "1", "53", "8080"} {
		rl := vk.RRule{Conds: []vk.RCond{{Func: "dport", Params: []vk.RParam{{Val: dp}}}}, Out: outs[i]}
		switch r.IntN(5) {
		case 0: // the outcome differs by protocol
			rl.Conds = append(rl.Conds, vk.RCond{Func: "l4proto", Params: []vk.RParam{{Val: []string{"tcp", "udp"}[r.IntN(2)]}}})
		case 1: // ... or by family
			rl.Conds = append(rl.Conds, vk.RCond{Func: "ipversion", Params: []vk.RParam{{Val: []string{"4", "6"}[r.IntN(2)]}}})
		}
		p.Rules = append(p.Rules, rl)
	}
	if !w.loadRules(p) {
		return false
	}
	w.m.Count("palette_programs", 1)
	return true
}

// asymHealth gives every group health bits that differ between IPv4 and IPv6 (two times out
// of three) independently per protocol.
func (w *c03World) asymHealth() {
	name2id, _ := verifOutboundTable()
	for _, g := range verifGroups {
		for _, udp := range []bool{false, true} {
			a := w.r.IntN(2) == 0
			b := a
			if w.r.IntN(3) != 0 {
				b = !a
			}
			w.setAlive(name2id[g], udp, false, a)
			w.setAlive(name2id[g], udp, true, b)
		}
	}
	w.m.Count("asymmetric_health_setups", 1)
}

func (w *c03World) newMFlow(i int, v6, tcp, wan bool) c03MFlow {
	r := w.r
	src, dst := w.pickAddrs(v6)
	f := vk.Frame{L2: r.IntN(4) != 0, Src: src, Dst: dst, Dscp: []uint8{0, 4, 8, 63}[r.IntN(4)],
		Sport: uint16(20000 + 16*i + r.IntN(16)), Dport: []uint16{80, 443, 8443, 1, 8080, 53}[r.IntN(6)]}
	f.SrcMac = [][6]byte{{2, 0x42, 0xac, 0x11, 0, 2}, {2, 0x42, 0xac, 0x11, 0, 3}, {0, 0, 0, 0, 0, 1}}[r.IntN(3)]
	f.DstMac = [6]byte{2, 0, 0, 0, 0, 1}
	f.Proto = 17
	if tcp {
		f.Proto = 6
	}
	if !v6 && r.IntN(6) == 0 {
		f.IHL = uint8(6 + r.IntN(10))
	}
	if v6 && r.IntN(5) == 0 {
		f.Ext = append(f.Ext, vk.ExtHdr{Type: []uint8{0, 43, 60}[r.IntN(3)], Len8: uint8(r.IntN(3))})
	}
	f.Payload = []int{0, 1, 100}[r.IntN(3)]
	if _, ok := w.domains[dst]; !ok || r.IntN(2) == 0 {
		w.domains[dst] = []string{"", "example.com", "www.example.org", "a.b.example.com"}[r.IntN(4)]
		w.log("DOMAIN %v -> %q", dst, w.domains[dst])
	}
	fl := c03MFlow{f: f, hook: vk.HookLanIngressL2}
	if wan {
		fl.hook = vk.HookWanEgressL2
		fl.cookie = uint64(110 + i)
		switch r.IntN(6) {
		case 0:
			fl.cookie = uint64(900 + i) // no mapping known
		case 1: // a flow of dae itself: passes, but its frames run through the same hook (and scratch)
			if w.sockMark != 0 && r.IntN(2) == 0 {
				fl.cookie, fl.mark = uint64(900+i), w.sockMark
			} else {
				w.setCookie(fl.cookie, c03DaePid, "dae")
			}
			w.m.Count("mflow_dae_own_flows", 1)
		default:
			w.setCookie(fl.cookie, uint32(1000+r.IntN(9)), vk.PoolPnames[r.IntN(len(vk.PoolPnames))])
		}
	}
	return fl
}

// mflowStep builds the next frame of a flow: SYN / first datagram, then ACKs / datagrams.
func (w *c03World) mflowStep(fl *c03MFlow, restart, fin bool) *c03Step {
	fr := fl.f
	if fr.Proto == 6 {
		switch {
		case !fl.started || restart:
			fr.Syn = true
		case fin:
			fr.Ack = true
			if w.r.IntN(2) == 0 {
				fr.Fin = true
			} else {
				fr.Rst = true
			}
		default:
			fr.Ack = true
		}
	}
	return &c03Step{hook: fl.hook, f: fr, cookie: fl.cookie, mark: fl.mark}
}

func (w *c03World) mflows(n int, wanBias int) []c03MFlow {
	r := w.r
	flows := make([]c03MFlow, n)
	v6first := r.IntN(2) == 0
	for i := range flows {
		v6 := (i%2 == 0) == v6first // both families are present in every history
		if r.IntN(5) == 0 {
			v6 = !v6
		}
		flows[i] = w.newMFlow(i, v6, r.IntN(3) != 0, r.IntN(10) < wanBias)
	}
	w.installDomains()
	return flows
}

func (w *c03World) mixHistory() {
	r := w.r
	w.flows = map[string]*c03Flow{}
	w.hist = w.hist[:0]
	w.advance(400e9)
	if r.IntN(3) == 0 {
		w.loadPalette()
	}
	w.log("RULES:\n%s", w.prog.Text())
	w.asymHealth()
	flows := w.mflows(2+r.IntN(3), 7)
	prev := -1
	var prevFam uint8
	for s, steps := 0, 5+r.IntN(8); s < steps; s++ {
		i := r.IntN(len(flows))
		fl := &flows[i]
		if fl.done {
			continue
		}
		switch r.IntN(12) {
		case 0, 1, 2:
			name2id, _ := verifOutboundTable()
			w.setAlive(name2id[verifGroups[r.IntN(len(verifGroups))]], r.IntN(3) == 0, r.IntN(2) == 0, r.IntN(2) == 0)
			w.m.Count("alive_flips", 1)
		case 3:
			w.worldChange()
		}
		w.advance([]uint64{0, 3e8, 2e9}[r.IntN(3)])
		later := fl.started
		// CPU placement: stay, move to another used CPU, or (for a later packet) to a CPU that
		// has not run anything yet, whose scratch areas are still all zero
		freshCPU := false
		switch r.IntN(4) {
		case 0:
			w.setCPU(uint32(r.IntN(3)))
		case 1:
			if later {
				for c := uint32(0); c < 4; c++ {
					if !w.cpuUsed[c] {
						w.setCPU(c)
						freshCPU = true
						break
					}
				}
			}
		}
		if fl.started && r.IntN(6) == 0 { // a packet of the peer (not judged; refreshes tracking)
			rv := fl.f
			rv.Src, rv.Dst, rv.Sport, rv.Dport = fl.f.Dst, fl.f.Src, fl.f.Dport, fl.f.Sport
			rv.SrcMac, rv.DstMac = fl.f.DstMac, fl.f.SrcMac
			rv.Ack = rv.Proto == 6
			if !w.step(&c03Step{hook: vk.HookWanIngressL2, f: rv}) {
				return
			}
		}
		restart := later && fl.f.Proto == 6 && r.IntN(10) == 0
		fin := later && !restart && fl.f.Proto == 6 && r.IntN(10) == 0
		st := w.mflowStep(fl, restart, fin)
		fam := uint8(4)
		if st.f.V6() {
			fam = 6
		}
		if later && !restart {
			w.m.Count("mflow_later_packets", 1)
			if prev >= 0 && prev != i {
				w.m.Count("mflow_later_packet_after_other_flow", 1)
				if prevFam != fam {
					w.m.Count("mflow_later_packet_after_other_family", 1)
				}
			}
			if freshCPU {
				w.m.Count("mflow_later_packet_on_fresh_cpu", 1)
			}
			if st.hook == vk.HookWanEgressL2 && st.f.Proto == 6 {
				w.m.Count("mflow_later_tcp_wan_egress", 1)
			}
		}
		if !w.step(st) {
			return
		}
		fl.started = true
		fl.done = fin
		prev, prevFam = i, fam
	}
	w.m.Count("mflow_histories", 1)
	if w.m.WantSample() {
		w.m.Sample(map[string]any{"history": append([]string(nil), w.hist...)})
	}
}

// exhaustHistory: conn_state_map has no (or nearly no) free slot when the first packets of
// several flows arrive, and nothing else changes during the history. The statement does not
// promise delivery when the flow cannot be tracked, so a frame may be dropped instead of
// following its rule; what it must never do is leave on a path its rule did not decide
// (pass where the rule says drop / hand to dae, pass with another mark, reach dae without an
// exact record).
func (w *c03World) exhaustHistory() {
	r := w.r
	w.flows = map[string]*c03Flow{}
	w.hist = w.hist[:0]
	w.advance(400e9)
	if r.IntN(2) == 0 {
		w.loadPalette()
	}
	w.log("RULES:\n%s", w.prog.Text())
	if r.IntN(2) == 0 {
		w.asymHealth()
	}
	flows := w.mflows(3+r.IntN(3), 6)
	capacity := uint32(0) // every insertion fails
	if r.IntN(2) == 0 {
		capacity = uint32(len(w.ks[0].MapDump("conn_state_map")) + r.IntN(3)) // 0..2 free slots
	}
	// one history in three: the hand-off table rejects insertions as well, so a flow without a
	// conn-state slot has nowhere to leave its record
	handoffFull := r.IntN(3) == 0
	for _, k := range w.ks {
		k.SetMax("conn_state_map", capacity)
		if handoffFull {
			k.SetMax("routing_handoff_map", 0)
		}
	}
	defer func() {
		for _, k := range w.ks {
			if k.Dead() == nil {
				k.SetMax("conn_state_map", w.connCap)
				if handoffFull {
					k.SetMax("routing_handoff_map", 1<<18)
				}
			}
		}
	}()
	w.log("conn_state_map capacity := %d", capacity)
	if handoffFull {
		w.log("routing_handoff_map rejects every insertion")
		w.m.Count("exh_handoff_full_histories", 1)
	}
	order := r.Perm(len(flows))
	for s, steps := 0, len(flows)+1+r.IntN(4); s < steps; s++ {
		var fl *c03MFlow
		if s < len(order) {
			fl = &flows[order[s]]
		} else {
			fl = &flows[r.IntN(len(flows))]
			w.advance([]uint64{0, 3e8, 2e9}[r.IntN(3)])
		}
		if r.IntN(4) == 0 {
			w.setCPU(uint32(r.IntN(3)))
		}
		first := !fl.started
		st := w.mflowStep(fl, false, false)
		e := w.model(st)
		w.log("FRAME hook=%s cookie=%d mark=%#x %s   expect=%s (%s) or drop", c03HookName(st.hook), st.cookie, st.mark, st.f.String(), e.class, e.why)
		res, ok := w.run(st)
		if !ok {
			return
		}
		w.hist[len(w.hist)-1] += fmt.Sprintf("   got rc=%d redir=%d mark=%#x conn_state_entry=%v", res[0].Rc, res[0].Redirected, res[0].Mark, w.lastConn != nil)
		if first {
			fl.started, fl.tracked = true, w.lastConn != nil
		}
		w.checkExhausted(st, e, &res[0], first, fl.tracked)
		if w.failed {
			return
		}
	}
	w.m.Count("exhaustion_histories", 1)
	if w.m.WantSample() {
		w.m.Sample(map[string]any{"history": append([]string(nil), w.hist...)})
	}
}

func (w *c03World) checkExhausted(st *c03Step, e c03Expect, res *vk.PktRes, first, tracked bool) {
	if !e.judge {
		w.m.Count("exh_frames_not_judged", 1)
		return
	}
	hookName := c03HookName(st.hook)
	proto := map[uint8]string{6: "tcp", 17: "udp"}[st.f.Proto]
	if !first && st.f.Proto == 6 && !tracked {
		// the SYN got no slot: the flow is not tracked, the statement is silent about its later packets
		w.m.Count("exh_later_packets_of_untracked_tcp_not_judged", 1)
		return
	}
	if first && e.class == "redirect" && w.lastConn == nil && w.lastHandoff == nil {
		w.m.Count("exh_redirect_decided_and_no_record_left", 1)
	}
	if first {
		w.m.Count("exh_first_packets", 1)
		if w.lastConn == nil && e.kind != "dns" && e.kind != "dae_own" {
			w.m.Count("exh_first_packet_got_no_slot", 1)
			w.m.Count("exh_noslot_"+e.kind, 1)
			w.m.Count("exh_noslot_"+hookName+"_"+proto, 1)
			if e.rec != nil && e.rec.Must != 0 {
				w.m.Count("exh_noslot_must", 1)
			}
		}
	} else {
		w.m.Count("exh_later_packets_judged", 1)
	}
	bad, src := w.eval(st, e, res)
	outcome := "as_decided"
	switch {
	case bad == "":
		if src != "" {
			w.m.Count("exh_records_recovered_from_"+src, 1)
		}
	case res.Rc == c03ActShot && res.Redirected == 0:
		outcome = "dropped"
		if e.class == "ok" {
			w.m.Count("exh_direct_dropped_recorded", 1) // not judged
		} else {
			w.m.Count("exh_failed_closed", 1)
		}
	default:
		shape := "other"
		switch {
		case res.Redirected != 0 && strings.HasPrefix(bad, "control plane cannot recover"):
			shape = "redirected-without-record"
		case res.Redirected != 0 && e.class == "redirect":
			shape = "redirected-wrong-record"
		case res.Redirected != 0:
			shape = "redirected"
		case res.Rc == c03ActOK && e.class == "ok":
			shape = "passed-altered"
		case res.Rc == c03ActOK:
			shape = "passed"
		}
		w.violation("exhaustion/"+hookName+"/"+proto+"/"+e.kind+"/"+shape,
			"the flow tables have no free slot: the frame must follow its rule's decision or be dropped, but it left on another path; "+bad)
		return
	}
	w.m.Count("exh_"+outcome, 1)
	w.m.Distinct(fmt.Sprintf("exh|%s|%s|%s|%s|%v", hookName, c03FrameClass(&st.f), e.kind, outcome, first))
}

// hostile frames: truncations, header soup, fragments, odd protocols; judged for
// sanitizer reports and parser-path agreement only.
func (w *c03World) hostile(n int) {
	r := w.r
	for i := 0; i < n && !w.failed; i++ {
		v6 := r.IntN(2) == 0
		var f vk.Frame
		f.L2 = r.IntN(3) != 0
		if v6 {
			f.Src, f.Dst = netip.MustParseAddr("2001:db8:ffff::1"), netip.MustParseAddr("2001:db8:ffff::2")
		} else {
			f.Src, f.Dst = netip.MustParseAddr("172.31.0.1"), netip.MustParseAddr("172.31.0.2")
		}
		f.Sport, f.Dport = uint16(r.IntN(65536)), []uint16{53, 80, uint16(r.IntN(65536))}[r.IntN(3)]
		f.Proto = []uint8{6, 17, 58, 1, 47, 0, 59, 44}[r.IntN(8)]
		f.Syn, f.Ack, f.Fin, f.Rst = r.IntN(2) == 0, r.IntN(2) == 0, r.IntN(4) == 0, r.IntN(6) == 0
		f.Icmp6Type = []uint8{137, 128, 135}[r.IntN(3)]
		f.Payload = []int{0, 3, 64, 200}[r.IntN(4)]
		if !v6 {
			f.IHL = uint8(r.IntN(16))
			if r.IntN(3) == 0 {
				f.FragOff = uint16(r.IntN(3) * 185)
				f.MF = r.IntN(2) == 0
			}
		} else {
			for j := r.IntN(11); j > 0; j-- {
				e := vk.ExtHdr{Type: []uint8{0, 43, 60, 44, 59}[r.IntN(5)], Len8: uint8(r.IntN(4))}
				if e.Type == 44 {
					e.FragOff = []uint16{0, 1, 8, 0xfff8}[r.IntN(4)]
				}
				f.Ext = append(f.Ext, e)
			}
		}
		full := len(f.Bytes())
		switch r.IntN(3) {
		case 0:
			f.Truncate = 1 + r.IntN(full)
		case 1:
			f.Truncate = []int{1, 13, 14, 15, 33, 34, 35, 53, 54, 55, 61, 62, 127, 128, 129}[r.IntN(15)]
		}
		st := &c03Step{hook: []uint8{vk.HookLanIngressL2, vk.HookLanEgressL2, vk.HookWanIngressL2, vk.HookWanEgressL2}[r.IntN(4)], f: f,
			cookie: uint64(900 + r.IntN(5)), ingressIf: uint32(r.IntN(2))}
		if st.hook == vk.HookLanEgressL2 {
			st.ingressIf = uint32(r.IntN(2))
		}
		w.hist = w.hist[:0]
		w.log("HOSTILE hook=%d %s", st.hook, f.String())
		if _, ok := w.run(st); !ok {
			return
		}
		w.m.Count("hostile_frames", 1)
		w.m.Distinct("hostile|" + c03FrameClass(&f) + fmt.Sprintf("|hook%d", st.hook))
	}
}

func TestVerifC03(t *testing.T) {
	m := vk.NewMonitor("C03", "", "exploration",
		"frame histories over one flow per history (TCP SYN/established/FIN/RST, UDP, port 53; IPv4 with options, IPv6 with extension headers; L2 and L3 link types; LAN-ingress, WAN-egress, WAN-originated) interleaved with time jumps around the documented timeouts, rule swaps, learned-domain changes and health-bit flips, plus hostile frames (truncated, fragments, header soup); "+
			"interleaved histories over 2-4 flows of both families / protocols / hooks (incl. dae's own) with health bits that differ per (protocol, family), packets moving between four simulated CPUs (per-CPU scratch maps keep one copy per CPU), every frame judged against its own flow's decision; "+
			"exhaustion histories: conn_state_map has 0-2 free slots (or rejects every insertion) when the first packets of 3-5 flows covering every rule outcome arrive: a frame follows its rule or is dropped, never leaves on another path; "+
			"tproxy.c runs natively under ASan+UBSan in three children with the fast / slow header parser forced; oracle = reference flow table written from the statement + record decoded with dae's Go structs; "+
			"distinct = (hook, frame class, expected verdict class, reason)")
	m.SetFloor(150)
	m.Assume("helper semantics scripted by the kernsim shim (sk lookups return no socket; redirect records its target; programs run one at a time on one of four simulated CPUs)",
		"under conn-state exhaustion the statement is read as: the frame follows its rule's decision or is dropped (drops of direct traffic are counted, not judged); later packets of a TCP flow whose SYN got no slot are not judged",
		"first-packet decisions come from verifkit.RefRoute; record recovery mirrors RetrieveRoutingResult on the map bytes using the real key constructor and Go structs",
		"time gaps are chosen away from the documented 120 s / 10 s timeouts; untracked mid-flow packets, forwarded traffic on the WAN hook and malformed frames carry no verdict expectation")
	r := vk.NewRand(0xC03)
	w := &c03World{t: t, m: m, r: r}
	for i := range w.ks {
		k, err := vk.StartKernsim("C03", c03ModeNames[i])
		if err != nil {
			m.Inconclusive("cannot build/start kernsim: %v", err)
			m.Done(t)
			return
		}
		defer k.Close()
		w.ks[i] = k
	}
	nprog := vk.Scale(200, 8000)
	perProg := 20
	gen := &vk.RGen{R: r, Groups: verifGroups, NeighbourBias: 0.1, V6Slash0: true, MaxRules: 8}
	for i := 0; i < nprog && m.Violations() < 3; i++ {
		for _, k := range w.ks {
			k.Reset()
		}
		w.failed = false
		w.now = 1000e9
		for _, k := range w.ks {
			k.SetTime(w.now)
		}
		w.domains = map[netip.Addr]string{}
		w.dead = map[uint32]bool{}
		w.cookies = map[uint64]c03Cookie{}
		w.hist = nil
		w.sockMark = []uint32{0, 0x4000, 0x80}[r.IntN(3)]
		w.setParam()
		w.initAlive()
		// every 10th program runs under conn_state_map pressure (2 entries): the fail-closed
		// branches are reached; only parser-path agreement and sanitizer reports are judged there.
		w.pressure = i%10 == 9
		w.connCap = 1 << 18
		if w.pressure {
			w.connCap = 2
		}
		w.cpu, w.cpuUsed = 0, [4]bool{}
		for _, k := range w.ks {
			k.SetMax("conn_state_map", w.connCap)
		}
		if !w.loadRules(gen.Gen()) {
			continue
		}
		m.Count("programs", 1)
		for j := 0; j < perProg && !w.failed; j++ {
			switch {
			case j%5 == 2:
				w.mixHistory()
			case j%10 == 9 && !w.pressure:
				w.exhaustHistory()
			default:
				w.history()
			}
			m.Count("histories", 1)
		}
		if !w.failed {
			w.hostile(54)
		}
	}
	m.Require("verdict_ok", "verdict_shot", "verdict_redirect", "records_recovered_from_conn_state", "records_recovered_from_handoff",
		"hostile_frames", "wan_origin_reply_probes", "tcp_restart_on_syn", "udp_redecided_after_idle", "rule_swaps_midflow", "domain_changes_midflow", "alive_flips", "dae_own_pid_flows", "frames_under_map_pressure", "overflow_events_under_pressure", "tcp_tuple_reused_while_active", "dae_own_on_tracked_tuple", "opener_swapped_after_expiry",
		// interleaved multi-flow histories
		"mflow_histories", "asymmetric_health_setups", "mflow_later_packet_after_other_flow", "mflow_later_packet_after_other_family",
		"mflow_later_packet_on_fresh_cpu", "mflow_later_tcp_wan_egress", "mflow_dae_own_flows", "palette_programs",
		// conn-state exhaustion at first-packet time, per rule outcome / hook / protocol
		"exhaustion_histories", "exh_handoff_full_histories", "exh_redirect_decided_and_no_record_left", "exh_first_packet_got_no_slot", "exh_as_decided", "exh_failed_closed", "exh_later_packets_judged",
		"exh_noslot_plain_direct", "exh_noslot_direct_mark", "exh_noslot_group", "exh_noslot_group_down", "exh_noslot_block", "exh_noslot_must",
		"exh_noslot_wan_egress_tcp", "exh_noslot_wan_egress_udp", "exh_noslot_lan_ingress_tcp", "exh_noslot_lan_ingress_udp")
	m.Done(t)
}
