package control

// C09 monitor, layer L6: REPLY SIZES AT BUFFER BOUNDARIES on every client ingress that
// frames or copies reply bytes.
//
// dae copies / frames replies through fixed-size pooled buffers (DNS-over-TCP frame,
// UDP cache-hit patch buffer) with a separate path for "large" replies. A reply that
// is written through a buffer that still holds an earlier reply is another client's
// reply; the size at which the paths switch is where that goes wrong. So: upstream
// answers are generated such that the reply's wire size, and separately its size
// without name compression, take every value B-3..B+3 around the boundaries
// B = 512, 1024, 1232, 4096, 16384 and the largest legal message (65535), for
// cacheable (served again from the cache) and non-cacheable (TTL 0) answers, plus
// large address record sets whose compressed size lies far below the uncompressed
// one (wire <= B <= uncompressed). Every such reply is asked for through the
// transparent DNS-over-TCP fast path (handleTCPDnsFastPath on a loopback listener;
// two persistent client connections, or both questions back to back on one), the
// transparent UDP path (Handle_, reply sent by dae's sendPkt to the client's socket)
// and the dns_listener handler (ServeDNS), and is ALWAYS preceded on the same ingress
// by a reply to a DIFFERENT question of another client, so that bytes left over from
// a previous use of a buffer are distinguishable. Paths: first answer relayed from
// upstream, a burst of identical questions met by a slow upstream (one resolution),
// cache hit, and a concurrent storm over everything the round cached.
//
// Oracle: the client-edge oracle of the other layers (ID, exactly one question = the
// client's, marker of every answer record) on the BYTES the client received, plus for
// DNS-over-TCP: the announced frame length is exactly the length of the message in it
// (a wire-format walk written here, not miekg's tolerant Unpack).

import (
	"bufio"
	"context"
	"encoding/binary"
	"errors"
	"fmt"
	"io"
	"math/rand/v2"
	"net"
	"net/netip"
	"strings"
	"sync"
	"sync/atomic"
	"time"

	componentdns "github.com/daeuniverse/dae/component/dns"
	dnsmessage "github.com/miekg/dns"
	"github.com/sirupsen/logrus"
)

var c09SizeBoundaries = []int{512, 1024, 1232, 4096, 16384, 65535}
var c09SizeIngresses = []string{"tcpfast", "udp", "listener"}

const c09SizeZone = ".sz.c09.test."

// ---- shapes: what the upstream answers for a size name -----------------------------------

type c09SizeSpec struct {
	Name   string `json:"name"`
	Type   uint16 `json:"type"`
	Kind   string `json:"kind"` // txt | rrset
	B      int    `json:"boundary"`
	Off    int    `json:"offset"`
	Aim    string `json:"aim"` // uncompressed | wire | straddle
	N      int    `json:"records"`
	D      int    `json:"last_txt_rdata_len"`
	TTL    uint32 `json:"ttl"`
	Slow   bool   `json:"slow"`
	UpWire int    `json:"upstream_wire_len_compressed"`
	UpUnc  int    `json:"upstream_len_uncompressed"`
	calls  atomic.Int32
}

func c09SizeTxtStrings(h uint16, d int) []string {
	// strings whose wire form (1 length byte + text each) is exactly d bytes, every one begins with the marker
	var lens []int
	for d > 256+14 {
		lens = append(lens, 256)
		d -= 256
	}
	if d <= 256 {
		lens = append(lens, d)
	} else {
		lens = append(lens, 128, d-128)
	}
	out := make([]string, len(lens))
	mk := fmt.Sprintf("c09m:%04x:01", h)
	for i, l := range lens {
		out[i] = mk + strings.Repeat("x", l-1-len(mk))
	}
	return out
}

func (sp *c09SizeSpec) build(id uint16, qname string, qclass uint16) *dnsmessage.Msg {
	q := c09Q{Name: qname, Type: sp.Type, Class: qclass}
	m := new(dnsmessage.Msg)
	m.Id = id
	m.Response = true
	m.RecursionDesired = true
	m.RecursionAvailable = true
	m.Question = []dnsmessage.Question{{Name: dnsmessage.Fqdn(qname), Qtype: sp.Type, Qclass: qclass}}
	h := c09Hash16(q.Name, q.Type)
	hdr := dnsmessage.RR_Header{Name: dnsmessage.Fqdn(qname), Rrtype: sp.Type, Class: dnsmessage.ClassINET, Ttl: sp.TTL}
	switch sp.Type {
	case dnsmessage.TypeTXT:
		for i := 0; i < sp.N-1; i++ {
			m.Answer = append(m.Answer, &dnsmessage.TXT{Hdr: hdr, Txt: []string{fmt.Sprintf("c09m:%04x:%02x", h, i+2)}})
		}
		m.Answer = append(m.Answer, &dnsmessage.TXT{Hdr: hdr, Txt: c09SizeTxtStrings(h, sp.D)})
	case dnsmessage.TypeAAAA:
		for i := 0; i < sp.N; i++ {
			ip := make(net.IP, 16)
			ip[0], ip[1] = 0xfd, 0x09
			ip[12], ip[13], ip[14], ip[15] = byte(h>>8), byte(h), byte(i), 1
			m.Answer = append(m.Answer, &dnsmessage.AAAA{Hdr: hdr, AAAA: ip})
		}
	default:
		for i := 0; i < sp.N; i++ {
			m.Answer = append(m.Answer, &dnsmessage.A{Hdr: hdr, A: net.IP{10, byte(h >> 8), byte(h), byte(i)}})
		}
	}
	return m
}

func c09SizeMeasure(m *dnsmessage.Msg) (wire, unc int) {
	cp := m.Copy()
	cp.Compress = true
	if b, err := cp.Pack(); err == nil {
		wire = len(b)
	}
	cp.Compress = false
	return wire, cp.Len()
}

// c09SizeTxtSpec: n TXT records; the last one is padded until the chosen measure hits target.
func c09SizeTxtSpec(name string, n, target int, aimWire bool, ttl uint32) *c09SizeSpec {
	sp := &c09SizeSpec{Name: name, Type: dnsmessage.TypeTXT, Kind: "txt", N: n, D: 14, TTL: ttl}
	for it := 0; it < 4; it++ {
		w, u := c09SizeMeasure(sp.build(1, name, dnsmessage.ClassINET))
		have := u
		if aimWire {
			have = w
		}
		sp.UpWire, sp.UpUnc = w, u
		if have == target {
			return sp
		}
		sp.D += target - have
		if sp.D < 14 {
			return nil
		}
	}
	return nil
}

// ---- the upstream ------------------------------------------------------------------------------

type c09SizeWorld struct {
	mu    sync.Mutex
	specs map[string]*c09SizeSpec
	small atomic.Int64
}

func (w *c09SizeWorld) spec(name string) *c09SizeSpec {
	w.mu.Lock()
	defer w.mu.Unlock()
	return w.specs[strings.ToLower(dnsmessage.Fqdn(name))]
}

type c09SizeFwd struct{ w *c09SizeWorld }

func (f *c09SizeFwd) Close() error { return nil }
func (f *c09SizeFwd) ForwardDNS(ctx context.Context, data []byte) (*dnsmessage.Msg, error) {
	var req dnsmessage.Msg
	if err := req.Unpack(data); err != nil || len(req.Question) == 0 {
		return nil, errors.New("c09 size upstream: unparsable request")
	}
	qq := req.Question[0]
	sp := f.w.spec(qq.Name)
	if sp == nil || sp.Type != qq.Qtype {
		f.w.small.Add(1)
		return c09Response(req.Id, c09Q{Name: qq.Name, Type: qq.Qtype, Class: qq.Qclass}, 1, 60), nil
	}
	sp.calls.Add(1)
	if sp.Slow {
		t := time.NewTimer(4 * time.Millisecond)
		defer t.Stop()
		select {
		case <-t.C:
		case <-ctx.Done():
			return nil, ctx.Err()
		}
	}
	return sp.build(req.Id, qq.Name, qq.Qclass), nil
}

// ---- strict wire walk ---------------------------------------------------------------------------

// c09WireEnd walks a DNS message by the wire format (header counts, names, fixed RR fields, RDLENGTH)
// and returns the offset at which the message ends.
func c09WireEnd(b []byte) (int, error) {
	if len(b) < 12 {
		return 0, errors.New("shorter than a header")
	}
	qd := int(binary.BigEndian.Uint16(b[4:]))
	rr := int(binary.BigEndian.Uint16(b[6:])) + int(binary.BigEndian.Uint16(b[8:])) + int(binary.BigEndian.Uint16(b[10:]))
	off := 12
	name := func() error {
		for {
			if off >= len(b) {
				return errors.New("name runs past the end")
			}
			l := int(b[off])
			switch {
			case l == 0:
				off++
				return nil
			case l&0xc0 == 0xc0:
				off += 2
				if off > len(b) {
					return errors.New("pointer runs past the end")
				}
				return nil
			case l&0xc0 != 0:
				return errors.New("bad label type")
			}
			off += 1 + l
		}
	}
	for i := 0; i < qd; i++ {
		if err := name(); err != nil {
			return off, err
		}
		off += 4
	}
	for i := 0; i < rr; i++ {
		if err := name(); err != nil {
			return off, err
		}
		if off+10 > len(b) {
			return off, errors.New("record header runs past the end")
		}
		off += 10 + int(binary.BigEndian.Uint16(b[off+8:]))
	}
	if off > len(b) {
		return off, errors.New("record data runs past the end")
	}
	return off, nil
}

// ---- client side ------------------------------------------------------------------------------------

// c09SizeWriter stands for the socket of a dns_listener client: it keeps the bytes.
type c09SizeWriter struct {
	mu     sync.Mutex
	raws   [][]byte
	remote net.Addr
}

func (w *c09SizeWriter) LocalAddr() net.Addr  { return &net.UDPAddr{IP: net.IPv4(127, 0, 0, 1), Port: 53} }
func (w *c09SizeWriter) RemoteAddr() net.Addr { return w.remote }
func (w *c09SizeWriter) TsigStatus() error    { return nil }
func (w *c09SizeWriter) TsigTimersOnly(bool)  {}
func (w *c09SizeWriter) Hijack()              {}
func (w *c09SizeWriter) Close() error         { return nil }
func (w *c09SizeWriter) WriteMsg(msg *dnsmessage.Msg) error {
	b, err := msg.Pack() // what miekg's server writer does with it
	if err != nil {
		return err
	}
	return w.keep(b)
}
func (w *c09SizeWriter) Write(b []byte) (int, error) { return len(b), w.keep(b) }
func (w *c09SizeWriter) keep(b []byte) error {
	cp := append([]byte(nil), b...)
	w.mu.Lock()
	w.raws = append(w.raws, cp)
	w.mu.Unlock()
	return nil
}

type c09SizeTCP struct {
	addr  string
	c     net.Conn
	stuck bool
}

func (t *c09SizeTCP) close() {
	if t.c != nil {
		_ = t.c.Close()
		t.c = nil
	}
}

// exchange writes the queries in one segment and reads as many frames.
func (t *c09SizeTCP) exchange(queries [][]byte) (raws [][]byte, err error) {
	if t.c == nil {
		if t.c, err = net.Dial("tcp4", t.addr); err != nil {
			t.c = nil
			return nil, err
		}
	}
	_ = t.c.SetDeadline(time.Now().Add(20 * time.Second)) // watchdog
	var all []byte
	for _, q := range queries {
		all = append(all, c09Frame(q)...)
	}
	if _, werr := t.c.Write(all); werr != nil {
		t.close()
		return nil, nil
	}
	for range queries {
		var l [2]byte
		if _, rerr := io.ReadFull(t.c, l[:]); rerr != nil {
			var ne net.Error
			t.stuck = errors.As(rerr, &ne) && ne.Timeout()
			t.close()
			return raws, nil
		}
		buf := make([]byte, binary.BigEndian.Uint16(l[:]))
		if _, rerr := io.ReadFull(t.c, buf); rerr != nil {
			var ne net.Error
			t.stuck = errors.As(rerr, &ne) && ne.Timeout()
			t.close()
			return raws, nil
		}
		raws = append(raws, buf)
	}
	return raws, nil
}

type c09SizeAsk struct {
	Ingress string   `json:"ingress"`
	Mode    string   `json:"mode,omitempty"`
	ID      uint16   `json:"id"`
	Qs      string   `json:"question"`
	Err     string   `json:"error,omitempty"`
	Got     []string `json:"received"`
	q       c09Q
	raws    [][]byte
	panicV  any
}

type c09L6 struct {
	e       *c09Env
	r       *rand.Rand
	seq     int
	ctrl    *DnsController
	handler *dnsHandler
	addr    string
	dst     netip.AddrPort
	world   *c09SizeWorld
	tcpA    *c09SizeTCP // the other client
	tcpB    *c09SizeTCP // the client whose replies are sized
	mu      sync.Mutex
	hist    []string
	n       int
	broken  atomic.Bool
}

func (x *c09L6) logf(format string, a ...any) {
	x.mu.Lock()
	if len(x.hist) < 120 {
		x.hist = append(x.hist, fmt.Sprintf(format, a...))
	} else {
		copy(x.hist, x.hist[1:])
		x.hist[len(x.hist)-1] = fmt.Sprintf(format, a...)
	}
	x.mu.Unlock()
}

func c09SizeBrief(raw []byte) string {
	var m dnsmessage.Msg
	if err := m.Unpack(raw); err != nil {
		return fmt.Sprintf("%d bytes, undecodable: %v", len(raw), err)
	}
	s := c09MsgString(&m)
	if len(s) > 260 {
		s = s[:260] + "..."
	}
	return fmt.Sprintf("%d bytes, %d answer records: %s", len(raw), len(m.Answer), s)
}

func (x *c09L6) query(id uint16, q c09Q) *dnsmessage.Msg {
	msg := new(dnsmessage.Msg)
	msg.Id = id
	msg.RecursionDesired = true
	msg.Question = []dnsmessage.Question{{Name: q.Name, Qtype: q.Type, Qclass: q.Class}}
	return msg
}

// ask sends one query through one ingress (tcp: on the given connection) and keeps the bytes received.
func (x *c09L6) ask(ingress string, tc *c09SizeTCP, id uint16, q c09Q) *c09SizeAsk {
	a := &c09SizeAsk{Ingress: ingress, ID: id, Qs: q.String(), q: q}
	x.mu.Lock()
	x.n++
	idx := x.n
	x.mu.Unlock()
	defer func() {
		for _, b := range a.raws {
			a.Got = append(a.Got, c09SizeBrief(b))
		}
	}()
	switch ingress {
	case "tcpfast":
		raws, err := tc.exchange([][]byte{c09QueryBytes(id, q)})
		if err != nil {
			a.Err = err.Error()
		}
		if tc.stuck {
			x.broken.Store(true)
		}
		a.raws = raws
	case "listener":
		wr := &c09SizeWriter{remote: &net.UDPAddr{IP: net.IPv4(127, 0, 0, 1), Port: 30000 + idx%20000}}
		func() {
			defer func() {
				if p := recover(); p != nil {
					a.panicV = p
				}
			}()
			x.handler.ServeDNS(wr, x.query(id, q))
		}()
		wr.mu.Lock()
		a.raws = wr.raws
		wr.mu.Unlock()
	default: // udp: what control/udp.go does for a transparent DNS datagram
		s, err := net.ListenUDP("udp4", &net.UDPAddr{IP: net.IPv4(127, 0, 0, 1)})
		if err != nil {
			a.Err = err.Error()
			return a
		}
		defer s.Close()
		src := s.LocalAddr().(*net.UDPAddr).AddrPort()
		req := &udpRequest{realSrc: src, realDst: x.dst, src: src, lConn: x.e.lConn, routingResult: &bpfRoutingResult{}}
		msg := x.query(id, q)
		herr := func() (err error) {
			defer func() {
				if p := recover(); p != nil {
					a.panicV = p
					err = fmt.Errorf("panic: %v", p)
				}
			}()
			err = x.ctrl.Handle_(context.Background(), msg, req)
			if err != nil && a.panicV == nil && !errors.Is(err, ErrDNSQueryConcurrencyLimitExceeded) {
				if errors.Is(err, ErrDNSTruncated) {
					_ = x.ctrl.sendDnsTruncatedResponse_(msg, req, nil)
				} else {
					_ = x.ctrl.sendDnsErrorResponse_(msg, dnsmessage.RcodeServerFailure, "ServeFail (dns fast path)", req, nil)
				}
			}
			return err
		}()
		if herr != nil {
			a.Err = herr.Error()
		}
		buf := make([]byte, 65536)
		_ = s.SetReadDeadline(time.Now().Add(300 * time.Millisecond)) // bounds the wait for "nothing came"; never a verdict
		if n, _, rerr := s.ReadFromUDPAddrPort(buf); rerr == nil {
			a.raws = append(a.raws, append([]byte(nil), buf[:n]...))
		}
	}
	return a
}

func c09SizeBucket(v int) (int, bool) {
	for _, b := range c09SizeBoundaries {
		if v >= b-2 && v <= b+2 {
			return b, true
		}
	}
	if v >= 65535-6 && v <= 65535 { // the largest legal message: approached from below only
		return 65535, true
	}
	return 0, false
}

// judge: the reply oracle on the bytes + size coverage by observation.
func (x *c09L6) judge(a *c09SizeAsk, path string, sp *c09SizeSpec) {
	m := x.e.m
	where := "L6/" + a.Ingress + "/" + path
	x.logf("%s %s id=%d (%s): %s %s", path, a.Ingress+a.Mode, a.ID, a.q, strings.Join(a.Got, " || "), a.Err)
	wit := func() any {
		x.mu.Lock()
		h := append([]string(nil), x.hist...)
		x.mu.Unlock()
		return map[string]any{"layer": "L6", "round": x.seq, "query": a, "path": path, "upstream_answer_shape": sp, "history_most_recent_last": h}
	}
	if a.panicV != nil {
		c09V(m, "panic-in-dns-path/"+where, fmt.Sprintf("panic while handling (%s): %v", a.q, a.panicV), wit())
		return
	}
	if len(a.raws) == 0 {
		m.Count("L6_queries_without_reply/"+a.Ingress, 1)
		return
	}
	if len(a.raws) > 1 {
		m.Count("L6_more_than_one_reply/"+a.Ingress, 1)
	}
	for _, raw := range a.raws {
		m.Eval(1)
		m.Count("L6_replies_judged", 1)
		rp := new(dnsmessage.Msg)
		if err := rp.Unpack(raw); err != nil {
			c09V(m, "reply-undecodable/"+where, fmt.Sprintf("client received %d bytes that do not parse as a DNS message: %v", len(raw), err), wit())
			continue
		}
		ok := c09JudgeClientMsg(m, where, a.ID, a.q, rp, wit)
		want := fmt.Sprintf("c09m:%04x:", c09Hash16(a.q.Name, a.q.Type))
		for _, rr := range rp.Answer {
			if t, is := rr.(*dnsmessage.TXT); is && ok {
				for _, s := range t.Txt {
					if strings.HasPrefix(s, "c09m:") && !strings.HasPrefix(s, want) {
						ok = false
						c09V(m, "reply-answers-other-question/"+where, fmt.Sprintf("reply to (%s) carries text generated for another (name,type): %.20s, want %s", a.q, s, want), wit())
						break
					}
				}
			}
		}
		end, werr := c09WireEnd(raw)
		switch {
		case werr != nil:
			m.Count("L6_wire_walk_failed_on_message_the_codec_accepts", 1)
		case end != len(raw) && a.Ingress == "tcpfast":
			c09V(m, "reply-frame-length-not-message-length/"+where,
				fmt.Sprintf("DNS-over-TCP frame announces %d bytes, the message in it ends after %d", len(raw), end), wit())
		case end != len(raw):
			m.Count("L6_bytes_after_message/"+a.Ingress, 1)
		default:
			m.Count("L6_message_fills_frame_exactly", 1)
		}
		if sp == nil {
			m.Count("L6_other_client_replies_judged", 1)
			continue
		}
		rp.Compress = false
		wire, unc := len(raw), rp.Len()
		key := "L6/" + a.Ingress + "/" + path
		bw, inW := c09SizeBucket(wire)
		bu, inU := c09SizeBucket(unc)
		if inW {
			m.Count(fmt.Sprintf("%s/wire@%d", key, bw), 1)
			m.Count(fmt.Sprintf("L6/%s/wire@%d", a.Ingress, bw), 1)
		}
		if inU {
			m.Count(fmt.Sprintf("%s/uncompressed@%d", key, bu), 1)
			m.Count(fmt.Sprintf("L6/%s/uncompressed@%d", a.Ingress, bu), 1)
		}
		if inW || inU {
			if !inW {
				bw = bu
			}
			m.Count(fmt.Sprintf("%s/at@%d", key, bw), 1) // wire size or uncompressed size within 2 bytes of the boundary
			if strings.HasPrefix(path, "concurrent") {
				m.Count("L6_concurrent_storm_replies_at_a_boundary/"+a.Ingress, 1)
			}
		}
		if wire == 1024 || unc == 1024 || wire == 512 || unc == 512 {
			m.Count("L6_replies_exactly_at_512_or_1024", 1)
		}
		for _, b := range c09SizeBoundaries {
			if wire+64 < unc && wire <= b && b <= unc {
				m.Count(fmt.Sprintf("%s/straddle@%d", key, b), 1)
				m.Count(fmt.Sprintf("L6/%s/straddle@%d", a.Ingress, b), 1) // over all paths
			}
		}
		if wire < unc {
			m.Count("L6_replies_name_compressed", 1)
		} else {
			m.Count("L6_replies_not_compressed", 1)
		}
		m.Distinct(fmt.Sprintf("L6|%s|%s|%s|B=%d|off=%d|aim=%s|ttl=%d", a.Ingress, a.Mode, path, sp.B, sp.Off, sp.Aim, sp.TTL))
	}
}

// ---- shapes of a pass ---------------------------------------------------------------------------------

type c09SizeShape struct {
	b, off int
	aim    string
	ttl    uint32
	rrType uint16 // straddle: A / AAAA
	n      int
}

func c09SizeShapes(r *rand.Rand) []c09SizeShape {
	var out []c09SizeShape
	for _, b := range c09SizeBoundaries {
		for off := -3; off <= 3; off++ {
			o := off
			if b == 65535 {
				o = off - 3 // -6..0
			}
			for _, aim := range []string{"uncompressed", "wire"} {
				for _, ttl := range []uint32{300, 0} {
					out = append(out, c09SizeShape{b: b, off: o, aim: aim, ttl: ttl})
				}
			}
		}
	}
	// address record sets: compressed size far below the uncompressed size, one of them on either side of a boundary
	for _, n := range []int{12, 14, 16, 18, 22, 26, 28, 31, 32, 34, 36, 40, 44, 48, 56, 60, 62, 64, 70, 100, 120, 127, 128, 130, 160, 200, 250} {
		for _, ttl := range []uint32{300, 0} {
			t := uint16(dnsmessage.TypeA)
			if r.IntN(3) == 0 {
				t = dnsmessage.TypeAAAA
			}
			out = append(out, c09SizeShape{aim: "straddle", ttl: ttl, rrType: t, n: n})
		}
	}
	r.Shuffle(len(out), func(i, j int) { out[i], out[j] = out[j], out[i] })
	return out
}

var c09SizeNameSeq atomic.Int64

func (x *c09L6) newSpec(sh c09SizeShape, slow bool) *c09SizeSpec {
	name := fmt.Sprintf("s%d%s", c09SizeNameSeq.Add(1), c09SizeZone)
	if x.r.IntN(2) == 0 {
		name = fmt.Sprintf("s%d.%s%s", c09SizeNameSeq.Add(1), strings.Repeat("p", 1+x.r.IntN(12)), c09SizeZone)
	}
	var sp *c09SizeSpec
	if sh.aim == "straddle" {
		sp = &c09SizeSpec{Name: name, Type: sh.rrType, Kind: "rrset", N: sh.n, TTL: sh.ttl}
		sp.UpWire, sp.UpUnc = c09SizeMeasure(sp.build(1, name, dnsmessage.ClassINET))
	} else {
		// few large records (wire close to uncompressed) or many small ones and one padded (wire far below)
		n := 1
		if x.r.IntN(2) == 0 {
			n = 2 + x.r.IntN(8)
			if sh.b >= 4096 {
				n = 10 + x.r.IntN(40)
			}
		}
		sp = c09SizeTxtSpec(name, n, sh.b+sh.off, sh.aim == "wire", sh.ttl)
		if sp == nil {
			sp = c09SizeTxtSpec(name, 1, sh.b+sh.off, sh.aim == "wire", sh.ttl)
		}
		if sp == nil {
			return nil
		}
	}
	if sp.UpUnc > 65535 {
		// not a legal message once dae writes it without name compression (observed: it does, for every
		// reply served from the cache); replies that only fit compressed are outside this layer
		return nil
	}
	sp.B, sp.Off, sp.Aim, sp.Slow = sh.b, sh.off, sh.aim, slow
	x.world.mu.Lock()
	x.world.specs[strings.ToLower(name)] = sp
	x.world.mu.Unlock()
	return sp
}

// legal: a reply of that size can be carried to a client of that ingress at all (UDP payload limit).
func c09SizeLegal(ingress string, sp *c09SizeSpec) bool {
	return ingress != "udp" || sp.UpUnc <= 65000
}

func (x *c09L6) otherQ() c09Q {
	return c09Q{Name: c09MixCase(x.r, c09NamePool[x.r.IntN(len(c09NamePool))]), Type: dnsmessage.TypeA, Class: dnsmessage.ClassINET}
}
func (x *c09L6) id() uint16 {
	if x.r.IntN(3) == 0 {
		return uint16(7 + x.r.IntN(2))
	}
	return uint16(0x100 + x.r.IntN(0xfe00))
}

// serial: through one ingress, the other client's question first, then the sized one.
func (x *c09L6) serial(ingress string, sp *c09SizeSpec) {
	m := x.e.m
	q := c09Q{Name: c09MixCase(x.r, sp.Name), Type: sp.Type, Class: dnsmessage.ClassINET}
	oq, oid, id := x.otherQ(), x.id(), x.id()
	before := sp.calls.Load()
	var oa, a *c09SizeAsk
	if ingress == "tcpfast" && x.r.IntN(2) == 0 {
		// both questions back to back on ONE connection: the same goroutine of dae writes both replies
		oa = &c09SizeAsk{Ingress: ingress, Mode: "/one-connection", ID: oid, Qs: oq.String(), q: oq}
		a = &c09SizeAsk{Ingress: ingress, Mode: "/one-connection", ID: id, Qs: q.String(), q: q}
		raws, err := x.tcpB.exchange([][]byte{c09QueryBytes(oid, oq), c09QueryBytes(id, q)})
		if err != nil {
			a.Err = err.Error()
		}
		if x.tcpB.stuck {
			x.broken.Store(true)
		}
		if len(raws) == 2 { // matched to the two queries by question, in order otherwise
			var first dnsmessage.Msg
			if first.Unpack(raws[0]) == nil && len(first.Question) == 1 && strings.EqualFold(first.Question[0].Name, q.Name) {
				raws[0], raws[1] = raws[1], raws[0]
				m.Count("L6_replies_out_of_query_order", 1)
			}
		}
		if len(raws) > 0 {
			oa.raws = raws[:1]
		}
		if len(raws) > 1 {
			a.raws = raws[1:]
		}
		for _, b := range oa.raws {
			oa.Got = append(oa.Got, c09SizeBrief(b))
		}
		for _, b := range a.raws {
			a.Got = append(a.Got, c09SizeBrief(b))
		}
		m.Count("L6_tcp_both_questions_on_one_connection", 1)
	} else {
		oa = x.ask(ingress, x.tcpA, oid, oq)
		a = x.ask(ingress, x.tcpB, id, q)
		if ingress == "tcpfast" {
			a.Mode, oa.Mode = "/two-connections", "/two-connections"
			m.Count("L6_tcp_two_persistent_connections", 1)
		}
	}
	path := "cache-hit"
	if sp.calls.Load() != before {
		path = "fresh"
	}
	x.judge(oa, "other-client", nil)
	x.judge(a, path, sp)
}

// burst: identical questions from every ingress at once against a slow upstream, other clients in between.
func (x *c09L6) burst(sp *c09SizeSpec) {
	m := x.e.m
	type job struct {
		ingress string
		id      uint16
		q       c09Q
		sized   bool
		a       *c09SizeAsk
	}
	var jobs []*job
	for _, in := range c09SizeIngresses {
		if !c09SizeLegal(in, sp) {
			continue
		}
		jobs = append(jobs, &job{ingress: in, id: x.id(), q: c09Q{Name: c09MixCase(x.r, sp.Name), Type: sp.Type, Class: dnsmessage.ClassINET}, sized: true})
		jobs = append(jobs, &job{ingress: in, id: x.id(), q: x.otherQ()})
	}
	if x.r.IntN(2) == 0 {
		jobs = append(jobs, &job{ingress: "tcpfast", id: x.id(), q: c09Q{Name: sp.Name, Type: sp.Type, Class: dnsmessage.ClassINET}, sized: true})
	}
	x.r.Shuffle(len(jobs), func(i, j int) { jobs[i], jobs[j] = jobs[j], jobs[i] })
	before := sp.calls.Load()
	var wg sync.WaitGroup
	for _, j := range jobs {
		wg.Add(1)
		go func(j *job) {
			defer wg.Done()
			var tc *c09SizeTCP
			if j.ingress == "tcpfast" {
				tc = &c09SizeTCP{addr: x.addr}
				defer tc.close()
			}
			j.a = x.ask(j.ingress, tc, j.id, j.q)
		}(j)
	}
	wg.Wait()
	calls := sp.calls.Load() - before
	path := "identical-burst"
	if calls == 1 {
		m.Count("L6_bursts_one_upstream_resolution", 1)
	} else {
		m.Count("L6_bursts_several_upstream_resolutions", 1)
	}
	for _, j := range jobs {
		if j.sized {
			x.judge(j.a, path, sp)
		} else {
			x.judge(j.a, "other-client", nil)
		}
	}
}

// storm: everything the round made, asked again by several goroutines over all ingresses at once.
func (x *c09L6) storm(specs []*c09SizeSpec) {
	if len(specs) == 0 {
		return
	}
	type job struct {
		ingress string
		id      uint16
		sp      *c09SizeSpec
		q       c09Q
		a       []*c09SizeAsk
	}
	nG := 6
	per := make([][]*job, nG)
	for g := range per {
		for k := 0; k < 6; k++ {
			j := &job{ingress: c09SizeIngresses[x.r.IntN(3)], id: x.id()}
			if sp := specs[x.r.IntN(len(specs))]; x.r.IntN(3) != 0 && c09SizeLegal(j.ingress, sp) {
				j.sp = sp
				j.q = c09Q{Name: c09MixCase(x.r, j.sp.Name), Type: j.sp.Type, Class: dnsmessage.ClassINET}
			} else {
				j.q = x.otherQ()
			}
			per[g] = append(per[g], j)
		}
	}
	calls := map[*c09SizeSpec]int32{}
	for _, sp := range specs {
		calls[sp] = sp.calls.Load()
	}
	var wg sync.WaitGroup
	for g := range per {
		wg.Add(1)
		go func(jobs []*job) {
			defer wg.Done()
			tc := &c09SizeTCP{addr: x.addr} // one persistent connection per goroutine
			defer tc.close()
			for _, j := range jobs {
				j.a = append(j.a, x.ask(j.ingress, tc, j.id, j.q))
			}
		}(per[g])
	}
	wg.Wait()
	for _, jobs := range per {
		for _, j := range jobs {
			for _, a := range j.a {
				switch {
				case j.sp == nil:
					x.judge(a, "other-client", nil)
				case j.sp.calls.Load() == calls[j.sp]:
					x.judge(a, "concurrent-cache-hit", j.sp)
				default:
					x.judge(a, "concurrent", j.sp)
				}
			}
		}
	}
}

// ---- the round ---------------------------------------------------------------------------------------

func (e *c09Env) c09L6Round(r *rand.Rand, seq int, shapes []c09SizeShape) {
	m := e.m
	if e.l4Broken {
		return
	}
	tp := c09Topology{name: "u1-udp", scheme: "udp", upstream: netip.MustParseAddrPort("127.0.0.1:5397"), dsts: e.replyAddrs[:1]}
	switch r.IntN(3) {
	case 0:
		tp = c09Topology{name: "u1-tcp", scheme: "tcp", upstream: netip.MustParseAddrPort("127.0.0.1:5398"), dsts: e.replyAddrs[:1]}
	case 1:
		tp.optimistic, tp.name = true, "u1-udp+optimistic-cache"
	}
	world := &c09SizeWorld{specs: map[string]*c09SizeSpec{}}
	dnsForwarderFactory = func(up *componentdns.Upstream, da dialArgument, _ *logrus.Logger) (DnsForwarder, error) {
		return &c09SizeFwd{w: world}, nil
	}
	ctrl, err := e.c09NewController(tp, nil)
	if err != nil {
		m.Inconclusive("L6: cannot build controller: %v", err)
		return
	}
	plane := &ControlPlane{log: e.log, controlPlaneDNSRuntime: controlPlaneDNSRuntime{dnsController: ctrl}}
	lst := &DNSListener{log: e.log}
	lst.controller.Store(plane)
	ln, err := net.Listen("tcp4", "127.0.0.1:0")
	if err != nil {
		m.Inconclusive("L6: cannot listen on loopback: %v", err)
		_ = ctrl.Close()
		return
	}
	x := &c09L6{e: e, r: r, seq: seq, ctrl: ctrl, handler: &dnsHandler{listener: lst, log: e.log}, addr: ln.Addr().String(), dst: tp.dsts[0], world: world}
	x.tcpA, x.tcpB = &c09SizeTCP{addr: x.addr}, &c09SizeTCP{addr: x.addr}
	var srvWg sync.WaitGroup
	var panics atomic.Pointer[string]
	go func() {
		for {
			c, aerr := ln.Accept()
			if aerr != nil {
				return
			}
			srvWg.Add(1)
			go func(c net.Conn) {
				defer srvWg.Done()
				defer c.Close()
				defer func() {
					if p := recover(); p != nil {
						s := fmt.Sprint(p)
						panics.CompareAndSwap(nil, &s)
					}
				}()
				src := c.RemoteAddr().(*net.TCPAddr).AddrPort()
				_, _ = plane.handleTCPDnsFastPath(context.Background(), c, bufio.NewReader(c), src, x.dst, &bpfRoutingResult{})
			}(c)
		}
	}()
	defer func() {
		x.tcpA.close()
		x.tcpB.close()
		_ = ln.Close()
		_ = ctrl.Close()
		srvWg.Wait()
		if p := panics.Load(); p != nil {
			c09V(m, "panic-in-dns-path/L6/tcpfast", "panic in handleTCPDnsFastPath: "+*p, map[string]any{"layer": "L6", "round": seq})
		}
		if x.broken.Load() {
			m.Inconclusive("L6 round %d: no reply and no close within 20s on a DNS-over-TCP connection (watchdog)", seq)
			e.l4Broken = true
		}
	}()

	var made []*c09SizeSpec
	for i, sh := range shapes {
		if x.broken.Load() {
			return
		}
		sp := x.newSpec(sh, false)
		if sp == nil {
			m.Count("L6_shapes_not_constructible", 1)
			continue
		}
		made = append(made, sp)
		m.Count("L6_shapes", 1)
		// every ingress in turn; which one meets the first (relayed) answer rotates
		for k := range c09SizeIngresses {
			if in := c09SizeIngresses[(i+seq+k)%len(c09SizeIngresses)]; c09SizeLegal(in, sp) {
				x.serial(in, sp)
			}
		}
		// the same shape under a new name against a slow upstream: one resolution, every ingress waits for it
		if sh.off >= -1 && sh.off <= 1 || sh.aim == "straddle" {
			if bs := x.newSpec(sh, true); bs != nil {
				made = append(made, bs)
				x.burst(bs)
				if in := c09SizeIngresses[(i+seq)%len(c09SizeIngresses)]; c09SizeLegal(in, bs) {
					x.serial(in, bs)
				}
			}
		}
	}
	x.storm(made)
	m.Count("L6_rounds", 1)
	m.Count("L6_other_client_upstream_answers", world.small.Load())
	if m.WantSample() && len(made) > 0 {
		m.Sample(map[string]any{"layer": "L6", "topology": tp.name, "first_shape": made[0], "shapes": len(made)})
	}
}

// c09L6Required: every (ingress x path x boundary) class that the generator produces by construction.
func c09L6Required() []string {
	out := []string{"L6_rounds", "L6_replies_judged", "L6_other_client_replies_judged", "L6_message_fills_frame_exactly",
		"L6_tcp_both_questions_on_one_connection", "L6_tcp_two_persistent_connections", "L6_bursts_one_upstream_resolution",
		"L6_replies_name_compressed", "L6_replies_not_compressed", "L6_replies_exactly_at_512_or_1024"}
	for _, in := range c09SizeIngresses {
		for _, b := range c09SizeBoundaries {
			if in == "udp" && b == 65535 {
				continue // not a legal datagram size
			}
			for _, p := range []string{"fresh", "cache-hit", "identical-burst"} {
				out = append(out, fmt.Sprintf("L6/%s/%s/at@%d", in, p, b))
			}
			out = append(out, fmt.Sprintf("L6/%s/wire@%d", in, b), fmt.Sprintf("L6/%s/uncompressed@%d", in, b))
		}
		// compressed far below uncompressed, one on either side of the boundary: what dae relays compressed
		for _, b := range []int{512, 1024, 1232, 4096} {
			out = append(out, fmt.Sprintf("L6/%s/straddle@%d", in, b))
		}
		out = append(out, "L6_concurrent_storm_replies_at_a_boundary/"+in)
	}
	return out
}
