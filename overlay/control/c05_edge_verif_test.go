//go:build linux

package control

// C05 monitor, two further workload classes (same oracles as c05_relay_verif_test.go):
//
//   - trickled first flights: the bytes a detection step waits for (TLS record, HTTP Host line,
//     DNS-over-TCP frame on port 53) arrive as k fragments spaced d apart with d < window < k*d.
//     The statement bounds the delay a detection deadline may cause by its window; the existing
//     detection-delay verdict (composition time <= sum of the windows of the probes that ran + 2 s,
//     drawn only while the scheduler-lag probes were quiet) is applied to them.
//   - back-pressure on the first write: the socket the copy path writes to first has a tiny send
//     buffer and its peer a tiny receive buffer and does not read yet, while a first flight of
//     prefix + 4..256 KiB is already queued: the kernel answers the first (gather) write with short
//     counts and EAGAIN. The conservation oracle decides.

import (
	"bytes"
	"encoding/json"
	"errors"
	"fmt"
	"math/rand/v2"
	"net"
	"net/netip"
	"strings"
	"sync"
	"sync/atomic"
	"syscall"
	"time"

	vk "github.com/daeuniverse/dae/verifkit"
	"golang.org/x/sys/unix"
)

func c05If[T any](c bool, a, b T) T {
	if c {
		return a
	}
	return b
}

func c05SetListenerRcvBuf(ln *net.TCPListener, n int) {
	if rc, err := ln.SyscallConn(); err == nil {
		_ = rc.Control(func(fd uintptr) { _ = unix.SetsockoptInt(int(fd), unix.SOL_SOCKET, unix.SO_RCVBUF, n) })
	}
}

// c05DialLoopback dials addr; rcvBuf > 0 sets SO_RCVBUF before the handshake.
func c05DialLoopback(addr *net.TCPAddr, rcvBuf int) (*net.TCPConn, error) {
	if rcvBuf <= 0 {
		return net.DialTCP("tcp", nil, addr)
	}
	d := net.Dialer{Control: func(_, _ string, rc syscall.RawConn) error {
		return rc.Control(func(fd uintptr) { _ = unix.SetsockoptInt(int(fd), unix.SOL_SOCKET, unix.SO_RCVBUF, rcvBuf) })
	}}
	c, err := d.Dial("tcp", addr.String())
	if err != nil {
		return nil, err
	}
	return c.(*net.TCPConn), nil
}

// ---------------------------------------------------------------------------
// trickled first flights

type c05TrickleState struct {
	sent     atomic.Int32 // fragments written so far
	mu       sync.Mutex
	sentAtMs []float64 // since composition start
	maxGap   time.Duration
	cuts     []int
	// filled at the end of the composition
	sentAtCompose int32
}

// c05TrickleCuts returns the fragment end offsets (ascending, last = len(pre)).
func c05TrickleCuts(cs *c05Case, pre []byte) []int {
	first, end := 5, len(pre)
	fr := rand.New(rand.NewPCG(cs.CaseSeed, 0x7121C))
	switch cs.Pre {
	case "http-longhost":
		// everything up to the first bytes of the Host value at once; the value itself trickles; the
		// rest of the head comes with the last fragment
		first = bytes.Index(pre, []byte("Host: ")) + 6 + 1 + fr.IntN(6)
		end = bytes.Index(pre, []byte("\r\nAccept")) + fr.IntN(3)
	case "tls-small", "tls-large", "tlsish-garbage":
		first = c05Pick(fr, 5, 5, 6, 11, 16, 17, 43) // the record header has arrived
	default: // port 53: the length prefix alone, half of it, or a little more
		first = c05Pick(fr, 1, 2, 2, 3, 14)
	}
	k := cs.Trickle
	if first >= end {
		first = end / 2
	}
	if k-1 > end-first {
		k = end - first + 1
	}
	cuts := []int{first}
	for i := 1; i < k-1; i++ {
		c := first + (end-first)*i/(k-1)
		if c > cuts[len(cuts)-1] {
			cuts = append(cuts, c)
		}
	}
	return append(cuts, len(pre))
}

func (x *c05Run) sendTrickle(pre []byte, window time.Duration) bool {
	cuts := c05TrickleCuts(x.cs, pre)
	x.trk.mu.Lock()
	x.trk.cuts = cuts
	x.trk.mu.Unlock()
	d := time.Duration(x.cs.TrickleMs) * time.Millisecond
	from := 0
	var last time.Time
	for i, to := range cuts {
		if i > 0 {
			time.Sleep(d)
		}
		if x.abort.Load() {
			return false
		}
		if !x.cli.send(x, nil, int64(from), int64(to), "one") {
			return false
		}
		now := time.Now()
		x.trk.mu.Lock()
		x.trk.sentAtMs = append(x.trk.sentAtMs, ms(int64(now.Sub(x.t0))))
		if i > 0 && now.Sub(last) > x.trk.maxGap {
			x.trk.maxGap = now.Sub(last)
		}
		x.trk.mu.Unlock()
		last = now
		x.trk.sent.Add(1)
		from = to
	}
	x.ev("client: first flight of %d bytes trickled in %d fragments every %d ms (largest gap %.0f ms, window %.0f ms)",
		len(pre), len(cuts), x.cs.TrickleMs, ms(int64(x.trk.maxGap)), ms(int64(window)))
	if x.trk.maxGap < window {
		x.m.Count("trickle_every_gap_shorter_than_window", 1)
	} else {
		x.m.Count("trickle_some_gap_reached_window_under_load", 1)
	}
	return true
}

func (x *c05Run) noteTrickleAtComposition() {
	n := x.trk.sent.Load()
	x.trk.sentAtCompose = n
	x.trk.mu.Lock()
	total := len(x.trk.cuts)
	x.trk.mu.Unlock()
	kind := "sniff"
	if x.cs.Stack == "dns53" {
		kind = "dns53"
	}
	if total > 0 && int(n) < total {
		// the detection step gave up (or decided) while fragments were still outstanding
		x.m.Count("trickle_"+kind+"_detection_ended_mid_flight", 1)
	} else {
		x.m.Count("trickle_"+kind+"_detection_ended_after_flight", 1)
	}
	x.m.Count("trickle_first_bytes_"+x.cs.Pre, 1)
	if to := time.Now(); c05HB.settle() && c05HB.maxLag(x.t0, to) < c05LagLimit {
		x.m.Count("trickle_detection_delay_judged", 1)
		c05TrickleJudged.Add(1)
	}
}

// A composition that outlasted its windows + 2 s on a trickled first flight is a candidate only. It
// is judged at the end of the run, when the bulk traffic is over: the composition is repeated on a
// fresh connection carrying the same flight with the same spacing (a logic error does not depend on
// the run; a starved process does) and the verdict is drawn from that repetition alone - it
// outlasted its windows + 2 s again while the lag probes were quiet and every gap between two
// fragments stayed below the window. A repetition spoilt by scheduler lag is tried again (three
// attempts); only the composition is repeated, nothing is relayed.

// c05TrickleJudged: trickled flights whose detection phase ran while the lag probes were quiet
var c05TrickleJudged atomic.Int64

type c05TrickleCand struct {
	x   *c05Run
	pre []byte
	dst netip.AddrPort
	rr  *bpfRoutingResult
}

type c05TrickleCandList struct {
	mu   sync.Mutex
	list []*c05TrickleCand
}

var c05TrickleCands c05TrickleCandList

func (l *c05TrickleCandList) add(x *c05Run, pre []byte, dst netip.AddrPort, rr *bpfRoutingResult) {
	x.m.Count("trickle_detection_delay_candidate", 1)
	l.mu.Lock()
	l.list = append(l.list, &c05TrickleCand{x: x, pre: pre, dst: dst, rr: rr})
	l.mu.Unlock()
}

func (l *c05TrickleCandList) judge(m *vk.Monitor) {
	l.mu.Lock()
	pending := l.list
	l.list = nil
	l.mu.Unlock()
	for attempt := 0; attempt < 3 && len(pending) > 0; attempt++ {
		var mu sync.Mutex
		var again []*c05TrickleCand
		var wg sync.WaitGroup
		for _, c := range pending {
			wg.Add(1)
			go func() {
				defer wg.Done()
				switch c.x.trickleDelayRepeats(c.pre, c.dst, c.rr, attempt) {
				case 1:
					c.x.violate("detection-delay/"+c.x.comp.outcome, fmt.Sprintf("protocol detection delayed the connection by %.0f ms, windows sum to %.0f ms",
						ms(int64(c.x.composeDur)), ms(int64(c.x.comp.windows))), c.x.trickleWitness())
				case 0:
					m.Count("trickle_detection_delay_not_repeated", 1)
				default:
					mu.Lock()
					again = append(again, c)
					mu.Unlock()
				}
			}()
		}
		wg.Wait()
		pending = again
	}
	if len(pending) > 0 {
		m.Count("trickle_detection_delay_candidate_unjudged_scheduler_lag", int64(len(pending)))
	}
}

// trickleDelayRepeats: 1 = the repetition outlasted its windows + 2 s (judged), 0 = it did not,
// -1 = no verdict (harness error, scheduler lag, a gap that reached the window).
func (x *c05Run) trickleDelayRepeats(pre []byte, dst netip.AddrPort, rr *bpfRoutingResult, attempt int) int {
	x.m.Count("trickle_detection_delay_candidate_rechecked", 1)
	ln, err := c05ListenLoopback()
	if err != nil {
		return -1
	}
	defer ln.Close()
	cli, err := net.DialTCP("tcp", nil, ln.Addr().(*net.TCPAddr))
	if err != nil {
		return -1
	}
	defer cli.Close()
	lConn, err := ln.AcceptTCP()
	if err != nil {
		return -1
	}
	defer lConn.Close()
	cuts := c05TrickleCuts(x.cs, pre)
	window := time.Duration(x.cs.WindowMs) * time.Millisecond
	if x.cs.Stack == "dns53" {
		window = TCPDNSFirstReadTimeout
	}
	stop := make(chan struct{})
	defer close(stop)
	var wideGap atomic.Bool
	go func() {
		from := 0
		var last time.Time
		for i, to := range cuts {
			if i > 0 {
				select {
				case <-stop:
					return
				case <-time.After(time.Duration(x.cs.TrickleMs) * time.Millisecond):
				}
			}
			if _, err := cli.Write(pre[from:to]); err != nil {
				return
			}
			now := time.Now()
			if i > 0 && now.Sub(last) >= window {
				wideGap.Store(true)
			}
			last = now
			from = to
		}
	}()
	// another destination address: an earlier attempt may have left an entry in the negative sniff cache
	a := dst.Addr().As4()
	a[1] = byte(6 + attempt)
	var comp c05Composed
	c0 := time.Now()
	_, _ = c05Compose(x.cp, lConn, netip.AddrPortFrom(netip.AddrFrom4(a), dst.Port()), rr, &comp)
	dur := time.Since(c0)
	if comp.sniffer != nil {
		_ = comp.sniffer.Close()
	}
	x.ev("recheck %d: composition over the same trickled flight on a fresh connection took %.0f ms (windows %.0f ms, outcome %s)", attempt+1, ms(int64(dur)), ms(int64(comp.windows)), comp.outcome)
	if !x.calm(c0) || wideGap.Load() {
		return -1
	}
	if dur > comp.windows+2*time.Second {
		return 1
	}
	return 0
}

func (x *c05Run) trickleWitness() map[string]any {
	x.trk.mu.Lock()
	defer x.trk.mu.Unlock()
	return map[string]any{"trickle": map[string]any{
		"fragment_end_offsets": append([]int(nil), x.trk.cuts...), "fragments_sent_at_ms": append([]float64(nil), x.trk.sentAtMs...),
		"fragments_sent_when_detection_ended": x.trk.sentAtCompose, "largest_gap_ms": ms(int64(x.trk.maxGap))}}
}

// watchdogExpired: the case did not finish within 120 s. That alone is INCONCLUSIVE. One situation
// is judged: dae's detection steps (DNS-over-TCP probe, prefetch, sniffing: windows of at most 5 s +
// 2 x 400 ms here, armed when the step starts) were entered more than 100 s ago and have still not
// returned, and the lag probes saw no stall during the last 20 s (looked at up to three times, 20 s
// apart) - an interval in which every one of those windows fits several times over, so a detection
// step that honours its deadline would have returned inside it however the machine behaved before. Nothing of the composition's own state is
// read here (the step is still running).
func (x *c05Run) watchdogExpired() {
	x.evMu.Lock()
	evs := append([]string(nil), x.events...)
	x.evMu.Unlock()
	cj, _ := json.Marshal(x.cs)
	fmt.Printf("C05 watchdog: case %s\n  %s\n", cj, strings.Join(evs, "\n  "))
	start := x.composeStartNs.Load()
	for attempt := 0; start != 0 && x.composeEndNs.Load() == 0 && time.Since(time.Unix(0, start)) > 100*time.Second; attempt++ {
		now := time.Now()
		if c05HB.settle() && x.composeEndNs.Load() == 0 && c05HB.maxLag(now.Add(-20*time.Second), now) < c05LagLimit {
			kind := c05If(x.cs.Stack == "dns53", "dns53", "sniff")
			sig := "detection-delay/never-ended/" + kind
			c05SigMu.Lock()
			c05SigSeen[sig]++
			first := c05SigSeen[sig] == 1
			c05SigMu.Unlock()
			if first {
				x.m.Violation(sig, fmt.Sprintf("protocol detection entered %.0f s ago has not returned (its windows sum to at most %.1f s)",
					now.Sub(time.Unix(0, start)).Seconds(), (TCPDNSFirstReadTimeout+2*x.cp.sniffingTimeout).Seconds()),
					map[string]any{"case": x.cs, "events": evs, "detection_running_for_ms": ms(int64(now.Sub(time.Unix(0, start))))})
			}
			return
		}
		if attempt == 2 {
			x.m.Count("detection_still_running_at_watchdog_unjudged_scheduler_lag", 1)
			break
		}
		time.Sleep(20 * time.Second) // the last 20 s were not quiet: look at the next 20 s
	}
	x.m.Inconclusive("case %d watchdog (120 s)", x.cs.ID)
}

// ---------------------------------------------------------------------------
// case generation for the two classes

func c05EdgeBase(r *rand.Rand, id *int) *c05Case {
	cs := &c05Case{ID: *id, CaseSeed: r.Uint64(), RConn: c05Pick(r, "tcp", "tcp", "tcp", "opaque"),
		SegC: c05Pick(r, "one", "mss", "rand"), SegS: c05Pick(r, "one", "mss", "rand"),
		SrvStart: c05Pick(r, "immediate", "after-first-byte"), Gap: "none"}
	*id++
	cs.Close = c05Pick(r, "never", "client-first", "server-first", "simul")
	cs.Eager = cs.Close != "never" && r.IntN(3) == 0
	return cs
}

// c05GenTrickleSniff: trickled first flights, sniffing window. Every gap is ~0.6 window; the flight
// lasts 2 windows + 3.5 s, i.e. 1.5 s beyond what the detection-delay verdict tolerates.
func c05GenTrickleSniff(r *rand.Rand, id *int, n int) []*c05Case {
	var out []*c05Case
	sniffPre := []string{"tls-small", "tls-large", "tlsish-garbage", "http-longhost"}
	for i := 0; i < n; i++ {
		cs := c05EdgeBase(r, id)
		cs.Stack, cs.Arrival = "sniff", "trickle"
		cs.Pre = sniffPre[i%len(sniffPre)]
		cs.WindowMs = c05Pick(r, 150, 400, 400)
		cs.DstPort = c05Pick[uint16](r, 443, 8443, 80)
		cs.TrickleMs = cs.WindowMs * (55 + r.IntN(11)) / 100
		cs.Trickle = (2*cs.WindowMs+3500)/cs.TrickleMs + 2
		cs.C2S, cs.S2C = c05Pick(r, 0, 17, 1448, 5000), c05Pick(r, 1, 100, 4096)
		cs.DialDelayMs = c05Pick(r, 0, 3)
		out = append(out, cs)
	}
	return out
}

func c05GenEdgeCases(r *rand.Rand, firstID int) []*c05Case {
	id := firstID
	base := func() *c05Case { return c05EdgeBase(r, &id) }
	out := c05GenTrickleSniff(r, &id, vk.Scale(12, 80))
	// trickled first flights, DNS-over-TCP detection window (5 s) on port 53: frames that are not
	// client queries (a query would be answered by dae itself)
	dnsPre := []string{"bad-parse", "dns-response", "partial-frame"}
	for i, n := 0, vk.Scale(4, 24); i < n; i++ {
		cs := base()
		cs.Stack, cs.Arrival, cs.DstPort = "dns53", "trickle", 53
		cs.Pre = dnsPre[i%len(dnsPre)]
		cs.WindowMs = c05Pick(r, 60, 150, 400)
		w := int(TCPDNSFirstReadTimeout / time.Millisecond)
		cs.TrickleMs = w * (50 + r.IntN(11)) / 100
		cs.Trickle = (w+3500)/cs.TrickleMs + 2
		cs.C2S, cs.S2C = c05Pick(r, 0, 17, 1448), c05Pick(r, 1, 100, 4096)
		out = append(out, cs)
	}
	// back-pressure on the first write
	for i, n := 0, vk.Scale(40, 500); i < n; i++ {
		cs := base()
		cs.Arrival = "before"
		cs.WindowMs = c05Pick(r, 60, 150, 400)
		cs.RConn = c05If(i%4 == 3, "opaque", "tcp")
		switch x := i % 10; {
		case x < 6:
			cs.Stack = "sniff"
			cs.Pre = []string{"garbage", "tls-small", "http", "garbage", "tls-large", "http-big", "httpish-garbage"}[(i/10*6+x)%7]
			cs.DstPort = c05Pick[uint16](r, 80, 443, 8443, 5222)
		case x < 8:
			cs.Stack, cs.DstPort = "dns53", 53
			cs.Pre = c05Pick(r, "short-len", "big-len", "bad-parse", "dns-response")
		default:
			cs.Stack = "plain"
			cs.Pre = c05Pick(r, "none", "garbage", "http")
			cs.DstPort = c05Pick[uint16](r, 80, 22, 8080)
		}
		cs.TinyBuf = c05Pick(r, 2048, 4096, 4096, 8192, 16384)
		cs.ReadDelayMs = c05Pick(r, 60, 150, 300)
		cs.DialDelayMs = c05Pick(r, 3, 15, 40)
		cs.C2S = c05Pick(r, 4096, 16384, 32768-16, 32768, 32769, 65536, 100000, 262144)
		cs.S2C = c05Pick(r, 0, 17, 4096, 65536)
		if i%3 == 0 {
			cs.TinyBoth = true
			cs.S2C = c05Pick(r, 16384, 32768, 65537, 262144)
			cs.SrvStart = "immediate"
		}
		out = append(out, cs)
	}
	return out
}

// ---------------------------------------------------------------------------
// observation of the kernel's answers to dae's gather writes (coverage only, no verdict): the
// package's writev indirection is wrapped by a pass-through.

type c05WritevObs struct {
	calls, short, shortInside, eagain, eagainAfterShortInside atomic.Int64
	pending                                                   sync.Map // fd -> struct{}: last answer on fd was a short count ending inside a segment
}

func (o *c05WritevObs) install() (restore func()) {
	old := relayWritevFunc
	relayWritevFunc = func(fd int, iovs [][]byte) (int, error) {
		n, err := old(fd, iovs)
		o.calls.Add(1)
		total := 0
		for _, v := range iovs {
			total += len(v)
		}
		switch {
		case err != nil && (errors.Is(err, syscall.EAGAIN) || errors.Is(err, syscall.EWOULDBLOCK)):
			o.eagain.Add(1)
			if _, ok := o.pending.LoadAndDelete(fd); ok {
				o.eagainAfterShortInside.Add(1)
			}
		case n > 0 && n < total:
			o.short.Add(1)
			rem, inside := n, false
			for _, v := range iovs {
				if rem < len(v) {
					inside = rem > 0
					break
				}
				rem -= len(v)
			}
			if inside {
				o.shortInside.Add(1)
				o.pending.Store(fd, struct{}{})
			} else {
				o.pending.Delete(fd)
			}
		default:
			o.pending.Delete(fd)
		}
		return n, err
	}
	return func() { relayWritevFunc = old }
}

func (o *c05WritevObs) report(m *vk.Monitor) {
	m.Count("gather_writev_calls", o.calls.Load())
	m.Count("gather_writev_short", o.short.Load())
	m.Count("gather_writev_short_ending_inside_a_segment", o.shortInside.Load())
	m.Count("gather_writev_eagain", o.eagain.Load())
	m.Count("gather_writev_short_inside_segment_then_eagain", o.eagainAfterShortInside.Load())
}
