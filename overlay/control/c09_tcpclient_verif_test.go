package control

// C09 monitor, layer L4: persistent DNS-over-TCP CLIENT connections through dae's
// transparent fast path ((*ControlPlane).handleTCPDnsFastPath -> production
// DnsController with the optimistic cache ON -> scripted fake forwarders).
//
// One client connection carries 2..6 DIFFERENT queries (colliding transaction
// IDs, mixed case) written back to back in one segment, in one segment per query
// without waiting, or strictly one after the other; the questions meet every
// cache state: miss, fresh hit, stale hit (entry expired but inside the stale
// window: answered from cache while a background refresh goes upstream),
// negative (empty NOERROR) and NXDOMAIN (not cached).
//
// Schedule control: a stale hit starts a goroutine that refreshes the entry.
// When that goroutine runs relative to the following queries of the same
// connection is up to the scheduler; the statement holds for every schedule.
// The DnsController takes its lifecycle context from the embedder, and the
// refresh goroutine derives its work context from it before it does anything
// else; the monitor passes a context whose Deadline() parks callers that come
// from the refresh goroutine while the gate is closed. So a round can decide
// "every refresh started by this connection runs only after the connection's
// last query was answered" (the late schedule) or let it run freely.
//
// Oracles (shared with the other layers): every reply carries the ID and the
// question of a query of that connection and only records generated for that
// question; after the refreshes have completed, a fresh single query for every
// question used, and a walk over the cache: no entry holds records or a
// ready-made response for another (name, type).

import (
	"bufio"
	"bytes"
	"context"
	"encoding/binary"
	"errors"
	"fmt"
	"io"
	"math/rand/v2"
	"net"
	"net/netip"
	"runtime"
	"strings"
	"sync"
	"sync/atomic"
	"time"

	componentdns "github.com/daeuniverse/dae/component/dns"
	dnsmessage "github.com/miekg/dns"
	"github.com/sirupsen/logrus"
)

// ---- the gate: a lifecycle context that can hold back the refresh goroutines ----------

type c09Gate struct {
	mu     sync.Mutex
	hold   bool
	ch     chan struct{}
	parked int

	seen     atomic.Int64 // refresh goroutines that took their work context
	held     atomic.Int64 // ... and were parked
	timeouts atomic.Int64
}

// c09FromRefreshGoroutine: is the caller chain rooted in the optimistic-cache refresh goroutine?
func c09FromRefreshGoroutine() bool {
	pcs := make([]uintptr, 24)
	n := runtime.Callers(3, pcs)
	frames := runtime.CallersFrames(pcs[:n])
	for {
		fr, more := frames.Next()
		if strings.HasSuffix(fr.Function, ").backgroundRefresh") {
			return true
		}
		if !more {
			return false
		}
	}
}

func (g *c09Gate) Deadline() (time.Time, bool) {
	if c09FromRefreshGoroutine() {
		g.seen.Add(1)
		g.mu.Lock()
		if g.hold {
			ch := g.ch
			g.parked++
			g.mu.Unlock()
			g.held.Add(1)
			select {
			case <-ch:
			case <-time.After(20 * time.Second):
				g.timeouts.Add(1)
			}
			g.mu.Lock()
			g.parked--
		}
		g.mu.Unlock()
	}
	return time.Time{}, false
}
func (g *c09Gate) Done() <-chan struct{} { return nil }
func (g *c09Gate) Err() error            { return nil }
func (g *c09Gate) Value(any) any         { return nil }

func (g *c09Gate) arm() {
	g.mu.Lock()
	if !g.hold {
		g.hold, g.ch = true, make(chan struct{})
	}
	g.mu.Unlock()
}

func (g *c09Gate) release() {
	g.mu.Lock()
	if g.hold {
		g.hold = false
		close(g.ch)
	}
	g.mu.Unlock()
}

func (g *c09Gate) nParked() int {
	g.mu.Lock()
	defer g.mu.Unlock()
	return g.parked
}

// c09RefreshGoroutines counts the goroutines of this process that are running the optimistic-cache
// refresh or have been created for it and not started yet (a `go f(x)` statement starts a compiler-made
// wrapper "<caller>.gowrapN" which then calls f), from the runtime's own goroutine dump.
func c09RefreshGoroutines() int {
	c09StackMu.Lock()
	defer c09StackMu.Unlock()
	if c09StackBuf == nil {
		c09StackBuf = make([]byte, 8<<20)
	}
	n := runtime.Stack(c09StackBuf, true)
	cnt := 0
	for _, g := range bytes.Split(c09StackBuf[:n], []byte("\n\n")) {
		g = bytes.TrimSpace(g) // the last block of the dump ends with a newline
		if bytes.Contains(g, []byte(").backgroundRefresh(")) {
			cnt++
			continue
		}
		// created for it and not started yet (or still inside the wrapper the compiler makes for a go
		// statement): a short stack whose creator is a DnsController method
		hdr := g
		if j := bytes.IndexByte(hdr, '\n'); j >= 0 {
			hdr = hdr[:j]
		}
		if !bytes.Contains(hdr, []byte("[runnable")) && !bytes.Contains(hdr, []byte("[running")) {
			continue // parked workers (janitor, evictor) have short stacks too
		}
		if i := bytes.Index(g, []byte("\ncreated by ")); i >= 0 && bytes.Count(g, []byte("\n")) <= 6 {
			line := g[i+1:]
			if j := bytes.IndexByte(line, '\n'); j >= 0 {
				line = line[:j]
			}
			if bytes.Contains(line, []byte("(*DnsController).")) {
				cnt++
			}
		}
	}
	return cnt
}

var (
	c09StackMu  sync.Mutex
	c09StackBuf []byte
)

// c09ClearOrphanRefreshMarks: with no refresh goroutine alive, an entry that still says "being
// refreshed" will never be refreshed again while it stays in the cache (dae sets the mark in a
// lookup whose caller does not start the refresh: an answer that is already expired when it is
// stored, e.g. TTL 0). That is not C09's subject; it is counted, and the mark is cleared through
// the entry's own MarkRefreshed() so that the state "expired, inside the stale window, not being
// refreshed" (which time passing produces for any entry) is available to the following queries.
func c09ClearOrphanRefreshMarks(ctrl *DnsController) (n int) {
	ctrl.dnsCache.Range(func(_, v any) bool {
		if e, _ := v.(*DnsCache); e != nil && e.IsRefreshing() {
			e.MarkRefreshed()
			n++
		}
		return true
	})
	return n
}

// c09WaitFor polls cond (state only; the bound is a watchdog, never a verdict).
func c09WaitFor(d time.Duration, cond func() bool) bool {
	deadline := time.Now().Add(d)
	for i := 0; ; i++ {
		if cond() {
			return true
		}
		if i < 50 {
			runtime.Gosched()
		} else {
			time.Sleep(50 * time.Microsecond)
		}
		if i%64 == 63 && time.Now().After(deadline) {
			return cond()
		}
	}
}

// ---- one client connection -----------------------------------------------------------

type c09TcpConn struct {
	Idx     int          `json:"conn"`
	Seg     string       `json:"segments"` // one | each | wait
	Hold    bool         `json:"refreshes_held_until_connection_drained"`
	Queries []*c09Client `json:"queries"`
	Note    string       `json:"note,omitempty"`
	Held    int          `json:"refresh_goroutines_held"`
	start   int64
	end     int64
	unread  int // queries that got no reply because dae closed the connection first
	stuck   bool
}

func c09ReadFrame(c net.Conn) (*dnsmessage.Msg, []byte, error) {
	var l [2]byte
	if _, err := io.ReadFull(c, l[:]); err != nil {
		return nil, nil, err
	}
	buf := make([]byte, binary.BigEndian.Uint16(l[:]))
	if _, err := io.ReadFull(c, buf); err != nil {
		return nil, nil, err
	}
	m := new(dnsmessage.Msg)
	if err := m.Unpack(buf); err != nil {
		return nil, buf, nil
	}
	return m, buf, nil
}

// run writes the queries as the segmentation says and collects the replies in arrival order.
func (tc *c09TcpConn) run(addr string, w *c09World) (replies []*dnsmessage.Msg, err error) {
	conn, err := net.Dial("tcp4", addr)
	if err != nil {
		return nil, err
	}
	defer conn.Close()
	_ = conn.SetDeadline(time.Now().Add(20 * time.Second)) // watchdog
	tc.start = w.now()
	defer func() { tc.end = w.now() }()
	var frames [][]byte
	for _, q := range tc.Queries {
		frames = append(frames, c09Frame(c09QueryBytes(q.ID, q.Q)))
	}
	read := func() bool {
		m, raw, rerr := c09ReadFrame(conn)
		if rerr != nil {
			var ne net.Error
			if errors.As(rerr, &ne) && ne.Timeout() {
				tc.stuck = true
			}
			return false
		}
		if m == nil && raw != nil {
			replies = append(replies, nil)
			return true
		}
		replies = append(replies, m)
		return true
	}
	switch tc.Seg {
	case "one":
		var all []byte
		for _, f := range frames {
			all = append(all, f...)
		}
		if _, err = conn.Write(all); err != nil {
			return replies, nil
		}
	case "each":
		for _, f := range frames {
			if _, err = conn.Write(f); err != nil {
				break
			}
		}
	default: // wait: the next query is sent the moment the previous reply was read
		for _, f := range frames {
			if _, werr := conn.Write(f); werr != nil {
				break
			}
			if !read() {
				break
			}
		}
		tc.unread = len(frames) - len(replies)
		return replies, nil
	}
	for len(replies) < len(frames) && read() {
	}
	tc.unread = len(frames) - len(replies)
	return replies, nil
}

// ---- the round ---------------------------------------------------------------------------

var c09L4Later = []c09Weighted{{c09OK, 40}, {c09TTL0, 22}, {c09Slow, 10}, {c09Empty, 5}, {c09NX, 4}, {c09WrongQ, 5}, {c09PrevQ, 5}, {c09Servfail, 4}, {c09Err, 3}, {c09SlowTTL0, 4}}

func (e *c09Env) c09L4Round(r *rand.Rand, seq int) {
	m := e.m
	if e.l4Broken { // a watchdog fired: the run is inconclusive already
		return
	}
	tp := c09Topology{name: "asis+optimistic-cache", scheme: "asis", dsts: e.replyAddrs[:1], optimistic: true}
	if r.IntN(4) == 0 {
		tp = c09Topology{name: "u1-udp+optimistic-cache", scheme: "udp", upstream: netip.MustParseAddrPort("127.0.0.1:5393"), dsts: e.replyAddrs[:1], optimistic: true}
	}
	rd := &c09Round{layer: "L4", tp: tp, seq: seq, qs: c09RoundQuestions(r)}
	rd.world = c09NewWorld(r, rd.qs)
	w := rd.world
	// initial cache state per name (type A): what the first upstream answer for it looks like
	prime := map[string]string{}
	var staleNames []string
	for _, q := range rd.qs {
		st := []string{"miss", "fresh", "stale", "stale", "stale", "negative", "nx"}[r.IntN(7)]
		prime[q.Name] = st
		var first []c09Beh
		switch st {
		case "fresh":
			first = []c09Beh{c09OK}
		case "stale":
			first = []c09Beh{c09TTL0} // expires at once: inside the stale window from then on
			staleNames = append(staleNames, q.Name)
		case "negative":
			first = []c09Beh{c09Empty}
		case "nx":
			first = []c09Beh{c09NX}
		}
		w.setScript("udp", q.Name, append(first, c09Script(r, c09L4Later)...))
		w.setScript("tcp", q.Name, c09Script(r, c09FakeTCPWeights))
	}
	dnsForwarderFactory = func(up *componentdns.Upstream, da dialArgument, _ *logrus.Logger) (DnsForwarder, error) {
		return c09NewFakeFwd(w, da.bestTarget.String(), string(da.l4proto)), nil
	}
	gate := &c09Gate{}
	ctrl, err := e.c09NewController(tp, gate)
	if err != nil {
		m.Inconclusive("L4: cannot build controller: %v", err)
		return
	}
	plane := &ControlPlane{log: e.log, controlPlaneDNSRuntime: controlPlaneDNSRuntime{dnsController: ctrl}}
	ln, err := net.Listen("tcp4", "127.0.0.1:0")
	if err != nil {
		m.Inconclusive("L4: cannot listen on loopback: %v", err)
		_ = ctrl.Close()
		return
	}
	dst := tp.dsts[0]
	var srvWg sync.WaitGroup
	var panics atomic.Pointer[string]
	go func() {
		for {
			c, aerr := ln.Accept()
			if aerr != nil {
				return
			}
			srvWg.Add(1)
			go func(c net.Conn) {
				defer srvWg.Done()
				defer c.Close()
				defer func() {
					if p := recover(); p != nil {
						s := fmt.Sprint(p)
						panics.CompareAndSwap(nil, &s)
					}
				}()
				src := c.RemoteAddr().(*net.TCPAddr).AddrPort()
				// what (*ControlPlane).handleConn does for a transparent connection to port 53
				_, _ = plane.handleTCPDnsFastPath(context.Background(), c, bufio.NewReader(c), src, dst, &bpfRoutingResult{})
			}(c)
		}
	}()
	addr := ln.Addr().String()

	var conns []*c09TcpConn
	witness := func(extra map[string]any) map[string]any {
		x := map[string]any{"initial_state_per_name": prime, "connections": conns}
		for k, v := range extra {
			x[k] = v
		}
		return rd.witness(x)
	}
	settle := func(what string) bool {
		gate.release()
		if !c09WaitFor(15*time.Second, func() bool { return gate.nParked() == 0 && c09RefreshGoroutines() == 0 }) {
			m.Inconclusive("L4 round %d: background refreshes still running 15s after %s (watchdog)", seq, what)
			e.l4Broken = true
			return false
		}
		m.Count("L4_entries_marked_refreshing_with_no_refresh_running", int64(c09ClearOrphanRefreshMarks(ctrl)))
		return true
	}
	mkQuery := func(idx int, name string, qtype uint16, id uint16, path string) *c09Client {
		c := &c09Client{Idx: idx, ID: id, Path: path, Q: c09Q{Name: name, Type: qtype, Class: dnsmessage.ClassINET}, dst: dst, Dst: dst.String()}
		c.Qs = c.Q.String()
		return c
	}
	used := map[string]c09Q{}
	// judge: match every reply to a query of its connection (in order first), then the reply oracle
	judge := func(tc *c09TcpConn, replies []*dnsmessage.Msg) {
		taken := make([]bool, len(tc.Queries))
		for i, rp := range replies {
			if rp == nil {
				c09V(m, "reply-undecodable/L4/"+tc.Queries[0].Path, "client received a frame that does not parse as a DNS message", witness(map[string]any{"connection": tc}))
				continue
			}
			same := func(q *c09Client) bool {
				return rp.Id == q.ID && len(rp.Question) > 0 && strings.EqualFold(rp.Question[0].Name, q.Q.Name) && rp.Question[0].Qtype == q.Q.Type
			}
			at := -1
			if i < len(tc.Queries) && !taken[i] && (same(tc.Queries[i]) || len(rp.Question) == 0 && rp.Id == tc.Queries[i].ID) {
				at = i
			} else {
				for j, q := range tc.Queries {
					if !taken[j] && same(q) {
						at = j
						m.Count("L4_replies_out_of_query_order", 1)
						break
					}
				}
			}
			if at < 0 { // no query of this connection has that ID and question: report against the query in that position
				at = i
				if at >= len(tc.Queries) {
					at = len(tc.Queries) - 1
				}
			}
			taken[at] = true
			q := tc.Queries[at]
			q.replies = append(q.replies, rp)
			q.Replies = append(q.Replies, c09MsgString(rp))
			m.Eval(1)
			m.Count("L4_replies_judged", 1)
			m.Count("reply_kind_"+c09ReplyKind(q), 1)
			c09JudgeClientMsg(m, "L4/"+q.Path, q.ID, q.Q, rp, func() any { return witness(map[string]any{"connection": tc, "query": q, "position": at}) })
		}
		if len(replies) > len(tc.Queries) {
			c09V(m, "more-replies-than-queries/L4", fmt.Sprintf("%d queries were sent on the connection, %d replies came back", len(tc.Queries), len(replies)), witness(map[string]any{"connection": tc}))
		}
	}
	single := func(idx int, name string, qtype uint16, path string) bool {
		tc := &c09TcpConn{Idx: idx, Seg: "wait", Queries: []*c09Client{mkQuery(0, name, qtype, uint16(7+r.IntN(2)), path)}}
		replies, derr := tc.run(addr, w)
		conns = append(conns, tc)
		if derr != nil {
			m.Inconclusive("L4 round %d: cannot connect to the loopback listener: %v", seq, derr)
			return false
		}
		if tc.stuck {
			m.Inconclusive("L4 round %d: no reply and no close within 20s on a single-query connection (watchdog)", seq)
			e.l4Broken = true
			return false
		}
		judge(tc, replies)
		return true
	}
	finish := func() {
		_ = ln.Close()
		gate.release()
		w.shutdown.Store(true)
		_ = ctrl.Close()
		srvWg.Wait()
		m.Count("L4_refresh_goroutines_seen", gate.seen.Load())
		m.Count("L4_refresh_goroutines_held_until_connection_drained", gate.held.Load())
		m.Count("L4_gate_timeouts", gate.timeouts.Load())
	}

	// ---- phase 1: fill the cache (one single-query connection per primed name)
	for i, q := range rd.qs {
		if prime[q.Name] == "miss" {
			continue
		}
		used[q.key()] = q
		if !single(100+i, q.Name, q.Type, "tcp-prime") {
			finish()
			return
		}
		m.Count("L4_primed_"+prime[q.Name], 1)
	}
	if !settle("priming") {
		finish()
		return
	}

	// ---- phase 2: pipelined connections
	nConns := 1 + r.IntN(3)
	concurrent := nConns >= 2 && r.IntN(4) == 0
	hold := r.IntN(4) != 0
	var pending []*c09TcpConn
	runBatch := func(batch []*c09TcpConn) bool {
		if hold {
			gate.arm()
		}
		held0 := gate.held.Load()
		type res struct {
			replies []*dnsmessage.Msg
			err     error
		}
		out := make([]res, len(batch))
		var wg sync.WaitGroup
		for i, tc := range batch {
			wg.Add(1)
			go func(i int, tc *c09TcpConn) {
				defer wg.Done()
				out[i].replies, out[i].err = tc.run(addr, w)
			}(i, tc)
		}
		wg.Wait()
		if hold {
			// every refresh goroutine started by a stale hit of these connections is parked before it looked at anything
			if !c09WaitFor(5*time.Second, func() bool { return c09RefreshGoroutines() == gate.nParked() }) {
				m.Count("L4_refresh_goroutine_not_seen_at_gate", 1)
			}
		}
		for i, tc := range batch {
			tc.Held = int(gate.held.Load() - held0)
			conns = append(conns, tc)
			if out[i].err != nil {
				m.Inconclusive("L4 round %d: cannot connect to the loopback listener: %v", seq, out[i].err)
				return false
			}
			if tc.stuck {
				m.Inconclusive("L4 round %d: connection with %d queries: no reply and no close within 20s (watchdog)", seq, len(tc.Queries))
				e.l4Broken = true
				return false
			}
			judge(tc, out[i].replies)
			m.Count("L4_pipelined_conns", 1)
			m.Count("L4_pipelined_conns_seg_"+tc.Seg, 1)
			m.Count("L4_pipelined_queries", int64(len(tc.Queries)))
			m.Count("L4_queries_unanswered_connection_closed_by_dae_after_error", int64(tc.unread))
			// coverage by observation: which queries went upstream while the connection ran (with the
			// refreshes parked these are exactly the misses), which were answered from the cache
			hits, misses, hitThenOther := 0, 0, false
			calls := w.snapshotCalls()
			ci := 0
			for ci < len(calls) && calls[ci].Start < tc.start {
				ci++
			}
			for qi, q := range tc.Queries {
				miss := false
				for cj := ci; cj < len(calls) && calls[cj].Start <= tc.end; cj++ {
					if strings.HasSuffix(calls[cj].key, "|"+q.Q.key()) {
						miss, ci = true, cj+1
						break
					}
				}
				if miss {
					misses++
					continue
				}
				hits++
				for _, o := range tc.Queries[qi+1:] {
					if o.Q.key() != q.Q.key() {
						hitThenOther = true
					}
				}
			}
			if len(batch) == 1 {
				m.Count("L4_queries_answered_from_cache", int64(hits))
				m.Count("L4_queries_resolved_upstream", int64(misses))
				if tc.Held > 0 && hitThenOther {
					m.Count("L4_conns_stale_hit_refresh_held_while_other_questions_followed", 1)
				}
				if tc.Held == 0 && gate.seen.Load() > 0 && hitThenOther && !hold {
					m.Count("L4_conns_cache_hit_then_other_questions_refresh_free_running", 1)
				}
			}
			h := tc.Held
			if h > 2 {
				h = 2
			}
			m.Distinct(fmt.Sprintf("L4|%s|seg=%s|n=%d|hold=%v|held=%d|hits=%d|conc=%v", tp.scheme, tc.Seg, len(tc.Queries), hold, h, hits, len(batch) > 1))
		}
		return settle("a pipelined connection")
	}
	for ci := 0; ci < nConns; ci++ {
		n := 2 + r.IntN(5)
		tc := &c09TcpConn{Idx: ci, Seg: []string{"one", "one", "each", "wait"}[r.IntN(4)], Hold: hold}
		collide := r.IntN(3) != 0
		for i := 0; i < n; i++ {
			q := rd.qs[r.IntN(len(rd.qs))]
			t := c09Types[0]
			switch x := r.IntN(10); {
			case x >= 9:
				t = c09Types[2]
			case x >= 7:
				t = c09Types[1]
			}
			id := uint16(7 + r.IntN(2))
			if !collide {
				id = uint16(0x1000 + ci*16 + i)
			}
			tc.Queries = append(tc.Queries, mkQuery(i, c09MixCase(r, q.Name), t, id, "tcp-pipeline"))
		}
		// most connections: a question whose entry is stale, directly followed by another question
		if len(staleNames) > 0 && r.IntN(4) != 0 {
			p := r.IntN(n - 1)
			sn := staleNames[r.IntN(len(staleNames))]
			tc.Queries[p] = mkQuery(p, c09MixCase(r, sn), dnsmessage.TypeA, tc.Queries[p].ID, "tcp-pipeline")
			if tc.Queries[p+1].Q.canon() == tc.Queries[p].Q.canon() && tc.Queries[p+1].Q.Type == dnsmessage.TypeA {
				o := w.other(tc.Queries[p].Q)
				tc.Queries[p+1] = mkQuery(p+1, c09MixCase(r, o.Name), dnsmessage.TypeA, tc.Queries[p+1].ID, "tcp-pipeline")
			}
		}
		for _, q := range tc.Queries {
			used[q.Q.key()] = c09Q{Name: q.Q.canon(), Type: q.Q.Type, Class: q.Q.Class}
		}
		pending = append(pending, tc)
		if !concurrent || len(pending) == 2 || ci == nConns-1 {
			if !runBatch(pending) {
				finish()
				return
			}
			pending = nil
		}
	}

	// ---- phase 3: a fresh single query for every question used, refreshes free-running; twice, so
	// that what the first pass's own refreshes stored is looked at too
	for pass := 0; pass < 2; pass++ {
		i := 0
		for _, q := range used {
			i++
			if !single(1000*(pass+1)+i, q.canon(), q.Type, "tcp-probe") {
				finish()
				return
			}
			m.Count("L4_probe_queries", 1)
		}
		if !settle("the probe pass") {
			finish()
			return
		}
	}
	for _, tc := range conns {
		rd.clients = append(rd.clients, tc.Queries...)
	}
	e.c09JudgeCache(rd, ctrl)
	if p := panics.Load(); p != nil {
		c09V(m, "panic-in-dns-path/L4", "panic in handleTCPDnsFastPath: "+*p, witness(nil))
	}
	finish()
	c09JudgeForwarders(m, "L4", w, func(f *c09FakeFwd) any { return witness(map[string]any{"forwarder": f.up + "/" + f.proto}) })
	m.Count("L4_rounds", 1)
	if m.WantSample() {
		var cs []string
		for _, tc := range conns {
			if tc.Queries[0].Path == "tcp-pipeline" {
				var qs []string
				for _, q := range tc.Queries {
					qs = append(qs, fmt.Sprintf("%d:%s", q.ID, q.Qs))
				}
				cs = append(cs, fmt.Sprintf("seg=%s hold=%v held=%d [%s]", tc.Seg, tc.Hold, tc.Held, strings.Join(qs, " | ")))
			}
		}
		m.Sample(map[string]any{"layer": "L4", "topology": tp.name, "initial_state_per_name": prime, "pipelined_connections": cs})
	}
}
