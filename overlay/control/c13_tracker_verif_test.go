package control

// C13 monitor, part (c), tracker side: udpConnStateTracker retain / release
// conservation under concurrency, with a fake kernel sink.
//
// Each worker simulates a flow owner: it retains a tuple, makes the kernel entry
// exist (the datapath would), holds it, and releases it the way
// controlPlaneCore.ReleaseUdpConnStateTuples does (BeginRelease -> delete the
// entries BeginRelease returned -> FinalizeRelease). Ownership hand-over between
// two trackers is done the way TransferRetainedUdpConnStateTuplesFrom does
// (Retain on the new tracker, Forget on the old one).
//
// Conservation oracle (per tracker, per tuple): the kernel entry exists at every
// moment at which some worker holds the tuple (checked by every holder just
// before it lets go), and is gone once the last holder has released it (checked
// at quiescence); the tracker's table is empty at quiescence.

import (
	"fmt"
	"net/netip"
	"runtime"
	"sync"
	"sync/atomic"
	"syscall"
	"time"

	vk "github.com/daeuniverse/dae/verifkit"
)

type c13Kernel struct {
	mu      sync.Mutex
	present map[bpfTuplesKey]bool
	deletes int
}

func (k *c13Kernel) put(key bpfTuplesKey) { k.mu.Lock(); k.present[key] = true; k.mu.Unlock() }
func (k *c13Kernel) has(key bpfTuplesKey) bool {
	k.mu.Lock()
	defer k.mu.Unlock()
	return k.present[key]
}
func (k *c13Kernel) del(key bpfTuplesKey) {
	k.mu.Lock()
	delete(k.present, key)
	k.deletes++
	k.mu.Unlock()
}

func c13TrackerConcurrent(m *vk.Monitor) {
	rng := vk.NewRand(0xC13CC)
	rounds := vk.Scale(150, 5000)
	reported := map[string]bool{}
	var keys []bpfTuplesKey
	for i := 0; i < 3; i++ {
		keys = append(keys, bpfTuplesKeyFromAddrPorts(
			netip.MustParseAddrPort(fmt.Sprintf("10.13.2.%d:4000%d", i+1, i)),
			netip.MustParseAddrPort("198.51.100.77:443"), uint8(syscall.IPPROTO_UDP)))
	}
	for round := 0; round < rounds && m.Violations() < 5; round++ {
		trk := [2]*udpConnStateTracker{newUdpConnStateTracker(), newUdpConnStateTracker()}
		kern := [2]*c13Kernel{{present: map[bpfTuplesKey]bool{}}, {present: map[bpfTuplesKey]bool{}}}
		workers := []int{2, 4, 8, 16}[rng.IntN(4)]
		nk := 1 + rng.IntN(len(keys))
		withTransfer := rng.IntN(2) == 0
		type step struct{ key, yields, mode int }
		plans := make([][]step, workers)
		for w := range plans {
			for i, n := 0, 5+rng.IntN(25); i < n; i++ {
				mode := 0
				if withTransfer && rng.IntN(3) == 0 {
					mode = 1 // hand the tuple over to the other tracker before releasing there
				}
				plans[w] = append(plans[w], step{rng.IntN(nk), rng.IntN(4), mode})
			}
		}
		var bad atomic.Pointer[c13Verdict]
		var holds, transfers, waited, ticks atomic.Int64
		// what each worker is doing: 0 between calls, 1 inside Retain, 2 inside Forget,
		// 3 between BeginRelease and FinalizeRelease (a kernel delete in flight), 4 done
		state := make([]atomic.Int32, workers)
		var wg sync.WaitGroup
		for w := range plans {
			wg.Add(1)
			go func(w int) {
				defer wg.Done()
				for _, st := range plans[w] {
					if bad.Load() != nil {
						return
					}
					g := w % 2
					key := []bpfTuplesKey{keys[st.key]}
					state[w].Store(1)
					trk[g].Retain(key)
					state[w].Store(0)
					ticks.Add(1)
					kern[g].put(keys[st.key]) // the datapath (re)creates the flow entry while it is owned
					holds.Add(1)
					for i := 0; i < st.yields; i++ {
						runtime.Gosched()
					}
					if !kern[g].has(keys[st.key]) {
						bad.CompareAndSwap(nil, &c13Verdict{"tuple/deleted-while-retained",
							fmt.Sprintf("worker %d still retains tuple %d on tracker %d but the kernel entry was deleted by another owner's release", w, st.key, g),
							map[string]any{"workers": workers, "keys": nk}})
						return
					}
					if st.mode == 1 {
						// TransferRetainedUdpConnStateTuplesFrom: Retain(new) then Forget(old)
						n := 1 - g
						state[w].Store(1)
						trk[n].Retain(key)
						state[w].Store(0)
						kern[n].put(keys[st.key])
						state[w].Store(2)
						trk[g].Forget(key)
						state[w].Store(0)
						ticks.Add(1)
						transfers.Add(1)
						g = n
						if !kern[g].has(keys[st.key]) {
							bad.CompareAndSwap(nil, &c13Verdict{"tuple/deleted-while-retained",
								fmt.Sprintf("worker %d adopted tuple %d on tracker %d but its kernel entry is gone", w, st.key, g), map[string]any{}})
							return
						}
					}
					// ReleaseUdpConnStateTuples
					rel := trk[g].BeginRelease(key)
					state[w].Store(3)
					for i := 0; i < st.yields; i++ {
						runtime.Gosched()
					}
					for _, r := range rel {
						kern[g].del(r.key)
					}
					trk[g].FinalizeRelease(rel)
					state[w].Store(0)
					ticks.Add(1)
					if len(rel) > 0 {
						waited.Add(1)
					}
				}
				state[w].Store(4)
			}(w)
		}
		// bounded progress: every Retain/Forget that waits on an in-flight kernel delete must
		// return once that delete has been finalised. If nothing moves for 10 s while every
		// live worker sits inside Retain/Forget and NO delete is in flight, nobody can ever
		// wake them: the flow owner (and its endpoint's Close) is parked forever.
		allDone := make(chan struct{})
		go func() { wg.Wait(); close(allDone) }()
		stuck := false
		last, lastAt := ticks.Load(), time.Now()
	waitLoop:
		for {
			select {
			case <-allDone:
				break waitLoop
			case <-time.After(50 * time.Millisecond):
			}
			if n := ticks.Load(); n != last {
				last, lastAt = n, time.Now()
				continue
			}
			if time.Since(lastAt) < 10*time.Second {
				continue
			}
			parked, inflight := 0, 0
			for i := range state {
				switch state[i].Load() {
				case 1, 2:
					parked++
				case 3:
					inflight++
				}
			}
			stuck = true
			if parked > 0 && inflight == 0 {
				m.Violation("tuple/retain-parked-after-deletion-finalised",
					fmt.Sprintf("%d of %d flow owners are parked inside udpConnStateTracker.Retain/Forget for >10 s although no kernel delete is in flight any more (every FinalizeRelease has returned): they can never be woken", parked, workers),
					map[string]any{"round": round, "workers": workers, "keys": nk, "plans": fmt.Sprint(plans)})
			} else {
				m.Inconclusive("tracker round %d made no progress for 10 s (parked=%d, deletes in flight=%d)", round, parked, inflight)
			}
			break waitLoop
		}
		if stuck {
			break // goroutines of this round are lost; stop the tracker rounds
		}
		m.Eval(int(holds.Load()))
		m.Count("c_trk_rounds", 1)
		m.Count("c_trk_holds", holds.Load())
		m.Count("c_trk_transfers", transfers.Load())
		m.Count("c_trk_last_owner_releases", waited.Load())
		var vs []c13Verdict
		if v := bad.Load(); v != nil {
			vs = append(vs, *v)
		} else {
			for g := 0; g < 2; g++ {
				trk[g].mu.Lock()
				n := len(trk[g].entries)
				trk[g].mu.Unlock()
				if n != 0 {
					vs = append(vs, c13Verdict{"tuple/tracker-reference-leak", fmt.Sprintf("tracker %d still has %d entr(ies) after every owner released", g, n), map[string]any{}})
				}
				kern[g].mu.Lock()
				left := len(kern[g].present)
				kern[g].mu.Unlock()
				// a transferred tuple leaves its entry in the OLD generation's map by design (Forget does not delete); only judge without transfers
				if left != 0 && !withTransfer {
					vs = append(vs, c13Verdict{"tuple/kernel-entry-not-removed", fmt.Sprintf("tracker %d: %d kernel entr(ies) remain after the last owner released", g, left), map[string]any{}})
				}
			}
		}
		m.Distinct(fmt.Sprintf("c-trk|w%d|k%d|t%v|last%v", workers, nk, withTransfer, waited.Load() > 0))
		for _, v := range vs {
			if reported[v.Sig] {
				continue
			}
			reported[v.Sig] = true
			v.Witness["round"] = round
			v.Witness["plans"] = fmt.Sprint(plans)
			m.Violation(v.Sig, v.What, v.Witness)
		}
	}
}
