package control

// C10 monitor: the kernel's address->domain-bitmap table (domain_routing_map)
// must mirror the live DNS cache after every history of cache operations.
//
// Observable: every (update keys, values, delete keys) batch that
// domainRoutingTracker.syncOwner is about to send to the kernel map (verif
// observer hook, fired under the tracker mutex, map == nil so no syscall).
// The batches are folded into a shadow map S.  At quiescent points S is
// compared with R, recomputed from the DnsController's dnsCache only:
//   R[addr] = OR of DomainBitmap of every cached entry whose Answer lists addr
//   (A/AAAA, non-unspecified), restricted to non-zero bitmaps.
// S must equal R exactly.  The tracker's own `ips` mirror is compared with S
// as well, only to localise a fault (tracker maths vs cache->tracker wiring).

import (
	"context"
	"encoding/binary"
	"fmt"
	"math/rand/v2"
	"net"
	"net/netip"
	"runtime"
	"sort"
	"strings"
	"sync"
	"testing"
	"time"

	"github.com/cilium/ebpf"
	"github.com/daeuniverse/dae/common/consts"
	"github.com/daeuniverse/dae/common/netutils"
	componentdns "github.com/daeuniverse/dae/component/dns"
	"github.com/daeuniverse/dae/config"
	"github.com/daeuniverse/dae/pkg/config_parser"
	vk "github.com/daeuniverse/dae/verifkit"
	dnsmessage "github.com/miekg/dns"
	"github.com/sirupsen/logrus"
)

// ---- fixed pools -----------------------------------------------------------

var c10Names = []string{"a.x.test.", "b.x.test.", "c.y.test.", "d.y.test.", "e.z.test.", "rej.z.test."}

const c10RejectName = "rej.z.test." // request-routed to reject by the DNS routing used here

// 8 addresses, 4 per family; includes both unspecified addresses and a
// v4-mapped AAAA that collides with an A address on the kernel key.
var c10V4 = []string{"0.0.0.0", "192.0.2.1", "192.0.2.2", "198.51.100.7"}
var c10V6 = []string{"::", "2001:db8::1", "2001:db8::2", "::ffff:192.0.2.1"}

var c10Resolvers = []string{"", "8.8.8.8:53", "1.1.1.1:53", "[2001:4860:4860::8888]:53"} // index 0 = unscoped key

var c10Patterns = []string{
	"suffix: x.test", "suffix: y.test", "suffix: z.test", "suffix: test",
	"full: a.x.test", "full: b.x.test", "full: c.y.test", "full: d.y.test", "full: e.z.test", "full: rej.z.test",
	"keyword: a.x", "keyword: y", "keyword: rej", "keyword: e.z",
}

type c10Prog struct {
	Text    string
	matcher *RoutingMatcher
}

func c10GenProgText(r *rand.Rand, idx int) string {
	var b strings.Builder
	b.WriteString("routing {\n")
	switch idx {
	case 0: // no domain rule at all: every name gets the all-zero bitmap
		b.WriteString("  dport(80) -> " + verifGroups[0] + "\n  dip(10.0.0.0/8) -> " + verifGroups[1] + "\n")
	case 1: // every name gets the same one-bit bitmap
		b.WriteString("  domain(suffix: test) -> " + verifGroups[0] + "\n")
	default:
		n := 1 + r.IntN(5)
		for i := 0; i < n; i++ {
			if r.IntN(3) == 0 { // a non-domain rule shifts the following bit indexes
				fmt.Fprintf(&b, "  dport(%d) -> direct\n", 1000+r.IntN(50))
			}
			k := 1 + r.IntN(2)
			ps := make([]string, 0, k)
			for j := 0; j < k; j++ {
				ps = append(ps, c10Patterns[r.IntN(len(c10Patterns))])
			}
			fmt.Fprintf(&b, "  domain(%s) -> %s\n", strings.Join(ps, ", "), verifGroups[r.IntN(len(verifGroups))])
		}
	}
	b.WriteString("  fallback: direct\n}\n")
	return b.String()
}

func c10BuildProg(text string) (*c10Prog, error) {
	rules, fb, err := verifParseRouting(text)
	if err != nil {
		return nil, err
	}
	built, err := verifBuildMatcher(rules, fb, verifProductionOptimizers()...)
	if err != nil {
		return nil, err
	}
	return &c10Prog{Text: text, matcher: built.matcher}, nil
}

// c10BuildDnsRouting: `request { qname(rej.z.test) -> reject; fallback: asis }`
// so that every resolver address is its own cache scope and one name exercises
// the reject-route family removal.
func c10BuildDnsRouting(log *logrus.Logger) (*componentdns.Dns, error) {
	text := "global {}\nrouting { fallback: direct }\ndns {\n routing {\n  request {\n   qname(full: rej.z.test) -> reject\n   fallback: asis\n  }\n  response {\n   fallback: accept\n  }\n }\n}\n"
	sections, err := config_parser.Parse(text)
	if err != nil {
		return nil, fmt.Errorf("Parse: %w", err)
	}
	conf, err := config.New(sections)
	if err != nil {
		return nil, fmt.Errorf("config.New: %w", err)
	}
	return componentdns.New(&conf.Dns, &componentdns.NewOption{
		Logger:                log,
		UpstreamReadyCallback: func(*componentdns.Upstream) error { return nil },
	})
}

// ---- history description (fully concrete => replayable) -------------------

type c10Answer struct {
	Addrs []string `json:"addrs"`           // address RRs, type decided by the literal
	Ttl   uint32   `json:"ttl"`             //
	Cname bool     `json:"cname,omitempty"` // CNAME RR in front, address RRs owned by the alias
}

type c10Op struct {
	Kind  string     `json:"op"`
	Name  int        `json:"name"`
	Qtype uint16     `json:"qtype,omitempty"`
	Scope int        `json:"scope,omitempty"` // index into c10Resolvers
	Ans   *c10Answer `json:"answer,omitempty"`
	Delta int        `json:"delta_s,omitempty"` // time offset handed to dae for janitor / refresh trigger
	Delay int        `json:"delay,omitempty"`   // ops during which the async bpf-update worker is held back
	Prog  int        `json:"prog,omitempty"`    // reload: routing program of the new generation
	Cfg   int        `json:"cfg,omitempty"`     // reload: cache config of the new generation
	Flag  bool       `json:"flag,omitempty"`
	// part "fault" only: write-fault window markers and the retry round after it (c10_fault_verif_test.go)
	Mode string      `json:"fault_mode,omitempty"` // fault-on: how writes to domain_routing_map fail
	Free int         `json:"free_slots,omitempty"` // fault-on, table-full: slots left in the table
	Re   []c10Answer `json:"reresolve_with,omitempty"`
	// reload-reuse: what the old generation still serves between CloneDnsCache and the cut-over
	During []c10Op `json:"during,omitempty"`
}

type c10Hist struct {
	Cfg   int     `json:"cfg"`
	Prog  int     `json:"prog"`
	Fixed bool    `json:"fixed_ttl"` // fixed_domain_ttl for a.x.test
	Ops   []c10Op `json:"ops"`
}

type c10CacheCfg struct {
	Name               string
	OptimisticCacheTtl int
	MaxCacheSize       int
}

var c10Cfgs = []c10CacheCfg{
	{"default(ttl60)", 0, 0},
	{"lru4", 0, 4},
	{"lru7+ttl30", 30, 7},
	{"ttl5", 5, 0},
}

// ---- world -----------------------------------------------------------------

type c10Key = [16]byte
type c10Bm = [32]uint32

type c10Shadow struct {
	mu      sync.Mutex
	S       map[c10Key]c10Bm
	batches int64
	updKeys int64
	delKeys int64
	delMiss int64 // delete of a key the shadow does not hold (kernel would return ENOENT)
	malform int64
}

func c10KeyOf(k [4]uint32) (out c10Key) {
	for i := 0; i < 4; i++ {
		binary.NativeEndian.PutUint32(out[i*4:], k[i])
	}
	return
}

func (s *c10Shadow) observe(upd [][4]uint32, vals []bpfDomainRouting, del [][4]uint32) {
	s.mu.Lock()
	defer s.mu.Unlock()
	s.batches++
	if len(upd) != len(vals) {
		s.malform++
		return
	}
	// same order as syncOwner applies them: updates, then deletes
	for i := range upd {
		s.S[c10KeyOf(upd[i])] = vals[i].Bitmap
		s.updKeys++
	}
	for i := range del {
		k := c10KeyOf(del[i])
		if _, ok := s.S[k]; !ok {
			s.delMiss++
		}
		delete(s.S, k)
		s.delKeys++
	}
}

func (s *c10Shadow) clear() {
	s.mu.Lock()
	s.S = map[c10Key]c10Bm{}
	s.mu.Unlock()
}

func (s *c10Shadow) snapshot() map[c10Key]c10Bm {
	s.mu.Lock()
	defer s.mu.Unlock()
	out := make(map[c10Key]c10Bm, len(s.S))
	for k, v := range s.S {
		out[k] = v
	}
	return out
}

// gate for the async bpf-update worker. Yield points (both outside any lock):
//
//	dns-bpf-update-task     task dequeued, nothing looked at yet
//	dns-bpf-update-refresh  task found still current, side effect not yet started
type c10Gate struct {
	mu      sync.Mutex
	cond    *sync.Cond
	closed  bool
	point   string // where a closed gate parks the worker
	hits    int64
	hits2   int64
	parked  int64
	parked2 int64
	hits3   int64
	parked3 int64
}

// waitGuardParked gives the worker up to d to arrive at the guard point (it runs on its own goroutine).
func (g *c10Gate) waitGuardParked(from int64, d time.Duration) {
	deadline := time.Now().Add(d)
	for time.Now().Before(deadline) {
		g.mu.Lock()
		n, ok := g.parked3, g.closed && g.point == c10PointGuard
		g.mu.Unlock()
		if !ok || n > from {
			return
		}
		time.Sleep(100 * time.Microsecond)
	}
}

const (
	c10PointTask    = "dns-bpf-update-task"
	c10PointRefresh = "dns-bpf-update-refresh"
	// right after the refresh guard of domainRoutingTracker.syncOwnerIf said "still published".
	// In the tree as it is this point lies inside the tracker's lock, so whoever mutates the same
	// key meanwhile waits for the refresh; the worker is therefore parked here for a bounded time
	// only (an operation that could overtake it does so within that time).
	c10PointGuard = "drt-guard-passed"
)

func newC10Gate() *c10Gate {
	g := &c10Gate{}
	g.cond = sync.NewCond(&g.mu)
	return g
}

func (g *c10Gate) hook(point string) {
	if point == c10PointGuard {
		g.mu.Lock()
		g.hits3++
		park := g.closed && g.point == c10PointGuard
		if park {
			g.parked3++
		}
		g.mu.Unlock()
		if park {
			deadline := time.Now().Add(25 * time.Millisecond)
			for time.Now().Before(deadline) {
				g.mu.Lock()
				still := g.closed
				g.mu.Unlock()
				if !still {
					break
				}
				time.Sleep(200 * time.Microsecond)
			}
		}
		return
	}
	if point != c10PointTask && point != c10PointRefresh {
		return
	}
	g.mu.Lock()
	if point == c10PointTask {
		g.hits++
	} else {
		g.hits2++
	}
	if g.closed && g.point == point {
		if point == c10PointTask {
			g.parked++
		} else {
			g.parked2++
		}
	}
	for g.closed && g.point == point {
		g.cond.Wait()
	}
	g.mu.Unlock()
}

func (g *c10Gate) set(closed bool) {
	g.mu.Lock()
	g.closed = closed
	if !closed {
		g.point = c10PointTask
	}
	g.mu.Unlock()
	g.cond.Broadcast()
}

func (g *c10Gate) closeAt(point string) {
	g.mu.Lock()
	g.closed = true
	g.point = point
	g.mu.Unlock()
}

type c10Env struct {
	log     *logrus.Logger
	progs   []*c10Prog
	routing *componentdns.Dns
	shadow  *c10Shadow
	gate    *c10Gate
	pendMu  sync.Mutex
	pending *c10Answer // what the stub upstream answers next
	hookOK  bool       // yield point dns-bpf-update-task present in the tree under test
	hook2OK bool       // yield point dns-bpf-update-refresh present (comes with the liveness re-check)
	hook3OK bool       // yield point drt-guard-passed present
	// part "fault" only: a real kernel hash map is handed to the tracker (nil in part main: no syscall)
	kmap *ebpf.Map
	// part "seam" only: wraps the production option closures with scheduling seams (c10_seam_verif_test.go);
	// the wrappers call the production closure unchanged and only decide WHEN the parked worker runs
	wrapOpt func(opt *DnsControllerOption)
}

type c10World struct {
	env       *c10Env
	guardTurn int
	guardFrom int64
	h         *c10Hist
	cp        *ControlPlane
	ctrl      *DnsController
	core      *controlPlaneCore
	cancel    context.CancelFunc
	gen       int
	prog      int // routing program of the running generation
	cfg       int // cache config (dns section) of the running generation

	cloneRef  map[c10Key]c10Bm // reload-reuse: what the replayed clone snapshot alone would put in the table
	latent    bool             // reload-reuse left the tracker's owner table different from the adopted cache
	held      []*DnsCache      // entries whose refresh task was queued while the worker was held back
	heldDead  bool             // ... and at release time at least one of them was no longer the published entry
	gateLeft  int              // ops left before the worker gate reopens
	lateAsync bool             // a held-back task was released in the current step

	prevOwners map[c10Key]map[string]struct{}
	tokens     []string
	tokenSeen  map[string]bool
	lostShared int
	stats      map[string]int64
}

type c10Fail struct {
	Sig    string
	What   string
	OpIdx  int
	Detail map[string]any
}

func (w *c10World) count(k string, n int64) { w.stats[k] += n }

func c10FixedTtl(fixed bool) map[string]int {
	if !fixed {
		return map[string]int{}
	}
	return map[string]int{"a.x.test": 2}
}

// newGeneration builds a ControlPlane value holding exactly the fields
// (*ControlPlane).dnsControllerOption() reads, a controlPlaneCore with
// bpfObjects{DomainRoutingMap: nil}, and a DnsController made by the production
// constructor from the production option closure.
func (w *c10World) newGeneration(prog, cfg int, pendingCache map[string]*DnsCache) (*ControlPlane, *DnsController, *controlPlaneCore, context.CancelFunc, error) {
	env := w.env
	core := &controlPlaneCore{log: env.log, domainRouting: newDomainRoutingTracker()}
	// part main: DomainRoutingMap == nil: syncOwner computes + reports batches, no syscall
	core.bpf.Store(&bpfObjects{bpfMaps: bpfMaps{DomainRoutingMap: env.kmap}})
	ctx, cancel := context.WithCancel(context.Background())
	cp := &ControlPlane{log: env.log, core: core, ctx: ctx, ready: make(chan struct{})}
	cp.routingMatcher = env.progs[prog].matcher
	cp.dnsRouting = env.routing
	cp.dnsFixedDomainTtl = c10FixedTtl(w.h.Fixed)
	cp.sharedBpfReload = pendingCache != nil
	cp.pendingDnsReloadCache = pendingCache
	opt := cp.dnsControllerOption() // PRODUCTION closures: CacheAccessCallback, CacheDeleteCallback, NewCache
	// same four assignments as newControlPlaneWithContextOptions
	opt.OptimisticCache = false
	opt.OptimisticCacheTtl = c10Cfgs[cfg].OptimisticCacheTtl
	opt.MaxCacheSize = c10Cfgs[cfg].MaxCacheSize
	opt.IpVersionPrefer = 0
	if env.wrapOpt != nil {
		env.wrapOpt(opt)
	}
	ctrl, err := NewDnsController(env.routing, opt)
	if err != nil {
		cancel()
		return nil, nil, nil, nil, err
	}
	cp.dnsController = ctrl
	// test seam only for the part C10 does not cover: which dialer carries the upstream query
	setScopedBestDialerChooser(ctrl, func(ctx context.Context, req *udpRequest, upstream *componentdns.Upstream) (*dialArgument, error) {
		return &dialArgument{l4proto: consts.L4ProtoStr_UDP, ipversion: consts.IpVersionStr_4, bestTarget: req.realDst}, nil
	})
	cp.markReady()
	return cp, ctrl, core, cancel, nil
}

func c10RRs(qname string, qtype uint16, a *c10Answer) []dnsmessage.RR {
	var rrs []dnsmessage.RR
	owner := qname
	if a.Cname {
		alias := "alias." + qname
		rrs = append(rrs, &dnsmessage.CNAME{Hdr: dnsmessage.RR_Header{Name: qname, Rrtype: dnsmessage.TypeCNAME, Class: dnsmessage.ClassINET, Ttl: a.Ttl}, Target: alias})
		owner = alias
	}
	for _, s := range a.Addrs {
		ip := netip.MustParseAddr(s)
		if ip.Is4() {
			b := ip.As4()
			rrs = append(rrs, &dnsmessage.A{Hdr: dnsmessage.RR_Header{Name: owner, Rrtype: dnsmessage.TypeA, Class: dnsmessage.ClassINET, Ttl: a.Ttl}, A: net.IP(b[:])})
		} else {
			b := ip.As16()
			rrs = append(rrs, &dnsmessage.AAAA{Hdr: dnsmessage.RR_Header{Name: owner, Rrtype: dnsmessage.TypeAAAA, Class: dnsmessage.ClassINET, Ttl: a.Ttl}, AAAA: net.IP(b[:])})
		}
	}
	return rrs
}

// c10Response builds the reply and sends it through the wire format, so the
// RR values have exactly the shape a real forwarder hands to dae.
func c10Response(query *dnsmessage.Msg, a *c10Answer) (*dnsmessage.Msg, error) {
	resp := new(dnsmessage.Msg)
	resp.SetReply(query)
	resp.RecursionAvailable = true
	q := query.Question[0]
	resp.Answer = c10RRs(q.Name, q.Qtype, a)
	b, err := resp.Pack()
	if err != nil {
		return nil, err
	}
	out := new(dnsmessage.Msg)
	if err = out.Unpack(b); err != nil {
		return nil, err
	}
	return out, nil
}

func (env *c10Env) forward(ctx context.Context, data []byte) (*dnsmessage.Msg, error) {
	var q dnsmessage.Msg
	if err := q.Unpack(data); err != nil {
		return nil, err
	}
	env.pendMu.Lock()
	a := env.pending
	env.pendMu.Unlock()
	if a == nil {
		a = &c10Answer{Ttl: 60}
	}
	return c10Response(&q, a)
}

func (w *c10World) req(scope int) *udpRequest {
	r := &udpRequest{realSrc: netip.MustParseAddrPort("192.0.2.200:40000"), routingResult: &bpfRoutingResult{}}
	if scope > 0 {
		r.realDst = netip.MustParseAddrPort(c10Resolvers[scope])
	}
	return r
}

func (w *c10World) key(op *c10Op) string {
	base := w.ctrl.cacheKey(c10Names[op.Name], op.Qtype)
	if op.Scope == 0 {
		return base
	}
	return w.ctrl.responseCacheKey(base, w.req(op.Scope), consts.DnsRequestOutboundIndex_AsIs, nil)
}

// ---- quiescence ------------------------------------------------------------

// barrier pushes a no-op task (empty owner snapshot) through dae's own
// bpf-update queue and waits until the single worker has marked it done: every
// task queued before it has then been applied.
func (w *c10World) barrier(ctrl *DnsController) error {
	ctrl.bpfUpdateStopMu.Lock()
	ch := ctrl.bpfUpdateCh
	ctrl.bpfUpdateStopMu.Unlock()
	if ch == nil { // worker never started: nothing can be pending
		return nil
	}
	// The barrier entry is published under its own key for the duration of the
	// wait (a refresh task for an unpublished entry may legitimately be dropped);
	// it has no answers and a zero bitmap, so it owns nothing in the table.
	const bkey = "\x00verif-barrier"
	b := &DnsCache{RouteOwnerKey: bkey, DomainBitmap: make([]uint32, len(bpfDomainRouting{}.Bitmap)),
		Deadline: time.Now().Add(time.Hour * 24 * 365), OriginalDeadline: time.Now().Add(time.Hour * 24 * 365)}
	ctrl.dnsCache.Store(bkey, b)
	defer ctrl.dnsCache.Delete(bkey)
	mark := time.Unix(0, 1_000_000_007+int64(w.stats["barriers"]))
	deadline := time.Now().Add(30 * time.Second)
	for !ctrl.sendBpfUpdateTask(&bpfUpdateTask{cache: b, now: mark}) {
		if time.Now().After(deadline) {
			return fmt.Errorf("bpf-update queue stayed full for 30s")
		}
		time.Sleep(100 * time.Microsecond)
	}
	w.count("barriers", 1)
	for i := 0; b.lastRouteSyncNano.Load() != mark.UnixNano(); i++ {
		if i < 200 {
			runtime.Gosched()
		} else {
			time.Sleep(50 * time.Microsecond)
		}
		if i%1000 == 999 && time.Now().After(deadline) {
			return fmt.Errorf("bpf-update worker did not reach the barrier within 30s")
		}
	}
	return nil
}

func (w *c10World) evictorIdle() bool {
	c := w.ctrl
	c.evictorChMu.RLock()
	q := c.evictorQ
	c.evictorChMu.RUnlock()
	c.evictorMu.Lock()
	n := len(c.evictorBuf)
	c.evictorMu.Unlock()
	return (q == nil || len(q) == 0) && n == 0
}

// ---- the oracle ------------------------------------------------------------

func c10IsZero(b []uint32) bool {
	for _, x := range b {
		if x != 0 {
			return false
		}
	}
	return true
}

// c10AddrOfRR: the 16-byte kernel key form of an address RR (v4 => ::ffff:a.b.c.d).
func c10AddrOfRR(rr dnsmessage.RR) (k c10Key, ok bool, unspecified bool) {
	switch b := rr.(type) {
	case *dnsmessage.A:
		ip := []byte(b.A)
		if len(ip) == 16 {
			ip = ip[12:]
		}
		if len(ip) != 4 {
			return k, false, false
		}
		k[10], k[11] = 0xff, 0xff
		copy(k[12:], ip)
		return k, true, ip[0]|ip[1]|ip[2]|ip[3] == 0
	case *dnsmessage.AAAA:
		if len(b.AAAA) != 16 {
			return k, false, false
		}
		copy(k[:], b.AAAA)
		return k, true, k == c10Key{}
	}
	return k, false, false
}

func c10Addr(k c10Key) string { return netip.AddrFrom16(k).Unmap().String() }

func c10BmStr(b c10Bm) string {
	var parts []string
	for i, x := range b {
		if x != 0 {
			parts = append(parts, fmt.Sprintf("%d:%#x", i, x))
		}
	}
	if len(parts) == 0 {
		return "0"
	}
	return strings.Join(parts, ",")
}

type c10Ref struct {
	R      map[c10Key]c10Bm
	listed map[c10Key]struct{} // every non-unspecified address some live entry lists, whatever its bitmap
	owners map[c10Key]map[string]struct{}
	dump   map[string]any
}

func (w *c10World) reference() *c10Ref {
	ref := &c10Ref{R: map[c10Key]c10Bm{}, listed: map[c10Key]struct{}{}, owners: map[c10Key]map[string]struct{}{}, dump: map[string]any{}}
	w.ctrl.dnsCache.Range(func(k, v any) bool {
		key, _ := k.(string)
		cache, _ := v.(*DnsCache)
		if cache == nil {
			return true
		}
		w.count("ref_entries", 1)
		var addrs []string
		zero := c10IsZero(cache.DomainBitmap)
		if len(cache.Answer) == 0 {
			w.count("ref_empty_answer_entries", 1)
		}
		if zero {
			w.count("ref_zero_bitmap_entries", 1)
		}
		var bm c10Bm
		copy(bm[:], cache.DomainBitmap)
		for _, rr := range cache.Answer {
			a, ok, unspec := c10AddrOfRR(rr)
			if !ok {
				continue
			}
			if unspec {
				w.count("ref_unspecified_answers_skipped", 1)
				continue
			}
			addrs = append(addrs, c10Addr(a))
			ref.listed[a] = struct{}{}
			if zero {
				continue
			}
			cur := ref.R[a]
			for i := range cur {
				cur[i] |= bm[i]
			}
			ref.R[a] = cur
			if ref.owners[a] == nil {
				ref.owners[a] = map[string]struct{}{}
			}
			ref.owners[a][key] = struct{}{}
		}
		ref.dump[key] = map[string]any{"addrs": addrs, "bitmap": c10BmStr(bm), "owner_key": cache.RouteOwnerKey}
		return true
	})
	return ref
}

// c10FoldEntries: the reference construction applied to a plain map of entries.
func c10FoldEntries(entries map[string]*DnsCache) map[c10Key]c10Bm {
	out := map[c10Key]c10Bm{}
	for _, cache := range entries {
		if cache == nil || c10IsZero(cache.DomainBitmap) {
			continue
		}
		var bm c10Bm
		copy(bm[:], cache.DomainBitmap)
		for _, rr := range cache.Answer {
			a, ok, unspec := c10AddrOfRR(rr)
			if !ok || unspec {
				continue
			}
			cur := out[a]
			for i := range cur {
				cur[i] |= bm[i]
			}
			out[a] = cur
		}
	}
	return out
}

func c10SameTable(a, b map[c10Key]c10Bm) bool {
	if len(a) != len(b) {
		return false
	}
	for k, v := range a {
		if bv, ok := b[k]; !ok || bv != v {
			return false
		}
	}
	return true
}

// check compares S with R (verdict) and S with the tracker mirror (localisation).
func (w *c10World) check(opIdx int, op *c10Op) *c10Fail {
	w.count("checks", 1)
	if !w.evictorIdle() {
		w.count("evictor_busy_at_check", 1)
	}
	ref := w.reference()
	S := w.env.shadow.snapshot()

	// tracker mirror
	mirror := map[c10Key]c10Bm{}
	t := w.core.domainRouting
	t.mu.Lock()
	mirrorSelfOK := true
	for k, st := range t.ips {
		mirror[c10KeyOf(k)] = st.merged.Bitmap
		var or c10Bm
		for _, ob := range st.owners {
			for i := range or {
				or[i] |= ob.Bitmap[i]
			}
		}
		if or != st.merged.Bitmap || len(st.owners) == 0 {
			mirrorSelfOK = false
		}
	}
	nOwners := len(t.owners)
	t.mu.Unlock()
	mirrorAgrees := len(mirror) == len(S)
	if mirrorAgrees {
		for k, v := range S {
			if mv, ok := mirror[k]; !ok || mv != v {
				mirrorAgrees = false
				break
			}
		}
	}
	if mirrorAgrees {
		w.count("mirror_agrees_with_shadow", 1)
	}

	var stale, missing, mismatch []string
	for k, sv := range S {
		rv, ok := ref.R[k]
		_, isListed := ref.listed[k]
		switch {
		case !ok && isListed && sv == (c10Bm{}):
			// An all-zero table entry for an address that live entries list with an
			// all-zero union says the same as no entry; the statement allows both.
			w.count("zero_table_entry_for_listed_zero_union_address", 1)
		case !ok:
			stale = append(stale, c10Addr(k)+"="+c10BmStr(sv))
		case rv != sv:
			mismatch = append(mismatch, fmt.Sprintf("%s table=%s cache=%s", c10Addr(k), c10BmStr(sv), c10BmStr(rv)))
		default:
			w.count("addr_equal", 1)
		}
	}
	for k, rv := range ref.R {
		if _, ok := S[k]; !ok {
			missing = append(missing, c10Addr(k)+"="+c10BmStr(rv))
		}
	}
	w.trackSharing(op, ref)

	if len(stale)+len(missing)+len(mismatch) == 0 {
		if !mirrorSelfOK || !mirrorAgrees {
			// the statement is about the table, not about dae's bookkeeping: record only
			w.count("tracker_mirror_off_while_table_equals_cache", 1)
		}
		return nil
	}
	sort.Strings(stale)
	sort.Strings(missing)
	sort.Strings(mismatch)
	kind := ""
	switch {
	case len(stale) > 0:
		kind = "stale-address"
	case len(missing) > 0:
		kind = "missing-address"
	default:
		kind = "bitmap-mismatch"
	}
	locus := "cache-to-tracker-wiring" // tracker agrees with what it sent; it was told the wrong thing (or not told)
	if !mirrorAgrees || !mirrorSelfOK {
		locus = "tracker-maths"
	}
	cause := "after-" + op.Kind
	if w.lateAsync {
		cause += "+late-async-update"
	}
	mirrorDump := map[string]string{}
	for k, v := range mirror {
		mirrorDump[c10Addr(k)] = c10BmStr(v)
	}
	sig := kind + "/" + locus + "/" + cause
	if w.lateAsync && w.heldDead && mirrorAgrees && mirrorSelfOK {
		// diagnosis only: the step released a refresh task that had been queued for an
		// entry which was replaced/removed while the task waited.
		sig = "late-async-refresh/applied-for-entry-replaced-or-removed-while-queued"
	}
	if op.Kind == "reload-reuse" && mirrorAgrees && mirrorSelfOK && w.cloneRef != nil && c10SameTable(S, w.cloneRef) {
		// diagnosis only (the verdict above is S != R): the table is exactly what the
		// replay of the pre-handoff clone produced; the shared cache that was then
		// adopted was never reconciled with it.
		sig = "reuse-handoff-not-reconciled/table-mirrors-pre-handoff-clone-not-the-adopted-cache"
	}
	return &c10Fail{
		Sig:   sig,
		OpIdx: opIdx,
		What: fmt.Sprintf("after op #%d (%s) the table differs from the cache: stale=%v missing=%v mismatch=%v (tracker mirror agrees with table: %v)",
			opIdx, op.Kind, stale, missing, mismatch, mirrorAgrees),
		Detail: map[string]any{"stale_in_table": stale, "missing_in_table": missing, "bitmap_mismatch": mismatch,
			"cache_entries": ref.dump, "tracker_mirror": mirrorDump, "tracker_owner_count": nOwners,
			"tracker_mirror_agrees_with_table": mirrorAgrees, "tracker_mirror_self_consistent": mirrorSelfOK, "generation": w.gen},
	}
}

// trackSharing records, from the cache side only, which operations made an
// address shared by >= 2 owners lose an owner (the non-trivial situations).
func (w *c10World) trackSharing(op *c10Op, ref *c10Ref) {
	for a, prev := range w.prevOwners {
		if len(prev) < 2 {
			continue
		}
		cur := ref.owners[a]
		lost := 0
		for o := range prev {
			if _, ok := cur[o]; !ok {
				lost++
			}
		}
		if lost == 0 {
			continue
		}
		w.lostShared++
		eff := "still-shared"
		switch {
		case len(cur) == 0:
			eff = "lost-all"
		case len(cur) == 1:
			eff = "now-single"
		}
		w.count("shared_addr_lost_owner/"+eff, 1)
		w.count("shared_addr_lost_owner_by/"+op.Kind, 1)
		tok := op.Kind + ":" + eff
		if !w.tokenSeen[tok] {
			w.tokenSeen[tok] = true
			w.tokens = append(w.tokens, tok)
		}
	}
	for a, cur := range ref.owners {
		if len(cur) >= 2 {
			w.count("shared_addr_observations", 1)
			if len(w.prevOwners[a]) < len(cur) && len(w.prevOwners[a]) >= 1 {
				w.count("addr_gained_owner", 1)
			}
		}
	}
	w.prevOwners = ref.owners
}

// ---- executing one history -------------------------------------------------

func (w *c10World) closeAll() {
	w.env.gate.set(false)
	if w.ctrl != nil {
		_ = w.ctrl.Close()
	}
	if w.cancel != nil {
		w.cancel()
	}
}

func (w *c10World) apply(i int, op *c10Op) (err error) {
	defer func() {
		if r := recover(); r != nil {
			err = fmt.Errorf("PANIC in op %s: %v", op.Kind, r)
		}
	}()
	c := w.ctrl
	now := time.Now()
	// a worker that is to be overtaken after the refresh guard must first get there
	w.env.gate.waitGuardParked(w.guardFrom, 10*time.Millisecond)
	switch op.Kind {
	case "query":
		w.env.pendMu.Lock()
		w.env.pending = op.Ans
		w.env.pendMu.Unlock()
		q := new(dnsmessage.Msg)
		q.SetQuestion(c10Names[op.Name], op.Qtype)
		if e := c.HandleWithResponseWriter_(context.Background(), q, w.req(op.Scope), &captureResponseWriter{}); e != nil {
			w.count("query_errors", 1)
		}
	case "store": // the function dialSend calls with the upstream's reply
		q := new(dnsmessage.Msg)
		q.SetQuestion(c10Names[op.Name], op.Qtype)
		resp, e := c10Response(q, op.Ans)
		if e != nil {
			return e
		}
		if e = c.NormalizeAndCacheDnsResp_(resp, w.key(op)); e != nil {
			w.count("store_errors", 1)
		}
	case "upready": // production path that caches a dns upstream's own hostname (unscoped key)
		up := &componentdns.Upstream{Scheme: "udp", Hostname: strings.TrimSuffix(c10Names[op.Name], "."), Port: 53, Ip46: &netutils.Ip46{}}
		for _, s := range op.Ans.Addrs {
			ip := netip.MustParseAddr(s)
			if ip.Is4() {
				up.Ip4 = ip
			} else {
				up.Ip6 = ip
			}
		}
		if e := w.cp.dnsUpstreamReadyCallback(up); e != nil {
			w.count("upready_errors", 1)
		}
	case "remove":
		c.RemoveDnsRespCache(w.key(op))
	case "family":
		c.RemoveDnsRespCacheFamily(c.cacheKey(c10Names[op.Name], op.Qtype))
	case "janitor": // what the janitor goroutine does on a tick, with the tick time chosen by the history
		c.evictExpiredDnsCache(now.Add(time.Duration(op.Delta) * time.Second))
	case "lookup":
		_ = c.LookupDnsRespCache(w.key(op), op.Flag)
	case "trigger": // a cache hit op.Delta seconds later: asks for an asynchronous table refresh
		if v, ok := c.dnsCache.Load(w.key(op)); ok {
			if cache, _ := v.(*DnsCache); cache != nil {
				w.holdWorker(op.Delay, op.Flag)
				if w.gateLeft > 0 {
					w.held = append(w.held, cache)
				}
				c.triggerBpfUpdateIfNeeded(cache, now.Add(time.Duration(op.Delta)*time.Second))
				w.count("trigger_on_live_entry", 1)
			}
		}
	case "reload":
		return w.reload(op)
	case "reload-reuse":
		return w.reloadReuse(i, op)
	case "rollback":
		return w.rollback()
	default:
		return fmt.Errorf("unknown op %q", op.Kind)
	}
	return nil
}

// release reopens the worker gate. For the failure signature only, it notes
// whether one of the held-back refresh tasks now belongs to an entry that has
// meanwhile been replaced or removed (dnsCache[key] is not that entry).
func (w *c10World) release() {
	w.heldDead = false
	for _, e := range w.held {
		if cur, ok := w.ctrl.dnsCache.Load(e.RouteOwnerKey); !ok || cur != any(e) {
			w.heldDead = true
			w.count("held_back_refresh_of_entry_replaced_or_removed_meanwhile", 1)
		}
	}
	w.held = nil
	w.env.gate.set(false)
	w.lateAsync = true
	w.count("late_async_releases", 1)
}

func (w *c10World) holdWorker(delay int, afterLivenessCheck bool) {
	if delay > 0 && w.env.hookOK {
		if w.gateLeft == 0 { // a gate that is already closed keeps its parking point
			w.guardTurn++
			if afterLivenessCheck && w.env.hook3OK && w.guardTurn%2 == 0 {
				w.env.gate.mu.Lock()
				w.guardFrom = w.env.gate.parked3
				w.env.gate.mu.Unlock()
				w.env.gate.closeAt(c10PointGuard)
				w.count("async_tasks_held_back_after_refresh_guard", 1)
			} else if afterLivenessCheck && w.env.hook2OK {
				w.env.gate.closeAt(c10PointRefresh)
				w.count("async_tasks_held_back_after_liveness_check", 1)
			} else {
				w.env.gate.closeAt(c10PointTask)
			}
		}
		if delay > w.gateLeft {
			w.gateLeft = delay + 1 // the current op counts as one step
		}
		w.count("async_tasks_held_back", 1)
	}
}

// clearTable: what clearReloadDomainRoutingMap does to the table (shadow fold; in part "fault" the real map too).
func (w *c10World) clearTable() error {
	w.env.shadow.clear()
	if w.env.kmap != nil {
		return c10rbWipe(w.env.kmap)
	}
	return nil
}

// reload: CloneDnsCache of the old generation -> new core/tracker, new routing
// program, new DnsController (production constructor + option closure) ->
// domain_routing_map cleared (clearReloadDomainRoutingMap on the shared map;
// modelled by clearing S because the map object is nil here) ->
// replayDnsReloadCache -> old controller closed.
func (w *c10World) reload(op *c10Op) error {
	w.env.gate.set(false)
	w.gateLeft = 0
	w.held = nil
	if err := w.barrier(w.ctrl); err != nil {
		return err
	}
	entries := w.cp.CloneDnsCache()
	if entries == nil {
		entries = map[string]*DnsCache{}
	}
	w.count("reload_entries_cloned", int64(len(entries)))
	cp, ctrl, core, cancel, err := w.newGeneration(op.Prog, op.Cfg, entries)
	if err != nil {
		return err
	}
	if err := w.clearTable(); err != nil {
		return err
	}
	w.holdWorker(op.Delay, op.Flag)
	if w.gateLeft > 0 {
		for _, e := range entries {
			w.held = append(w.held, e)
		}
	}
	cp.replayDnsReloadCache()
	_ = w.cp.closeOwnedDNSController()
	w.cancel()
	w.cp, w.ctrl, w.core, w.cancel = cp, ctrl, core, cancel
	w.prog, w.cfg = op.Prog, op.Cfg
	w.gen++
	return nil
}

// rollback: a staged reload whose new generation committed its datapath (which cleared and
// refilled the shared domain_routing_map from ITS tracker) and then failed to become ready:
// cmd/run.go closes the new generation and calls RebuildReloadDatapath on the old one, which keeps
// serving with its own controller, core and tracker. Transcribed from RebuildReloadDatapath after
// the routing rebuild (BuildKernspace needs real maps): tracker.clearAndForget around
// clearReloadDomainRoutingMap (modelled by clearing S), CloneDnsCache, pendingDnsReloadCache =
// clone, replayDnsReloadCache.
func (w *c10World) rollback() error {
	w.env.gate.set(false)
	w.gateLeft = 0
	w.held = nil
	if err := w.barrier(w.ctrl); err != nil {
		return err
	}
	if err := w.core.domainRouting.clearAndForget(w.clearTable); err != nil {
		return err
	}
	w.cp.pendingDnsReloadCache = w.cp.CloneDnsCache()
	w.cp.replayDnsReloadCache()
	w.count("rollbacks_after_failed_staged_reload", 1)
	return w.barrier(w.ctrl)
}

// reloadReuse: the staged same-port reload of cmd/run.go when the dns section is
// unchanged: CloneDnsCache -> newPreparedControlPlane (own DnsController, pending
// clone) -> [old generation keeps serving] -> Serve: CommitPreparedDatapath
// (clearReloadDomainRoutingMap, replayDnsReloadCache) -> activatePreparedRuntime
// -> StartPreparedDNSListener -> reuse hook -> ReuseDNSControllerFrom(old).
func (w *c10World) reloadReuse(i int, op *c10Op) error {
	w.env.gate.set(false)
	w.gateLeft = 0
	w.held = nil
	if err := w.barrier(w.ctrl); err != nil {
		return err
	}
	entries := w.cp.CloneDnsCache()
	if entries == nil {
		entries = map[string]*DnsCache{}
	}
	prog := op.Prog
	if prog < 0 {
		prog = w.prog
	}
	// the reuse hook is installed only when the dns section is unchanged: same cache config
	cp, _, core, cancel, err := w.newGeneration(prog, w.cfg, entries)
	if err != nil {
		return err
	}
	for j := range op.During { // served by the old generation while the new one is being prepared
		if err := w.apply(i, &op.During[j]); err != nil {
			return err
		}
		w.count("op_during_handoff/"+op.During[j].Kind, 1)
	}
	if err := w.barrier(w.ctrl); err != nil {
		return err
	}
	if err := w.clearTable(); err != nil { // clearReloadDomainRoutingMap
		return err
	}
	cp.replayDnsReloadCache()
	if err := w.barrier(cp.dnsController); err != nil {
		return err
	}
	w.cloneRef = c10FoldEntries(entries) // clones now carry the bitmaps RestoreReloadCache gave them
	old := w.cp
	if !cp.ReuseDNSControllerFrom(old) {
		w.count("reuse_refused", 1)
		_ = old.closeOwnedDNSController()
	} else {
		w.count("reuse_handoffs", 1)
	}
	setScopedBestDialerChooser(cp.dnsController, func(ctx context.Context, req *udpRequest, upstream *componentdns.Upstream) (*dialArgument, error) {
		return &dialArgument{l4proto: consts.L4ProtoStr_UDP, ipversion: consts.IpVersionStr_4, bestTarget: req.realDst}, nil
	})
	w.cancel()
	w.cp, w.ctrl, w.core, w.cancel = cp, cp.dnsController, core, cancel
	w.prog = prog
	w.gen++
	w.latent = !w.ownersMatchCache()
	return nil
}

// ownersMatchCache (exploration control only, never a verdict): does the
// tracker's per-owner table describe exactly the entries of the cache?
func (w *c10World) ownersMatchCache() bool {
	type own struct {
		bm    c10Bm
		addrs map[c10Key]struct{}
	}
	want := map[string]own{}
	w.ctrl.dnsCache.Range(func(k, v any) bool {
		key, _ := k.(string)
		cache, _ := v.(*DnsCache)
		if cache == nil || c10IsZero(cache.DomainBitmap) {
			return true
		}
		o := own{addrs: map[c10Key]struct{}{}}
		copy(o.bm[:], cache.DomainBitmap)
		for _, rr := range cache.Answer {
			if a, ok, unspec := c10AddrOfRR(rr); ok && !unspec {
				o.addrs[a] = struct{}{}
			}
		}
		if len(o.addrs) > 0 {
			want[key] = o
		}
		return true
	})
	t := w.core.domainRouting
	t.mu.Lock()
	defer t.mu.Unlock()
	if len(t.owners) != len(want) {
		return false
	}
	for key, snap := range t.owners {
		o, ok := want[key]
		if !ok || o.bm != snap.bitmap.Bitmap || len(o.addrs) != len(snap.ips) {
			return false
		}
		for k := range snap.ips {
			if _, ok := o.addrs[c10KeyOf(k)]; !ok {
				return false
			}
		}
	}
	return true
}

// c10Run executes h (up to len(h.Ops)) and returns the first failure.
func c10Run(env *c10Env, h *c10Hist, stats map[string]int64) (fail *c10Fail, w *c10World, err error) {
	w = &c10World{env: env, h: h, tokenSeen: map[string]bool{}, stats: stats, prevOwners: map[c10Key]map[string]struct{}{}}
	env.shadow.clear()
	env.gate.set(false)
	w.prog, w.cfg = h.Prog, h.Cfg
	w.cp, w.ctrl, w.core, w.cancel, err = w.newGeneration(h.Prog, h.Cfg, nil)
	if err != nil {
		return nil, w, err
	}
	defer w.closeAll()
	for i := range h.Ops {
		op := &h.Ops[i]
		w.lateAsync, w.heldDead = false, false
		if err = w.apply(i, op); err != nil {
			return &c10Fail{Sig: "crash/" + op.Kind, What: err.Error(), OpIdx: i, Detail: map[string]any{}}, w, nil
		}
		w.count("op/"+op.Kind, 1)
		if w.gateLeft > 0 {
			w.gateLeft--
			if w.gateLeft > 0 {
				w.count("steps_not_quiescent", 1)
				continue // worker is being held back: not a quiescent point
			}
			w.release()
		}
		if err = w.barrier(w.ctrl); err != nil {
			return nil, w, err
		}
		if f := w.check(i, op); f != nil {
			return f, w, nil
		}
		if w.latent {
			// The reuse handoff left tracker owners that no cache entry backs (or the
			// reverse) although the table happens to equal the cache right now. Any
			// later difference would be this same handoff surfacing; stop here.
			w.count("histories_cut_after_unreconciled_reuse_handoff", 1)
			return nil, w, nil
		}
	}
	if w.gateLeft > 0 && len(h.Ops) > 0 { // history ended while the worker was held back: release, settle, check
		w.gateLeft = 0
		w.release()
		if err = w.barrier(w.ctrl); err != nil {
			return nil, w, err
		}
		if f := w.check(len(h.Ops)-1, &h.Ops[len(h.Ops)-1]); f != nil {
			return f, w, nil
		}
	}
	return nil, w, nil
}

// ---- generator -------------------------------------------------------------

func c10GenAnswer(r *rand.Rand, qtype uint16) *c10Answer {
	pool := c10V4
	other := c10V6
	if qtype == dnsmessage.TypeAAAA {
		pool, other = c10V6, c10V4
	}
	a := &c10Answer{}
	n := []int{0, 1, 1, 1, 2, 2, 3}[r.IntN(7)]
	perm := r.Perm(len(pool))
	for i := 0; i < n; i++ {
		a.Addrs = append(a.Addrs, pool[perm[i]])
	}
	if r.IntN(12) == 0 { // hostile upstream: an address RR of the other family in the answer
		a.Addrs = append(a.Addrs, other[r.IntN(len(other))])
	}
	a.Ttl = []uint32{0, 2, 60, 60, 60, 600, 600}[r.IntN(7)]
	a.Cname = r.IntN(10) == 0
	return a
}

func c10GenHist(r *rand.Rand, nprogs int) *c10Hist {
	h := &c10Hist{Cfg: r.IntN(len(c10Cfgs)), Prog: r.IntN(nprogs), Fixed: r.IntN(4) == 0}
	nNames := 2 + r.IntN(5)
	names := r.Perm(len(c10Names))[:nNames]
	nScopes := 1 + r.IntN(3)
	nOps := 20 + r.IntN(60)
	if r.IntN(6) == 0 {
		nOps = 80 + r.IntN(121)
	}
	qt := func() uint16 {
		if r.IntN(2) == 0 {
			return dnsmessage.TypeA
		}
		return dnsmessage.TypeAAAA
	}
	tuple := func(allowUnscoped bool) (int, uint16, int) {
		s := 1 + r.IntN(nScopes)
		if allowUnscoped && r.IntN(6) == 0 {
			s = 0
		}
		return names[r.IntN(nNames)], qt(), s
	}
	delay := func() int {
		if r.IntN(2) == 0 {
			return 0
		}
		return 1 + r.IntN(3)
	}
	for len(h.Ops) < nOps {
		var op c10Op
		switch x := r.IntN(100); {
		case x < 40:
			n, q, s := tuple(false)
			op = c10Op{Kind: "query", Name: n, Qtype: q, Scope: s, Ans: c10GenAnswer(r, q)}
		case x < 58:
			n, q, s := tuple(true)
			op = c10Op{Kind: "store", Name: n, Qtype: q, Scope: s, Ans: c10GenAnswer(r, q)}
		case x < 62:
			a := &c10Answer{}
			if r.IntN(4) != 0 {
				a.Addrs = append(a.Addrs, c10V4[r.IntN(len(c10V4))])
			}
			if r.IntN(2) == 0 {
				a.Addrs = append(a.Addrs, c10V6[r.IntN(len(c10V6))])
			}
			op = c10Op{Kind: "upready", Name: names[r.IntN(nNames)], Ans: a}
		case x < 70:
			n, q, s := tuple(true)
			op = c10Op{Kind: "remove", Name: n, Qtype: q, Scope: s}
		case x < 75:
			n, q, _ := tuple(false)
			op = c10Op{Kind: "family", Name: n, Qtype: q}
		case x < 83:
			op = c10Op{Kind: "janitor", Delta: []int{0, 1, 10, 45, 100, 1000}[r.IntN(6)]}
		case x < 87:
			n, q, s := tuple(true)
			op = c10Op{Kind: "lookup", Name: n, Qtype: q, Scope: s, Flag: r.IntN(2) == 0}
		case x < 95:
			n, q, s := tuple(true)
			op = c10Op{Kind: "trigger", Name: n, Qtype: q, Scope: s, Delta: []int{0, 2, 61, 61, 61, 300}[r.IntN(6)], Delay: delay(), Flag: r.IntN(2) == 0}
		default:
			op = c10Op{Kind: "reload", Prog: r.IntN(nprogs), Cfg: r.IntN(len(c10Cfgs)), Delay: delay(), Flag: r.IntN(2) == 0}
			if r.IntN(4) == 0 {
				op = c10Op{Kind: "rollback"}
			}
		}
		h.Ops = append(h.Ops, op)
	}
	if r.IntN(8) == 0 { // one staged reuse-handoff reload somewhere in the history
		op := c10Op{Kind: "reload-reuse", Prog: r.IntN(nprogs)}
		if r.IntN(3) == 0 {
			op.Prog = -1 // same routing program as the running generation
		}
		for k := r.IntN(4); k > 0; k-- {
			n, q, s := tuple(true)
			switch r.IntN(4) {
			case 0:
				op.During = append(op.During, c10Op{Kind: "remove", Name: n, Qtype: q, Scope: s})
			case 1:
				op.During = append(op.During, c10Op{Kind: "janitor", Delta: []int{1, 100}[r.IntN(2)]})
			default:
				if s == 0 {
					s = 1
				}
				op.During = append(op.During, c10Op{Kind: "query", Name: n, Qtype: q, Scope: s, Ans: c10GenAnswer(r, q)})
			}
		}
		at := r.IntN(len(h.Ops) + 1)
		h.Ops = append(h.Ops[:at], append([]c10Op{op}, h.Ops[at:]...)...)
	}
	return h
}

// c10Minimize: chunked then single-op removal while a failure of the same kind
// reproduces. A candidate is tried up to three times because dae iterates Go
// maps (restore order, LRU ties), so which queued refresh is parked can differ
// between two executions of the same history.
func c10Minimize(env *c10Env, h *c10Hist, f *c10Fail) (*c10Hist, *c10Fail) {
	cur := &c10Hist{Cfg: h.Cfg, Prog: h.Prog, Fixed: h.Fixed, Ops: append([]c10Op(nil), h.Ops[:f.OpIdx+1]...)}
	curF := f
	kindOf := func(s string) string { return strings.SplitN(s, "/", 2)[0] }
	budget := 600
	try := func(cand *c10Hist) *c10Fail {
		for k := 0; k < 3 && budget > 0; k++ {
			budget--
			f2, _, err := c10Run(env, cand, map[string]int64{})
			if err == nil && f2 != nil && kindOf(f2.Sig) == kindOf(f.Sig) {
				return f2
			}
		}
		return nil
	}
	for chunk := len(cur.Ops) / 2; chunk >= 1 && budget > 0; chunk /= 2 {
		for start := 0; start+chunk <= len(cur.Ops) && budget > 0; {
			cand := &c10Hist{Cfg: cur.Cfg, Prog: cur.Prog, Fixed: cur.Fixed}
			cand.Ops = append(append([]c10Op(nil), cur.Ops[:start]...), cur.Ops[start+chunk:]...)
			if f2 := try(cand); f2 != nil {
				cand.Ops = cand.Ops[:f2.OpIdx+1]
				cur, curF = cand, f2
			} else {
				start += chunk
			}
		}
	}
	return cur, curF
}

func c10Describe(env *c10Env, h *c10Hist) map[string]any {
	var ops []string
	for i, op := range h.Ops {
		s := fmt.Sprintf("#%d %s", i, op.Kind)
		switch op.Kind {
		case "query", "store", "remove", "lookup", "trigger", "family":
			s += fmt.Sprintf(" %s type=%d scope=%q", c10Names[op.Name], op.Qtype, c10Resolvers[op.Scope])
		case "upready":
			s += " " + c10Names[op.Name]
		}
		if op.Ans != nil {
			s += fmt.Sprintf(" answer=%v ttl=%d cname=%v", op.Ans.Addrs, op.Ans.Ttl, op.Ans.Cname)
		}
		if op.Kind == "janitor" || op.Kind == "trigger" {
			s += fmt.Sprintf(" at=now+%ds", op.Delta)
		}
		if op.Delay > 0 {
			s += fmt.Sprintf(" async-worker-held-for=%d-ops", op.Delay)
			if op.Flag && (op.Kind == "trigger" || op.Kind == "reload") {
				s += "(parked-after-its-liveness-check)"
			}
		}
		if op.Kind == "reload" {
			s += fmt.Sprintf(" new-program=%d new-cache-cfg=%s", op.Prog, c10Cfgs[op.Cfg].Name)
		}
		if op.Kind == "reload-reuse" {
			s += fmt.Sprintf(" new-program=%d(-1=unchanged) dns-section-unchanged", op.Prog)
			for _, d := range op.During {
				s += fmt.Sprintf(" | meanwhile-old-generation: %s %s type=%d scope=%q", d.Kind, c10Names[d.Name], d.Qtype, c10Resolvers[d.Scope])
				if d.Ans != nil {
					s += fmt.Sprintf(" answer=%v ttl=%d", d.Ans.Addrs, d.Ans.Ttl)
				}
			}
		}
		ops = append(ops, s)
	}
	progs := map[string]string{}
	for i, p := range env.progs {
		progs[fmt.Sprint(i)] = p.Text
	}
	return map[string]any{"cache_cfg": c10Cfgs[h.Cfg].Name, "routing_program": h.Prog, "fixed_domain_ttl": c10FixedTtl(h.Fixed),
		"ops_readable": ops, "ops": h.Ops, "routing_programs": progs}
}

// ---- the test --------------------------------------------------------------

func TestVerifC10(t *testing.T) {
	m := vk.NewMonitor("C10", "main", "exploration",
		"seeded histories of 20-200 cache operations (query via HandleWithResponseWriter_ with a stub upstream, store via NormalizeAndCacheDnsResp_, "+
			"upstream-ready insert, RemoveDnsRespCache, RemoveDnsRespCacheFamily incl. reject-routed queries, janitor eviction at chosen tick times, LRU, "+
			"expiry lookups, asynchronous refresh triggers with the worker run at once or held back 1-3 ops (parked before or after its liveness check), "+
			"reload clone+restore into a new core/program, staged reuse-handoff reload) over "+
			"2-6 names x {A,AAAA} x 1-3 resolver scopes (+ unscoped), 8 addresses, 6 routing programs; after every quiescent step the table folded from the "+
			"observed kernel batches is compared with the cache; distinct = (cache config, ordered set of <operation kind>:<effect> events on addresses shared by >=2 owners); "+
			"non-trivial = history in which an address with >=2 owners lost one")
	m.SetFloor(100)
	m.Assume("domain_routing_map itself is not present (DomainRoutingMap == nil): the table is the fold of the batches syncOwner hands to BpfMapBatchUpdate/BpfMapBatchDelete (updates first, then deletes); failing kernel batch calls are driven by part fault (real map)",
		"ControlPlane values carry only the fields dnsControllerOption()/replayDnsReloadCache/dnsUpstreamReadyCallback/ReuseDNSControllerFrom read; all cache callbacks and NewCache are the production closures returned by (*ControlPlane).dnsControllerOption(); only bestDialerChooser and dnsForwarderFactory are replaced (in-tree test seams) so no network is needed",
		"reload = CloneDnsCache -> new generation (own core, tracker, routing program, DnsController) -> map cleared -> replayDnsReloadCache -> old controller closed; reload-reuse = the staged same-port sequence of cmd/run.go with an unchanged dns section: clone -> prepared generation -> old generation keeps serving -> clear map + replay -> ReuseDNSControllerFrom(old); two generations writing the shared map at the same time are not driven",
		"operations are issued from one goroutine; the only concurrency explored is dae's own bpf-update worker running late (verifYield points dns-bpf-update-task, dns-bpf-update-refresh); two request handlers racing on one cache key are not explored",
		"dae iterates Go maps (restore order, LRU ties): the operation lists are a function of VERIF_SEED, the exact cache contents reached may differ between two runs of one seed")

	log := verifQuietLog()
	r := vk.NewRand(0xC10)
	env := &c10Env{log: log, shadow: &c10Shadow{S: map[c10Key]c10Bm{}}, gate: newC10Gate()}
	for i := 0; i < 6; i++ {
		text := c10GenProgText(r, i)
		p, err := c10BuildProg(text)
		if err != nil {
			m.Inconclusive("cannot build routing program %d: %v\n%s", i, err, text)
			m.Done(t)
			return
		}
		env.progs = append(env.progs, p)
	}
	var err error
	if env.routing, err = c10BuildDnsRouting(log); err != nil {
		m.Inconclusive("cannot build dns routing: %v", err)
		m.Done(t)
		return
	}
	bitmapKinds := map[string]struct{}{}
	for _, p := range env.progs {
		for _, n := range c10Names {
			var bm c10Bm
			copy(bm[:], p.matcher.domainMatcher.MatchDomainBitmap(n))
			bitmapKinds[c10BmStr(bm)] = struct{}{}
		}
	}
	m.Set("distinct_bitmaps_over_programs_x_names", len(bitmapKinds))

	obs := func(upd [][4]uint32, vals []bpfDomainRouting, del [][4]uint32) { env.shadow.observe(upd, vals, del) }
	VerifDomainRoutingObserver.Store(&obs)
	defer VerifDomainRoutingObserver.Store(nil)
	yh := env.gate.hook
	VerifYieldHook.Store(&yh)
	defer VerifYieldHook.Store(nil)
	origFactory := dnsForwarderFactory
	dnsForwarderFactory = func(*componentdns.Upstream, dialArgument, *logrus.Logger) (DnsForwarder, error) {
		return &stubDnsForwarder{forward: env.forward}, nil
	}
	defer func() { dnsForwarderFactory = origFactory }()

	// Is the yield point compiled into the tree under test?  One async task, gate open.
	{
		probe := &c10Hist{Ops: []c10Op{
			{Kind: "store", Name: 0, Qtype: dnsmessage.TypeA, Scope: 1, Ans: &c10Answer{Addrs: []string{"192.0.2.1"}, Ttl: 600}},
			{Kind: "trigger", Name: 0, Qtype: dnsmessage.TypeA, Scope: 1, Delta: 61},
		}}
		if _, _, perr := c10Run(env, probe, map[string]int64{}); perr != nil {
			m.Inconclusive("probe history failed: %v", perr)
			m.Done(t)
			return
		}
		env.gate.mu.Lock()
		env.hookOK = env.gate.hits > 0
		env.hook2OK = env.gate.hits2 > 0
		env.hook3OK = env.gate.hits3 > 0
		env.gate.mu.Unlock()
		if !env.hookOK {
			m.Count("yield_point_absent_async_worker_never_held_back", 1)
		}
	}

	stats := map[string]int64{}
	minimized := map[string]bool{}
	n := vk.Scale(500, 20000)
	for i := 0; i < n && m.Violations() < 3; i++ {
		h := c10GenHist(r, len(env.progs))
		c0 := stats["checks"]
		fail, w, rerr := c10Run(env, h, stats)
		m.Count("histories", 1)
		if rerr != nil {
			m.Inconclusive("history %d: %v", i, rerr)
			break
		}
		m.Eval(int(stats["checks"] - c0))
		if w.lostShared > 0 {
			m.Count("nontrivial_histories", 1)
			m.Distinct(c10Cfgs[h.Cfg].Name + "|" + strings.Join(w.tokens, ","))
			if m.WantSample() && fail == nil {
				d := c10Describe(env, h)
				delete(d, "ops")
				delete(d, "routing_programs")
				d["shared_address_events"] = w.tokens
				m.Sample(d)
			}
		}
		if fail != nil {
			minH, minF := h, fail
			if !minimized[fail.Sig] { // minimise the first witness of each structural signature only
				minimized[fail.Sig] = true
				minH, minF = c10Minimize(env, h, fail)
			} else {
				minH = &c10Hist{Cfg: h.Cfg, Prog: h.Prog, Fixed: h.Fixed, Ops: h.Ops[:fail.OpIdx+1]}
			}
			wit := c10Describe(env, minH)
			wit["failure"] = minF.Detail
			wit["failure_text"] = minF.What
			wit["original_history_ops"] = len(h.Ops)
			wit["history_index"] = i
			m.Violation(minF.Sig, minF.What, wit)
		}
	}
	for k, v := range stats {
		m.Count(k, v)
	}
	sh := env.shadow
	sh.mu.Lock()
	m.Count("observed_batches", sh.batches)
	m.Count("observed_update_keys", sh.updKeys)
	m.Count("observed_delete_keys", sh.delKeys)
	m.Count("observed_delete_of_absent_key", sh.delMiss)
	m.Count("observed_malformed_batches", sh.malform)
	sh.mu.Unlock()
	env.gate.mu.Lock()
	m.Count("yield_point_hits", env.gate.hits)
	m.Count("yield_point_parked", env.gate.parked)
	m.Count("yield_point_refresh_hits", env.gate.hits2)
	m.Count("yield_point_refresh_parked", env.gate.parked2)
	env.gate.mu.Unlock()
	m.Require("observed_update_keys", "observed_delete_keys", "nontrivial_histories", "op/reload", "op/janitor", "op/family",
		"shared_addr_lost_owner/still-shared", "shared_addr_lost_owner/lost-all", "ref_zero_bitmap_entries", "ref_unspecified_answers_skipped",
		"ref_empty_answer_entries", "mirror_agrees_with_shadow", "yield_point_parked", "late_async_releases", "reuse_handoffs")
	m.Done(t)
}
