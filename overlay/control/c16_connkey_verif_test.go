package control

// C16 monitor (part "connkey"): the group connectivity callback of part
// "health" is what control.outboundAliveChangeCallback turns into a write of
// outbound_connectivity_map. This part checks that write: the slot computed by
// outboundConnectivityMapKey must be the slot the kernel reads in
// wan_outbound_is_alive (documented: outbound_id*6 + domain*2 + ipversion,
// domain 0=TCP 1=DNS-UDP 2=data-UDP, ipversion 0=v4 1=v6), for every outbound
// id and every spelling of the six health domains, and the callback must
// change exactly that slot of a real BPF array map to the reported value.

import (
	"context"
	"fmt"
	"io"
	"testing"

	"github.com/cilium/ebpf"
	"github.com/daeuniverse/dae/common/consts"
	"github.com/daeuniverse/dae/component/outbound/dialer"
	vk "github.com/daeuniverse/dae/verifkit"
	"github.com/sirupsen/logrus"
)

type c16KeyType struct {
	dom  int
	name string
	nt   dialer.NetworkType
}

func c16KeyTypes() []c16KeyType {
	var out []c16KeyType
	for ip, ipv := range []consts.IpVersionStr{consts.IpVersionStr_4, consts.IpVersionStr_6} {
		out = append(out,
			c16KeyType{vk.C16Tcp4 + ip, "tcp", dialer.NetworkType{L4Proto: consts.L4ProtoStr_TCP, IpVersion: ipv}},
			c16KeyType{vk.C16Tcp4 + ip, "tcp-dns-alias", dialer.NetworkType{L4Proto: consts.L4ProtoStr_TCP, IpVersion: ipv, IsDns: true}},
			c16KeyType{vk.C16DnsUdp4 + ip, "dns-udp", dialer.NetworkType{L4Proto: consts.L4ProtoStr_UDP, IpVersion: ipv, IsDns: true, UdpHealthDomain: dialer.UdpHealthDomainDns}},
			c16KeyType{vk.C16DnsUdp4 + ip, "dns-udp-noflag", dialer.NetworkType{L4Proto: consts.L4ProtoStr_UDP, IpVersion: ipv, UdpHealthDomain: dialer.UdpHealthDomainDns}},
			c16KeyType{vk.C16DataUdp4 + ip, "data-udp", dialer.NetworkType{L4Proto: consts.L4ProtoStr_UDP, IpVersion: ipv, UdpHealthDomain: dialer.UdpHealthDomainData}},
			c16KeyType{vk.C16DataUdp4 + ip, "data-udp-unset", dialer.NetworkType{L4Proto: consts.L4ProtoStr_UDP, IpVersion: ipv}},
		)
	}
	return out
}

func TestVerifC16ConnKey(t *testing.T) {
	m := vk.NewMonitor("C16", "connkey", "exploration",
		"exhaustive over outbound id 0..255 x 12 NetworkType spellings of the six health domains for the slot function; then generated sequences of outboundAliveChangeCallback calls against a real BPF array map compared with a shadow array. distinct = (outbound id, spelling) for the key function plus (outbound id, domain, value, isInit) for map writes")
	m.SetFloor(1000)
	m.Assume("Trusted: verifkit.C16ConnKey (slot formula from the kernel comment/wan_outbound_is_alive) and the kernel's array-map semantics. Requires bpf(2) map creation; without it only the slot function is checked (recorded as map_unavailable).")
	const maxEntries = 1536
	types := c16KeyTypes()
	seen := map[uint32]string{}
	for ob := 0; ob < 256; ob++ {
		for _, kt := range types {
			nt := kt.nt
			m.Eval(1)
			got := outboundConnectivityMapKey(uint8(ob), &nt)
			want := vk.C16ConnKey(uint8(ob), kt.dom)
			m.Distinct(fmt.Sprintf("key|%d|%s|%s", ob, kt.name, vk.C16DomNames[kt.dom]))
			m.Count("slot_checked", 1)
			if got != want {
				m.Violation("connectivity-slot-differs-from-kernel:"+kt.name, fmt.Sprintf("outbound %d %s (%s): user space writes slot %d, the kernel reads slot %d", ob, vk.C16DomNames[kt.dom], kt.name, got, want),
					map[string]any{"outbound": ob, "domain": vk.C16DomNames[kt.dom], "spelling": kt.name, "got": got, "want": want})
				continue
			}
			if got >= maxEntries {
				m.Violation("connectivity-slot-out-of-map", fmt.Sprintf("outbound %d %s: slot %d >= max_entries %d", ob, vk.C16DomNames[kt.dom], got, maxEntries), map[string]any{"outbound": ob, "slot": got})
			}
			id := fmt.Sprintf("%d/%s", ob, vk.C16DomNames[kt.dom])
			if prev, dup := seen[got]; dup && prev != id {
				m.Violation("connectivity-slot-collision", fmt.Sprintf("slot %d shared by %s and %s", got, prev, id), map[string]any{"slot": got, "a": prev, "b": id})
			}
			seen[got] = id
		}
	}

	mp, err := ebpf.NewMap(&ebpf.MapSpec{Type: ebpf.Array, KeySize: 4, ValueSize: 4, MaxEntries: maxEntries})
	if err != nil {
		m.Count("map_unavailable", 1)
		m.Set("map_error", err.Error())
		m.Done(t)
		return
	}
	defer mp.Close()
	logger := logrus.New()
	logger.SetOutput(io.Discard)
	core := &controlPlaneCore{log: logger, closed: context.Background(), outboundId2Name: map[uint8]string{}}
	core.bpf.Store(&bpfObjects{bpfMaps: bpfMaps{OutboundConnectivityMap: mp}})

	var shadow [maxEntries]uint32
	readAll := func() (out [maxEntries]uint32, err error) {
		for k := uint32(0); k < maxEntries; k++ {
			if err = mp.Lookup(k, &out[k]); err != nil {
				return
			}
		}
		return
	}
	r := vk.NewRand(0xC16B)
	obPool := []int{0, 1, 2, 3, 127, 128, 254, 255}
	n := vk.Scale(20000, 400000)
	for i := 0; i < n; i++ {
		ob := obPool[r.IntN(len(obPool))]
		if r.IntN(4) == 0 {
			ob = r.IntN(256)
		}
		kt := types[r.IntN(len(types))]
		alive := r.IntN(2) == 0
		isInit := r.IntN(8) == 0
		dryrun := r.IntN(16) == 0
		nt := kt.nt
		core.outboundAliveChangeCallback(uint8(ob), dryrun)(alive, &nt, isInit)
		m.Eval(1)
		slot := vk.C16ConnKey(uint8(ob), kt.dom)
		if dryrun && !isInit {
			m.Count("recorded_dryrun_non_init_callback", 1) // documented to be muted; the shadow keeps its value
		} else {
			if alive {
				shadow[slot] = 1
			} else {
				shadow[slot] = 0
			}
			m.Count("map_write_checked", 1)
			m.Distinct(fmt.Sprintf("write|%d|%s|%v|%v", ob, vk.C16DomNames[kt.dom], alive, isInit))
		}
		bad := -1
		for _, k := range []uint32{slot, (slot + 1) % maxEntries, (slot + maxEntries - 1) % maxEntries, (slot + 2) % maxEntries, (slot + 6) % maxEntries} {
			var v uint32
			if err := mp.Lookup(k, &v); err != nil {
				m.Inconclusive("map lookup failed: %v", err)
				m.Done(t)
				return
			}
			if v != shadow[k] {
				bad = int(k)
			}
		}
		if bad < 0 && (i%997 == 0 || i == n-1) {
			all, err := readAll()
			if err != nil {
				m.Inconclusive("map lookup failed: %v", err)
				break
			}
			m.Count("full_map_compared", 1)
			for k := range all {
				if all[k] != shadow[k] {
					bad = k
					break
				}
			}
		}
		if bad >= 0 {
			var v uint32
			_ = mp.Lookup(uint32(bad), &v)
			m.Violation("connectivity-map-differs-after-callback:"+kt.name,
				fmt.Sprintf("after callback(outbound=%d, %s (%s), alive=%v, isInit=%v, dryrun=%v) slot %d holds %d, the kernel-side expectation is %d", ob, vk.C16DomNames[kt.dom], kt.name, alive, isInit, dryrun, bad, v, shadow[bad]),
				map[string]any{"outbound": ob, "domain": vk.C16DomNames[kt.dom], "spelling": kt.name, "alive": alive, "is_init": isInit, "dryrun": dryrun, "slot": bad, "holds": v, "want": shadow[bad], "written_slot_expected": slot})
			break
		}
	}
	m.Require("slot_checked", "map_write_checked", "full_map_compared")
	m.Done(t)
}
