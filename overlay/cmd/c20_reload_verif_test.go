package cmd

// C20 monitor, part 2: simulated worker + main-loop stage walk over the REAL
// reloadManager entry points (in the order Runner.Run uses them), hostile
// signal goroutines, and the oracles.
//
// NOTE: the stage SEQUENCE is a transcription of Runner.Run's worker closure and
// runStateChanges branch (cmd/run.go:387-659, 688-836): newControlPlane/Listen/
// Serve are replaced by injected outcomes, every admission / release / retirement
// call goes through the real functions. A defect confined to the closure text
// itself (e.g. a dropped clearReloadPending on one error branch) is out of reach.

import (
	"context"
	"fmt"
	"math"
	"math/rand/v2"
	"os"
	"runtime"
	"sort"
	"strings"
	"sync"
	"syscall"
	"testing"
	"time"

	"github.com/daeuniverse/dae/common/consts"
	"github.com/daeuniverse/dae/control"
	vk "github.com/daeuniverse/dae/verifkit"
)

const c20Bound = 15 * time.Second // generous liveness bound; the property is about never hanging

type c20Plan struct {
	Path          string // staged | nonstaged | relisten
	FailAt        string // "" | config | prepare | clone | listen | serve | ready
	BuildRollback bool
	Retire        string // fast | slow | late
	Abort         bool
	Overlap       bool
	NoOld         bool // non-staged only: there is no previous generation to retire (oldC == nil)
	OldCloseErr   bool // the old generation's Close() reports an error (failed deferred clean-up / close-tail timeout)
	// SlowWithSessions: the reload needed more than the total switch budget (10 s) before the hand-off,
	// so the old generation's drain budget is zero, and the old generation still has sessions that
	// do not end by themselves
	SlowWithSessions bool
	Probe            map[string]int // stage -> number of concurrent refused requests fired while the worker is parked
}

func (p *c20Plan) String() string {
	f := p.FailAt
	if f == "" {
		f = "ok"
	}
	s := p.Path + "/" + f + "/" + p.Retire
	if p.BuildRollback {
		s += "/rollback"
	}
	if p.NoOld {
		s += "/no-old-generation"
	}
	if p.OldCloseErr {
		s += "/old-close-error"
	}
	if p.SlowWithSessions {
		s += "/slow-reload-lingering-sessions"
	}
	return s
}

func c20GenPlan(r *rand.Rand) *c20Plan {
	p := &c20Plan{Probe: map[string]int{}}
	switch x := r.IntN(100); {
	case x < 45:
		p.Path = "staged"
		p.FailAt = []string{"", "", "config", "prepare", "clone", "serve"}[r.IntN(6)]
	case x < 85:
		p.Path = "nonstaged"
		p.FailAt = []string{"", "", "config", "listen", "serve"}[r.IntN(5)]
		p.BuildRollback = r.IntN(4) == 0
		p.NoOld = r.IntN(8) == 0
	default:
		p.Path = "relisten"
		p.FailAt = []string{"", "config", "listen", "ready"}[r.IntN(4)]
	}
	p.Retire = []string{"fast", "fast", "slow", "slow", "late"}[r.IntN(5)]
	p.Abort, p.Overlap = r.IntN(3) == 0, r.IntN(2) == 0
	p.OldCloseErr = r.IntN(4) == 0
	p.SlowWithSessions = r.IntN(5) == 0
	for _, st := range []string{"queued", "active", "handoff", "serving", "retiring"} {
		if r.IntN(4) == 0 {
			p.Probe[st] = 1 + r.IntN(4)
		}
	}
	return p
}

type c20Round struct {
	mon             *vk.Monitor
	r               *rand.Rand
	e               *c20Env
	no              int
	plans           []string
	lateGates       []chan struct{}
	sessionReleases []func()
	allGates        []chan struct{}
	opened          map[chan struct{}]bool
	dones           []<-chan struct{}
	stopCycle       int
	broken          bool
	nsig            int
	violated        bool
	// stage, when set, is called whenever the worker is parked at a stage (before the default
	// parked probe): the end-to-end histories of c20_e2e_verif_test.go script their arrivals there
	stage func(p *c20Plan, stage string)
}

func (h *c20Round) witness(extra map[string]any) map[string]any {
	e := h.e
	e.mu.Lock()
	defer e.mu.Unlock()
	att := e.attempts
	if len(att) > 80 {
		att = att[len(att)-80:]
	}
	w := map[string]any{"round": h.no, "signal_goroutines": h.nsig, "plans": h.plans,
		"attempts_tail": append([]c20Attempt(nil), att...), "releases": append([]c20Release(nil), e.releases...),
		"receipts": e.receipts, "progress_writes": append([]c20ProgWrite(nil), e.progLog...),
		"note": "stamps are a global logical clock; attempt=[call,ret] around reloadManager.queueReloadRequest; release=[floor,end]"}
	for k, v := range extra {
		w[k] = v
	}
	return w
}

func (h *c20Round) violation(sig, what string, extra map[string]any) {
	h.violated = true
	h.mon.Violation(sig, what, h.witness(extra))
}

func (h *c20Round) jitter() {
	if h.stage != nil {
		return // scripted history on one goroutine: nothing to race with
	}
	c20Pause(h.r)
}

func (h *c20Round) openGate(g chan struct{}) {
	if g != nil && !h.opened[g] {
		h.opened[g] = true
		close(g)
	}
}

// probe: the worker is parked at `stage` while an admitted request holds the
// admission; fire k more requests. All must be refused and nothing but the
// progress report may differ between the snapshots.
func (h *c20Round) probe(p *c20Plan, stage string) {
	if h.stage != nil && !h.broken {
		h.stage(p, stage)
	}
	k := p.Probe[stage]
	if k == 0 || h.broken {
		return
	}
	e := h.e
	// dae's own release goroutine of the PREVIOUS cycle may still be between
	// reloadPending.Store(false) and EndReloadProxyFailureSuppression; it is not
	// a refused request, so let it finish before freezing the picture.
	if !h.awaitReleases() {
		h.mon.Count("parked_probe_skipped_release_in_flight", 1)
		return
	}
	t1 := e.clock.Add(1)
	s1 := e.snap()
	var wg sync.WaitGroup
	for i := 0; i < k; i++ {
		wg.Add(1)
		susp := h.r.IntN(2) == 0
		go func() { defer wg.Done(); e.attempt(susp, "parked:"+stage, false) }()
	}
	wg.Wait()
	s2 := e.snap()
	t2 := e.clock.Add(1)
	h.mon.Count("parked_probe/"+stage, 1)
	admittedInWindow := false
	e.mu.Lock()
	for i := range e.attempts {
		a := &e.attempts[i]
		if a.OK && a.Ret > t1 && a.Call < t2 {
			admittedInWindow = true
		}
	}
	e.mu.Unlock()
	if admittedInWindow {
		// judged by the admission-history oracle, the snapshot comparison would only echo it
		h.mon.Count("parked_probe_saw_admission", 1)
		return
	}
	h.mon.Eval(1)
	if diff := s1.diff(s2); len(diff) > 0 {
		h.violation("refused-request-changed-state/"+strings.Join(diff, "+"),
			fmt.Sprintf("refused requests fired while the worker was parked at %q changed more than the busy report: before=%+v after=%+v", stage, s1, s2),
			map[string]any{"stage": stage, "before": s1, "after": s2, "plan": p.String()})
	}
}

func (h *c20Round) awaitReleases() bool {
	e := h.e
	for deadline := time.Now().Add(c20Bound); ; {
		want := 0
		e.mu.Lock()
		for _, rc := range e.receipts {
			if rc.released {
				want++
			}
		}
		have := len(e.releases)
		e.mu.Unlock()
		if have >= want {
			return true
		}
		if time.Now().After(deadline) {
			return false
		}
		time.Sleep(10 * time.Microsecond)
	}
}

// preRelease stamps the earliest instant the pending release of this cycle can happen.
func (h *c20Round) preRelease(rec *c20Receipt) {
	e := h.e
	if rec.Cycle >= h.stopCycle {
		e.stop.Store(true)
	}
	h.jitter()
	st := e.clock.Add(1)
	rec.Floor = st
	e.relFloor.Store(st)
	rec.released = true
}

func (h *c20Round) startRetirement(p *c20Plan, oldC, newC *control.ControlPlane, oldCancel context.CancelFunc, abort, overlap bool) <-chan struct{} {
	e := h.e
	late := h.lateGates
	h.lateGates = nil
	e.m.startControlPlaneRetirement(e.log, oldC, newC, oldCancel, abort, overlap)
	for _, g := range late { // the previous retirement was just cancelled by this one
		h.mon.Count("retire_cancelled_by_next", 1)
		h.openGate(g)
	}
	e.m.mu.Lock()
	d := e.m.pendingRetirementDone
	e.m.mu.Unlock()
	if d != nil {
		h.dones = append(h.dones, d)
	}
	return d
}

// runCycle consumes one admitted request exactly like Runner.Run's worker and
// main loop do, with the outcome of each external stage injected by the plan.
func (h *c20Round) runCycle(p *c20Plan) *c20Receipt {
	e, m := h.e, h.e.m
	ci := int(e.cycleIdx.Add(1))
	rec := &c20Receipt{Cycle: ci, Plan: p.String(), Floor: math.MaxInt64}
	e.mu.Lock()
	e.receipts = append(e.receipts, rec)
	e.mu.Unlock()
	h.plans = append(h.plans, rec.Plan)

	h.probe(p, "queued")
	// ---- worker: for req := range reloadManager.reloadReqs
	var req reloadRequest
	select {
	case req = <-m.reloadReqs:
	default:
		rec.Outcome = "admitted-but-queue-empty"
		e.processed++
		h.broken = true
		h.violation("admitted-request-not-queued", "a request was reported admitted but the worker queue is empty", nil)
		return rec
	}
	rec.FirstID, rec.Stamp = req.requestedAtMono, e.clock.Add(1)
	m.reloadActive.Store(true)
	h.jitter()
	req = m.coalesceReloadRequest(req)
	rec.ID, rec.Suspend = req.requestedAtMono, req.isSuspend
	e.processed++
	if rec.ID != rec.FirstID {
		rec.Swallow = 1
		e.processed = e.admitted.Load()
		h.broken = true
		h.violation("double-admission/coalesced", fmt.Sprintf("two requests were admitted back to back: worker received id %d and coalesced it with id %d", rec.FirstID, rec.ID), nil)
	}
	reloadStartedAt, reloadStartedAtMono := req.requestedAt, req.requestedAtMono
	h.probe(p, "active")
	_ = setRunSignalProgress(consts.ReloadProcessing, "")
	m.setReloadError(nil)
	resetReloadProxyRuntimeState()
	h.jitter()

	failEarly := func(outcome string, setErr bool) *c20Receipt {
		err := fmt.Errorf("injected: %s", outcome)
		if setErr {
			m.setReloadError(err)
		}
		_ = setRunSignalProgress(consts.ReloadError, err.Error())
		m.reloadActive.Store(false)
		h.preRelease(rec)
		clearReloadPending(&m.reloadPending)
		rec.Outcome = outcome
		return rec
	}
	if p.FailAt == "config" {
		return failEarly("fail-config", false)
	}

	oldC, newC := &control.ControlPlane{}, &control.ControlPlane{}
	if p.OldCloseErr {
		oldC = control.VerifC20ControlPlaneWithCloseError(fmt.Errorf("injected: old generation close did not finish cleanly"))
		h.mon.Count("old_generation_close_error_planned", 1)
	}
	if p.SlowWithSessions {
		var cerr error
		if p.OldCloseErr {
			cerr = fmt.Errorf("injected: old generation close did not finish cleanly")
		}
		var release func()
		oldC, release = control.VerifC20ControlPlaneWithSessions(cerr, 1+h.r.IntN(3))
		h.sessionReleases = append(h.sessionReleases, release)
		reloadStartedAt = reloadStartedAt.Add(-11 * time.Second) // the stages before the hand-off took 11 s
		h.mon.Count("slow_reload_with_lingering_sessions_planned", 1)
	}
	var gate chan struct{}
	if p.Retire != "fast" {
		gate = make(chan struct{})
		h.allGates = append(h.allGates, gate)
	}
	oldCancel := context.CancelFunc(func() {
		if gate != nil {
			<-gate // keeps the old generation "retiring" until the harness lets it finish
		}
	})
	retirementStarted := false

	switch p.Path {
	case "staged":
		if p.FailAt == "prepare" {
			return failEarly("fail-prepare", true)
		}
		if p.FailAt == "clone" {
			_ = newC.Close()
			return failEarly("fail-clone", true)
		}
		_, newCancel := context.WithCancel(context.Background())
		m.setPendingStagedHandoff(&stagedReloadHandoff{
			oldControlPlane: oldC, oldCancel: oldCancel, newControlPlane: newC, newCancel: newCancel,
			abortConnections: p.Abort, hasOverlap: p.Overlap,
		}, reloadStartedAt, reloadStartedAtMono)
		m.beginHandoff()
		notifyRunStateChange(m.runStateChanges)
	default:
		if p.BuildRollback {
			m.setReloadError(wrapReloadTimeoutError("build new control plane", fmt.Errorf("injected build failure"), reloadPrepareTimeout))
		}
		if p.FailAt == "listen" {
			_ = newC.Close()
			return failEarly("fail-listen", true)
		}
		m.clearPendingStagedHandoff()
		m.clearPendingRetirement()
		m.setPendingReloadMetadata(reloadStartedAt, reloadStartedAtMono)
		m.beginHandoff()
		if p.NoOld {
			oldC = nil
		}
		if oldC != nil && m.currentPendingStagedHandoff() == nil {
			h.startRetirement(p, oldC, newC, oldCancel, p.Abort, p.Overlap)
			retirementStarted = true
		}
		notifyRunStateChange(m.runStateChanges)
	}
	h.probe(p, "handoff")
	h.jitter()

	// ---- main loop: case <-runStateChanges: if reloadManager.reloading.Load() { ...
	select {
	case <-m.runStateChanges:
	default:
		rec.Outcome = "no-run-state-notification"
		return rec
	}
	if !m.reloading.Load() {
		rec.Outcome = "handoff-not-flagged"
		return rec
	}
	finishSuccess := func(outcome string) *c20Receipt {
		if reloadErr := m.reloadError(); reloadErr == nil {
			_ = setRunSignalProgress(consts.ReloadDone, "OK")
		} else {
			_ = setRunSignalProgress(consts.ReloadError, reloadErr.Error())
		}
		gated := retirementStarted && gate != nil
		if retirementStarted {
			m.mu.Lock()
			rec.done = m.pendingRetirementDone
			m.mu.Unlock()
		}
		if !gated {
			h.preRelease(rec)
		}
		m.finishReloadSuccess()
		if gated {
			h.mon.Count("retire_slow", 1)
			h.probe(p, "retiring")
			h.jitter()
			h.preRelease(rec)
			h.openGate(gate)
		} else if retirementStarted {
			h.mon.Count("retire_fast", 1)
		} else {
			h.mon.Count("retire_none", 1)
		}
		rec.Outcome = outcome
		return rec
	}
	failLate := func(outcome string) {
		if retirementStarted && gate != nil {
			if p.Retire == "late" {
				h.lateGates = append(h.lateGates, gate)
				h.mon.Count("retire_outlives_failed_reload", 1)
			} else {
				h.openGate(gate)
			}
		}
		rec.Outcome = outcome
	}
	if p.Path == "relisten" { // listener == nil branch
		if p.FailAt == "ready" {
			reloadErr := fmt.Errorf("reload listener failed before becoming ready")
			m.setReloadError(reloadErr)
			_ = setRunSignalProgress(consts.ReloadError, reloadErr.Error())
			m.reloading.Store(false)
			m.reloadActive.Store(false)
			h.preRelease(rec)
			clearReloadPending(&m.reloadPending)
			failLate("fail-ready/relisten")
			return rec
		}
		return finishSuccess("success/relisten")
	}
	m.reloading.Store(false)
	h.probe(p, "serving")
	h.jitter()
	if p.FailAt == "serve" {
		reloadErr := fmt.Errorf("reload serve failed before becoming ready")
		m.setReloadError(reloadErr)
		_ = setRunSignalProgress(consts.ReloadError, reloadErr.Error())
		if handoff := m.currentPendingStagedHandoff(); handoff != nil {
			rollbackStagedReloadHandoff(e.log, handoff)
			m.clearPendingStagedHandoff()
		}
		h.preRelease(rec)
		m.finishReloadFailure()
		failLate("fail-serve/" + p.Path)
		return rec
	}
	if handoff := m.currentPendingStagedHandoff(); handoff != nil {
		m.clearPendingStagedHandoff()
		if handoff.oldControlPlane != nil {
			h.startRetirement(p, handoff.oldControlPlane, newC, handoff.oldCancel, handoff.abortConnections, handoff.hasOverlap)
			retirementStarted = true
		}
	}
	out := "success/" + p.Path
	if p.BuildRollback {
		out += "+rollback"
	}
	return finishSuccess(out)
}

// retirementAbandoned: a retirement-done channel is still open although no goroutine of
// startControlPlaneRetirement exists any more (decided on the goroutine dump, not on time): nobody
// is left who could ever signal it, so reloadPending, the failure muting and the busy report that
// wait for it are never released.
func (h *c20Round) retirementAbandoned(plan string) bool {
	buf := make([]byte, 8<<20)
	buf = buf[:runtime.Stack(buf, true)]
	if strings.Contains(string(buf), "startControlPlaneRetirement") {
		return false
	}
	h.violation("retirement-done-never-signalled", "the old generation's retirement goroutine has exited without signalling retirement completion: everything waiting for it (reloadPending, failure muting, busy report) stays held for ever",
		map[string]any{"plan": plan})
	return true
}

// drainExceedsBudget: a retirement is still waiting for the old generation's sessions to drain
// (goroutine dump) one whole liveness bound after it started although every drain wait in this
// harness has a budget of zero (sessions are only planned together with a reload that used up the
// total switch budget) or is skipped (abort / no overlap): the wait ignores its budget.
func (h *c20Round) drainExceedsBudget(plan string) bool {
	buf := make([]byte, 8<<20)
	buf = buf[:runtime.Stack(buf, true)]
	if !strings.Contains(string(buf), "waitForControlPlaneDrain") {
		return false
	}
	h.violation("retirement-drain-wait-exceeds-budget", fmt.Sprintf("the old generation's retirement is still inside waitForControlPlaneDrain %v after it began although its drain budget is zero (the reload had used up the total switch budget): later requests stay refused and the failure muting stays on", c20Bound),
		map[string]any{"plan": plan})
	for _, f := range h.sessionReleases { // let the stuck goroutines go
		f()
	}
	h.sessionReleases = nil
	return true
}

// waitAdmission is the never-wedged oracle: after the previous outcome (and
// once its retirement completed) some request must be admitted again.
func (h *c20Round) waitAdmission(prev *c20Receipt) bool {
	e := h.e
	if prev != nil && prev.done != nil {
		select {
		case <-prev.done:
		case <-time.After(c20Bound):
			if h.retirementAbandoned(prev.Plan) {
				return false
			}
			if h.drainExceedsBudget(prev.Plan) {
				return false
			}
			h.mon.Inconclusive("retirement goroutine of an empty ControlPlane did not finish within %v", c20Bound)
			return false
		}
	}
	deadline := time.Now().Add(c20Bound)
	eager := h.r.IntN(2) == 0
	for steps := 0; ; steps++ {
		if e.admitted.Load() > e.processed {
			if prev != nil {
				h.mon.Count("readmitted_after/"+prev.Outcome, 1)
			}
			return true
		}
		// Runner.Run's worker ranges over the channel: it picks a request up the moment it is
		// queued, possibly while the signal goroutine is still inside queueReloadRequest
		if eager && len(e.m.reloadReqs) > 0 {
			h.mon.Count("worker_took_request_before_admission_call_returned", 1)
			return true
		}
		e.attempt(h.r.IntN(3) == 0, "probe", false)
		if e.admitted.Load() > e.processed {
			continue
		}
		c20Pause(h.r)
		if time.Now().After(deadline) {
			out := "start"
			if prev != nil {
				out = prev.Outcome
			}
			h.violation("wedged-after/"+out, fmt.Sprintf("no request admitted within %v (%d attempts) after outcome %q although its retirement completed", c20Bound, steps, out),
				map[string]any{"state": e.snap()})
			return false
		}
	}
}

// qfullProbe exercises the defensive queue-full refusal: the channel already
// holds a request while reloadPending is free (cannot arise from the real
// producers; injected here). The refusal must leave everything as it was.
func (h *c20Round) qfullProbe() {
	e, m := h.e, h.e.m
	e.inQfull.Store(true)
	defer e.inQfull.Store(false)
	foreign := reloadRequest{isSuspend: true, requestedAt: time.Now(), requestedAtMono: 1<<62 + uint64(h.no)}
	m.reloadReqs <- foreign
	s1 := e.snap()
	k := 1 + h.r.IntN(3)
	var wg sync.WaitGroup
	res := make([]bool, k)
	for i := 0; i < k; i++ {
		wg.Add(1)
		go func(i int) { defer wg.Done(); res[i] = e.attempt(i%2 == 0, "qfull", false) }(i)
	}
	wg.Wait()
	s2 := e.snap()
	h.mon.Eval(1)
	h.mon.Count("refused_queue_full_probe", int64(k))
	for _, ok := range res {
		if ok {
			h.violation("admitted-with-full-queue", "request reported admitted although the worker queue was full", nil)
		}
	}
	if len(s1.diff(s2)) > 0 {
		h.violation("queue-full-refusal-changed-state", fmt.Sprintf("queue-full refusal left state changed: before=%+v after=%+v", s1, s2),
			map[string]any{"before": s1, "after": s2})
	}
	// Every refused attempt must have written a busy report during its call. With ONE attempt that
	// report is also what the progress file must still say. With several concurrent attempts in this
	// injected state (reloadPending free, queue occupied: no real producer can create it) an attempt
	// that lost the reloadPending CAS to a sibling which then backed out at the full queue sees
	// reloadPending free again and, as after any refusal that raced with a release, removes the
	// stale busy report: the final code may then be done.
	e.mu.Lock()
	for _, a := range e.attempts {
		if a.Phase == "qfull" && !a.OK && a.Busy1 <= a.Busy0 {
			e.mu.Unlock()
			h.violation("refusal-not-reported-busy/queue-full", "a queue-full refusal returned without having written a busy report", map[string]any{"attempt": a})
			e.mu.Lock()
			break
		}
	}
	e.mu.Unlock()
	if c, _ := e.progress(); c != consts.ReloadBusy && (k == 1 || c != consts.ReloadDone) {
		h.violation("refusal-not-reported-busy/queue-full", "queue-full refusal did not report ReloadBusy: progress="+c20CodeName(c), nil)
	} else if c != consts.ReloadBusy {
		h.mon.Count("queue_full_probe_busy_report_cleared_by_racing_sibling", 1)
	}
	select {
	case got := <-m.reloadReqs:
		if got.requestedAtMono != foreign.requestedAtMono || got.isSuspend != foreign.isSuspend {
			h.violation("queue-full-refusal-replaced-queued-request", "queued request was replaced by a refused one", nil)
		}
	default:
		h.violation("queue-full-refusal-drained-queue", "queued request vanished", nil)
	}
	_ = setRunSignalProgress(consts.ReloadDone, "") // harness housekeeping: no worker exists to settle this injected state
	e.busyWrites.Store(0)
	e.mu.Lock()
	e.attempts = e.attempts[:0]
	e.progLog = e.progLog[:0]
	e.mu.Unlock()
}

func (h *c20Round) run() {
	defer func() {
		for _, f := range h.sessionReleases {
			f()
		}
	}()
	e, mon, r := h.e, h.mon, h.r
	defer func() {
		if x := recover(); x != nil {
			h.violation("panic", fmt.Sprintf("reload machinery panicked: %v", x), nil)
		}
		for _, g := range h.allGates {
			h.openGate(g)
		}
	}()
	if r.IntN(100) < 12 {
		h.qfullProbe()
	}
	base := e.clock.Add(1)
	ncycles := 1 + r.IntN(4)
	h.stopCycle = 1 + r.IntN(ncycles+2)
	h.nsig = 2 + r.IntN(15)
	maxAtt := 1 + r.IntN(6)
	var wg sync.WaitGroup
	for i := 0; i < h.nsig; i++ {
		wg.Add(1)
		go e.signaler(r.Uint64(), maxAtt, &wg)
	}
	var prev *c20Receipt
	ok := true
	for i := 0; i <= ncycles && ok && !h.broken; i++ {
		if ok = h.waitAdmission(prev); !ok {
			break
		}
		p := c20GenPlan(r)
		prev = h.runCycle(p)
		mon.Count("outcome/"+prev.Outcome, 1)
	}
	e.stop.Store(true)
	for ok && !h.broken {
		wg.Wait()
		if e.admitted.Load() <= e.processed {
			break
		}
		if prev != nil && prev.done != nil {
			<-prev.done
		}
		prev = h.runCycle(c20GenPlan(r))
		mon.Count("outcome/"+prev.Outcome, 1)
		mon.Count("drain_cycles", 1)
	}
	wg.Wait()
	for _, g := range h.allGates {
		h.openGate(g)
	}
	for _, d := range h.dones {
		select {
		case <-d:
		case <-time.After(c20Bound):
			if h.retirementAbandoned("(end of round)") {
				return
			}
			if h.drainExceedsBudget("(end of round)") {
				return
			}
			mon.Inconclusive("retirement goroutine did not finish within %v", c20Bound)
			return
		}
	}
	if !ok || h.broken {
		return
	}
	// ---- quiescence: everything retired, no request outstanding
	// The last release may still be running in dae's own goroutine
	// (releaseReloadPendingAfterRetirement): wait, generously, until it has
	// lifted the suppression and had its chance to settle the busy report.
	settled := func() bool {
		if e.m.reloadPending.Load() {
			return false
		}
		want := 0
		e.mu.Lock()
		for _, rc := range e.receipts {
			if rc.released {
				want++
			}
		}
		have, busy := len(e.releases), e.progCode == consts.ReloadBusy
		e.mu.Unlock()
		return have >= want && !busy
	}
	for deadline := time.Now().Add(c20Bound); !settled() && time.Now().Before(deadline); {
		time.Sleep(20 * time.Microsecond)
	}
	s := e.snap()
	mon.Eval(1)
	if s.Pending || s.Active || s.Reloading || s.QueueLen != 0 {
		h.violation("flags-stuck-at-quiescence/"+prev.Outcome, fmt.Sprintf("after all retirements completed (last outcome %s) the reload flags did not return to idle: %+v", prev.Outcome, s), map[string]any{"state": s})
	}
	if s.Suppression != 0 {
		h.violation("suppression-not-lifted", fmt.Sprintf("reloadProxyFailureSuppression=%d at quiescence (begins=%d ends=%d)", s.Suppression, e.begins.Load(), e.ends.Load()), map[string]any{"state": s})
		for verifC20Suppression.Load() > 0 {
			verifC20Suppression.Add(-1) // isolate the next round
		}
	}
	if v := e.negSupp.Load(); v < 0 {
		h.violation("suppression-negative", fmt.Sprintf("reloadProxyFailureSuppression went negative: %d", v), nil)
	}
	if pk := e.peakSupp.Load(); pk > 1 {
		mon.Count("suppression_peak_above_1", 1)
	}
	if code, msg := e.progress(); code == consts.ReloadBusy {
		h.violation("stale-busy-report-at-quiescence", fmt.Sprintf("nothing is in progress (flags idle) but the progress report still says busy (%q); 'dae reload' refuses to signal while the code is neither done nor error", msg),
			map[string]any{"state": s, "progress": c20CodeName(code), "message": msg})
	} else if code != consts.ReloadDone && code != consts.ReloadError {
		// no client of `dae reload` exists in these rounds: only the daemon writes the report, and the
		// last thing it has to say about a finished request is done or error
		h.violation("progress-not-final-at-quiescence/"+c20CodeName(code), fmt.Sprintf("nothing is in progress (flags idle, every generation retired) but the progress report says %s %q instead of the final status of the last request; 'dae reload' refuses to signal while the code is neither done nor error", c20CodeName(code), msg),
			map[string]any{"state": s, "progress": c20CodeName(code), "message": msg})
	} else {
		mon.Count("progress_final_at_quiescence/"+c20CodeName(code), 1)
	}
	h.checkHistory(base)
}

// checkHistory: admission is a test-and-set lock. The worker receives requests
// in true admission order; release i is bracketed by [Floor_i, End_i].
func (h *c20Round) checkHistory(base int64) {
	e, mon := h.e, h.mon
	e.mu.Lock()
	attempts := append([]c20Attempt(nil), e.attempts...)
	releases := append([]c20Release(nil), e.releases...)
	receipts := append([]*c20Receipt(nil), e.receipts...)
	busyWrites := e.busyWrites.Load()
	pan := append([]string(nil), e.panics...)
	e.mu.Unlock()
	for _, p := range pan {
		h.violation("panic", p, nil)
	}
	byID := map[uint64]*c20Attempt{}
	refusals := 0
	for i := range attempts {
		a := &attempts[i]
		byID[a.ID] = a
		mon.Eval(1)
		if a.OK {
			mon.Count("admitted", 1)
			continue
		}
		refusals++
		mon.Count("refused_busy/"+strings.SplitN(a.Phase, ":", 2)[0], 1)
		if a.Busy1 <= a.Busy0 {
			h.violation("refusal-not-reported-busy", fmt.Sprintf("request %d was refused but no ReloadBusy progress was written during the call", a.ID), map[string]any{"attempt": a})
		}
	}
	if int64(refusals) != busyWrites {
		h.violation("busy-reports-mismatch", fmt.Sprintf("%d refusals but %d ReloadBusy progress writes", refusals, busyWrites), nil)
	}
	received := map[uint64]int{}
	// the k-th End stamp (sorted) is later than the k-th release's Store(false), whichever goroutine wrote it
	sort.Slice(releases, func(i, j int) bool { return releases[i].End < releases[j].End })
	endOf := map[int]int64{}
	nrel := 0
	for _, rc := range receipts {
		if rc.released {
			if nrel < len(releases) {
				endOf[rc.Cycle] = releases[nrel].End
			}
			nrel++
		}
	}
	if nrel != len(releases) {
		mon.Count("release_count_differs_from_cycles", 1)
	}
	var order []*c20Attempt
	for _, rc := range receipts {
		a := byID[rc.ID]
		received[rc.ID]++
		switch {
		case a == nil:
			h.violation("worker-received-unknown-request", fmt.Sprintf("worker received request id %d nobody sent", rc.ID), nil)
			return
		case !a.OK:
			h.violation("refused-request-was-queued", fmt.Sprintf("request %d was reported refused but reached the worker", rc.ID), map[string]any{"attempt": a})
			return
		case a.Suspend != rc.Suspend:
			h.violation("admitted-request-altered", fmt.Sprintf("request %d reached the worker with a different kind (suspend=%v, sent %v)", rc.ID, rc.Suspend, a.Suspend), nil)
		}
		order = append(order, a)
	}
	for i := range attempts {
		if a := &attempts[i]; a.OK && received[a.ID] != 1 {
			h.violation("admitted-request-lost", fmt.Sprintf("request %d was admitted but reached the worker %d times", a.ID, received[a.ID]), map[string]any{"attempt": a})
		}
	}
	// mutual exclusion: admission i+1 cannot have completed before release i could begin
	for i := 0; i+1 < len(order); i++ {
		mon.Eval(1)
		if next, fl := order[i+1], receipts[i].Floor; next.Ret < fl {
			h.violation("double-admission/"+receipts[i].Outcome,
				fmt.Sprintf("request %d was admitted (ret stamp %d) before the release of request %d (%s) could have begun (stamp %d)", next.ID, next.Ret, order[i].ID, receipts[i].Outcome, fl),
				map[string]any{"first": order[i], "second": next, "cycle": receipts[i]})
		}
	}
	// a refusal needs somebody holding the admission at some instant of its interval
	type win struct{ from, to int64 }
	var free []win
	for i := 0; i <= len(order); i++ {
		w := win{base, math.MaxInt64}
		if i > 0 {
			end, ok := endOf[receipts[i-1].Cycle]
			if !ok {
				continue
			}
			w.from = end
		}
		if i < len(order) {
			w.to = order[i].Call
		}
		free = append(free, w)
	}
	if nrel != len(releases) {
		free = nil // End stamps cannot be matched to cycles reliably; the other oracles still apply
	}
	racing := 0
	for i := range attempts {
		a := &attempts[i]
		if a.OK {
			continue
		}
		for _, w := range free {
			if a.Call > w.from && a.Ret < w.to {
				h.violation("refused-while-idle", fmt.Sprintf("request %d was refused although no reload was pending during its whole call (free window %d..%d)", a.ID, w.from, w.to), map[string]any{"attempt": a})
			}
		}
		for _, rl := range releases {
			if a.Call < rl.End && a.Ret > rl.Floor {
				racing++
				break
			}
		}
	}
	mon.Count("refusals_overlapping_a_release", int64(racing))
	// coverage
	for i, rc := range receipts {
		n := 0
		var lo, hi int64 = rc.Stamp, math.MaxInt64
		if i+1 < len(receipts) {
			hi = receipts[i+1].Stamp
		}
		for j := range attempts {
			if a := &attempts[j]; !a.OK && a.Ret > lo && a.Call < hi {
				n++
			}
		}
		rc.Overlap = n
		b := "0"
		switch {
		case n >= 8:
			b = "8+"
		case n >= 3:
			b = "3-7"
		case n >= 1:
			b = "1-2"
		}
		if n > 0 {
			mon.Distinct(rc.Plan + "|" + rc.Outcome + "|" + b)
		}
	}
	if mon.WantSample() && len(receipts) > 1 {
		sort.Slice(attempts, func(i, j int) bool { return attempts[i].Call < attempts[j].Call })
		if len(attempts) > 12 {
			attempts = attempts[:12]
		}
		mon.Sample(map[string]any{"round": h.no, "signal_goroutines": h.nsig, "cycles": receipts, "first_attempts": attempts, "releases": releases})
	}
}

func TestVerifC20(t *testing.T) {
	m := vk.NewMonitor("C20", "", "exploration",
		"rounds of 1-5 chained reload cycles on one real reloadManager: 2-16 signal goroutines + harness probes call queueReloadRequest at random instants while a simulated worker walks Runner.Run's stage sequence over the real entry points with an injected outcome per stage; "+
			"distinct = (path, failed stage, retirement class, rollback) x outcome x bucket of refused requests overlapping the cycle; non-trivial = at least one refused request overlapped the cycle")
	m.SetFloor(60)
	m.Assume("the stage ORDER (which real call follows which) is transcribed from Runner.Run's closure and runStateChanges branch; a defect confined to that closure's text is out of reach",
		"external stages (config load, newControlPlane, Listen, Serve readiness) are replaced by injected success/failure; old/new generations are zero-value control.ControlPlane",
		"slow retirement is produced by an oldCancel callback that blocks until the harness releases it",
		"queueReloadRequest is called concurrently from many goroutines (more hostile than the single signal loop of Runner.Run)",
		"end-to-end histories: the client side of `dae reload` is its real functions (readSignalProgressFile, writeReloadSendAndSignal with kill replaced by the harness' delivery, waitReloadCompletion one poll at a time) joined by a transcription of the gate in reloadCmd.Run (signal only when the file says done or error); the progress file is a scratch file written with dae's own writer; a signal is 'delivered' by calling queueReloadRequest as Runner.Run's signal loop does, or, while the main loop waits for readiness, by passing it through the real waitReloadReadyOrSignal")
	restore := c20InstallTaps()
	defer restore()
	// self-check of the counter tap
	beginReloadProxyFailureSuppression()
	v1 := verifC20Suppression.Load()
	endReloadProxyFailureSuppression()
	if v0 := verifC20Suppression.Load(); v1 != 1 || v0 != 0 {
		m.Inconclusive("suppression counter tap not aliased to the real counter (after begin=%d, after end=%d)", v1, v0)
		m.Done(t)
		return
	}
	c20LongStartAll() // part 4 (c20_longret_verif_test.go): judged at the very end
	r := vk.NewRand(0xC20)
	log := newDiscardLogger()
	n := vk.Scale(2000, 30000)
	for i := 0; i < n && m.Violations() < 3; i++ {
		h := &c20Round{mon: m, r: r, no: i, opened: map[chan struct{}]bool{}}
		if verifC20Suppression.Load() != 0 { // only after a reported violation
			time.Sleep(5 * time.Millisecond)
			verifC20Suppression.Store(0)
			m.Count("suppression_reset_between_rounds", 1)
		}
		h.e = c20NewEnv(log)
		h.run()
		m.Count("hook/handoff:flagged-before-notify", int64(h.e.hookHandoff.Load()))
		m.Count("hook/queue:refused-before-report", int64(h.e.hookRefused.Load()))
		m.Count("hook/release:pending-cleared", int64(h.e.hookRelease.Load()))
		m.Count("wakeups_lost_to_early_notification", int64(h.e.lostWakeups.Load()))
		if h.violated {
			time.Sleep(5 * time.Millisecond) // let stragglers of the broken round finish
		}
		m.Count("rounds", 1)
	}
	// end-to-end histories through both request interfaces (c20_e2e_verif_test.go)
	tE2E := time.Now()
	c20RunE2E(t, m, r, log)
	tStress := time.Now()
	c20HandoverStress(m, log)
	m.Set("phase_wall_seconds", map[string]any{"end_to_end_histories": tStress.Sub(tE2E).Seconds(), "handover_stress": time.Since(tStress).Seconds()})
	// Recorded, not judged: while Runner.Run waits for the new generation to become
	// ready (waitReloadReadyOrSignal) a reload/suspend signal is consumed without any
	// busy report. The statement's refusal clause is checked at queueReloadRequest only.
	func() {
		e := c20NewEnv(log)
		_ = setRunSignalProgress(consts.ReloadProcessing, "")
		sigs := make(chan os.Signal, 1)
		ready := make(chan bool, 1)
		sigs <- syscall.SIGUSR1
		go func() {
			for len(sigs) > 0 {
				time.Sleep(50 * time.Microsecond)
			}
			ready <- true
		}()
		res, _ := waitReloadReadyOrSignal(log, sigs, ready, c20Bound)
		code, _ := e.progress()
		if res == reloadReadyWaitReady && code != consts.ReloadBusy {
			m.Count("recorded/signal_swallowed_unreported_while_becoming_ready", 1)
		}
		m.Set("ready_wait_signal_probe", map[string]any{"wait_result": int(res), "progress_after": c20CodeName(code), "busy_writes": e.busyWrites.Load()})
	}()
	c20NewEnv(log)
	c20LongJudge(m)
	m.Require("outcome/fail-config", "outcome/fail-prepare", "outcome/fail-clone", "outcome/fail-listen",
		"outcome/fail-serve/staged", "outcome/fail-serve/nonstaged", "outcome/fail-ready/relisten",
		"outcome/success/staged", "outcome/success/nonstaged", "outcome/success/nonstaged+rollback", "outcome/success/relisten",
		"readmitted_after/fail-config", "readmitted_after/fail-prepare", "readmitted_after/fail-clone", "readmitted_after/fail-listen",
		"readmitted_after/fail-serve/staged", "readmitted_after/fail-serve/nonstaged", "readmitted_after/fail-ready/relisten",
		"readmitted_after/success/staged", "readmitted_after/success/nonstaged", "readmitted_after/success/relisten",
		"retire_slow", "retire_fast", "retire_none", "retire_cancelled_by_next", "retire_outlives_failed_reload",
		"refused_busy/signal", "refused_busy/parked", "refused_busy/probe", "refused_queue_full_probe",
		"parked_probe/queued", "parked_probe/active", "parked_probe/handoff", "parked_probe/serving", "parked_probe/retiring",
		"refusals_overlapping_a_release", "admitted",
		"hook/handoff:flagged-before-notify", "hook/queue:refused-before-report", "hook/release:pending-cleared")
	m.Require(c20E2ERequired()...)
	m.Require("handover_stress/handovers", "handover_stress/refused_while_held", "progress_final_at_quiescence/done", "progress_final_at_quiescence/error")
	m.Done(t)
}
