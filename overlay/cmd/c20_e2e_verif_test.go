package cmd

// C20 monitor, part 3: admission judged END TO END through the documented request interfaces.
//
// A request reaches dae either as a raw signal (kill -USR1/-USR2, `dae suspend`: nothing but the
// signal) or through `dae reload`, a separate process that (1) reads the progress file and only
// goes on when it says done/error, (2) writes its "sent" marker into the file and signals, (3)
// polls the file for the answer. The daemon-side flags alone do not tell whether dae "accepts a
// new request again": the progress file is shared state between the daemon and the next client.
//
// Histories here are SCRIPTED on logical stages (no racing goroutines, no wall-clock verdicts):
// a chain of reload cycles walked by the simulated worker of part 2 over the real reloadManager,
// with the progress report in a real file; at every stage at which the worker parks (before the
// request is issued, queued, active, hand-off, becoming ready, done/error written but previous
// generation still retiring, after release) scripted clients of both kinds advance by one step of
// their own sequence (gate read / marker+signal / delivery of the signal to the daemon's signal
// loop / one poll), each step possibly at a later stage than the previous one.
//
// DELIVERY TIMING. kill(2) returns once the signal is pending; when the daemon's signal loop handles it
// relative to the sender's next step is up to the scheduler. The harness' replacement for kill
// therefore delivers in one of three modes chosen per request: "inside-kill" (the daemon's admission
// or refusal, including its progress-file write, completes before kill returns to the client),
// "after-next-step" (the client's call returns and it takes one more step of its own - one poll -
// before the daemon handles the signal) and "queued" (handled at a later step or stage).
//
// The client side runs dae's real functions readSignalProgressFile, writeReloadSendAndSignal (kill
// replaced by the harness' signal delivery) and waitReloadCompletion (one poll per call). The two
// lines of reloadCmd.Run that connect them (signal only if the file says done or error) are
// transcribed: the closure itself calls os.Exit/syscall.Kill and a constant path.
//
// Oracles (property text only):
//  1. at most one in progress: a request delivered between "queued" and "retiring" of the request
//     in progress is refused; one delivered while nothing is in progress is admitted;
//  2. a refused request changes nothing except the busy report: once the request in progress has
//     been released, the daemon state equals that of a TWIN history (same plans, no refused
//     requests), and the progress file holds a final status (done/error) again unless a client's
//     marker is legitimately in the file (its signal not delivered yet); every client that was
//     refused gets an answer (its poll ends);
//  3. after release a NEW request through EITHER interface is accepted: `dae reload` does signal
//     and the daemon admits it; a raw signal is admitted.

import (
	"fmt"
	"math/rand/v2"
	"os"
	"path/filepath"
	"runtime"
	"strings"
	"sync/atomic"
	"syscall"
	"time"

	"github.com/daeuniverse/dae/common/consts"
	vk "github.com/daeuniverse/dae/verifkit"
	"github.com/sirupsen/logrus"
)

var c20Stages = []string{"pre", "queued", "active", "handoff", "serving", "retiring", "post"}

func c20StageIdx(s string) int {
	for i, x := range c20Stages {
		if x == s {
			return i
		}
	}
	return -1
}

// c20Req is one request: a raw signal or one run of `dae reload`.
type c20Req struct {
	Name          string `json:"name"`
	CLI           bool   `json:"through_dae_reload"`
	Suspend       bool   `json:"suspend,omitempty"`
	GateAt        int    `json:"-"`
	SendAt        int    `json:"-"`
	DeliverAt     int    `json:"-"`
	PollSameStage bool   `json:"-"`
	Swallow       bool   `json:"-"`
	Mode          int    `json:"-"` // c20Delivery index (through `dae reload` only)
	Delivery      string `json:"signal_handled_when,omitempty"`
	Cycle         int    `json:"cycle"`
	GateStage     string `json:"gate_read_at,omitempty"`
	GateSaw       string `json:"gate_saw,omitempty"`
	SendStage     string `json:"marker_and_signal_at,omitempty"`
	DeliverStage  string `json:"signal_handled_at,omitempty"`
	Signalled     bool   `json:"signalled"`
	Delivered     bool   `json:"delivered"`
	Admitted      bool   `json:"admitted"`
	Swallowed     bool   `json:"consumed_by_ready_wait,omitempty"`
	Answer        string `json:"answer,omitempty"`
	AnswerMsg     string `json:"answer_text,omitempty"`
	Polls         int    `json:"polls"`
	state         int    // 0 new, 1 gate passed, 2 signal on its way, 3 waiting for the answer, 4 finished
	deliverCycle  int
}

// when the daemon handles a signal relative to the sender's steps
var c20Delivery = []string{"inside-kill", "after-next-step", "queued"}

func (c *c20Req) iface() string {
	if c.CLI {
		return "cli"
	}
	return "raw"
}

type c20After struct {
	Snap c20Snap `json:"state"`
	Code string  `json:"progress"`
	Msg  string  `json:"progress_text,omitempty"`
}

type c20E2E struct {
	h       *c20Round
	e       *c20Env
	mon     *vk.Monitor
	r       *rand.Rand
	twin    bool
	cycle   int
	clients []*c20Req
	all     []*c20Req
	cur     *c20Req // the request in progress (admitted, not yet released)
	events  []string
	keys    []string // "IA>IR@stage" of the refused requests of the last cycle, waiting for the follow-up's interface
	curIA   string
	nreq    int
	after   []c20After
}

func (x *c20E2E) logf(format string, a ...any) {
	if len(x.events) < 400 {
		x.events = append(x.events, fmt.Sprintf("c%d ", x.cycle)+fmt.Sprintf(format, a...))
	}
}

func (x *c20E2E) witness(extra map[string]any) map[string]any {
	w := map[string]any{"events": x.events, "requests": x.all,
		"note": "events are in program order (one goroutine); 'file' is the progress file; raw = signal only (kill -USR1/-USR2, dae suspend), cli = dae reload"}
	for k, v := range extra {
		w[k] = v
	}
	return w
}

func (x *c20E2E) violation(sig, what string, extra map[string]any) {
	x.h.violation(sig, what, x.witness(extra))
}

func (x *c20E2E) fileStr() string {
	if x.twin {
		return "" // only used for the event log, which no verdict of the twin run reads
	}
	c, msg := x.e.progress()
	if msg != "" {
		return c20CodeName(c) + " " + fmt.Sprintf("%q", msg)
	}
	return c20CodeName(c)
}

// ---- the steps of `dae reload`

// gate: the head of reloadCmd.Run (transcribed): signal only when the file says done or error
// (or cannot be read).
func (x *c20E2E) gate(c *c20Req, stage string) {
	code, _, err := readSignalProgressFile(x.e.file)
	c.GateStage, c.GateSaw = stage, c20CodeName(code)
	if err != nil {
		c.GateSaw = "unreadable"
	}
	if err == nil && code != consts.ReloadDone && code != consts.ReloadError {
		c.state, c.Answer = 4, "not-signalled"
		x.logf("%s: %s(cli) reads file=%s -> does NOT signal", stage, c.Name, c.GateSaw)
		if !x.twin {
			x.mon.Count("e2e_cli_did_not_signal/"+stage+"/file="+c.GateSaw, 1)
		}
		return
	}
	c.state = 1
	x.logf("%s: %s(cli) reads file=%s -> will signal", stage, c.Name, c.GateSaw)
}

// send: the real writeReloadSendAndSignal; reports whether the signal has been handled by the daemon
// already (delivery modes "inside-kill" and "after-next-step").
func (x *c20E2E) send(c *c20Req, stage string) (delivered bool) {
	before := x.fileStr()
	c.SendStage = stage
	c.state = 2
	err := writeReloadSendAndSignal(x.e.file, 4242, func(_ int, sig syscall.Signal) error {
		c.Signalled = sig == syscall.SIGUSR1
		x.logf("%s: %s(cli) sends SIGUSR1 (file %s -> %s)", stage, c.Name, before, x.fileStr())
		if c.Signalled && c.Mode == 0 {
			// the daemon's signal loop runs before kill returns to the client
			c.Delivery = c20Delivery[0]
			x.deliver(c, stage)
			delivered = true
		}
		return nil
	})
	if err != nil || !c.Signalled {
		x.e.ioErrs.Add(1)
	}
	x.logf("%s: %s(cli) marker+signal call returned (file %s)", stage, c.Name, x.fileStr())
	if x.h.violated {
		return delivered
	}
	switch {
	case delivered:
		// The daemon has answered and the client has not taken any step of its own since its call
		// returned, nor has anybody else (one goroutine): a refusal must be in the file as the busy
		// report. Only the one unmistakable sign is judged: the client's own marker in its place.
		if !x.twin && !c.Admitted && !c.Swallowed {
			x.mon.Eval(1)
			if code, _, ok := c20ReadProgressFile(x.e.file); ok && code == consts.ReloadSend {
				x.violation("e2e/busy-report-overwritten-by-client-marker/"+c20EffStage(stage),
					fmt.Sprintf("request %s (dae reload) was refused by the daemon while its kill() was still in progress (the busy report was written), and when the client's call returned the progress file holds the client's marker %q instead: the refused request is not reported as busy", c.Name, x.fileStr()), nil)
				return delivered
			}
			x.mon.Count("e2e_busy_report_survives_client_call", 1)
		}
	case c.Mode == 1:
		// one more step of the client (its first poll) before the daemon's signal loop runs
		c.Delivery = c20Delivery[1]
		answered := x.poll(c, stage)
		if answered && !x.twin {
			x.mon.Count("recorded/e2e_cli_answered_before_signal_handled", 1)
		}
		x.deliver(c, stage)
		if answered {
			c.state = 4
		}
		delivered = true
	default:
		c.Delivery = c20Delivery[2]
	}
	return delivered
}

func c20EffStage(stage string) string {
	if stage == "pre" || stage == "post" {
		return "queued" // refused there: the request in progress has been admitted and not yet taken by the worker
	}
	return stage
}

// deliver: the daemon's signal loop takes the signal. While the main loop waits for the new
// generation to become ready (stage "serving") the signal is read by waitReloadReadyOrSignal
// instead of the loop's own select.
func (x *c20E2E) deliver(c *c20Req, stage string) {
	c.Delivered, c.DeliverStage, c.deliverCycle = true, stage, x.cycle
	if stage == "serving" && c.Swallow {
		sig := syscall.SIGUSR1
		if c.Suspend {
			sig = syscall.SIGUSR2
		}
		sigs, ready := make(chan os.Signal, 1), make(chan bool, 1)
		sigs <- sig
		go func() {
			for len(sigs) > 0 {
				time.Sleep(20 * time.Microsecond)
			}
			ready <- true
		}()
		if res, _ := waitReloadReadyOrSignal(x.e.log, sigs, ready, c20Bound); res != reloadReadyWaitReady {
			x.mon.Count("e2e_ready_wait_did_not_report_ready", 1)
		}
		c.Swallowed = true
		x.mon.Count("recorded/e2e_signal_consumed_by_ready_wait/"+c.iface(), 1)
		x.logf("%s: signal of %s(%s) consumed by the ready wait (file %s)", stage, c.Name, c.iface(), x.fileStr())
	} else {
		before := x.fileStr()
		c.Admitted = x.e.attempt(c.Suspend, c.iface()+":"+stage, false)
		x.logf("%s: signal of %s(%s) handled: admitted=%v (file %s -> %s)", stage, c.Name, c.iface(), c.Admitted, before, x.fileStr())
	}
	if c.CLI {
		c.state = 3
	} else {
		c.state = 4 // kill / dae suspend do not wait for anything
	}
	if x.twin {
		if c.Admitted {
			x.cur = c
		}
		return
	}
	x.mon.Eval(1)
	stage = c20EffStage(stage)
	if c.CLI && c.Delivery == "" {
		c.Delivery = c20Delivery[2]
	}
	if c.CLI && !c.Swallowed {
		if c.Admitted {
			x.mon.Count("e2e_delivery/"+c.Delivery+"/admitted/cli", 1)
		} else if x.cur != nil {
			x.mon.Count("e2e_delivery/"+c.Delivery+"/"+x.curIA+">cli@"+stage, 1)
		}
	}
	switch {
	case c.Admitted && x.cur != nil:
		x.violation("e2e/double-admission/"+stage,
			fmt.Sprintf("request %s (%s) was admitted at stage %q although request %s is still in progress (not released)", c.Name, c.iface(), stage, x.cur.Name), nil)
	case c.Admitted:
		// the follow-up request of the previous cycle = the request in progress of the next one
		x.cur, x.curIA = c, c.iface()
		x.settleKeys(x.curIA)
	case x.cur == nil && !c.Swallowed:
		x.violation("e2e/refused-while-nothing-in-progress/"+c.iface(),
			fmt.Sprintf("request %s (%s) was refused at stage %q although nothing is in progress (previous request released, its generation retired)", c.Name, c.iface(), stage),
			map[string]any{"state": x.e.snap(), "file": x.fileStr()})
	case !c.Swallowed:
		x.keys = append(x.keys, x.curIA+">"+c.iface()+"@"+stage)
		x.mon.Count("e2e_refused/"+c.iface()+"@"+stage, 1)
	}
}

// poll: one iteration of the real waitReloadCompletion.
func (x *c20E2E) poll(c *c20Req, stage string) bool {
	code, content, err := waitReloadCompletion(x.e.file, 0, 0, time.Nanosecond)
	c.Polls++
	if err != nil {
		if !strings.Contains(err.Error(), "timed out") {
			x.e.ioErrs.Add(1)
		}
		return false
	}
	c.state, c.Answer, c.AnswerMsg = 4, c20CodeName(code), content
	x.logf("%s: %s(cli) polls: answered %s %q", stage, c.Name, c.Answer, content)
	if !x.twin {
		role := "refused"
		if c.Admitted {
			role = "admitted"
		} else if c.Swallowed {
			role = "consumed"
		}
		x.mon.Count("recorded/e2e_cli_answer/"+role+"/"+c.Answer, 1)
	}
	return true
}

func (x *c20E2E) step(c *c20Req, idx int, stage string) {
	delivered := false
	if x.h.violated {
		return
	}
	if c.CLI {
		if c.state == 0 && idx >= c.GateAt {
			x.gate(c, stage)
		}
		if c.state == 1 && idx >= c.SendAt {
			delivered = x.send(c, stage)
		}
	}
	if c.state == 2 && idx >= c.DeliverAt {
		x.deliver(c, stage)
		delivered = true
	}
	if c.state == 3 && (!delivered || c.PollSameStage) {
		x.poll(c, stage)
	}
}

func (x *c20E2E) onStage(_ *c20Plan, stage string) {
	idx := c20StageIdx(stage)
	if !x.twin {
		x.mon.Count("e2e_stage_visited/"+stage, 1)
	}
	for _, c := range x.clients {
		if x.h.violated {
			return
		}
		x.step(c, idx, stage)
	}
}

// issue sends a NEW request while nothing is in progress: it has to be accepted.
func (x *c20E2E) issue(cli, suspend bool, mode int, stage string, followUp bool) bool {
	x.nreq++
	c := &c20Req{Name: fmt.Sprintf("A%d", x.nreq), CLI: cli, Suspend: suspend && !cli, Mode: mode, Cycle: x.cycle, state: 2}
	x.all = append(x.all, c)
	if cli {
		c.state = 0
		x.gate(c, stage)
		if c.state != 1 {
			if !x.twin {
				x.mon.Eval(1)
				x.violation("e2e/wedged-after-release/dae-reload-does-not-signal/file="+c.GateSaw,
					fmt.Sprintf("nothing is in progress (previous request released, its generation retired, daemon flags idle=%v) but `dae reload` refuses to signal because the progress file says %q: dae cannot be reloaded through its documented interface any more", !x.e.m.reloadPending.Load(), x.fileStr()),
					map[string]any{"state": x.e.snap()})
			}
			return false
		}
		if x.send(c, stage); x.h.violated {
			return false
		}
	}
	if c.state == 2 {
		x.deliver(c, stage)
	}
	if c.CLI && c.state != 4 {
		x.clients = append(x.clients, c)
	}
	if !c.Admitted {
		return false // reported by deliver
	}
	if followUp && !x.twin {
		x.mon.Count("e2e_followup_accepted/"+c.iface(), 1)
	}
	return true
}

var c20StackBuf = make([]byte, 256<<10) // reused: the histories of this part run on one goroutine

func c20StackHas(names ...string) bool {
	buf := c20StackBuf
	for {
		n := runtime.Stack(buf, true)
		if n < len(buf) {
			buf = buf[:n]
			break
		}
		buf = make([]byte, 2*len(buf))
		c20StackBuf = buf
	}
	s := string(buf)
	for _, nm := range names {
		if strings.Contains(s, nm) {
			return true
		}
	}
	return false
}

// awaitRelease: the release of the admission is complete when the retirement signalled completion and
// no goroutine is inside dae's release code any more (decided on the goroutine dump, not on time).
func (x *c20E2E) awaitRelease(rec *c20Receipt) bool {
	h := x.h
	if rec != nil && rec.done != nil {
		select {
		case <-rec.done:
		case <-time.After(c20Bound):
			if !h.retirementAbandoned(rec.Plan) && !h.drainExceedsBudget(rec.Plan) {
				h.mon.Inconclusive("e2e: retirement goroutine did not finish within %v", c20Bound)
			}
			return false
		}
	}
	start := time.Now()
	for deadline := start.Add(c20Bound); ; {
		// (efficiency only) while the admission is visibly still held, do not bother to take a dump yet
		if x.e.m.reloadPending.Load() && time.Since(start) < 2*time.Millisecond {
			runtime.Gosched()
			continue
		}
		if !c20ReleaseRunning() { // (the parked release goroutines of part 4 do not count)
			break
		}
		if time.Now().After(deadline) {
			h.mon.Inconclusive("e2e: dae's release goroutine still running %v after the retirement completed", c20Bound)
			return false
		}
		runtime.Gosched()
	}
	return true
}

func c20NormSnap(s c20Snap) c20Snap {
	norm := func(p, nilv string) string {
		if p == nilv {
			return "nil"
		}
		return "set"
	}
	s.Handoff = norm(s.Handoff, fmt.Sprintf("%p", (*stagedReloadHandoff)(nil)))
	s.RetireDone = norm(s.RetireDone, fmt.Sprintf("%p", (<-chan struct{})(nil)))
	if s.ReqAtMono != 0 {
		s.ReqAtMono = 1
	}
	return s
}

// post: the request in progress has been released (previous generation retired).
func (x *c20E2E) post(planned bool, twinAfter []c20After) bool {
	e, mon := x.e, x.mon
	x.cur = nil
	code, msg := e.progress()
	snap := c20NormSnap(e.snap())
	x.logf("post: released; file %s", x.fileStr())
	if x.twin {
		x.after = append(x.after, c20After{snap, c20CodeName(code), msg})
	} else {
		mon.Count("e2e_stage_visited/post", 1)
		markerInFile := false
		for _, c := range x.clients {
			if c.CLI && c.state == 2 {
				markerInFile = true
			}
		}
		// (2) daemon state: what it would have been without the refused requests
		if planned && x.cycle < len(twinAfter) {
			mon.Eval(1)
			tw := twinAfter[x.cycle]
			if d := tw.Snap.diff(snap); len(d) > 0 {
				x.violation("e2e/state-after-release-differs-from-twin/"+strings.Join(d, "+"),
					fmt.Sprintf("after the request in progress was released the daemon state differs from the twin history without the refused requests: twin=%+v observed=%+v", tw.Snap, snap),
					map[string]any{"twin": tw, "observed": snap})
				return false
			}
			mon.Count("e2e_state_equals_twin", 1)
			if len(x.keys) > 0 && !markerInFile {
				switch got := c20CodeName(code); {
				case got == tw.Code && msg == tw.Msg:
					mon.Count("recorded/e2e_progress_vs_twin/identical", 1)
				case got == tw.Code:
					mon.Count("recorded/e2e_progress_vs_twin/"+got+"_with_other_text", 1)
				default:
					mon.Count("recorded/e2e_progress_vs_twin/"+tw.Code+"_became_"+got, 1)
				}
			}
		}
		if snap.Pending || snap.Active || snap.Reloading || snap.QueueLen != 0 || snap.Suppression != 0 {
			mon.Eval(1)
			x.violation("e2e/flags-stuck-after-release", fmt.Sprintf("after release (retirement complete, no release goroutine left) the reload flags are not idle: %+v", snap), map[string]any{"state": snap})
			return false
		}
		// (2)/(3) progress file: final status again, unless some client's marker is legitimately there
		if markerInFile {
			mon.Count("e2e_post_file_not_judged_marker_of_undelivered_signal", 1)
		} else {
			mon.Eval(1)
			if code != consts.ReloadDone && code != consts.ReloadError {
				wouldSignal := "does NOT signal (reports another reload in progress)"
				x.violation("e2e/progress-not-final-after-release/"+c20CodeName(code),
					fmt.Sprintf("nothing is in progress any more (request released, generation retired, flags idle) and no client marker is outstanding, but the progress file says %q instead of the final status of the finished request (done/error): a refused request changed more than the busy report; a new `dae reload` %s and clients still polling are never answered", x.fileStr(), wouldSignal),
					map[string]any{"state": snap, "refused_in_this_cycle": x.keys})
				return false
			}
			mon.Count("e2e_progress_final_after_release/"+c20CodeName(code), 1)
			for _, c := range x.clients {
				if c.state == 3 {
					mon.Eval(1)
					if !x.poll(c, "post") {
						x.violation("e2e/dae-reload-never-answered", fmt.Sprintf("client %s signalled, nothing is in progress any more, but its poll still does not end (file %q)", c.Name, x.fileStr()), nil)
						return false
					}
					mon.Count("e2e_client_answered_by_release", 1)
				}
			}
		}
	}
	// clients that have not got as far as their signal being handled go on now: their requests arrive
	// after the release
	idx := c20StageIdx("post")
	for _, c := range x.clients {
		if x.h.violated {
			return false
		}
		if c.state < 3 {
			c.PollSameStage = false
			x.step(c, idx, "post")
		}
	}
	keep := x.clients[:0]
	for _, c := range x.clients {
		if c.state != 4 {
			keep = append(keep, c)
		}
	}
	x.clients = keep
	return !x.h.violated
}

// settleKeys: the interface of the follow-up request is known now.
func (x *c20E2E) settleKeys(follow string) {
	if x.twin {
		x.keys = nil
		return
	}
	for _, k := range x.keys {
		ia, rest, _ := strings.Cut(k, ">")
		ir, stage, _ := strings.Cut(rest, "@")
		x.mon.Count("e2e_pair/"+ia+">"+ir+">"+follow, 1)
		x.mon.Count("e2e_case/"+k+">"+follow, 1)
		x.mon.Distinct("e2e|" + k + ">" + follow)
		_ = stage
	}
	x.keys = nil
}

func c20GenScript(r *rand.Rand, name string) *c20Req {
	c := &c20Req{Name: name, CLI: r.IntN(5) < 3, PollSameStage: r.IntN(2) == 0, Swallow: r.IntN(2) == 0, state: 2}
	if c.CLI {
		// the client side has more dimensions (gate/send stages, delivery timing): more of them, and fewer
		// of their signals consumed by the ready wait
		c.Swallow = r.IntN(3) == 0
	}
	// later stages are reached by fewer cycles: weight them up
	target := []int{1, 2, 2, 3, 3, 4, 4, 4, 4, 5, 5, 5}[r.IntN(12)] // queued .. retiring
	if r.IntN(12) == 0 {
		target = 6 // arrives after the release
	}
	c.DeliverAt = target
	if !c.CLI {
		c.Suspend = r.IntN(2) == 0
		return c
	}
	c.state = 0
	// between "active" and "serving" the file says sent/processing/busy: a run of `dae reload` that starts
	// there does not signal; to be refused by the DAEMON there, it must have read the file earlier
	early := 2
	if target >= 2 && target <= 4 {
		early = 6
	}
	switch x := r.IntN(8); {
	case x >= early: // the whole run of `dae reload` up to the signal being handled falls into one stage
		c.GateAt, c.SendAt = target, target
	case x == early-1: // the steps spread over the stages up to the target
		c.GateAt = r.IntN(target + 1)
		c.SendAt = c.GateAt + r.IntN(target-c.GateAt+1)
	default: // gate read before the request in progress was issued, the rest later
		c.GateAt, c.SendAt = 0, target
	}
	if c.SendAt < 1 {
		c.SendAt = 1
	}
	// when the daemon handles the signal: before kill returns / after the client's next step (both at
	// the stage of the send, which then is the target stage) / at the target stage as scripted
	if c.Mode = r.IntN(3); c.Mode != 2 {
		c.SendAt = target
		if c.GateAt > target {
			c.GateAt = target
		}
	}
	return c
}

type c20E2ECase struct {
	plans     []*c20Plan
	cli       []bool
	suspend   []bool
	scripts   [][]*c20Req
	finalCLI  bool
	mode      []int // delivery mode of the request in progress of each planned cycle (same in the twin)
	finalMode [2]int
	tail      []*c20Plan
}

func c20PlainPlan(r *rand.Rand) *c20Plan {
	p := c20GenPlan(r)
	p.Probe = map[string]int{}
	return p
}

// c20RunChain walks one history; twin=true omits every request but the ones in progress.
func c20RunChain(mon *vk.Monitor, r *rand.Rand, log *logrus.Logger, no int, path string, cs *c20E2ECase, twin bool, twinAfter []c20After) (after []c20After, ok bool) {
	h := &c20Round{mon: mon, r: r, no: no, opened: map[chan struct{}]bool{}, stopCycle: 1 << 30}
	h.e = c20NewEnvFile(log, path)
	e := h.e
	e.calm = true // one goroutine walks the history: random delays at suspension points would only cost time
	x := &c20E2E{h: h, e: e, mon: mon, r: r, twin: twin}
	h.stage = x.onStage
	defer func() {
		if p := recover(); p != nil {
			x.violation("panic", fmt.Sprintf("reload machinery panicked: %v", p), nil)
			ok = false
		}
		for _, f := range h.sessionReleases {
			f()
		}
		for _, g := range h.allGates {
			h.openGate(g)
		}
		for _, d := range h.dones {
			select {
			case <-d:
			case <-time.After(c20Bound):
				mon.Inconclusive("e2e: retirement goroutine did not finish within %v at the end of the history", c20Bound)
				ok = false
			}
		}
		x.awaitRelease(nil)
		if verifC20Suppression.Load() != 0 && h.violated {
			verifC20Suppression.Store(0)
		}
	}()
	base := e.clock.Add(1)
	cycle := func(i int, p *c20Plan, planned bool) bool {
		rec := h.runCycle(p)
		if !twin {
			mon.Count("e2e_outcome/"+rec.Outcome, 1)
		}
		if h.broken || h.violated {
			return false
		}
		if !strings.HasPrefix(rec.Outcome, "success") && !strings.HasPrefix(rec.Outcome, "fail-") {
			x.violation("e2e/"+rec.Outcome, "the stage walk ended in an impossible state: "+rec.Outcome, nil)
			return false
		}
		if !x.awaitRelease(rec) {
			return false
		}
		return x.post(planned, twinAfter)
	}
	for i := range cs.plans {
		x.cycle = i
		if !twin {
			for k, s := range cs.scripts[i] {
				c := *s
				c.Name, c.Cycle = fmt.Sprintf("R%d.%d", i, k), i
				x.clients = append(x.clients, &c)
				x.all = append(x.all, &c)
			}
		}
		if x.cur == nil {
			x.onStage(nil, "pre")
			if h.violated {
				return nil, false
			}
		}
		if x.cur == nil {
			if !x.issue(cs.cli[i], cs.suspend[i], cs.mode[i], "pre", i > 0) {
				return nil, false
			}
		} else if !twin {
			mon.Count("e2e_followup_accepted/"+x.cur.iface()+"/arrived-with-delay", 1)
		}
		if !cycle(i, cs.plans[i], true) {
			return nil, false
		}
	}
	// requests of the last cycle that were admitted after its release
	for n := 0; x.cur != nil && n < 24; n++ {
		x.cycle++
		if !twin {
			mon.Count("e2e_followup_accepted/"+x.cur.iface()+"/arrived-with-delay", 1)
		}
		if !cycle(x.cycle, cs.tail[n%len(cs.tail)], false) {
			return nil, false
		}
	}
	if x.cur != nil { // cannot happen: at most nine scripted requests per history
		mon.Inconclusive("e2e: history did not come to rest after 24 extra cycles")
		return nil, false
	}
	// (3) a new request through either interface, in both orders over the histories
	for k := 0; k < 2; k++ {
		x.cycle++
		cli := cs.finalCLI == (k == 0)
		if !x.issue(cli, k == 1, cs.finalMode[k], "post", true) {
			return nil, false
		}
		if !cycle(x.cycle, cs.tail[len(cs.tail)-1-k], false) {
			return nil, false
		}
	}
	if !twin {
		if n := e.ioErrs.Load(); n > 0 {
			mon.Inconclusive("e2e: %d progress-file I/O errors in the scratch directory", n)
			return nil, false
		}
		h.checkHistory(base)
		mon.Count("e2e_histories_completed", 1)
	}
	return x.after, !h.violated
}

func c20RunE2E(t interface{ TempDir() string }, mon *vk.Monitor, r *rand.Rand, log *logrus.Logger) {
	// the progress file is rewritten some twenty times per cycle: keep it on a memory file system when
	// there is one (the content, not the medium, is what the two sides share)
	dir, err := os.MkdirTemp("/dev/shm", "verif-c20-")
	if err != nil {
		dir = t.TempDir()
	} else {
		defer os.RemoveAll(dir)
	}
	n := vk.Scale(1800, 30000)
	v0 := mon.Violations()
	for i := 0; i < n && mon.Violations() < v0+3; i++ {
		cs := &c20E2ECase{finalCLI: r.IntN(2) == 0, finalMode: [2]int{r.IntN(3), r.IntN(3)}}
		for k, nc := 0, 1+r.IntN(3); k < nc; k++ {
			cs.plans = append(cs.plans, c20PlainPlan(r))
			cs.cli = append(cs.cli, r.IntN(2) == 0)
			cs.suspend = append(cs.suspend, r.IntN(3) == 0)
			cs.mode = append(cs.mode, r.IntN(3))
			var sc []*c20Req
			for j, nr := 0, r.IntN(4); j < nr; j++ {
				sc = append(sc, c20GenScript(r, ""))
			}
			cs.scripts = append(cs.scripts, sc)
		}
		for k := 0; k < 6; k++ {
			cs.tail = append(cs.tail, c20PlainPlan(r))
		}
		path := filepath.Join(dir, fmt.Sprintf("dae.progress.%d", i%8))
		after, ok := c20RunChain(mon, r, log, 1_000_000+i, path, cs, true, nil)
		if !ok {
			continue
		}
		c20RunChain(mon, r, log, 1_000_000+i, path, cs, false, after)
		mon.Count("e2e_histories", 1)
	}
}

func c20E2ERequired() []string {
	req := []string{"e2e_histories_completed", "e2e_state_equals_twin", "e2e_progress_final_after_release/done", "e2e_progress_final_after_release/error",
		"e2e_client_answered_by_release", "e2e_followup_accepted/raw", "e2e_followup_accepted/cli"}
	for _, ia := range []string{"raw", "cli"} {
		for _, ir := range []string{"raw", "cli"} {
			for _, f := range []string{"raw", "cli"} {
				req = append(req, "e2e_pair/"+ia+">"+ir+">"+f)
				for _, st := range []string{"queued", "active", "handoff", "serving", "retiring"} {
					req = append(req, "e2e_case/"+ia+">"+ir+"@"+st+">"+f)
				}
			}
		}
		for _, st := range []string{"queued", "active", "handoff", "serving", "retiring"} {
			req = append(req, "e2e_refused/"+ia+"@"+st)
		}
	}
	for _, st := range c20Stages {
		req = append(req, "e2e_stage_visited/"+st)
	}
	// delivery mode x stage x interface of the request in progress (sender: `dae reload`; a raw signal
	// has no sender-side step after kill)
	for _, mode := range c20Delivery {
		req = append(req, "e2e_delivery/"+mode+"/admitted/cli")
		for _, ia := range []string{"raw", "cli"} {
			for _, st := range []string{"queued", "active", "handoff", "serving", "retiring"} {
				req = append(req, "e2e_delivery/"+mode+"/"+ia+">cli@"+st)
			}
		}
	}
	req = append(req, "e2e_busy_report_survives_client_call")
	return req
}

// c20HandoverStress: the instant at which a finished request is released is the instant at which the
// next one becomes admissible; in dae the release runs on the retirement goroutine and the admission
// on the signal loop. Two goroutines hand the admission back and forth as fast as they can through
// the real entry points (queueReloadRequest spinning until admitted; the worker side takes the request
// and calls clearReloadPending), so that release and next admission overlap in most rounds. Judged at
// rest only: every scope of failure muting has been closed again, nothing is pending, the report is
// not busy.
func c20HandoverStress(mon *vk.Monitor, log *logrus.Logger) {
	e := c20NewEnv(log)
	e.calm = true
	e.inQfull.Store(true) // the per-release stamps of part 2 are not needed here
	defer e.inQfull.Store(false)
	n := vk.Scale(60000, 1000000)
	// The release side reaches its End-of-muting call some tens of nanoseconds after it has freed the
	// admission, the admission side its Begin call a cache miss or two later: put a short delay of
	// varying length (0..a few hundred ns, timing only) in front of End so that the two calls sweep
	// across each other instead of always missing each other by the same distance.
	prevEnd := endReloadProxyFailureSuppression
	var sink, seq atomic.Uint64
	endReloadProxyFailureSuppression = func() {
		v := seq.Add(0x9e3779b97f4a7c15) * 0xbf58476d1ce4e5b9
		x := uint64(0)
		for i, k := uint64(0), v>>56; i < k; i++ {
			x += i
		}
		sink.Store(x)
		prevEnd()
	}
	defer func() { endReloadProxyFailureSuppression = prevEnd }()
	done := make(chan int, 1)
	var stop atomic.Bool
	go func() {
		got, idle := 0, 0
		defer func() {
			if p := recover(); p != nil {
				mon.Violation("panic", fmt.Sprintf("release path panicked: %v", p), nil)
			}
			done <- got
		}()
		for got < n { // polls instead of parking: a parked goroutine is woken too late to race with anything
			select {
			case <-e.m.reloadReqs:
				clearReloadPending(&e.m.reloadPending)
				got++
			default:
				if stop.Load() {
					return
				}
				if idle++; idle&0xffff == 0 {
					time.Sleep(20 * time.Microsecond) // the other side is not running: get out of its way
				}
			}
		}
	}()
	admitted, refused := 0, 0
	deadline := time.Now().Add(4 * c20Bound)
	for id := uint64(1); admitted < n; id++ {
		// (timing only, not an oracle) mostly fire the moment the admission looks free, so that the attempt
		// lands inside the release that is just happening; every 16th attempt does not wait and is refused
		for spins := 0; id%16 != 0 && e.m.reloadPending.Load(); spins++ {
			if spins&0xffff == 0xffff {
				time.Sleep(20 * time.Microsecond) // the other side is not running: get out of its way
				if time.Now().After(deadline) {
					break
				}
			}
		}
		if e.m.queueReloadRequest(nil, reloadRequest{isSuspend: id%3 == 0, requestedAt: time.Now(), requestedAtMono: id}) {
			admitted++
		} else if refused++; refused%4096 == 0 && time.Now().After(deadline) {
			break
		}
	}
	if admitted < n {
		mon.Count("handover_stress_cut_short", 1)
		stop.Store(true)
	}
	<-done
	mon.Count("handover_stress/handovers", int64(admitted))
	mon.Count("handover_stress/refused_while_held", int64(refused))
	if admitted < n/20 {
		mon.Inconclusive("handover stress: only %d of %d hand-overs within %v", admitted, n, 4*c20Bound)
		verifC20Suppression.Store(0)
		return
	}
	mon.Eval(1)
	if v := verifC20Suppression.Load(); v != 0 {
		mon.Violation("suppression-not-lifted/release-racing-next-admission",
			fmt.Sprintf("%d requests were admitted and released one after the other (each admission racing the release of its predecessor); at rest reloadProxyFailureSuppression=%d, want 0: node-failure reports stay muted (or a later reload is left unprotected) although nothing is in progress", admitted, v),
			map[string]any{"handovers": admitted, "refused_attempts": refused, "begins": e.begins.Load(), "ends": e.ends.Load(), "state": e.snap()})
		verifC20Suppression.Store(0)
	}
	if e.m.reloadPending.Load() {
		mon.Violation("flags-stuck-at-quiescence/handover-stress", "reloadPending still set after the last release", map[string]any{"state": e.snap()})
	}
	if c, msg := e.progress(); c == consts.ReloadBusy {
		mon.Violation("stale-busy-report-at-quiescence", fmt.Sprintf("nothing is in progress (flags idle) but the progress report still says busy (%q) after %d hand-overs", msg, admitted), map[string]any{"state": e.snap()})
	}
}
