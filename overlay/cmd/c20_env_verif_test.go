package cmd

// C20 monitor, part 1: observation environment (in-memory progress cell,
// suppression-counter taps, stamped attempt/release/receipt events, frozen
// state snapshots). Everything here only OBSERVES; the code under test is the
// real reloadManager / tryQueueReloadRequest / clearReloadPending /
// releaseReloadPendingAfterRetirement / startControlPlaneRetirement.

import (
	"fmt"
	"math/rand/v2"
	"os"
	"runtime"
	"sync"
	"sync/atomic"
	"time"
	_ "unsafe"

	"github.com/daeuniverse/dae/common/consts"
	"github.com/sirupsen/logrus"
)

// The real counter lives unexported in package dialer; read it directly.
//
//go:linkname verifC20Suppression github.com/daeuniverse/dae/component/outbound/dialer.reloadProxyFailureSuppression
var verifC20Suppression atomic.Int32

type c20Attempt struct {
	ID      uint64 `json:"id"`
	Suspend bool   `json:"suspend"`
	Phase   string `json:"phase"`
	Call    int64  `json:"call"`
	Ret     int64  `json:"ret"`
	OK      bool   `json:"admitted"`
	Busy0   int64  `json:"busy_writes_before"`
	Busy1   int64  `json:"busy_writes_after"`
	Code    string `json:"progress_after,omitempty"`
}

type c20Release struct {
	Cycle int   `json:"cycle"`
	Floor int64 `json:"floor"` // stamp taken by the harness before the releasing operation was invoked
	End   int64 `json:"end"`   // stamp taken inside the End-suppression tap (after reloadPending.Store(false))
}

type c20Receipt struct {
	Cycle    int    `json:"cycle"`
	FirstID  uint64 `json:"first_id"`
	ID       uint64 `json:"id"` // after coalesce
	Suspend  bool   `json:"suspend"`
	Swallow  int    `json:"coalesced_extra"`
	Stamp    int64  `json:"stamp"`
	Outcome  string `json:"outcome"`
	Floor    int64  `json:"release_floor"`
	Plan     string `json:"plan"`
	Overlap  int    `json:"overlapping_signals"`
	released bool
	done     <-chan struct{}
}

type c20ProgWrite struct {
	Stamp int64  `json:"stamp"`
	Code  string `json:"code"`
	Msg   string `json:"msg,omitempty"`
}

type c20Env struct {
	m   *reloadManager
	log *logrus.Logger

	clock                                                       atomic.Int64
	nextID                                                      atomic.Uint64
	busyWrites                                                  atomic.Int64
	begins                                                      atomic.Int64
	ends                                                        atomic.Int64
	peakSupp                                                    atomic.Int32
	negSupp                                                     atomic.Int32
	relFloor                                                    atomic.Int64
	cycleIdx                                                    atomic.Int64
	admitted                                                    atomic.Int64
	stop                                                        atomic.Bool
	inQfull                                                     atomic.Bool
	hookCtr, hookHandoff, hookRefused, hookRelease, lostWakeups atomic.Uint64

	// file != "": the progress report lives in a real file at this path (written and read with dae's
	// own progress-file functions, as the daemon does), so that the `dae reload` client code, which
	// works on the file, shares it with the daemon side. Empty: in-memory cell.
	file   string
	ioErrs atomic.Int64
	calm   bool // scripted single-goroutine histories: no random delays at suspension points

	mu        sync.Mutex
	attempts  []c20Attempt
	releases  []c20Release
	receipts  []*c20Receipt
	progSet   bool
	progCode  byte
	progMsg   string
	progLog   []c20ProgWrite
	panics    []string
	processed int64
}

var c20Cur atomic.Pointer[c20Env]

func c20CodeName(c byte) string {
	switch c {
	case consts.ReloadSend:
		return "send"
	case consts.ReloadProcessing:
		return "processing"
	case consts.ReloadDone:
		return "done"
	case consts.ReloadError:
		return "error"
	case consts.ReloadBusy:
		return "busy"
	case 0:
		return "none"
	}
	return fmt.Sprintf("code(%d)", c)
}

// c20InstallTaps redirects the progress file to memory through the package
// variables dae provides for that purpose and taps begin/end suppression
// (delegating to the real functions). Returns the restore func.
func c20InstallTaps() func() {
	oldSet, oldGet := setRunSignalProgress, getRunSignalProgress
	oldBegin, oldEnd := beginReloadProxyFailureSuppression, endReloadProxyFailureSuppression
	setRunSignalProgress = func(code byte, content string) error {
		e := c20Cur.Load()
		if e == nil {
			return nil
		}
		if e.file != "" {
			if err := writeSignalProgressFile(e.file, code, content); err != nil {
				e.ioErrs.Add(1)
			}
		}
		e.mu.Lock()
		e.progSet, e.progCode, e.progMsg = true, code, content
		st := e.clock.Add(1)
		if len(e.progLog) < 96 {
			e.progLog = append(e.progLog, c20ProgWrite{st, c20CodeName(code), content})
		}
		e.mu.Unlock()
		if code == consts.ReloadBusy {
			e.busyWrites.Add(1)
		}
		c20Perturb(e) // the real implementation is file I/O: a natural suspension point
		return nil
	}
	getRunSignalProgress = func() (byte, string, error) {
		e := c20Cur.Load()
		if e == nil {
			return 0, "", os.ErrNotExist
		}
		if e.file != "" {
			code, msg, err := readSignalProgressFile(e.file)
			c20Perturb(e)
			return code, msg, err
		}
		e.mu.Lock()
		set, code, msg := e.progSet, e.progCode, e.progMsg
		e.mu.Unlock()
		c20Perturb(e) // file I/O in production: the caller may be descheduled after reading
		if !set {
			return 0, "", os.ErrNotExist
		}
		return code, msg, nil
	}
	beginReloadProxyFailureSuppression = func() {
		// the caller may be descheduled between its previous statement and this call: whatever it
		// published before must not let anybody run ahead of the scope that is about to be opened
		if e := c20Cur.Load(); e != nil {
			c20Perturb(e)
		}
		oldBegin()
		v := verifC20Suppression.Load()
		if e := c20Cur.Load(); e != nil {
			e.begins.Add(1)
			for {
				p := e.peakSupp.Load()
				if v <= p || e.peakSupp.CompareAndSwap(p, v) {
					break
				}
			}
		}
	}
	endReloadProxyFailureSuppression = func() {
		if c20LongOwnedEnd() { // part 4: a monitor-owned flag that never opened a muting scope
			return
		}
		if e := c20Cur.Load(); e != nil && !e.inQfull.Load() {
			c20Perturb(e)
		}
		oldEnd()
		v := verifC20Suppression.Load()
		e := c20Cur.Load()
		if e == nil {
			return
		}
		if v < 0 {
			e.negSupp.Store(v)
		}
		e.ends.Add(1)
		if e.inQfull.Load() {
			return
		}
		st := e.clock.Add(1)
		e.mu.Lock()
		e.releases = append(e.releases, c20Release{Cycle: int(e.cycleIdx.Load()), Floor: e.relFloor.Load(), End: st})
		e.mu.Unlock()
	}
	hook := func(point string) {
		e := c20Cur.Load()
		if e == nil {
			return
		}
		switch point {
		case "handoff:flagged-before-notify":
			// adversarial main loop: if the wake-up were already visible here it would be
			// consumed now; Runner.Run ignores a wake-up seen while reloading is false.
			e.hookHandoff.Add(1)
			select {
			case <-e.m.runStateChanges:
				if e.m.reloading.Load() {
					notifyRunStateChange(e.m.runStateChanges)
				} else {
					e.lostWakeups.Add(1)
				}
			default:
			}
		case "queue:refused-before-report", "release:pending-cleared":
			if point[0] == 'q' {
				e.hookRefused.Add(1)
			} else {
				e.hookRelease.Add(1)
			}
			c20Perturb(e)
		}
	}
	verifYieldHook.Store(&hook)
	return func() {
		verifYieldHook.Store(nil)
		setRunSignalProgress, getRunSignalProgress = oldSet, oldGet
		beginReloadProxyFailureSuppression, endReloadProxyFailureSuppression = oldBegin, oldEnd
		c20Cur.Store(nil)
	}
}

// c20Perturb yields/sleeps by a fixed pseudo-random sequence at suspension points.
func c20Perturb(e *c20Env) {
	if e.calm {
		return
	}
	x := (e.hookCtr.Add(1) * 0x9e3779b97f4a7c15) >> 58 // 0..63, fixed sequence
	switch {
	case x < 40:
	case x < 52:
		runtime.Gosched()
	case x < 60:
		for i := uint64(0); i < x; i++ {
			runtime.Gosched()
		}
	default:
		time.Sleep(time.Duration(10+x) * time.Microsecond)
	}
}

func c20NewEnv(log *logrus.Logger) *c20Env {
	e := &c20Env{log: log}
	e.m = newReloadManager(make(chan reloadRequest, 1), make(chan struct{}, 1), make(chan os.Signal, 1))
	e.progSet, e.progCode = true, consts.ReloadDone // what Run writes once the daemon is ready
	c20Cur.Store(e)
	return e
}

// c20NewEnvFile: like c20NewEnv, with the progress report in a real file (what Run writes once the
// daemon is ready: ReloadDone, no text).
func c20NewEnvFile(log *logrus.Logger, path string) *c20Env {
	e := &c20Env{log: log, file: path}
	e.m = newReloadManager(make(chan reloadRequest, 1), make(chan struct{}, 1), make(chan os.Signal, 1))
	e.progSet, e.progCode = true, consts.ReloadDone
	if err := os.WriteFile(path, []byte{consts.ReloadDone}, 0644); err != nil {
		e.ioErrs.Add(1)
	}
	c20Cur.Store(e)
	return e
}

// c20ReadProgressFile parses the documented progress-file layout (one code byte, optionally a
// newline and a text) without dae's reader.
func c20ReadProgressFile(path string) (byte, string, bool) {
	b, err := os.ReadFile(path)
	if err != nil || len(b) == 0 {
		return 0, "", false
	}
	if len(b) == 1 {
		return b[0], "", true
	}
	if b[1] != '\n' {
		return 0, string(b), false
	}
	return b[0], string(b[2:]), true
}

func (e *c20Env) progress() (byte, string) {
	if e.file != "" {
		c, msg, _ := c20ReadProgressFile(e.file)
		return c, msg
	}
	e.mu.Lock()
	defer e.mu.Unlock()
	return e.progCode, e.progMsg
}

// attempt fires one reload/suspend request through the real admission entry
// point and records the stamped call/return event.
func (e *c20Env) attempt(suspend bool, phase string, sequential bool) (ok bool) {
	id := e.nextID.Add(1)
	a := c20Attempt{ID: id, Suspend: suspend, Phase: phase}
	defer func() {
		if r := recover(); r != nil {
			e.mu.Lock()
			e.panics = append(e.panics, fmt.Sprintf("queueReloadRequest panicked: %v", r))
			e.mu.Unlock()
		}
	}()
	a.Busy0 = e.busyWrites.Load()
	a.Call = e.clock.Add(1)
	ok = e.m.queueReloadRequest(e.log, reloadRequest{isSuspend: suspend, requestedAt: time.Now(), requestedAtMono: id})
	a.Ret = e.clock.Add(1)
	a.Busy1 = e.busyWrites.Load()
	a.OK = ok
	if sequential {
		c, _ := e.progress()
		a.Code = c20CodeName(c)
	}
	e.mu.Lock()
	e.attempts = append(e.attempts, a)
	e.mu.Unlock()
	if ok && phase != "qfull" {
		e.admitted.Add(1)
	}
	return ok
}

func c20Pause(r *rand.Rand) {
	switch r.IntN(6) {
	case 0:
	case 1:
		runtime.Gosched()
	case 2:
		for i, n := 0, 1+r.IntN(20); i < n; i++ {
			runtime.Gosched()
		}
	case 3:
		time.Sleep(time.Duration(1+r.IntN(60)) * time.Microsecond)
	case 4:
		x := 0
		for i, n := 0, 50+r.IntN(3000); i < n; i++ {
			x += i
		}
		_ = x
	case 5:
		time.Sleep(time.Duration(1+r.IntN(200)) * time.Microsecond)
	}
}

func (e *c20Env) signaler(seed uint64, maxAttempts int, wg *sync.WaitGroup) {
	defer wg.Done()
	r := rand.New(rand.NewPCG(seed, 0xC20))
	for i := 0; i < maxAttempts && !e.stop.Load(); i++ {
		c20Pause(r)
		e.attempt(r.IntN(3) == 0, "signal", false)
	}
}

// c20Snap is everything a refused request could conceivably disturb, except
// the progress report.
type c20Snap struct {
	Pending      bool   `json:"pending"`
	Active       bool   `json:"active"`
	Reloading    bool   `json:"reloading"`
	QueueLen     int    `json:"queue_len"`
	Suppression  int32  `json:"suppression"`
	Handoff      string `json:"pending_staged_handoff"`
	RetireDone   string `json:"pending_retirement_done"`
	ReloadErr    string `json:"reload_error"`
	ReqAtMono    uint64 `json:"pending_requested_at_mono"`
	RetireCancel bool   `json:"has_last_retirement_cancel"`
	StateNotify  int    `json:"run_state_notifications"`
}

func (e *c20Env) snap() c20Snap {
	m := e.m
	s := c20Snap{
		Pending: m.reloadPending.Load(), Active: m.reloadActive.Load(), Reloading: m.reloading.Load(),
		QueueLen: len(m.reloadReqs), Suppression: verifC20Suppression.Load(),
		StateNotify: len(m.runStateChanges),
	}
	m.mu.Lock()
	s.Handoff = fmt.Sprintf("%p", m.pendingStagedHandoff)
	s.RetireDone = fmt.Sprintf("%p", m.pendingRetirementDone)
	if m.reloadingErr != nil {
		s.ReloadErr = m.reloadingErr.Error()
	}
	s.ReqAtMono = m.pendingReloadRequestedAtMono
	m.mu.Unlock()
	m.lastRetirementMu.Lock()
	s.RetireCancel = m.lastRetirementCancel != nil
	m.lastRetirementMu.Unlock()
	return s
}

func (a c20Snap) diff(b c20Snap) []string {
	var d []string
	add := func(name string, differs bool) {
		if differs {
			d = append(d, name)
		}
	}
	add("pending", a.Pending != b.Pending)
	add("active", a.Active != b.Active)
	add("reloading", a.Reloading != b.Reloading)
	add("queue", a.QueueLen != b.QueueLen)
	add("suppression", a.Suppression != b.Suppression)
	add("staged_handoff", a.Handoff != b.Handoff)
	add("retirement_done", a.RetireDone != b.RetireDone)
	add("reload_error", a.ReloadErr != b.ReloadErr)
	add("requested_at", a.ReqAtMono != b.ReqAtMono)
	add("retirement_cancel", a.RetireCancel != b.RetireCancel)
	add("run_state_notifications", a.StateNotify != b.StateNotify)
	return d
}
