package cmd

// C20 monitor, part 4: a retirement that lasts longer than the total switch budget.
//
// "dae accepts a new request again once the previous generation has retired": the admission is held
// until the retirement has signalled completion, however long that takes (sessions that do not drain,
// a slow Close(), datapath clean-up). The histories of parts 2 and 3 hold retirements open for
// logical stages, i.e. milliseconds. Here the real releaseReloadPendingAfterRetirement is started at
// the beginning of the test on admission flags of the monitor's own, with retirement channels that
// are never closed (and one that is closed at the very end, as positive control), and left alone for
// as long as the rest of the test runs. Verdicts are on STATE only: a flag that has been released
// while its retirement channel is still open is a violation whatever the elapsed time; the elapsed
// time only decides whether the run counts as having outlasted reloadTotalSwitchBudget.

import (
	"fmt"
	"runtime"
	"strings"
	"sync/atomic"
	"time"

	vk "github.com/daeuniverse/dae/verifkit"
)

type c20LongRet struct {
	name      string
	flag      atomic.Bool // the admission (reloadPending) of this monitor-owned request
	ch        chan struct{}
	control   bool
	accounted atomic.Bool
}

var (
	c20Long      atomic.Pointer[[]*c20LongRet]
	c20LongStart time.Time
)

const c20ReleaserMark = "created by github.com/daeuniverse/dae/cmd.releaseReloadPendingAfterRetirement"

// c20LongOwnedEnd: clearReloadPending frees the flag and THEN closes the muting scope. These flags
// never opened a scope (that would keep the counter non-zero for the whole test), so the closing call
// that belongs to one of them is kept away from the real counter and from the release records of the
// history that happens to run: one call per released flag.
func c20LongOwnedEnd() bool {
	p := c20Long.Load()
	if p == nil {
		return false
	}
	for _, l := range *p {
		if !l.flag.Load() && l.accounted.CompareAndSwap(false, true) {
			return true
		}
	}
	return false
}

// c20LongParked: how many of the monitor-owned release goroutines can still exist.
func c20LongParked() int {
	p := c20Long.Load()
	if p == nil {
		return 0
	}
	n := 0
	for _, l := range *p {
		if l.flag.Load() {
			n++
		}
	}
	return n
}

// c20ReleaseRunning: some goroutine of dae's release code other than the monitor-owned parked ones
// exists (goroutine dump).
func c20ReleaseRunning() bool {
	buf := c20StackBuf
	for {
		n := runtime.Stack(buf, true)
		if n < len(buf) {
			buf = buf[:n]
			break
		}
		buf = make([]byte, 2*len(buf))
		c20StackBuf = buf
	}
	s := string(buf)
	return strings.Contains(s, "clearReloadPending") || strings.Count(s, c20ReleaserMark) > c20LongParked()
}

func c20LongStartAll() {
	var ls []*c20LongRet
	for i, nm := range []string{"never-retires-1", "never-retires-2", "never-retires-3", "retires-at-the-end(control)"} {
		l := &c20LongRet{name: nm, ch: make(chan struct{}), control: i == 3}
		l.flag.Store(true)
		ls = append(ls, l)
	}
	c20Long.Store(&ls)
	c20LongStart = time.Now()
	for _, l := range ls {
		releaseReloadPendingAfterRetirement(&l.flag, l.ch)
	}
}

func c20LongJudge(mon *vk.Monitor) {
	p := c20Long.Load()
	if p == nil {
		return
	}
	elapsed := time.Since(c20LongStart)
	var control *c20LongRet
	bad := false
	for _, l := range *p {
		if l.control {
			control = l
			continue
		}
		mon.Eval(1)
		if !l.flag.Load() { // channel never closed
			bad = true
			mon.Violation("pending-released-before-retirement/long-retirement",
				fmt.Sprintf("releaseReloadPendingAfterRetirement was given an admission flag and a retirement channel that has not been closed (the previous generation has not retired); %.1fs later the flag has been released: the next reload/suspend is admitted while the previous one is still retiring (total switch budget %v)", elapsed.Seconds(), reloadTotalSwitchBudget),
				map[string]any{"request": l.name, "elapsed_seconds": elapsed.Seconds(), "retirement_channel": "open", "flag_released": true})
			break
		}
		mon.Count("long_retirement_still_held", 1)
	}
	if !bad {
		if elapsed > reloadTotalSwitchBudget+500*time.Millisecond {
			mon.Count("long_retirement_outlasted_switch_budget", 1)
			mon.Require("long_retirement_outlasted_switch_budget", "long_retirement_control_released")
		} else {
			mon.Count("recorded/long_retirement_not_exercised_test_shorter_than_switch_budget", 1)
		}
	}
	// positive control: this one does retire now, and its flag has to be released
	if control != nil && control.flag.Load() {
		close(control.ch)
		for deadline := time.Now().Add(c20Bound); control.flag.Load() && time.Now().Before(deadline); {
			time.Sleep(50 * time.Microsecond)
		}
		mon.Eval(1)
		if control.flag.Load() {
			mon.Violation("pending-never-released-after-retirement/long-retirement",
				fmt.Sprintf("the retirement channel was closed after %.1fs but the admission flag is still held %v later: dae stays refusing requests", elapsed.Seconds(), c20Bound), map[string]any{"request": control.name})
		} else {
			mon.Count("long_retirement_control_released", 1)
			// let it get through the rest of clearReloadPending before the taps are removed
			for deadline := time.Now().Add(c20Bound); !control.accounted.Load() && time.Now().Before(deadline); {
				time.Sleep(50 * time.Microsecond)
			}
		}
	} else if control != nil {
		mon.Eval(1)
		mon.Violation("pending-released-before-retirement/long-retirement",
			fmt.Sprintf("the control request's admission flag was released %.1fs after the start although its retirement channel had not been closed yet", elapsed.Seconds()), map[string]any{"request": control.name})
	}
	mon.Set("long_retirement", map[string]any{"elapsed_seconds": elapsed.Seconds(), "switch_budget_seconds": reloadTotalSwitchBudget.Seconds()})
}
