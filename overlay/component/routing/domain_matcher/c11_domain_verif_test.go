package domain_matcher

// C11 monitor: AhocorasickSlimtrie.MatchDomainBitmap (the matcher the daemon
// builds for routing and DNS routing) against a brute-force oracle written from
// the property statement, over generated pattern sets whose patterns are
// prefixes/suffixes of one another, spread over bit indices 0..1023; plus the
// succinct trie (pkg/trie NewTrie/HasPrefix) and the packed bit list
// (common/bitlist) directly against brute force on key sets whose packed bit
// lengths sweep over 64-bit word boundaries.
//
// The oracle uses only package strings and regexp. Nothing of dae's matcher
// code (Bruteforce, GoRegexpNfa, ValidDomainChars, ...) is used to decide.

import (
	"fmt"
	"io"
	"math/rand/v2"
	"regexp"
	"sort"
	"strings"
	"sync/atomic"
	"testing"

	"github.com/daeuniverse/dae/common/bitlist"
	"github.com/daeuniverse/dae/common/consts"
	"github.com/daeuniverse/dae/pkg/trie"
	vk "github.com/daeuniverse/dae/verifkit"
	"github.com/sirupsen/logrus"
	ahocorasick "github.com/v2rayA/ahocorasick-domain"
)

// ---------------------------------------------------------------------------
// case model
// ---------------------------------------------------------------------------

type c11Add struct { // one AddSet call
	Kind     string   `json:"kind"`
	Patterns []string `json:"patterns"`
	cores    []string // the name each pattern was written from (query derivation only)
}

type c11Set struct {
	Bit  int      `json:"bit"`
	Adds []c11Add `json:"adds"`
}

func (s *c11Set) size() int {
	n := 0
	for _, a := range s.Adds {
		n += len(a.Patterns)
	}
	return n
}

func (s *c11Set) kinds() string {
	var l []string
	seen := map[string]bool{}
	for _, a := range s.Adds {
		if !seen[a.Kind] {
			seen[a.Kind] = true
			l = append(l, a.Kind)
		}
	}
	sort.Strings(l)
	return strings.Join(l, "+")
}

type c11Case struct {
	BitLen int      `json:"bit_len"`
	Sets   []c11Set `json:"sets"`
}

// ---------------------------------------------------------------------------
// oracle (from the statement; strings + regexp only)
// ---------------------------------------------------------------------------

type c11Oracle struct{ re map[string]*regexp.Regexp }

func c11Norm(name string) string { return strings.ToLower(strings.TrimSuffix(name, ".")) }

// c11OutsideAlphabet: a byte that is neither a lower-case letter, a digit,
// '-', '_', '.' nor the matcher's own marker '^' (evidence counter only).
func c11OutsideAlphabet(s string) bool {
	for i := 0; i < len(s); i++ {
		if !strings.Contains("abcdefghijklmnopqrstuvwxyz0123456789-_.^", s[i:i+1]) {
			return true
		}
	}
	return false
}

func c11HasUpper(s string) bool {
	for i := 0; i < len(s); i++ {
		if s[i] >= 'A' && s[i] <= 'Z' {
			return true
		}
	}
	return false
}

// pat decides one pattern on the normalised name n.
func (o *c11Oracle) pat(kind, p, n string) bool {
	switch kind {
	case "full":
		return n == p
	case "suffix":
		if strings.HasPrefix(p, ".") {
			// written with a leading dot: proper sub-names only
			return strings.HasSuffix(n, p)
		}
		return n == p || strings.HasSuffix(n, "."+p)
	case "keyword":
		return strings.Contains(n, p)
	case "regex":
		re := o.re[p]
		if re == nil {
			re = regexp.MustCompile(p)
			o.re[p] = re
		}
		return re.MatchString(n)
	}
	panic("c11: kind " + kind)
}

// expect returns e0 = verdict over the judged (lower-case) patterns, e1 =
// verdict when upper-case full/suffix patterns (outside the statement) are
// read case-insensitively as well, and the kind of the first matching pattern.
func (o *c11Oracle) expect(s *c11Set, n string) (e0, e1 bool, by string) {
	for ai := range s.Adds {
		a := &s.Adds[ai]
		for _, p := range a.Patterns {
			if a.Kind != "regex" && c11HasUpper(p) {
				if !e1 && o.pat(a.Kind, strings.ToLower(p), n) {
					e1 = true
				}
				continue
			}
			if o.pat(a.Kind, p, n) {
				k := a.Kind
				if k == "suffix" && strings.HasPrefix(p, ".") {
					k = "suffix-dot"
				}
				return true, true, k
			}
		}
	}
	return false, e1, ""
}

// ---------------------------------------------------------------------------
// code under test, with panic capture
// ---------------------------------------------------------------------------

type c11Hook struct{ n *int64 }

func (h c11Hook) Levels() []logrus.Level { return []logrus.Level{logrus.WarnLevel} }
func (h c11Hook) Fire(e *logrus.Entry) error {
	if strings.Contains(e.Message, "skip bad") {
		atomic.AddInt64(h.n, 1)
	}
	return nil
}

var c11SkipWarnings int64

func c11Logger() *logrus.Logger {
	l := logrus.New()
	l.SetOutput(io.Discard)
	l.SetLevel(logrus.WarnLevel)
	l.AddHook(c11Hook{&c11SkipWarnings})
	return l
}

func c11Build(c *c11Case, log *logrus.Logger) (am *AhocorasickSlimtrie, err error, pan any) {
	defer func() {
		if r := recover(); r != nil {
			pan = r
		}
	}()
	// Same sequence as control.RoutingMatcherBuilder.BuildUserspace and the dns
	// request/response routing builders.
	am = NewAhocorasickSlimtrie(log, c.BitLen)
	for si := range c.Sets {
		for _, a := range c.Sets[si].Adds {
			am.AddSet(c.Sets[si].Bit, a.Patterns, consts.RoutingDomainKey(a.Kind))
		}
	}
	// Build() constructs the tries and automata in goroutines of its own, where
	// a panic cannot be recovered by the monitor. Construct each of them once
	// here, from the very inputs Build is about to use, to turn such a crash
	// into a witness (no verdict is drawn from the results themselves).
	for i := range am.toBuildTrie {
		if len(am.toBuildTrie[i]) > 0 {
			_, _ = trie.NewTrie(ToSuffixTrieStrings(am.toBuildTrie[i]), ValidDomainChars)
		}
	}
	for i := range am.toBuildAc {
		if len(am.toBuildAc[i]) > 0 {
			_, _ = ahocorasick.NewMatcher(am.toBuildAc[i])
		}
	}
	err = am.Build()
	return am, err, nil
}

func c11Match(am *AhocorasickSlimtrie, name string) (bm []uint32, pan any) {
	defer func() {
		if r := recover(); r != nil {
			pan = r
		}
	}()
	return am.MatchDomainBitmap(name), nil
}

func c11Bit(bm []uint32, i int) bool { return i/32 < len(bm) && bm[i/32]&(1<<(uint(i)%32)) != 0 }

// ---------------------------------------------------------------------------
// generators
// ---------------------------------------------------------------------------

var c11Labels = []string{"a", "b", "ab", "ba", "a-b", "a_b", "0", "x1", "1", "aa", "abc", "com", "example",
	"-", "_", "a0", "0a", "z", "www", "x--1", "_tcp", "b-a", "00", "cn"}

const c11NameChars = "abcxyz019-_"

func c11Pick(r *rand.Rand, l []string) string { return l[r.IntN(len(l))] }

func c11SmallName(r *rand.Rand) string {
	n := 1 + r.IntN(4)
	ls := make([]string, n)
	// a tiny sub-pool most of the time, so names are suffixes of one another
	pool := c11Labels
	if r.IntN(3) > 0 {
		pool = c11Labels[:8]
	}
	for i := range ls {
		ls[i] = c11Pick(r, pool)
	}
	return strings.Join(ls, ".")
}

var c11Syll = []string{"ali", "ba", "go", "gle", "mi", "cro", "soft", "ten", "cent", "ad", "s", "cdn", "img",
	"api", "9", "1", "360", "x", "net", "test", "ipv6", "you", "tube", "face", "book", "jd", "qq", "tao", "bao", "wx"}
var c11Tld = []string{"com", "net", "org", "cn", "io", "co.uk", "com.cn", "a", "example"}

// c11Synth builds the seeded synthetic geosite-like list (distinct names).
func c11Synth(r *rand.Rand, n int) []string {
	seen := map[string]bool{}
	out := make([]string, 0, n)
	word := func() string {
		k := 1 + r.IntN(3)
		var b strings.Builder
		for i := 0; i < k; i++ {
			if i > 0 {
				switch r.IntN(8) {
				case 0:
					b.WriteByte('-')
				case 1:
					b.WriteByte('_')
				}
			}
			b.WriteString(c11Pick(r, c11Syll))
		}
		return b.String()
	}
	for len(out) < n {
		s := word() + "." + c11Pick(r, c11Tld)
		for k := r.IntN(3); k > 0; k-- {
			s = word() + "." + s
		}
		if !seen[s] {
			seen[s] = true
			out = append(out, s)
		}
	}
	return out
}

var c11BadChars = []string{"*", " ", "$", "/", ":", "@", "~", "!", "\xc3\xa9", "+", "%", "\x00", "\xff"}

// c11Pattern writes one pattern of the kind from a source name; core is the
// name the queries are derived from. class tells the generator branch.
func c11Pattern(r *rand.Rand, kind, name string) (p, core, class string) {
	switch kind {
	case "full", "suffix":
		p = name
		class = "plain"
		x := r.IntN(100)
		switch {
		case x < 6: // byte outside the matcher's alphabet: must be skipped
			i := r.IntN(len(p) + 1)
			p = p[:i] + c11Pick(r, c11BadChars) + p[i:]
			class = "badchar"
		case x < 9: // upper-case pattern: outside the statement, recorded only
			b := []byte(p)
			for i := range b {
				if b[i] >= 'a' && b[i] <= 'z' && r.IntN(2) == 0 {
					b[i] -= 32
				}
			}
			p = string(b)
			if c11HasUpper(p) {
				class = "upper"
			}
		case x < 11: // '^' is in the matcher's alphabet but in no host name
			i := r.IntN(len(p) + 1)
			p = p[:i] + "^" + p[i:]
			class = "caret"
		}
		if kind == "suffix" && r.IntN(4) == 0 {
			p = "." + p
			class += "-dot"
		}
		return p, name, class
	case "keyword":
		i := r.IntN(len(name))
		j := i + 1 + r.IntN(len(name)-i)
		if r.IntN(3) == 0 {
			j = len(name)
		}
		if r.IntN(4) == 0 {
			i = 0
		}
		return name[i:j], name, "plain"
	case "regex":
		q := regexp.QuoteMeta(name)
		switch r.IntN(9) {
		case 0:
			return "^" + q + "$", name, "anchored"
		case 1:
			return `(^|\.)` + q + "$", name, "suffix-like"
		case 2:
			return name, name, "unquoted" // '.' matches any char
		case 3:
			return "^" + q, name, "prefix"
		case 4:
			return `^[a-z0-9_-]+\.` + q + "$", name, "one-label"
		case 5:
			return `(?i)` + strings.ToUpper(q) + "$", name, "fold"
		case 6:
			return "[A-Z]", name, "upper-class" // never matches a lower-cased name
		case 7:
			return `^(` + q + `|\d+)$`, name, "alt"
		default:
			return q + `\.$`, name, "trailing-dot" // name' has lost one trailing dot
		}
	}
	panic("c11: kind")
}

type c11Q struct {
	Name string
	Rel  string
	Src  int // index of the set the query was derived from, -1 none
	Kind string
}

func c11Relate(r *rand.Rand, core string, long bool) (qs []c11Q) {
	add := func(rel, n string) { qs = append(qs, c11Q{Name: n, Rel: rel}) }
	l1, l2 := c11Pick(r, c11Labels), c11Pick(r, c11Labels)
	ch := string(c11NameChars[r.IntN(len(c11NameChars))])
	add("equal", core)
	add("sub-name", l1+"."+core)
	add("sub-sub-name", l1+"."+l2+"."+core)
	add("glued-prefix", l1+core)
	add("glued-suffix", core+l1)
	if i := strings.IndexByte(core, '.'); i >= 0 {
		add("super-name", core[i+1:])
	}
	if i := strings.LastIndexByte(core, '.'); i >= 0 {
		add("drop-last-label", core[:i])
	}
	add("add-last-label", core+"."+l1)
	add("char+front", ch+core)
	add("char+end", core+ch)
	if len(core) > 1 {
		add("char-front", core[1:])
		add("char-end", core[:len(core)-1])
	}
	if len(core) > 0 {
		i := r.IntN(len(core))
		c := ch
		if c[0] == core[i] {
			c = "."
		}
		add("char-changed", core[:i]+c+core[i+1:])
	}
	flip := []byte(core)
	for i := range flip {
		if flip[i] >= 'a' && flip[i] <= 'z' && r.IntN(2) == 0 {
			flip[i] -= 32
		}
	}
	add("case-flipped", string(flip))
	add("case-upper-sub-name", strings.ToUpper(l1+"."+core))
	add("trailing-dot", core+".")
	add("sub-name-trailing-dot", l1+"."+core+".")
	add("double-trailing-dot", core+"..")
	add("leading-dot", "."+core)
	if long {
		add("long-sub-name", strings.Repeat(l1+".", 100)+core)
		add("long-glued", strings.Repeat("a", 300)+core)
		add("long-label-sub-name", strings.Repeat("a", 300)+"."+core)
		add("long-tail", core+strings.Repeat("."+l1, 100))
	}
	return qs
}

var c11SpecialBits = []int{0, 1, 31, 32, 33, 63, 64, 65, 127, 128, 511, 512, 991, 992, 1022, 1023}

func c11GenCase(r *rand.Rand, synth []string, sizes []int, nsets int) *c11Case {
	return c11GenCaseKinds(r, synth, sizes, nsets, []string{"full", "suffix", "suffix", "keyword", "regex"})
}

func c11GenCaseKinds(r *rand.Rand, synth []string, sizes []int, nsets int, kinds []string) *c11Case {
	c := &c11Case{BitLen: 1024}
	if r.IntN(10) == 0 {
		c.BitLen = []int{32, 64, 96}[r.IntN(3)]
	}
	if nsets > c.BitLen {
		c.BitLen = 1024
	}
	used := map[int]bool{}
	for si := 0; si < nsets; si++ {
		var bit int
		for {
			if r.IntN(10) < 6 {
				bit = c11SpecialBits[r.IntN(len(c11SpecialBits))]
			} else {
				bit = r.IntN(1024)
			}
			bit %= c.BitLen
			if !used[bit] {
				break
			}
		}
		used[bit] = true
		size := sizes[si%len(sizes)]
		s := c11Set{Bit: bit}
		// production: one AddSet per (rule index, key) => one kind per bit
		// index; the interface also accumulates several calls on one index.
		nadds := 1
		if r.IntN(10) < 3 {
			nadds = 2 + r.IntN(2)
		}
		left := size
		for ai := 0; ai < nadds; ai++ {
			kind := kinds[r.IntN(len(kinds))]
			n := left
			if ai < nadds-1 {
				n = left / 2
			}
			if n == 0 {
				n = 1
			}
			left -= n
			if left < 0 {
				left = 0
			}
			switch kind {
			case "regex":
				if n > 20 {
					n = 20
				}
			case "keyword":
				if n > 5000 {
					n = 5000 // automaton nodes cost ~700 B each
				}
			}
			a := c11Add{Kind: kind}
			for k := 0; k < n; k++ {
				var name string
				if size >= 100 && r.IntN(100) < 85 {
					name = synth[r.IntN(len(synth))]
				} else {
					name = c11SmallName(r)
				}
				p, core, _ := c11Pattern(r, kind, name)
				a.Patterns = append(a.Patterns, p)
				a.cores = append(a.cores, core)
			}
			s.Adds = append(s.Adds, a)
		}
		c.Sets = append(c.Sets, s)
	}
	return c
}

// c11Queries derives the query list of a case.
func c11Queries(r *rand.Rand, c *c11Case) (qs []c11Q) {
	for si := range c.Sets {
		s := &c.Sets[si]
		for ai := range s.Adds {
			a := &s.Adds[ai]
			n := len(a.Patterns)
			full := map[int]bool{}
			if n <= 12 {
				for i := 0; i < n; i++ {
					full[i] = true
				}
			} else {
				// positions spread over the SORTED order of the reversed
				// patterns (trie order): first, last and a sample between
				idx := make([]int, n)
				for i := range idx {
					idx[i] = i
				}
				sort.Slice(idx, func(x, y int) bool { return c11Reverse(a.Patterns[idx[x]]) < c11Reverse(a.Patterns[idx[y]]) })
				full[idx[0]], full[idx[n-1]], full[idx[n/2]] = true, true, true
				for k := 0; k < 24; k++ {
					full[idx[r.IntN(n)]] = true
				}
			}
			light := n
			if light > 3000 {
				light = 3000
			}
			for i := 0; i < n; i++ {
				if full[i] {
					for _, q := range c11Relate(r, a.cores[i], true) {
						q.Src, q.Kind = si, a.Kind
						qs = append(qs, q)
					}
					continue
				}
				if n > light && r.IntN(n) >= light {
					continue
				}
				rel := c11Relate(r, a.cores[i], false)
				q := rel[0]
				q.Src, q.Kind = si, a.Kind
				qs = append(qs, q)
				q = rel[1+r.IntN(len(rel)-1)]
				q.Src, q.Kind = si, a.Kind
				qs = append(qs, q)
			}
		}
	}
	for i := 0; i < 30; i++ {
		qs = append(qs, c11Q{Name: c11SmallName(r), Rel: "random", Src: -1, Kind: "none"})
	}
	for _, n := range []string{"", ".", "..", "a", "A.", "com", "-", "_", "0",
		strings.Repeat("a.", 127) + "com", strings.Repeat("ab-_0.", 12000) + "example.com"} {
		rel := "special"
		if c11Norm(n) == "" {
			rel = "empty"
		} else if len(n) > 200 {
			rel = "very-long"
		}
		qs = append(qs, c11Q{Name: n, Rel: rel, Src: -1, Kind: "none"})
	}
	return qs
}

func c11Reverse(s string) string {
	b := []byte(s)
	for i, j := 0, len(b)-1; i < j; i, j = i+1, j-1 {
		b[i], b[j] = b[j], b[i]
	}
	return string(b)
}

// ---------------------------------------------------------------------------
// witness minimisation
// ---------------------------------------------------------------------------

type c11Flat struct{ kind, p string }

func c11Flatten(s *c11Set) (l []c11Flat) {
	for _, a := range s.Adds {
		for _, p := range a.Patterns {
			l = append(l, c11Flat{a.Kind, p})
		}
	}
	return l
}

func c11Unflatten(bit int, l []c11Flat) c11Set {
	s := c11Set{Bit: bit}
	for _, f := range l {
		if n := len(s.Adds); n > 0 && s.Adds[n-1].Kind == f.kind {
			s.Adds[n-1].Patterns = append(s.Adds[n-1].Patterns, f.p)
		} else {
			s.Adds = append(s.Adds, c11Add{Kind: f.kind, Patterns: []string{f.p}})
		}
	}
	return s
}

// c11Bad: does the case still misjudge name on the set at bit (or crash)?
func c11Bad(c *c11Case, bit int, name string, o *c11Oracle, log *logrus.Logger) bool {
	var s *c11Set
	for i := range c.Sets {
		if c.Sets[i].Bit == bit {
			s = &c.Sets[i]
		}
	}
	if s == nil || s.size() == 0 {
		return false
	}
	am, err, pan := c11Build(c, log)
	if pan != nil || err != nil {
		return true
	}
	bm, pan := c11Match(am, name)
	if pan != nil {
		return true
	}
	e0, e1, _ := o.expect(s, c11Norm(name))
	got := c11Bit(bm, bit)
	return got != e0 && got != e1
}

func c11Minimise(c *c11Case, si int, name string, o *c11Oracle, log *logrus.Logger) (min *c11Case, isolated bool) {
	bit := c.Sets[si].Bit
	cur := &c11Case{BitLen: c.BitLen, Sets: []c11Set{c.Sets[si]}}
	isolated = true
	if !c11Bad(cur, bit, name, o, log) {
		// needs other sets: drop them greedily
		isolated = false
		cur = &c11Case{BitLen: c.BitLen, Sets: append([]c11Set(nil), c.Sets...)}
		for i := 0; i < len(cur.Sets); i++ {
			if cur.Sets[i].Bit == bit {
				continue
			}
			q := &c11Case{BitLen: cur.BitLen}
			q.Sets = append(q.Sets, cur.Sets[:i]...)
			q.Sets = append(q.Sets, cur.Sets[i+1:]...)
			if c11Bad(q, bit, name, o, log) {
				cur = q
				i--
			}
		}
		if !c11Bad(cur, bit, name, o, log) {
			return c, false // not reproducible on rebuild: report the original
		}
	}
	ti := 0
	for i := range cur.Sets {
		if cur.Sets[i].Bit == bit {
			ti = i
		}
	}
	flat := c11Flatten(&cur.Sets[ti])
	with := func(l []c11Flat) *c11Case {
		q := &c11Case{BitLen: cur.BitLen, Sets: append([]c11Set(nil), cur.Sets...)}
		q.Sets[ti] = c11Unflatten(bit, l)
		return q
	}
	budget := 400
	for chunk := (len(flat) + 1) / 2; chunk >= 1 && budget > 0; {
		removed := false
		for i := 0; i < len(flat) && budget > 0; {
			if len(flat) <= 1 {
				break
			}
			j := i + chunk
			if j > len(flat) {
				j = len(flat)
			}
			l := append(append([]c11Flat(nil), flat[:i]...), flat[j:]...)
			budget--
			if len(l) > 0 && c11Bad(with(l), bit, name, o, log) {
				flat, removed = l, true
			} else {
				i = j
			}
		}
		if chunk == 1 {
			if !removed {
				break
			}
			continue
		}
		chunk = (chunk + 1) / 2
	}
	return with(flat), isolated
}

func c11Trunc(c *c11Case) *c11Case {
	q := &c11Case{BitLen: c.BitLen}
	for _, s := range c.Sets {
		ns := c11Set{Bit: s.Bit}
		for _, a := range s.Adds {
			na := c11Add{Kind: a.Kind, Patterns: a.Patterns}
			if len(na.Patterns) > 300 {
				na.Patterns = append(append([]string(nil), a.Patterns[:300]...), fmt.Sprintf("... %d more", len(a.Patterns)-300))
			}
			ns.Adds = append(ns.Adds, na)
		}
		q.Sets = append(q.Sets, ns)
	}
	return q
}

func c11SizeClass(n int) string {
	switch {
	case n <= 1:
		return "1"
	case n == 2:
		return "2"
	case n <= 10:
		return "le10"
	case n <= 1000:
		return "le1000"
	default:
		return "gt1000"
	}
}

func c11ShortName(n string) string {
	if len(n) > 400 {
		return fmt.Sprintf("%s...(%d bytes)...%s", n[:120], len(n), n[len(n)-120:])
	}
	return n
}

// ---------------------------------------------------------------------------
// part A: the matcher
// ---------------------------------------------------------------------------

func c11RunCase(m *vk.Monitor, r *rand.Rand, c *c11Case, o *c11Oracle, log *logrus.Logger) {
	m.Count("matcher_cases", 1)
	defined := map[int]int{}
	for si := range c.Sets {
		s := &c.Sets[si]
		defined[s.Bit] = si
		m.Count("sets", 1)
		m.Count("sets_size_"+c11SizeClass(s.size()), 1)
		if s.size() >= 1000 {
			m.Count("sets_size_ge1000", 1)
		}
		m.Count("sets_kinds_"+s.kinds(), 1)
		if len(s.Adds) > 1 {
			m.Count("sets_several_addset_calls_one_bit", 1)
		}
		switch s.Bit {
		case 0, 31, 32, 63, 64, 1023:
			m.Count(fmt.Sprintf("bit_%d", s.Bit), 1)
		}
		for _, a := range s.Adds {
			for _, p := range a.Patterns {
				if a.Kind == "full" || a.Kind == "suffix" {
					if c11HasUpper(p) {
						m.Count("patterns_uppercase_unjudged", 1)
					} else if c11OutsideAlphabet(p) {
						m.Count("patterns_outside_alphabet_generated", 1)
					}
				}
			}
		}
	}
	if c.BitLen != 1024 {
		m.Count("bitlen_not_1024", 1)
	}
	am, err, pan := c11Build(c, log)
	if pan != nil || err != nil {
		mc := c
		if m.Violations() < 5 {
			for si := range c.Sets {
				one := &c11Case{BitLen: c.BitLen, Sets: []c11Set{c.Sets[si]}}
				if _, e, p := c11Build(one, log); e != nil || p != nil {
					mc, _ = c11Minimise(c, si, "", o, log)
					break
				}
			}
		}
		if pan != nil {
			m.Violation("matcher/panic-build", fmt.Sprintf("AddSet/Build panicked: %v", pan), map[string]any{"minimised_case": c11Trunc(mc), "panic": fmt.Sprint(pan)})
		} else {
			// every generated set is inside the statement (bad full/suffix patterns must be skipped)
			m.Violation("matcher/build-error", fmt.Sprintf("Build failed on in-statement sets: %v", err), map[string]any{"minimised_case": c11Trunc(mc), "error": err.Error()})
		}
		return
	}
	qs := c11Queries(r, c)
	m.Count("queries", int64(len(qs)))
	reported := map[string]bool{}
	wantWords := (c.BitLen + 31) / 32
	for _, q := range qs {
		bm, pan := c11Match(am, q.Name)
		if pan != nil {
			if !reported["panic"] {
				reported["panic"] = true
				m.Violation("matcher/panic-match", fmt.Sprintf("MatchDomainBitmap(%q) panicked: %v", c11ShortName(q.Name), pan),
					map[string]any{"case": c11Trunc(c), "name": q.Name, "panic": fmt.Sprint(pan)})
			}
			continue
		}
		if len(bm) != wantWords {
			if !reported["len"] {
				reported["len"] = true
				m.Violation("matcher/bitmap-length", fmt.Sprintf("bitmap has %d words for %d sets", len(bm), c.BitLen), map[string]any{"bit_len": c.BitLen, "words": len(bm)})
			}
			continue
		}
		n := c11Norm(q.Name)
		// bits of no set must stay clear
		for w, v := range bm {
			for v != 0 {
				b := 0
				for v&(1<<uint(b)) == 0 {
					b++
				}
				v &^= 1 << uint(b)
				if _, ok := defined[w*32+b]; !ok && !reported["undef"] {
					reported["undef"] = true
					m.Violation("matcher/fp/undefined-bit", fmt.Sprintf("bit %d set though no set has this index, name %q", w*32+b, c11ShortName(q.Name)),
						map[string]any{"case": c11Trunc(c), "name": q.Name, "bit": w*32 + b})
				}
			}
		}
		for si := range c.Sets {
			s := &c.Sets[si]
			e0, e1, by := o.expect(s, n)
			got := c11Bit(bm, s.Bit)
			m.Eval(1)
			if e0 {
				m.Count("oracle_match_"+by, 1)
			} else {
				m.Count("oracle_nomatch", 1)
			}
			if si == q.Src {
				res := "nomatch"
				if e0 {
					res = "match"
				}
				m.Count("rel/"+q.Rel+"/"+res, 1)
				m.Distinct(strings.Join([]string{q.Kind, q.Rel, res, c11SizeClass(s.size()), fmt.Sprint(len(s.Adds)), by}, "|"))
			} else if q.Src < 0 {
				m.Count("rel/"+q.Rel, 1)
			} else if e0 {
				m.Count("match_on_other_set_than_source", 1)
			}
			if got == e0 {
				continue
			}
			if got == e1 {
				m.Count("uppercase_pattern_decides_unjudged", 1)
				continue
			}
			dir, what := "fp", s.kinds()
			if e0 {
				dir, what = "fn", by
			}
			sig := "matcher/" + dir + "/" + what
			if reported[sig] {
				m.Count("repeat_mismatches_same_case_and_signature", 1)
				continue
			}
			reported[sig] = true
			rel := "other-set-query"
			if si == q.Src {
				rel = q.Rel
			}
			mc, isolated := c, false
			if m.Violations() < 5 {
				mc, isolated = c11Minimise(c, si, q.Name, o, log)
			}
			m.Violation(sig, fmt.Sprintf("set at bit %d (%s, %d patterns): name %q (%s) matcher=%v brute-force=%v", s.Bit, s.kinds(), s.size(), c11ShortName(q.Name), rel, got, e0),
				map[string]any{"name": q.Name, "normalised": c11ShortName(n), "bit": s.Bit, "matcher": got, "brute_force": e0, "relation": rel,
					"reproduces_with_this_set_alone": isolated, "minimised_case": c11Trunc(mc), "original_set_size": s.size()})
		}
		if m.WantSample() && q.Src >= 0 && q.Rel == "glued-prefix" {
			s := &c.Sets[q.Src]
			e0, _, _ := o.expect(s, n)
			m.Sample(map[string]any{"bit": s.Bit, "kinds": s.kinds(), "set_size": s.size(), "first_patterns": c11Trunc(&c11Case{Sets: []c11Set{*s}}).Sets[0].Adds[0].Patterns[:min(3, len(s.Adds[0].Patterns))],
				"name": c11ShortName(q.Name), "relation": q.Rel, "matcher": c11Bit(bm, s.Bit), "brute_force": e0})
		}
	}
	// names outside the statement's alphabet: recorded, never judged
	for _, name := range []string{"ex*mple.com", "a b.com", "a$", "\xc3\xa9.com", "a^b"} {
		bm, pan := c11Match(am, name)
		if pan != nil {
			m.Count("outside_alphabet_name_panics_unjudged", 1)
			continue
		}
		for si := range c.Sets {
			e0, _, _ := o.expect(&c.Sets[si], c11Norm(name))
			if c11Bit(bm, c.Sets[si].Bit) != e0 {
				m.Count("outside_alphabet_name_disagreements_unjudged", 1)
			} else {
				m.Count("outside_alphabet_name_agreements_unjudged", 1)
			}
		}
	}
}

func c11Matchers(m *vk.Monitor) {
	r := vk.NewRand(0xC11)
	o := &c11Oracle{re: map[string]*regexp.Regexp{}}
	log := c11Logger()
	synth := c11Synth(vk.NewRand(0xC11A), vk.Scale(20000, 120000))
	ncases := vk.Scale(60, 600)
	sizeCycle := []int{1, 2, 10, 1, 3, 2, 1000, 5, 1, 2, 7, 10, 4, 2, 1, 64, 3, 10, 1, 300}
	for ci := 0; ci < ncases; ci++ {
		nsets := 2 + r.IntN(7)
		sizes := make([]int, nsets)
		for i := range sizes {
			sizes[i] = sizeCycle[(ci*5+i)%len(sizeCycle)]
		}
		c11RunCase(m, r, c11GenCase(r, synth, sizes, nsets), o, log)
	}
	// fixed hand-written shapes of the statement (always part of the run)
	hand := &c11Case{BitLen: 1024, Sets: []c11Set{
		{Bit: 0, Adds: []c11Add{{Kind: "suffix", Patterns: []string{"example.com"}, cores: []string{"example.com"}}}},
		{Bit: 31, Adds: []c11Add{{Kind: "suffix", Patterns: []string{".example.com"}, cores: []string{"example.com"}}}},
		{Bit: 32, Adds: []c11Add{{Kind: "full", Patterns: []string{"example.com"}, cores: []string{"example.com"}}}},
		{Bit: 63, Adds: []c11Add{{Kind: "keyword", Patterns: []string{"example"}, cores: []string{"example.com"}}}},
		{Bit: 64, Adds: []c11Add{{Kind: "regex", Patterns: []string{`^ex[a-z]+\.com$`}, cores: []string{"example.com"}}}},
		{Bit: 1023, Adds: []c11Add{{Kind: "suffix", Patterns: []string{"com", "a*b.com", "_https._tcp.a-b.com"}, cores: []string{"com", "ab.com", "_https._tcp.a-b.com"}}}},
	}}
	c11RunCase(m, r, hand, o, log)
	// programs that use (nearly) every match-set slot: Build() constructs the sets of a matcher with
	// several workers at once; every single set must still answer for its own patterns afterwards
	for i := 0; i < vk.Scale(5, 40); i++ {
		nsets := []int{1024, 700, 257, 1024, 64}[i%5]
		sizes := make([]int, nsets)
		for k := range sizes {
			sizes[k] = 1 + r.IntN(2)
		}
		c11RunCase(m, r, c11GenCaseKinds(r, synth, sizes, nsets, []string{"suffix", "keyword", "full", "suffix", "keyword"}), o, log)
		m.Count("wide_programs_cases", 1)
	}
	// one geosite-sized-ish set in every tier: rank/select entries wider than 16 bits
	c11RunCase(m, r, c11GenCaseKinds(r, synth, []int{8000, 2}, 2, []string{"suffix", "full", "suffix"}), o, log)
	if vk.Thorough() {
		for i := 0; i < 6; i++ {
			sizes := []int{50000, 2, 10, 1}
			if i%2 == 1 {
				sizes = []int{3, 50000, 1000, 50000}
			}
			c11RunCase(m, r, c11GenCaseKinds(r, synth, sizes, len(sizes), []string{"suffix", "full", "suffix", "suffix", "keyword"}), o, log)
			m.Count("sets_size_50000_cases", 1)
		}
	}
	c11Recorded(m, o, log)
	m.Count("skip_bad_pattern_warnings_logged", atomic.LoadInt64(&c11SkipWarnings))
}

// c11Recorded: inputs the statement does not speak about. Counted, never judged.
func c11Recorded(m *vk.Monitor, o *c11Oracle, log *logrus.Logger) {
	names := []string{"", "a", "a.com", "x.a.com", "xa.com", "a.company"}
	probe := func(tag, kind, p string) {
		c := &c11Case{BitLen: 1024, Sets: []c11Set{{Bit: 5, Adds: []c11Add{{Kind: kind, Patterns: []string{p}}}}}}
		am, err, pan := c11Build(c, log)
		if pan != nil {
			m.Count("unjudged/"+tag+"/build-panic", 1)
			return
		}
		if err != nil {
			m.Count("unjudged/"+tag+"/build-error", 1)
			return
		}
		for _, n := range names {
			bm, pan := c11Match(am, n)
			if pan != nil {
				m.Count("unjudged/"+tag+"/match-panic", 1)
				continue
			}
			if c11Bit(bm, 5) == o.pat(kind, p, c11Norm(n)) {
				m.Count("unjudged/"+tag+"/agrees-with-literal-reading", 1)
			} else {
				m.Count("unjudged/"+tag+"/differs-from-literal-reading", 1)
			}
		}
	}
	probe("empty-full-pattern", "full", "")
	probe("empty-suffix-pattern", "suffix", "")
	probe("empty-keyword-pattern", "keyword", "")
	probe("uppercase-keyword-pattern", "keyword", "A.Com")
	probe("keyword-with-caret-anchor", "keyword", "^a.com")
	probe("keyword-with-dollar-anchor", "keyword", "a.com$")
	probe("keyword-outside-alphabet", "keyword", "a*com")
}

// ---------------------------------------------------------------------------
// part B: pkg/trie directly
// ---------------------------------------------------------------------------

func c11TrieBrute(keys []string, w string) bool {
	for _, k := range keys {
		if strings.HasPrefix(w, k) {
			return true
		}
	}
	return false
}

func c11TrieNodes(keys []string) int {
	seen := map[string]bool{"": true}
	for _, k := range keys {
		for i := 1; i <= len(k); i++ {
			seen[k[:i]] = true
		}
	}
	return len(seen)
}

func c11TrieBuild(keys []string, chars *trie.ValidChars) (t *trie.Trie, err error, pan any) {
	defer func() {
		if r := recover(); r != nil {
			pan = r
		}
	}()
	t, err = trie.NewTrie(append([]string(nil), keys...), chars)
	return t, err, nil
}

func c11TrieQuery(t *trie.Trie, w string) (got bool, pan any) {
	defer func() {
		if r := recover(); r != nil {
			pan = r
		}
	}()
	return t.HasPrefix(w), nil
}

// c11TrieBad: true if (keys, w) still shows a disagreement or crash.
func c11TrieBad(keys []string, chars *trie.ValidChars, w string) bool {
	if len(keys) == 0 {
		return false
	}
	t, err, pan := c11TrieBuild(keys, chars)
	if pan != nil || err != nil {
		return true
	}
	got, pan := c11TrieQuery(t, w)
	return pan != nil || got != c11TrieBrute(keys, w)
}

func c11TrieMin(keys []string, chars *trie.ValidChars, w string) []string {
	cur := append([]string(nil), keys...)
	budget := 3000
	for chunk := (len(cur) + 1) / 2; chunk >= 1 && budget > 0; {
		removed := false
		for i := 0; i < len(cur) && len(cur) > 1 && budget > 0; {
			j := min(i+chunk, len(cur))
			l := append(append([]string(nil), cur[:i]...), cur[j:]...)
			budget--
			if c11TrieBad(l, chars, w) {
				cur, removed = l, true
			} else {
				i = j
			}
		}
		if chunk == 1 {
			if !removed {
				break
			}
			continue
		}
		chunk = (chunk + 1) / 2
	}
	return cur
}

func c11TrieCheck(m *vk.Monitor, r *rand.Rand, keys []string, chars *trie.ValidChars, alpha string, sub string, shape string) {
	m.Count("trie_cases", 1)
	m.Count("trie_shape_"+shape, 1)
	nodes := c11TrieNodes(keys)
	bitlen := 2*nodes - 1 // one 0 per label (= nodes-1) and one 1 per node
	switch bitlen & 63 {
	case 63, 1:
		m.Count("trie_label_bitmap_length_at_word_edge", 1)
	}
	switch nodes & 63 {
	case 63, 0, 1:
		m.Count("trie_node_count_at_word_edge", 1)
	}
	if nodes > 64 {
		m.Count("trie_select_index_has_several_entries", 1)
	}
	t, err, pan := c11TrieBuild(keys, chars)
	if pan != nil {
		m.Violation("trie/panic-build", fmt.Sprintf("NewTrie panicked: %v", pan), map[string]any{"keys": keys, "alphabet": alpha, "panic": fmt.Sprint(pan)})
		return
	}
	if err != nil {
		m.Violation("trie/build-error", fmt.Sprintf("NewTrie failed on keys inside its alphabet: %v", err), map[string]any{"keys": keys, "alphabet": alpha})
		return
	}
	var words []string
	pickKeys := keys
	if len(keys) > 60 {
		pickKeys = nil
		for i := 0; i < 60; i++ {
			pickKeys = append(pickKeys, keys[r.IntN(len(keys))])
		}
	}
	rc := func() string { return string(sub[r.IntN(len(sub))]) }
	for _, k := range pickKeys {
		words = append(words, k, k+rc(), k+rc()+rc()+rc())
		if len(k) > 0 {
			words = append(words, k[:len(k)-1])
			i := r.IntN(len(k))
			words = append(words, k[:i]+rc()+k[i+1:], k[:i])
		}
	}
	for i := 0; i < 20; i++ {
		var b strings.Builder
		for k := r.IntN(12); k > 0; k-- {
			b.WriteString(rc())
		}
		words = append(words, b.String())
	}
	words = append(words, "")
	for _, w := range words {
		got, pan := c11TrieQuery(t, w)
		want := c11TrieBrute(keys, w)
		m.Eval(1)
		if want {
			m.Count("trie_oracle_hasprefix_true", 1)
		} else {
			m.Count("trie_oracle_hasprefix_false", 1)
		}
		m.Distinct(fmt.Sprintf("trie|%s|%s|%v|n%d|w%d", alpha, shape, want, min(len(keys), 40), min(len(w), 12)))
		if pan == nil && got == want {
			continue
		}
		sig, what := "trie/fp", fmt.Sprintf("HasPrefix(%q)=true but no key is a prefix", w)
		if pan != nil {
			sig, what = "trie/panic-query", fmt.Sprintf("HasPrefix(%q) panicked: %v", w, pan)
		} else if want {
			sig, what = "trie/fn", fmt.Sprintf("HasPrefix(%q)=false but a key is a prefix of it", w)
		}
		mk := keys
		if m.Violations() < 5 {
			mk = c11TrieMin(keys, chars, w)
		}
		m.Violation(sig, what, map[string]any{"keys": mk, "word": w, "alphabet": alpha, "original_keys": len(keys), "shape": shape,
			"nodes": c11TrieNodes(mk), "label_bitmap_bits": 2*c11TrieNodes(mk) - 1})
		return
	}
	// words with bytes outside the alphabet: recorded only
	for _, w := range []string{"A", keys[0] + "*", "*" + keys[0]} {
		got, pan := c11TrieQuery(t, w)
		if pan != nil || got != c11TrieBrute(keys, w) {
			m.Count("trie_outside_alphabet_word_disagreements_unjudged", 1)
		}
	}
}

const c11DomainAlpha = "0123456789abcdefghijklmnopqrstuvwxyz-.^_"

func c11Tries(m *vk.Monitor) {
	r := vk.NewRand(0xC11B)
	n := vk.Scale(500, 8000)
	randKey := func(sub string, minLen, maxLen int) string {
		var b strings.Builder
		for k := minLen + r.IntN(maxLen-minLen+1); k > 0; k-- {
			b.WriteByte(sub[r.IntN(len(sub))])
		}
		return b.String()
	}
	subAlpha := func(alpha string, k int) string {
		var b strings.Builder
		for i := 0; i < k; i++ {
			b.WriteByte(alpha[r.IntN(len(alpha))])
		}
		return b.String()
	}
	for i := 0; i < n; i++ {
		chars, alpha, an := ValidDomainChars, c11DomainAlpha, "domain"
		if i%4 == 3 {
			chars, alpha, an = trie.ValidCidrChars, "01", "cidr"
		}
		switch i % 7 {
		case 0, 1: // dense random keys over a tiny sub-alphabet
			sub := subAlpha(alpha, 2+r.IntN(3))
			var keys []string
			for k := 1 + r.IntN(120); k > 0; k-- {
				keys = append(keys, randKey(sub, 1+r.IntN(4), 12))
			}
			c11TrieCheck(m, r, keys, chars, an, sub, "dense")
		case 2: // one long chain: node count and bitmap length land on chosen values
			l := []int{30, 31, 32, 33, 62, 63, 64, 65, 126, 127, 128, 129, 190, 191, 192, 193}[r.IntN(16)]
			sub := subAlpha(alpha, 2)
			keys := []string{randKey(sub, 1, 1) + strings.Repeat(string(sub[0]), l-1)}
			if r.IntN(2) == 0 {
				keys = append(keys, keys[0][:1+r.IntN(l)])
			}
			c11TrieCheck(m, r, keys, chars, an, sub, "chain")
		case 3: // wide nodes: many labels under one node
			var keys []string
			for a := 0; a < len(alpha); a++ {
				if r.IntN(4) == 0 {
					continue
				}
				if r.IntN(3) == 0 {
					keys = append(keys, alpha[a:a+1])
				}
				for b := 0; b < len(alpha); b++ {
					if r.IntN(3) == 0 {
						keys = append(keys, alpha[a:a+1]+alpha[b:b+1]+randKey(alpha, 1, 2))
					}
				}
			}
			if len(keys) == 0 {
				keys = []string{alpha[:1]}
			}
			c11TrieCheck(m, r, keys, chars, an, alpha, "wide")
		case 4: // exactly the keys the matcher writes (reversed, ^ / . markers)
			if an == "cidr" {
				// shared-prefix bit strings, as NewTrieFromPrefixes writes them
				base := []string{randKey("01", 1, 128) + strings.Repeat("0", 128), randKey("01", 1, 128) + strings.Repeat("1", 128)}
				var keys []string
				for k := 1 + r.IntN(60); k > 0; k-- {
					keys = append(keys, base[r.IntN(2)][:1+r.IntN(128)])
				}
				c11TrieCheck(m, r, keys, chars, an, "01", "cidr-prefixes")
				continue
			}
			var keys []string
			for k := 1 + r.IntN(80); k > 0; k-- {
				nm := c11SmallName(r)
				switch r.IntN(3) {
				case 0:
					keys = append(keys, c11Reverse("^"+nm))
				case 1:
					keys = append(keys, c11Reverse("."+nm))
				default:
					keys = append(keys, c11Reverse("."+nm), c11Reverse("^"+nm))
				}
			}
			c11TrieCheck(m, r, keys, chars, an, "ab.-_01x^", "matcher-keys")
		default: // incremental sweep: every prefix of a key list is its own set, so the packed lengths pass through every value
			sub := subAlpha(alpha, 2+r.IntN(2))
			var keys []string
			steps := 40 + r.IntN(60)
			for k := 0; k < steps; k++ {
				keys = append(keys, randKey(sub, 2, 9))
				if k%3 == 2 || k > steps-8 {
					c11TrieCheck(m, r, keys, chars, an, sub, "sweep")
				}
			}
		}
	}
	// one big trie per run so that the select index has many entries
	{
		var keys []string
		for k := vk.Scale(6000, 60000); k > 0; k-- {
			keys = append(keys, randKey("ab.-0", 4, 14))
		}
		c11TrieCheck(m, r, keys, ValidDomainChars, "domain", "ab.-0", "big")
	}
	// outside the statement, recorded: the empty key set (the matcher never builds one)
	if _, _, pan := c11TrieBuild(nil, ValidDomainChars); pan != nil {
		m.Count("trie_empty_keyset_panics_unjudged", 1)
	}
}

// ---------------------------------------------------------------------------
// part C: common/bitlist directly
// ---------------------------------------------------------------------------

func c11Bitlists(m *vk.Monitor) {
	r := vk.NewRand(0xC11C)
	n := vk.Scale(600, 10000)
	for i := 0; i < n; i++ {
		ubs := 1 + i%40 // the trie uses 1..32 (labels: 2 or 6 bits; rank/select: Len64 of an int32)
		cnt := 1 + r.IntN(300)
		if i%9 == 0 {
			cnt = []int{1, 2, 15, 16, 17, 31, 32, 33, 63, 64, 65, 127, 128, 129}[r.IntN(14)]
		}
		var mask uint64 = 1<<uint(ubs) - 1
		vals := make([]uint64, cnt)
		mode := r.IntN(5)
		for k := range vals {
			switch mode {
			case 0:
				vals[k] = mask
			case 1:
				vals[k] = uint64(k) & mask // monotone like ranks
			case 2:
				if k%2 == 0 {
					vals[k] = mask
				}
			default:
				vals[k] = r.Uint64() & mask
			}
		}
		judged := ubs <= 32
		m.Count("bitlist_cases", 1)
		bad := func() (idx int, got uint64, pan any, phase string) {
			defer func() {
				if rr := recover(); rr != nil {
					pan = rr
				}
			}()
			bl := bitlist.NewCompactBitList(ubs)
			for _, v := range vals {
				bl.Append(v)
			}
			for _, phase = range []string{"before-tighten", "after-tighten"} {
				for k, v := range vals {
					if g := bl.Get(k); g != v {
						return k, g, nil, phase
					}
				}
				bl.Tighten()
			}
			return -1, 0, nil, ""
		}
		idx, got, pan, phase := bad()
		m.Eval(1)
		m.Distinct(fmt.Sprintf("bitlist|%d|%d|%d", ubs, mode, min(cnt, 20)))
		if idx < 0 && pan == nil {
			continue
		}
		if !judged {
			m.Count("bitlist_unit_over_32_bits_disagreements_unjudged", 1)
			continue
		}
		if pan != nil {
			m.Violation("bitlist/panic", fmt.Sprintf("CompactBitList(%d bits) Append/Get panicked: %v", ubs, pan), map[string]any{"unit_bits": ubs, "values": vals, "panic": fmt.Sprint(pan)})
			continue
		}
		m.Violation("bitlist/get-mismatch", fmt.Sprintf("CompactBitList(%d bits): Get(%d)=%d after Append of %d (%s)", ubs, idx, got, vals[idx], phase),
			map[string]any{"unit_bits": ubs, "values": vals, "index": idx, "got": got, "want": vals[idx], "phase": phase})
	}
}

// ---------------------------------------------------------------------------

func TestVerifC11(t *testing.T) {
	m := vk.NewMonitor("C11", "", "exploration",
		"a case = (pattern set, queried name) decided by brute force from the statement. Matcher: sets of size 1..1000 (thorough 50000) of full/suffix/.suffix/keyword/regex patterns over a small shared label pool and a seeded synthetic geosite-like list, at bit indices 0..1023, queried with names derived from their own patterns (equal, +-label, +-char, glued, case, trailing dot, long, empty). Distinct = (pattern kind, relation of name to pattern, brute-force outcome and deciding kind, set-size class, AddSet calls on the index); every counted case has at least one pattern, so none is trivial. Trie/bitlist cases are distinct by (alphabet, shape, outcome, sizes).")
	m.SetFloor(200)
	m.Assume("oracle: strings.{ToLower,TrimSuffix,HasSuffix,Contains}, == and regexp.MatchString, as the statement spells the four kinds",
		"names are made of letters, digits, '-', '_', '.'; patterns are lower-case (upper-case full/suffix patterns and names/keywords outside the alphabet are recorded, not judged)",
		"keyword patterns contain no '^'/'$' (the automaton's anchors) and no byte outside letters digits - _ .",
		"regex semantics are Go regexp's own (the oracle uses the same package on the lower-cased, dot-trimmed name)")
	c11Matchers(m)
	c11Tries(m)
	c11Bitlists(m)
	m.Require("oracle_match_full", "oracle_match_suffix", "oracle_match_suffix-dot", "oracle_match_keyword", "oracle_match_regex", "oracle_nomatch",
		"rel/equal/match", "rel/sub-name/match", "rel/sub-name/nomatch", "rel/glued-prefix/match", "rel/glued-prefix/nomatch", "rel/super-name/nomatch",
		"rel/case-flipped/match", "rel/trailing-dot/match", "rel/double-trailing-dot/nomatch", "rel/empty", "rel/very-long", "rel/long-sub-name/match",
		"sets_size_1", "sets_size_2", "sets_size_le10", "sets_size_le1000", "sets_size_ge1000", "sets_several_addset_calls_one_bit",
		"bit_0", "bit_31", "bit_32", "bit_63", "bit_64", "bit_1023",
		"patterns_outside_alphabet_generated", "skip_bad_pattern_warnings_logged",
		"trie_cases", "trie_label_bitmap_length_at_word_edge", "trie_node_count_at_word_edge", "trie_select_index_has_several_entries",
		"trie_oracle_hasprefix_true", "trie_oracle_hasprefix_false", "bitlist_cases")
	if vk.Thorough() {
		m.Require("sets_size_50000_cases", "sets_size_gt1000")
	}
	m.Done(t)
}
