package daedns

// C07 (part daedns): dae resolves the hosts of its own nodes / subscriptions
// through component/daedns (resolvingDialer -> Router.LookupIPAddr). Every
// question such a lookup asks (A, AAAA or both, depending on the dial network)
// must be SENT to the upstream named by the first matching request rule for
// THAT question (name pattern, query type) or by the request fallback -
// whatever the same Router instance was asked before (same name with another
// qtype, another spelling of the name, the same question again).
//
// Observed: which of the scripted loopback DNS servers (one per configured
// upstream, UDP and TCP on one port) received which question, and the
// addresses the lookup returned (each server answers with addresses that name
// the server). Oracle: verifkit.RefDnsRequest on the rules as written.

import (
	"context"
	"encoding/binary"
	"fmt"
	"io"
	"net"
	"net/netip"
	"sort"
	"strings"
	"sync"
	"testing"
	"time"

	"github.com/daeuniverse/dae/common"
	"github.com/daeuniverse/dae/config"
	"github.com/daeuniverse/dae/pkg/config_parser"
	vk "github.com/daeuniverse/dae/verifkit"
	"github.com/daeuniverse/outbound/netproxy"
	dnsmessage "github.com/miekg/dns"
	"github.com/sirupsen/logrus"
)

type c07Seen struct {
	Srv   int    `json:"server"`
	Name  string `json:"name"`
	Qtype uint16 `json:"qtype"`
	Proto string `json:"proto"`
}

type c07Log struct {
	mu   sync.Mutex
	seen []c07Seen
}

func (l *c07Log) add(s c07Seen) {
	l.mu.Lock()
	l.seen = append(l.seen, s)
	l.mu.Unlock()
}

func (l *c07Log) take() []c07Seen {
	l.mu.Lock()
	defer l.mu.Unlock()
	out := l.seen
	l.seen = nil
	return out
}

type c07Srv struct {
	idx  int
	port int
	pc   net.PacketConn
	ln   net.Listener
	log  *c07Log
}

func c07SrvA(idx int) netip.Addr { return netip.AddrFrom4([4]byte{198, 51, 100, byte(10 + idx)}) }
func c07SrvAAAA(idx int) netip.Addr {
	return netip.MustParseAddr(fmt.Sprintf("2001:db8:c07::%x", 10+idx))
}

func (s *c07Srv) reply(wire []byte, proto string) []byte {
	var req dnsmessage.Msg
	if err := req.Unpack(wire); err != nil || len(req.Question) == 0 {
		return nil
	}
	q := req.Question[0]
	s.log.add(c07Seen{Srv: s.idx, Name: q.Name, Qtype: q.Qtype, Proto: proto})
	resp := new(dnsmessage.Msg)
	resp.SetReply(&req)
	resp.RecursionAvailable = true
	h := dnsmessage.RR_Header{Name: q.Name, Rrtype: q.Qtype, Class: dnsmessage.ClassINET, Ttl: 60}
	switch q.Qtype {
	case dnsmessage.TypeA:
		resp.Answer = []dnsmessage.RR{&dnsmessage.A{Hdr: h, A: net.IP(c07SrvA(s.idx).AsSlice())}}
	case dnsmessage.TypeAAAA:
		resp.Answer = []dnsmessage.RR{&dnsmessage.AAAA{Hdr: h, AAAA: net.IP(c07SrvAAAA(s.idx).AsSlice())}}
	}
	out, err := resp.Pack()
	if err != nil {
		return nil
	}
	return out
}

func (s *c07Srv) serveUDP() {
	buf := make([]byte, 4096)
	for {
		n, remote, err := s.pc.ReadFrom(buf)
		if err != nil {
			return
		}
		if out := s.reply(append([]byte(nil), buf[:n]...), "udp"); out != nil {
			_, _ = s.pc.WriteTo(out, remote)
		}
	}
}

func (s *c07Srv) serveTCP() {
	for {
		conn, err := s.ln.Accept()
		if err != nil {
			return
		}
		go func() {
			defer conn.Close()
			for {
				var l [2]byte
				if _, err := io.ReadFull(conn, l[:]); err != nil {
					return
				}
				wire := make([]byte, binary.BigEndian.Uint16(l[:]))
				if _, err := io.ReadFull(conn, wire); err != nil {
					return
				}
				out := s.reply(wire, "tcp")
				if out == nil {
					return
				}
				frame := make([]byte, 2+len(out))
				binary.BigEndian.PutUint16(frame, uint16(len(out)))
				copy(frame[2:], out)
				if _, err := conn.Write(frame); err != nil {
					return
				}
			}
		}()
	}
}

func (s *c07Srv) stop() {
	_ = s.pc.Close()
	_ = s.ln.Close()
}

func c07StartSrv(idx int, log *c07Log) (*c07Srv, error) {
	var last error
	for try := 0; try < 30; try++ {
		ln, err := net.Listen("tcp4", "127.0.0.1:0")
		if err != nil {
			last = err
			continue
		}
		port := ln.Addr().(*net.TCPAddr).Port
		pc, err := net.ListenPacket("udp4", fmt.Sprintf("127.0.0.1:%d", port))
		if err != nil {
			last = err
			_ = ln.Close()
			continue
		}
		s := &c07Srv{idx: idx, port: port, pc: pc, ln: ln, log: log}
		go s.serveUDP()
		go s.serveTCP()
		return s, nil
	}
	return nil, last
}

// c07Base is the dialer under the resolvingDialer: questions the request rules pass through
// (asis / reject) end up here.
type c07Base struct {
	mu    sync.Mutex
	calls int
}

func (b *c07Base) DialContext(ctx context.Context, network, addr string) (netproxy.Conn, error) {
	return nil, fmt.Errorf("verif: base dialer does not dial")
}

func (b *c07Base) LookupIPAddr(ctx context.Context, network, host string) ([]net.IPAddr, error) {
	b.mu.Lock()
	b.calls++
	b.mu.Unlock()
	return []net.IPAddr{{IP: net.IPv4(203, 0, 113, 99)}}, nil
}

func c07CaseMix(s string, r interface{ IntN(int) int }) string {
	b := []byte(s)
	for i := range b {
		if b[i] >= 'a' && b[i] <= 'z' && r.IntN(2) == 0 {
			b[i] -= 32
		}
	}
	return string(b)
}

// c07WireName: the host can be put on the wire as a question name (decided with the DNS library,
// not with dae).
func c07WireName(host string) bool {
	if host == "" || host == "." || strings.ContainsAny(host, " \t\\\"()@;$") {
		return false
	}
	if _, err := netip.ParseAddr(host); err == nil {
		return false
	}
	if _, ok := dnsmessage.IsDomainName(host); !ok {
		return false
	}
	var m dnsmessage.Msg
	m.SetQuestion(dnsmessage.Fqdn(host), dnsmessage.TypeA)
	_, err := m.Pack()
	return err == nil
}

func c07SameName(wire, host string) bool {
	return strings.EqualFold(strings.TrimSuffix(wire, "."), strings.TrimSuffix(host, "."))
}

type c07Step struct {
	Host    string   `json:"host"`
	Network string   `json:"network"` // readable form
	Via     string   `json:"via"`     // router | node-dialer
	Types   []uint16 `json:"qtypes"`
	Want    []string `json:"reference"` // per qtype: upstream tag | asis | reject
	Seen    []string `json:"observed_questions"`
	Addrs   []string `json:"returned"`
	Err     string   `json:"error,omitempty"`
}

func TestVerifC07Daedns(t *testing.T) {
	m := vk.NewMonitor("C07", "daedns", "exploration",
		"generated dns sections (text, upstream links rewritten to scripted loopback servers) -> config_parser -> config.New -> daedns.NewWithOption; per Router a HISTORY of own-host lookups "+
			"(Router.LookupIPAddr directly or through the resolvingDialer of WrapNodeDialer) over a pool of 2-3 hosts x spellings (case, trailing dot) x dial networks (dual stack, v4 only, v6 only, plain and magic-encoded); "+
			"every question a server receives is compared with the reference first-match decision for (name, qtype) of that question alone; "+
			"distinct = (reference decisions of the A and AAAA question of the host, family asked, what the same Router was asked before about this host); non-trivial = the host was asked before or the two qtypes are decided differently")
	m.SetFloor(20)
	m.Assume("reference interpreter verifkit.RefDnsRequest is the documented first-match semantics; internal selectors sub/node/subnode never decide a lookup made without a selector match",
		"scripted upstreams are real UDP+TCP DNS servers on 127.0.0.1 (one port per configured upstream); a question that reaches none of them within the lookup's 5 s watchdog is counted ambiguous, never judged",
		"a question the rules route to asis / reject names no upstream: the only judgement is that no configured upstream receives it")

	qlog := logrus.New()
	qlog.SetOutput(io.Discard)
	r := vk.NewRand(0xC07D)
	gen := &vk.DGen{R: r, Internal: true, LongReq: 8}

	rec := &c07Log{}
	var srvs []*c07Srv
	for i := 0; i < 5; i++ {
		s, err := c07StartSrv(i, rec)
		if err != nil {
			m.Inconclusive("cannot start scripted loopback DNS server %d: %v", i, err)
			m.Done(t)
			return
		}
		defer s.stop()
		srvs = append(srvs, s)
	}

	type netw struct {
		show string
		arg  string
		fam  string // "", "4", "6"
	}
	networks := []netw{
		{"tcp", "tcp", ""}, {"udp", "udp", ""}, {"tcp", "tcp", ""},
		{"tcp4", "tcp4", "4"}, {"tcp6", "tcp6", "6"}, {"udp4", "udp4", "4"}, {"udp6", "udp6", "6"},
		{"magic(tcp)", common.MagicNetworkWithIPVersion("tcp", 0x77, false, ""), ""},
		{"magic(tcp,4)", common.MagicNetworkWithIPVersion("tcp", 0x77, false, "4"), "4"},
		{"magic(udp,6)", common.MagicNetworkWithIPVersion("udp", 0, false, "6"), "6"},
	}

	nprog := vk.Scale(500, 12000)
	nsteps := vk.Scale(9, 12)
	for i := 0; i < nprog && m.Violations() < 5; i++ {
		p := gen.Gen()
		for k := range p.Upstreams {
			scheme := "udp"
			if strings.HasPrefix(p.Upstreams[k].Link, "tcp") {
				scheme = "tcp"
			}
			p.Upstreams[k].Host = "127.0.0.1"
			p.Upstreams[k].Link = fmt.Sprintf("%s://127.0.0.1:%d", scheme, srvs[k].port)
		}
		text := "global {}\nrouting {\n    fallback: direct\n}\n" + p.Text()
		var router *Router
		err := func() (err error) {
			defer func() {
				if rec := recover(); rec != nil {
					err = fmt.Errorf("PANIC: %v", rec)
				}
			}()
			sections, err := config_parser.Parse(text)
			if err != nil {
				return err
			}
			conf, err := config.New(sections)
			if err != nil {
				return err
			}
			router, err = NewWithOption(qlog, &conf.Global, &conf.Dns, nil)
			return err
		}()
		if err != nil {
			m.Violation("daedns-build-error", "well-formed generated dns section rejected or crashed by the daedns router: "+err.Error(), map[string]any{"text": text})
			continue
		}
		if router == nil || router.requestMatcher == nil {
			m.Count("programs_without_router", 1)
			continue
		}
		m.Count("programs", 1)
		tag2srv := map[string]int{}
		for k, u := range p.Upstreams {
			tag2srv[u.Tag] = k
		}
		tagOf := func(srv int) string {
			if srv < len(p.Upstreams) {
				return p.Upstreams[srv].Tag
			}
			return fmt.Sprintf("(server %d, not configured)", srv)
		}

		// host pool: names derived from the program's constants; prefer a host whose A and AAAA
		// questions are decided differently
		var pool []string
		var split []string
		seenHost := map[string]bool{}
		for _, q := range vk.DProbeQuestions(p, r, 40) {
			h := strings.ToLower(strings.TrimSuffix(q.Name, "."))
			if seenHost[h] || !c07WireName(h) {
				continue
			}
			seenHost[h] = true
			a, _ := vk.RefDnsRequest(p, vk.DQuestion{Name: h, Qtype: dnsmessage.TypeA})
			b, _ := vk.RefDnsRequest(p, vk.DQuestion{Name: h, Qtype: dnsmessage.TypeAAAA})
			if a != b {
				split = append(split, h)
			} else {
				pool = append(pool, h)
			}
		}
		hosts := split
		if len(hosts) > 2 {
			hosts = hosts[:2]
		}
		for len(hosts) < 3 && len(pool) > 0 {
			hosts = append(hosts, pool[0])
			pool = pool[1:]
		}
		if len(hosts) == 0 {
			continue
		}

		base := &c07Base{}
		meta := NodeMeta{Name: "verif-node", Link: "verif://node"}
		var wrapped interface {
			LookupIPAddr(context.Context, string, string) ([]net.IPAddr, error)
		}
		if _, ok := router.MatchNodeUpstream(meta); !ok {
			if d, err := router.WrapNodeDialer(base, meta); err == nil {
				if l, ok := d.(interface {
					LookupIPAddr(context.Context, string, string) ([]net.IPAddr, error)
				}); ok {
					wrapped = l
				}
			}
		}

		asked := map[string]map[uint16]bool{} // canonical host -> qtypes asked so far on this Router
		var history []c07Step
		for s := 0; s < nsteps; s++ {
			h := hosts[r.IntN(len(hosts))]
			spelled := h
			switch r.IntN(4) {
			case 0:
				spelled = strings.ToUpper(h)
			case 1:
				spelled = c07CaseMix(h, r)
			}
			if r.IntN(3) == 0 {
				spelled += "."
			}
			nw := networks[r.IntN(len(networks))]
			var types []uint16
			switch nw.fam {
			case "4":
				types = []uint16{dnsmessage.TypeA}
			case "6":
				types = []uint16{dnsmessage.TypeAAAA}
			default:
				types = []uint16{dnsmessage.TypeA, dnsmessage.TypeAAAA}
			}
			want := map[uint16]string{}
			step := c07Step{Host: spelled, Network: nw.show, Via: "router", Types: types}
			for _, ty := range types {
				want[ty], _ = vk.RefDnsRequest(p, vk.DQuestion{Name: spelled, Qtype: ty})
				step.Want = append(step.Want, want[ty])
			}

			rec.take()
			baseBefore := base.calls
			ctx, cancel := context.WithTimeout(context.Background(), 5*time.Second)
			var ips []net.IPAddr
			var lerr error
			func() {
				defer func() {
					if rc := recover(); rc != nil {
						lerr = fmt.Errorf("PANIC: %v", rc)
					}
				}()
				if wrapped != nil && r.IntN(2) == 0 {
					step.Via = "node-dialer"
					ips, lerr = wrapped.LookupIPAddr(ctx, nw.arg, spelled)
				} else {
					ips, lerr = router.LookupIPAddr(ctx, "", nw.arg, spelled)
				}
			}()
			timedOut := ctx.Err() != nil
			cancel()
			if timedOut {
				// let a late datagram of this lookup arrive before the next lookup is observed
				time.Sleep(300 * time.Millisecond)
			}
			seen := rec.take()
			for _, sn := range seen {
				step.Seen = append(step.Seen, fmt.Sprintf("%s<-%s/%d(%s)", tagOf(sn.Srv), sn.Name, sn.Qtype, sn.Proto))
			}
			for _, ip := range ips {
				step.Addrs = append(step.Addrs, ip.IP.String())
			}
			if lerr != nil {
				step.Err = lerr.Error()
			}
			history = append(history, step)
			m.Eval(1)
			m.Count("lookups", 1)
			m.Count("lookups_via_"+step.Via, 1)

			// what this Router was asked before about this host
			prior := "fresh"
			if before := asked[h]; before != nil {
				other, same := false, false
				for _, ty := range types {
					if before[ty] {
						same = true
					}
				}
				for ty := range before {
					if _, mine := want[ty]; !mine {
						other = true
					}
				}
				switch {
				case other && same:
					prior = "after-both"
				case other:
					prior = "after-other-qtype"
				default:
					prior = "after-same-qtype"
				}
			}
			wa, _ := vk.RefDnsRequest(p, vk.DQuestion{Name: h, Qtype: dnsmessage.TypeA})
			w6, _ := vk.RefDnsRequest(p, vk.DQuestion{Name: h, Qtype: dnsmessage.TypeAAAA})
			kind := func(o string) string {
				if o == "asis" || o == "reject" {
					return o
				}
				return "up"
			}
			splitHost := wa != w6
			if prior != "fresh" || splitHost {
				m.Distinct(fmt.Sprintf("%s/%s|same=%v|fam=%s|%s", kind(wa), kind(w6), !splitHost, nw.fam, prior))
			}
			m.Count("lookups_"+prior, 1)
			if splitHost {
				m.Count("lookups_host_whose_qtypes_are_routed_differently", 1)
				if len(types) == 2 {
					m.Count("dual_stack_lookups_with_qtype_dependent_routing", 1)
				}
				if prior == "after-other-qtype" || prior == "after-both" {
					m.Count("lookups_after_other_qtype_with_qtype_dependent_routing", 1)
				}
			}
			if spelled != h && prior != "fresh" {
				m.Count("lookups_respelled_after_earlier_lookup", 1)
			}
			if asked[h] == nil {
				asked[h] = map[uint16]bool{}
			}
			for _, ty := range types {
				asked[h][ty] = true
			}

			wit := func() map[string]any {
				return map[string]any{"text": p.Text(), "history_on_this_router": history}
			}
			if lerr != nil && strings.HasPrefix(lerr.Error(), "PANIC") {
				m.Violation("daedns/panic", "own-host lookup panicked: "+lerr.Error(), wit())
				break
			}
			// (1) every question an upstream received is the lookup's own question and reached the
			//     upstream the reference names for it
			got := map[uint16][]int{}
			bad := false
			for _, sn := range seen {
				w, mine := want[sn.Qtype]
				switch {
				case !mine || !c07SameName(sn.Name, spelled):
					m.Violation("daedns/foreign-question", fmt.Sprintf("upstream %s received question %q type %d which the lookup of %q over %s does not ask", tagOf(sn.Srv), sn.Name, sn.Qtype, spelled, nw.show), wit())
					bad = true
				case sn.Srv >= len(p.Upstreams) || p.Upstreams[sn.Srv].Tag != w:
					sig := "daedns/question-sent-to-wrong-upstream/" + prior
					if w == "asis" || w == "reject" {
						sig = "daedns/passthrough-question-sent-to-upstream/" + prior
					}
					m.Violation(sig, fmt.Sprintf("question %q type %d was sent to upstream %s; the first matching request rule says %s (history on this router: %s)", sn.Name, sn.Qtype, tagOf(sn.Srv), w, prior), wit())
					bad = true
				default:
					got[sn.Qtype] = append(got[sn.Qtype], sn.Srv)
				}
				if bad {
					break
				}
			}
			if bad {
				break
			}
			// (2) the question the reference sends to an upstream did arrive there
			missing := false
			var wantAddrs []string
			passthrough := 0
			for _, ty := range types {
				w := want[ty]
				if w == "asis" || w == "reject" {
					passthrough++
					m.Count("questions_routed_to_"+w+"_no_upstream_asked", 1)
					continue
				}
				m.Count("questions_routed_to_upstream", 1)
				switch n := len(got[ty]); {
				case n == 0:
					missing = true
				case n > 1:
					m.Count("questions_received_more_than_once", 1)
				}
				if ty == dnsmessage.TypeA {
					wantAddrs = append(wantAddrs, c07SrvA(tag2srv[w]).String())
				} else {
					wantAddrs = append(wantAddrs, c07SrvAAAA(tag2srv[w]).String())
				}
			}
			if missing {
				// the router may coalesce a lookup with an identical one it has just finished
				// (same upstream, host, qtype): then no new question is seen; the addresses
				// returned must still be the named upstream's (checked below)
				m.Count("questions_answered_without_new_upstream_query", 1)
				if timedOut || lerr != nil {
					m.Count("ambiguous_lookup_error_or_watchdog", 1)
					break
				}
			}
			m.Count("lookups_judged", 1)
			// (3) addresses handed to the dialer are the named upstreams' answers
			if len(wantAddrs) > 0 {
				gotAddrs := append([]string(nil), step.Addrs...)
				sort.Strings(gotAddrs)
				sort.Strings(wantAddrs)
				if lerr != nil || timedOut {
					m.Count("ambiguous_lookup_error_or_watchdog", 1)
				} else if strings.Join(gotAddrs, ",") != strings.Join(wantAddrs, ",") {
					m.Violation("daedns/answer-not-from-named-upstream", fmt.Sprintf("lookup of %q over %s returned %v; the upstreams named by the request rules answer %v", spelled, nw.show, gotAddrs, wantAddrs), wit())
					break
				} else {
					m.Count("lookups_answer_checked", 1)
				}
			} else if passthrough == len(types) {
				// nothing named: record where the lookup went
				if base.calls > baseBefore {
					m.Count("all_passthrough_lookup_went_to_base_resolver", 1)
				} else {
					m.Count("all_passthrough_lookup_other_outcome", 1)
				}
			}
		}
		if m.WantSample() && len(history) > 0 {
			m.Sample(map[string]any{"text": p.Text(), "history": history})
		}
	}
	m.Require("programs", "lookups_judged", "lookups_answer_checked",
		"lookups_via_router", "lookups_via_node-dialer",
		"dual_stack_lookups_with_qtype_dependent_routing",
		"lookups_after_other_qtype_with_qtype_dependent_routing",
		"lookups_after-same-qtype", "lookups_respelled_after_earlier_lookup",
		"questions_routed_to_upstream", "questions_routed_to_asis_no_upstream_asked", "questions_routed_to_reject_no_upstream_asked")
	m.Done(t)
}
