package daedns

// C04 (part daedns): dae's own-lookup DNS router compiles the DNS request
// rules through its own optimiser pipeline (router.go NewWithOption: dat,
// merge+sort, dedup). Its request matcher must decide ordinary questions like
// the reference interpreter on the rules as written.

import (
	"fmt"
	"io"
	"testing"

	"github.com/daeuniverse/dae/common/consts"
	"github.com/daeuniverse/dae/config"
	"github.com/daeuniverse/dae/pkg/config_parser"
	vk "github.com/daeuniverse/dae/verifkit"
	"github.com/sirupsen/logrus"
)

func TestVerifC04Daedns(t *testing.T) {
	m := vk.NewMonitor("C04", "daedns", "exploration",
		"generated dns sections (text) -> config_parser -> config.New -> daedns.NewWithOption (production optimiser list of router.go) -> Router.requestMatcher.Match vs reference first-match on the request rules as written; distinct = shape of the first two request rules x index of the deciding rule")
	m.SetFloor(30)
	log := logrus.New()
	log.SetOutput(io.Discard)
	r := vk.NewRand(0xC04D)
	gen := &vk.DGen{R: r, Internal: true, RichInternal: true, LongReq: 8}
	nprog := vk.Scale(400, 10000)
	for i := 0; i < nprog && m.Violations() < 5; i++ {
		p := gen.Gen()
		text := "global {}\nrouting {\n    fallback: direct\n}\n" + p.Text()
		var router *Router
		err := func() (err error) {
			defer func() {
				if rec := recover(); rec != nil {
					err = fmt.Errorf("PANIC: %v", rec)
				}
			}()
			sections, err := config_parser.Parse(text)
			if err != nil {
				return err
			}
			conf, err := config.New(sections)
			if err != nil {
				return err
			}
			router, err = NewWithOption(log, &conf.Global, &conf.Dns, nil)
			return err
		}()
		if err != nil {
			m.Violation("daedns-build-error", "well-formed generated dns section rejected or crashed by the daedns router: "+err.Error(), map[string]any{"text": text})
			continue
		}
		if router == nil || router.requestMatcher == nil {
			m.Count("programs_without_router", 1)
			continue
		}
		m.Count("programs", 1)
		tag2idx := map[string]int{}
		idx := 0
		for _, u := range p.Upstreams {
			tag2idx[u.Tag] = idx
			idx++
		}
		for _, q := range vk.DProbeQuestions(p, r, vk.Scale(30, 50)) {
			m.Eval(1)
			ref, ri := vk.RefDnsRequest(p, q)
			got := "?"
			func() {
				defer func() {
					if rec := recover(); rec != nil {
						got = fmt.Sprintf("PANIC: %v", rec)
					}
				}()
				oi, err := router.requestMatcher.Match(q.Name, q.Qtype)
				switch {
				case err != nil:
					got = "ERROR: " + err.Error()
				case oi == consts.DnsRequestOutboundIndex_Reject:
					got = "reject"
				case oi == consts.DnsRequestOutboundIndex_AsIs:
					got = "asis"
				default:
					got = fmt.Sprintf("#%d", int(oi))
				}
			}()
			want := ref
			if i, ok := tag2idx[ref]; ok {
				want = fmt.Sprintf("#%d", i)
			}
			if len(p.Req) > 1 {
				n := len(p.Req)
				if n > 2 {
					n = 2
				}
				sig := ""
				for _, rl := range p.Req[:n] {
					sig += rl.ShapeSig() + ";"
				}
				m.Distinct(fmt.Sprintf("%s|%d", sig, ri))
				m.Count("decisions_multi_rule_programs", 1)
			}
			if got != want {
				m.Violation("meaning-changed/daedns-request", fmt.Sprintf("daedns request matcher decides %q type %d as %s, rules as written say %s (%s)", q.Name, q.Qtype, got, want, ref),
					map[string]any{"text": p.Text(), "qname": q.Name, "qtype": q.Qtype})
				break
			}
		}
		c04InternalSelectors(m, log, p, router)
		if m.WantSample() {
			m.Sample(map[string]any{"text": p.Text()})
		}
	}
	m.Require("programs", "decisions_multi_rule_programs", "internal_selector_decisions", "internal_selector_neighbour_rules_same_target")
	m.Done(t)
}

// c04InternalSelectors: the internal selectors sub()/node()/subnode() go through the same
// normalisation (merge+sort, dedup) before the router compiles them. Metamorphic oracle, free of
// any reading of the selector syntax of my own: every written internal rule is compiled ALONE by
// the production router (nothing to merge with), the written order gives the first-match
// reference per selector kind, and the router built from the whole section must agree on every
// probed subscription / node.
func c04InternalSelectors(m *vk.Monitor, log *logrus.Logger, p *vk.DProg, full *Router) {
	type one struct {
		fn  string
		out string
		r   *Router
	}
	var singles []one
	for _, rl := range p.Req {
		if !rl.Internal() {
			continue
		}
		q := &vk.DProg{Upstreams: p.Upstreams, Req: []vk.DRule{rl}, ReqFallback: "asis", RespFallback: "accept"}
		text := "global {}\nrouting {\n    fallback: direct\n}\n" + q.Text()
		sections, err := config_parser.Parse(text)
		if err != nil {
			m.Violation("daedns-build-error/single-rule", "single internal rule rejected: "+err.Error(), map[string]any{"text": text})
			return
		}
		conf, err := config.New(sections)
		if err != nil {
			m.Violation("daedns-build-error/single-rule", "single internal rule rejected: "+err.Error(), map[string]any{"text": text})
			return
		}
		r1, err := NewWithOption(log, &conf.Global, &conf.Dns, nil)
		if err != nil || r1 == nil {
			m.Violation("daedns-build-error/single-rule", fmt.Sprintf("single internal rule rejected: %v", err), map[string]any{"text": text})
			return
		}
		singles = append(singles, one{fn: rl.Conds[0].Func, out: rl.Out, r: r1})
	}
	if len(singles) == 0 {
		return
	}
	m.Count("programs_with_internal_rules", 1)
	for i := 1; i < len(p.Req); i++ {
		a, b := p.Req[i-1], p.Req[i]
		if a.Internal() && b.Internal() && a.Out == b.Out && len(a.Conds) == 1 && len(b.Conds) == 1 && a.Conds[0].Func == b.Conds[0].Func && a.Conds[0].Not == b.Conds[0].Not {
			m.Count("internal_selector_neighbour_rules_same_target", 1)
		}
	}
	firstSub := func(raw string) (string, bool) {
		for _, s := range singles {
			if s.fn == "sub" {
				if _, ok := s.r.MatchSubscriptionUpstream(raw); ok {
					return s.out, true
				}
			}
		}
		return "", false
	}
	firstNode := func(meta NodeMeta) (string, bool) {
		if meta.SubscriptionTag != "" {
			for _, s := range singles {
				if s.fn == "subnode" {
					if _, ok := s.r.MatchNodeUpstream(meta); ok {
						return s.out, true
					}
				}
			}
		}
		for _, s := range singles {
			if s.fn == "node" {
				if _, ok := s.r.MatchNodeUpstream(NodeMeta{Name: meta.Name, Link: meta.Link}); ok {
					return s.out, true
				}
			}
		}
		return "", false
	}
	bad := func(kind, in, got, want string) {
		m.Violation("meaning-changed/daedns-"+kind, fmt.Sprintf("daedns %s selector decides %s as %s; every rule compiled alone, in written order, says %s", kind, in, got, want),
			map[string]any{"text": p.Text(), "input": in})
	}
	show := func(u string, ok bool) string {
		if !ok {
			return "(no rule)"
		}
		return u
	}
	for _, tag := range []string{"", "s1", "s2", "s3", "s4"} {
		for _, link := range []string{"https://alpha.test/sub", "https://a.test/beta", "http://other.test/x"} {
			raw := link
			if tag != "" {
				raw = tag + ":" + link
			}
			m.Eval(1)
			m.Count("internal_selector_decisions", 1)
			gu, gok := full.MatchSubscriptionUpstream(raw)
			wu, wok := firstSub(raw)
			m.Distinct(fmt.Sprintf("sub|%v|%v", wok, tag != ""))
			if gok != wok || gu != wu {
				bad("sub", raw, show(gu, gok), show(wu, wok))
				return
			}
		}
	}
	for _, tag := range []string{"", "s1", "s2", "s3", "s4"} {
		for _, name := range []string{"hk-1", "hk-2", "jp-1", "us-2", "x"} {
			for _, link := range []string{"ss://alpha", "ss://x-beta", "trojan://gamma"} {
				meta := NodeMeta{SubscriptionTag: tag, Name: name, Link: link}
				m.Eval(1)
				m.Count("internal_selector_decisions", 1)
				gu, gok := full.MatchNodeUpstream(meta)
				wu, wok := firstNode(meta)
				m.Distinct(fmt.Sprintf("node|%v|%v", wok, tag != ""))
				if gok != wok || gu != wu {
					bad("node", fmt.Sprintf("%+v", meta), show(gu, gok), show(wu, wok))
					return
				}
			}
		}
	}
}
