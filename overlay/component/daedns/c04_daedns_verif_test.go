package daedns

// C04 (part daedns): dae's own-lookup DNS router compiles the DNS request
// rules through its own optimiser pipeline (router.go NewWithOption: dat,
// merge+sort, dedup). Its request matcher must decide ordinary questions like
// the reference interpreter on the rules as written.

import (
	"fmt"
	"io"
	"testing"

	"github.com/daeuniverse/dae/common/consts"
	"github.com/daeuniverse/dae/config"
	"github.com/daeuniverse/dae/pkg/config_parser"
	vk "github.com/daeuniverse/dae/verifkit"
	"github.com/sirupsen/logrus"
)

func TestVerifC04Daedns(t *testing.T) {
	m := vk.NewMonitor("C04", "daedns", "exploration",
		"generated dns sections (text) -> config_parser -> config.New -> daedns.NewWithOption (production optimiser list of router.go) -> Router.requestMatcher.Match vs reference first-match on the request rules as written; distinct = shape of the first two request rules x index of the deciding rule")
	m.SetFloor(30)
	log := logrus.New()
	log.SetOutput(io.Discard)
	r := vk.NewRand(0xC04D)
	gen := &vk.DGen{R: r, Internal: true}
	nprog := vk.Scale(400, 10000)
	for i := 0; i < nprog && m.Violations() < 5; i++ {
		p := gen.Gen()
		text := "global {}\nrouting {\n    fallback: direct\n}\n" + p.Text()
		var router *Router
		err := func() (err error) {
			defer func() {
				if rec := recover(); rec != nil {
					err = fmt.Errorf("PANIC: %v", rec)
				}
			}()
			sections, err := config_parser.Parse(text)
			if err != nil {
				return err
			}
			conf, err := config.New(sections)
			if err != nil {
				return err
			}
			router, err = NewWithOption(log, &conf.Global, &conf.Dns, nil)
			return err
		}()
		if err != nil {
			m.Violation("daedns-build-error", "well-formed generated dns section rejected or crashed by the daedns router: "+err.Error(), map[string]any{"text": text})
			continue
		}
		if router == nil || router.requestMatcher == nil {
			m.Count("programs_without_router", 1)
			continue
		}
		m.Count("programs", 1)
		tag2idx := map[string]int{}
		idx := 0
		for _, u := range p.Upstreams {
			tag2idx[u.Tag] = idx
			idx++
		}
		for _, q := range vk.DProbeQuestions(p, r, vk.Scale(30, 50)) {
			m.Eval(1)
			ref, ri := vk.RefDnsRequest(p, q)
			got := "?"
			func() {
				defer func() {
					if rec := recover(); rec != nil {
						got = fmt.Sprintf("PANIC: %v", rec)
					}
				}()
				oi, err := router.requestMatcher.Match(q.Name, q.Qtype)
				switch {
				case err != nil:
					got = "ERROR: " + err.Error()
				case oi == consts.DnsRequestOutboundIndex_Reject:
					got = "reject"
				case oi == consts.DnsRequestOutboundIndex_AsIs:
					got = "asis"
				default:
					got = fmt.Sprintf("#%d", int(oi))
				}
			}()
			want := ref
			if i, ok := tag2idx[ref]; ok {
				want = fmt.Sprintf("#%d", i)
			}
			if len(p.Req) > 1 {
				n := len(p.Req)
				if n > 2 {
					n = 2
				}
				sig := ""
				for _, rl := range p.Req[:n] {
					sig += rl.ShapeSig() + ";"
				}
				m.Distinct(fmt.Sprintf("%s|%d", sig, ri))
				m.Count("decisions_multi_rule_programs", 1)
			}
			if got != want {
				m.Violation("meaning-changed/daedns-request", fmt.Sprintf("daedns request matcher decides %q type %d as %s, rules as written say %s (%s)", q.Name, q.Qtype, got, want, ref),
					map[string]any{"text": p.Text(), "qname": q.Name, "qtype": q.Qtype})
				break
			}
		}
		if m.WantSample() {
			m.Sample(map[string]any{"text": p.Text()})
		}
	}
	m.Require("programs", "decisions_multi_rule_programs")
	m.Done(t)
}
