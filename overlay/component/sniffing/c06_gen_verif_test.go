package sniffing

// C06 monitor, generators: (a) ClientHellos produced by crypto/tls itself,
// (b) a hand-written ClientHello encoder for shapes crypto/tls cannot emit,
// (c) HTTP/1 request heads, (d) an independent ClientHello walker used to
// cross-check the generators and to classify bit-flip positions.
// Nothing here calls into dae.

import (
	"context"
	"crypto/tls"
	"encoding/binary"
	"errors"
	"fmt"
	"io"
	"math/rand/v2"
	"net"
	"strings"
	"time"
)

// ---- names -------------------------------------------------------------------

var c06NamePool = []string{
	"example.com", "www.example.com", "WWW.Example.COM", "a.b", "localhost", "x",
	"xn--fiqs8s.xn--fiqz9s", "api-1.internal.example.net", "_dmarc.example.org", "1e100.net",
	"example.com.", "Sub.Domain.Example.Co.UK.", "host", "hosT.example", "a-very-long-label-a-very-long-label-a-very-long-label-a-very-63.example",
}

func c06RandLabel(r *rand.Rand, n int) string {
	const al = "abcdefghijklmnopqrstuvwxyzABCDEFGHIJKLMNOPQRSTUVWXYZ0123456789-"
	b := make([]byte, n)
	for i := range b {
		b[i] = al[r.IntN(len(al))]
	}
	if b[0] == '-' {
		b[0] = 'a'
	}
	if b[n-1] == '-' {
		b[n-1] = 'z'
	}
	return string(b)
}

func c06RandName(r *rand.Rand) string {
	switch r.IntN(10) {
	case 0, 1, 2, 3:
		return c06NamePool[r.IntN(len(c06NamePool))]
	case 4: // maximal length name (253)
		var ls []string
		total := 0
		for total < 253 {
			n := 63
			if 253-total < 64 {
				n = 253 - total
			}
			ls = append(ls, c06RandLabel(r, n))
			total += n + 1
		}
		return strings.Join(ls, ".")
	default:
		n := 1 + r.IntN(4)
		var ls []string
		for i := 0; i < n; i++ {
			ls = append(ls, c06RandLabel(r, 1+r.IntN(12)))
		}
		s := strings.Join(ls, ".")
		if r.IntN(8) == 0 {
			s += "."
		}
		return s
	}
}

// c06Canon is the comparison form: the carried host name, ASCII lower-cased,
// without one trailing dot (dae documents both: NormalizeDomain lower-cases,
// tls.go accepts and strips a trailing dot).
func c06Canon(name string) string {
	return strings.TrimSuffix(strings.ToLower(name), ".")
}

// c06SameName: the reported name must be the carried one in dae's documented
// normal form (lower case); a single trailing dot is not significant.
func c06SameName(got, carried string) bool {
	return strings.TrimSuffix(got, ".") == c06Canon(carried)
}

// ---- (a) crypto/tls ------------------------------------------------------------

type c06StdHello struct {
	Record []byte // the TLS record(s) crypto/tls wrote
	Feat   string
}

// c06CaptureStdHello runs crypto/tls.Client(...).Handshake() over a pipe and
// captures the first flight.
func c06CaptureStdHello(cfg *tls.Config) ([]byte, error) {
	a, b := net.Pipe()
	defer a.Close()
	defer b.Close()
	cl := tls.Client(a, cfg)
	errc := make(chan error, 1)
	go func() { errc <- cl.Handshake() }()
	_ = b.SetReadDeadline(time.Now().Add(10 * time.Second))
	var out []byte
	hdr := make([]byte, 5)
	need := -1 // bytes of handshake message still missing
	for need != 0 {
		if _, err := io.ReadFull(b, hdr); err != nil {
			return nil, fmt.Errorf("reading record header: %w", err)
		}
		n := int(binary.BigEndian.Uint16(hdr[3:]))
		body := make([]byte, n)
		if _, err := io.ReadFull(b, body); err != nil {
			return nil, fmt.Errorf("reading record body: %w", err)
		}
		out = append(append(out, hdr...), body...)
		if need < 0 {
			if hdr[0] != 22 || n < 4 || body[0] != 1 {
				return nil, errors.New("first record is not a ClientHello")
			}
			need = 4 + int(body[1])<<16 + int(body[2])<<8 + int(body[3])
		}
		need -= n
		if need < 0 {
			return nil, errors.New("record overruns handshake message")
		}
	}
	b.Close()
	a.Close()
	<-errc
	return out, nil
}

var c06Curves = []tls.CurveID{tls.X25519, tls.CurveP256, tls.CurveP384, tls.CurveP521, tls.X25519MLKEM768}
var c06Alpn = []string{"h2", "http/1.1", "h3", "dot", "acme-tls/1", "spdy/3.1"}

// c06StdConfig draws a random client configuration. name == "" => no SNI.
func c06StdConfig(r *rand.Rand, name string) (*tls.Config, string) {
	cfg := &tls.Config{ServerName: name, InsecureSkipVerify: true}
	vers := []uint16{tls.VersionTLS10, tls.VersionTLS11, tls.VersionTLS12, tls.VersionTLS13}
	lo := r.IntN(4)
	hi := lo + r.IntN(4-lo)
	if r.IntN(3) == 0 {
		lo, hi = 2, 3
	}
	cfg.MinVersion, cfg.MaxVersion = vers[lo], vers[hi]
	feat := fmt.Sprintf("std/v%d-%d", lo, hi)
	if n := r.IntN(4); n > 0 {
		for i := 0; i < n; i++ {
			cfg.NextProtos = append(cfg.NextProtos, c06Alpn[r.IntN(len(c06Alpn))])
		}
		feat += "/alpn"
	}
	if r.IntN(2) == 0 {
		n := 1 + r.IntN(3)
		p := r.Perm(len(c06Curves))
		for i := 0; i < n; i++ {
			cfg.CurvePreferences = append(cfg.CurvePreferences, c06Curves[p[i]])
		}
		feat += "/curves"
	}
	if r.IntN(3) == 0 {
		cfg.SessionTicketsDisabled = true
		feat += "/notickets"
	}
	if r.IntN(4) == 0 && hi <= 2 {
		all := tls.CipherSuites()
		p := r.Perm(len(all))
		for i := 0; i < 1+r.IntN(4); i++ {
			cfg.CipherSuites = append(cfg.CipherSuites, all[p[i]].ID)
		}
		feat += "/suites"
	}
	if name == "" {
		feat += "/nosni"
	}
	return cfg, feat
}

// c06CaptureStdQuicHello returns the ClientHello handshake message produced by
// crypto/tls in QUIC mode (no record layer).
func c06CaptureStdQuicHello(r *rand.Rand, name string) ([]byte, error) {
	cfg := &tls.Config{ServerName: name, InsecureSkipVerify: true, MinVersion: tls.VersionTLS13,
		NextProtos: []string{c06Alpn[r.IntN(len(c06Alpn))]}}
	if r.IntN(2) == 0 {
		cfg.CurvePreferences = []tls.CurveID{tls.X25519}
	}
	qc := tls.QUICClient(&tls.QUICConfig{TLSConfig: cfg})
	tp := make([]byte, 4+r.IntN(60))
	for i := range tp {
		tp[i] = byte(r.UintN(256))
	}
	qc.SetTransportParameters(tp)
	defer qc.Close()
	if err := qc.Start(context.Background()); err != nil {
		return nil, err
	}
	var hello []byte
	for {
		ev := qc.NextEvent()
		switch ev.Kind {
		case tls.QUICNoEvent:
			if len(hello) == 0 {
				return nil, errors.New("no ClientHello event")
			}
			return hello, nil
		case tls.QUICWriteData:
			if ev.Level == tls.QUICEncryptionLevelInitial {
				hello = append(hello, ev.Data...)
			}
		}
	}
}

// ---- (b) own encoder ---------------------------------------------------------

type c06Ext struct {
	Type uint16
	Data []byte
}

type c06SniEntry struct {
	Type byte
	Data []byte
}

type c06Hello struct {
	LegacyVersion uint16
	Random        []byte
	SessionID     []byte
	Suites        []uint16
	Compression   []byte
	Exts          []c06Ext
	NoExtBlock    bool // TLS 1.2 style hello that ends after compression methods
}

func c06SniPayload(entries []c06SniEntry) []byte {
	var l []byte
	for _, e := range entries {
		l = append(l, e.Type, byte(len(e.Data)>>8), byte(len(e.Data)))
		l = append(l, e.Data...)
	}
	return append([]byte{byte(len(l) >> 8), byte(len(l))}, l...)
}

// Marshal returns the handshake message (msg_type, uint24 length, body).
func (h *c06Hello) Marshal() []byte {
	b := []byte{1, 0, 0, 0, byte(h.LegacyVersion >> 8), byte(h.LegacyVersion)}
	b = append(b, h.Random...)
	b = append(b, byte(len(h.SessionID)))
	b = append(b, h.SessionID...)
	b = append(b, byte(len(h.Suites)*2>>8), byte(len(h.Suites)*2))
	for _, s := range h.Suites {
		b = append(b, byte(s>>8), byte(s))
	}
	b = append(b, byte(len(h.Compression)))
	b = append(b, h.Compression...)
	if !h.NoExtBlock {
		var e []byte
		for _, x := range h.Exts {
			e = append(e, byte(x.Type>>8), byte(x.Type), byte(len(x.Data)>>8), byte(len(x.Data)))
			e = append(e, x.Data...)
		}
		b = append(b, byte(len(e)>>8), byte(len(e)))
		b = append(b, e...)
	}
	n := len(b) - 4
	b[1], b[2], b[3] = byte(n>>16), byte(n>>8), byte(n)
	return b
}

// c06Records wraps a handshake message into TLS records cut at the given
// offsets (ascending, inside the message).
func c06Records(hs []byte, recVer uint16, cuts []int) []byte {
	var out []byte
	prev := 0
	for _, c := range append(append([]int(nil), cuts...), len(hs)) {
		frag := hs[prev:c]
		out = append(out, 22, byte(recVer>>8), byte(recVer), byte(len(frag)>>8), byte(len(frag)))
		out = append(out, frag...)
		prev = c
	}
	return out
}

func c06Grease(r *rand.Rand) uint16 {
	n := uint16(r.IntN(16))
	return n<<12 | 0x0a00 | n<<4 | 0x0a
}

func c06RandBytes(r *rand.Rand, n int) []byte {
	b := make([]byte, n)
	for i := range b {
		b[i] = byte(r.UintN(256))
	}
	return b
}

type c06OwnHello struct {
	H       *c06Hello
	Name    string // "" if no host_name is carried
	Feat    string
	TLS13   bool
	ForQuic bool
}

// c06GenOwnHello draws a well-formed ClientHello with features crypto/tls cannot emit.
func c06GenOwnHello(r *rand.Rand, name string, forQuic bool) *c06OwnHello {
	h := &c06Hello{LegacyVersion: 0x0303, Random: c06RandBytes(r, 32), Compression: []byte{0}}
	o := &c06OwnHello{H: h, Name: name, ForQuic: forQuic}
	var feats []string
	ft := func(s string) { feats = append(feats, s) }
	o.TLS13 = forQuic || r.IntN(3) > 0
	if !o.TLS13 {
		h.LegacyVersion = []uint16{0x0301, 0x0302, 0x0303}[r.IntN(3)]
		ft(fmt.Sprintf("lv%04x", h.LegacyVersion))
	}
	switch {
	case forQuic: // RFC 9001 8.4: empty legacy_session_id
	case r.IntN(3) > 0:
		h.SessionID = c06RandBytes(r, 32)
		ft("sid32")
	case r.IntN(2) == 0:
		h.SessionID = c06RandBytes(r, 1+r.IntN(31))
		ft("sidN")
	}
	grease := r.IntN(2) == 0
	if grease {
		h.Suites = append(h.Suites, c06Grease(r))
		ft("grease")
	}
	ns := 1 + r.IntN(40)
	if r.IntN(12) == 0 {
		ns = 128 + r.IntN(120) // cipher_suites length needs its high byte
		ft("suites>255B")
	}
	for i := 0; i < ns; i++ {
		h.Suites = append(h.Suites, []uint16{0x1301, 0x1302, 0x1303, 0xc02b, 0xc02f, 0xc02c, 0xc030, 0xcca9, 0xcca8, 0xc013, 0xc014, 0x009c, 0x009d, 0x002f, 0x0035, 0x00ff, 0x0000}[r.IntN(17)])
	}
	if !o.TLS13 && r.IntN(6) == 0 {
		h.Compression = append(c06RandBytes(r, 1+r.IntN(6)), 0)
		ft("compN")
	}
	// extension pool
	var exts []c06Ext
	add := func(t uint16, d []byte) { exts = append(exts, c06Ext{t, d}) }
	if grease {
		add(c06Grease(r), nil)
	}
	nOther := r.IntN(19)
	if r.IntN(4) == 0 {
		nOther = 19
	}
	for i := 0; i < nOther; i++ {
		switch r.IntN(14) {
		case 0:
			add(23, nil) // extended_master_secret
		case 1:
			add(35, c06RandBytes(r, []int{0, 0, 180}[r.IntN(3)])) // session_ticket
		case 2:
			add(18, nil) // SCT
		case 3:
			add(5, []byte{1, 0, 0, 0, 0}) // status_request
		case 4:
			g := []byte{0, 8, 0, 0x1d, 0, 0x17, 0, 0x18, 0x11, 0xec}
			if grease {
				gv := c06Grease(r)
				g = append([]byte{0, 10, byte(gv >> 8), byte(gv)}, g[2:]...)
			}
			add(10, g) // supported_groups
		case 5:
			add(11, []byte{1, 0})
		case 6:
			add(13, []byte{0, 8, 4, 3, 8, 4, 4, 1, 2, 1})
		case 7:
			add(16, []byte{0, 12, 2, 'h', '2', 8, 'h', 't', 't', 'p', '/', '1', '.', '1'})
		case 8:
			ks := c06RandBytes(r, []int{32, 65, 1216}[r.IntN(3)])
			d := []byte{0, 0, 0, 0x1d, byte(len(ks) >> 8), byte(len(ks))}
			d = append(d, ks...)
			binary.BigEndian.PutUint16(d, uint16(len(d)-2))
			add(51, d) // key_share
		case 9:
			add(45, []byte{1, 1})
		case 10:
			add(0xff01, []byte{0}) // renegotiation_info
		case 11:
			add(0x4469, c06RandBytes(r, 5)) // ALPS
		case 12:
			add(27, []byte{2, 0, 2}) // compress_certificate
		case 13: // unknown extension whose payload imitates a server_name extension
			decoy := c06SniPayload([]c06SniEntry{{0, []byte("decoy.invalid")}})
			add(uint16(0x1000+r.IntN(0x1000)), append([]byte{0, 0, 0, byte(len(decoy))}, decoy...))
			ft("decoy")
		}
	}
	if nOther == 19 {
		ft("ext20")
	}
	if o.TLS13 {
		sv := []byte{4, 3, 4, 3, 3}
		if grease {
			gv := c06Grease(r)
			sv = []byte{6, byte(gv >> 8), byte(gv), 3, 4, 3, 3}
		}
		add(43, sv)
	}
	if forQuic {
		add(0x39, c06RandBytes(r, 10+r.IntN(80)))
	}
	if grease && r.IntN(2) == 0 {
		add(c06Grease(r), []byte{0})
	}
	r.Shuffle(len(exts), func(i, j int) { exts[i], exts[j] = exts[j], exts[i] })
	// pre_shared_key must be last if present; emulate with an opaque one sometimes
	// (only when SNI is not requested last)
	if name != "" {
		var entries []c06SniEntry
		if r.IntN(3) == 0 {
			entries = append(entries, c06SniEntry{byte(1 + r.IntN(255)), c06RandBytes(r, r.IntN(20))})
			ft("sni2")
		}
		entries = append(entries, c06SniEntry{0, []byte(name)})
		sni := c06Ext{0, c06SniPayload(entries)}
		switch p := r.IntN(4); {
		case p == 0 || len(exts) == 0:
			exts = append([]c06Ext{sni}, exts...)
			ft("sni-first")
		case p == 1:
			exts = append(exts, sni)
			ft("sni-last")
		default:
			k := r.IntN(len(exts) + 1)
			exts = append(exts[:k], append([]c06Ext{sni}, exts[k:]...)...)
			ft("sni-mid")
		}
	} else if r.IntN(3) == 0 && !forQuic && !o.TLS13 {
		h.NoExtBlock = true
		ft("noextblock")
	} else {
		ft("nosni")
	}
	h.Exts = exts
	if !h.NoExtBlock {
		switch r.IntN(6) {
		case 0: // browsers pad to 512
			if n := len(h.Marshal()); n < 512-4 {
				h.Exts = append(h.Exts, c06Ext{21, make([]byte, 512-4-n)})
				if k := r.IntN(len(h.Exts)); name != "" && r.IntN(2) == 0 { // padding not necessarily last
					h.Exts[k], h.Exts[len(h.Exts)-1] = h.Exts[len(h.Exts)-1], h.Exts[k]
				}
				ft("pad512")
			}
		case 1: // large hello spanning several sniffer reads
			h.Exts = append(h.Exts, c06Ext{21, make([]byte, 3000+r.IntN(6000))})
			ft("padbig")
		}
	}
	if len(feats) == 0 {
		ft("plain")
	}
	o.Feat = "own/" + strings.Join(feats, ",")
	return o
}

// ---- (d) independent walker --------------------------------------------------

type c06HelloInfo struct {
	HasName bool
	Name    string
	// NameNeutral[i] is true for bytes of the handshake message whose value cannot
	// influence which host name the message carries: random, session id, cipher
	// suite and compression values, payloads of extensions other than server_name.
	NameNeutral []bool
}

var errC06Walk = errors.New("c06 walker: malformed hello")

// c06WalkHello parses a handshake message (type+len+body) strictly.
func c06WalkHello(hs []byte) (*c06HelloInfo, error) {
	info := &c06HelloInfo{NameNeutral: make([]bool, len(hs))}
	if len(hs) < 4 || hs[0] != 1 {
		return nil, errC06Walk
	}
	n := int(hs[1])<<16 | int(hs[2])<<8 | int(hs[3])
	if n != len(hs)-4 {
		return nil, errC06Walk
	}
	i := 4
	neutral := func(a, b int) {
		for k := a; k < b; k++ {
			info.NameNeutral[k] = true
		}
	}
	take := func(k int) (int, error) {
		if i+k > len(hs) {
			return 0, errC06Walk
		}
		s := i
		i += k
		return s, nil
	}
	if _, err := take(2); err != nil {
		return nil, err
	}
	s, err := take(32)
	if err != nil {
		return nil, err
	}
	neutral(s, s+32)
	if s, err = take(1); err != nil {
		return nil, err
	}
	sl := int(hs[s])
	if s, err = take(sl); err != nil {
		return nil, err
	}
	neutral(s, s+sl)
	if s, err = take(2); err != nil {
		return nil, err
	}
	cl := int(binary.BigEndian.Uint16(hs[s:]))
	if s, err = take(cl); err != nil {
		return nil, err
	}
	neutral(s, s+cl)
	if s, err = take(1); err != nil {
		return nil, err
	}
	ml := int(hs[s])
	if s, err = take(ml); err != nil {
		return nil, err
	}
	neutral(s, s+ml)
	if i == len(hs) {
		return info, nil // no extension block
	}
	if s, err = take(2); err != nil {
		return nil, err
	}
	el := int(binary.BigEndian.Uint16(hs[s:]))
	if i+el != len(hs) {
		return nil, errC06Walk
	}
	for i < len(hs) {
		if s, err = take(4); err != nil {
			return nil, err
		}
		typ := binary.BigEndian.Uint16(hs[s:])
		dl := int(binary.BigEndian.Uint16(hs[s+2:]))
		d, err := take(dl)
		if err != nil {
			return nil, err
		}
		if typ != 0 {
			neutral(d, d+dl)
			continue
		}
		if info.HasName {
			continue
		}
		p := hs[d : d+dl]
		if len(p) < 2 || int(binary.BigEndian.Uint16(p))+2 != len(p) {
			return nil, errC06Walk
		}
		for q := 2; q < len(p); {
			if q+3 > len(p) {
				return nil, errC06Walk
			}
			nl := int(binary.BigEndian.Uint16(p[q+1:]))
			if q+3+nl > len(p) {
				return nil, errC06Walk
			}
			if p[q] == 0 && !info.HasName {
				info.HasName, info.Name = true, string(p[q+3:q+3+nl])
			}
			q += 3 + nl
		}
	}
	return info, nil
}

// ---- (c) HTTP/1 request heads -------------------------------------------------

type c06HTTPHead struct {
	Bytes    []byte
	HostName string // carried host (host part of the Host header), "" if no Host header
	HasHost  bool
	Feat     string
	StdMeth  bool // method is one of RFC 9110 section 9 / RFC 5789
	// [HostLineStart, HostLineEnd) is the Host header line without its CRLF.
	HostLineStart, HostLineEnd int
}

var c06StdMethods = []string{"GET", "HEAD", "POST", "PUT", "DELETE", "CONNECT", "OPTIONS", "TRACE", "PATCH"}
var c06ExtMethods = []string{"MKCOL", "PROPPATCH", "REPORT", "SEARCH", "MOVE", "M-SEARCH"}

func c06GenHTTP(r *rand.Rand) *c06HTTPHead {
	h := &c06HTTPHead{StdMeth: true}
	method := c06StdMethods[r.IntN(len(c06StdMethods))]
	if r.IntN(12) == 0 {
		method = c06ExtMethods[r.IntN(len(c06ExtMethods))]
		h.StdMeth = false
	}
	// host forms
	var hostVal, carried, form string
	hf := r.IntN(9)
	if r.IntN(12) == 0 {
		hf = 9
	}
	switch hf {
	case 9:
		// an IPv6 literal without brackets (not RFC 7230 conformant, but clients send it)
		carried = []string{"::1", "2001:db8::1", "2606:4700:20::681A:D1F", "fe80::1", "::ffff:192.0.2.7", "2001:db8::"}[r.IntN(6)]
		hostVal, form = carried, "v6-bare"
	case 0:
		carried = c06RandName(r)
		hostVal, form = carried, "name"
	case 1:
		carried = c06RandName(r)
		hostVal, form = fmt.Sprintf("%s:%d", carried, 1+r.IntN(65535)), "name:port"
	case 2:
		carried = []string{"::1", "2001:db8::1", "2606:4700:20::681A:D1F", "fe80::1"}[r.IntN(4)]
		hostVal, form = "["+carried+"]", "[v6]"
	case 3:
		carried = []string{"::1", "2001:db8::1", "2001:DB8:0:0:0:0:0:1"}[r.IntN(3)]
		hostVal, form = fmt.Sprintf("[%s]:%d", carried, 1+r.IntN(65535)), "[v6]:port"
	case 4:
		carried = fmt.Sprintf("%d.%d.%d.%d", r.IntN(256), r.IntN(256), r.IntN(256), r.IntN(256))
		hostVal, form = carried, "v4"
		if r.IntN(2) == 0 {
			hostVal, form = carried+":8080", "v4:port"
		}
	case 5:
		carried = strings.TrimSuffix(c06RandName(r), ".") + "."
		hostVal, form = carried, "name."
	case 6:
		carried = strings.TrimSuffix(c06RandName(r), ".") + "."
		hostVal, form = carried+":443", "name.:port"
	case 7:
		carried = strings.ToUpper(c06RandName(r))
		hostVal, form = carried, "UPPER"
	case 8:
		form = "nohost"
	}
	h.HasHost = form != "nohost"
	h.HostName = carried
	target := []string{"/", "/index.html?q=1&host=evil.invalid", "/a/b/c", "/?Host:evil.invalid", "*"}[r.IntN(5)]
	if method == "CONNECT" && h.HasHost {
		target = hostVal
		if !strings.Contains(form, "port") {
			target += ":443"
		}
	} else if r.IntN(6) == 0 && h.HasHost {
		target = "http://" + hostVal + "/abs"
		form += "/absuri"
	}
	ver := "HTTP/1.1"
	if !h.HasHost || r.IntN(8) == 0 {
		ver = "HTTP/1.0"
	}
	key := []string{"Host", "host", "HOST", "hOsT", "Host"}[r.IntN(5)]
	sep := []string{": ", ":", ":  ", ":\t", ": "}[r.IntN(5)]
	trail := []string{"", "", " ", "\t"}[r.IntN(4)]
	others := []string{
		"User-Agent: curl/8.5.0", "Accept: */*", "Accept-Encoding: gzip, deflate, br",
		"X-Forwarded-Host: decoy.invalid", "Referer: http://decoy.invalid/x", "X-Host: decoy.invalid",
		"Hostx: decoy.invalid", "Connection: keep-alive", "Origin: https://decoy.invalid",
		"Cookie: host=decoy.invalid; sid=" + c06RandLabel(r, 8+r.IntN(300)), "Content-Length: 17", "Via: 1.1 host:decoy.invalid",
		"Forwarded: host=decoy.invalid",
	}
	n := r.IntN(8)
	var lines []string
	p := r.Perm(len(others))
	for i := 0; i < n; i++ {
		lines = append(lines, others[p[i]])
	}
	pos := "none"
	hl := ""
	if h.HasHost {
		hl = key + sep + hostVal + trail
		switch k := r.IntN(3); {
		case k == 0 || len(lines) == 0:
			lines = append([]string{hl}, lines...)
			pos = "first"
		case k == 1:
			lines = append(lines, hl)
			pos = "last"
		default:
			j := r.IntN(len(lines) + 1)
			lines = append(lines[:j], append([]string{hl}, lines[j:]...)...)
			pos = "mid"
		}
	}
	s := method + " " + target + " " + ver + "\r\n" + strings.Join(lines, "\r\n")
	if len(lines) > 0 {
		s += "\r\n"
	}
	s += "\r\n"
	body := ""
	if (method == "POST" || method == "PUT" || method == "PATCH") && r.IntN(2) == 0 {
		body = "Host: body.invalid\r\n\r\nx"
		s += body
	}
	h.Bytes = []byte(s)
	if h.HasHost {
		h.HostLineStart = strings.Index(s, "\r\n"+hl+"\r\n") + 2
		h.HostLineEnd = h.HostLineStart + len(hl)
	}
	h.Feat = fmt.Sprintf("http/%s/%s/%s/%s", method, form, pos, map[bool]string{true: "body", false: "nobody"}[body != ""])
	if key != "Host" || sep != ": " || trail != "" {
		h.Feat += "/lenient"
	}
	return h
}

// ---- junk ----------------------------------------------------------------------

func c06GenJunk(r *rand.Rand) ([]byte, string) {
	n := []int{1, 2, 4, 5, 6, 7, 12, 39, 44, 64, 300, 1200, 4096, 5000}[r.IntN(14)]
	b := c06RandBytes(r, n)
	kind := "random"
	switch r.IntN(8) {
	case 0:
		copy(b, []byte{0x16, 3, 1})
		kind = "tls-prefix"
	case 1:
		if n >= 5 {
			copy(b, []byte{0x16, 3, 3})
			binary.BigEndian.PutUint16(b[3:], uint16(n-5))
			if n > 10 {
				b[5] = 1
				b[9], b[10] = 3, 3
			}
		}
		kind = "tls-framed"
	case 2:
		copy(b, "GET / HTTP/1.1\r\n")
		kind = "http-prefix"
	case 3:
		copy(b, "SSH-2.0-OpenSSH_9.6\r\n")
		kind = "ssh"
	case 4:
		b[0] = 0xc0 | byte(r.UintN(16))
		if n >= 5 {
			binary.BigEndian.PutUint32(b[1:], []uint32{1, c06QuicV2, 0xff00001d, 0x0a1a2a3a, 0}[r.IntN(5)])
		}
		kind = "quic-prefix"
	case 5:
		for i := range b {
			b[i] = byte(0x20 + r.IntN(0x5f))
		}
		kind = "printable"
	}
	return b, kind
}
