package sniffing

// C06 monitor, runners and oracles: drive the production entry points
// (NewConnSniffer+SniffTcp+drain, NewPacketSniffer+AppendData+SniffUdp+Data,
// and the parsers on guard-page slices), observe, judge.

import (
	"bytes"
	"context"
	"encoding/hex"
	"errors"
	"fmt"
	"io"
	"net"
	"runtime"
	"runtime/debug"
	"strings"
	"time"

	"github.com/daeuniverse/dae/component/sniffing/internal/quicutils"
	vk "github.com/daeuniverse/dae/verifkit"
)

const (
	c06Timeout = 150 * time.Millisecond
	// The property itself bounds waiting ("never waits past its timeout"); the
	// allowance is generous so that only a real hang, not scheduling noise, trips it,
	// and an overrun is re-run before it is believed.
	c06Delta = 2 * time.Second
)

var c06Pong = []byte("c06-pong-from-relay")

// name rules
const (
	c06MustFind   = "must-find"    // the statement promises recognition: found and equal
	c06SameOrNone = "same-or-none" // recognition not promised; a reported name must be the carried one
	c06None       = "none"         // nothing is carried: no name may be reported
	c06Free       = "free"         // structurally damaged input: only safety and byte preservation are judged
	c06Junk       = "junk"         // arbitrary bytes: a reported name is cross-checked by the independent walkers
)

type c06Stream struct {
	Proto, Feat, Chunk string
	Chunks             [][]byte
	Avail              []time.Duration // short delays (absolute, from connection start)
	StallFrom          int             // chunks[StallFrom:] arrive only after the sniffing timeout (0 = no stall, -1 = stall from the very first byte)
	EOFAfterChunks     bool // the client half-closes right after the chunks
	Rule, Carried      string
	Drain              string
	Conn               string // seg | fill | nodl | tcp | prefixed (seg behind a prefix-replaying wrapper, see c06PrefixConn)
	Adapt              func(n int) [][]byte
	Tail               []byte
	Kind               string // structural tag used in violation signatures
	FailRead           int    // n-th read fails with a connection error
}

type c06StreamObs struct {
	Name       string
	Err        error
	Outcome    string
	Elapsed    time.Duration
	Panic      string
	Hung       string
	Retries    int
	Timeout    time.Duration
	RdlZero    bool
	RdlSets    int
	WriteOK    bool
	Drained    []byte
	DrainErr   error
	Input      []byte
	FirstP     int
	Reads      int
	PongAtPeer bool
	// DataWithErr: Reads of the conn handed to the sniffer that returned n > 0 together with an error
	DataWithErr int
}

func c06Outcome(name string, err error) string {
	switch {
	case err == nil:
		return "found"
	case errors.Is(err, context.DeadlineExceeded) || isC06Timeout(err):
		return "timeout"
	case errors.Is(err, ErrNotFound):
		return "notfound"
	case errors.Is(err, ErrNotApplicable):
		return "notapplicable"
	case errors.Is(err, ErrNeedMore):
		return "needmore"
	default:
		return "error"
	}
}

func isC06Timeout(err error) bool {
	var ne net.Error
	return errors.As(err, &ne) && ne.Timeout()
}

func c06PanicString(r any) string {
	st := string(debug.Stack())
	// keep the frames below the panic call
	if i := strings.Index(st, "panic("); i >= 0 {
		st = st[i:]
	}
	if len(st) > 1800 {
		st = st[:1800]
	}
	kind := "panic"
	if re, ok := r.(runtime.Error); ok {
		msg := re.Error()
		switch {
		case strings.Contains(msg, "out of range"):
			kind = "oob-index"
		case strings.Contains(msg, "unexpected fault address") || strings.Contains(msg, "invalid memory address"):
			kind = "oob-fault"
		}
	}
	return kind + ": " + fmt.Sprint(r) + "\n" + st
}

func c06PanicKind(p string) string {
	if i := strings.Index(p, ":"); i > 0 {
		return p[:i]
	}
	return "panic"
}

func c06Drain(cs *ConnSniffer, how string) (out []byte, err error) {
	readLoop := func(sz int) error {
		buf := make([]byte, sz)
		zero := 0
		for {
			n, err := cs.Read(buf)
			out = append(out, buf[:n]...)
			if err != nil {
				if err == io.EOF {
					return nil
				}
				return err // what control.relayCopyLoop does: forward n bytes, then stop on the error
			}
			if n == 0 {
				if zero++; zero > 1000 {
					return errors.New("Read keeps returning (0, nil)")
				}
			}
		}
	}
	switch how {
	case "read":
		return out, readLoop(32 << 10)
	case "read-small":
		return out, readLoop(7)
	case "writeto":
		var b bytes.Buffer
		_, err := cs.WriteTo(&b)
		return b.Bytes(), err
	case "prefix+direct":
		out = append(out, cs.TakeRelayPrefix()...)
		var b bytes.Buffer
		_, err := cs.CopyRelayRemainder(&b, make([]byte, 4096))
		return append(out, b.Bytes()...), err
	case "prefix+read":
		out = append(out, cs.TakeRelayPrefix()...)
		return out, readLoop(32 << 10)
	case "segments+read":
		for _, s := range cs.TakeRelaySegments() {
			out = append(out, s...)
		}
		return out, readLoop(512)
	}
	return nil, fmt.Errorf("unknown drain %q", how)
}

var c06Drains = []string{"read", "read-small", "writeto", "prefix+direct", "prefix+read", "segments+read"}

func (c *c06Stream) Stall() bool { return c.StallFrom != 0 }

func (c *c06Stream) avail(timeout time.Duration) []time.Duration {
	av := make([]time.Duration, len(c.Chunks))
	copy(av, c.Avail)
	if c.StallFrom != 0 {
		for i := max(c.StallFrom, 0); i < len(av); i++ {
			av[i] = timeout + 60*time.Millisecond
		}
	}
	return av
}

// c06RunStream executes one case on the scripted conn.
func c06RunStream(c *c06Stream, timeout time.Duration) (o c06StreamObs) {
	conn := newC06Conn(c.Chunks, c.avail(timeout))
	conn.fill = c.Conn == "fill"
	conn.noDl = c.Conn == "nodl"
	conn.adapt = c.Adapt
	conn.released = c.EOFAfterChunks
	if c.FailRead > 0 {
		conn.failAfter, conn.failErr = c.FailRead, &net.OpError{Op: "read", Net: "tcp", Err: errors.New("connection reset by peer")}
	}
	var rw net.Conn = conn
	var pc *c06PrefixConn
	if c.Conn == "prefixed" {
		// a prefetch step took the client's first segment (at most 16 bytes) off the socket before
		// the sniffer was created; the sniffer reads through the wrapper that replays it
		pre := make([]byte, 16)
		k, _ := conn.Read(pre)
		pc = &c06PrefixConn{c06Conn: conn, prefix: pre[:k]}
		rw = pc
	}
	cs := NewConnSniffer(rw, timeout)
	done := make(chan struct{})
	phase := "sniff"
	go func() {
		defer close(done)
		defer func() {
			if r := recover(); r != nil {
				o.Panic = phase + "|" + c06PanicString(r)
			}
		}()
		t0 := time.Now()
		o.Name, o.Err = cs.SniffTcp()
		o.Elapsed = time.Since(t0)
		o.Outcome = c06Outcome(o.Name, o.Err)
		rdl, sets, _, reads, firstP, _ := conn.snapshot()
		o.RdlZero, o.RdlSets, o.Reads, o.FirstP = rdl.IsZero(), sets, reads, firstP
		phase = "write"
		n, werr := cs.Write(c06Pong)
		o.WriteOK = werr == nil && n == len(c06Pong)
		conn.release(c.Tail)
		phase = "drain/" + c.Drain
		if c.FailRead > 0 {
			return
		}
		o.Drained, o.DrainErr = c06Drain(cs, c.Drain)
	}()
	t := time.NewTimer(timeout + c06Delta + 3*time.Second)
	select {
	case <-done:
		t.Stop()
	case <-t.C:
		o.Hung = phase
		_ = conn.Close()
		select {
		case <-done:
		case <-time.After(2 * time.Second):
		}
	}
	conn.mu.Lock()
	for _, ch := range conn.chunks {
		o.Input = append(o.Input, ch...)
	}
	o.PongAtPeer = bytes.Equal(conn.written, c06Pong)
	conn.mu.Unlock()
	_ = cs.Close()
	if pc != nil {
		o.DataWithErr = int(pc.dataWithErr.Load())
	}
	return o
}

// c06RunTCP executes one case over real loopback TCP sockets. The tail is sent
// only after the sniffing deadline has passed, so a deadline left armed on the
// socket breaks the relay observably.
func c06RunTCP(c *c06Stream, timeout time.Duration) (o c06StreamObs, infra error) {
	ln, err := net.Listen("tcp4", "127.0.0.1:0")
	if err != nil {
		return o, err
	}
	defer ln.Close()
	var input []byte
	for _, ch := range c.Chunks {
		input = append(input, ch...)
	}
	input = append(input, c.Tail...)
	o.Input = input
	afterSniff := make(chan struct{})
	cliDone := make(chan error, 1)
	var pongGot []byte
	go func() {
		cl, err := net.Dial("tcp4", ln.Addr().String())
		if err != nil {
			cliDone <- err
			return
		}
		defer cl.Close()
		_ = cl.(*net.TCPConn).SetNoDelay(true)
		start := time.Now()
		avail := c.avail(timeout)
		for i, ch := range c.Chunks {
			if i < len(avail) {
				if d := avail[i] - time.Since(start); d > 0 {
					select {
					case <-time.After(d):
					case <-afterSniff: // sniff already over: the rest may follow at once
					}
				}
			}
			if _, err := cl.Write(ch); err != nil {
				cliDone <- err
				return
			}
		}
		<-afterSniff
		if d := timeout + 40*time.Millisecond - time.Since(start); d > 0 {
			time.Sleep(d)
		}
		if _, err := cl.Write(c.Tail); err != nil {
			cliDone <- err
			return
		}
		_ = cl.(*net.TCPConn).CloseWrite()
		_ = cl.SetReadDeadline(time.Now().Add(5 * time.Second))
		pongGot, _ = io.ReadAll(cl)
		cliDone <- nil
	}()
	srv, err := ln.Accept()
	if err != nil {
		return o, err
	}
	wd := time.AfterFunc(timeout+c06Delta+8*time.Second, func() { _ = srv.Close() })
	defer wd.Stop()
	cs := NewConnSniffer(srv, timeout)
	defer cs.Close()
	func() {
		defer func() {
			if r := recover(); r != nil {
				o.Panic = "tcp|" + c06PanicString(r)
			}
		}()
		t0 := time.Now()
		o.Name, o.Err = cs.SniffTcp()
		o.Elapsed = time.Since(t0)
		o.Outcome = c06Outcome(o.Name, o.Err)
		n, werr := cs.Write(c06Pong)
		o.WriteOK = werr == nil && n == len(c06Pong)
		o.RdlZero = true // judged behaviourally below
		close(afterSniff)
		switch c.Drain {
		case "writeto-tcp":
			sink, err := net.Listen("tcp4", "127.0.0.1:0")
			if err != nil {
				infra = err
				return
			}
			defer sink.Close()
			got := make(chan []byte, 1)
			go func() {
				s, err := sink.Accept()
				if err != nil {
					got <- nil
					return
				}
				defer s.Close()
				_ = s.SetReadDeadline(time.Now().Add(timeout + 10*time.Second))
				b, _ := io.ReadAll(s)
				got <- b
			}()
			dst, err := net.Dial("tcp4", sink.Addr().String())
			if err != nil {
				infra = err
				return
			}
			_, o.DrainErr = cs.WriteTo(dst) // *net.TCPConn destination: io.Copy / splice fast path
			_ = dst.Close()
			o.Drained = <-got
		default:
			o.Drained, o.DrainErr = c06Drain(cs, c.Drain)
		}
	}()
	select {
	case <-afterSniff:
	default:
		close(afterSniff)
	}
	if tc, ok := srv.(*net.TCPConn); ok {
		_ = tc.CloseWrite()
	}
	select {
	case err := <-cliDone:
		if err != nil && o.Panic == "" && infra == nil {
			infra = fmt.Errorf("client side: %w", err)
		}
	case <-time.After(8 * time.Second):
		infra = errors.New("client side did not finish")
	}
	o.PongAtPeer = bytes.Equal(pongGot, c06Pong)
	return o, infra
}

// ---- judging --------------------------------------------------------------------

type c06Judge struct {
	m    *vk.Monitor
	sigs map[string]int
}

// viol reports one witness per structural signature (the kit prints only the
// first few witnesses; repeats of the same shape would hide other shapes).
func (j *c06Judge) viol(sig, what string, witness any) {
	if j.sigs == nil {
		j.sigs = map[string]int{}
	}
	j.sigs[sig]++
	if j.sigs[sig] > 1 {
		j.m.Count("repeat_of_reported_violation_shape", 1)
		return
	}
	j.m.Violation(sig, what, witness)
}

func c06Hex(b []byte) string {
	if len(b) > 12000 {
		return hex.EncodeToString(b[:12000]) + "...(" + fmt.Sprint(len(b)) + " bytes)"
	}
	return hex.EncodeToString(b)
}

func c06StreamWitness(c *c06Stream, o *c06StreamObs, timeout time.Duration) map[string]any {
	var chunks []string
	for _, ch := range c.Chunks {
		chunks = append(chunks, c06Hex(ch))
	}
	var avail []string
	for _, a := range c.Avail {
		avail = append(avail, a.String())
	}
	w := map[string]any{"proto": c.Proto, "feature_set": c.Feat, "chunking": c.Chunk, "chunks_hex": chunks, "available_at": avail,
		"sniff_timeout": timeout.String(), "conn": c.Conn, "drain_path": c.Drain, "tail_hex": c06Hex(c.Tail), "carried_name": c.Carried, "rule": c.Rule,
		"got_name": o.Name, "got_err": fmt.Sprint(o.Err), "outcome": o.Outcome, "elapsed": o.Elapsed.String(),
		"drained_len": len(o.Drained), "input_len": len(o.Input), "drain_err": fmt.Sprint(o.DrainErr), "first_read_buffer": o.FirstP}
	if o.Panic != "" {
		w["panic"] = o.Panic
	}
	if c.Adapt != nil {
		w["input_hex"] = c06Hex(o.Input)
	}
	return w
}

func c06FirstDiff(a, b []byte) int {
	n := min(len(a), len(b))
	for i := 0; i < n; i++ {
		if a[i] != b[i] {
			return i
		}
	}
	return n
}

// streamSafety judges everything except recognition; returns false if a
// violation was reported.
func (j *c06Judge) streamSafety(c *c06Stream, o *c06StreamObs, timeout time.Duration) bool {
	m := j.m
	ok := true
	if o.Panic != "" {
		ph, rest, _ := strings.Cut(o.Panic, "|")
		if i := strings.Index(ph, "/"); i > 0 {
			ph = ph[:i]
		}
		j.viol("panic/"+c.Proto+"/"+ph+"/"+c06PanicKind(rest)+"/"+c.Kind, "sniffer panicked on a "+c.Proto+" stream ("+c.Kind+")", c06StreamWitness(c, o, timeout))
		return false
	}
	if o.Hung != "" {
		ph := o.Hung
		if i := strings.Index(ph, "/"); i > 0 {
			ph = ph[:i]
		}
		j.viol("hang/"+ph+"/"+c.Kind, fmt.Sprintf("%s phase did not return within timeout+%v", o.Hung, c06Delta+3*time.Second), c06StreamWitness(c, o, timeout))
		return false
	}
	if o.Elapsed > timeout+c06Delta {
		j.viol("overrun/"+c.Kind, fmt.Sprintf("SniffTcp returned after %v with sniffing timeout %v", o.Elapsed, timeout), c06StreamWitness(c, o, timeout))
		ok = false
	}
	if c.Conn != "nodl" && c.Conn != "tcp" {
		if !o.RdlZero {
			j.viol("deadline-leak/"+o.Outcome, "read deadline still armed on the connection after SniffTcp returned", c06StreamWitness(c, o, timeout))
			ok = false
		}
		if o.RdlSets > 0 {
			m.Count("deadline_set_and_cleared", 1)
		}
	}
	if c.FailRead > 0 {
		// connection died while sniffing: no drain expectation, error must surface
		if o.Err == nil {
			m.Count("connerr_but_found", 1)
		} else {
			m.Count("connerr_reported", 1)
		}
		return ok
	}
	if !o.WriteOK || !o.PongAtPeer {
		j.viol("unusable/write/"+o.Outcome, "post-sniff write through the ConnSniffer did not reach the peer", c06StreamWitness(c, o, timeout))
		ok = false
	}
	if !bytes.Equal(o.Drained, o.Input) {
		d := c06FirstDiff(o.Drained, o.Input)
		w := c06StreamWitness(c, o, timeout)
		w["first_difference_at"] = d
		w["drained_hex_tail"] = c06Hex(o.Drained[max(0, d-16):min(len(o.Drained), d+48)])
		what := fmt.Sprintf("bytes handed to the relay via %s differ from what the client sent: got %d bytes, sent %d, first difference at offset %d (sniff outcome %s, drain error %v)",
			c.Drain, len(o.Drained), len(o.Input), d, o.Outcome, o.DrainErr)
		j.viol("bytes/"+c.Conn2()+"/"+c06DrainClass(c.Drain)+"/"+o.Outcome, what, w)
		ok = false
	} else {
		m.Count("bytes_preserved_"+o.Outcome, 1)
		m.Count("drain_"+c.Drain, 1)
		if o.DrainErr != nil {
			m.Count("drain_complete_but_error", 1)
		}
	}
	return ok
}

func (c *c06Stream) Conn2() string {
	if c.Conn == "tcp" {
		return "tcp"
	}
	return "conn"
}

func c06DrainClass(d string) string {
	switch d {
	case "read", "read-small", "prefix+read", "segments+read":
		return "Read"
	case "writeto", "writeto-tcp":
		return "WriteTo"
	}
	return "direct"
}

// nameRule judges the reported name. junkCheck is used for rule "junk".
func (j *c06Judge) nameRule(proto, kind, rule, carried string, found bool, got string, outcome string, witness func() map[string]any, junkCheck func(got string) bool) bool {
	m := j.m
	switch rule {
	case c06MustFind:
		if !found {
			j.viol("not-recognised/"+proto+"/"+kind+"/"+outcome, fmt.Sprintf("well-formed %s input carrying %q met the statement's preconditions but sniffing answered %s", proto, carried, outcome), witness())
			return false
		}
		fallthrough
	case c06SameOrNone:
		if found && !c06SameName(got, carried) {
			shape := kind
			if got != "" && strings.HasPrefix(c06Canon(carried), got) {
				shape = "truncated-name" // a proper prefix of the carried name
			}
			j.viol("wrong-name/"+proto+"/"+shape, fmt.Sprintf("reported %q, carried %q (%s)", got, carried, kind), witness())
			return false
		}
		if found {
			m.Count("name_equal_"+proto, 1)
			if got != c06Canon(carried) {
				m.Count("name_equal_modulo_trailing_dot", 1)
			}
		}
	case c06None:
		if found {
			j.viol("name-from-nothing/"+proto+"/"+kind, fmt.Sprintf("reported %q but the input carries no host name", got), witness())
			return false
		}
		m.Count("noname_none_reported_"+proto, 1)
	case c06Junk:
		if found {
			if junkCheck != nil && junkCheck(got) {
				m.Count("junk_happens_to_carry_name", 1)
			} else {
				j.viol("name-from-nothing/"+proto+"/"+kind, fmt.Sprintf("reported %q from bytes in which the independent walkers find no such name", got), witness())
				return false
			}
		}
	case c06Free:
		if found {
			m.Count("damaged_input_name_reported", 1)
		}
	}
	return true
}

// ---- packet runner -------------------------------------------------------------------

type c06Packet struct {
	Feat, Class   string
	Version       uint32
	Datagrams     [][]byte
	CompleteAt    []bool
	Rule, Carried string
	InitWithFirst bool
	Kind          string
}

type c06PacketStep struct {
	Name     string
	Err      string
	Outcome  string
	NeedMore bool
}

type c06PacketObs struct {
	Steps        []c06PacketStep
	Panic        string
	Found        bool
	Name         string
	FoundAt      int
	DataBad      string // description of the first Data()/input mismatch
	GaveUpAt     int    // first step with error and !NeedMore while datagrams remain (-1 none)
	AfterCompact string
}

func c06RunPacket(c *c06Packet) (o c06PacketObs) {
	o.GaveUpAt, o.FoundAt = -1, -1
	defer func() {
		if r := recover(); r != nil {
			o.Panic = c06PanicString(r)
		}
	}()
	var s *Sniffer
	defer func() {
		if s != nil {
			_ = s.Close()
		}
	}()
	var fed [][]byte
	// The production caller (control plane ingress loop) hands AppendData a slice of a
	// pooled receive buffer and recycles that buffer when it returns, while the sniffer
	// may hold the datagram until the ClientHello is complete. Model that: one receive
	// buffer, overwritten after every call.
	rx := make([]byte, 0, 2048)
	for i, d := range c.Datagrams {
		in := append([]byte(nil), d...)
		if !c.InitWithFirst {
			rx = append(rx[:0], d...)
			in = rx
		}
		if i == 0 && c.InitWithFirst {
			s = NewPacketSniffer(in, time.Second)
		} else {
			if s == nil {
				s = NewPacketSniffer(nil, time.Second) // control.PacketSnifferPool does exactly this
			}
			s.AppendData(in)
		}
		fed = append(fed, d)
		name, err := s.SniffUdp()
		st := c06PacketStep{Name: name, Outcome: c06Outcome(name, err), NeedMore: s.NeedMore()}
		if err != nil {
			st.Err = err.Error()
		}
		o.Steps = append(o.Steps, st)
		if !bytes.Equal(in, d) && o.DataBad == "" {
			o.DataBad = fmt.Sprintf("caller's datagram %d modified in place (first difference at %d)", i, c06FirstDiff(in, d))
		}
		if !c.InitWithFirst {
			for j := range rx { // the receive buffer is recycled
				rx[j] = 0xEE
			}
		}
		// Sniffer.Data(): what handlePkt replays; must be the ingress datagrams in order
		var nonEmpty [][]byte
		for _, x := range s.Data() {
			if len(x) > 0 {
				nonEmpty = append(nonEmpty, x)
			}
		}
		if o.DataBad == "" {
			if len(nonEmpty) != len(fed) {
				o.DataBad = fmt.Sprintf("after datagram %d Data() holds %d non-empty datagrams, %d were fed", i, len(nonEmpty), len(fed))
			} else {
				for k := range fed {
					if !bytes.Equal(nonEmpty[k], fed[k]) {
						o.DataBad = fmt.Sprintf("after datagram %d Data()[%d] differs from ingress datagram %d at offset %d (len %d vs %d)", i, k, k, c06FirstDiff(nonEmpty[k], fed[k]), len(nonEmpty[k]), len(fed[k]))
						break
					}
				}
			}
		}
		if err == nil {
			o.Found, o.Name, o.FoundAt = true, name, i
			break
		}
		if !st.NeedMore && i < len(c.Datagrams)-1 {
			// control.handlePkt keeps buffering datagrams only while NeedMore() holds;
			// otherwise it routes the flow without a name. Sniffing is over here.
			o.GaveUpAt = i
			break
		}
	}
	if o.Found {
		s.CompactPacketState()
		n2, err2 := s.SniffUdp()
		if err2 != nil || n2 != o.Name {
			o.AfterCompact = fmt.Sprintf("after CompactPacketState SniffUdp = (%q, %v), before (%q, nil)", n2, err2, o.Name)
		}
	}
	return o
}

func c06PacketWitness(c *c06Packet, o *c06PacketObs) map[string]any {
	var dgs []string
	for _, d := range c.Datagrams {
		dgs = append(dgs, c06Hex(d))
	}
	w := map[string]any{"feature_set": c.Feat, "scatter_class": c.Class, "quic_version": fmt.Sprintf("%#x", c.Version), "datagrams_hex": dgs,
		"stream_complete_after_datagram": c.CompleteAt, "carried_name": c.Carried, "rule": c.Rule, "steps": o.Steps,
		"constructor": map[bool]string{true: "NewPacketSniffer(first)", false: "NewPacketSniffer(nil)+AppendData"}[c.InitWithFirst]}
	if o.Panic != "" {
		w["panic"] = o.Panic
	}
	return w
}

func (j *c06Judge) packet(c *c06Packet, o *c06PacketObs) bool {
	m := j.m
	wit := func() map[string]any { return c06PacketWitness(c, o) }
	if o.Panic != "" {
		j.viol("panic/quic/"+c06PanicKind(o.Panic)+"/"+c.Kind, "SniffUdp panicked", wit())
		return false
	}
	ok := true
	if o.DataBad != "" {
		j.viol("bytes/quic/Data/"+c.Kind, o.DataBad, wit())
		ok = false
	} else {
		m.Count("quic_data_preserved", 1)
	}
	if o.AfterCompact != "" {
		j.viol("quic/compact-loses-result", o.AfterCompact, wit())
		ok = false
	}
	last := "none"
	if len(o.Steps) > 0 {
		last = o.Steps[len(o.Steps)-1].Outcome
	}
	vtag := "v1"
	if c.Version == c06QuicV2 {
		vtag = "v2"
	}
	if c.Rule == c06MustFind && !o.Found && o.GaveUpAt >= 0 {
		j.viol("not-recognised/quic/"+vtag+"/"+c.Kind+"/gave-up-early",
			fmt.Sprintf("SniffUdp answered %s with NeedMore()=false after datagram %d although the ClientHello (carrying %q) continues in later datagrams; control.handlePkt stops sniffing there",
				o.Steps[o.GaveUpAt].Outcome, o.GaveUpAt, c.Carried), wit())
		return false
	}
	if !j.nameRule("quic", vtag+"/"+c.Kind, c.Rule, c.Carried, o.Found, o.Name, last, wit, nil) {
		ok = false
	}
	return ok
}

// ---- direct parser calls on guard-page slices --------------------------------------------

type c06DirectFn func(b []byte) (name string, err error)

// direct runs f on data placed against the trailing (and sometimes the leading)
// guard page. Returns found/name of the trailing placement.
func (j *c06Judge) direct(a *c06Arena, parser, kind string, data []byte, both bool, mayModify bool, f c06DirectFn) (name string, err error, ok bool) {
	m := j.m
	ok = true
	run := func(place string, g []byte) (n string, e error) {
		defer func() {
			if r := recover(); r != nil {
				ps := c06PanicString(r)
				ok = false
				j.viol("panic/direct/"+parser+"/"+c06PanicKind(ps)+"/"+kind,
					parser+" panicked / read outside the "+fmt.Sprint(len(data))+" bytes it was given (slice carved next to a PROT_NONE guard page, cap == len)",
					map[string]any{"parser": parser, "placement": place, "input_hex": c06Hex(data), "input_len": len(data), "panic": ps, "input_kind": kind})
				e = errors.New("panic")
			}
		}()
		return f(g)
	}
	g := a.AtEnd(data)
	name, err = run("end-of-page", g)
	if !bytes.Equal(g, data) {
		ok = false
		j.viol("modified-input/direct/"+parser+"/"+kind, fmt.Sprintf("%s left its input modified (first difference at %d)", parser, c06FirstDiff(g, data)),
			map[string]any{"parser": parser, "input_hex": c06Hex(data), "after_hex": c06Hex(g)})
	}
	if both && ok {
		g2 := a.AtStart(data)
		n2, e2 := run("start-of-page", g2)
		if ok && (n2 != name || (e2 == nil) != (err == nil)) {
			ok = false
			j.viol("placement-dependent/direct/"+parser+"/"+kind, fmt.Sprintf("%s result depends on where the same bytes live in memory: (%q,%v) vs (%q,%v)", parser, name, err, n2, e2),
				map[string]any{"parser": parser, "input_hex": c06Hex(data)})
		}
	}
	m.Count("direct_"+parser, 1)
	return name, err, ok
}

func c06DirectTLS(b []byte) (string, error) {
	d, err := extractSniFromTls(quicutils.BuiltinBytesLocator(b))
	if err == nil {
		d = NormalizeDomain(d)
	}
	return d, err
}

func c06DirectHTTP(b []byte) (string, error) {
	d, err := sniffHTTPHostHeader(b)
	if err == nil {
		d = NormalizeDomain(d)
	}
	return d, err
}

func c06DirectQuicBlock(b []byte) (string, error) {
	_ = IsLikelyQuicInitialPacket(b)
	s := NewPacketSniffer(nil, time.Second)
	defer s.Close()
	cr, _, err := sniffQuicBlock(s, nil, b)
	if err != nil {
		return "", err
	}
	d, err := extractSniFromTls(quicutils.NewLinearLocator(cr))
	if err == nil {
		d = NormalizeDomain(d)
	}
	return d, err
}

func c06DirectFrames(b []byte) (string, error) {
	_, err := quicutils.ReassembleCryptos(nil, b)
	return "", err
}
