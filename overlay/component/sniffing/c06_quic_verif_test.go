package sniffing

// C06 monitor, QUIC side: an independent RFC 9001 (v1) / RFC 9369 (v2) Initial
// packet encoder and decoder (standard library + x/crypto/hkdf only; nothing
// from dae's quicutils), a CRYPTO-stream scatterer, and a capture of the
// first flight of the real quic-go client used to validate the codec.

import (
	"context"
	"crypto/aes"
	"crypto/cipher"
	"crypto/sha256"
	"crypto/tls"
	"encoding/binary"
	"errors"
	"fmt"
	"io"
	"math/rand/v2"
	"net"
	"time"

	quic "github.com/olicesx/quic-go"
	"golang.org/x/crypto/hkdf"
)

const (
	c06QuicV1 uint32 = 0x00000001
	c06QuicV2 uint32 = 0x6b3343cf
)

var (
	c06SaltV1 = []byte{0x38, 0x76, 0x2c, 0xf7, 0xf5, 0x59, 0x34, 0xb3, 0x4d, 0x17, 0x9a, 0xe6, 0xa4, 0xc8, 0x0c, 0xad, 0xcc, 0xbb, 0x7f, 0x0a}
	c06SaltV2 = []byte{0x0d, 0xed, 0xe3, 0xde, 0xf7, 0x00, 0xa6, 0xdb, 0x81, 0x93, 0x81, 0xbe, 0x6e, 0x26, 0x9d, 0xcb, 0xf9, 0xbd, 0x2e, 0xd9}
)

// RFC 8446 7.1 HKDF-Expand-Label with empty context.
func c06ExpandLabel(secret []byte, label string, n int) []byte {
	full := "tls13 " + label
	info := make([]byte, 0, 4+len(full))
	info = append(info, byte(n>>8), byte(n), byte(len(full)))
	info = append(info, full...)
	info = append(info, 0)
	out := make([]byte, n)
	if _, err := io.ReadFull(hkdf.Expand(sha256.New, secret, info), out); err != nil {
		panic(err)
	}
	return out
}

type c06QuicKeys struct{ key, iv, hp []byte }

// RFC 9001 5.2 / RFC 9369 3.3: only the salt and the key/iv/hp labels change
// in v2; "client in" stays.
func c06ClientInitialKeys(version uint32, dcid []byte) c06QuicKeys {
	salt, pfx := c06SaltV1, "quic "
	if version == c06QuicV2 {
		salt, pfx = c06SaltV2, "quicv2 "
	}
	initial := hkdf.Extract(sha256.New, dcid, salt)
	client := c06ExpandLabel(initial, "client in", 32)
	return c06QuicKeys{
		key: c06ExpandLabel(client, pfx+"key", 16),
		iv:  c06ExpandLabel(client, pfx+"iv", 12),
		hp:  c06ExpandLabel(client, pfx+"hp", 16),
	}
}

func c06InitialTypeBits(version uint32) byte {
	if version == c06QuicV2 {
		return 0b01 // RFC 9369 3.2
	}
	return 0b00
}

// c06AppendVarint encodes v using exactly size bytes (1,2,4,8); size 0 = minimal.
func c06AppendVarint(b []byte, v uint64, size int) []byte {
	if size == 0 {
		switch {
		case v < 1<<6:
			size = 1
		case v < 1<<14:
			size = 2
		case v < 1<<30:
			size = 4
		default:
			size = 8
		}
	}
	switch size {
	case 1:
		return append(b, byte(v))
	case 2:
		return append(b, 0x40|byte(v>>8), byte(v))
	case 4:
		return append(b, 0x80|byte(v>>24), byte(v>>16), byte(v>>8), byte(v))
	default:
		return append(b, 0xc0|byte(v>>56), byte(v>>48), byte(v>>40), byte(v>>32), byte(v>>24), byte(v>>16), byte(v>>8), byte(v))
	}
}

func c06ReadVarint(b []byte) (uint64, int, error) {
	if len(b) == 0 {
		return 0, 0, io.ErrUnexpectedEOF
	}
	n := 1 << (b[0] >> 6)
	if len(b) < n {
		return 0, 0, io.ErrUnexpectedEOF
	}
	v := uint64(b[0] & 0x3f)
	for i := 1; i < n; i++ {
		v = v<<8 | uint64(b[i])
	}
	return v, n, nil
}

type c06Initial struct {
	Version    uint32
	DCID, SCID []byte
	Token      []byte
	PN         uint64
	PNLen      int // 1..4
	LenSize    int // varint size of the Length field: 1,2,4 (0 = 2 if it fits, like real stacks)
	TokLenSize int // 0 = minimal
	Payload    []byte
}

// c06EncodeInitial builds one protected client Initial packet.
func c06EncodeInitial(p c06Initial) []byte {
	payload := p.Payload
	for len(payload)+p.PNLen < 4 { // header protection sample needs pn+payload >= 4 before the tag
		payload = append(append([]byte(nil), payload...), 0)
	}
	first := byte(0x80|0x40) | c06InitialTypeBits(p.Version)<<4 | byte(p.PNLen-1)
	hdr := []byte{first}
	hdr = binary.BigEndian.AppendUint32(hdr, p.Version)
	hdr = append(hdr, byte(len(p.DCID)))
	hdr = append(hdr, p.DCID...)
	hdr = append(hdr, byte(len(p.SCID)))
	hdr = append(hdr, p.SCID...)
	hdr = c06AppendVarint(hdr, uint64(len(p.Token)), p.TokLenSize)
	hdr = append(hdr, p.Token...)
	length := uint64(p.PNLen + len(payload) + 16)
	ls := p.LenSize
	if ls == 0 {
		ls = 2
	}
	if ls == 1 && length >= 64 {
		ls = 2
	}
	hdr = c06AppendVarint(hdr, length, ls)
	pnOff := len(hdr)
	for i := p.PNLen - 1; i >= 0; i-- {
		hdr = append(hdr, byte(p.PN>>(8*uint(i))))
	}
	k := c06ClientInitialKeys(p.Version, p.DCID)
	blk, _ := aes.NewCipher(k.key)
	aead, _ := cipher.NewGCM(blk)
	nonce := append([]byte(nil), k.iv...)
	for i := 0; i < 8; i++ {
		nonce[len(nonce)-1-i] ^= byte(p.PN >> (8 * uint(i)))
	}
	pkt := aead.Seal(hdr, nonce, payload, hdr)
	hpb, _ := aes.NewCipher(k.hp)
	mask := make([]byte, 16)
	hpb.Encrypt(mask, pkt[pnOff+4:pnOff+4+16])
	pkt[0] ^= mask[0] & 0x0f
	for i := 0; i < p.PNLen; i++ {
		pkt[pnOff+i] ^= mask[1+i]
	}
	return pkt
}

var errC06NotInitial = errors.New("not a client Initial")

// c06DecodeInitial removes protection from the first packet of b (without
// modifying b) and returns header fields, plaintext payload and the rest.
func c06DecodeInitial(b []byte) (p c06Initial, rest []byte, err error) {
	if len(b) < 7 || b[0]&0x80 == 0 {
		return p, nil, errC06NotInitial
	}
	p.Version = binary.BigEndian.Uint32(b[1:5])
	if p.Version != c06QuicV1 && p.Version != c06QuicV2 {
		return p, nil, fmt.Errorf("version %#x", p.Version)
	}
	if (b[0]>>4)&3 != c06InitialTypeBits(p.Version) {
		return p, nil, errC06NotInitial
	}
	i := 5
	rd := func(n int) ([]byte, error) {
		if i+n > len(b) {
			return nil, io.ErrUnexpectedEOF
		}
		s := b[i : i+n]
		i += n
		return s, nil
	}
	l, err := rd(1)
	if err != nil {
		return p, nil, err
	}
	if p.DCID, err = rd(int(l[0])); err != nil {
		return p, nil, err
	}
	if l, err = rd(1); err != nil {
		return p, nil, err
	}
	if p.SCID, err = rd(int(l[0])); err != nil {
		return p, nil, err
	}
	tl, n, err := c06ReadVarint(b[i:])
	if err != nil {
		return p, nil, err
	}
	i += n
	if p.Token, err = rd(int(tl)); err != nil {
		return p, nil, err
	}
	length, n, err := c06ReadVarint(b[i:])
	if err != nil {
		return p, nil, err
	}
	i += n
	pnOff := i
	end := pnOff + int(length)
	if end > len(b) || int(length) < 20 {
		return p, nil, io.ErrUnexpectedEOF
	}
	k := c06ClientInitialKeys(p.Version, p.DCID)
	hpb, _ := aes.NewCipher(k.hp)
	mask := make([]byte, 16)
	hpb.Encrypt(mask, b[pnOff+4:pnOff+20])
	first := b[0] ^ mask[0]&0x0f
	p.PNLen = int(first&3) + 1
	hdr := append([]byte(nil), b[:pnOff+p.PNLen]...)
	hdr[0] = first
	for j := 0; j < p.PNLen; j++ {
		hdr[pnOff+j] ^= mask[1+j]
		p.PN = p.PN<<8 | uint64(hdr[pnOff+j])
	}
	blk, _ := aes.NewCipher(k.key)
	aead, _ := cipher.NewGCM(blk)
	nonce := append([]byte(nil), k.iv...)
	for j := 0; j < 8; j++ {
		nonce[len(nonce)-1-j] ^= byte(p.PN >> (8 * uint(j)))
	}
	p.Payload, err = aead.Open(nil, nonce, b[pnOff+p.PNLen:end], hdr)
	if err != nil {
		return p, nil, err
	}
	return p, b[end:], nil
}

type c06CryptoFrame struct {
	Off  uint64
	Data []byte
}

// c06ParseFrames lists CRYPTO frames; it knows PADDING, PING, ACK, CRYPTO.
func c06ParseFrames(pl []byte) (frames []c06CryptoFrame, err error) {
	for i := 0; i < len(pl); {
		switch pl[i] {
		case 0x00, 0x01:
			i++
		case 0x06:
			i++
			off, n, e := c06ReadVarint(pl[i:])
			if e != nil {
				return nil, e
			}
			i += n
			l, n, e := c06ReadVarint(pl[i:])
			if e != nil {
				return nil, e
			}
			i += n
			if i+int(l) > len(pl) {
				return nil, io.ErrUnexpectedEOF
			}
			frames = append(frames, c06CryptoFrame{off, pl[i : i+int(l)]})
			i += int(l)
		default:
			return nil, fmt.Errorf("frame type %#x", pl[i])
		}
	}
	return frames, nil
}

// c06ReassembleDatagrams decodes every client Initial in the datagrams with the
// independent decoder and returns the contiguous CRYPTO stream prefix.
func c06ReassembleDatagrams(dgs [][]byte) (stream []byte, npkts int, err error) {
	var all []c06CryptoFrame
	for _, d := range dgs {
		rest := d
		for len(rest) > 0 {
			p, r, e := c06DecodeInitial(rest)
			if e != nil {
				if npkts == 0 {
					return nil, 0, e
				}
				break // coalesced non-Initial / padding
			}
			npkts++
			fr, e := c06ParseFrames(p.Payload)
			if e != nil {
				return nil, npkts, e
			}
			all = append(all, fr...)
			rest = r
		}
	}
	max := 0
	for _, f := range all {
		if e := int(f.Off) + len(f.Data); e > max {
			max = e
		}
	}
	buf := make([]byte, max)
	have := make([]bool, max)
	for _, f := range all {
		copy(buf[f.Off:], f.Data)
		for i := range f.Data {
			have[int(f.Off)+i] = true
		}
	}
	n := 0
	for n < max && have[n] {
		n++
	}
	return buf[:n], npkts, nil
}

// ---- scatterer -------------------------------------------------------------

type c06QuicPlan struct {
	Version   uint32
	Datagrams [][]byte
	// Desc is the structural description of how the hello was scattered.
	NPackets, NFrames     int
	Reordered, Duplicated bool
	Overlap, Padded, Ping bool
	Coalesced, TailJunk   bool
	Token                 bool
	ReusedDCID            bool
	FirstHasOffset0       bool
	// CompleteAt[i] is true if after datagram i the CRYPTO stream prefix
	// [0, need) is fully available.
	CompleteAt []bool
}

func (p *c06QuicPlan) Class() string {
	s := fmt.Sprintf("d%d", len(p.Datagrams))
	f := func(b bool, t string) {
		if b {
			s += "+" + t
		}
	}
	f(p.NPackets > len(p.Datagrams), "coal")
	f(p.Reordered, "reord")
	f(p.Duplicated, "dup")
	f(p.Overlap, "ovl")
	f(p.Padded, "pad")
	f(p.Ping, "ping")
	f(p.TailJunk, "junk")
	f(p.Token, "tok")
	f(!p.FirstHasOffset0, "late0")
	return s
}

// c06ScatterHello spreads the handshake message `hello` over 1..4 datagrams of
// client Initial packets. need = number of leading stream bytes that have to
// be present for the whole hello (len(hello)).
// the DCID and version of the flow generated last (generation and sniffing alternate case by case)
var (
	c06PrevDCID              []byte
	c06PrevVersion           uint32
	c06DCIDReuseOtherVersion int
)

func c06ScatterHello(r *rand.Rand, version uint32, hello []byte, simple bool) *c06QuicPlan {
	pl := &c06QuicPlan{Version: version}
	dcid := make([]byte, 8+r.IntN(13))
	for i := range dcid {
		dcid[i] = byte(r.UintN(256))
	}
	// One flow in four opens with the Destination Connection ID of the flow
	// generated before it (a client that starts over in the other version keeps
	// its DCID, RFC 9368; two clients may pick the same one): whatever the sniffer
	// derived for the earlier flow must not be applied to this one.
	if c06PrevDCID != nil && r.IntN(4) == 0 {
		dcid = append([]byte(nil), c06PrevDCID...)
		pl.ReusedDCID = true
		if c06PrevVersion != version {
			c06DCIDReuseOtherVersion++
		}
	}
	c06PrevDCID, c06PrevVersion = append([]byte(nil), dcid...), version
	scid := make([]byte, []int{0, 0, 4, 8, 16, 20}[r.IntN(6)])
	for i := range scid {
		scid[i] = byte(r.UintN(256))
	}
	var token []byte
	if !simple && r.IntN(5) == 0 {
		token = make([]byte, 1+r.IntN(90))
		for i := range token {
			token[i] = byte(r.UintN(256))
		}
		pl.Token = true
	}
	// 1. cut the stream into fragments
	nfr := 1
	if !simple {
		nfr = 1 + r.IntN(9)
	}
	cuts := map[int]bool{}
	for len(cuts) < nfr-1 && len(cuts) < len(hello)-1 {
		cuts[1+r.IntN(len(hello)-1)] = true
	}
	var pts []int
	for i := 1; i < len(hello); i++ {
		if cuts[i] {
			pts = append(pts, i)
		}
	}
	pts = append(pts, len(hello))
	var frags []c06CryptoFrame
	prev := 0
	for _, c := range pts {
		frags = append(frags, c06CryptoFrame{uint64(prev), hello[prev:c]})
		prev = c
	}
	if !simple {
		if r.IntN(3) == 0 { // duplicates
			k := r.IntN(len(frags))
			frags = append(frags, frags[k])
			pl.Duplicated = true
		}
		if r.IntN(3) == 0 && len(hello) > 40 { // overlapping retransmission of an arbitrary window
			a := r.IntN(len(hello) - 20)
			b := a + 1 + r.IntN(len(hello)-a-1)
			frags = append(frags, c06CryptoFrame{uint64(a), hello[a:b]})
			pl.Overlap = true
		}
		if r.IntN(2) == 0 { // reorder
			r.Shuffle(len(frags), func(i, j int) { frags[i], frags[j] = frags[j], frags[i] })
			for i := 1; i < len(frags); i++ {
				if frags[i].Off < frags[i-1].Off {
					pl.Reordered = true
				}
			}
		}
	}
	pl.NFrames = len(frags)
	// 2. distribute fragments over packets, packets over datagrams
	ndg := 1
	if !simple {
		ndg = 1 + r.IntN(4)
	}
	if ndg > len(frags) {
		ndg = len(frags)
	}
	npk := ndg
	if !simple && r.IntN(3) == 0 {
		npk = ndg + r.IntN(3)
	}
	if npk > len(frags) {
		npk = len(frags)
	}
	// packet index for each fragment: non-decreasing, each packet non-empty
	pkOf := make([]int, len(frags))
	for i := range pkOf {
		pkOf[i] = i * npk / len(frags)
	}
	dgOf := make([]int, npk)
	for i := range dgOf {
		dgOf[i] = i * ndg / npk
	}
	pl.NPackets = npk
	pl.Coalesced = npk > ndg
	dgs := make([][]byte, ndg)
	pn := uint64(r.IntN(3))
	for k := 0; k < npk; k++ {
		var payload []byte
		addNoise := func() {
			if simple {
				return
			}
			switch r.IntN(6) {
			case 0:
				payload = append(payload, make([]byte, 1+r.IntN(40))...)
				pl.Padded = true
			case 1:
				payload = append(payload, 0x01)
				pl.Ping = true
			}
		}
		for i, f := range frags {
			if pkOf[i] != k {
				continue
			}
			addNoise()
			payload = append(payload, 0x06)
			os, ls := 0, 0
			if !simple && r.IntN(4) == 0 { // non-minimal varints are legal for fields
				os, ls = []int{2, 4, 8}[r.IntN(3)], []int{2, 4}[r.IntN(2)]
			}
			payload = c06AppendVarint(payload, f.Off, os)
			payload = c06AppendVarint(payload, uint64(len(f.Data)), ls)
			payload = append(payload, f.Data...)
		}
		addNoise()
		last := k == npk-1 || dgOf[k+1] != dgOf[k]
		pnLen := 1 + r.IntN(4)
		lenSize := []int{0, 0, 0, 1, 4}[r.IntN(5)]
		// datagrams carrying Initials are padded to >= 1200 bytes (RFC 9000 14.1):
		// either PADDING frames inside the last packet or junk/zero bytes after it.
		d := dgOf[k]
		hdrLen := 1 + 4 + 1 + len(dcid) + 1 + len(scid) + 1 + len(token) + 1 + pnLen // lower bound, so the datagram ends up >= 1200
		junk := 0
		if last {
			missing := 1200 - len(dgs[d]) - hdrLen - len(payload) - 16
			if missing > 0 {
				if !simple && r.IntN(4) == 0 {
					junk = missing + hdrLen
					pl.TailJunk = true
				} else {
					payload = append(payload, make([]byte, missing)...)
				}
			}
		}
		pkt := c06EncodeInitial(c06Initial{Version: version, DCID: dcid, SCID: scid, Token: token,
			PN: pn, PNLen: pnLen, LenSize: lenSize, Payload: payload})
		pn += 1 + uint64(r.IntN(2))
		dgs[d] = append(dgs[d], pkt...)
		if junk > 0 {
			// what may legitimately follow an Initial in a datagram: zero bytes, or a
			// coalesced 0-RTT long-header packet (opaque to an observer)
			tail := make([]byte, junk)
			if r.IntN(2) == 0 {
				zrtt := byte(0b01)
				if version == c06QuicV2 {
					zrtt = 0b10
				}
				tail[0] = 0xc0 | zrtt<<4 | byte(r.UintN(16))
				binary.BigEndian.PutUint32(tail[1:], version)
				if junk > 6+len(dcid) {
					tail[5] = byte(len(dcid))
					copy(tail[6:], dcid)
					for i := 6 + len(dcid); i < junk; i++ {
						tail[i] = byte(r.UintN(256))
					}
				}
			}
			dgs[d] = append(dgs[d], tail...)
		}
	}
	pl.Datagrams = dgs
	// availability of the full stream after each datagram
	have := make([]bool, len(hello))
	pl.CompleteAt = make([]bool, ndg)
	for d := 0; d < ndg; d++ {
		for i, f := range frags {
			if dgOf[pkOf[i]] == d {
				for j := range f.Data {
					have[int(f.Off)+j] = true
				}
				if f.Off == 0 && d == 0 {
					pl.FirstHasOffset0 = true
				}
			}
		}
		ok := true
		for _, h := range have {
			if !h {
				ok = false
				break
			}
		}
		pl.CompleteAt[d] = ok
	}
	return pl
}

// ---- real quic-go client capture ----------------------------------------------

// c06CaptureQuicGo lets the real quic-go client dial a local UDP socket and
// returns the datagrams of its first flight (before any retransmission).
func c06CaptureQuicGo(version uint32, serverName string) ([][]byte, error) {
	srv, err := net.ListenUDP("udp4", &net.UDPAddr{IP: net.IPv4(127, 0, 0, 1)})
	if err != nil {
		return nil, err
	}
	defer srv.Close()
	cli, err := net.ListenUDP("udp4", &net.UDPAddr{IP: net.IPv4(127, 0, 0, 1)})
	if err != nil {
		return nil, err
	}
	defer cli.Close()
	v := quic.Version1
	if version == c06QuicV2 {
		v = quic.Version2
	}
	ctx, cancel := context.WithCancel(context.Background())
	done := make(chan struct{})
	go func() {
		defer close(done)
		c, err := quic.Dial(ctx, cli, srv.LocalAddr(), &tls.Config{ServerName: serverName, InsecureSkipVerify: true, NextProtos: []string{"h3"}},
			&quic.Config{Versions: []quic.Version{v}})
		if err == nil {
			_ = c.CloseWithError(0, "")
		}
	}()
	var dgs [][]byte
	buf := make([]byte, 65536)
	first := true
	for {
		wait := 80 * time.Millisecond // shorter than the first PTO (>= 200 ms)
		if first {
			wait = 3 * time.Second
		}
		_ = srv.SetReadDeadline(time.Now().Add(wait))
		n, _, err := srv.ReadFromUDP(buf)
		if err != nil {
			break
		}
		first = false
		dgs = append(dgs, append([]byte(nil), buf[:n]...))
		if len(dgs) >= 8 {
			break
		}
	}
	cancel()
	select {
	case <-done:
	case <-time.After(3 * time.Second):
	}
	if len(dgs) == 0 {
		return nil, errors.New("quic-go client sent nothing")
	}
	return dgs, nil
}

// c06HostileFrames builds an Initial payload that is structurally hostile but
// whose CRYPTO bytes (where present) are the real hello's bytes at their real
// offsets, so any name a sniffer reports must still be the carried one.
func c06HostileFrames(r *rand.Rand, hello []byte) (payload []byte, kind string, free bool) {
	crypto := func(off uint64, data []byte, declLen int) {
		payload = append(payload, 0x06)
		payload = c06AppendVarint(payload, off, 0)
		payload = c06AppendVarint(payload, uint64(declLen), 0)
		payload = append(payload, data...)
	}
	half := len(hello) / 2
	switch r.IntN(8) {
	case 0:
		a := r.IntN(len(hello) - 1)
		b := a + 1 + r.IntN(min(200, len(hello)-a-1)+1)
		if b > len(hello) {
			b = len(hello)
		}
		crypto(0, hello[:a], a)
		crypto(uint64(b), hello[b:], len(hello)-b)
		return payload, "gap", false
	case 1:
		crypto(0, hello[:half], half)
		crypto(1<<62-1-uint64(len(hello)-half), hello[half:], len(hello)-half)
		return payload, "huge-offset", false
	case 2:
		crypto(0, hello, len(hello)+1+r.IntN(5000))
		return payload, "len-beyond", false
	case 3:
		payload = append(payload, 0x1c, 0x0a, 0x00, 0x00)
		crypto(0, hello, len(hello))
		return payload, "conn-close-first", false
	case 4:
		crypto(0, hello, len(hello))
		payload = append(payload, 0x1d, 0x00, 0x00)
		return payload, "conn-close-last", false
	case 5:
		payload = append(payload, 0x02, 0x00, 0x00, 0x00, 0x00) // ACK: not sent by a client before it heard from the server
		crypto(0, hello, len(hello))
		return payload, "ack-first", false
	case 6:
		crypto(0, hello[:half], half)
		payload = append(payload, 0x06, 0xc0, 0x00) // CRYPTO frame cut inside its offset varint
		return payload, "truncated-varint", false
	default:
		crypto(0, hello, len(hello))
		other := c06RandBytes(r, 1+r.IntN(len(hello)-1))
		crypto(uint64(r.IntN(len(hello)-len(other)+1)), other, len(other))
		return payload, "overlap-conflict", true
	}
}
