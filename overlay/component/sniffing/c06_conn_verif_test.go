package sniffing

// C06 monitor, plumbing: a scripted in-memory net.Conn with real deadline
// semantics (what arrives when is decided by the case, not by the scheduler),
// and a guard-page arena so that any read outside the bytes handed to a parser
// faults instead of silently succeeding.

import (
	"errors"
	"io"
	"net"
	"os"
	"sync"
	"sync/atomic"
	"time"
	"unsafe"

	"golang.org/x/sys/unix"
)

// ---- scripted conn ---------------------------------------------------------------

type c06Conn struct {
	mu       sync.Mutex
	start    time.Time
	chunks   [][]byte        // segments still to be delivered; one Read never crosses a segment
	availAt  []time.Duration // availability of chunk i, relative to start
	idx      int
	cur      []byte
	released bool // everything (incl. tail) is available now, EOF afterwards
	fill     bool // TCP-like: a Read takes as many available bytes as fit
	noDl     bool // SetReadDeadline unsupported (drives the legacy async read path)
	adapt    func(n int) [][]byte
	adapted  bool

	rdl         time.Time
	rdlSets     int
	rdlNonZero  int
	wake        chan struct{}
	closed      bool
	written     []byte
	reads       int
	firstP      int
	readsAtSniffEnd int
	failAfter   int   // if >0: the failAfter-th Read returns failErr instead of data
	failErr     error
}

func newC06Conn(chunks [][]byte, availAt []time.Duration) *c06Conn {
	c := &c06Conn{start: time.Now(), wake: make(chan struct{})}
	for _, ch := range chunks {
		c.chunks = append(c.chunks, append([]byte(nil), ch...))
	}
	c.availAt = append([]time.Duration(nil), availAt...)
	for len(c.availAt) < len(c.chunks) {
		c.availAt = append(c.availAt, 0)
	}
	return c
}

func (c *c06Conn) kick() {
	close(c.wake)
	c.wake = make(chan struct{})
}

// release makes every pending byte plus tail available at once; EOF follows.
func (c *c06Conn) release(tail []byte) {
	c.mu.Lock()
	defer c.mu.Unlock()
	if len(tail) > 0 {
		c.chunks = append(c.chunks, append([]byte(nil), tail...))
		c.availAt = append(c.availAt, 0)
	}
	c.released = true
	c.kick()
}

type c06TimeoutErr struct{}

func (c06TimeoutErr) Error() string   { return "c06conn: i/o timeout" }
func (c06TimeoutErr) Timeout() bool   { return true }
func (c06TimeoutErr) Temporary() bool { return true }
func (c06TimeoutErr) Unwrap() error   { return os.ErrDeadlineExceeded }

func (c *c06Conn) Read(p []byte) (int, error) {
	for {
		c.mu.Lock()
		if c.closed {
			c.mu.Unlock()
			return 0, net.ErrClosed
		}
		now := time.Now()
		// like the runtime poller: an expired deadline wins over available data
		if !c.noDl && !c.rdl.IsZero() && !now.Before(c.rdl) {
			c.mu.Unlock()
			return 0, c06TimeoutErr{}
		}
		if c.adapt != nil && !c.adapted {
			c.adapted = true
			for _, ch := range c.adapt(len(p)) {
				c.chunks = append(c.chunks, ch)
				c.availAt = append(c.availAt, 0)
			}
		}
		if len(c.cur) == 0 && c.idx < len(c.chunks) {
			if c.released || now.Sub(c.start) >= c.availAt[c.idx] {
				c.cur = c.chunks[c.idx]
				c.idx++
			}
		}
		if len(c.cur) > 0 {
			c.reads++
			if c.reads == 1 {
				c.firstP = len(p)
			}
			if c.failAfter > 0 && c.reads == c.failAfter {
				c.mu.Unlock()
				return 0, c.failErr
			}
			n := copy(p, c.cur)
			c.cur = c.cur[n:]
			for c.fill && n < len(p) && len(c.cur) == 0 && c.idx < len(c.chunks) &&
				(c.released || now.Sub(c.start) >= c.availAt[c.idx]) {
				c.cur = c.chunks[c.idx]
				c.idx++
				k := copy(p[n:], c.cur)
				c.cur = c.cur[k:]
				n += k
			}
			c.mu.Unlock()
			return n, nil
		}
		if c.idx >= len(c.chunks) && c.released {
			c.reads++
			c.mu.Unlock()
			return 0, io.EOF
		}
		// block until next availability, deadline, release or close
		var wait time.Duration = time.Hour
		if c.idx < len(c.chunks) {
			wait = c.availAt[c.idx] - now.Sub(c.start)
		}
		if !c.noDl && !c.rdl.IsZero() {
			if d := c.rdl.Sub(now); d < wait {
				wait = d
			}
		}
		wake := c.wake
		c.mu.Unlock()
		if wait < 0 {
			wait = 0
		}
		t := time.NewTimer(wait)
		select {
		case <-t.C:
		case <-wake:
			t.Stop()
		}
	}
}

func (c *c06Conn) Write(p []byte) (int, error) {
	c.mu.Lock()
	defer c.mu.Unlock()
	if c.closed {
		return 0, net.ErrClosed
	}
	c.written = append(c.written, p...)
	return len(p), nil
}

func (c *c06Conn) Close() error {
	c.mu.Lock()
	defer c.mu.Unlock()
	if !c.closed {
		c.closed = true
		c.kick()
	}
	return nil
}

// c06PrefixConn models a wrapper that sits between the socket and the sniffer and replays bytes
// it has already taken off the socket (what a prefetch step in front of the sniffer leaves
// behind). Like such wrappers do, a Read hands out the held bytes and tops the caller's buffer up
// with ONE read of the socket, so a Read can return n > 0 together with the socket's error
// (deadline expired, EOF) - which the io.Reader contract allows and callers have to honour.
type c06PrefixConn struct {
	*c06Conn
	prefix      []byte
	off         int
	dataWithErr atomic.Int32
}

func (c *c06PrefixConn) Read(p []byte) (int, error) {
	n := 0
	if c.off < len(c.prefix) {
		n = copy(p, c.prefix[c.off:])
		c.off += n
		if n == len(p) {
			return n, nil
		}
	}
	m, err := c.c06Conn.Read(p[n:])
	if n > 0 && err != nil {
		c.dataWithErr.Add(1)
	}
	return n + m, err
}

type c06Addr string

func (a c06Addr) Network() string { return "tcp" }
func (a c06Addr) String() string  { return string(a) }

func (c *c06Conn) LocalAddr() net.Addr  { return c06Addr("192.0.2.1:443") }
func (c *c06Conn) RemoteAddr() net.Addr { return c06Addr("198.51.100.7:50000") }

var errC06NoDeadline = errors.New("c06conn: deadlines unsupported")

func (c *c06Conn) SetReadDeadline(t time.Time) error {
	c.mu.Lock()
	defer c.mu.Unlock()
	if c.noDl {
		return errC06NoDeadline
	}
	c.rdl = t
	c.rdlSets++
	if !t.IsZero() {
		c.rdlNonZero++
	}
	c.kick()
	return nil
}

func (c *c06Conn) SetDeadline(t time.Time) error      { return c.SetReadDeadline(t) }
func (c *c06Conn) SetWriteDeadline(t time.Time) error { return nil }

func (c *c06Conn) snapshot() (rdl time.Time, sets, nonZero, reads, firstP int, written []byte) {
	c.mu.Lock()
	defer c.mu.Unlock()
	return c.rdl, c.rdlSets, c.rdlNonZero, c.reads, c.firstP, append([]byte(nil), c.written...)
}

// ---- guard-page arena ----------------------------------------------------------------

type c06Arena struct {
	mem    []byte
	ps     int
	usable int
}

// newC06Arena maps [PROT_NONE page][pages RW][PROT_NONE page].
func newC06Arena(pages int) (*c06Arena, error) {
	ps := os.Getpagesize()
	mem, err := unix.Mmap(-1, 0, (pages+2)*ps, unix.PROT_READ|unix.PROT_WRITE, unix.MAP_ANON|unix.MAP_PRIVATE)
	if err != nil {
		return nil, err
	}
	if err := unix.Mprotect(mem[:ps], unix.PROT_NONE); err != nil {
		return nil, err
	}
	if err := unix.Mprotect(mem[(pages+1)*ps:], unix.PROT_NONE); err != nil {
		return nil, err
	}
	return &c06Arena{mem: mem, ps: ps, usable: pages * ps}, nil
}

func (a *c06Arena) Close() { _ = unix.Munmap(a.mem) }

// AtEnd copies b so that its last byte is the last byte before the trailing
// guard page; cap == len, so re-slicing beyond it panics and a raw over-read faults.
func (a *c06Arena) AtEnd(b []byte) []byte {
	end := a.ps + a.usable
	s := a.mem[end-len(b) : end : end]
	copy(s, b)
	return s
}

// AtStart places b right after the leading guard page (catches under-reads).
func (a *c06Arena) AtStart(b []byte) []byte {
	s := a.mem[a.ps : a.ps+len(b) : a.ps+len(b)]
	copy(s, b)
	return s
}

// peekBeyond reads the first byte of the trailing guard page (self-test only).
func (a *c06Arena) peekBeyond() byte {
	p := unsafe.Pointer(&a.mem[a.ps+a.usable-1])
	return *(*byte)(unsafe.Add(p, 1))
}
