package sniffing

// C06 monitor: "Sniffing finds the name that is there and never alters or
// withholds payload". Workload assembly; see c06_run_verif_test.go for the
// runners/oracles and c06_gen/c06_quic for the independent generators.

import (
	"bytes"
	"encoding/binary"
	"fmt"
	"math/rand/v2"
	"runtime/debug"
	"sort"
	"strings"
	"sync"
	"testing"
	"time"

	vk "github.com/daeuniverse/dae/verifkit"
)

type c06TLSItem struct {
	Rec     []byte // one TLS record holding the whole ClientHello
	HS      []byte
	Name    string // carried name ("" if none)
	HasName bool
	Feat    string
	Info    *c06HelloInfo
	Own     *c06OwnHello
}

var c06Sink byte

type c06Run struct {
	m    *vk.Monitor
	j    *c06Judge
	r    *rand.Rand
	a    *c06Arena
	seen map[string]int
}

func (x *c06Run) stop() bool { return x.m.Violations() >= 14 }

// executeStream runs a case (with the load-robust re-runs) without touching the monitor.
func c06ExecuteStream(c *c06Stream) c06StreamObs {
	timeout := c06Timeout
	run := func() c06StreamObs {
		if c.Conn == "tcp" {
			o, infra := c06RunTCP(c, timeout)
			if infra != nil && o.Panic == "" {
				o.Hung = "infra:" + infra.Error()
			}
			return o
		}
		return c06RunStream(c, timeout)
	}
	o := run()
	retries := 0
	// a schedule that delivers everything at once or within a few ms can only time
	// out if this process was starved; re-run with longer sniffing timeouts before
	// believing it (a logic error does not depend on the timeout's size)
	for _, tmo := range []time.Duration{time.Second, 3 * time.Second} {
		if c.Stall() || c.EOFAfterChunks || c.FailRead > 0 || o.Panic != "" {
			break
		}
		if o.Outcome != "timeout" && !strings.HasPrefix(o.Hung, "infra:") {
			break
		}
		retries++
		timeout = tmo
		o = run()
	}
	if o.Panic == "" && (o.Hung != "" || o.Elapsed > timeout+c06Delta) && retries == 0 {
		retries++
		o = run() // an overrun/hang must repeat to be believed
	}
	o.Retries, o.Timeout = retries, timeout
	return o
}

func (x *c06Run) judgeStream(c *c06Stream, o *c06StreamObs, junkCheck func(string) bool) {
	m := x.m
	m.Eval(1)
	if o.Retries > 0 {
		m.Count("reruns_after_timeout_or_overrun", int64(o.Retries))
	}
	if strings.HasPrefix(o.Hung, "infra:") {
		m.Count("tcp_infra_failure_skipped", 1)
		return
	}
	m.Count("stream_cases", 1)
	m.Count("conn_"+c.Conn, 1)
	if o.DataWithErr > 0 {
		m.Count("sniffer_read_got_data_together_with_error", 1)
		if c.EOFAfterChunks {
			m.Count("sniffer_read_got_data_together_with_eof", 1)
		} else {
			m.Count("sniffer_read_got_data_together_with_timeout", 1)
		}
	}
	ok := x.j.streamSafety(c, o, o.Timeout)
	if o.Panic != "" || o.Hung != "" {
		return
	}
	m.Count("outcome_"+o.Outcome, 1)
	m.Count("outcome_"+o.Outcome+"_"+c.Proto, 1)
	wit := func() map[string]any { return c06StreamWitness(c, o, o.Timeout) }
	if !x.j.nameRule(c.Proto, c.Kind, c.Rule, c.Carried, o.Outcome == "found", o.Name, o.Outcome, wit, junkCheck) {
		ok = false
	}
	if c.Stall() {
		m.Count("stall_cases_"+o.Outcome, 1)
	}
	m.Count("rule_"+c.Rule, 1)
	if ok {
		m.Distinct(c.Proto + "|" + c.Feat + "|" + c.Chunk + "|" + o.Outcome)
	}
	if m.WantSample() && x.seen["sample|"+c.Proto+o.Outcome] == 0 && len(o.Input) < 700 {
		x.seen["sample|"+c.Proto+o.Outcome]++
		w := c06StreamWitness(c, o, o.Timeout)
		m.Sample(w)
	}
}

func (x *c06Run) stream(c *c06Stream) {
	if x.stop() {
		return
	}
	o := c06ExecuteStream(c)
	x.judgeStream(c, &o, nil)
}

// parallel runs cases on a worker pool (they sleep), judging in case order.
func (x *c06Run) parallel(cases []*c06Stream, workers int) {
	obs := make([]c06StreamObs, len(cases))
	var wg sync.WaitGroup
	ch := make(chan int)
	for w := 0; w < workers; w++ {
		wg.Add(1)
		go func() {
			defer wg.Done()
			for i := range ch {
				obs[i] = c06ExecuteStream(cases[i])
			}
		}()
	}
	for i := range cases {
		ch <- i
	}
	close(ch)
	wg.Wait()
	for i := range cases {
		if x.stop() {
			return
		}
		x.judgeStream(cases[i], &obs[i], nil)
	}
}

func (x *c06Run) pickDrain() string { return c06Drains[x.r.IntN(len(c06Drains))] }

func (x *c06Run) tail() []byte {
	if x.r.IntN(5) == 0 {
		return nil
	}
	return c06RandBytes(x.r, 1+x.r.IntN(64))
}

func (x *c06Run) conn() string {
	switch x.r.IntN(12) {
	case 0:
		return "fill"
	case 1:
		return "nodl"
	}
	return "seg"
}

func c06Cut(b []byte, pts []int) [][]byte {
	var out [][]byte
	prev := 0
	for _, p := range pts {
		out = append(out, b[prev:p])
		prev = p
	}
	return append(out, b[prev:])
}

func c06RandCuts(r *rand.Rand, n, k int, minFirst int) []int {
	set := map[int]bool{}
	for tries := 0; len(set) < k && tries < 100; tries++ {
		if n-1 <= minFirst {
			break
		}
		set[minFirst+r.IntN(n-minFirst)] = true
	}
	delete(set, 0)
	delete(set, n)
	var pts []int
	for p := range set {
		pts = append(pts, p)
	}
	sort.Ints(pts)
	return pts
}

func (it *c06TLSItem) rule(must bool) string {
	switch {
	case !it.HasName:
		return c06None
	case must:
		return c06MustFind
	}
	return c06SameOrNone
}

func (x *c06Run) tlsCase(it *c06TLSItem, chunkClass string, chunks [][]byte, must bool) *c06Stream {
	kind := "std"
	if it.Own != nil {
		kind = "own"
	}
	return &c06Stream{Proto: "tls", Feat: it.Feat, Chunk: chunkClass, Chunks: chunks, Rule: it.rule(must), Carried: it.Name,
		Drain: x.pickDrain(), Conn: x.conn(), Tail: x.tail(), Kind: kind + "/" + strings.TrimRight(chunkClass, "0123456789@")}
}

// c06ExactHello builds a one-record ClientHello whose record is exactly n
// bytes long (what fills the sniffer's read buffer to the last byte), ending
// in the server_name extension. variant 0 is well-formed; 1.. are damaged tails.
func c06ExactHello(r *rand.Rand, n int, name string, variant int) []byte {
	h := &c06Hello{LegacyVersion: 0x0303, Random: c06RandBytes(r, 32), SessionID: c06RandBytes(r, 32), Suites: []uint16{0x1301, 0x1302, 0xc02f}, Compression: []byte{0}}
	h.Exts = []c06Ext{{43, []byte{2, 3, 4}}, {10, []byte{0, 2, 0, 0x1d}}, {21, nil}}
	var last c06Ext
	switch variant {
	case 0:
		last = c06Ext{0, c06SniPayload([]c06SniEntry{{0, []byte(name)}})}
	case 1:
		last = c06Ext{0, nil}
	case 2:
		last = c06Ext{0, []byte{0}}
	case 3:
		last = c06Ext{0, []byte{0, 9}} // list length points past the end
	case 4:
		last = c06Ext{0, []byte{0, 3, 0, 0, 200}} // name length points past the end
	case 5:
		last = c06Ext{0, []byte{0, 4, 0, 0, 1}} // entry header complete, name byte missing
	default:
		last = c06Ext{0, []byte{0, 2, 0, 0}} // entry truncated inside its length
	}
	h.Exts = append(h.Exts, last)
	base := len(h.Marshal()) + 5
	if n < base {
		n = base
	}
	h.Exts[2].Data = make([]byte, n-base)
	return c06Records(h.Marshal(), 0x0301, nil)
}

// c06Hostile applies one structural mutation to a handshake message.
func c06Hostile(r *rand.Rand, it *c06TLSItem) ([]byte, string) {
	hs := append([]byte(nil), it.HS...)
	// locate fields with the independent walker's knowledge of the layout
	sidLenAt := 4 + 2 + 32
	if len(hs) < sidLenAt+1 {
		return hs, "short"
	}
	suitesAt := sidLenAt + 1 + int(hs[sidLenAt])
	if len(hs) < suitesAt+2 {
		return hs, "short"
	}
	compAt := suitesAt + 2 + int(binary.BigEndian.Uint16(hs[suitesAt:]))
	if len(hs) < compAt+1 {
		return hs, "short"
	}
	extAt := compAt + 1 + int(hs[compAt])
	switch v := r.IntN(9); v {
	case 0:
		hs[sidLenAt] = byte(200 + r.IntN(56))
		return hs, "sidlen-beyond"
	case 1:
		binary.BigEndian.PutUint16(hs[suitesAt:], uint16(len(hs)))
		return hs, "suiteslen-beyond"
	case 2:
		hs[compAt] = 255
		return hs, "complen-beyond"
	case 3:
		if extAt+2 <= len(hs) {
			binary.BigEndian.PutUint16(hs[extAt:], binary.BigEndian.Uint16(hs[extAt:])+uint16(1+r.IntN(5)))
		}
		return hs, "extslen-beyond"
	case 4:
		if extAt+2 <= len(hs) {
			binary.BigEndian.PutUint16(hs[extAt:], binary.BigEndian.Uint16(hs[extAt:])-uint16(1+r.IntN(5)))
		}
		return hs, "extslen-short"
	case 5, 6, 7:
		// replace the tail by a damaged server_name extension
		tails := [][]byte{{0, 0, 0, 0}, {0, 0, 0, 1, 0}, {0, 0, 0, 2, 0, 9}, {0, 0, 0, 5, 0, 3, 0, 0, 200}, {0, 0, 0, 5, 0, 4, 0, 0, 1}, {0, 0, 0, 4, 0, 2, 0, 0}, {0, 0}, {0, 0, 0}}
		t := tails[r.IntN(len(tails))]
		// drop existing extensions after a random earlier extension boundary: rebuild from scratch
		h := &c06Hello{LegacyVersion: 0x0303, Random: hs[6:38], SessionID: c06RandBytes(r, []int{0, 32}[r.IntN(2)]), Suites: []uint16{0x1301}, Compression: []byte{0},
			Exts: []c06Ext{{23, nil}, {0xff01, []byte{0}}}}
		out := h.Marshal()
		out = append(out, t...)
		// fix extension block length and handshake length
		eAt := 4 + 2 + 32 + 1 + len(h.SessionID) + 2 + 2 + 1 + 1
		binary.BigEndian.PutUint16(out[eAt:], uint16(len(out)-eAt-2))
		n := len(out) - 4
		out[1], out[2], out[3] = byte(n>>16), byte(n>>8), byte(n)
		return out, "sni-tail-damaged"
	default:
		// extension length of a random extension points past the end
		if extAt+6 <= len(hs) {
			binary.BigEndian.PutUint16(hs[extAt+4:], 0xfff0)
		}
		return hs, "extlen-beyond"
	}
}

func TestVerifC06(t *testing.T) {
	m := vk.NewMonitor("C06", "main", "exploration",
		"independently generated inputs (crypto/tls handshakes, own ClientHello encoder with GREASE/padding/32-byte session ids/two SNI entries/SNI position, "+
			"HTTP/1 heads from a method x header order x case x Host form table, own RFC 9001/9369 Initial encoder scattering CRYPTO frames over 1-4 datagrams, real quic-go first flights) "+
			"and hostile ones (random, every truncation, bit flips, damaged length fields, buffer-filling records) x chunkings (every 2-cut, random 3-6 cuts, delays 0/short/>timeout, EOF) x drain paths; "+
			"distinct = (protocol, generator feature set, chunking/scatter class, outcome class); non-trivial = every case runs the production entry point end to end "+
			"(NewConnSniffer+SniffTcp+drain, or NewPacketSniffer+AppendData+SniffUdp+Data) and is judged on name, bytes, deadline and usability")
	m.SetFloor(120)
	m.Assume("the hello/head/Initial generators and the independent walker/decoder are trusted; the QUIC codec is validated in-run against the real quic-go client (decode + bit-exact re-encode of its first packet) ",
		"HTTP recognition is judged for the RFC 9110/5789 methods only, and only when the head arrives in one read; ClientHellos fragmented over several TLS records are judged on 'no wrong name' and bytes only (recorded, not judged for recognition)",
		"waiting is judged with a 2 s allowance over the 150 ms sniffing timeout and only if the overrun repeats; in-time schedules that time out are re-run with 1 s and 3 s timeouts before being believed",
		"out-of-bounds reads are observable only where a parser works on caller memory (direct calls on guard-page slices) or when the read buffer is filled to capacity; inside the sniffer's own pooled buffer an over-read within capacity is invisible")
	debug.SetPanicOnFault(true)
	arena, err := newC06Arena(16)
	if err != nil {
		m.Inconclusive("cannot map guard-page arena: %v", err)
		m.Done(t)
		return
	}
	defer arena.Close()
	func() {
		defer func() {
			if recover() != nil {
				m.Count("guard_selftest_fault_caught", 1)
			}
		}()
		c06Sink = arena.peekBeyond()
	}()
	r := vk.NewRand(0xC06)
	x := &c06Run{m: m, j: &c06Judge{m: m}, r: r, a: arena, seen: map[string]int{}}

	// ---------------------------------------------------------------- corpus
	var items []*c06TLSItem
	nStd := vk.Scale(150, 4000)
	for i := 0; i < nStd; i++ {
		name := c06RandName(r)
		switch r.IntN(12) {
		case 0:
			name = ""
		case 1:
			name = "192.0.2.7" // crypto/tls sends no SNI for IP literals
		}
		cfg, feat := c06StdConfig(r, name)
		rec, err := c06CaptureStdHello(cfg)
		if err != nil {
			m.Inconclusive("crypto/tls capture failed: %v", err)
			break
		}
		n := int(binary.BigEndian.Uint16(rec[3:]))
		if 5+n != len(rec) {
			m.Count("std_hello_multi_record_skipped", 1)
			continue
		}
		info, werr := c06WalkHello(rec[5:])
		want := strings.TrimSuffix(name, ".")
		if name == "192.0.2.7" {
			want = ""
		}
		if werr != nil || info.HasName != (want != "") || info.Name != want {
			m.Inconclusive("generator cross-check failed: crypto/tls hello for %q walked as (%v,%q,%v)", name, info != nil && info.HasName, fmt.Sprint(info), werr)
			break
		}
		items = append(items, &c06TLSItem{Rec: rec, HS: rec[5:], Name: info.Name, HasName: info.HasName, Feat: feat, Info: info})
		m.Count("gen_std_hellos", 1)
	}
	nOwn := vk.Scale(400, 12000)
	for i := 0; i < nOwn; i++ {
		name := c06RandName(r)
		if r.IntN(7) == 0 {
			name = ""
		}
		o := c06GenOwnHello(r, name, false)
		hs := o.H.Marshal()
		info, werr := c06WalkHello(hs)
		if werr != nil || info.HasName != (name != "") || info.Name != name {
			m.Inconclusive("generator cross-check failed: own hello %s for %q walked as %v %v", o.Feat, name, info, werr)
			break
		}
		if len(hs) > 16384 {
			continue
		}
		rec := c06Records(hs, []uint16{0x0301, 0x0303}[r.IntN(2)], nil)
		items = append(items, &c06TLSItem{Rec: rec, HS: hs, Name: name, HasName: name != "", Feat: o.Feat, Info: info, Own: o})
		m.Count("gen_own_hellos", 1)
	}
	r.Shuffle(len(items), func(i, k int) { items[i], items[k] = items[k], items[i] })

	// ------------------------------------------------- TLS: whole, cuts, records
	exhaustBudget := vk.Scale(40, 1500)
	for _, it := range items {
		if x.stop() {
			break
		}
		// whole record in one read, optionally followed by more bytes in the same read
		rec := it.Rec
		cls := "whole"
		if r.IntN(3) == 0 {
			rec = append(append([]byte(nil), rec...), 0x17, 3, 3, 0, 8, 1, 2, 3, 4, 5, 6, 7, 8)
			cls = "whole+more"
		}
		x.stream(x.tlsCase(it, cls, [][]byte{rec}, true))
		// random 3..6-way cuts
		for k := 0; k < 2; k++ {
			minFirst := 5
			if r.IntN(6) == 0 {
				minFirst = 1
			}
			pts := c06RandCuts(r, len(it.Rec), 2+r.IntN(4), minFirst)
			must := len(pts) > 0 && pts[0] >= 5
			c := x.tlsCase(it, fmt.Sprintf("cut%d", len(pts)+1), c06Cut(it.Rec, pts), must)
			if !must {
				c.Chunk = "cut-in-record-header"
				m.Count("tls_cut_inside_record_header_not_judged_for_recognition", 1)
			}
			x.stream(c)
		}
		// every 2-cut
		if len(it.Rec) <= 600 && exhaustBudget > 0 {
			exhaustBudget--
			m.Count("tls_hellos_cut_exhaustively", 1)
			for k := 1; k < len(it.Rec); k++ {
				c := x.tlsCase(it, "2cut", c06Cut(it.Rec, []int{k}), k >= 5)
				c.Conn = "seg"
				switch {
				case k < 5:
					c.Chunk = "cut-in-record-header"
					m.Count("tls_cut_inside_record_header_not_judged_for_recognition", 1)
				case k < 44:
					c.Chunk = "2cut-early"
				case k >= len(it.Rec)-8:
					c.Chunk = "2cut-late"
				}
				x.stream(c)
			}
		}
		// byte-at-a-time after the header for small hellos
		if len(it.Rec) <= 400 && r.IntN(6) == 0 {
			pts := []int{5}
			for k := 6; k < len(it.Rec); k++ {
				pts = append(pts, k)
			}
			c := x.tlsCase(it, "bytewise", c06Cut(it.Rec, pts), true)
			c.Conn = "seg"
			x.stream(c)
		}
		// the same hello fragmented over 2..3 TLS records (recognition recorded, not judged)
		if r.IntN(4) == 0 && len(it.HS) > 60 {
			cuts := c06RandCuts(r, len(it.HS), 1+r.IntN(2), 1)
			multi := c06Records(it.HS, 0x0303, cuts)
			c := x.tlsCase(it, fmt.Sprintf("records%d", len(cuts)+1), [][]byte{multi}, false)
			c.Feat += "+multirecord"
			o := c06ExecuteStream(c)
			x.judgeStream(c, &o, nil)
			if it.HasName && o.Outcome != "found" {
				m.Count("tls_multirecord_hello_not_recognised_recorded_only", 1)
			}
		}
	}

	// ------------------------------------------------- TLS: buffer-filling records
	for i := 0; i < vk.Scale(40, 400) && !x.stop(); i++ {
		variant := i % 7
		name := c06RandName(r)
		c := &c06Stream{Proto: "tls", Feat: fmt.Sprintf("own/exact-fill/v%d", variant), Chunk: "fills-read-buffer", Rule: c06Free, Carried: name,
			Drain: x.pickDrain(), Conn: "seg", Tail: x.tail(), Kind: "exact-fill"}
		if variant == 0 {
			c.Rule = c06MustFind
		}
		extra := []int{0, 0, 1, 7}[r.IntN(4)]
		c.Adapt = func(n int) [][]byte {
			rec := c06ExactHello(r, n, name, variant)
			if extra > 0 {
				return [][]byte{rec, c06RandBytes(r, extra)}
			}
			return [][]byte{rec}
		}
		o := c06ExecuteStream(c)
		x.judgeStream(c, &o, nil)
		if len(o.Input) >= o.FirstP && o.FirstP > 0 {
			m.Count("read_buffer_filled_to_capacity", 1)
		}
	}

	// ------------------------------------------------- TLS: hostile structure, truncations, flips
	small := []*c06TLSItem{}
	for _, it := range items {
		if len(it.Rec) <= 600 {
			small = append(small, it)
		}
	}
	for i := 0; i < vk.Scale(500, 20000) && !x.stop(); i++ {
		it := items[r.IntN(len(items))]
		hs, what := c06Hostile(r, it)
		if len(hs) <= 16000 {
			c := &c06Stream{Proto: "tls", Feat: "hostile/" + what, Chunk: "whole", Chunks: [][]byte{c06Records(hs, 0x0303, nil)}, Rule: c06Free, Carried: it.Name,
				Drain: x.pickDrain(), Conn: x.conn(), Tail: x.tail(), Kind: "hostile/" + what}
			x.stream(c)
		}
		if len(hs) <= arena.usable {
			m.Eval(1)
			x.j.direct(arena, "extractSniFromTls", "hostile/"+what, hs, i%4 == 0, false, c06DirectTLS)
		}
	}
	// every truncation: re-framed through the stream path, raw through the parser
	for i := 0; i < vk.Scale(4, 40) && i < len(small) && !x.stop(); i++ {
		it := small[i]
		for L := 0; L < len(it.HS); L++ {
			c := &c06Stream{Proto: "tls", Feat: it.Feat, Chunk: "truncated-reframed", Chunks: [][]byte{c06Records(it.HS[:L], 0x0303, nil)},
				Rule: it.rule(false), Carried: it.Name, Drain: x.pickDrain(), Conn: "seg", Tail: x.tail(), Kind: "truncated"}
			x.stream(c)
		}
		m.Count("tls_hellos_truncated_exhaustively_stream", 1)
	}
	for i := 0; i < vk.Scale(40, 400) && i < len(items) && !x.stop(); i++ {
		it := items[i]
		if len(it.HS) > 2500 {
			continue
		}
		for L := 0; L <= len(it.HS); L++ {
			m.Eval(1)
			name, err, ok := x.j.direct(arena, "extractSniFromTls", "truncated", it.HS[:L], L%16 == 0, false, c06DirectTLS)
			if !ok {
				break
			}
			rule := it.rule(L == len(it.HS))
			x.j.nameRule("tls", "direct/truncated", rule, it.Name, err == nil, name, c06Outcome(name, err),
				func() map[string]any {
					return map[string]any{"parser": "extractSniFromTls", "handshake_hex": c06Hex(it.HS), "truncated_to": L, "got": name, "err": fmt.Sprint(err)}
				}, nil)
		}
		m.Count("tls_hellos_truncated_exhaustively_direct", 1)
	}
	// bit flips
	flipRule := func(it *c06TLSItem, hsByte int) string {
		if hsByte >= 0 && it.Info.NameNeutral[hsByte] {
			return it.rule(false)
		}
		return c06Free
	}
	for i := 0; i < vk.Scale(10, 80) && i < len(small) && !x.stop(); i++ {
		it := small[len(small)-1-i]
		// all bits through the parser
		for bit := 0; bit < len(it.HS)*8; bit++ {
			f := append([]byte(nil), it.HS...)
			f[bit/8] ^= 1 << (bit % 8)
			m.Eval(1)
			name, err, ok := x.j.direct(arena, "extractSniFromTls", "bitflip", f, false, false, c06DirectTLS)
			if !ok {
				break
			}
			rule := flipRule(it, bit/8)
			if rule != c06Free {
				m.Count("flip_name_neutral_judged", 1)
			} else {
				m.Count("flip_name_influencing_safety_only", 1)
			}
			x.j.nameRule("tls", "direct/bitflip", rule, it.Name, err == nil, name, c06Outcome(name, err),
				func() map[string]any {
					return map[string]any{"parser": "extractSniFromTls", "handshake_hex": c06Hex(it.HS), "flipped_bit": bit, "got": name, "err": fmt.Sprint(err)}
				}, nil)
		}
		// a sample through the stream path
		for k := 0; k < vk.Scale(120, 600) && !x.stop(); k++ {
			bit := r.IntN(len(it.Rec) * 8)
			f := append([]byte(nil), it.Rec...)
			f[bit/8] ^= 1 << (bit % 8)
			rule := flipRule(it, bit/8-5)
			chunks := [][]byte{f}
			cls := "flip/whole"
			if bit/8 == 3 || bit/8 == 4 {
				// the record now announces a different length: the missing rest never comes
				cls = "flip/record-length"
			} else if r.IntN(3) == 0 {
				chunks = c06Cut(f, c06RandCuts(r, len(f), 1+r.IntN(3), 5))
				cls = "flip/cut"
			}
			c := &c06Stream{Proto: "tls", Feat: it.Feat, Chunk: cls, Chunks: chunks, Rule: rule, Carried: it.Name,
				Drain: x.pickDrain(), Conn: "seg", Tail: x.tail(), Kind: "bitflip", EOFAfterChunks: cls == "flip/record-length"}
			if c.EOFAfterChunks {
				c.Tail = nil
				if k%8 != 0 { // each of these spins until the sniffing deadline; keep a few
					continue
				}
			}
			x.stream(c)
		}
	}

	// ------------------------------------------------- HTTP
	nHTTP := vk.Scale(700, 30000)
	var heads []*c06HTTPHead
	for i := 0; i < nHTTP && !x.stop(); i++ {
		h := c06GenHTTP(r)
		heads = append(heads, h)
		rule := c06None
		switch {
		case h.HasHost && h.StdMeth:
			rule = c06MustFind
		case h.HasHost:
			rule = c06SameOrNone
		}
		c := &c06Stream{Proto: "http", Feat: h.Feat, Chunk: "one-read", Chunks: [][]byte{h.Bytes}, Rule: rule, Carried: h.HostName,
			Drain: x.pickDrain(), Conn: x.conn(), Tail: x.tail(), Kind: "one-read"}
		o := c06ExecuteStream(c)
		x.judgeStream(c, &o, nil)
		if h.HasHost && !h.StdMeth && o.Outcome != "found" {
			m.Count("http_extension_method_not_recognised_recorded_only", 1)
		}
		// split reads: recognition is not promised; a reported name must still be the carried one
		if i%2 == 0 {
			var k int
			cls := "split"
			if h.HasHost && r.IntN(2) == 0 {
				k = h.HostLineStart + 1 + r.IntN(h.HostLineEnd-h.HostLineStart)
				cls = "split-in-host-line"
			} else {
				k = 1 + r.IntN(len(h.Bytes)-1)
				if h.HasHost && k > h.HostLineStart && k <= h.HostLineEnd+1 {
					cls = "split-in-host-line"
				}
			}
			r2 := c06SameOrNone
			if !h.HasHost {
				r2 = c06None
			}
			c2 := &c06Stream{Proto: "http", Feat: h.Feat, Chunk: cls, Chunks: c06Cut(h.Bytes, []int{k}), Rule: r2, Carried: h.HostName,
				Drain: x.pickDrain(), Conn: "seg", Tail: x.tail(), Kind: cls}
			x.stream(c2)
		}
	}
	// HTTP parser on guard pages: whole, truncations, flips
	for i := 0; i < vk.Scale(60, 600) && i < len(heads) && !x.stop(); i++ {
		h := heads[i]
		for L := 0; L <= len(h.Bytes); L++ {
			m.Eval(1)
			name, err, ok := x.j.direct(arena, "sniffHTTPHostHeader", "truncated", h.Bytes[:L], L%16 == 0, false, c06DirectHTTP)
			if !ok {
				break
			}
			if L == len(h.Bytes) {
				rule := c06None
				if h.HasHost {
					rule = c06MustFind
				}
				x.j.nameRule("http", "direct/whole", rule, h.HostName, err == nil, name, c06Outcome(name, err),
					func() map[string]any { return map[string]any{"parser": "sniffHTTPHostHeader", "head": string(h.Bytes), "got": name} }, nil)
			}
		}
		if i < vk.Scale(10, 60) {
			for bit := 0; bit < len(h.Bytes)*8; bit++ {
				f := append([]byte(nil), h.Bytes...)
				f[bit/8] ^= 1 << (bit % 8)
				m.Eval(1)
				if _, _, ok := x.j.direct(arena, "sniffHTTPHostHeader", "bitflip", f, false, false, c06DirectHTTP); !ok {
					break
				}
			}
		}
	}

	// ------------------------------------------------- junk
	for i := 0; i < vk.Scale(400, 5000) && !x.stop(); i++ {
		b, kind := c06GenJunk(r)
		chunks := [][]byte{b}
		cls := "whole"
		if len(b) > 1 && r.IntN(3) == 0 {
			chunks = c06Cut(b, []int{1 + r.IntN(len(b)-1)})
			cls = "2cut"
		}
		c := &c06Stream{Proto: "junk", Feat: "junk/" + kind + fmt.Sprintf("/%d", len(b)), Chunk: cls, Chunks: chunks, Rule: c06Junk,
			Drain: x.pickDrain(), Conn: x.conn(), Tail: x.tail(), Kind: kind}
		if kind == "tls-framed" && cls == "2cut" || kind == "tls-prefix" {
			// an incomplete record makes the sniffer wait for the rest; these go to the timed batch below
			continue
		}
		o := c06ExecuteStream(c)
		x.judgeStream(c, &o, func(got string) bool {
			if bytes.Contains(bytes.ToLower(b), []byte("host")) {
				return true
			}
			if len(b) > 5 && b[0] == 0x16 {
				n := int(binary.BigEndian.Uint16(b[3:]))
				if 5+n <= len(b) {
					if info, err := c06WalkHello(b[5 : 5+n]); err == nil && info.HasName && c06SameName(got, info.Name) {
						return true
					}
				}
			}
			return false
		})
		if len(b) <= arena.usable {
			m.Eval(3)
			x.j.direct(arena, "extractSniFromTls", "junk", b, false, false, c06DirectTLS)
			x.j.direct(arena, "sniffHTTPHostHeader", "junk", b, false, false, c06DirectHTTP)
			x.j.direct(arena, "sniffQuicBlock", "junk", b, false, true, c06DirectQuicBlock)
		}
	}

	if x.stop() || len(heads) == 0 || len(items) == 0 {
		m.Done(t)
		return
	}
	// ------------------------------------------------- timed schedules (parallel; these sleep)
	var timed []*c06Stream
	nTimed := vk.Scale(40, 400)
	for i := 0; i < nTimed; i++ {
		it := items[r.IntN(len(items))]
		pts := c06RandCuts(r, len(it.Rec), 2+r.IntN(4), 5)
		chunks := c06Cut(it.Rec, pts)
		// short delays: everything follows within a few ms
		c := x.tlsCase(it, "delayed-short", chunks, true)
		c.Conn = []string{"seg", "seg", "nodl"}[r.IntN(3)]
		for k := range chunks {
			c.Avail = append(c.Avail, time.Duration(k)*time.Duration(1+r.IntN(3))*time.Millisecond)
		}
		timed = append(timed, c)
		// stall longer than the timeout inside the record
		c2 := x.tlsCase(it, "stall-in-record", chunks, false)
		c2.Conn = "seg"
		c2.StallFrom = 1 + r.IntN(len(chunks)-1+1)
		if c2.StallFrom >= len(chunks) {
			c2.StallFrom = len(chunks) - 1
		}
		if c2.StallFrom < 1 {
			c2.StallFrom = 1
		}
		if len(chunks) < 2 {
			continue
		}
		timed = append(timed, c2)
	}
	for i := 0; i < vk.Scale(10, 80); i++ {
		it := items[r.IntN(len(items))]
		// nothing at all until after the timeout
		c := x.tlsCase(it, "stall-before-first-byte", [][]byte{it.Rec}, false)
		c.Conn, c.StallFrom = "seg", -1
		timed = append(timed, c)
		// half-close in the middle of the record
		k := 5 + r.IntN(len(it.Rec)-5)
		c3 := x.tlsCase(it, "eof-in-record", [][]byte{it.Rec[:k]}, false)
		c3.Conn, c3.EOFAfterChunks, c3.Tail = "seg", true, nil
		timed = append(timed, c3)
		// connection error on the second read
		c4 := x.tlsCase(it, "reset-in-record", c06Cut(it.Rec, []int{k}), false)
		c4.Conn, c4.FailRead, c4.Rule = "seg", 2, c06Free
		timed = append(timed, c4)
		// HTTP head whose second half stalls
		h := heads[r.IntN(len(heads))]
		hk := 1 + r.IntN(len(h.Bytes)-1)
		r2 := c06SameOrNone
		if !h.HasHost {
			r2 = c06None
		}
		timed = append(timed, &c06Stream{Proto: "http", Feat: h.Feat, Chunk: "stall-in-head", Chunks: c06Cut(h.Bytes, []int{hk}), StallFrom: 1, Rule: r2, Carried: h.HostName,
			Drain: x.pickDrain(), Conn: "seg", Tail: x.tail(), Kind: "stall"})
		// junk that looks like the start of a record and then goes quiet
		timed = append(timed, &c06Stream{Proto: "junk", Feat: "junk/tls-prefix", Chunk: "stall-after-prefix", Chunks: [][]byte{{0x16, 3, 1, 0x40, 0}, c06RandBytes(r, 50)}, StallFrom: 1,
			Rule: c06Junk, Drain: x.pickDrain(), Conn: "seg", Tail: x.tail(), Kind: "tls-prefix"})
	}
	// real loopback TCP: kernel sockets, splice path, post-deadline tail
	for i := 0; i < vk.Scale(36, 300); i++ {
		it := items[r.IntN(len(items))]
		var c *c06Stream
		switch i % 4 {
		case 0:
			c = x.tlsCase(it, "tcp/whole", [][]byte{it.Rec}, true)
		case 1:
			pts := c06RandCuts(r, len(it.Rec), 1+r.IntN(3), 5)
			c = x.tlsCase(it, "tcp/delayed-short", c06Cut(it.Rec, pts), true)
			for k := 0; k <= len(pts); k++ {
				c.Avail = append(c.Avail, time.Duration(k)*2*time.Millisecond)
			}
		case 2:
			pts := c06RandCuts(r, len(it.Rec), 1, 5)
			if len(pts) == 0 {
				continue
			}
			c = x.tlsCase(it, "tcp/stall-in-record", c06Cut(it.Rec, pts), false)
			c.StallFrom = 1
		default:
			h := heads[r.IntN(len(heads))]
			rule := c06None
			if h.HasHost {
				rule = c06SameOrNone // a kernel socket does not promise one read
			}
			c = &c06Stream{Proto: "http", Feat: h.Feat, Chunk: "tcp/one-write", Chunks: [][]byte{h.Bytes}, Rule: rule, Carried: h.HostName, Kind: "tcp"}
		}
		c.Conn = "tcp"
		c.Drain = []string{"writeto-tcp", "read", "prefix+direct", "prefix+read", "writeto"}[r.IntN(5)]
		c.Tail = c06RandBytes(r, 1+r.IntN(3000))
		c.Kind = "tcp/" + c.Kind
		timed = append(timed, c)
	}
	// ------------------------------------------------- QUIC
	x.quic()

	// the sniffer reads through a prefix-replaying wrapper: the client's first segment (<= 16 bytes,
	// record header / start of the request line) was taken off the socket by a prefetch step, then
	// the client goes quiet for longer than the timeout or half-closes, so the very Read that hands
	// the sniffer those first bytes also carries the error
	for i := 0; i < vk.Scale(12, 100); i++ {
		it := items[r.IntN(len(items))]
		k := 5 + r.IntN(12)
		if k >= len(it.Rec) {
			continue
		}
		c := x.tlsCase(it, "prefixed/stall-after-first-segment", c06Cut(it.Rec, []int{k}), false)
		c.Conn, c.StallFrom = "prefixed", 1
		timed = append(timed, c)
		c2 := x.tlsCase(it, "prefixed/eof-after-first-segment", [][]byte{it.Rec[:k]}, false)
		c2.Conn, c2.EOFAfterChunks, c2.Tail = "prefixed", true, nil
		timed = append(timed, c2)
		h := heads[r.IntN(len(heads))]
		hk := 1 + r.IntN(min(16, len(h.Bytes)-1))
		r2 := c06SameOrNone
		if !h.HasHost {
			r2 = c06None
		}
		timed = append(timed, &c06Stream{Proto: "http", Feat: h.Feat, Chunk: "prefixed/stall-after-first-segment", Chunks: c06Cut(h.Bytes, []int{hk}), StallFrom: 1, Rule: r2, Carried: h.HostName,
			Drain: x.pickDrain(), Conn: "prefixed", Tail: x.tail(), Kind: "prefixed/stall"})
		timed = append(timed, &c06Stream{Proto: "http", Feat: h.Feat, Chunk: "prefixed/eof-after-first-segment", Chunks: [][]byte{h.Bytes[:hk]}, EOFAfterChunks: true, Rule: c06Free,
			Drain: x.pickDrain(), Conn: "prefixed", Kind: "prefixed/eof"})
	}

	x.parallel(timed, 24)
	m.Require("conn_prefixed", "sniffer_read_got_data_together_with_timeout", "sniffer_read_got_data_together_with_eof")

	m.Require("outcome_found", "outcome_notfound", "outcome_notapplicable", "outcome_timeout",
		"outcome_found_tls", "outcome_found_http", "quic_found", "guard_selftest_fault_caught", "quic_codec_validated_against_quic_go",
		"bytes_preserved_found", "bytes_preserved_timeout", "bytes_preserved_notapplicable", "bytes_preserved_notfound",
		"deadline_set_and_cleared", "quic_session_second_attempt_found", "conn_tcp", "conn_nodl", "read_buffer_filled_to_capacity", "direct_extractSniFromTls", "direct_sniffQuicBlock", "direct_sniffHTTPHostHeader")
	m.Done(t)
}

func (x *c06Run) packet(c *c06Packet) {
	if x.stop() {
		return
	}
	m := x.m
	m.Eval(1)
	o := c06RunPacket(c)
	ok := x.j.packet(c, &o)
	m.Count("quic_cases", 1)
	if o.Panic != "" {
		return
	}
	last := "none"
	if len(o.Steps) > 0 {
		last = o.Steps[len(o.Steps)-1].Outcome
	}
	m.Count("outcome_"+last, 1)
	m.Count("quic_"+last, 1)
	if o.Found && o.FoundAt >= 0 && o.FoundAt < len(c.CompleteAt) && !c.CompleteAt[o.FoundAt] {
		m.Count("quic_found_before_hello_complete", 1)
	}
	for _, s := range o.Steps {
		if s.NeedMore {
			m.Count("quic_step_needmore", 1)
		}
	}
	if ok {
		m.Distinct(fmt.Sprintf("quic|%s|%s|%s", c.Feat, c.Class, last))
	}
	if m.WantSample() && x.seen["sample|quic"+last] == 0 && len(c.Datagrams) == 1 {
		x.seen["sample|quic"+last]++
		m.Sample(c06PacketWitness(c, &o))
	}
}

func (x *c06Run) quic() {
	m, r := x.m, x.r
	// 1. validate the independent codec against the real quic-go client and use its flights as cases
	for _, v := range []uint32{c06QuicV1, c06QuicV2} {
		name := "Real-QuicGo." + c06RandLabel(r, 6) + ".example"
		dgs, err := c06CaptureQuicGo(v, name)
		if err != nil {
			m.Inconclusive("quic-go capture (version %#x) failed: %v", v, err)
			continue
		}
		stream, npk, err := c06ReassembleDatagrams(dgs)
		if err != nil || npk == 0 {
			m.Inconclusive("independent QUIC decoder cannot open quic-go's first flight (version %#x): %v", v, err)
			continue
		}
		info, werr := c06WalkHello(stream)
		p0, _, _ := c06DecodeInitial(dgs[0])
		re := c06EncodeInitial(p0)
		if werr != nil || !info.HasName || info.Name != name || len(re) > len(dgs[0]) || !bytes.Equal(re, dgs[0][:len(re)]) {
			m.Inconclusive("QUIC codec validation failed for version %#x: walk=%v reencode_equal=%v", v, werr, len(re) <= len(dgs[0]) && bytes.Equal(re, dgs[0][:len(re)]))
			continue
		}
		m.Count("quic_codec_validated_against_quic_go", 1)
		complete := make([]bool, len(dgs))
		for i := range dgs {
			s, _, _ := c06ReassembleDatagrams(dgs[:i+1])
			complete[i] = len(s) >= len(stream)
		}
		x.packet(&c06Packet{Feat: "quic-go-real", Class: fmt.Sprintf("d%d", len(dgs)), Version: v, Datagrams: dgs, CompleteAt: complete,
			Rule: c06MustFind, Carried: name, Kind: "quic-go-client"})
	}
	// 2. hello sources
	type qh struct {
		hs   []byte
		name string
		feat string
	}
	var hellos []qh
	for i := 0; i < vk.Scale(30, 300); i++ {
		name := c06RandName(r)
		if r.IntN(10) == 0 {
			name = ""
		}
		hs, err := c06CaptureStdQuicHello(r, name)
		if err != nil {
			m.Inconclusive("crypto/tls QUIC hello capture failed: %v", err)
			break
		}
		info, werr := c06WalkHello(hs)
		if werr != nil || info.HasName != (name != "") || info.Name != strings.TrimSuffix(name, ".") {
			m.Inconclusive("generator cross-check failed for crypto/tls QUIC hello %q: %v %v", name, info, werr)
			break
		}
		hellos = append(hellos, qh{hs, info.Name, "std-quic"})
	}
	for i := 0; i < vk.Scale(60, 600); i++ {
		name := c06RandName(r)
		if r.IntN(10) == 0 {
			name = ""
		}
		o := c06GenOwnHello(r, name, true)
		hs := o.H.Marshal()
		if len(hs) > 4200 { // 4 datagrams
			continue
		}
		hellos = append(hellos, qh{hs, name, o.Feat})
	}
	if len(hellos) == 0 {
		return
	}
	// 3. scatter
	var singles []*c06Packet
	for i := 0; i < vk.Scale(1200, 50000) && !x.stop(); i++ {
		h := hellos[r.IntN(len(hellos))]
		v := []uint32{c06QuicV1, c06QuicV2}[r.IntN(2)]
		pl := c06ScatterHello(r, v, h.hs, r.IntN(7) == 0)
		if pl.ReusedDCID {
			m.Count("quic_flow_reusing_previous_dcid", 1)
		}
		if i%5 == 0 {
			s, _, err := c06ReassembleDatagrams(pl.Datagrams)
			if err != nil || !bytes.Equal(s, h.hs) {
				m.Inconclusive("scatterer self-check failed (%s): %v", pl.Class(), err)
				return
			}
			m.Count("quic_scatter_selfchecked", 1)
		}
		rule := c06MustFind
		if h.name == "" {
			rule = c06None
		}
		vt := "v1"
		if v == c06QuicV2 {
			vt = "v2"
		}
		c := &c06Packet{Feat: h.feat + "/" + vt, Class: pl.Class(), Version: v, Datagrams: pl.Datagrams, CompleteAt: pl.CompleteAt, Rule: rule, Carried: h.name,
			InitWithFirst: r.IntN(10) == 0, Kind: "scattered"}
		x.packet(c)
		if len(pl.Datagrams) == 1 && h.name != "" && len(singles) < 40 {
			singles = append(singles, c)
		}
	}
	// 3b. hostile frame structure inside correctly protected packets
	for i := 0; i < vk.Scale(300, 3000) && !x.stop(); i++ {
		h := hellos[r.IntN(len(hellos))]
		if len(h.hs) > 1100 || len(h.hs) < 60 {
			continue
		}
		v := []uint32{c06QuicV1, c06QuicV2}[r.IntN(2)]
		payload, kind, free := c06HostileFrames(r, h.hs)
		for len(payload) < 1150 {
			payload = append(payload, 0)
		}
		pkt := c06EncodeInitial(c06Initial{Version: v, DCID: c06RandBytes(r, 8+r.IntN(13)), SCID: c06RandBytes(r, r.IntN(21)), PN: uint64(r.IntN(4)), PNLen: 1 + r.IntN(4), Payload: payload})
		rule := c06SameOrNone
		if h.name == "" {
			rule = c06None
		}
		if free {
			rule = c06Free
		}
		x.packet(&c06Packet{Feat: "hostile-frames/" + kind, Class: "d1", Version: v, Datagrams: [][]byte{pkt}, CompleteAt: []bool{false}, Rule: rule, Carried: h.name, Kind: "hostile-frames/" + kind})
		m.Eval(2)
		x.j.direct(x.a, "ReassembleCryptos", "hostile/"+kind, payload, false, false, c06DirectFrames)
		x.j.direct(x.a, "sniffQuicBlock", "hostile/"+kind, pkt, false, true, c06DirectQuicBlock)
	}
	// 3c. one sniffing session over several attempts, as control.handlePkt drives it: every datagram
	// goes AppendData -> SniffUdp; an answer without NeedMore ends the attempt and the session is
	// compacted, and the same session then serves the flow's later Initials (client retransmission
	// of the same ClientHello under the same DCID). A first attempt that was cut short by a damaged
	// datagram must not leave anything behind that breaks the second one.
	for i := 0; i < vk.Scale(300, 6000) && !x.stop(); i++ {
		h := hellos[r.IntN(len(hellos))]
		if h.name == "" {
			continue
		}
		v := []uint32{c06QuicV1, c06QuicV2}[r.IntN(2)]
		pl := c06ScatterHello(r, v, h.hs, r.IntN(3) == 0)
		if len(pl.Datagrams) < 2 {
			continue
		}
		m.Eval(1)
		keep := 1 + r.IntN(len(pl.Datagrams)-1) // datagrams of the first attempt before the damaged one
		damaged := append([]byte(nil), pl.Datagrams[keep]...)
		damaged[len(damaged)-1-r.IntN(min(16, len(damaged)-1))] ^= 0x5a // AEAD tag / payload: the packet no longer opens
		var steps []string
		var panicked string
		found, name := false, ""
		func() {
			defer func() {
				if rec := recover(); rec != nil {
					panicked = c06PanicString(rec)
				}
			}()
			s := NewPacketSniffer(nil, time.Second)
			defer func() { _ = s.Close() }()
			feed := func(tag string, d []byte) (done bool) {
				s.AppendData(append([]byte(nil), d...))
				n, err := s.SniffUdp()
				steps = append(steps, fmt.Sprintf("%s: %s needMore=%v", tag, c06Outcome(n, err), s.NeedMore()))
				if s.NeedMore() {
					return false
				}
				if err == nil {
					found, name = true, n
				}
				s.CompactPacketState()
				return true
			}
			ended := false
			for k := 0; k < keep && !ended; k++ {
				ended = feed(fmt.Sprintf("attempt1/datagram%d", k), pl.Datagrams[k])
			}
			if ended { // the first datagrams already completed (or refused) the hello: nothing left to reuse
				return
			}
			if !feed("attempt1/damaged-datagram", damaged) {
				m.Count("quic_session_damaged_datagram_still_needmore", 1)
				return
			}
			m.Count("quic_session_first_attempt_cut_short", 1)
			found, name = false, ""
			for k, d := range pl.Datagrams {
				if feed(fmt.Sprintf("attempt2/datagram%d", k), d) {
					break
				}
			}
			m.Count("quic_session_second_attempts", 1)
		}()
		wit := func() map[string]any {
			return map[string]any{"carried_name": h.name, "quic_version": fmt.Sprintf("%#x", v), "scatter_class": pl.Class(), "datagrams_before_damaged": keep, "steps": steps, "panic": panicked}
		}
		if panicked != "" {
			x.j.viol("panic/quic/"+c06PanicKind(panicked)+"/session-reuse", "SniffUdp panicked on a session that had been compacted after an unfinished attempt", wit())
			continue
		}
		if len(steps) > keep+1 { // a second attempt took place
			last := steps[len(steps)-1]
			if x.j.nameRule("quic", "session-reuse", c06MustFind, h.name, found, name, last, wit, nil) {
				m.Count("quic_session_second_attempt_found", 1)
				m.Distinct(fmt.Sprintf("quic-session|%s|keep%d", pl.Class(), keep))
			}
		}
	}
	// 4. negative: truncations and flips of single-datagram flights, junk
	for i, c := range singles {
		if x.stop() {
			break
		}
		d := c.Datagrams[0]
		if i < vk.Scale(3, 12) {
			for L := 0; L < len(d); L++ {
				if L > 120 && L%7 != i%7 && L < len(d)-40 {
					continue
				}
				t := &c06Packet{Feat: c.Feat, Class: "truncated", Version: c.Version, Datagrams: [][]byte{d[:L]}, CompleteAt: []bool{false}, Rule: c06SameOrNone, Carried: c.Carried, Kind: "truncated"}
				if L == 0 {
					continue
				}
				x.packet(t)
				m.Eval(1)
				x.j.direct(x.a, "sniffQuicBlock", "truncated", d[:L], L%32 == 0, true, c06DirectQuicBlock)
			}
		}
		for k := 0; k < vk.Scale(40, 300); k++ {
			f := append([]byte(nil), d...)
			bit := r.IntN(len(f) * 8)
			if k%3 == 0 {
				bit = r.IntN(60 * 8) // header area
			}
			f[bit/8] ^= 1 << (bit % 8)
			t := &c06Packet{Feat: c.Feat, Class: "bitflip", Version: c.Version, Datagrams: [][]byte{f}, CompleteAt: []bool{false}, Rule: c06SameOrNone, Carried: c.Carried, Kind: "bitflip"}
			x.packet(t)
			m.Eval(1)
			name, err, ok := x.j.direct(x.a, "sniffQuicBlock", "bitflip", f, false, true, c06DirectQuicBlock)
			if ok {
				x.j.nameRule("quic", "direct/bitflip", c06SameOrNone, c.Carried, err == nil, name, c06Outcome(name, err),
					func() map[string]any { return map[string]any{"parser": "sniffQuicBlock", "datagram_hex": c06Hex(f), "flipped_bit": bit} }, nil)
			}
		}
		m.Eval(1)
		name, err, ok := x.j.direct(x.a, "sniffQuicBlock", "whole", d, true, true, c06DirectQuicBlock)
		if ok {
			x.j.nameRule("quic", "direct/whole", c06SameOrNone, c.Carried, err == nil, name, c06Outcome(name, err),
				func() map[string]any { return map[string]any{"parser": "sniffQuicBlock", "datagram_hex": c06Hex(d)} }, nil)
		}
	}
	for i := 0; i < vk.Scale(300, 3000) && !x.stop(); i++ {
		b, kind := c06GenJunk(r)
		if r.IntN(2) == 0 && len(b) >= 7 {
			b[0] = 0xc0 | byte(r.UintN(16))
			binary.BigEndian.PutUint32(b[1:], []uint32{1, c06QuicV2}[r.IntN(2)])
			b[5] = byte(r.IntN(21))
			kind = "quic-header"
		}
		x.packet(&c06Packet{Feat: "junk/" + kind + fmt.Sprintf("/%d", len(b)), Class: "junk", Datagrams: [][]byte{b}, CompleteAt: []bool{false}, Rule: c06Junk, Kind: "junk"})
		// frame parser on arbitrary plaintext
		fr := c06RandBytes(r, 1+r.IntN(60))
		fr[0] = []byte{0, 1, 6, 6, 6, 0x1c, 2}[r.IntN(7)]
		m.Eval(1)
		x.j.direct(x.a, "ReassembleCryptos", "junk", fr, false, false, c06DirectFrames)
	}
}
