package outbound

// C14 monitor: group membership.
//
// A generated (node pool, group definition TEXT) pair is pushed through dae's
// real front end (config_parser.Parse + config.New, so that the
// filter <-> annotation alignment is in the loop) and the group-construction
// calls of control/control_plane.go:569-607
// (NewDialerSelectionPolicyFromGroupParam, DialerSet.FilterAndAnnotate).
// The result is compared with a set comprehension over the generated AST that
// is written from the property statement / config/desc.go (standard library
// only; regular expressions are restricted to a sub-language on which RE2 and
// .NET-style engines agree, plus three look-around/back-reference templates
// whose meaning is written by hand).

import (
	"context"
	"errors"
	"fmt"
	"io"
	"net/url"
	"sort"
	"strconv"
	"strings"
	"testing"
	"time"

	"github.com/daeuniverse/dae/component/outbound/dialer"
	"github.com/daeuniverse/dae/config"
	"github.com/daeuniverse/dae/pkg/config_parser"
	vk "github.com/daeuniverse/dae/verifkit"
	"github.com/daeuniverse/outbound/netproxy"
	"github.com/sirupsen/logrus"
)

// ---- case model, reference semantics, generator: shared with the `groups` part (package
// control) and therefore kept in /verif/kit/c14_ref.go (package verifkit, standard library only)

type (
	c14Node   = vk.C14Node
	c14Val    = vk.C14Val
	c14Term   = vk.C14Term
	c14Anno   = vk.C14Anno
	c14Line   = vk.C14Line
	c14Case   = vk.C14Case
	c14Expect = vk.C14Expect
)

var (
	c14Reference    = vk.C14Reference
	c14PolicyExpect = vk.C14PolicyExpect
	c14Match        = vk.C14Match
	c14Field        = vk.C14Field
)

// ---- driving the real code --------------------------------------------------

type c14NoopDialer struct{}

func (c14NoopDialer) DialContext(context.Context, string, string) (netproxy.Conn, error) {
	return nil, errors.New("not implemented")
}

var c14Log = func() *logrus.Logger {
	l := logrus.New()
	l.SetOutput(io.Discard)
	l.SetLevel(logrus.PanicLevel)
	return l
}()

var c14Option = &dialer.GlobalOption{Log: c14Log, CheckInterval: 30 * time.Second}

type c14Got struct {
	Stage   string // parse | config | policy | filter | ok | panic
	Err     string
	Members []int
	Offsets []time.Duration
	Policy  DialerSelectionPolicy
	Extra   string // structural damage of the result (nil entries, foreign dialers, length mismatch)
	// PoolOrder: pool node indices in the order of the constructed pool (DialerSet.dialers)
	PoolOrder []int
}

func c14Run(c *c14Case) (got c14Got) {
	defer func() {
		if r := recover(); r != nil {
			got = c14Got{Stage: "panic", Err: fmt.Sprint(r)}
		}
	}()
	secs, err := config_parser.Parse(c.GroupText())
	if err != nil {
		return c14Got{Stage: "parse", Err: err.Error()}
	}
	conf, err := config.New(secs)
	if err != nil {
		return c14Got{Stage: "config", Err: err.Error()}
	}
	if len(conf.Group) != 1 {
		return c14Got{Stage: "config", Err: fmt.Sprintf("got %d groups", len(conf.Group))}
	}
	group := conf.Group[0]

	// The pool is built by the production constructor from node links (socks5 links parse offline;
	// the node name is the link's fragment, the subscription tag the map key). Pool node i is
	// recognised by its port. The constructor walks the tag map in Go's random order, so the pool
	// order is whatever set.dialers says afterwards; it is handed to the judge.
	tagToLinks := map[string][]string{}
	for i, n := range c.Pool {
		tagToLinks[n.Tag] = append(tagToLinks[n.Tag], fmt.Sprintf("socks5://127.0.0.1:%d#%s", 20000+i, url.PathEscape(n.Name)))
	}
	set := NewDialerSetFromLinks(c14Option, tagToLinks)
	defer set.Close()
	index := map[*dialer.Dialer]int{}
	var poolOrder []int
	for _, d := range set.dialers {
		var port int
		if p := d.Property(); p != nil {
			if k := strings.LastIndexByte(p.Address, ':'); k >= 0 {
				port, _ = strconv.Atoi(p.Address[k+1:])
			}
		}
		i := port - 20000
		if i < 0 || i >= len(c.Pool) || d.Property().Name != c.Pool[i].Name || d.Property().SubscriptionTag != c.Pool[i].Tag {
			return c14Got{Stage: "ok", Extra: fmt.Sprintf("pool constructor produced node %+v that is not pool node %d (%+v)", d.Property(), i, c.Pool)}
		}
		index[d] = i
		poolOrder = append(poolOrder, i)
	}
	if len(poolOrder) != len(c.Pool) {
		return c14Got{Stage: "ok", Extra: fmt.Sprintf("pool constructor produced %d nodes from %d links", len(poolOrder), len(c.Pool))}
	}

	// same order as control/control_plane.go: policy first, then the filters
	policy, err := NewDialerSelectionPolicyFromGroupParam(&group)
	if err != nil {
		return c14Got{Stage: "policy", Err: err.Error()}
	}
	ds, annos, err := set.FilterAndAnnotate(group.Filter, group.FilterAnnotation)
	if err != nil {
		return c14Got{Stage: "filter", Err: err.Error()}
	}
	got = c14Got{Stage: "ok", Policy: *policy, PoolOrder: poolOrder}
	if len(ds) != len(annos) {
		got.Extra = fmt.Sprintf("%d dialers but %d annotations", len(ds), len(annos))
		return got
	}
	for k, d := range ds {
		i, ok := index[d]
		if !ok || annos[k] == nil {
			got.Extra = fmt.Sprintf("member %d is not a pool node or has a nil annotation", k)
			return got
		}
		got.Members = append(got.Members, i)
		got.Offsets = append(got.Offsets, annos[k].AddLatency)
	}
	return got
}

// c14Judge returns ("", "") when the case holds, else (structural signature, description).
func c14Judge(c *c14Case, e *c14Expect, g *c14Got) (sig, what string) {
	if g.Stage == "panic" {
		return "panic", "group construction panicked: " + g.Err
	}
	if e.Invalid != "" {
		if g.Stage != "ok" {
			return "", ""
		}
		if e.Reached {
			return "invalid-accepted/" + e.Invalid, "invalid group definition (" + e.Invalid + ") accepted although evaluation touches the invalid element"
		}
		return "invalid-unreported/" + e.Invalid + "/not-evaluated",
			"invalid group definition (" + e.Invalid + ") accepted without a configuration error: the invalid element is never evaluated for this pool (lazy validation)"
	}
	if g.Stage != "ok" {
		return "valid-rejected/" + g.Stage, "valid group definition rejected at stage " + g.Stage + ": " + vkFirstLine(g.Err)
	}
	if g.Extra != "" {
		return "malformed-result", g.Extra
	}
	name, idx, _ := c14PolicyExpect(c.Policy)
	if string(g.Policy.Policy) != name || (name == "fixed" && g.Policy.FixedIndex != idx) {
		return "policy-mismatch", fmt.Sprintf("policy %q became %+v", c.Policy, g.Policy)
	}
	// members, order ("in pool order" refers to the pool as constructed), multiplicity, annotation:
	// shared with the `groups` part
	return vk.C14JudgeMembership(c, e, g.PoolOrder, g.Members, g.Offsets)
}

func vkFirstLine(s string) string {
	if i := strings.IndexByte(s, '\n'); i >= 0 {
		return s[:i]
	}
	return s
}

func c14Check(c *c14Case) (sig, what string, e *c14Expect, g c14Got) {
	e = c14Reference(c)
	g = c14Run(c)
	sig, what = c14Judge(c, e, &g)
	return
}

// c14Minimize greedily removes pool nodes, lines, terms, values and annotations
// while the same structural signature keeps firing.
func c14Minimize(c *c14Case, sig string, keepNode bool) *c14Case {
	bad := func(q *c14Case) bool {
		if keepNode && len(q.Pool) == 0 {
			return false
		}
		for _, l := range q.Lines {
			if len(l.Terms) == 0 {
				return false
			}
			for _, t := range l.Terms {
				if len(t.Vals) == 0 {
					return false
				}
			}
		}
		s, _, _, _ := c14Check(q)
		return s == sig
	}
	cur := c.Clone()
	for changed := true; changed; {
		changed = false
		for i := 0; i < len(cur.Pool); i++ {
			q := cur.Clone()
			q.Pool = append(q.Pool[:i], q.Pool[i+1:]...)
			if bad(q) {
				cur, changed = q, true
				i--
			}
		}
		for i := 0; i < len(cur.Lines); i++ {
			q := cur.Clone()
			q.Lines = append(q.Lines[:i], q.Lines[i+1:]...)
			if len(q.Lines) > 0 && bad(q) {
				cur, changed = q, true
				i--
			}
		}
		for i := range cur.Lines {
			for j := 0; j < len(cur.Lines[i].Terms); j++ {
				q := cur.Clone()
				q.Lines[i].Terms = append(q.Lines[i].Terms[:j], q.Lines[i].Terms[j+1:]...)
				if bad(q) {
					cur, changed = q, true
					j--
				}
			}
			for j := range cur.Lines[i].Terms {
				for k := 0; k < len(cur.Lines[i].Terms[j].Vals); k++ {
					q := cur.Clone()
					vs := q.Lines[i].Terms[j].Vals
					q.Lines[i].Terms[j].Vals = append(vs[:k], vs[k+1:]...)
					if bad(q) {
						cur, changed = q, true
						k--
					}
				}
			}
			if cur.Lines[i].Anno != nil {
				q := cur.Clone()
				q.Lines[i].Anno = nil
				if bad(q) {
					cur, changed = q, true
				}
			}
		}
	}
	return cur
}

func c14Shape(c *c14Case, e *c14Expect) string {
	var ls []string
	for _, l := range c.Lines {
		var ts []string
		for _, t := range l.Terms {
			s := t.Input[:1]
			if t.Input != "name" && t.Input != "subtag" {
				s = "?"
			}
			if t.Not {
				s = "!" + s
			}
			ks := ""
			for _, v := range t.Vals {
				switch v.Key {
				case "":
					ks += "e"
				case "keyword":
					ks += "k"
				case "regex":
					ks += "r"
				default:
					ks += "?"
				}
			}
			ts = append(ts, s+ks)
		}
		a := ""
		if l.Anno != nil {
			a = fmt.Sprintf("[%d]", len(l.Anno))
		}
		ls = append(ls, strings.Join(ts, "&")+a)
	}
	wins := map[int]bool{}
	for _, w := range e.WinLine {
		wins[w] = true
	}
	var ws []int
	for w := range wins {
		ws = append(ws, w)
	}
	sort.Ints(ws)
	return fmt.Sprintf("%s|win%v|inv:%s", strings.Join(ls, ";"), ws, e.Invalid)
}

func TestVerifC14(t *testing.T) {
	m := vk.NewMonitor("C14", "main", "exploration",
		"generated (node pool of 0-12 dialers over an adversarial name/subtag alphabet) x (group definition TEXT: 0-4 filter lines, 1-3 && terms, "+
			"1-3 alternatives exact/keyword/regex, negation, annotations absent/present/duplicated, 5 policies, injected invalid elements at random positions); "+
			"distinct = (per-line term/key shape, set of lines that won for >=1 node, invalidity class); "+
			"non-trivial = invalid definition, or a valid one whose member list is non-empty and differs from the whole pool, or won by a non-first line, or carries a non-zero annotation")
	m.SetFloor(200)
	m.Assume("reference = set comprehension written from the statement and config/desc.go; regex meaning by Go's regexp on an RE2/.NET-common sub-language plus three hand-written look-around/back-reference templates",
		"the group-construction calls of control/control_plane.go:569-607 (policy, then FilterAndAnnotate) are replayed in the same order on a DialerSet built directly from dialer.NewDialer nodes; newControlPlane itself (needs a datapath) is not executed",
		"duration syntax of add_latency is Go's time.ParseDuration; duplicated add_latency keys are judged only when the first value is non-zero (statement silent otherwise)",
		"dae documents five policies (random, fixed, min, min_avg10, min_moving_avg); the property text says six")
	r := vk.NewRand(0xC14)
	g := vk.NewC14Gen(r)
	n := vk.Scale(6000, 300000)
	reported := map[string]int{}
	pending := map[string]*c14Case{}
	report := func(c *c14Case, sig, what string) {
		min := c14Minimize(c, sig, len(c.Pool) > 0)
		_, what2, e2, got2 := c14Check(min)
		if what2 != "" {
			what = what2
		}
		m.Violation(sig, what, map[string]any{
			"pool": min.Pool, "group_text": min.GroupText(), "case": min,
			"reference": map[string]any{"invalid": e2.InvalidAll, "members": e2.Members, "offsets_ns": e2.Offsets, "would_be_evaluated": e2.Reached, "skip_causes": e2.Causes},
			"got":       map[string]any{"stage": got2.Stage, "error": got2.Err, "members": got2.Members, "offsets_ns": got2.Offsets, "policy": fmt.Sprintf("%+v", got2.Policy), "extra": got2.Extra},
			"original":  map[string]any{"pool": c.Pool, "group_text": c.GroupText()},
		})
	}
	for i := 0; i < n && m.Violations() < 8; i++ {
		c := g.Gen()
		sig, what, e, got := c14Check(c)
		m.Eval(1)
		// ---- what was observed
		nontrivial := false
		if e.Invalid != "" {
			nontrivial = true
			m.Count("invalid_definitions", 1)
			if !e.Reached {
				m.Count("invalid_element_placed_where_short_circuit_evaluation_skips_it", 1)
			}
			if got.Stage != "ok" {
				m.Count("invalid_reported/"+e.Invalid, 1)
				m.Count("invalid_reported_at_stage/"+got.Stage, 1)
				if !e.Reached && e.Invalid != "bad_policy" {
					m.Count("invalid_reported_although_short_circuit_would_skip_it", 1)
				}
			} else {
				for k, v := range e.Causes {
					m.Count("invalid_accepted_cause/"+k, int64(v))
				}
			}
		} else {
			m.Count("valid_definitions", 1)
			name, idx, _ := c14PolicyExpect(c.Policy)
			m.Count("policy_valid/"+name, 1)
			if name == "fixed" && (idx < 0 || idx >= len(e.Members)) {
				m.Count("policy_fixed_index_out_of_range_accepted_at_construction", 1)
			}
			if len(c.Lines) == 0 {
				m.Count("no_filter_whole_pool", 1)
				if len(c.Pool) == 0 {
					m.Count("no_filter_empty_pool", 1)
				}
			}
			if len(c.Pool) == 0 {
				m.Count("empty_pool", 1)
			}
			if len(e.Members) > 0 && len(e.Members) < len(c.Pool) {
				nontrivial = true
				m.Count("proper_nonempty_subset", 1)
			}
			seen := map[c14Node]bool{}
			for k, pi := range e.Members {
				if e.WinLine[k] > 0 {
					nontrivial = true
					m.Count("member_won_by_non_first_line", 1)
				}
				if e.Offsets[k] != 0 {
					nontrivial = true
					m.Count("member_with_nonzero_annotation", 1)
				}
				if !e.OffsetJudged[k] {
					m.Count("annotation_duplicate_first_zero_unjudged", 1)
				}
				if seen[c.Pool[pi]] {
					m.Count("duplicate_node_is_member_twice", 1)
				}
				seen[c.Pool[pi]] = true
				if c.Pool[pi].Name == "" {
					m.Count("empty_name_member", 1)
				}
				if e.WinLine[k] >= 0 {
					for _, t := range c.Lines[e.WinLine[k]].Terms {
						if t.Not {
							m.Count("member_via_negated_term", 1)
						}
						if t.Input == "subtag" {
							m.Count("member_via_subtag_term", 1)
						}
						for vi := range t.Vals {
							v := &t.Vals[vi]
							if !t.Not && c14Match(c14Field(c.Pool[pi], t.Input), v) {
								k := v.Key
								if k == "" {
									k = "exact"
								}
								if k == "regex" {
									k += "/" + v.Sem
								}
								m.Count("hit_by/"+k, 1)
							}
						}
					}
				}
			}
		}
		if nontrivial {
			m.Distinct(c14Shape(c, e))
		}
		if sig == "" {
			if nontrivial && e.Invalid == "" && len(c.Lines) >= 2 && m.WantSample() {
				m.Sample(map[string]any{"pool": c.Pool, "group_text": c.GroupText(), "members": got.Members, "offsets_ns": got.Offsets})
			}
			continue
		}
		if reported[sig] > 0 {
			// one minimised witness per structural signature; further ones are counted
			reported[sig]++
			m.Count("further_witnesses/"+sig, 1)
			continue
		}
		if len(c.Pool) == 0 && strings.HasPrefix(sig, "invalid-unreported/") {
			// an empty pool evaluates nothing at all: keep it as a fallback witness
			// and prefer one with nodes
			if pending[sig] == nil {
				pending[sig] = c
			}
			m.Count("empty_pool_witness_deferred/"+sig, 1)
			continue
		}
		reported[sig]++
		report(c, sig, what)
	}
	for sig, c := range pending {
		if reported[sig] == 0 {
			report(c, sig, "invalid group definition accepted without a configuration error on an empty pool")
		}
	}
	m.Require("invalid_element_placed_where_short_circuit_evaluation_skips_it", "invalid_reported/unknown_input", "invalid_reported/unknown_key", "invalid_reported/bad_regex",
		"invalid_reported/anno_unknown_key", "invalid_reported/anno_malformed", "invalid_reported/bad_policy",
		"no_filter_whole_pool", "member_won_by_non_first_line", "member_with_nonzero_annotation", "member_via_negated_term",
		"member_via_subtag_term", "duplicate_node_is_member_twice", "empty_name_member",
		"hit_by/exact", "hit_by/keyword", "hit_by/regex/re2", "hit_by/regex/notcontains", "hit_by/regex/containsboth", "hit_by/regex/dupadj",
		"policy_valid/random", "policy_valid/fixed", "policy_valid/min", "policy_valid/min_avg10", "policy_valid/min_moving_avg",
		"policy_fixed_index_out_of_range_accepted_at_construction")
	m.Done(t)
}
