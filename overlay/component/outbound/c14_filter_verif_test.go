package outbound

// C14 monitor: group membership.
//
// A generated (node pool, group definition TEXT) pair is pushed through dae's
// real front end (config_parser.Parse + config.New, so that the
// filter <-> annotation alignment is in the loop) and the group-construction
// calls of control/control_plane.go:569-607
// (NewDialerSelectionPolicyFromGroupParam, DialerSet.FilterAndAnnotate).
// The result is compared with a set comprehension over the generated AST that
// is written from the property statement / config/desc.go (standard library
// only; regular expressions are restricted to a sub-language on which RE2 and
// .NET-style engines agree, plus three look-around/back-reference templates
// whose meaning is written by hand).

import (
	"context"
	"errors"
	"fmt"
	"io"
	"math/rand/v2"
	"net/url"
	"regexp"
	"sort"
	"strconv"
	"strings"
	"testing"
	"time"

	"github.com/daeuniverse/dae/component/outbound/dialer"
	"github.com/daeuniverse/dae/config"
	"github.com/daeuniverse/dae/pkg/config_parser"
	vk "github.com/daeuniverse/dae/verifkit"
	"github.com/daeuniverse/outbound/netproxy"
	"github.com/sirupsen/logrus"
)

// ---- case model ------------------------------------------------------------

type c14Node struct {
	Name string `json:"name"`
	Tag  string `json:"subtag"`
}

type c14Val struct {
	Key  string `json:"key"` // "" exact, keyword, regex, or an invalid key
	Val  string `json:"val"`
	Sem  string `json:"sem,omitempty"` // regex only: re2 | notcontains | containsboth | dupadj | bad
	A    string `json:"a,omitempty"`   // operands of the hand-written regex templates
	B    string `json:"b,omitempty"`
	Bare bool   `json:"bare,omitempty"`
}

type c14Term struct {
	Input string   `json:"input"`
	Not   bool     `json:"not,omitempty"`
	Vals  []c14Val `json:"vals"`
}

type c14Anno struct {
	Key  string `json:"key"` // "" = bare value without key
	Val  string `json:"val"`
	Bare bool   `json:"bare,omitempty"`
}

type c14Line struct {
	Terms []c14Term `json:"terms"`
	Anno  []c14Anno `json:"anno,omitempty"` // nil = no [..] at all
}

type c14Case struct {
	Pool   []c14Node `json:"pool"`
	Lines  []c14Line `json:"lines"`
	Policy string    `json:"policy"` // verbatim text after "policy: "
}

func (c *c14Case) clone() *c14Case {
	q := &c14Case{Policy: c.Policy, Pool: append([]c14Node(nil), c.Pool...)}
	for _, l := range c.Lines {
		nl := c14Line{}
		if l.Anno != nil {
			nl.Anno = append([]c14Anno{}, l.Anno...)
		}
		for _, t := range l.Terms {
			nl.Terms = append(nl.Terms, c14Term{Input: t.Input, Not: t.Not, Vals: append([]c14Val(nil), t.Vals...)})
		}
		q.Lines = append(q.Lines, nl)
	}
	return q
}

var c14BareRe = regexp.MustCompile(`^[-+]?[A-Za-z0-9_][A-Za-z0-9_.]*$`)

// c14QuoteWith renders s inside quote character q the way the lexer reads it:
// a quote character directly after a backslash never terminates the literal
// (and nothing is unescaped: both characters stay in the value), so s is
// representable with q iff every q in s follows a backslash and s does not
// end with a backslash.
func c14QuoteWith(s string, q byte) (string, bool) {
	if strings.HasSuffix(s, "\\") {
		return "", false
	}
	for i := 0; i < len(s); i++ {
		if s[i] == q && (i == 0 || s[i-1] != '\\') {
			return "", false
		}
	}
	return string(q) + s + string(q), true
}

func c14Quote(s string, bare bool) string {
	if bare && c14BareRe.MatchString(s) {
		return s
	}
	if t, ok := c14QuoteWith(s, '\''); ok {
		return t
	}
	t, _ := c14QuoteWith(s, '"')
	return t
}

// representable: some quoting of s is read back as exactly s.
func c14Representable(s string) bool {
	if strings.ContainsAny(s, "\n\r") {
		return false
	}
	_, ok1 := c14QuoteWith(s, '\'')
	_, ok2 := c14QuoteWith(s, '"')
	return ok1 || ok2
}

func (l *c14Line) text() string {
	var ts []string
	for _, t := range l.Terms {
		var vs []string
		for _, v := range t.Vals {
			s := c14Quote(v.Val, v.Bare)
			if v.Key != "" {
				s = v.Key + ": " + s
			}
			vs = append(vs, s)
		}
		n := ""
		if t.Not {
			n = "!"
		}
		ts = append(ts, n+t.Input+"("+strings.Join(vs, ", ")+")")
	}
	s := "filter: " + strings.Join(ts, " && ")
	if l.Anno != nil {
		var as []string
		for _, a := range l.Anno {
			v := c14Quote(a.Val, a.Bare)
			if a.Key != "" {
				v = a.Key + ": " + v
			}
			as = append(as, v)
		}
		s += " [" + strings.Join(as, ", ") + "]"
	}
	return s
}

func (c *c14Case) groupText() string {
	var b strings.Builder
	b.WriteString("global {}\nrouting {\n    fallback: direct\n}\ngroup {\n    g {\n")
	for i := range c.Lines {
		b.WriteString("        " + c.Lines[i].text() + "\n")
	}
	b.WriteString("        policy: " + c.Policy + "\n    }\n}\n")
	return b.String()
}

// ---- reference semantics (from the statement and config/desc.go) ------------

func c14ValInvalid(input string, v *c14Val) string {
	switch input {
	case "name":
		if v.Key != "" && v.Key != "keyword" && v.Key != "regex" {
			return "unknown_key"
		}
	case "subtag":
		if v.Key != "" && v.Key != "regex" {
			return "unknown_key"
		}
	}
	if v.Key == "regex" && v.Sem == "bad" {
		return "bad_regex"
	}
	return ""
}

func c14AnnoInvalid(a []c14Anno) string {
	for _, p := range a {
		if p.Key != "add_latency" {
			return "anno_unknown_key"
		}
		if _, err := time.ParseDuration(p.Val); err != nil {
			return "anno_malformed"
		}
	}
	return ""
}

var c14ReCache = map[string]*regexp.Regexp{}

func c14Match(field string, v *c14Val) bool {
	switch v.Key {
	case "":
		return field == v.Val
	case "keyword":
		return strings.Contains(field, v.Val)
	case "regex":
		switch v.Sem {
		case "re2":
			re := c14ReCache[v.Val]
			if re == nil {
				re = regexp.MustCompile(v.Val)
				c14ReCache[v.Val] = re
			}
			return re.MatchString(field)
		case "notcontains":
			return !strings.Contains(field, v.A)
		case "containsboth":
			return strings.Contains(field, v.A) && strings.Contains(field, v.B)
		case "dupadj":
			rs := []rune(field)
			for i := 1; i < len(rs); i++ {
				if rs[i] == rs[i-1] {
					return true
				}
			}
			return false
		}
	}
	panic("c14Match on invalid value")
}

func c14Field(n c14Node, input string) string {
	if input == "subtag" {
		return n.Tag
	}
	return n.Name
}

type c14Expect struct {
	Invalid      string // first invalidity class in text order ("" = valid definition)
	InvalidAll   []string
	Members      []int           // pool indices, valid definitions only
	Offsets      []time.Duration // per member
	OffsetJudged []bool          // false: duplicated add_latency whose first value is zero (statement silent)
	WinLine      []int           // per member
	// classification help for accepted-invalid definitions: would a strict
	// left-to-right short-circuit evaluation touch an invalid element?
	Reached bool
	Causes  map[string]int
}

// c14PolicyExpect: ok=false -> must be rejected; judged=false -> statement silent.
func c14PolicyExpect(p string) (name string, idx int, ok bool) {
	s := strings.TrimSpace(p)
	if len(s) >= 2 && (s[0] == '\'' || s[0] == '"') && s[len(s)-1] == s[0] {
		// a quoted value is a plain string: only the parameterless names fit
		switch s[1 : len(s)-1] {
		case "random", "min", "min_avg10", "min_moving_avg":
			return s[1 : len(s)-1], 0, true
		}
		return "", 0, false
	}
	switch s {
	case "random", "min", "min_avg10", "min_moving_avg":
		return s, 0, true
	}
	if strings.HasPrefix(s, "fixed(") && strings.HasSuffix(s, ")") {
		arg := strings.TrimSpace(s[len("fixed(") : len(s)-1])
		if len(arg) >= 2 && (arg[0] == '\'' || arg[0] == '"') && arg[len(arg)-1] == arg[0] {
			arg = arg[1 : len(arg)-1]
		}
		if n, err := strconv.Atoi(arg); err == nil {
			return "fixed", n, true
		}
	}
	return "", 0, false
}

func c14Reference(c *c14Case) *c14Expect {
	e := &c14Expect{Causes: map[string]int{}}
	add := func(cl string) {
		if cl != "" {
			if e.Invalid == "" {
				e.Invalid = cl
			}
			e.InvalidAll = append(e.InvalidAll, cl)
		}
	}
	for li := range c.Lines {
		l := &c.Lines[li]
		for ti := range l.Terms {
			t := &l.Terms[ti]
			if t.Input != "name" && t.Input != "subtag" {
				add("unknown_input")
				continue
			}
			for vi := range t.Vals {
				add(c14ValInvalid(t.Input, &t.Vals[vi]))
			}
		}
		add(c14AnnoInvalid(l.Anno))
	}
	if _, _, ok := c14PolicyExpect(c.Policy); !ok {
		add("bad_policy")
		e.Reached = true // the policy is looked at unconditionally
		return e
	}
	if e.Invalid != "" {
		// classification only (never a verdict): which invalid elements would a
		// short-circuit evaluation in text order touch?
		if len(c.Pool) == 0 {
			e.Causes["empty_pool"]++
		}
		for _, n := range c.Pool {
		nextLine:
			for li := range c.Lines {
				l := &c.Lines[li]
				for ti := range l.Terms {
					t := &l.Terms[ti]
					if t.Input != "name" && t.Input != "subtag" {
						e.Reached = true
						return e
					}
					hit := false
					for vi := range t.Vals {
						if c14ValInvalid(t.Input, &t.Vals[vi]) != "" {
							e.Reached = true
							return e
						}
						if c14Match(c14Field(n, t.Input), &t.Vals[vi]) {
							hit = true
							if vi < len(t.Vals)-1 {
								e.Causes["after_hitting_alternative"]++
							}
							break
						}
					}
					if hit == t.Not {
						if ti < len(l.Terms)-1 {
							e.Causes["after_failing_term"]++
						}
						continue nextLine
					}
				}
				if c14AnnoInvalid(l.Anno) != "" {
					e.Reached = true
					return e
				}
				if li < len(c.Lines)-1 {
					e.Causes["after_hitting_line"]++
				}
				break
			}
		}
		for li := range c.Lines {
			if c14AnnoInvalid(c.Lines[li].Anno) != "" {
				e.Causes["annotation_on_line_no_node_hits_first"]++
			}
		}
		return e
	}
	// valid definition: the set comprehension.
	for i, n := range c.Pool {
		if len(c.Lines) == 0 {
			e.Members = append(e.Members, i)
			e.Offsets = append(e.Offsets, 0)
			e.OffsetJudged = append(e.OffsetJudged, true)
			e.WinLine = append(e.WinLine, -1)
			continue
		}
		for li := range c.Lines {
			l := &c.Lines[li]
			all := true
			for ti := range l.Terms {
				t := &l.Terms[ti]
				any := false
				for vi := range t.Vals {
					if c14Match(c14Field(n, t.Input), &t.Vals[vi]) {
						any = true
					}
				}
				if any == t.Not {
					all = false
				}
			}
			if !all {
				continue
			}
			var off time.Duration
			judged := true
			if len(l.Anno) > 0 {
				off, _ = time.ParseDuration(l.Anno[0].Val)
				if off == 0 {
					for _, a := range l.Anno[1:] {
						if d, _ := time.ParseDuration(a.Val); d != 0 {
							judged = false // "[add_latency: 0s, add_latency: 5ms]": statement silent
						}
					}
				}
			}
			e.Members = append(e.Members, i)
			e.Offsets = append(e.Offsets, off)
			e.OffsetJudged = append(e.OffsetJudged, judged)
			e.WinLine = append(e.WinLine, li)
			break
		}
	}
	return e
}

// ---- generator -------------------------------------------------------------

var c14Names = []string{
	"", "a", "A", "ab", "a.b", "a+b", "a|b", "(x)", "[hk]", "HK 01", "hk", "HK", "HK-02", "香港-1", "香港", "🇭🇰 HK",
	"x*", "^a$", `a\b`, "sg", "SG|HK", "Disney HK", "ExpireAt: 2030", "a'b", `a"b`, `'"`, "  ", "\t", "aa", "日本 JP", "JP", "$", ".", "a:b", "a#b", "a,b", "name", "(", "!a",
}
var c14Tags = []string{"", "", "my_sub", "my_sub2", "sub.1", "Sub", "订阅", "a", "HK", "my sub", "^my_"}

var c14BadRegex = []string{"(", "[a", "*a", "a{2,1}", "a)", "(?P<n", "[z-a]", "a**", "+", `\p{Foo}`, `\k<n>`, `\1`}
var c14BadInputs = []string{"foo", "link", "Name", "tag", "subtag2", "names", "SUBTAG"}
var c14BadNameKeys = []string{"regexp", "Keyword", "contains", "prefix", "kyword", "REGEX"}
var c14BadTagKeys = []string{"keyword", "Regex", "prefix", "contains"}
var c14BadAnnoKeys = []string{"latency", "add_latency_ms", "Add_Latency", "", "addlatency", "weight"}
var c14BadDur = []string{"500", "abc", "5 ms", "ms", "1.5.5s", "", "--5ms", "5msec", "1,5s"}
var c14GoodDur = []string{"-500ms", "1s", "0", "0s", "100us", "1.5s", "+3ms", "1h2m", "-1ns", "50ms", "1µs", "999h"}
var c14BadPolicy = []string{"min_avg", "Random", "fixed", "fixed(a)", "fixed(1,2)", "fixed(idx: 1)", "fixed(1.0)", "fixed(0x1)", "least",
	"min_moving_average", "fixed('')", "MIN", "min10", "fixed(1e0)", "fixed(１)", "'fixed(0)'", "fixed(0, 0)", "fixed(min)"}

type c14Gen struct {
	r *rand.Rand
}

func (g *c14Gen) pick(l []string) string { return l[g.r.IntN(len(l))] }

func (g *c14Gen) pool() []c14Node {
	n := g.r.IntN(13)
	// a small sub-alphabet per case makes duplicates and near-misses frequent
	sub := make([]string, 1+g.r.IntN(6))
	for i := range sub {
		sub[i] = g.pick(c14Names)
	}
	tags := make([]string, 1+g.r.IntN(3))
	for i := range tags {
		tags[i] = g.pick(c14Tags)
	}
	p := make([]c14Node, n)
	for i := range p {
		p[i] = c14Node{Name: g.pick(sub), Tag: g.pick(tags)}
		if g.r.IntN(5) == 0 {
			p[i].Name = g.pick(c14Names)
		}
	}
	return p
}

func (g *c14Gen) fieldSample(pool []c14Node, input string) string {
	if len(pool) > 0 && g.r.IntN(4) != 0 {
		n := pool[g.r.IntN(len(pool))]
		return c14Field(n, input)
	}
	if input == "subtag" {
		return g.pick(c14Tags)
	}
	return g.pick(c14Names)
}

func (g *c14Gen) substr(s string) string {
	rs := []rune(s)
	if len(rs) == 0 {
		return ""
	}
	i := g.r.IntN(len(rs))
	j := i + 1 + g.r.IntN(len(rs)-i)
	return string(rs[i:j])
}

func (g *c14Gen) regex(pool []c14Node, input string) c14Val {
	v := c14Val{Key: "regex", Sem: "re2"}
	lit := func() string { return regexp.QuoteMeta(g.substr(g.fieldSample(pool, input))) }
	switch g.r.IntN(12) {
	case 0:
		v.Val = "^" + regexp.QuoteMeta(g.fieldSample(pool, input)) + "$"
	case 1:
		v.Val = lit()
	case 2:
		v.Val = "^" + lit()
	case 3:
		v.Val = lit() + "$"
	case 4:
		v.Val = lit() + "|" + lit()
	case 5:
		v.Val = "^(" + lit() + "|" + lit() + ").*$"
	case 6:
		v.Val = "^.*" + lit() + ".+$"
	case 7:
		v.Val = "[" + g.pick([]string{"a-c", "A-Z", "0-9", "hkHK", "^a", "^ -~"}) + "]" + g.pick([]string{"", "+", "*", "?", "{2}"})
	case 8:
		v.Val = "(?i)" + g.pick([]string{"hk", "A", "sg|jp", "^a", "disney", "b$"})
	case 9:
		a := g.substr(g.fieldSample(pool, input))
		v.Sem, v.A, v.Val = "notcontains", a, "^(?!.*"+regexp.QuoteMeta(a)+")"
	case 10:
		a, b := g.substr(g.fieldSample(pool, input)), g.substr(g.fieldSample(pool, input))
		v.Sem, v.A, v.B, v.Val = "containsboth", a, b, "^(?=.*"+regexp.QuoteMeta(a)+")(?=.*"+regexp.QuoteMeta(b)+")"
	case 11:
		v.Sem, v.Val = "dupadj", `(.)\1`
	}
	if v.Sem == "re2" {
		if _, err := regexp.Compile(v.Val); err != nil {
			v.Val = "^$"
		}
	}
	return v
}

func (g *c14Gen) val(pool []c14Node, input string) c14Val {
	var v c14Val
	k := g.r.IntN(10)
	switch {
	case k < 4:
		v = c14Val{Key: "", Val: g.fieldSample(pool, input)}
	case k < 7 && input == "name":
		v = c14Val{Key: "keyword", Val: g.substr(g.fieldSample(pool, input))}
		if g.r.IntN(12) == 0 {
			v.Val = ""
		}
	default:
		v = g.regex(pool, input)
	}
	if !c14Representable(v.Val) {
		v = c14Val{Key: "", Val: "a"}
	}
	v.Bare = g.r.IntN(2) == 0
	return v
}

func (g *c14Gen) gen() *c14Case {
	c := &c14Case{Pool: g.pool()}
	nl := 0
	if g.r.IntN(10) != 0 {
		nl = 1 + g.r.IntN(4)
	}
	for i := 0; i < nl; i++ {
		var l c14Line
		if i > 0 && g.r.IntN(6) == 0 {
			// a near-copy of the previous line: same functions, one value (preferably a late one of
			// a long list) exchanged; whatever is remembered about the earlier line must not be
			// taken for this one
			prev := c.Lines[i-1]
			for _, t := range prev.Terms {
				nt := c14Term{Input: t.Input, Not: t.Not, Vals: append([]c14Val(nil), t.Vals...)}
				l.Terms = append(l.Terms, nt)
			}
			t := &l.Terms[g.r.IntN(len(l.Terms))]
			k := len(t.Vals) - 1
			if g.r.IntN(4) == 0 {
				k = g.r.IntN(len(t.Vals))
			}
			t.Vals[k] = g.val(c.Pool, t.Input)
			l.Anno = []c14Anno{{Key: "add_latency", Val: g.pick(c14GoodDur), Bare: g.r.IntN(2) == 0}}
			c.Lines = append(c.Lines, l)
			continue
		}
		nt := 1 + g.r.IntN(3)
		for j := 0; j < nt; j++ {
			t := c14Term{Input: "name", Not: g.r.IntN(10) < 3}
			if g.r.IntN(10) < 3 {
				t.Input = "subtag"
			}
			nv := 1 + g.r.IntN(3)
			if g.r.IntN(8) == 0 {
				nv = 5 + g.r.IntN(5) // long alternatives lists
			}
			for k := 0; k < nv; k++ {
				t.Vals = append(t.Vals, g.val(c.Pool, t.Input))
			}
			l.Terms = append(l.Terms, t)
		}
		switch g.r.IntN(10) {
		case 0, 1, 2, 3:
			l.Anno = []c14Anno{{Key: "add_latency", Val: g.pick(c14GoodDur), Bare: g.r.IntN(2) == 0}}
		case 4:
			l.Anno = []c14Anno{{Key: "add_latency", Val: g.pick(c14GoodDur), Bare: true}, {Key: "add_latency", Val: g.pick(c14GoodDur)}}
		}
		c.Lines = append(c.Lines, l)
	}
	switch g.r.IntN(7) {
	case 0:
		c.Policy = "random"
	case 1:
		c.Policy = "min"
	case 2:
		c.Policy = "min_avg10"
	case 3:
		c.Policy = "min_moving_avg"
	case 4:
		c.Policy = g.pick([]string{"'min'", `"random"`, "fixed('2')", "fixed( 1 )", "fixed(+1)", "fixed(-1)", "fixed(007)"})
	default:
		c.Policy = fmt.Sprintf("fixed(%d)", g.r.IntN(len(c.Pool)+3)-1)
	}
	// inject invalid elements
	if g.r.IntN(100) < 30 {
		k := 1
		if g.r.IntN(10) == 0 {
			k = 2
		}
		for ; k > 0; k-- {
			g.inject(c)
		}
	}
	return c
}

func (g *c14Gen) inject(c *c14Case) {
	kind := g.r.IntN(7)
	if len(c.Lines) == 0 && kind < 6 {
		if g.r.IntN(2) == 0 {
			kind = 6
		} else {
			c.Lines = append(c.Lines, c14Line{Terms: []c14Term{{Input: "name", Vals: []c14Val{g.val(c.Pool, "name")}}}})
		}
	}
	if kind == 6 {
		c.Policy = g.pick(c14BadPolicy)
		return
	}
	l := &c.Lines[g.r.IntN(len(c.Lines))]
	t := &l.Terms[g.r.IntN(len(l.Terms))]
	insertVal := func(v c14Val) {
		// bias to late positions so that both eager and lazily skipped placements occur
		pos := g.r.IntN(len(t.Vals) + 1)
		if g.r.IntN(2) == 0 {
			pos = len(t.Vals)
		}
		t.Vals = append(t.Vals[:pos], append([]c14Val{v}, t.Vals[pos:]...)...)
	}
	switch kind {
	case 0:
		t.Input = g.pick(c14BadInputs)
	case 1:
		if t.Input == "subtag" {
			insertVal(c14Val{Key: g.pick(c14BadTagKeys), Val: g.fieldSample(c.Pool, "subtag")})
		} else {
			insertVal(c14Val{Key: g.pick(c14BadNameKeys), Val: g.fieldSample(c.Pool, "name")})
		}
		for i := range t.Vals {
			if !c14Representable(t.Vals[i].Val) {
				t.Vals[i].Val = "x"
			}
		}
	case 2:
		insertVal(c14Val{Key: "regex", Val: g.pick(c14BadRegex), Sem: "bad"})
	case 3:
		// subtag(keyword: ...) — the documented asymmetry
		nt := c14Term{Input: "subtag", Not: g.r.IntN(3) == 0, Vals: []c14Val{{Key: "keyword", Val: g.pick([]string{"my", "sub", "x"}), Bare: true}}}
		pos := g.r.IntN(len(l.Terms) + 1)
		l.Terms = append(l.Terms[:pos], append([]c14Term{nt}, l.Terms[pos:]...)...)
	case 4:
		k := g.pick(c14BadAnnoKeys)
		a := c14Anno{Key: k, Val: g.pick(c14GoodDur), Bare: true}
		if g.r.IntN(2) == 0 && l.Anno != nil {
			l.Anno = append(l.Anno, a)
		} else {
			l.Anno = []c14Anno{a}
		}
	case 5:
		a := c14Anno{Key: "add_latency", Val: g.pick(c14BadDur)}
		if g.r.IntN(2) == 0 && l.Anno != nil {
			l.Anno = append(l.Anno, a)
		} else {
			l.Anno = []c14Anno{a}
		}
	}
}

// ---- driving the real code --------------------------------------------------

type c14NoopDialer struct{}

func (c14NoopDialer) DialContext(context.Context, string, string) (netproxy.Conn, error) {
	return nil, errors.New("not implemented")
}

var c14Log = func() *logrus.Logger {
	l := logrus.New()
	l.SetOutput(io.Discard)
	l.SetLevel(logrus.PanicLevel)
	return l
}()

var c14Option = &dialer.GlobalOption{Log: c14Log, CheckInterval: 30 * time.Second}

type c14Got struct {
	Stage   string // parse | config | policy | filter | ok | panic
	Err     string
	Members []int
	Offsets []time.Duration
	Policy  DialerSelectionPolicy
	Extra   string // structural damage of the result (nil entries, foreign dialers, length mismatch)
	// PoolOrder: pool node indices in the order of the constructed pool (DialerSet.dialers)
	PoolOrder []int
}

func c14Run(c *c14Case) (got c14Got) {
	defer func() {
		if r := recover(); r != nil {
			got = c14Got{Stage: "panic", Err: fmt.Sprint(r)}
		}
	}()
	secs, err := config_parser.Parse(c.groupText())
	if err != nil {
		return c14Got{Stage: "parse", Err: err.Error()}
	}
	conf, err := config.New(secs)
	if err != nil {
		return c14Got{Stage: "config", Err: err.Error()}
	}
	if len(conf.Group) != 1 {
		return c14Got{Stage: "config", Err: fmt.Sprintf("got %d groups", len(conf.Group))}
	}
	group := conf.Group[0]

	// The pool is built by the production constructor from node links (socks5 links parse offline;
	// the node name is the link's fragment, the subscription tag the map key). Pool node i is
	// recognised by its port. The constructor walks the tag map in Go's random order, so the pool
	// order is whatever set.dialers says afterwards; it is handed to the judge.
	tagToLinks := map[string][]string{}
	for i, n := range c.Pool {
		tagToLinks[n.Tag] = append(tagToLinks[n.Tag], fmt.Sprintf("socks5://127.0.0.1:%d#%s", 20000+i, url.PathEscape(n.Name)))
	}
	set := NewDialerSetFromLinks(c14Option, tagToLinks)
	defer set.Close()
	index := map[*dialer.Dialer]int{}
	var poolOrder []int
	for _, d := range set.dialers {
		var port int
		if p := d.Property(); p != nil {
			if k := strings.LastIndexByte(p.Address, ':'); k >= 0 {
				port, _ = strconv.Atoi(p.Address[k+1:])
			}
		}
		i := port - 20000
		if i < 0 || i >= len(c.Pool) || d.Property().Name != c.Pool[i].Name || d.Property().SubscriptionTag != c.Pool[i].Tag {
			return c14Got{Stage: "ok", Extra: fmt.Sprintf("pool constructor produced node %+v that is not pool node %d (%+v)", d.Property(), i, c.Pool)}
		}
		index[d] = i
		poolOrder = append(poolOrder, i)
	}
	if len(poolOrder) != len(c.Pool) {
		return c14Got{Stage: "ok", Extra: fmt.Sprintf("pool constructor produced %d nodes from %d links", len(poolOrder), len(c.Pool))}
	}

	// same order as control/control_plane.go: policy first, then the filters
	policy, err := NewDialerSelectionPolicyFromGroupParam(&group)
	if err != nil {
		return c14Got{Stage: "policy", Err: err.Error()}
	}
	ds, annos, err := set.FilterAndAnnotate(group.Filter, group.FilterAnnotation)
	if err != nil {
		return c14Got{Stage: "filter", Err: err.Error()}
	}
	got = c14Got{Stage: "ok", Policy: *policy, PoolOrder: poolOrder}
	if len(ds) != len(annos) {
		got.Extra = fmt.Sprintf("%d dialers but %d annotations", len(ds), len(annos))
		return got
	}
	for k, d := range ds {
		i, ok := index[d]
		if !ok || annos[k] == nil {
			got.Extra = fmt.Sprintf("member %d is not a pool node or has a nil annotation", k)
			return got
		}
		got.Members = append(got.Members, i)
		got.Offsets = append(got.Offsets, annos[k].AddLatency)
	}
	return got
}

// c14Judge returns ("", "") when the case holds, else (structural signature, description).
func c14Judge(c *c14Case, e *c14Expect, g *c14Got) (sig, what string) {
	if g.Stage == "panic" {
		return "panic", "group construction panicked: " + g.Err
	}
	if e.Invalid != "" {
		if g.Stage != "ok" {
			return "", ""
		}
		if e.Reached {
			return "invalid-accepted/" + e.Invalid, "invalid group definition (" + e.Invalid + ") accepted although evaluation touches the invalid element"
		}
		return "invalid-unreported/" + e.Invalid + "/not-evaluated",
			"invalid group definition (" + e.Invalid + ") accepted without a configuration error: the invalid element is never evaluated for this pool (lazy validation)"
	}
	if g.Stage != "ok" {
		return "valid-rejected/" + g.Stage, "valid group definition rejected at stage " + g.Stage + ": " + vkFirstLine(g.Err)
	}
	if g.Extra != "" {
		return "malformed-result", g.Extra
	}
	if len(g.PoolOrder) == len(c.Pool) && len(e.Members) > 1 {
		// "in pool order" refers to the pool as constructed
		rank := make(map[int]int, len(g.PoolOrder))
		for pos, i := range g.PoolOrder {
			rank[i] = pos
		}
		perm := make([]int, len(e.Members))
		for k := range perm {
			perm[k] = k
		}
		sort.SliceStable(perm, func(a, b int) bool { return rank[e.Members[perm[a]]] < rank[e.Members[perm[b]]] })
		e2 := *e
		e2.Members, e2.Offsets, e2.OffsetJudged, e2.WinLine = nil, nil, nil, nil
		for _, k := range perm {
			e2.Members = append(e2.Members, e.Members[k])
			e2.Offsets = append(e2.Offsets, e.Offsets[k])
			e2.OffsetJudged = append(e2.OffsetJudged, e.OffsetJudged[k])
			e2.WinLine = append(e2.WinLine, e.WinLine[k])
		}
		e = &e2
	}
	name, idx, _ := c14PolicyExpect(c.Policy)
	if string(g.Policy.Policy) != name || (name == "fixed" && g.Policy.FixedIndex != idx) {
		return "policy-mismatch", fmt.Sprintf("policy %q became %+v", c.Policy, g.Policy)
	}
	if len(c.Lines) == 0 {
		if !c14EqualInts(g.Members, e.Members) {
			return "nofilter-not-whole-pool", fmt.Sprintf("filter-less group has members %v, pool has %d nodes", g.Members, len(c.Pool))
		}
	}
	if !c14EqualInts(g.Members, e.Members) {
		kind := "members"
		if c14SameSet(g.Members, e.Members) {
			kind = "order-or-multiplicity"
		} else if len(g.Members) > len(e.Members) {
			kind = "extra-member"
		} else if len(g.Members) < len(e.Members) {
			kind = "missing-member"
		}
		return "membership/" + kind, fmt.Sprintf("members (pool indices) got %v, reference %v", g.Members, e.Members)
	}
	for k := range e.Members {
		if e.OffsetJudged[k] && g.Offsets[k] != e.Offsets[k] {
			return "annotation-mismatch", fmt.Sprintf("member pool[%d] (first satisfied line %d) carries add_latency %v, reference %v",
				e.Members[k], e.WinLine[k], g.Offsets[k], e.Offsets[k])
		}
	}
	return "", ""
}

func vkFirstLine(s string) string {
	if i := strings.IndexByte(s, '\n'); i >= 0 {
		return s[:i]
	}
	return s
}

func c14EqualInts(a, b []int) bool {
	if len(a) != len(b) {
		return false
	}
	for i := range a {
		if a[i] != b[i] {
			return false
		}
	}
	return true
}

func c14SameSet(a, b []int) bool {
	x, y := map[int]bool{}, map[int]bool{}
	for _, v := range a {
		x[v] = true
	}
	for _, v := range b {
		y[v] = true
	}
	if len(x) != len(y) {
		return false
	}
	for v := range x {
		if !y[v] {
			return false
		}
	}
	return true
}

func c14Check(c *c14Case) (sig, what string, e *c14Expect, g c14Got) {
	e = c14Reference(c)
	g = c14Run(c)
	sig, what = c14Judge(c, e, &g)
	return
}

// c14Minimize greedily removes pool nodes, lines, terms, values and annotations
// while the same structural signature keeps firing.
func c14Minimize(c *c14Case, sig string, keepNode bool) *c14Case {
	bad := func(q *c14Case) bool {
		if keepNode && len(q.Pool) == 0 {
			return false
		}
		for _, l := range q.Lines {
			if len(l.Terms) == 0 {
				return false
			}
			for _, t := range l.Terms {
				if len(t.Vals) == 0 {
					return false
				}
			}
		}
		s, _, _, _ := c14Check(q)
		return s == sig
	}
	cur := c.clone()
	for changed := true; changed; {
		changed = false
		for i := 0; i < len(cur.Pool); i++ {
			q := cur.clone()
			q.Pool = append(q.Pool[:i], q.Pool[i+1:]...)
			if bad(q) {
				cur, changed = q, true
				i--
			}
		}
		for i := 0; i < len(cur.Lines); i++ {
			q := cur.clone()
			q.Lines = append(q.Lines[:i], q.Lines[i+1:]...)
			if len(q.Lines) > 0 && bad(q) {
				cur, changed = q, true
				i--
			}
		}
		for i := range cur.Lines {
			for j := 0; j < len(cur.Lines[i].Terms); j++ {
				q := cur.clone()
				q.Lines[i].Terms = append(q.Lines[i].Terms[:j], q.Lines[i].Terms[j+1:]...)
				if bad(q) {
					cur, changed = q, true
					j--
				}
			}
			for j := range cur.Lines[i].Terms {
				for k := 0; k < len(cur.Lines[i].Terms[j].Vals); k++ {
					q := cur.clone()
					vs := q.Lines[i].Terms[j].Vals
					q.Lines[i].Terms[j].Vals = append(vs[:k], vs[k+1:]...)
					if bad(q) {
						cur, changed = q, true
						k--
					}
				}
			}
			if cur.Lines[i].Anno != nil {
				q := cur.clone()
				q.Lines[i].Anno = nil
				if bad(q) {
					cur, changed = q, true
				}
			}
		}
	}
	return cur
}

func c14Shape(c *c14Case, e *c14Expect) string {
	var ls []string
	for _, l := range c.Lines {
		var ts []string
		for _, t := range l.Terms {
			s := t.Input[:1]
			if t.Input != "name" && t.Input != "subtag" {
				s = "?"
			}
			if t.Not {
				s = "!" + s
			}
			ks := ""
			for _, v := range t.Vals {
				switch v.Key {
				case "":
					ks += "e"
				case "keyword":
					ks += "k"
				case "regex":
					ks += "r"
				default:
					ks += "?"
				}
			}
			ts = append(ts, s+ks)
		}
		a := ""
		if l.Anno != nil {
			a = fmt.Sprintf("[%d]", len(l.Anno))
		}
		ls = append(ls, strings.Join(ts, "&")+a)
	}
	wins := map[int]bool{}
	for _, w := range e.WinLine {
		wins[w] = true
	}
	var ws []int
	for w := range wins {
		ws = append(ws, w)
	}
	sort.Ints(ws)
	return fmt.Sprintf("%s|win%v|inv:%s", strings.Join(ls, ";"), ws, e.Invalid)
}

func TestVerifC14(t *testing.T) {
	m := vk.NewMonitor("C14", "", "exploration",
		"generated (node pool of 0-12 dialers over an adversarial name/subtag alphabet) x (group definition TEXT: 0-4 filter lines, 1-3 && terms, "+
			"1-3 alternatives exact/keyword/regex, negation, annotations absent/present/duplicated, 5 policies, injected invalid elements at random positions); "+
			"distinct = (per-line term/key shape, set of lines that won for >=1 node, invalidity class); "+
			"non-trivial = invalid definition, or a valid one whose member list is non-empty and differs from the whole pool, or won by a non-first line, or carries a non-zero annotation")
	m.SetFloor(200)
	m.Assume("reference = set comprehension written from the statement and config/desc.go; regex meaning by Go's regexp on an RE2/.NET-common sub-language plus three hand-written look-around/back-reference templates",
		"the group-construction calls of control/control_plane.go:569-607 (policy, then FilterAndAnnotate) are replayed in the same order on a DialerSet built directly from dialer.NewDialer nodes; newControlPlane itself (needs a datapath) is not executed",
		"duration syntax of add_latency is Go's time.ParseDuration; duplicated add_latency keys are judged only when the first value is non-zero (statement silent otherwise)",
		"dae documents five policies (random, fixed, min, min_avg10, min_moving_avg); the property text says six")
	r := vk.NewRand(0xC14)
	g := &c14Gen{r: r}
	n := vk.Scale(6000, 300000)
	reported := map[string]int{}
	pending := map[string]*c14Case{}
	report := func(c *c14Case, sig, what string) {
		min := c14Minimize(c, sig, len(c.Pool) > 0)
		_, what2, e2, got2 := c14Check(min)
		if what2 != "" {
			what = what2
		}
		m.Violation(sig, what, map[string]any{
			"pool": min.Pool, "group_text": min.groupText(), "case": min,
			"reference": map[string]any{"invalid": e2.InvalidAll, "members": e2.Members, "offsets_ns": e2.Offsets, "would_be_evaluated": e2.Reached, "skip_causes": e2.Causes},
			"got":       map[string]any{"stage": got2.Stage, "error": got2.Err, "members": got2.Members, "offsets_ns": got2.Offsets, "policy": fmt.Sprintf("%+v", got2.Policy), "extra": got2.Extra},
			"original":  map[string]any{"pool": c.Pool, "group_text": c.groupText()},
		})
	}
	for i := 0; i < n && m.Violations() < 8; i++ {
		c := g.gen()
		sig, what, e, got := c14Check(c)
		m.Eval(1)
		// ---- what was observed
		nontrivial := false
		if e.Invalid != "" {
			nontrivial = true
			m.Count("invalid_definitions", 1)
			if !e.Reached {
				m.Count("invalid_element_placed_where_short_circuit_evaluation_skips_it", 1)
			}
			if got.Stage != "ok" {
				m.Count("invalid_reported/"+e.Invalid, 1)
				m.Count("invalid_reported_at_stage/"+got.Stage, 1)
				if !e.Reached && e.Invalid != "bad_policy" {
					m.Count("invalid_reported_although_short_circuit_would_skip_it", 1)
				}
			} else {
				for k, v := range e.Causes {
					m.Count("invalid_accepted_cause/"+k, int64(v))
				}
			}
		} else {
			m.Count("valid_definitions", 1)
			name, idx, _ := c14PolicyExpect(c.Policy)
			m.Count("policy_valid/"+name, 1)
			if name == "fixed" && (idx < 0 || idx >= len(e.Members)) {
				m.Count("policy_fixed_index_out_of_range_accepted_at_construction", 1)
			}
			if len(c.Lines) == 0 {
				m.Count("no_filter_whole_pool", 1)
				if len(c.Pool) == 0 {
					m.Count("no_filter_empty_pool", 1)
				}
			}
			if len(c.Pool) == 0 {
				m.Count("empty_pool", 1)
			}
			if len(e.Members) > 0 && len(e.Members) < len(c.Pool) {
				nontrivial = true
				m.Count("proper_nonempty_subset", 1)
			}
			seen := map[c14Node]bool{}
			for k, pi := range e.Members {
				if e.WinLine[k] > 0 {
					nontrivial = true
					m.Count("member_won_by_non_first_line", 1)
				}
				if e.Offsets[k] != 0 {
					nontrivial = true
					m.Count("member_with_nonzero_annotation", 1)
				}
				if !e.OffsetJudged[k] {
					m.Count("annotation_duplicate_first_zero_unjudged", 1)
				}
				if seen[c.Pool[pi]] {
					m.Count("duplicate_node_is_member_twice", 1)
				}
				seen[c.Pool[pi]] = true
				if c.Pool[pi].Name == "" {
					m.Count("empty_name_member", 1)
				}
				if e.WinLine[k] >= 0 {
					for _, t := range c.Lines[e.WinLine[k]].Terms {
						if t.Not {
							m.Count("member_via_negated_term", 1)
						}
						if t.Input == "subtag" {
							m.Count("member_via_subtag_term", 1)
						}
						for vi := range t.Vals {
							v := &t.Vals[vi]
							if !t.Not && c14Match(c14Field(c.Pool[pi], t.Input), v) {
								k := v.Key
								if k == "" {
									k = "exact"
								}
								if k == "regex" {
									k += "/" + v.Sem
								}
								m.Count("hit_by/"+k, 1)
							}
						}
					}
				}
			}
		}
		if nontrivial {
			m.Distinct(c14Shape(c, e))
		}
		if sig == "" {
			if nontrivial && e.Invalid == "" && len(c.Lines) >= 2 && m.WantSample() {
				m.Sample(map[string]any{"pool": c.Pool, "group_text": c.groupText(), "members": got.Members, "offsets_ns": got.Offsets})
			}
			continue
		}
		if reported[sig] > 0 {
			// one minimised witness per structural signature; further ones are counted
			reported[sig]++
			m.Count("further_witnesses/"+sig, 1)
			continue
		}
		if len(c.Pool) == 0 && strings.HasPrefix(sig, "invalid-unreported/") {
			// an empty pool evaluates nothing at all: keep it as a fallback witness
			// and prefer one with nodes
			if pending[sig] == nil {
				pending[sig] = c
			}
			m.Count("empty_pool_witness_deferred/"+sig, 1)
			continue
		}
		reported[sig]++
		report(c, sig, what)
	}
	for sig, c := range pending {
		if reported[sig] == 0 {
			report(c, sig, "invalid group definition accepted without a configuration error on an empty pool")
		}
	}
	m.Require("invalid_element_placed_where_short_circuit_evaluation_skips_it", "invalid_reported/unknown_input", "invalid_reported/unknown_key", "invalid_reported/bad_regex",
		"invalid_reported/anno_unknown_key", "invalid_reported/anno_malformed", "invalid_reported/bad_policy",
		"no_filter_whole_pool", "member_won_by_non_first_line", "member_with_nonzero_annotation", "member_via_negated_term",
		"member_via_subtag_term", "duplicate_node_is_member_twice", "empty_name_member",
		"hit_by/exact", "hit_by/keyword", "hit_by/regex/re2", "hit_by/regex/notcontains", "hit_by/regex/containsboth", "hit_by/regex/dupadj",
		"policy_valid/random", "policy_valid/fixed", "policy_valid/min", "policy_valid/min_avg10", "policy_valid/min_moving_avg",
		"policy_fixed_index_out_of_range_accepted_at_construction")
	m.Done(t)
}
