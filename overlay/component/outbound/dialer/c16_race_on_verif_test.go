//go:build race

package dialer_test

const c16RaceEnabled = true
