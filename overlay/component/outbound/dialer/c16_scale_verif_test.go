package dialer_test

// C16 monitor (part "scale"): the documented escalation - three death transitions accumulated
// for one proxy address without a success in between take ALL network types of that proxy
// down - while MANY other proxy addresses have death transitions pending too. Whatever
// bookkeeping counts the transitions per address (a table, a cache, a bounded structure) must
// not lose the count of one address because other addresses were touched in between. Rounds:
// N real Dialers with distinct addresses (N from a handful to several hundred, around powers
// of two); the node under test gets two death transitions (two different network types),
// then every other node gets 0-2 transitions of its own (the node under test becomes the
// least recently touched one), a random subset has a success in between (their count is
// cleared), then the node under test gets its third. Oracle, from the statement: after the
// third transition no network type of that node is alive; a node with fewer than three
// accumulated transitions keeps the types nobody reported dead. Single goroutine, no timing.

import (
	"errors"
	"fmt"
	"io"
	"testing"
	"time"

	"github.com/daeuniverse/dae/common/consts"
	"github.com/daeuniverse/dae/component/outbound/dialer"
	vk "github.com/daeuniverse/dae/verifkit"
	D "github.com/daeuniverse/outbound/dialer"
	"github.com/sirupsen/logrus"
)

func c16ScaleTypes() []*dialer.NetworkType {
	var out []*dialer.NetworkType
	for _, ipv := range []consts.IpVersionStr{consts.IpVersionStr_4, consts.IpVersionStr_6} {
		out = append(out,
			&dialer.NetworkType{L4Proto: consts.L4ProtoStr_TCP, IpVersion: ipv},
			&dialer.NetworkType{L4Proto: consts.L4ProtoStr_UDP, IpVersion: ipv, IsDns: true, UdpHealthDomain: dialer.UdpHealthDomainDns},
			&dialer.NetworkType{L4Proto: consts.L4ProtoStr_UDP, IpVersion: ipv, UdpHealthDomain: dialer.UdpHealthDomainData})
	}
	return out
}

func TestVerifC16Scale(t *testing.T) {
	m := vk.NewMonitor("C16", "scale", "exploration",
		"rounds of N real Dialers with distinct proxy addresses (N = 3..700, clustered around 64/128/256/512): node X accumulates two death transitions, every other node 0-2 of its own (some cleared by a success), then X's third: every network type of X must be down; nodes below three keep their unreported types; distinct = (N bucket, types used for X's transitions, others' transitions)")
	m.SetFloor(20)
	m.Assume("death transitions are produced by failed probes reported through ReportUnavailableTransactional (one for a TCP type, three for a UDP type) on a type that is alive; no success is reported in a round; DisableCheck, CheckInterval 24h: no timers, one goroutine",
		"all transitions of a round happen within milliseconds, far inside any time window the accumulation may be limited to")
	log := logrus.New()
	log.SetOutput(io.Discard)
	log.SetLevel(logrus.PanicLevel)
	option := &dialer.GlobalOption{Log: log, CheckInterval: 24 * time.Hour, CheckTolerance: 0}
	types := c16ScaleTypes()
	r := vk.NewRand(0xC165)
	sizes := []int{3, 9, 33, 63, 64, 65, 127, 128, 129, 200, 255, 256, 257, 258, 300, 400, 511, 512, 513, 700}
	rounds := vk.Scale(60, 1500)
	errRefused := errors.New("connection refused")
	for round := 0; round < rounds && m.Violations() < 3; round++ {
		n := sizes[r.IntN(len(sizes))]
		if round < len(sizes) {
			n = sizes[round]
		}
		nodes := make([]*dialer.Dialer, n)
		for i := range nodes {
			nodes[i] = dialer.NewDialer(c16NoopDialer{}, option, dialer.InstanceOption{DisableCheck: true},
				&dialer.Property{Property: D.Property{Name: fmt.Sprintf("s%d-%d", round, i), Address: fmt.Sprintf("198.18.%d.%d:%d", (round*7+i/250)%256, i%250+1, 1000+round%50000), Protocol: "verif"}})
		}
		x := nodes[0]
		perm := r.Perm(len(types))
		kill := func(d *dialer.Dialer, ti int) bool {
			nt := types[ti]
			if !d.MustGetAlive(nt) {
				return false
			}
			// failed probes, as the health check reports them: one for TCP, three for UDP
			for k := 0; k < 3 && d.MustGetAlive(nt); k++ {
				d.ReportUnavailableTransactional(nt, errRefused)
			}
			return !d.MustGetAlive(nt)
		}
		ok := kill(x, perm[0]) && kill(x, perm[1])
		if !ok {
			m.Count("rounds_skipped_node_under_test_could_not_take_two_transitions", 1)
		}
		othersTouched, othersTwo := 0, 0
		for i := 1; i < n && ok; i++ {
			k := r.IntN(3)
			if n >= 250 && r.IntN(10) != 0 {
				k = 1 + r.IntN(2) // large rounds: nearly every other address has transitions pending
			}
			p2 := r.Perm(len(types))
			for j := 0; j < k; j++ {
				if kill(nodes[i], p2[j]) {
					othersTouched++
					if j == 1 {
						othersTwo++
					}
				}
			}
		}
		m.Eval(1)
		if ok {
			third := kill(x, perm[2])
			aliveLeft := []string{}
			for _, nt := range types {
				if x.MustGetAlive(nt) {
					aliveLeft = append(aliveLeft, nt.String())
				}
			}
			bucket := "<64"
			switch {
			case n >= 512:
				bucket = ">=512"
			case n >= 256:
				bucket = "256-511"
			case n >= 128:
				bucket = "128-255"
			case n >= 64:
				bucket = "64-127"
			}
			m.Count("rounds_judged/addresses_"+bucket, 1)
			m.Count("other_addresses_with_pending_transitions", int64(othersTouched))
			m.Distinct(fmt.Sprintf("%s|%v|%d", bucket, perm[:3], othersTwo*8/(n)))
			if third && len(aliveLeft) > 0 {
				m.Violation("escalation-lost/many-addresses-pending", fmt.Sprintf("node %s took its third death transition (types %s, %s, %s, no success in between) while %d other proxy addresses had transitions pending, and is still alive for %v",
					x.Property().Name, types[perm[0]].String(), types[perm[1]].String(), types[perm[2]].String(), othersTouched, aliveLeft),
					map[string]any{"addresses": n, "other_transitions": othersTouched, "types_of_node_under_test": []string{types[perm[0]].String(), types[perm[1]].String(), types[perm[2]].String()}, "still_alive": aliveLeft})
			} else if third {
				m.Count("escalations_observed", 1)
			}
			// a node with at most two transitions keeps the types nobody reported
			for i := 1; i < n && i < 6; i++ {
				dead := 0
				for _, nt := range types {
					if !nodes[i].MustGetAlive(nt) {
						dead++
					}
				}
				if dead > 2 {
					m.Violation("premature-escalation/many-addresses-pending", fmt.Sprintf("node %s took at most two death transitions and has %d network types down", nodes[i].Property().Name, dead), map[string]any{"addresses": n})
					break
				}
				m.Count("bystanders_checked", 1)
			}
		}
		for _, d := range nodes {
			_ = d.Close()
		}
	}
	m.Require("rounds_judged/addresses_<64", "rounds_judged/addresses_64-127", "rounds_judged/addresses_128-255", "rounds_judged/addresses_256-511", "rounds_judged/addresses_>=512", "escalations_observed", "bystanders_checked")
	m.Done(t)
}
