package dialer

// C16 monitor bridge: read-only views of unexported health state and the two
// production entry points that are not reachable from outside the package
// (Check() needs CheckOption.networkType; markAvailable is what check() calls
// on success). Used by the external test package in c16_health_verif_test.go.

import (
	"context"
	"time"
)

// VerifC16Probe runs the production Dialer.Check with a CheckFunc that
// returns (ok, err). A succeeding probe busy-waits a few microseconds so the
// measured latency is never zero.
func VerifC16Probe(d *Dialer, typ *NetworkType, ok bool, err error) (calls int) {
	opt := &CheckOption{
		networkType: typ,
		CheckFunc: func(context.Context, *NetworkType) (bool, error) {
			calls++
			if ok && err == nil {
				for t0 := time.Now(); time.Since(t0) < 4*time.Microsecond; {
				}
			}
			return ok, err
		},
	}
	_, _ = d.Check(opt)
	return calls
}

// VerifC16ProbeOkLatency is the success branch of check() with a chosen latency.
func VerifC16ProbeOkLatency(d *Dialer, typ *NetworkType, latency time.Duration) {
	update, _ := d.markAvailable(typ, latency)
	d.informDialerGroupUpdate(update)
}

func VerifC16Counts(d *Dialer, typ *NetworkType) (fail int, traffic int) {
	idx := typ.Index()
	d.collectionFineMu.RLock()
	defer d.collectionFineMu.RUnlock()
	return d.failCount[idx], int(d.trafficFailCount[idx].Load())
}

// VerifC16ResetGlobals clears the process-global proxy failure tracker and
// the reload suppression counter/quiesce deadline between histories.
func VerifC16ResetGlobals() {
	resetGlobalProxyState()
	reloadProxyFailureSuppression.Store(0)
	reloadProxyFailureSuppressUntil.Store(0)
}

// VerifC16ClearQuiesce removes the wall-clock quiesce window that
// EndReloadProxyFailureSuppression arms, so histories do not depend on time.
func VerifC16ClearQuiesce() { reloadProxyFailureSuppressUntil.Store(0) }

func VerifC16Suppressed() bool { return proxyFailureSuppressedForReload() }

func VerifC16SetHas(a *AliveDialerSet, d *Dialer) bool {
	a.mu.RLock()
	defer a.mu.RUnlock()
	idx, ok := a.dialerToIndex[d]
	return ok && idx >= 0 && idx < len(a.aliveEntries) && a.aliveEntries[idx].dialer == d
}

func VerifC16TrackerCount(addr string) int {
	globalProxyIpHealthTracker.Lock()
	defer globalProxyIpHealthTracker.Unlock()
	return int(globalProxyIpHealthTracker.failures[addr].count)
}
