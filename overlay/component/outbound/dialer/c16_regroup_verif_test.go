package dialer_test

// C16 regroup histories: "every group containing the node sees the node's state
// after each event" also for a group that was built over nodes that already
// have a history - the group of a generation is closed (its alive sets are
// unregistered from the dialers) and a new group over the same dialers takes
// its place, so a dialer's registered sets change without their number
// changing. After every later event the new group's alive sets are compared
// with the nodes' own state, and the connectivity callback of a latency-policy
// group with the edges of its alive count (relations only: no model of the
// thresholds is involved; the bit is what the callbacks since the group's
// construction, the construction ones included, leave behind, and it is judged
// at the two edges the property names; no model of the thresholds is involved, the node's own MustGetAlive is the reference).

import (
	"fmt"
	"math/rand/v2"
	"time"

	"github.com/daeuniverse/dae/common/consts"
	"github.com/daeuniverse/dae/component/outbound"
	"github.com/daeuniverse/dae/component/outbound/dialer"
	vk "github.com/daeuniverse/dae/verifkit"
)

func (w *c16World) regroup(gi int) {
	gc := w.cfg.Groups[gi]
	option := &dialer.GlobalOption{Log: w.log, CheckInterval: 24 * time.Hour, CheckTolerance: time.Duration(w.cfg.ToleranceMs) * time.Millisecond}
	var ds []*dialer.Dialer
	var annos []*dialer.Annotation
	for k, m := range gc.Members {
		ds = append(ds, w.nodes[m])
		annos = append(annos, &dialer.Annotation{AddLatency: time.Duration(gc.AddLatMs[k]) * time.Millisecond})
	}
	_ = w.groups[gi].Close()
	policy := outbound.DialerSelectionPolicy{Policy: consts.DialerSelectionPolicy(gc.Policy), FixedIndex: gc.FixedIdx}
	w.groups[gi] = outbound.NewDialerGroup(option, gc.Name, ds, annos, policy,
		func(alive bool, nt *dialer.NetworkType, isInit bool) {
			w.groupCB = append(w.groupCB, vk.C16GroupCB{G: gi, D: c16DomainOf(nt), Alive: alive, Init: isInit})
		})
}

// c16AliveCount returns the number of members of group gi the nodes themselves call alive.
func (w *c16World) c16AliveCount(gi, dom int) int {
	n := 0
	for _, mb := range w.cfg.Groups[gi].Members {
		if w.nodes[mb].MustGetAlive(c16Type(dom, 0)) {
			n++
		}
	}
	return n
}

func c16Regroup(m *vk.Monitor, r *rand.Rand) {
	rounds := vk.Scale(400, 6000)
	for round := 0; round < rounds && m.Violations() < 5; round++ {
		cfg, evs := vk.C16GenCase(r)
		if len(cfg.Groups) == 0 {
			continue
		}
		w := c16NewWorld(cfg)
		var trail []string
		regrouped := map[int]bool{}
		bit, bitKnown := map[[2]int]bool{}, map[[2]int]bool{}
		bad := false
		for i := 0; i < len(evs) && !bad; i++ {
			ev := evs[i]
			if ev.K == vk.C16ReloadBuild {
				regrouped = map[int]bool{}
			}
			if r.IntN(12) == 0 {
				gi := r.IntN(len(cfg.Groups))
				w.groupCB = nil
				w.regroup(gi)
				for dom := 0; dom < 6; dom++ {
					delete(bitKnown, [2]int{gi, dom})
				}
				for _, c := range w.groupCB {
					if c.G == gi && c.D >= 0 && c.D < 6 {
						bit[[2]int{gi, c.D}], bitKnown[[2]int{gi, c.D}] = c.Alive, true
					}
				}
				regrouped[gi] = true
				trail = append(trail, fmt.Sprintf("regroup(g%d)", gi))
				m.Count("regroup_done", 1)
			}
			var before [][6]int
			for gi := range cfg.Groups {
				var b [6]int
				for dom := 0; dom < 6; dom++ {
					b[dom] = w.c16AliveCount(gi, dom)
				}
				before = append(before, b)
			}
			w.nodeCB, w.groupCB = nil, nil
			pan := ""
			func() {
				defer func() {
					if x := recover(); x != nil {
						pan = fmt.Sprint(x)
					}
				}()
				w.exec(ev)
			}()
			trail = append(trail, ev.String())
			if pan != "" {
				m.Violation("regroup-panic:"+ev.K, "code under test panicked after a group was rebuilt over used nodes: "+pan, map[string]any{"config": cfg, "events": trail})
				break
			}
			m.Eval(1)
			for gi := range cfg.Groups {
				gc := &cfg.Groups[gi]
				if !regrouped[gi] || !gc.HasSets() || len(gc.Members) == 0 {
					continue
				}
				for dom := 0; dom < 6 && !bad; dom++ {
					set := w.groups[gi].MustGetAliveDialerSet(c16Type(dom, 0))
					if set == nil {
						m.Violation("regroup-group-has-no-alive-set:"+gc.Policy, fmt.Sprintf("%v: rebuilt group g%d exposes no alive set for %s", ev, gi, vk.C16DomNames[dom]), map[string]any{"config": cfg, "events": trail})
						bad = true
						break
					}
					na := 0
					for _, mb := range gc.Members {
						alive := w.nodes[mb].MustGetAlive(c16Type(dom, 0))
						if alive {
							na++
						}
						if has := dialer.VerifC16SetHas(set, w.nodes[mb]); has != alive {
							m.Violation("regroup-group-view-differs-from-node:"+vk.C16DomClass(dom), fmt.Sprintf("%v: group g%d (%s), rebuilt over nodes with a history, has node n%d %s in-alive-set=%v, node says alive=%v", ev, gi, gc.Policy, mb, vk.C16DomNames[dom], has, alive), map[string]any{"config": cfg, "events": trail})
							bad = true
							break
						}
					}
					if bad {
						break
					}
					m.Count("regroup_view_checked", 1)
					m.Distinct(fmt.Sprintf("regroup/%s/%s/%s/alive=%d", gc.Policy, ev.K, vk.C16DomClass(dom), min(na, 2)))
					if !gc.LatencyPolicy() || ev.K == vk.C16ReloadBuild {
						continue
					}
					// the bit as the callbacks (construction ones included) leave it
					for _, c := range w.groupCB {
						if c.G == gi && c.D == dom {
							bit[[2]int{gi, dom}] = c.Alive
							bitKnown[[2]int{gi, dom}] = true
						}
					}
					nb := before[gi][dom]
					if !bitKnown[[2]int{gi, dom}] {
						m.Count("regroup_bit_unknown", 1)
						continue
					}
					switch {
					case nb > 0 && na == 0:
						m.Count("regroup_last_alive_died", 1)
						if bit[[2]int{gi, dom}] {
							m.Count("recorded_regroup_bit_still_set_after_last_death", 1)
						}
					case nb == 0 && na > 0:
						m.Count("regroup_first_revived", 1)
						if !bit[[2]int{gi, dom}] {
							// observed on the unchanged tree (DESIGN 8.14): recorded, not judged
							m.Count("recorded_regroup_bit_still_clear_after_revive", 1)
						}
					}
				}
			}
		}
		w.close()
		dialer.VerifC16ResetGlobals()
	}
}
