package dialer_test

// C16 concurrent edges: "alive-state callbacks fire exactly once per actual
// transition" also when several reports that each cause the same transition
// arrive at the same moment (two UDP flows of one dead node succeeding
// together; several probes failing together). The reporters are lined up right
// before the dialer's collection lock and released at once; the number of
// transition callbacks is then compared with the number of actual flips.

import (
	"errors"
	"fmt"
	"io"
	"math/rand/v2"
	"sync"
	"sync/atomic"
	"time"

	"github.com/daeuniverse/dae/common/consts"
	"github.com/daeuniverse/dae/component/outbound"
	"github.com/daeuniverse/dae/component/outbound/dialer"
	vk "github.com/daeuniverse/dae/verifkit"
	D "github.com/daeuniverse/outbound/dialer"
	"github.com/sirupsen/logrus"
)

func c16ConcurrentEdges(m *vk.Monitor, r *rand.Rand) {
	log := logrus.New()
	log.SetOutput(io.Discard)
	log.SetLevel(logrus.InfoLevel) // output discarded: the code under the log-level guards runs too
	dialer.VerifC16ResetGlobals()
	option := &dialer.GlobalOption{Log: log, CheckInterval: 24 * time.Hour}
	types := []*dialer.NetworkType{
		{L4Proto: consts.L4ProtoStr_UDP, IpVersion: consts.IpVersionStr_4, UdpHealthDomain: dialer.UdpHealthDomainData},
		{L4Proto: consts.L4ProtoStr_UDP, IpVersion: consts.IpVersionStr_6, UdpHealthDomain: dialer.UdpHealthDomainData},
	}
	rounds := vk.Scale(12, 200)
	for round := 0; round < rounds && m.Violations() < 5; round++ {
		d := dialer.NewDialer(c16NoopDialer{}, option, dialer.InstanceOption{DisableCheck: true},
			&dialer.Property{Property: D.Property{Name: fmt.Sprintf("conc-%d", round), Protocol: "verif"}})
		typ := types[r.IntN(len(types))]
		var ups, downs atomic.Int32
		d.RegisterAliveTransitionCallback(func(nt *dialer.NetworkType, alive bool) {
			if nt.Index() != typ.Index() {
				return
			}
			if alive {
				ups.Add(1)
			} else {
				downs.Add(1)
			}
		})
		d.ReportUnavailableForced(typ, errors.New("verif: forced data-udp failure"))
		if d.MustGetAlive(typ) || downs.Load() != 1 {
			m.Count("concurrent_setup_unexpected", 1)
			_ = d.Close()
			continue
		}
		reporters := 2 + r.IntN(5)
		var started, done sync.WaitGroup
		started.Add(reporters)
		done.Add(reporters)
		unlock := dialer.VerifC16HoldCollectionLock(d)
		for i := 0; i < reporters; i++ {
			go func() {
				defer done.Done()
				started.Done()
				d.ReportAvailableTraffic(typ)
			}()
		}
		started.Wait()
		time.Sleep(30 * time.Millisecond) // let the reporters run up to the lock (no verdict depends on them all getting there)
		unlock()
		done.Wait()
		m.Eval(1)
		m.Count("concurrent_revival_rounds", 1)
		m.Distinct(fmt.Sprintf("concurrent-traffic-revival|%s|reporters=%d", c16DomainOf(typ), reporters))
		if !d.MustGetAlive(typ) {
			m.Violation("concurrent/traffic-success-did-not-revive", "successful data-UDP traffic must make the node alive again", map[string]any{"reporters": reporters})
		} else if got := ups.Load(); got != 1 {
			m.Violation("transition-callback-duplicate:concurrent_traffic_ok:dataudp",
				fmt.Sprintf("one dead->alive transition happened (%d concurrent ReportAvailableTraffic calls) but the alive-transition callback fired %d times", reporters, got),
				map[string]any{"reporters": reporters, "network_type": typ.String()})
		}
		_ = d.Close()
	}
}

// c16ReportInsideWindow: two reports about one node and type, the second one running to
// completion while the first one is between its state change (collection lock already released)
// and its notification of the groups; the node's alive-transition callback, which dae invokes
// exactly there, is used as the window. The statement: "every group containing the node sees the
// node's state after each event". Judged at quiescence: the group's alive set, Select and (for
// latency policies) the last connectivity callback must agree with the node's own state.
func c16ReportInsideWindow(m *vk.Monitor, r *rand.Rand) {
	log := logrus.New()
	log.SetOutput(io.Discard)
	log.SetLevel(logrus.InfoLevel)
	dialer.VerifC16ResetGlobals()
	option := &dialer.GlobalOption{Log: log, CheckInterval: 24 * time.Hour}
	policies := []consts.DialerSelectionPolicy{consts.DialerSelectionPolicy_Random, consts.DialerSelectionPolicy_MinLastLatency, consts.DialerSelectionPolicy_MinAverage10Latencies, consts.DialerSelectionPolicy_MinMovingAverageLatencies}
	rounds := vk.Scale(60, 1500)
	for round := 0; round < rounds && m.Violations() < 5; round++ {
		dom := r.IntN(6)
		typ := c16Type(dom, 0)
		pol := policies[r.IntN(len(policies))]
		firstDies := r.IntN(2) == 0 // the first report kills an alive node (second revives it), or the other way round
		d := dialer.NewDialer(c16NoopDialer{}, option, dialer.InstanceOption{DisableCheck: true},
			&dialer.Property{Property: D.Property{Name: fmt.Sprintf("win-%d", round), Address: fmt.Sprintf("192.0.2.%d:443", 1+round%200), Protocol: "verif"}})
		var bit atomic.Int32 // last group connectivity callback for typ: 1 alive, 0 not alive, -1 none yet
		bit.Store(-1)
		g := outbound.NewDialerGroup(option, "win", []*dialer.Dialer{d}, []*dialer.Annotation{{}},
			outbound.DialerSelectionPolicy{Policy: pol}, func(alive bool, nt *dialer.NetworkType, isInit bool) {
				if nt.Index() == typ.Index() {
					if alive {
						bit.Store(1)
					} else {
						bit.Store(0)
					}
				}
			})
		revive := func() {
			if vk.C16IsDataUDP(dom) {
				d.ReportAvailableTraffic(typ)
			} else {
				dialer.VerifC16ProbeOkLatency(d, typ, time.Duration(10+r.IntN(90))*time.Millisecond)
			}
		}
		kill := func() { d.ReportUnavailableForced(typ, errors.New("verif: forced failure")) }
		if !firstDies {
			kill() // start from a dead node: the first report revives it
		}
		var fired atomic.Bool
		var panicked atomic.Value
		d.RegisterAliveTransitionCallback(func(nt *dialer.NetworkType, alive bool) {
			if nt.Index() != typ.Index() || alive == firstDies || !fired.CompareAndSwap(false, true) {
				return
			}
			done := make(chan struct{})
			go func() {
				defer close(done)
				defer func() {
					if p := recover(); p != nil {
						panicked.Store(fmt.Sprint(p))
					}
				}()
				if firstDies {
					revive()
				} else {
					kill()
				}
			}()
			select {
			case <-done:
			case <-time.After(5 * time.Second):
				m.Count("window_second_report_blocked_5s", 1)
			}
		})
		func() {
			defer func() {
				if p := recover(); p != nil {
					panicked.Store(fmt.Sprint(p))
				}
			}()
			if firstDies {
				kill()
			} else {
				revive()
			}
		}()
		m.Eval(1)
		if !fired.Load() {
			m.Count("window_not_reached", 1)
			_ = g.Close()
			_ = d.Close()
			continue
		}
		m.Count("window_rounds", 1)
		w := map[string]any{"network_type": typ.String(), "policy": string(pol), "first_report": map[bool]string{true: "forced failure of an alive node", false: "revival of a dead node"}[firstDies],
			"second_report_inside_window": map[bool]string{true: "revival", false: "forced failure"}[firstDies]}
		if p := panicked.Load(); p != nil {
			m.Violation("report-inside-window/panic", "a report that ran while another report of the same node was between its state change and its group notification crashed: "+p.(string), w)
			_ = g.Close()
			_ = d.Close()
			continue
		}
		alive := d.MustGetAlive(typ)
		set := g.MustGetAliveDialerSet(typ)
		inSet := set != nil && dialer.VerifC16SetHas(set, d)
		m.Distinct(fmt.Sprintf("window|%s|%s|firstDies=%v|alive=%v", c16DomainOf(typ), pol, firstDies, alive))
		w["node_alive"], w["in_group_alive_set"], w["last_group_connectivity_callback"] = alive, inSet, bit.Load()
		if set != nil && inSet != alive {
			m.Violation("group-does-not-see-node-state/reports-overlap", fmt.Sprintf("after two overlapping reports the node is alive=%v for %s but the group's alive set says %v: the earlier report's group notification was applied after the later one's", alive, typ.String(), inSet), w)
		} else if set != nil && pol != consts.DialerSelectionPolicy_Random && bit.Load() >= 0 && (bit.Load() == 1) != alive {
			m.Violation("connectivity-bit-out-of-sync/reports-overlap", fmt.Sprintf("after two overlapping reports the node is alive=%v for %s but the group's last connectivity callback said %v", alive, typ.String(), bit.Load() == 1), w)
		}
		_ = g.Close()
		_ = d.Close()
	}
}
