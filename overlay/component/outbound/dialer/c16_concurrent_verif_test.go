package dialer_test

// C16 concurrent edges: "alive-state callbacks fire exactly once per actual
// transition" also when several reports that each cause the same transition
// arrive at the same moment (two UDP flows of one dead node succeeding
// together; several probes failing together). The reporters are lined up right
// before the dialer's collection lock and released at once; the number of
// transition callbacks is then compared with the number of actual flips.

import (
	"errors"
	"fmt"
	"io"
	"math/rand/v2"
	"sync"
	"sync/atomic"
	"time"

	"github.com/daeuniverse/dae/common/consts"
	"github.com/daeuniverse/dae/component/outbound/dialer"
	vk "github.com/daeuniverse/dae/verifkit"
	D "github.com/daeuniverse/outbound/dialer"
	"github.com/sirupsen/logrus"
)

func c16ConcurrentEdges(m *vk.Monitor, r *rand.Rand) {
	log := logrus.New()
	log.SetOutput(io.Discard)
	log.SetLevel(logrus.PanicLevel)
	dialer.VerifC16ResetGlobals()
	option := &dialer.GlobalOption{Log: log, CheckInterval: 24 * time.Hour}
	types := []*dialer.NetworkType{
		{L4Proto: consts.L4ProtoStr_UDP, IpVersion: consts.IpVersionStr_4, UdpHealthDomain: dialer.UdpHealthDomainData},
		{L4Proto: consts.L4ProtoStr_UDP, IpVersion: consts.IpVersionStr_6, UdpHealthDomain: dialer.UdpHealthDomainData},
	}
	rounds := vk.Scale(12, 200)
	for round := 0; round < rounds && m.Violations() < 5; round++ {
		d := dialer.NewDialer(c16NoopDialer{}, option, dialer.InstanceOption{DisableCheck: true},
			&dialer.Property{Property: D.Property{Name: fmt.Sprintf("conc-%d", round), Protocol: "verif"}})
		typ := types[r.IntN(len(types))]
		var ups, downs atomic.Int32
		d.RegisterAliveTransitionCallback(func(nt *dialer.NetworkType, alive bool) {
			if nt.Index() != typ.Index() {
				return
			}
			if alive {
				ups.Add(1)
			} else {
				downs.Add(1)
			}
		})
		d.ReportUnavailableForced(typ, errors.New("verif: forced data-udp failure"))
		if d.MustGetAlive(typ) || downs.Load() != 1 {
			m.Count("concurrent_setup_unexpected", 1)
			_ = d.Close()
			continue
		}
		reporters := 2 + r.IntN(5)
		var started, done sync.WaitGroup
		started.Add(reporters)
		done.Add(reporters)
		unlock := dialer.VerifC16HoldCollectionLock(d)
		for i := 0; i < reporters; i++ {
			go func() {
				defer done.Done()
				started.Done()
				d.ReportAvailableTraffic(typ)
			}()
		}
		started.Wait()
		time.Sleep(30 * time.Millisecond) // let the reporters run up to the lock (no verdict depends on them all getting there)
		unlock()
		done.Wait()
		m.Eval(1)
		m.Count("concurrent_revival_rounds", 1)
		m.Distinct(fmt.Sprintf("concurrent-traffic-revival|%s|reporters=%d", c16DomainOf(typ), reporters))
		if !d.MustGetAlive(typ) {
			m.Violation("concurrent/traffic-success-did-not-revive", "successful data-UDP traffic must make the node alive again", map[string]any{"reporters": reporters})
		} else if got := ups.Load(); got != 1 {
			m.Violation("transition-callback-duplicate:concurrent_traffic_ok:dataudp",
				fmt.Sprintf("one dead->alive transition happened (%d concurrent ReportAvailableTraffic calls) but the alive-transition callback fired %d times", reporters, got),
				map[string]any{"reporters": reporters, "network_type": typ.String()})
		}
		_ = d.Close()
	}
}
