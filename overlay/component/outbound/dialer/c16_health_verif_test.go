package dialer_test

// C16 monitor (part "health"): random single-threaded histories of probe
// results, traffic reports, forced reports, ignorable errors, reload
// suppression windows and snapshot/restore/floor steps are executed against
// real Dialers shared by real DialerGroups; after every event the observable
// state (MustGetAlive, alive-transition callbacks, alive-set membership of
// every group, group connectivity callbacks, Select after the reload floor) is
// handed to the reference automaton verifkit.C16Oracle.

import (
	"context"
	"errors"
	"fmt"
	"io"
	"net"
	"testing"
	"time"

	"github.com/daeuniverse/dae/common/consts"
	"github.com/daeuniverse/dae/component/outbound"
	"github.com/daeuniverse/dae/component/outbound/dialer"
	vk "github.com/daeuniverse/dae/verifkit"
	D "github.com/daeuniverse/outbound/dialer"
	"github.com/daeuniverse/outbound/netproxy"
	"github.com/sirupsen/logrus"
)

type c16NoopDialer struct{}

func (c16NoopDialer) DialContext(context.Context, string, string) (netproxy.Conn, error) {
	return nil, errors.New("c16: no network in this monitor")
}

type c16TimeoutErr struct{}

func (c16TimeoutErr) Error() string   { return "i/o timeout" }
func (c16TimeoutErr) Timeout() bool   { return true }
func (c16TimeoutErr) Temporary() bool { return true }

func c16Err(class string) error {
	switch class {
	case vk.C16ErrNil:
		return nil
	case vk.C16ErrTimeout:
		return &net.OpError{Op: "read", Net: "udp", Err: c16TimeoutErr{}}
	case vk.C16ErrCanceled:
		return context.Canceled
	case vk.C16ErrCanceledW:
		return fmt.Errorf("dial tcp: %w", context.Canceled)
	case vk.C16ErrClosed:
		return &net.OpError{Op: "read", Net: "udp", Err: net.ErrClosed}
	case vk.C16ErrClosedStr:
		return errors.New("read udp 10.0.0.1:1->10.0.0.2:2: use of closed network connection")
	case vk.C16ErrOpCancStr:
		return errors.New("dial tcp 10.0.0.2:2: operation was canceled")
	default:
		return errors.New("connection refused")
	}
}

// c16Type builds the NetworkType for a domain; variant 1 is the alias spelling
// of the same health domain (TCP-DNS for TCP; DNS UDP without the legacy IsDns
// flag; data UDP with the domain left unset).
func c16Type(d, variant int) *dialer.NetworkType {
	ipv := consts.IpVersionStr_4
	if d%2 == 1 {
		ipv = consts.IpVersionStr_6
	}
	switch {
	case vk.C16IsTCP(d):
		return &dialer.NetworkType{L4Proto: consts.L4ProtoStr_TCP, IpVersion: ipv, IsDns: variant == 1}
	case vk.C16IsDataUDP(d):
		dom := dialer.UdpHealthDomainData
		if variant == 1 {
			dom = dialer.UdpHealthDomainUnset
		}
		return &dialer.NetworkType{L4Proto: consts.L4ProtoStr_UDP, IpVersion: ipv, UdpHealthDomain: dom}
	default:
		return &dialer.NetworkType{L4Proto: consts.L4ProtoStr_UDP, IpVersion: ipv, IsDns: variant == 0, UdpHealthDomain: dialer.UdpHealthDomainDns}
	}
}

// c16DomainOf maps a NetworkType reported by dae back to a domain using the
// documented meaning of its exported fields only.
func c16DomainOf(t *dialer.NetworkType) int {
	if t == nil {
		return -1
	}
	ip := 0
	switch t.IpVersion {
	case consts.IpVersionStr_4:
	case consts.IpVersionStr_6:
		ip = 1
	default:
		return -1
	}
	switch t.L4Proto {
	case consts.L4ProtoStr_TCP:
		return vk.C16Tcp4 + ip
	case consts.L4ProtoStr_UDP:
		if t.UdpHealthDomain == dialer.UdpHealthDomainDns {
			return vk.C16DnsUdp4 + ip
		}
		return vk.C16DataUdp4 + ip
	}
	return -1
}

type c16World struct {
	cfg      vk.C16Config
	log      *logrus.Logger
	nodes    []*dialer.Dialer
	groups   []*outbound.DialerGroup
	fallback []outbound.ReloadSelectionFallback
	snaps    map[int]dialer.DialerHealthSnapshot
	pending  map[int]dialer.DialerHealthSnapshot
	nodeCB   []vk.C16NodeCB
	groupCB  []vk.C16GroupCB
}

func c16NewWorld(cfg vk.C16Config) *c16World {
	log := logrus.New()
	log.SetOutput(io.Discard)
	log.SetLevel(logrus.PanicLevel)
	w := &c16World{cfg: cfg, log: log, snaps: map[int]dialer.DialerHealthSnapshot{}, pending: map[int]dialer.DialerHealthSnapshot{}}
	dialer.VerifC16ResetGlobals()
	w.build()
	return w
}

func (w *c16World) build() {
	option := &dialer.GlobalOption{
		Log:            w.log,
		CheckInterval:  24 * time.Hour, // no periodic probe, recovery timers far away (cancelled by Close)
		CheckTolerance: time.Duration(w.cfg.ToleranceMs) * time.Millisecond,
	}
	w.nodes = make([]*dialer.Dialer, len(w.cfg.Nodes))
	for i, nc := range w.cfg.Nodes {
		i := i
		d := dialer.NewDialer(c16NoopDialer{}, option, dialer.InstanceOption{DisableCheck: true},
			&dialer.Property{Property: D.Property{Name: nc.Name, Address: nc.Addr, Protocol: "verif"}})
		d.RegisterAliveTransitionCallback(func(nt *dialer.NetworkType, alive bool) {
			w.nodeCB = append(w.nodeCB, vk.C16NodeCB{N: i, D: c16DomainOf(nt), Alive: alive})
		})
		w.nodes[i] = d
	}
	w.groups = make([]*outbound.DialerGroup, len(w.cfg.Groups))
	w.fallback = make([]outbound.ReloadSelectionFallback, len(w.cfg.Groups))
	for gi, gc := range w.cfg.Groups {
		gi := gi
		var ds []*dialer.Dialer
		var annos []*dialer.Annotation
		for k, m := range gc.Members {
			ds = append(ds, w.nodes[m])
			annos = append(annos, &dialer.Annotation{AddLatency: time.Duration(gc.AddLatMs[k]) * time.Millisecond})
		}
		policy := outbound.DialerSelectionPolicy{Policy: consts.DialerSelectionPolicy(gc.Policy), FixedIndex: gc.FixedIdx}
		w.groups[gi] = outbound.NewDialerGroup(option, gc.Name, ds, annos, policy,
			func(alive bool, nt *dialer.NetworkType, isInit bool) {
				w.groupCB = append(w.groupCB, vk.C16GroupCB{G: gi, D: c16DomainOf(nt), Alive: alive, Init: isInit})
			})
	}
}

func (w *c16World) close() {
	for _, g := range w.groups {
		_ = g.Close()
	}
	for _, d := range w.nodes {
		_ = d.Close()
	}
	w.groups, w.nodes = nil, nil
}

func (w *c16World) exec(ev vk.C16Event) {
	switch ev.K {
	case vk.C16ProbeOk:
		dialer.VerifC16Probe(w.nodes[ev.N], c16Type(ev.D, ev.V), true, nil)
	case vk.C16ProbeOkLat:
		dialer.VerifC16ProbeOkLatency(w.nodes[ev.N], c16Type(ev.D, ev.V), time.Duration(ev.LatUs)*time.Microsecond)
	case vk.C16ProbeFail:
		dialer.VerifC16Probe(w.nodes[ev.N], c16Type(ev.D, ev.V), false, c16Err(ev.E))
	case vk.C16ProbeSkip:
		dialer.VerifC16Probe(w.nodes[ev.N], c16Type(ev.D, ev.V), false, nil)
	case vk.C16TrafficOk:
		w.nodes[ev.N].ReportAvailableTraffic(c16Type(ev.D, ev.V))
	case vk.C16TrafficFail:
		w.nodes[ev.N].ReportUnavailable(c16Type(ev.D, ev.V), c16Err(ev.E))
	case vk.C16TransFail:
		w.nodes[ev.N].ReportUnavailableTransactional(c16Type(ev.D, ev.V), c16Err(ev.E))
	case vk.C16Forced:
		w.nodes[ev.N].ReportUnavailableForced(c16Type(ev.D, ev.V), c16Err(ev.E))
	case vk.C16SuppBegin:
		dialer.BeginReloadProxyFailureSuppression()
	case vk.C16SuppEnd:
		dialer.EndReloadProxyFailureSuppression()
		dialer.VerifC16ClearQuiesce()
	case vk.C16TrackerReset:
		dialer.ResetGlobalProxyStateForReload()
	case vk.C16Snapshot:
		w.snaps[ev.N] = w.nodes[ev.N].ReloadHealthSnapshot()
	case vk.C16ReloadBuild:
		for i, d := range w.nodes {
			if _, ok := w.snaps[i]; !ok {
				w.snaps[i] = d.ReloadHealthSnapshot()
			}
		}
		w.pending, w.snaps = w.snaps, map[int]dialer.DialerHealthSnapshot{}
		w.close()
		w.build()
	case vk.C16CaptureFB:
		w.fallback[ev.N] = w.groups[ev.N].CaptureReloadSelectionFallback()
	case vk.C16RestoreNode:
		if s, ok := w.pending[ev.N]; ok {
			w.nodes[ev.N].RestoreHealthSnapshot(s)
		}
	case vk.C16FloorGroup:
		w.groups[ev.N].EnsureReloadSelectionFloor(w.fallback[ev.N])
	default:
		panic("c16: unknown event " + ev.K)
	}
}

func (w *c16World) step(ev vk.C16Event) (obs *vk.C16Obs) {
	obs = &vk.C16Obs{}
	w.nodeCB, w.groupCB = nil, nil
	func() {
		defer func() {
			if r := recover(); r != nil {
				obs.Panic = fmt.Sprint(r)
			}
		}()
		w.exec(ev)
	}()
	if obs.Panic != "" {
		return obs
	}
	obs.NodeCB, obs.GroupCB = w.nodeCB, w.groupCB
	obs.Alive = make([][6]bool, len(w.nodes))
	obs.FailCount = make([][6]int, len(w.nodes))
	obs.TrafficFail = make([][6]int, len(w.nodes))
	for n, d := range w.nodes {
		for dom := 0; dom < 6; dom++ {
			t := c16Type(dom, 0)
			obs.Alive[n][dom] = d.MustGetAlive(t)
			obs.FailCount[n][dom], obs.TrafficFail[n][dom] = dialer.VerifC16Counts(d, t)
		}
	}
	obs.GroupMember = make([][6][]bool, len(w.groups))
	obs.GroupLen = make([][6]int, len(w.groups))
	for gi, g := range w.groups {
		for dom := 0; dom < 6; dom++ {
			set := g.MustGetAliveDialerSet(c16Type(dom, 0))
			if set == nil {
				obs.GroupLen[gi][dom] = -1
				continue
			}
			obs.GroupLen[gi][dom] = set.Len()
			mem := make([]bool, len(w.cfg.Groups[gi].Members))
			for k, m := range w.cfg.Groups[gi].Members {
				mem[k] = dialer.VerifC16SetHas(set, w.nodes[m])
			}
			obs.GroupMember[gi][dom] = mem
		}
	}
	if ev.K == vk.C16FloorGroup {
		obs.Selectable = make([][6]bool, len(w.groups))
		obs.SelStrict = make([][6]bool, len(w.groups))
		g := w.groups[ev.N]
		for dom := 0; dom < 6; dom++ {
			d1, _, err1 := g.Select(c16Type(dom, 0), false)
			obs.Selectable[ev.N][dom] = err1 == nil && d1 != nil
			d2, _, err2 := g.Select(c16Type(dom, 0), true)
			obs.SelStrict[ev.N][dom] = err2 == nil && d2 != nil
		}
	}
	return obs
}

type c16Result struct {
	finding *vk.C16Finding
	index   int
	obs     *vk.C16Obs
	state   map[string]any
	all     []vk.C16Finding
}

// c16Run executes one history from a clean process-global state.
func c16Run(cfg vk.C16Config, evs []vk.C16Event, m *vk.Monitor) c16Result {
	w := c16NewWorld(cfg)
	defer func() {
		w.close()
		dialer.VerifC16ResetGlobals()
	}()
	o := vk.NewC16Oracle(cfg)
	if m != nil {
		o.CountFn = m.Count
		o.DistinctFn = m.Distinct
	}
	// the freshly built generation is judged like a reload_build without predecessors
	for i, ev := range evs {
		obs := w.step(ev)
		if m != nil {
			m.Eval(1)
			m.Count("event_"+ev.K, 1)
		}
		pre := o.StateDump()
		if fs := o.Step(ev, obs); len(fs) > 0 {
			return c16Result{finding: &fs[0], index: i, obs: obs, state: pre, all: fs}
		}
	}
	return c16Result{index: -1}
}

// c16Minimize greedily drops events while the same structural finding remains.
func c16Minimize(cfg vk.C16Config, evs []vk.C16Event, sig string) []vk.C16Event {
	cur := append([]vk.C16Event(nil), evs...)
	for pass := 0; pass < 3; pass++ {
		changed := false
		for i := len(cur) - 1; i >= 0; i-- {
			cand := append(append([]vk.C16Event(nil), cur[:i]...), cur[i+1:]...)
			if r := c16Run(cfg, cand, nil); r.finding != nil && r.finding.Sig == sig {
				cur = cand[:r.index+1]
				changed = true
				if i > len(cur) {
					i = len(cur)
				}
			}
		}
		if !changed {
			break
		}
	}
	return cur
}

func TestVerifC16(t *testing.T) {
	m := vk.NewMonitor("C16", "health", "exploration",
		"one evaluation = one executed event of a generated single-threaded history (config: 1-4 nodes sharing 1-2 proxy addresses, 1-3 groups of every selection policy; 30-300 events per history). "+
			"distinct = (health domain, event kind, model failure-count interval / error class / previous alive state) tuples actually judged; trivial events (unknown kinds) are never counted")
	m.SetFloor(200)
	m.Assume(
		"Trusted: verifkit.C16Oracle (threshold automaton written from the property statement, interval semantics where the statement is silent) and the mapping NetworkType->domain by exported fields.",
		"Probe results are injected through Dialer.Check with a fake CheckFunc (production check() path) or, for chosen latencies, through markAvailable+informDialerGroupUpdate (the success branch of check()); traffic/forced reports use the exported Report* entry points; reload uses ReloadHealthSnapshot/RestoreHealthSnapshot/CaptureReloadSelectionFallback/EnsureReloadSelectionFloor in the order of control.InheritDialerHealthFrom.",
		"aliveBackground (timer loop, worker pool) and recovery-confirmation timers are not executed: CheckInterval is 24h and DisableCheck is set, so histories are single-threaded and time-free; the 20 s quiesce window armed by EndReloadProxyFailureSuppression is zeroed by the driver.",
		"The connectivity bit is observed at the group callback passed to NewDialerGroup (what control.outboundAliveChangeCallback writes into outbound_connectivity_map); the slot arithmetic is checked by part connkey.",
	)
	r := vk.NewRand(0xC16)
	n := vk.Scale(3000, 60000)
	if c16RaceEnabled {
		// histories are single-threaded; the -race pass only has to show the
		// monitor itself is race-free, at ~8x the cost per event
		n = vk.Scale(1500, 8000)
		m.Set("race_build", true)
	}
	sigsSeen := map[string]bool{}
	for h := 0; h < n; h++ {
		cfg, evs := vk.C16GenCase(r)
		m.Count("histories", 1)
		m.Count(fmt.Sprintf("config_nodes_%d", len(cfg.Nodes)), 1)
		m.Count(fmt.Sprintf("config_groups_%d", len(cfg.Groups)), 1)
		res := c16Run(cfg, evs, m)
		if m.WantSample() && h%257 == 0 {
			m.Sample(map[string]any{"config": cfg, "events": c16Strings(evs), "verdict": "held"})
		}
		if res.finding == nil {
			continue
		}
		m.Count("histories_with_finding", 1)
		if sigsSeen[res.finding.Sig] {
			// same structural failure already reported with a minimised witness
			m.Violation(res.finding.Sig, res.finding.What, map[string]any{"config": cfg, "history_index": h, "event_index": res.index, "note": "repeat of an already minimised finding"})
			continue
		}
		sigsSeen[res.finding.Sig] = true
		min := c16Minimize(cfg, evs[:res.index+1], res.finding.Sig)
		mr := c16Run(cfg, min, nil)
		if mr.finding == nil || mr.finding.Sig != res.finding.Sig {
			min, mr = evs[:res.index+1], res
		}
		m.Violation(mr.finding.Sig, mr.finding.What, map[string]any{
			"config":             cfg,
			"history_index":      h,
			"events_minimised":   c16Strings(min),
			"events_raw":         min,
			"failing_event":      min[len(min)-1].String(),
			"model_before_event": mr.state,
			"observed_after":     mr.obs,
			"all_findings":       mr.all,
			"original_length":    res.index + 1,
		})
	}
	c16ConcurrentEdges(m, vk.NewRand(0xC16C))
	c16ReportInsideWindow(m, vk.NewRand(0xC16D))
	c16Regroup(m, vk.NewRand(0xC16E))
	m.Require("concurrent_revival_rounds")
	m.Require("regroup_done", "regroup_view_checked", "regroup_last_alive_died", "regroup_first_revived")
	m.Require(
		"threshold_reached_exactly_probe_fail_tcp", "threshold_reached_exactly_probe_fail_dnsudp",
		"threshold_reached_exactly_traffic_fail_tcp", "threshold_reached_exactly_traffic_fail_dnsudp", "threshold_reached_exactly_traffic_fail_dataudp",
		"threshold_reached_exactly_escalation",
		"one_below_threshold_alive_probe_fail_dnsudp", "one_below_threshold_alive_traffic_fail_tcp", "one_below_threshold_alive_traffic_fail_dataudp",
		"one_below_threshold_no_escalation",
		"missed_by_one_probe_dnsudp", "missed_by_one_traffic_tcp", "missed_by_one_traffic_dataudp", "missed_by_one_escalation",
		"revive_by_probe", "revive_by_data_udp_traffic", "traffic_ok_on_dead_non_data_domain",
		"forced_report", "forced_during_suppression", "muted_by_suppression_probe_fail", "muted_by_suppression_traffic_fail",
		"ignored_cancel_probe_fail", "ignored_cancel_traffic_fail", "ignored_teardown_traffic_fail", "ignored_probe_skip",
		"escalation_required_observable",
		"transition_callback_checked", "flip_to_alive", "flip_to_dead", "group_view_checked",
		"group_last_alive_died", "group_first_revived", "group_no_edge_checked", "connectivity_init_checked",
		"restore_applied", "restore_flips_node", "floor_needed", "floor_revived_node", "floor_selectable_checked",
	)
	m.Done(t)
}

func c16Strings(evs []vk.C16Event) []string {
	out := make([]string, len(evs))
	for i, e := range evs {
		out[i] = e.String()
	}
	return out
}
