//go:build verif

package dialer

// C15 monitor bridge (only compiled into the C15 check binary through
// `go test -overlay`, never part of /repo): lets the monitor in package
// outbound (a) feed a latency sample through the same two calls
// Dialer.check makes after a successful probe and (b) read the internal index
// of an AliveDialerSet. Read-only apart from VerifProbeSuccess /
// VerifProbeFailure, which contain no logic of their own.

import (
	"time"

	"github.com/daeuniverse/dae/common/consts"
)

// VerifProbeSuccess is the tail of Dialer.check for ok==true:
// `update, _ := d.markAvailable(typ, latency); d.informDialerGroupUpdate(update)`.
func (d *Dialer) VerifProbeSuccess(typ *NetworkType, latency time.Duration) {
	update, _ := d.markAvailable(typ, latency)
	d.informDialerGroupUpdate(update)
}

// VerifProbeFailure is the tail of Dialer.check for err!=nil:
// `d.informDialerGroupUpdate(d.markUnavailable(typ))`.
func (d *Dialer) VerifProbeFailure(typ *NetworkType) {
	d.informDialerGroupUpdate(d.markUnavailable(typ))
}

type VerifCollection struct {
	Alive          bool
	MovingAverage  time.Duration
	Samples        int
	RegisteredSets int
	Penalty        time.Duration
}

func (d *Dialer) VerifCollection(typ *NetworkType) VerifCollection {
	d.collectionFineMu.RLock()
	c := d.mustGetCollection(typ)
	v := VerifCollection{Alive: c.Alive.Load(), MovingAverage: c.MovingAverage, Samples: c.Latencies10.Len(), RegisteredSets: len(c.AliveDialerSetSet)}
	d.collectionFineMu.RUnlock()
	v.Penalty = d.getBackoffPenaltyForType(typ)
	return v
}

type VerifAliveEntry struct {
	Dialer         *Dialer
	SortingLatency time.Duration
}

type VerifAliveSetState struct {
	Entries    []VerifAliveEntry
	Index      map[*Dialer]int
	Latency    map[*Dialer]time.Duration
	Offset     map[*Dialer]time.Duration
	MinDialer  *Dialer
	MinSorting time.Duration
	Policy     consts.DialerSelectionPolicy
	Tolerance  time.Duration
}

func (a *AliveDialerSet) VerifState() VerifAliveSetState {
	a.mu.RLock()
	defer a.mu.RUnlock()
	s := VerifAliveSetState{
		Index:      make(map[*Dialer]int, len(a.dialerToIndex)),
		Latency:    make(map[*Dialer]time.Duration, len(a.dialerToLatency)),
		Offset:     make(map[*Dialer]time.Duration, len(a.dialerToLatencyOffset)),
		MinDialer:  a.minLatency.dialer,
		MinSorting: a.minLatency.sortingLatency,
		Policy:     a.selectionPolicy,
		Tolerance:  a.tolerance,
	}
	for _, e := range a.aliveEntries {
		s.Entries = append(s.Entries, VerifAliveEntry{Dialer: e.dialer, SortingLatency: e.sortingLatency})
	}
	for k, v := range a.dialerToIndex {
		s.Index[k] = v
	}
	for k, v := range a.dialerToLatency {
		s.Latency[k] = v
	}
	for k, v := range a.dialerToLatencyOffset {
		s.Offset[k] = v
	}
	return s
}

// VerifSnapshotLatencyForPolicy exposes the node's OWN current measure under a
// policy (the function every AliveDialerSet reads it through); no logic.
func (d *Dialer) VerifSnapshotLatencyForPolicy(typ *NetworkType, policy consts.DialerSelectionPolicy) (time.Duration, bool) {
	return d.snapshotLatencyForPolicy(typ, policy)
}
