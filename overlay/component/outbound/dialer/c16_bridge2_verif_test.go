package dialer

// VerifC16HoldCollectionLock takes the dialer's collection mutex (the lock under
// which alive flags flip) and returns the function releasing it. The concurrent
// edge monitor uses it to line several reporters up right before that lock.
func VerifC16HoldCollectionLock(d *Dialer) (unlock func()) {
	d.collectionFineMu.Lock()
	return d.collectionFineMu.Unlock
}
