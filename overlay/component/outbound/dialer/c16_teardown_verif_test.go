package dialer_test

// C16 monitor (part "teardown"): "failures caused by cancellation or teardown
// never count" - judged on probes that are REALLY in flight inside dae's
// production check functions (Dialer.HttpCheck for tcp4/tcp6, Dialer.DnsCheck
// for dns-udp4/6, behind the production Dialer.check) when the dialer's
// lifecycle ends.
//
// The peer of every probe is a scripted loopback server owned by the monitor
// (raw TCP speaking just enough HTTP/1.1, and a UDP socket answering DNS);
// the dialer under test reaches it through the production direct dialer,
// wrapped in a gate that can hold a dial. The script decides per request:
// answer (success), answer with a bad status / an empty or unparsable DNS
// reply, close the connection, or PARK: tell the monitor "the request is
// here" and never answer. A parked probe is in flight by construction
// (dialing, request sent and response pending, or status line half received).
//
// Round: (1) real probe results put every node/domain into a known last state
// (alive after a success, dead after a real failure, one or two below the UDP
// threshold) - these results are judged too, including genuine deadline expiry;
// (2) probes are started against the parking script, the monitor waits for the
// parked handshake of each, (3) tears the generation down (Dialer.Close, group
// Close + Dialer.Close, or cancellation of the lifecycle context the dialer was
// built from), (4) waits for every probe call to return, (5) compares: alive
// flag of all six domains of all nodes, alive-set membership and Len of every
// group, and the node/group callbacks observed during (2)-(4). A cancelled
// probe is not a probe result: nothing may have changed.
//
// A second driver runs the same experiment through the real aliveBackground
// loop (ActivateCheck + NotifyCheck, global worker pool, TcpCheckOptionRaw /
// CheckDnsOptionRaw pointing at the script); there the end of the probe calls
// is observed by goroutine-stack introspection (no goroutine left inside
// (*Dialer).check / HttpCheck / DnsCheck).

import (
	"bufio"
	"bytes"
	"context"
	"errors"
	"fmt"
	"io"
	"math/rand/v2"
	"net"
	"net/http"
	"net/netip"
	"os"
	"reflect"
	"runtime"
	"sort"
	"strings"
	"sync"
	"sync/atomic"
	"testing"
	"time"

	"github.com/daeuniverse/dae/common/consts"
	"github.com/daeuniverse/dae/component/outbound"
	"github.com/daeuniverse/dae/component/outbound/dialer"
	vk "github.com/daeuniverse/dae/verifkit"
	D "github.com/daeuniverse/outbound/dialer"
	"github.com/daeuniverse/outbound/netproxy"
	"github.com/daeuniverse/outbound/protocol/direct"
	dnsmessage "github.com/miekg/dns"
	"github.com/sirupsen/logrus"
)

const (
	c16ModeOk      = "ok"
	c16ModeS500    = "s500"    // HTTP only
	c16ModeClose   = "close"   // HTTP only
	c16ModePartial = "partial" // HTTP only: half a status line, then park
	c16ModeEmpty   = "empty"   // DNS only: reply without records
	c16ModeGarbage = "garbage" // DNS only: unparsable reply
	c16ModePark    = "park"
	c16ModeByPage  = "bypage" // HTTP only: "partial" for pages named partial_*, else "park"
)

type c16Parked struct {
	Where string `json:"where"` // dial | request | partial | dns-query
	Node  int    `json:"node"`  // -1: unknown (DNS queries carry no node id)
}

// c16Script is the scripted peer of all probes of one monitor run.
type c16Script struct {
	mu       sync.Mutex
	httpMode string
	dnsMode  string
	served   map[string]int
	conns    map[net.Conn]struct{}

	parked  chan c16Parked
	dropped atomic.Int64
	aborted atomic.Int64
	gate    atomic.Bool
	gateFor map[int]bool // nodes whose dials are always held (fixed at construction)
	done    chan struct{}

	lns []net.Listener
	pcs []*net.UDPConn

	http4, http6, dns4, dns6 netip.AddrPort
}

func c16NewScript() (*c16Script, error) {
	s := &c16Script{httpMode: c16ModeOk, dnsMode: c16ModeOk, served: map[string]int{}, conns: map[net.Conn]struct{}{},
		parked: make(chan c16Parked, 1<<14), done: make(chan struct{})}
	ln4, err := net.Listen("tcp4", "127.0.0.1:0")
	if err != nil {
		return nil, err
	}
	s.lns = append(s.lns, ln4)
	s.http4 = netip.MustParseAddrPort(ln4.Addr().String())
	if ln6, err := net.Listen("tcp6", "[::1]:0"); err == nil {
		s.lns = append(s.lns, ln6)
		s.http6 = netip.MustParseAddrPort(ln6.Addr().String())
	}
	pc4, err := net.ListenUDP("udp4", &net.UDPAddr{IP: net.IPv4(127, 0, 0, 1)})
	if err != nil {
		s.shutdown()
		return nil, err
	}
	s.pcs = append(s.pcs, pc4)
	s.dns4 = netip.MustParseAddrPort(pc4.LocalAddr().String())
	if pc6, err := net.ListenUDP("udp6", &net.UDPAddr{IP: net.IPv6loopback}); err == nil {
		s.pcs = append(s.pcs, pc6)
		s.dns6 = netip.MustParseAddrPort(pc6.LocalAddr().String())
	}
	for _, ln := range s.lns {
		go s.acceptLoop(ln)
	}
	for _, pc := range s.pcs {
		go s.serveDNS(pc)
	}
	return s, nil
}

func (s *c16Script) shutdown() {
	select {
	case <-s.done:
	default:
		close(s.done)
	}
	for _, ln := range s.lns {
		_ = ln.Close()
	}
	for _, pc := range s.pcs {
		_ = pc.Close()
	}
	s.mu.Lock()
	for c := range s.conns {
		_ = c.Close()
	}
	s.mu.Unlock()
}

func (s *c16Script) setModes(httpMode, dnsMode string) {
	s.mu.Lock()
	s.httpMode, s.dnsMode = httpMode, dnsMode
	s.mu.Unlock()
}

func (s *c16Script) count(k string) {
	s.mu.Lock()
	s.served[k]++
	s.mu.Unlock()
}

func (s *c16Script) servedCount(k string) int {
	s.mu.Lock()
	defer s.mu.Unlock()
	return s.served[k]
}

func (s *c16Script) park(p c16Parked) {
	select {
	case s.parked <- p:
	default:
		s.dropped.Add(1)
	}
}

func (s *c16Script) drainParked() {
	for {
		select {
		case <-s.parked:
		default:
			return
		}
	}
}

// waitParked collects parked handshakes until n arrived or the watchdog fires.
func (s *c16Script) waitParked(n int, watchdog time.Duration) []c16Parked {
	var got []c16Parked
	t := time.NewTimer(watchdog)
	defer t.Stop()
	for len(got) < n {
		select {
		case p := <-s.parked:
			got = append(got, p)
		case <-t.C:
			return got
		}
	}
	return got
}

func (s *c16Script) acceptLoop(ln net.Listener) {
	for {
		c, err := ln.Accept()
		if err != nil {
			return
		}
		s.mu.Lock()
		s.conns[c] = struct{}{}
		s.mu.Unlock()
		go s.serveConn(c)
	}
}

func (s *c16Script) serveConn(c net.Conn) {
	defer func() {
		_ = c.Close()
		s.mu.Lock()
		delete(s.conns, c)
		s.mu.Unlock()
	}()
	br := bufio.NewReader(c)
	for {
		line, err := br.ReadString('\n')
		if err != nil {
			return
		}
		f := strings.Fields(line)
		if len(f) < 2 {
			return
		}
		for {
			h, err := br.ReadString('\n')
			if err != nil {
				return
			}
			if h == "\r\n" || h == "\n" {
				break
			}
		}
		node := -1
		_, _ = fmt.Sscanf(f[1], "/n%d/", &node)
		s.mu.Lock()
		mode := s.httpMode
		s.served["http_"+mode]++
		s.mu.Unlock()
		switch mode {
		case c16ModeOk:
			resp := "HTTP/1.1 200 OK\r\nContent-Length: 0\r\n\r\n"
			if strings.Contains(f[1], "generate_204") {
				resp = "HTTP/1.1 204 No Content\r\n\r\n"
			}
			if _, err := io.WriteString(c, resp); err != nil {
				return
			}
		case c16ModeS500:
			if _, err := io.WriteString(c, "HTTP/1.1 500 Internal Server Error\r\nContent-Length: 0\r\n\r\n"); err != nil {
				return
			}
		case c16ModeClose:
			return
		default: // park, partial, bypage
			where := "request"
			if mode == c16ModePartial || mode == c16ModeByPage && strings.Contains(f[1], "/partial_") {
				where = "partial"
				_, _ = io.WriteString(c, "HTTP/1.1 20")
			}
			s.park(c16Parked{Where: where, Node: node})
			var b [1]byte
			_, _ = br.Read(b[:]) // returns when the client gives the connection up (or at shutdown)
			s.aborted.Add(1)
			return
		}
	}
}

func (s *c16Script) serveDNS(pc *net.UDPConn) {
	buf := make([]byte, 4096)
	for {
		n, from, err := pc.ReadFromUDPAddrPort(buf)
		if err != nil {
			return
		}
		s.mu.Lock()
		mode := s.dnsMode
		s.served["dns_"+mode]++
		s.mu.Unlock()
		switch mode {
		case c16ModePark:
			s.park(c16Parked{Where: "dns-query", Node: -1})
		case c16ModeGarbage:
			_, _ = pc.WriteToUDPAddrPort([]byte{0xde, 0xad}, from)
		default: // ok, empty
			var q dnsmessage.Msg
			if q.Unpack(buf[:n]) != nil || len(q.Question) == 0 {
				continue
			}
			r := new(dnsmessage.Msg)
			r.SetReply(&q)
			if mode == c16ModeOk {
				r.Answer = append(r.Answer, &dnsmessage.A{
					Hdr: dnsmessage.RR_Header{Name: q.Question[0].Name, Rrtype: dnsmessage.TypeA, Class: dnsmessage.ClassINET, Ttl: 30},
					A:   net.IPv4(192, 0, 2, 1).To4(),
				})
			}
			if out, err := r.Pack(); err == nil {
				_, _ = pc.WriteToUDPAddrPort(out, from)
			}
		}
	}
}

// c16GateDialer is the production direct dialer with a gate in front of it:
// while the gate is armed a dial reports "parked at dial" and is held until its
// context is done (then the real dialer runs with the done context and produces
// the real error) or the script shuts down.
type c16GateDialer struct {
	inner netproxy.Dialer
	s     *c16Script
	node  int
}

func (g *c16GateDialer) DialContext(ctx context.Context, network, addr string) (netproxy.Conn, error) {
	if g.s.gate.Load() || g.s.gateFor[g.node] {
		g.s.park(c16Parked{Where: "dial", Node: g.node})
		select {
		case <-ctx.Done():
		case <-g.s.done:
		}
	}
	return g.inner.DialContext(ctx, network, addr)
}

// ---------------------------------------------------------------------------

type c16TDObs struct {
	Alive     [][6]bool   `json:"alive"`
	Member    [][6][]bool `json:"group_member"`
	Len       [][6]int    `json:"group_len"`
	FailCount [][6]int    `json:"fail_count_recorded_only"`
}

type c16TDWorld struct {
	s        *c16Script
	nodes    []*dialer.Dialer
	cancels  []context.CancelFunc
	addrs    []string
	groups   []*outbound.DialerGroup
	members  [][]int
	policies []string

	cbMu    sync.Mutex
	nodeCB  []string
	groupCB []string
}

var c16TDPolicies = []consts.DialerSelectionPolicy{
	consts.DialerSelectionPolicy_MinMovingAverageLatencies, consts.DialerSelectionPolicy_MinLastLatency,
	consts.DialerSelectionPolicy_MinAverage10Latencies, consts.DialerSelectionPolicy_Random, consts.DialerSelectionPolicy_Fixed,
}

func c16TDLog() *logrus.Logger {
	log := logrus.New()
	log.SetOutput(io.Discard)
	log.SetLevel(logrus.DebugLevel) // output discarded: the code under the log-level guards runs too
	return log
}

func c16NewTDWorld(s *c16Script, r *rand.Rand, option func(node int) *dialer.GlobalOption, nNodes, round int, disableCheck bool) *c16TDWorld {
	w := &c16TDWorld{s: s}
	for i := 0; i < nNodes; i++ {
		i := i
		parent, cancel := context.WithCancel(context.Background())
		addr := ""
		if r.IntN(3) > 0 {
			addr = fmt.Sprintf("198.51.100.%d:%d", 1+i, 1000+round%60000)
		}
		d := dialer.NewDialerContext(parent, &c16GateDialer{inner: direct.SymmetricDirect, s: s, node: i}, option(i),
			dialer.InstanceOption{DisableCheck: disableCheck},
			&dialer.Property{Property: D.Property{Name: fmt.Sprintf("td-%d-%d", round, i), Address: addr, Protocol: "verif"}})
		d.RegisterAliveTransitionCallback(func(nt *dialer.NetworkType, alive bool) {
			w.cbMu.Lock()
			w.nodeCB = append(w.nodeCB, fmt.Sprintf("node %d %s alive=%v", i, c16DomName(c16DomainOf(nt)), alive))
			w.cbMu.Unlock()
		})
		w.nodes = append(w.nodes, d)
		w.cancels = append(w.cancels, cancel)
		w.addrs = append(w.addrs, addr)
	}
	nGroups := 1 + r.IntN(2)
	for gi := 0; gi < nGroups; gi++ {
		gi := gi
		var mem []int
		for n := 0; n < nNodes; n++ {
			if gi == 0 || r.IntN(2) == 0 { // group 0 holds every node, so every node is in a group
				mem = append(mem, n)
			}
		}
		if len(mem) == 0 {
			mem = []int{r.IntN(nNodes)}
		}
		var ds []*dialer.Dialer
		var annos []*dialer.Annotation
		for _, n := range mem {
			ds = append(ds, w.nodes[n])
			annos = append(annos, &dialer.Annotation{})
		}
		pol := c16TDPolicies[r.IntN(len(c16TDPolicies))]
		if gi == 0 && pol == consts.DialerSelectionPolicy_Fixed {
			pol = c16TDPolicies[r.IntN(3)] // the group holding every node keeps alive sets
		}
		g := outbound.NewDialerGroup(option(mem[0]), fmt.Sprintf("tdg%d", gi), ds, annos,
			outbound.DialerSelectionPolicy{Policy: pol, FixedIndex: 0},
			func(alive bool, nt *dialer.NetworkType, isInit bool) {
				w.cbMu.Lock()
				w.groupCB = append(w.groupCB, fmt.Sprintf("group %d %s alive=%v init=%v", gi, c16DomName(c16DomainOf(nt)), alive, isInit))
				w.cbMu.Unlock()
			})
		w.groups = append(w.groups, g)
		w.members = append(w.members, mem)
		w.policies = append(w.policies, string(pol))
	}
	return w
}

func c16DomName(d int) string {
	if d < 0 || d >= 6 {
		return fmt.Sprintf("dom%d", d)
	}
	return vk.C16DomNames[d]
}

func (w *c16TDWorld) resetCB() {
	w.cbMu.Lock()
	w.nodeCB, w.groupCB = nil, nil
	w.cbMu.Unlock()
}

func (w *c16TDWorld) takeCB() (node, group []string) {
	w.cbMu.Lock()
	defer w.cbMu.Unlock()
	return append([]string(nil), w.nodeCB...), append([]string(nil), w.groupCB...)
}

func (w *c16TDWorld) observe() *c16TDObs {
	o := &c16TDObs{}
	o.Alive = make([][6]bool, len(w.nodes))
	o.FailCount = make([][6]int, len(w.nodes))
	for n, d := range w.nodes {
		for dom := 0; dom < 6; dom++ {
			t := c16Type(dom, 0)
			o.Alive[n][dom] = d.MustGetAlive(t)
			o.FailCount[n][dom], _ = dialer.VerifC16Counts(d, t)
		}
	}
	o.Member = make([][6][]bool, len(w.groups))
	o.Len = make([][6]int, len(w.groups))
	for gi, g := range w.groups {
		for dom := 0; dom < 6; dom++ {
			set := g.MustGetAliveDialerSet(c16Type(dom, 0))
			if set == nil {
				o.Len[gi][dom] = -1
				continue
			}
			o.Len[gi][dom] = set.Len()
			mem := make([]bool, len(w.members[gi]))
			for k, n := range w.members[gi] {
				mem[k] = dialer.VerifC16SetHas(set, w.nodes[n])
			}
			o.Member[gi][dom] = mem
		}
	}
	return o
}

// agree: every group's alive set holds exactly the alive members (judged only at quiescence).
func (w *c16TDWorld) agree(o *c16TDObs) (string, bool) {
	for gi := range w.groups {
		for dom := 0; dom < 6; dom++ {
			if o.Len[gi][dom] < 0 {
				continue
			}
			for k, n := range w.members[gi] {
				if o.Member[gi][dom][k] != o.Alive[n][dom] {
					return fmt.Sprintf("group %d, %s: node %d alive=%v but in the alive set=%v", gi, c16DomName(dom), n, o.Alive[n][dom], o.Member[gi][dom][k]), false
				}
			}
		}
	}
	return "", true
}

func (w *c16TDWorld) close() {
	for _, g := range w.groups {
		_ = g.Close()
	}
	for i, d := range w.nodes {
		_ = d.Close()
		w.cancels[i]()
	}
}

func (w *c16TDWorld) describe() map[string]any {
	return map[string]any{"nodes": len(w.nodes), "node_proxy_addresses": w.addrs, "group_members": w.members, "group_policies": w.policies}
}

type c16TDResult struct {
	Ok  bool   `json:"ok"`
	Err string `json:"err"`
	err error
}

// probe runs one production probe of node n for domain dom against the script.
func (w *c16TDWorld) probe(n, dom int, method, page string, budget time.Duration) (res c16TDResult, panicked string) {
	defer func() {
		if p := recover(); p != nil {
			panicked = fmt.Sprint(p)
		}
	}()
	typ := c16Type(dom, 0)
	var ok bool
	var err error
	switch dom {
	case vk.C16Tcp4:
		ok, err = dialer.VerifC16HttpProbe(w.nodes[n], typ, fmt.Sprintf("http://%s/n%d/%s", w.s.http4, n, page), w.s.http4.Addr(), method, budget)
	case vk.C16Tcp6:
		ok, err = dialer.VerifC16HttpProbe(w.nodes[n], typ, fmt.Sprintf("http://%s/n%d/%s", w.s.http6, n, page), w.s.http6.Addr(), method, budget)
	case vk.C16DnsUdp4:
		ok, err = dialer.VerifC16DnsProbe(w.nodes[n], typ, w.s.dns4, budget)
	case vk.C16DnsUdp6:
		ok, err = dialer.VerifC16DnsProbe(w.nodes[n], typ, w.s.dns6, budget)
	default:
		panic("c16 teardown: no production probe for this domain")
	}
	res = c16TDResult{Ok: ok, err: err}
	if err != nil {
		res.Err = err.Error()
	}
	return res, ""
}

func c16ErrShape(err error) string {
	switch {
	case err == nil:
		return "nil"
	case errors.Is(err, context.Canceled):
		return "is_context_canceled"
	case errors.Is(err, context.DeadlineExceeded):
		return "is_deadline_exceeded"
	case strings.Contains(err.Error(), "canceled"):
		return "text_canceled"
	case strings.Contains(err.Error(), "timeout"):
		return "text_timeout"
	}
	return "other"
}

// c16ProbeFrames reports whether any goroutine of the process is inside dae's probe code, not
// counting the probes the monitor itself started through the bridge (driver 'deadline' keeps such
// calls open for the whole production deadline).
func c16ProbeFrames() bool {
	buf := make([]byte, 1<<20)
	for {
		n := runtime.Stack(buf, true)
		if n < len(buf) {
			buf = buf[:n]
			break
		}
		buf = make([]byte, 2*len(buf))
	}
	for _, g := range bytes.Split(buf, []byte("\n\n")) {
		if bytes.Contains(g, []byte("dialer.VerifC16")) {
			continue
		}
		for _, f := range []string{"dialer.(*Dialer).check(", "dialer.(*Dialer).HttpCheck(", "dialer.(*Dialer).DnsCheck("} {
			if bytes.Contains(g, []byte(f)) {
				return true
			}
		}
	}
	return false
}

func c16WaitNoProbeFrames(watchdog time.Duration) bool {
	deadline := time.Now().Add(watchdog)
	for c16ProbeFrames() {
		if time.Now().After(deadline) {
			return false
		}
		time.Sleep(2 * time.Millisecond)
	}
	return true
}

type c16TDStep struct {
	Node   int    `json:"node"`
	Domain string `json:"domain"`
	Script string `json:"script"`
	Budget string `json:"probe_deadline,omitempty"`
	Ok     bool   `json:"ok"`
	Err    string `json:"err,omitempty"`
	Alive  bool   `json:"alive_after"`
}

// c16TDJudgeWindow compares the state before the in-flight probes were started with the state
// after teardown and after the last probe call returned.
func c16TDJudgeWindow(m *vk.Monitor, driver string, w *c16TDWorld, pre, post *c16TDObs, nodeCB, groupCB []string, inflightDom map[int]bool, wit map[string]any) bool {
	wit["state_before_inflight_probes"] = pre
	wit["state_after_teardown"] = post
	wit["node_transition_callbacks_in_window"] = nodeCB
	wit["group_connectivity_callbacks_in_window"] = groupCB
	for n := range w.nodes {
		for dom := 0; dom < 6; dom++ {
			if pre.Alive[n][dom] == post.Alive[n][dom] {
				continue
			}
			rel := "a domain with a cancelled in-flight probe"
			if !inflightDom[dom] {
				rel = "a domain WITHOUT an in-flight probe (escalation or spill-over)"
			}
			if pre.Alive[n][dom] {
				return m.Violation(fmt.Sprintf("teardown/%s/cancelled-probe-killed-node:%s", driver, vk.C16DomClass(dom)),
					fmt.Sprintf("node %d was alive for %s (last real probe result: not a failure); probes in flight were cancelled by teardown and afterwards the node is NOT alive for %s - %s. A cancelled probe is not a failed probe.", n, c16DomName(dom), c16DomName(dom), rel), wit)
			}
			return m.Violation(fmt.Sprintf("teardown/%s/cancelled-probe-revived-node:%s", driver, vk.C16DomClass(dom)),
				fmt.Sprintf("node %d was not alive for %s; probes in flight were cancelled by teardown (no success was ever delivered) and afterwards the node is alive for %s", n, c16DomName(dom), c16DomName(dom)), wit)
		}
	}
	if len(nodeCB) > 0 {
		return m.Violation("teardown/"+driver+"/cancelled-probe-fired-transition-callback",
			fmt.Sprintf("alive-transition callbacks fired although only cancelled probes happened: %v", nodeCB), wit)
	}
	if len(groupCB) > 0 {
		return m.Violation("teardown/"+driver+"/cancelled-probe-fired-group-callback",
			fmt.Sprintf("group connectivity callbacks fired although only cancelled probes happened: %v", groupCB), wit)
	}
	if !reflect.DeepEqual(pre.Member, post.Member) || !reflect.DeepEqual(pre.Len, post.Len) {
		return m.Violation("teardown/"+driver+"/cancelled-probe-changed-group-alive-set",
			"the alive sets of the groups differ before/after probes that were only cancelled by teardown", wit)
	}
	if !reflect.DeepEqual(pre.FailCount, post.FailCount) {
		m.Count("recorded_failcount_changed_by_cancelled_probe", 1)
	}
	return false
}

func TestVerifC16Teardown(t *testing.T) {
	m := vk.NewMonitor("C16", "teardown", "exploration",
		"one evaluation = one production probe (Dialer.check -> HttpCheck/DnsCheck over the production direct dialer to a scripted loopback peer) with a judged outcome: a real result (answer, bad status, closed connection, empty/unparsable DNS reply, genuine deadline expiry) or a probe parked in flight and cancelled by teardown. "+
			"distinct = (driver, teardown kind, where the probe was parked, domain, alive state before, group policy) for cancelled probes and (domain, script, consecutive failures before) for real results")
	m.SetFloor(vk.Scale(40, 120))
	m.Assume(
		"Trusted: the scripted loopback peer and the gate in front of the production direct dialer (monitor code); 'in flight' = the peer (or the gate) has the request/dial in hand and will never answer it.",
		"Probes are started through Dialer.Check with CheckFuncs of the shape aliveBackground builds (bridge, same HttpCheck/DnsCheck calls), and - driver 'loop' - through the real aliveBackground loop (ActivateCheck, NotifyCheck, worker pool) configured with TcpCheckOptionRaw/CheckDnsOptionRaw; the production per-attempt deadline is 10 s, genuine expiry is exercised with a narrower deadline derived from the context check() hands to the CheckFunc (many probes) and - driver 'deadline' - with the production deadline itself (one batch of parallel probes against a peer that never answers, 2 attempts x 10 s, running beside the other drivers).",
		"No wall-clock verdicts: a round whose in-flight window (start of the probes .. teardown done) lasted more than half the production probe deadline is counted ambiguous and not judged; watchdogs skip the round (counted) and make the run inconclusive when they are frequent.",
		"Driver 'loop' learns that the pool workers left dae's probe code from goroutine stacks (function names (*Dialer).check/HttpCheck/DnsCheck); a round where the parked probe is not visible that way is not judged.",
		"Reload suppression is off during all rounds (a suppressed failure would hide the effect); internal failure counters are recorded, not judged.",
	)
	s, err := c16NewScript()
	if err != nil {
		m.Inconclusive("teardown: cannot open loopback listeners for the scripted peer: %v", err)
		m.Done(t)
		return
	}
	defer s.shutdown()
	m.Set("script_ipv6_http", s.http6.IsValid())
	m.Set("script_ipv6_dns", s.dns6.IsValid())

	dialer.VerifC16ResetGlobals() // once: proxy addresses are unique per round, reload suppression is never begun in this part
	only := os.Getenv("VERIF_C16_TEARDOWN_DRIVER") // replay aid: "bridged", "loop" or "deadline" (the run is then inconclusive by construction)
	waitDeadline := func() {}
	if only == "" || only == "deadline" {
		waitDeadline = c16TeardownDeadline(m, vk.NewRand(0xC170)) // runs beside the other drivers for two production deadlines
	}
	t0 := time.Now()
	if only == "" || only == "bridged" {
		c16TeardownBridged(m, vk.NewRand(0xC16E), s)
	}
	m.Set("driver_bridged_wall_s", time.Since(t0).Seconds())
	t0 = time.Now()
	if only == "" || only == "loop" {
		c16TeardownLoop(m, vk.NewRand(0xC16F), s)
	}
	m.Set("driver_loop_wall_s", time.Since(t0).Seconds())
	t0 = time.Now()
	waitDeadline()
	m.Set("driver_deadline_extra_wait_s", time.Since(t0).Seconds())

	m.Set("script_requests_by_disposition", func() map[string]int {
		s.mu.Lock()
		defer s.mu.Unlock()
		out := map[string]int{}
		for k, v := range s.served {
			out[k] = v
		}
		return out
	}())
	m.Set("script_parked_connections_given_up_by_client", s.aborted.Load())
	if d := s.dropped.Load(); d > 0 {
		m.Inconclusive("teardown: %d parked handshakes were dropped by the script (channel full)", d)
	}
	skipped := m.Counter("round_skipped_watchdog_handshake") + m.Counter("round_skipped_watchdog_return") + m.Counter("round_skipped_ambiguous_window") +
		m.Counter("loop_skipped_watchdog") + m.Counter("loop_skipped_ambiguous_window") + m.Counter("loop_skipped_introspection_blind")
	if judged := m.Counter("bridged_rounds_judged") + m.Counter("loop_rounds_judged"); skipped*5 > judged {
		m.Inconclusive("teardown: %d rounds were skipped by watchdogs/ambiguity against %d judged", skipped, judged)
	}
	m.Require(
		"bridged_rounds_judged", "loop_rounds_judged",
		"cancelled_inflight_tcp", "cancelled_inflight_dnsudp", "loop_cancelled_inflight_tcp", "loop_cancelled_inflight_dnsudp",
		"parked_at_dial", "parked_at_request", "parked_at_partial", "parked_at_dns-query",
		"teardown_kind_close", "teardown_kind_groups_then_close", "teardown_kind_parent_cancel",
		"window_node_alive_before_tcp", "window_node_dead_before_tcp", "window_node_alive_before_dnsudp", "window_dnsudp_one_below_threshold",
		"window_last_alive_member_of_latency_group",
		"real_success_judged", "real_failure_judged_tcp", "real_failure_judged_dnsudp", "real_failure_below_threshold_alive", "real_failure_threshold_reached_dnsudp",
		"real_script_http_ok", "real_script_http_s500", "real_script_http_close", "real_script_http_expiry", "real_script_dns_ok", "real_script_dns_empty", "real_script_dns_garbage", "real_script_dns_expiry",
		"real_revival_judged",
		"deadline_lane_judged_tcp", "deadline_lane_judged_dnsudp", "deadline_threshold_reached_tcp", "deadline_threshold_reached_dnsudp", "deadline_below_threshold_dnsudp",
		"deadline_parked_at_request", "deadline_parked_at_partial", "deadline_parked_at_dial", "deadline_parked_at_dns-query",
	)
	m.Done(t)
}

type c16TDModel struct {
	fails int // consecutive real probe failures
	alive bool
}

func c16TDThreshold(dom int) int {
	if vk.C16IsTCP(dom) {
		return 1
	}
	return 3
}

// c16TeardownBridged: probes through Dialer.Check (synchronous call, so "the probe call returned" is directly observable).
func c16TeardownBridged(m *vk.Monitor, r *rand.Rand, s *c16Script) {
	log := c16TDLog()
	option := &dialer.GlobalOption{Log: log, CheckInterval: 24 * time.Hour}
	doms := []int{vk.C16Tcp4, vk.C16DnsUdp4}
	if s.http6.IsValid() {
		doms = append(doms, vk.C16Tcp6)
	}
	if s.dns6.IsValid() {
		doms = append(doms, vk.C16DnsUdp6)
	}
	sort.Ints(doms)
	const expiryBudget = 25 * time.Millisecond
	rounds := vk.Scale(140, 2500)
	for round := 0; round < rounds && m.Violations() < 5; round++ {
		s.gate.Store(false)
		s.setModes(c16ModeOk, c16ModeOk)
		nNodes := 1 + r.IntN(3)
		w := c16NewTDWorld(s, r, func(int) *dialer.GlobalOption { return option }, nNodes, round, true)
		wit := w.describe()
		wit["round"] = round
		var steps []c16TDStep
		model := make([][6]c16TDModel, nNodes)
		for n := range model {
			for d := range model[n] {
				model[n][d].alive = true
			}
		}
		bad := false

		// ---- (1) real probe results -------------------------------------------------
		realProbe := func(n, dom int, script string) {
			if bad {
				return
			}
			budget := time.Duration(0)
			httpMode, dnsMode := c16ModeOk, c16ModeOk
			switch script {
			case "expiry":
				budget = expiryBudget
				httpMode, dnsMode = c16ModePark, c16ModePark
				if r.IntN(3) == 0 {
					httpMode = c16ModePartial
				}
			case c16ModeOk:
			default:
				httpMode, dnsMode = script, script
			}
			s.setModes(httpMode, dnsMode)
			method := []string{http.MethodGet, http.MethodHead, ""}[r.IntN(3)]
			page := []string{"generate_204", "check"}[r.IntN(2)]
			w.resetCB()
			before := model[n][dom]
			res, pan := w.probe(n, dom, method, page, budget)
			s.setModes(c16ModeOk, c16ModeOk)
			nodeCB, groupCB := w.takeCB()
			o := w.observe()
			alive := o.Alive[n][dom]
			st := c16TDStep{Node: n, Domain: c16DomName(dom), Script: script, Ok: res.Ok, Err: res.Err, Alive: alive}
			if budget > 0 {
				st.Budget = budget.String()
			}
			steps = append(steps, st)
			wit["real_probes"] = steps
			wit["state_after_last_real_probe"] = o
			wit["callbacks_of_last_real_probe"] = map[string]any{"node": nodeCB, "group": groupCB}
			m.Eval(1)
			cls := vk.C16DomClass(dom)
			proto := "http"
			if !vk.C16IsTCP(dom) {
				proto = "dns"
			}
			m.Count("real_script_"+proto+"_"+script, 1)
			m.Distinct(fmt.Sprintf("real|%s|%s|fails_before=%d|alive_before=%v", c16DomName(dom), script, before.fails, before.alive))
			switch {
			case pan != "":
				bad = m.Violation("teardown/bridged/panic-in-probe", "a production probe panicked: "+pan, wit) || true
				return
			case res.Ok && res.err == nil:
				if script != c16ModeOk {
					m.Count("real_probe_succeeded_against_failing_script", 1)
				}
				model[n][dom] = c16TDModel{alive: true}
				m.Count("real_success_judged", 1)
				if !before.alive {
					m.Count("real_revival_judged", 1)
				}
				if !alive {
					bad = m.Violation("teardown/bridged/real-success-node-not-alive:"+cls,
						fmt.Sprintf("node %d: the %s probe succeeded (answer received) but the node is not alive for %s afterwards", n, c16DomName(dom), c16DomName(dom)), wit) || true
					return
				}
				if wantCB := !before.alive; wantCB != (len(nodeCB) == 1) || len(nodeCB) > 1 {
					bad = m.Violation("teardown/bridged/real-success-transition-callback-count:"+cls,
						fmt.Sprintf("node %d %s: was alive=%v before a successful probe, alive-transition callbacks observed: %v", n, c16DomName(dom), before.alive, nodeCB), wit) || true
					return
				}
			case res.err != nil || script != c16ModeOk:
				// the probe reported an error, or the peer certainly delivered no success (bad status, closed
				// connection, empty/unparsable reply, no answer within the probe's own deadline), while the
				// dialer's lifecycle was intact: a failed probe, whatever shape the probe call returned
				switch {
				case script == c16ModeOk:
					m.Count("real_probe_failed_against_answering_script", 1)
					if errors.Is(res.err, context.Canceled) {
						// cause unknown and nobody cancelled anything; the statement lets such an error be ignored
						m.Count("real_probe_error_looks_cancelled", 1)
						return
					}
				case res.err == nil:
					m.Count("real_failed_probe_returned_false_nil", 1)
				case errors.Is(res.err, context.Canceled):
					m.Count("real_failed_probe_returned_cancel_shape", 1)
				}
				model[n][dom].fails++
				if model[n][dom].fails >= c16TDThreshold(dom) {
					model[n][dom].alive = false
				}
				m.Count("real_failure_judged_"+cls, 1)
				if want := model[n][dom].alive; want != alive {
					if want {
						bad = m.Violation("teardown/bridged/real-failure-below-threshold-killed-node:"+cls,
							fmt.Sprintf("node %d: %d consecutive failed %s probes (threshold %d) and the node is already not alive", n, model[n][dom].fails, c16DomName(dom), c16TDThreshold(dom)), wit) || true
					} else {
						bad = m.Violation("teardown/bridged/real-failure-threshold-reached-node-alive:"+cls,
							fmt.Sprintf("node %d: %d consecutive failed %s probes (threshold %d; the last one against script %q returned ok=%v err=%q while nothing was cancelled) and the node is still alive", n, model[n][dom].fails, c16DomName(dom), c16TDThreshold(dom), script, res.Ok, res.Err), wit) || true
					}
					return
				}
				if model[n][dom].alive {
					m.Count("real_failure_below_threshold_alive", 1)
				} else if before.alive {
					m.Count("real_failure_threshold_reached_"+cls, 1)
				}
			default:
				m.Count("real_probe_skipped_false_nil", 1)
			}
			if msg, ok := w.agree(o); !ok {
				bad = m.Violation("teardown/bridged/group-does-not-see-node-state-after-real-probe", msg, wit) || true
			}
		}
		deaths := make([]int, nNodes)
		for n := 0; n < nNodes && !bad; n++ {
			for _, dom := range doms {
				if r.IntN(5) == 0 {
					continue // never probed: initial state
				}
				if vk.C16IsTCP(dom) {
					plan := []string{c16ModeOk, c16ModeOk, c16ModeOk, c16ModeClose, c16ModeS500, c16ModeClose, c16ModeS500, "dead-revived", "dead-revived"}[r.IntN(9)]
					if r.IntN(16) == 0 {
						plan = "expiry"
					}
					if plan != c16ModeOk && deaths[n] >= 2 {
						plan = c16ModeOk // a third death transition of one proxy address would escalate
					}
					switch plan {
					case "dead-revived":
						deaths[n]++
						realProbe(n, dom, []string{c16ModeClose, c16ModeS500}[r.IntN(2)])
						realProbe(n, dom, c16ModeOk)
					case c16ModeOk:
						realProbe(n, dom, c16ModeOk)
					default:
						deaths[n]++
						realProbe(n, dom, plan)
					}
				} else {
					k := []int{0, 0, 1, 2, 2, 3}[r.IntN(6)]
					if k == 3 && deaths[n] >= 2 {
						k = 2
					}
					if k == 3 {
						deaths[n]++
					}
					if k == 0 || r.IntN(3) == 0 {
						realProbe(n, dom, c16ModeOk)
					}
					for i := 0; i < k; i++ {
						script := []string{c16ModeEmpty, c16ModeGarbage}[r.IntN(2)]
						if r.IntN(14) == 0 {
							script = "expiry"
						}
						realProbe(n, dom, script)
					}
				}
			}
		}
		if bad {
			w.close()
			continue
		}

		// ---- (2) probes in flight ---------------------------------------------------
		pre := w.observe()
		if msg, ok := w.agree(pre); !ok {
			m.Violation("teardown/bridged/group-does-not-see-node-state-before-window", msg, wit)
			w.close()
			continue
		}
		type flight struct {
			Node   int          `json:"node"`
			Domain string       `json:"domain"`
			dom    int          `json:"-"`
			Result *c16TDResult `json:"returned_after_teardown,omitempty"`
			Shape  string       `json:"returned_error_shape,omitempty"`
		}
		var flights []*flight
		inflightDom := map[int]bool{}
		for n := 0; n < nNodes; n++ {
			if n > 0 && r.IntN(3) == 0 {
				continue
			}
			k := 1 + r.IntN(2)
			perm := r.Perm(len(doms))
			for _, pi := range perm[:k] {
				flights = append(flights, &flight{Node: n, Domain: c16DomName(doms[pi]), dom: doms[pi]})
				inflightDom[doms[pi]] = true
			}
		}
		s.drainParked()
		httpPark := c16ModePark
		if r.IntN(3) == 0 {
			httpPark = c16ModePartial
		}
		s.setModes(httpPark, c16ModePark)
		gated := r.IntN(3) == 0
		s.gate.Store(gated)
		w.resetCB()
		var wg sync.WaitGroup
		var panics atomic.Value
		tStart := time.Now()
		for _, f := range flights {
			f := f
			wg.Add(1)
			method := []string{http.MethodGet, http.MethodHead}[r.IntN(2)]
			page := []string{"generate_204", "check"}[r.IntN(2)]
			go func() {
				defer wg.Done()
				res, pan := w.probe(f.Node, f.dom, method, page, 0)
				if pan != "" {
					panics.Store(pan)
				}
				f.Result = &res
				f.Shape = c16ErrShape(res.err)
			}()
		}
		parked := s.waitParked(len(flights), 10*time.Second)
		wit["probes_in_flight"] = flights
		wit["parked_handshakes"] = parked
		wit["dial_gate_armed"] = gated

		// ---- (3) teardown -------------------------------------------------------------
		kind := []string{"close", "groups_then_close", "parent_cancel"}[r.IntN(3)]
		wit["teardown"] = kind
		order := r.Perm(nNodes)
		switch kind {
		case "close":
			for _, n := range order {
				_ = w.nodes[n].Close()
			}
		case "groups_then_close":
			for _, g := range w.groups {
				_ = g.Close()
			}
			for _, n := range order {
				_ = w.nodes[n].Close()
			}
		case "parent_cancel":
			for _, n := range order {
				w.cancels[n]()
			}
		}
		window := time.Since(tStart)

		// ---- (4) every probe call returns ------------------------------------------------
		returned := make(chan struct{})
		go func() { wg.Wait(); close(returned) }()
		select {
		case <-returned:
		case <-time.After(20 * time.Second):
			m.Count("round_skipped_watchdog_return", 1)
			s.gate.Store(false)
			w.close()
			<-returned // the probes' own deadline (10 s per attempt) ends them at the latest
			continue
		}
		s.gate.Store(false)
		s.setModes(c16ModeOk, c16ModeOk)
		nodeCB, groupCB := w.takeCB()
		post := w.observe()
		w.close()
		if len(parked) < len(flights) {
			m.Count("round_skipped_watchdog_handshake", 1)
			continue
		}
		if window > dialer.VerifC16ProbeTimeout/2 {
			m.Count("round_skipped_ambiguous_window", 1)
			continue
		}
		if p := panics.Load(); p != nil {
			m.Violation("teardown/bridged/panic-in-cancelled-probe", "a production probe cancelled by teardown panicked: "+p.(string), wit)
			continue
		}

		// ---- (5) verdict --------------------------------------------------------------
		m.Count("bridged_rounds_judged", 1)
		m.Count("teardown_kind_"+kind, 1)
		for _, p := range parked {
			m.Count("parked_at_"+p.Where, 1)
		}
		for _, f := range flights {
			m.Eval(1)
			cls := vk.C16DomClass(f.dom)
			m.Count("cancelled_inflight_"+cls, 1)
			m.Count("cancelled_probe_returned_"+f.Shape, 1)
			if f.Result != nil && f.Result.Ok {
				m.Count("cancelled_probe_returned_ok_true", 1)
			}
			was := pre.Alive[f.Node][f.dom]
			if was {
				m.Count("window_node_alive_before_"+cls, 1)
				if !vk.C16IsTCP(f.dom) && model[f.Node][f.dom].fails == c16TDThreshold(f.dom)-1 {
					m.Count("window_dnsudp_one_below_threshold", 1)
				}
			} else {
				m.Count("window_node_dead_before_"+cls, 1)
			}
			for gi, mem := range w.members {
				in := false
				for _, n := range mem {
					in = in || n == f.Node
				}
				if !in {
					continue
				}
				if was && pre.Len[gi][f.dom] == 1 && w.policies[gi] != string(consts.DialerSelectionPolicy_Random) {
					m.Count("window_last_alive_member_of_latency_group", 1)
				}
				for _, p := range parked {
					m.Distinct(fmt.Sprintf("cancel|bridged|%s|%s|%s|alive_before=%v|%s", kind, p.Where, f.Domain, was, w.policies[gi]))
				}
			}
		}
		violated := c16TDJudgeWindow(m, "bridged", w, pre, post, nodeCB, groupCB, inflightDom, wit)
		if !violated && m.WantSample() && round%23 == 0 {
			m.Sample(map[string]any{"driver": "bridged", "round": wit, "verdict": "held"})
		}
	}
	s.gate.Store(false)
	s.setModes(c16ModeOk, c16ModeOk)
}

// c16TeardownLoop: the same experiment through the real aliveBackground loop of one node.
func c16TeardownLoop(m *vk.Monitor, r *rand.Rand, s *c16Script) {
	log := c16TDLog()
	rounds := vk.Scale(60, 1000)
	if !c16WaitNoProbeFrames(15 * time.Second) {
		m.Inconclusive("teardown/loop: goroutines of earlier rounds are still inside dae's probe code")
		return
	}
	for round := 0; round < rounds && m.Violations() < 5; round++ {
		s.gate.Store(false)
		s.setModes(c16ModeOk, c16ModeOk)
		page := []string{"generate_204", "check"}[r.IntN(2)]
		option := &dialer.GlobalOption{
			Log:           log,
			CheckInterval: 24 * time.Hour, // one cold-start tick within a second, afterwards only NotifyCheck
			TcpCheckOptionRaw: dialer.TcpCheckOptionRaw{
				Raw:             []string{fmt.Sprintf("http://%s/n0/%s", s.http4, page), s.http4.Addr().String()},
				Log:             log,
				ResolverNetwork: "udp",
				Method:          []string{"", http.MethodGet, http.MethodHead}[r.IntN(3)],
			},
			CheckDnsOptionRaw: dialer.CheckDnsOptionRaw{
				Raw:             []string{s.dns4.String(), s.dns4.Addr().String()},
				ResolverNetwork: "udp",
			},
		}
		w := c16NewTDWorld(s, r, func(int) *dialer.GlobalOption { return option }, 1, 100000+round, false)
		wit := w.describe()
		wit["round"] = round
		wit["tcp_check_url"] = option.TcpCheckOptionRaw.Raw
		wit["udp_check_dns"] = option.CheckDnsOptionRaw.Raw
		d := w.nodes[0]
		skip := func(counter string) {
			m.Count(counter, 1)
			s.gate.Store(false)
			s.setModes(c16ModeOk, c16ModeOk)
			w.close()
			_ = c16WaitNoProbeFrames(25 * time.Second)
		}

		// (1) a real successful cycle
		ok0, dns0 := s.servedCount("http_ok"), s.servedCount("dns_ok")
		d.ActivateCheck()
		d.NotifyCheck()
		deadline := time.Now().Add(15 * time.Second)
		for s.servedCount("http_ok") == ok0 || s.servedCount("dns_ok") == dns0 {
			if time.Now().After(deadline) {
				break
			}
			time.Sleep(time.Millisecond)
		}
		if s.servedCount("http_ok") == ok0 || s.servedCount("dns_ok") == dns0 {
			skip("loop_skipped_watchdog")
			continue
		}
		if !c16WaitNoProbeFrames(15 * time.Second) {
			skip("loop_skipped_watchdog")
			continue
		}
		pre := w.observe()
		if !pre.Alive[0][vk.C16Tcp4] || !pre.Alive[0][vk.C16DnsUdp4] {
			// answered probes of a fresh node; the bridged driver judges this, here it only is the precondition
			m.Count("loop_precondition_not_alive", 1)
			skip("loop_skipped_precondition")
			continue
		}

		// (2) probes in flight
		s.drainParked()
		httpPark := c16ModePark
		if r.IntN(3) == 0 {
			httpPark = c16ModePartial
		}
		s.setModes(httpPark, c16ModePark)
		gated := r.IntN(4) == 0
		s.gate.Store(gated)
		w.resetCB()
		tStart := time.Now()
		d.NotifyCheck()
		// a full cycle starts one tcp4 and one dns-udp4 probe (the script has no IPv6 address configured
		// for this driver); each parks exactly once: at the gate, or at its peer
		var parked []c16Parked
		wd := time.NewTimer(15 * time.Second)
	collect:
		for len(parked) < 2 {
			select {
			case p := <-s.parked:
				parked = append(parked, p)
			case <-wd.C:
				break collect
			}
		}
		wd.Stop()
		complete := len(parked) >= 2
		wit["parked_handshakes"] = parked
		wit["dial_gate_armed"] = gated
		visible := c16ProbeFrames()

		// (3) teardown
		kind := []string{"close", "groups_then_close", "parent_cancel"}[r.IntN(3)]
		wit["teardown"] = kind
		switch kind {
		case "close":
			_ = d.Close()
		case "groups_then_close":
			for _, g := range w.groups {
				_ = g.Close()
			}
			_ = d.Close()
		case "parent_cancel":
			w.cancels[0]()
		}
		window := time.Since(tStart)

		// (4) the workers leave dae's probe code
		if !c16WaitNoProbeFrames(25 * time.Second) {
			skip("loop_skipped_watchdog")
			continue
		}
		s.gate.Store(false)
		s.setModes(c16ModeOk, c16ModeOk)
		nodeCB, groupCB := w.takeCB()
		post := w.observe()
		w.close()
		switch {
		case !complete:
			m.Count("loop_skipped_watchdog", 1)
			continue
		case !visible:
			m.Count("loop_skipped_introspection_blind", 1)
			continue
		case window > dialer.VerifC16ProbeTimeout/2:
			m.Count("loop_skipped_ambiguous_window", 1)
			continue
		}

		// (5) verdict
		m.Count("loop_rounds_judged", 1)
		m.Count("teardown_kind_"+kind, 1)
		m.Eval(len(parked))
		for _, p := range parked {
			m.Count("loop_parked_at_"+p.Where, 1)
			switch p.Where {
			case "request", "partial":
				m.Count("loop_cancelled_inflight_tcp", 1)
			case "dns-query":
				m.Count("loop_cancelled_inflight_dnsudp", 1)
			}
			for gi := range w.groups {
				m.Distinct(fmt.Sprintf("cancel|loop|%s|%s|%s", kind, p.Where, w.policies[gi]))
			}
		}
		violated := c16TDJudgeWindow(m, "loop", w, pre, post, nodeCB, groupCB, map[int]bool{vk.C16Tcp4: true, vk.C16DnsUdp4: true}, wit)
		if !violated && m.WantSample() && round%5 == 0 {
			m.Sample(map[string]any{"driver": "loop", "round": wit, "verdict": "held"})
		}
	}
	s.gate.Store(false)
	s.setModes(c16ModeOk, c16ModeOk)
}

// c16TeardownDeadline: the production probe deadline itself (the constant inside check(), which no
// option shortens). One batch of nodes probes a second scripted peer that parks everything; nothing
// is cancelled, every call returns after check()'s own attempts expired. The peer never delivered an
// answer and the lifecycle is intact: each of these is one failed probe and must count as one - the
// TCP node is not alive afterwards, the DNS-UDP node exactly when it was the third consecutive
// failure. The verdict does not depend on how long it took. Returns the function that waits for the
// batch and judges it.
func c16TeardownDeadline(m *vk.Monitor, r *rand.Rand) (wait func()) {
	s2, err := c16NewScript()
	if err != nil {
		m.Inconclusive("teardown/deadline: cannot open loopback listeners for the second scripted peer: %v", err)
		return func() {}
	}
	type lane struct {
		Node     int          `json:"node"`
		Domain   string       `json:"domain"`
		Stage    string       `json:"parks_at"`
		PreFails int          `json:"real_failures_before"`
		Result   *c16TDResult `json:"returned"`
		Elapsed  float64      `json:"elapsed_s_recorded_only"`
		Alive    bool         `json:"alive_after"`
		dom      int
		page     string
	}
	lanes := []*lane{
		{Node: 0, dom: vk.C16Tcp4, Stage: "request", page: "generate_204"},
		{Node: 1, dom: vk.C16Tcp4, Stage: "partial", page: "partial_check"},
		{Node: 3, dom: vk.C16Tcp4, Stage: "dial", page: "check"},
		{Node: 4, dom: vk.C16DnsUdp4, Stage: "dns-query", PreFails: 2},
		{Node: 5, dom: vk.C16DnsUdp4, Stage: "dns-query", PreFails: r.IntN(2)},
	}
	if s2.http6.IsValid() {
		lanes = append(lanes, &lane{Node: 2, dom: vk.C16Tcp6, Stage: "request", page: "generate_204"})
	}
	if s2.dns6.IsValid() {
		lanes = append(lanes, &lane{Node: 6, dom: vk.C16DnsUdp6, Stage: "dial"})
	}
	s2.gateFor = map[int]bool{3: true, 6: true}
	option := &dialer.GlobalOption{Log: c16TDLog(), CheckInterval: 24 * time.Hour}
	w := c16NewTDWorld(s2, r, func(int) *dialer.GlobalOption { return option }, 7, 200000, true)
	wit := w.describe()
	wit["lanes"] = lanes
	for _, l := range lanes {
		l.Domain = c16DomName(l.dom)
	}
	// real failures first (answered, but without a record), one after the other
	s2.setModes(c16ModeByPage, c16ModeEmpty)
	for _, l := range lanes {
		for i := 0; i < l.PreFails; i++ {
			_, _ = w.probe(l.Node, l.dom, "", l.page, 0)
		}
	}
	pre := w.observe()
	s2.setModes(c16ModeByPage, c16ModePark)
	s2.drainParked()
	var wg sync.WaitGroup
	var panics atomic.Value
	for _, l := range lanes {
		l := l
		wg.Add(1)
		go func() {
			defer wg.Done()
			t0 := time.Now()
			res, pan := w.probe(l.Node, l.dom, "", l.page, 0)
			if pan != "" {
				panics.Store(pan)
			}
			l.Elapsed = time.Since(t0).Seconds()
			l.Result = &res
		}()
	}
	return func() {
		defer s2.shutdown()
		defer w.close()
		returned := make(chan struct{})
		go func() { wg.Wait(); close(returned) }()
		select {
		case <-returned:
		case <-time.After(120 * time.Second):
			m.Inconclusive("teardown/deadline: probes against a peer that never answers did not return within 120 s (production deadline: 2 attempts x %v)", dialer.VerifC16ProbeTimeout)
			return
		}
		if p := panics.Load(); p != nil {
			m.Violation("teardown/deadline/panic-in-probe", "a production probe whose deadline expired panicked: "+p.(string), wit)
			return
		}
		seen := map[string]bool{}
		for {
			select {
			case p := <-s2.parked:
				if !seen[p.Where] {
					seen[p.Where] = true
				}
				m.Count("deadline_parked_at_"+p.Where, 1)
				continue
			default:
			}
			break
		}
		post := w.observe()
		wit["state_before"] = pre
		wit["state_after"] = post
		for _, l := range lanes {
			cls := vk.C16DomClass(l.dom)
			l.Alive = post.Alive[l.Node][l.dom]
			if !pre.Alive[l.Node][l.dom] {
				m.Count("deadline_lane_precondition_not_alive", 1) // the bridged driver judges answered failures
				continue
			}
			if l.Result.Ok && l.Result.err == nil {
				m.Count("deadline_probe_succeeded_without_answer", 1)
				continue
			}
			m.Eval(1)
			m.Count("deadline_lane_judged_"+cls, 1)
			m.Count("deadline_probe_returned_"+c16ErrShape(l.Result.err), 1)
			m.Distinct(fmt.Sprintf("deadline|%s|%s|fails_before=%d", l.Domain, l.Stage, l.PreFails))
			wantAlive := l.PreFails+1 < c16TDThreshold(l.dom)
			switch {
			case wantAlive && !l.Alive:
				m.Violation("teardown/deadline/unanswered-probe-overcounted:"+cls,
					fmt.Sprintf("node %d: %d consecutive failed %s probes (threshold %d; the last one got no answer within the production deadline) and the node is already not alive", l.Node, l.PreFails+1, l.Domain, c16TDThreshold(l.dom)), wit)
				return
			case !wantAlive && l.Alive:
				m.Violation("teardown/deadline/unanswered-probe-not-counted:"+cls,
					fmt.Sprintf("node %d: the %s probe got no answer within the production deadline (call returned ok=%v err=%q, nothing was cancelled, lifecycle intact) which makes %d consecutive failed probes (threshold %d), but the node is still alive", l.Node, l.Domain, l.Result.Ok, l.Result.Err, l.PreFails+1, c16TDThreshold(l.dom)), wit)
				return
			case wantAlive:
				m.Count("deadline_below_threshold_"+cls, 1)
			default:
				m.Count("deadline_threshold_reached_"+cls, 1)
			}
		}
		if msg, ok := w.agree(post); !ok {
			m.Violation("teardown/deadline/group-does-not-see-node-state", msg, wit)
			return
		}
		m.Set("driver_deadline_batch", map[string]any{"batch": wit, "verdict": "held"})
	}
}
