package dialer

// C16 monitor bridge for the teardown class: Dialer.Check with the CheckFuncs of
// the shape aliveBackground builds (production HttpCheck / DnsCheck behind the
// production check()), so a probe can really be in flight when the dialer's
// lifecycle context is cancelled. budget > 0 narrows the probe's own deadline
// (the production constant is 10 s per attempt); the deadline still derives
// from the context check() hands out, so its expiry is a genuine probe timeout.

import (
	"context"
	"net/netip"
	"net/url"
	"time"

	"github.com/daeuniverse/dae/common/consts"
	"github.com/daeuniverse/dae/common/netutils"
	"github.com/daeuniverse/outbound/netproxy"
)

func VerifC16HttpProbe(d *Dialer, typ *NetworkType, rawURL string, ip netip.Addr, method string, budget time.Duration) (ok bool, err error) {
	u, err := url.Parse(rawURL)
	if err != nil {
		return false, err
	}
	idx := IdxTcp4
	if typ.IpVersion == consts.IpVersionStr_6 {
		idx = IdxTcp6
	}
	opt := &CheckOption{
		networkType: typ,
		CheckFunc: func(ctx context.Context, _ *NetworkType) (bool, error) {
			if budget > 0 {
				var cancel context.CancelFunc
				ctx, cancel = context.WithTimeout(ctx, budget)
				defer cancel()
			}
			return d.HttpCheck(ctx, idx, &netutils.URL{URL: u}, ip, method, 0, false)
		},
	}
	return d.Check(opt)
}

func VerifC16DnsProbe(d *Dialer, typ *NetworkType, dns netip.AddrPort, budget time.Duration) (ok bool, err error) {
	network := netproxy.MagicNetwork{Network: "udp", Mark: 0}.Encode()
	opt := &CheckOption{
		networkType: typ,
		CheckFunc: func(ctx context.Context, _ *NetworkType) (bool, error) {
			if budget > 0 {
				var cancel context.CancelFunc
				ctx, cancel = context.WithTimeout(ctx, budget)
				defer cancel()
			}
			return d.DnsCheck(ctx, dns, network)
		},
	}
	return d.Check(opt)
}

// VerifC16ProbeTimeout is the production per-attempt probe deadline.
const VerifC16ProbeTimeout = Timeout
