package outbound

// C15 monitor, class CONCURRENT REPORTS x RUN-TIME POLICY SWITCHES, judged at
// QUIESCENCE.
//
// A round builds a real DialerGroup over 2-5 real dialer nodes, replays a short
// sequential prelude (samples, forced deaths) and then releases, from a spin
// barrier, G reporter goroutines (latency samples through the production tail
// of Dialer.check, forced deaths, traffic revivals), one goroutine that
// switches the group's selection policy several times and optional selector
// goroutines. Nothing is judged while they run. When all of them have returned
// no report and no switch is in flight any more, so the state is well defined
// without any reference to time, and the oracle reads it:
//
//   - the group's policy is the last one the switching goroutine set;
//   - every alive set agrees with the nodes' own alive records and its index is
//     a bijection;
//   - for every alive node the sorting latency the SET holds equals the node's
//     OWN current measure under the policy now in force (read from the node
//     itself) plus the configured add_latency (0 while it has no measure);
//   - the node Select() returns is alive and no other alive measured node beats
//     it by the tolerance or more, both sides computed from the nodes' own
//     measures, not from the set's cache.
//
// Sample values are unique per round (pool value + a serial number of
// nanoseconds), so an older sample or an old-policy measure left in the set is
// distinguishable from the current one.

import (
	"errors"
	"fmt"
	"math/rand/v2"
	"runtime"
	"sync"
	"sync/atomic"
	"time"

	"github.com/daeuniverse/dae/common/consts"
	"github.com/daeuniverse/dae/component/outbound/dialer"
	vk "github.com/daeuniverse/dae/verifkit"
)

type c15CRound struct {
	Nodes     int          `json:"nodes"`
	Group     c15GroupSpec `json:"group"`
	Types     []int        `json:"types"`
	Prelude   []c15Ev      `json:"prelude"`
	Reporters [][]c15Ev    `json:"reporters"`
	Switches  []c15Ev      `json:"switches"`
	Selectors int          `json:"selector_goroutines"`
}

type c15CStats struct {
	reports           int
	switches          int
	switchOverlapped  int // switches during which a report was provably in flight
	liveRebuild       bool
	selects           int64
	finalPolicy       consts.DialerSelectionPolicy
	quiescentChecks   int
	entriesCompared   int
	selectJudged      int
	selectUnjudged    int
	sameNodeReporters bool
}

var c15MinPolicies = []string{"min", "min_avg10", "min_moving_avg"}

func c15CGen(r *rand.Rand) *c15CRound {
	rd := &c15CRound{Nodes: 2 + r.IntN(4)}
	gs := c15GroupSpec{Tol: c15Tol[r.IntN(len(c15Tol))]}
	for i := 0; i < rd.Nodes; i++ {
		gs.Members = append(gs.Members, i)
		gs.Offsets = append(gs.Offsets, c15Off[r.IntN(len(c15Off))])
	}
	gs.Policy = c15MinPolicies[r.IntN(3)]
	if r.IntN(8) == 0 {
		gs.Policy = "random"
	}
	gs.Fixed = r.IntN(rd.Nodes)
	rd.Group = gs
	rd.Types = []int{r.IntN(6)}
	if r.IntN(4) == 0 {
		rd.Types = append(rd.Types, r.IntN(6))
	}
	serial := time.Duration(0)
	lat := func() time.Duration {
		serial += 4 // the pool contains values 1ns apart; steps of 4 keep every sample of a round unique
		return c15Lat[r.IntN(len(c15Lat))] + serial
	}
	pickT := func() int { return rd.Types[r.IntN(len(rd.Types))] }
	// prelude: give the nodes different histories so that the three measures differ
	for n := 0; n < rd.Nodes; n++ {
		for _, t := range rd.Types {
			for k := r.IntN(14); k > 0; k-- {
				rd.Prelude = append(rd.Prelude, c15Ev{K: "sample", N: n, T: t, Lat: lat()})
			}
			if r.IntN(6) == 0 {
				rd.Prelude = append(rd.Prelude, c15Ev{K: "forced_dead", N: n, T: t})
			}
		}
	}
	// reporters: few nodes, many goroutines; in half of the rounds all of them hammer 1-2 hot nodes
	hot := rd.Nodes
	if r.IntN(2) == 0 {
		hot = 1 + r.IntN(2)
	}
	G := 2 + r.IntN(5)
	for g := 0; g < G; g++ {
		var evs []c15Ev
		for k := 1 + r.IntN(4); k > 0; k-- {
			e := c15Ev{K: "sample", N: r.IntN(hot), T: pickT(), Lat: lat()}
			switch x := r.IntN(100); {
			case x < 8:
				e = c15Ev{K: "forced_dead", N: e.N, T: e.T}
			case x < 12:
				e = c15Ev{K: "traffic_alive", N: e.N, T: e.T}
			}
			evs = append(evs, e)
		}
		rd.Reporters = append(rd.Reporters, evs)
	}
	// policy switches: mostly between the min policies, sometimes through random / fixed
	cur := gs.Policy
	for k := 1 + r.IntN(5); k > 0; k-- {
		p := c15MinPolicies[r.IntN(3)]
		switch x := r.IntN(20); {
		case x == 0:
			p = "random"
		case x == 1:
			p = "fixed"
		}
		if p == cur {
			p = c15MinPolicies[(r.IntN(2)+1+c15IndexOf(c15MinPolicies, cur))%3]
		}
		rd.Switches = append(rd.Switches, c15Ev{K: "set_policy", Policy: p, Fixed: gs.Fixed})
		cur = p
	}
	rd.Selectors = r.IntN(3)
	return rd
}

func c15IndexOf(l []string, s string) int {
	for i, x := range l {
		if x == s {
			return i
		}
	}
	return 0
}

// c15CRun executes one round and judges the quiescent state.
func c15CRun(rd *c15CRound) (st c15CStats, v *c15Viol) {
	var w *c15World
	defer func() {
		if r := recover(); r != nil {
			v = &c15Viol{Sig: "panic/concurrent-round", What: fmt.Sprint(r), Detail: map[string]any{}}
		}
		if w != nil {
			w.close()
		}
	}()
	w = c15NewWorld(&c15Hist{Nodes: rd.Nodes, Groups: []c15GroupSpec{rd.Group}})
	for i, e := range rd.Prelude {
		if v := w.apply(i, e); v != nil {
			v.Sig = "prelude/" + v.Sig
			return st, v
		}
	}
	g := w.groups[0]
	total := len(rd.Reporters) + 1 + rd.Selectors
	var ready, started, done atomic.Int64
	var goFlag atomic.Bool
	var wg sync.WaitGroup
	var panics sync.Map
	wait := func() {
		ready.Add(1)
		for !goFlag.Load() {
			runtime.Gosched()
		}
	}
	guard := func(name string) {
		if r := recover(); r != nil {
			panics.Store(name, fmt.Sprint(r))
		}
		wg.Done()
	}
	wg.Add(total)
	for gi, evs := range rd.Reporters {
		go func(gi int, evs []c15Ev) {
			defer guard(fmt.Sprintf("reporter%d", gi))
			wait()
			for _, e := range evs {
				nt := c15NT(e.T)
				started.Add(1)
				switch e.K {
				case "sample":
					w.nodes[e.N].VerifProbeSuccess(&nt, e.Lat)
				case "forced_dead":
					w.nodes[e.N].ReportUnavailableForced(&nt, c15Err)
				case "traffic_alive":
					w.nodes[e.N].ReportAvailableTraffic(&nt)
				}
				done.Add(1)
			}
		}(gi, evs)
	}
	overlapped := 0
	go func() {
		defer guard("switcher")
		wait()
		for _, e := range rd.Switches {
			d0 := done.Load()
			g.SetSelectionPolicy(DialerSelectionPolicy{Policy: consts.DialerSelectionPolicy(e.Policy), FixedIndex: e.Fixed})
			// a report that had started by now and had not finished when the switch began was in flight during it
			if started.Load() > d0 {
				overlapped++
			}
		}
	}()
	var selects atomic.Int64
	for s := 0; s < rd.Selectors; s++ {
		go func(s int) {
			defer guard(fmt.Sprintf("selector%d", s))
			wait()
			for k := 0; k < 6; k++ {
				nt := c15NT(rd.Types[k%len(rd.Types)])
				_, _, _, _ = g.SelectWithExclusionResult(&nt, k%2 == 0, nil)
				selects.Add(1)
			}
		}(s)
	}
	for ready.Load() < int64(total) {
		runtime.Gosched()
	}
	goFlag.Store(true)
	wg.Wait()
	// ---- quiescent: every goroutine of the round has returned ----
	var pv *c15Viol
	panics.Range(func(k, val any) bool {
		pv = &c15Viol{Sig: "panic/concurrent-round", What: fmt.Sprintf("%v panicked: %v", k, val), Detail: map[string]any{}}
		return false
	})
	if pv != nil {
		return st, pv
	}
	cell := map[[2]int]int{}
	for gi, evs := range rd.Reporters {
		st.reports += len(evs)
		for _, e := range evs {
			k := [2]int{e.N, e.T}
			if g0, ok := cell[k]; ok && g0 != gi {
				st.sameNodeReporters = true
			}
			cell[k] = gi
		}
	}
	st.switches = len(rd.Switches)
	st.switchOverlapped = overlapped
	st.selects = selects.Load()
	prevP := rd.Group.Policy
	for _, e := range rd.Switches {
		if prevP == "fixed" && e.Policy != "fixed" {
			st.liveRebuild = true
		}
		prevP = e.Policy
	}
	final := consts.DialerSelectionPolicy(prevP)
	st.finalPolicy = final
	sfx := ""
	if st.liveRebuild {
		// the alive sets were rebuilt from scratch during the round (fixed -> policy with alive state)
		sfx = "/sets-rebuilt-during-round"
	}
	// one structural signature for "the set disagrees with the node's own record at quiescence" in rounds that rebuilt the sets
	disagree := func(sig string) string {
		if st.liveRebuild {
			return "quiescent/set-disagrees-with-node-record/sets-rebuilt-during-round"
		}
		return sig
	}
	inRound := func(t int) bool {
		for _, x := range rd.Types {
			if x == t {
				return true
			}
		}
		return false
	}
	if got := g.GetSelectionPolicy(); got != final {
		return st, w.viol(-1, "quiescent/policy-switch-lost"+sfx, fmt.Sprintf("GetSelectionPolicy()=%v after the last SetSelectionPolicy(%v) returned", got, final), -1, -1)
	}
	st.quiescentChecks++
	if final == consts.DialerSelectionPolicy_Fixed {
		return st, nil
	}
	tol := rd.Group.Tol
	mem := w.members(0)
	off := map[*dialer.Dialer]time.Duration{}
	for k, ni := range rd.Group.Members {
		off[w.nodes[ni]] = rd.Group.Offsets[k]
	}
	for t := 0; t < 6; t++ {
		nt := c15NT(t)
		set := g.MustGetAliveDialerSet(&nt)
		if set == nil {
			return st, w.viol(-1, "quiescent/no-alive-set-for-type"+sfx, "group with a non-fixed policy has no alive set for "+c15TypeNames[t], 0, -1)
		}
		s := set.VerifState()
		if s.Policy != final {
			return st, w.viol(-1, "quiescent/set-policy-differs"+sfx, fmt.Sprintf("set ranks by %v, the group's policy is %v", s.Policy, final), 0, t)
		}
		seen := map[*dialer.Dialer]bool{}
		for i, en := range s.Entries {
			if idx, ok := s.Index[en.Dialer]; !ok || idx != i || seen[en.Dialer] || !c15In(mem, en.Dialer) {
				return st, w.viol(-1, "quiescent/index-bijection"+sfx, fmt.Sprintf("aliveEntries[%d]=%s but dialerToIndex says %d (known=%v, duplicate=%v)", i, w.name(en.Dialer), idx, ok, seen[en.Dialer]), 0, t)
			}
			seen[en.Dialer] = true
		}
		for _, d := range mem {
			idx, ok := s.Index[d]
			if !ok || idx >= len(s.Entries) || (idx >= 0 && s.Entries[idx].Dialer != d) {
				return st, w.viol(-1, "quiescent/index-bijection"+sfx, fmt.Sprintf("dialerToIndex[%s]=%d (known=%v) does not point at its aliveEntries slot (len %d)", w.name(d), idx, ok, len(s.Entries)), 0, t)
			}
			if d.MustGetAlive(&nt) != (idx >= 0) {
				return st, w.viol(-1, disagree("quiescent/set-alive-differs-from-node-record"), fmt.Sprintf("%s: node records alive=%v for %s but the group's alive set index is %d, with no report in flight",
					w.name(d), d.MustGetAlive(&nt), c15TypeNames[t], idx), 0, t)
			}
		}
		if s.MinDialer != nil {
			if idx, ok := s.Index[s.MinDialer]; !ok || idx < 0 {
				return st, w.viol(-1, "quiescent/best-not-alive"+sfx, fmt.Sprintf("minLatency.dialer=%s is not in aliveEntries", w.name(s.MinDialer)), 0, t)
			}
		}
		if !c15IsMin(final) {
			continue
		}
		// the set's sorting latency of every alive node == the node's own current measure + add_latency
		own := map[*dialer.Dialer]time.Duration{}
		for k, en := range s.Entries {
			raw, has := en.Dialer.VerifSnapshotLatencyForPolicy(&nt, final)
			want := time.Duration(0)
			if has {
				want = raw + off[en.Dialer]
				own[en.Dialer] = want
			}
			st.entriesCompared++
			if en.SortingLatency != want {
				return st, w.viol(-1, disagree("cached-sorting-latency-stale/quiescent-after-concurrent-reports"),
					fmt.Sprintf("%s, no report or switch in flight: aliveEntries[%d] %s is held at %v, the node's own %s measure + add_latency is %v (measured=%v)",
						final, k, w.name(en.Dialer), en.SortingLatency, final, want, has), 0, t)
			}
		}
		// selection relation on the nodes' own measures
		ntSel := nt
		d, _, _, err := g.SelectWithExclusionResult(&ntSel, true, nil)
		if len(s.Entries) == 0 {
			continue // fallbacks are judged by the sequential class
		}
		if err != nil || d == nil {
			if errors.Is(err, ErrNoAliveDialer) {
				return st, w.viol(-1, "quiescent/noalive-while-alive-exists"+sfx, fmt.Sprintf("%s reported no alive dialer for %s although %d nodes are recorded alive", final, c15TypeNames[t], len(s.Entries)), 0, t)
			}
			return st, w.viol(-1, "quiescent/select-unexpected-error"+sfx, fmt.Sprintf("dialer=%s err=%v", w.name(d), err), 0, t)
		}
		if !d.MustGetAlive(&nt) {
			return st, w.viol(-1, "quiescent/dead-node-returned"+sfx, fmt.Sprintf("%s returned %s which is not recorded alive for %s", final, w.name(d), c15TypeNames[t]), 0, t)
		}
		sd, hasD := own[d]
		if !hasD {
			if inRound(t) {
				st.selectUnjudged++
			}
			continue
		}
		for q, sq := range own {
			if q != d && sq < sd && sd-sq >= tol {
				return st, w.viol(-1, disagree("select-min-beaten-by-tolerance/quiescent-after-concurrent-reports"),
					fmt.Sprintf("%s (tolerance %v), no report or switch in flight: Select returned %s whose own measure + add_latency is %v although alive measured %s stands at %v",
						final, tol, w.name(d), sd, w.name(q), sq), 0, t)
			}
		}
		st.selectJudged++
	}
	return st, nil
}

// c15ConcurrentClass runs the rounds and feeds the monitor.
func c15ConcurrentClass(m *vk.Monitor, r *rand.Rand) {
	if runtime.GOMAXPROCS(0) < 16 {
		defer runtime.GOMAXPROCS(runtime.GOMAXPROCS(16))
	}
	n := vk.Scale(6000, 200000)
	reported := map[string]bool{}
	for i := 0; i < n && m.Violations() < 5; i++ {
		rd := c15CGen(r)
		st, v := c15CRun(rd)
		m.Eval(st.reports + st.switches)
		m.Count("concurrent/rounds", 1)
		m.Count("concurrent/reports", int64(st.reports))
		m.Count("concurrent/policy_switches", int64(st.switches))
		m.Count("concurrent/selects_during_round_unjudged", st.selects)
		m.Count("concurrent/quiescent_checks", int64(st.quiescentChecks))
		m.Count("concurrent/quiescent_entries_compared_with_node_own_measure", int64(st.entriesCompared))
		m.Count("concurrent/quiescent_select_relation_checked", int64(st.selectJudged))
		m.Count("concurrent/quiescent_select_pick_without_measure_unjudged", int64(st.selectUnjudged))
		if st.switchOverlapped > 0 {
			m.Count("concurrent/rounds_with_policy_switch_during_reports", 1)
			m.Count("concurrent/policy_switches_with_report_in_flight", int64(st.switchOverlapped))
		}
		if st.liveRebuild {
			m.Count("concurrent/rounds_with_alive_sets_rebuilt", 1)
		}
		if st.sameNodeReporters {
			m.Count("concurrent/rounds_with_several_reporters_on_one_node", 1)
		}
		if st.quiescentChecks > 0 {
			m.Count("concurrent/final_policy/"+string(st.finalPolicy), 1)
			m.Distinct(fmt.Sprintf("concurrent|final=%s|tol%v|overlap=%v|reporters=%d", st.finalPolicy, rd.Group.Tol, st.switchOverlapped > 0, len(rd.Reporters)))
		}
		if v == nil {
			continue
		}
		if reported[v.Sig] {
			m.Count("further_witnesses/"+v.Sig, 1)
			continue
		}
		reported[v.Sig] = true
		m.Violation(v.Sig, v.What, map[string]any{"round": rd, "detail": v.Detail, "round_index": i,
			"note": "schedule-dependent: the round is a set of goroutines released from a barrier; re-running the same round may need many attempts"})
	}
	m.Require("concurrent/rounds", "concurrent/rounds_with_policy_switch_during_reports", "concurrent/reports", "concurrent/quiescent_checks",
		"concurrent/quiescent_entries_compared_with_node_own_measure", "concurrent/quiescent_select_relation_checked",
		"concurrent/rounds_with_several_reporters_on_one_node",
		"concurrent/final_policy/min", "concurrent/final_policy/min_avg10", "concurrent/final_policy/min_moving_avg")
}
