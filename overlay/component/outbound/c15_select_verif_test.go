package outbound

// C15 monitor: selection policy.
//
// Generated histories (latency samples, alive / not-alive flips per network
// type, run-time policy switches, selections with and without exclusion) are
// replayed against real DialerGroups built with NewDialerGroup over real
// dialer.Dialer nodes. After every event the oracle checks RELATIONS that the
// property statement fixes (it never predicts the pick): who may be returned
// by SelectWithExclusionResult, when "no alive dialer" may be reported, the
// tolerance relation of the cached best node and the licensed causes for a
// change of the best node, plus structural invariants of AliveDialerSet read
// through c15_verif_bridge.go.

import (
	"context"
	"errors"
	"fmt"
	"io"
	"math/rand/v2"
	"strings"
	"sync"
	"testing"
	"time"

	"github.com/daeuniverse/dae/common/consts"
	"github.com/daeuniverse/dae/component/outbound/dialer"
	vk "github.com/daeuniverse/dae/verifkit"
	D "github.com/daeuniverse/outbound/dialer"
	"github.com/daeuniverse/outbound/netproxy"
	"github.com/sirupsen/logrus"
)

// ---- network types -----------------------------------------------------------
// type index t = domain*2 + family; domain 0 tcp, 1 dns-udp, 2 data-udp; family 0 v4, 1 v6.

var c15TypeNames = [6]string{"tcp4", "tcp6", "dnsudp4", "dnsudp6", "dataudp4", "dataudp6"}

func c15NT(t int) dialer.NetworkType {
	fam := consts.IpVersionStr_4
	if t%2 == 1 {
		fam = consts.IpVersionStr_6
	}
	switch t / 2 {
	case 0:
		return dialer.NetworkType{L4Proto: consts.L4ProtoStr_TCP, IpVersion: fam}
	case 1:
		return dialer.NetworkType{L4Proto: consts.L4ProtoStr_UDP, IpVersion: fam, IsDns: true, UdpHealthDomain: dialer.UdpHealthDomainDns}
	default:
		return dialer.NetworkType{L4Proto: consts.L4ProtoStr_UDP, IpVersion: fam, UdpHealthDomain: dialer.UdpHealthDomainData}
	}
}

// ---- history model -------------------------------------------------------------

type c15GroupSpec struct {
	Members []int           `json:"members"` // world node indices, in group order
	Offsets []time.Duration `json:"add_latency_ns"`
	Tol     time.Duration   `json:"tolerance_ns"`
	Policy  string          `json:"policy"`
	Fixed   int             `json:"fixed_index"`
}

type c15Ev struct {
	K       string        `json:"k"` // sample forced_dead probe_fail traffic_fail traffic_alive reload_alive set_policy select
	G       int           `json:"g,omitempty"`
	N       int           `json:"n,omitempty"` // world node
	T       int           `json:"t"`
	Lat     time.Duration `json:"lat_ns,omitempty"`
	Strict  bool          `json:"strict,omitempty"`
	Excl    int           `json:"excl,omitempty"` // world node index, -1 none
	Policy  string        `json:"policy,omitempty"`
	Fixed   int           `json:"fixed,omitempty"`
	Variant int           `json:"variant,omitempty"` // select: alternative spelling of the same network type
}

func (e c15Ev) String() string {
	switch e.K {
	case "sample":
		return fmt.Sprintf("sample n%d %s %v", e.N, c15TypeNames[e.T], e.Lat)
	case "select":
		return fmt.Sprintf("select g%d %s strict=%v excl=%d variant=%d", e.G, c15TypeNames[e.T], e.Strict, e.Excl, e.Variant)
	case "set_policy":
		return fmt.Sprintf("set_policy g%d %s(%d)", e.G, e.Policy, e.Fixed)
	default:
		return fmt.Sprintf("%s n%d %s", e.K, e.N, c15TypeNames[e.T])
	}
}

type c15Hist struct {
	Nodes  int            `json:"nodes"`
	Groups []c15GroupSpec `json:"groups"`
	Ev     []c15Ev        `json:"events"`
}

type c15Viol struct {
	Sig    string
	What   string
	Step   int
	Detail map[string]any
}

// ---- world ---------------------------------------------------------------------

type c15NoopDialer struct{}

func (c15NoopDialer) DialContext(context.Context, string, string) (netproxy.Conn, error) {
	return nil, errors.New("not implemented")
}

var c15Log = func() *logrus.Logger {
	l := logrus.New()
	l.SetOutput(io.Discard)
	l.SetLevel(logrus.PanicLevel)
	return l
}()

type c15Prev struct {
	pick     *dialer.Dialer
	measured bool
	policy   consts.DialerSelectionPolicy
}

type c15World struct {
	h        *c15Hist
	nodes    []*dialer.Dialer
	nodeIdx  map[*dialer.Dialer]int
	groups   []*DialerGroup
	policy   []DialerSelectionPolicy
	samples  [][6][]time.Duration
	punished []bool // a non-forced failure was ever reported for the node: recovery penalty may be non-zero
	prev     map[*dialer.AliveDialerSet]c15Prev
	cbMu     sync.Mutex // the concurrent class gets callbacks from several goroutines
	cb       [][6]int // alive-change callback invocations per group and type (recorded, not judged)
	count    func(string)
	distinct func(string)
	lastKind string
	lastCause string
}

func (w *c15World) cnt(s string) {
	if w.count != nil {
		w.count(s)
	}
}

func c15IsMin(p consts.DialerSelectionPolicy) bool {
	return p == consts.DialerSelectionPolicy_MinLastLatency || p == consts.DialerSelectionPolicy_MinAverage10Latencies ||
		p == consts.DialerSelectionPolicy_MinMovingAverageLatencies
}

func c15NewWorld(h *c15Hist) *c15World {
	w := &c15World{h: h, nodeIdx: map[*dialer.Dialer]int{}, prev: map[*dialer.AliveDialerSet]c15Prev{}}
	w.samples = make([][6][]time.Duration, h.Nodes)
	w.punished = make([]bool, h.Nodes)
	w.cb = make([][6]int, len(h.Groups))
	// one GlobalOption per group tolerance would be needed by NewDialerGroup only; the dialers share one
	nodeOpt := &dialer.GlobalOption{Log: c15Log, CheckInterval: 30 * time.Second}
	for i := 0; i < h.Nodes; i++ {
		d := dialer.NewDialer(c15NoopDialer{}, nodeOpt, dialer.InstanceOption{DisableCheck: true},
			&dialer.Property{Property: D.Property{Name: fmt.Sprintf("n%d", i)}})
		w.nodes = append(w.nodes, d)
		w.nodeIdx[d] = i
	}
	for gi, gs := range h.Groups {
		opt := &dialer.GlobalOption{Log: c15Log, CheckInterval: 30 * time.Second, CheckTolerance: gs.Tol}
		var ds []*dialer.Dialer
		var annos []*dialer.Annotation
		for k, ni := range gs.Members {
			ds = append(ds, w.nodes[ni])
			annos = append(annos, &dialer.Annotation{AddLatency: gs.Offsets[k]})
		}
		p := DialerSelectionPolicy{Policy: consts.DialerSelectionPolicy(gs.Policy), FixedIndex: gs.Fixed}
		gi := gi
		g := NewDialerGroup(opt, fmt.Sprintf("g%d", gi), ds, annos, p, func(alive bool, nt *dialer.NetworkType, isInit bool) {
			if !isInit && nt != nil {
				w.cbMu.Lock()
				w.cb[gi][c15TypeIndex(nt)]++
				w.cbMu.Unlock()
			}
		})
		w.groups = append(w.groups, g)
		w.policy = append(w.policy, p)
	}
	return w
}

func c15TypeIndex(nt *dialer.NetworkType) int {
	t := 0
	switch nt.HealthDomain() {
	case dialer.HealthDomainDnsUDP:
		t = 2
	case dialer.HealthDomainDataUDP:
		t = 4
	}
	if nt.IpVersion == consts.IpVersionStr_6 {
		t++
	}
	return t
}

func (w *c15World) close() {
	for _, g := range w.groups {
		_ = g.Close()
	}
	for _, d := range w.nodes {
		_ = d.Close()
	}
}

func (w *c15World) members(gi int) []*dialer.Dialer { return w.groups[gi].Dialers }

func (w *c15World) measured(d *dialer.Dialer, t int) bool {
	return len(w.samples[w.nodeIdx[d]][t]) > 0
}

// measure recomputes the policy's latency measurement from the samples the
// monitor fed (min: last sample; min_avg10: mean of the last <=10 samples, as
// documented). The moving average's recurrence is dae's own definition, so it
// is read from the node (consistency, not an independent recomputation).
func (w *c15World) measure(p consts.DialerSelectionPolicy, d *dialer.Dialer, t int) time.Duration {
	s := w.samples[w.nodeIdx[d]][t]
	switch p {
	case consts.DialerSelectionPolicy_MinLastLatency:
		return s[len(s)-1]
	case consts.DialerSelectionPolicy_MinAverage10Latencies:
		if len(s) > 10 {
			s = s[len(s)-10:]
		}
		var sum time.Duration
		for _, v := range s {
			sum += v
		}
		return sum / time.Duration(len(s))
	default:
		nt := c15NT(t)
		return d.VerifCollection(&nt).MovingAverage
	}
}

func (w *c15World) name(d *dialer.Dialer) string {
	if d == nil {
		return "<nil>"
	}
	if i, ok := w.nodeIdx[d]; ok {
		return fmt.Sprintf("n%d", i)
	}
	return "<foreign>"
}

func (w *c15World) dumpSet(gi, t int) map[string]any {
	nt := c15NT(t)
	set := w.groups[gi].MustGetAliveDialerSet(&nt)
	if set == nil {
		return map[string]any{"set": "none (fixed policy)"}
	}
	st := set.VerifState()
	var ents []string
	for _, e := range st.Entries {
		ents = append(ents, fmt.Sprintf("%s:%v", w.name(e.Dialer), e.SortingLatency))
	}
	idx := map[string]int{}
	lat := map[string]string{}
	for _, d := range w.members(gi) {
		idx[w.name(d)] = st.Index[d]
		if l, ok := st.Latency[d]; ok {
			lat[w.name(d)] = fmt.Sprintf("%v%+v", l, st.Offset[d])
		}
	}
	return map[string]any{"type": c15TypeNames[t], "policy": string(st.Policy), "tolerance": st.Tolerance.String(), "aliveEntries": ents,
		"dialerToIndex": idx, "dialerToLatency+offset": lat, "best": w.name(st.MinDialer), "best_sorting": st.MinSorting.String()}
}

func (w *c15World) viol(step int, sig, what string, gi, t int) *c15Viol {
	d := map[string]any{"group": gi}
	if gi >= 0 && t >= 0 {
		d["set_state"] = w.dumpSet(gi, t)
	}
	return &c15Viol{Sig: sig, What: what, Step: step, Detail: d}
}

// ---- applying one event -----------------------------------------------------------

var c15Err = errors.New("verif: injected failure")

func (w *c15World) apply(step int, e c15Ev) *c15Viol {
	w.lastKind = e.K
	switch e.K {
	case "sample":
		nt := c15NT(e.T)
		w.samples[e.N][e.T] = append(w.samples[e.N][e.T], e.Lat)
		w.nodes[e.N].VerifProbeSuccess(&nt, e.Lat)
		if !w.nodes[e.N].MustGetAlive(&nt) {
			return w.viol(step, "sample-does-not-revive", "node not recorded alive after a successful probe", -1, -1)
		}
	case "forced_dead":
		nt := c15NT(e.T)
		w.nodes[e.N].ReportUnavailableForced(&nt, c15Err)
		if w.nodes[e.N].MustGetAlive(&nt) {
			return w.viol(step, "forced-death-ignored", "node still recorded alive after ReportUnavailableForced", -1, -1)
		}
	case "probe_fail":
		nt := c15NT(e.T)
		w.punished[e.N] = true
		w.nodes[e.N].VerifProbeFailure(&nt)
	case "traffic_fail":
		nt := c15NT(e.T)
		w.punished[e.N] = true
		w.nodes[e.N].ReportUnavailable(&nt, c15Err)
	case "traffic_alive":
		nt := c15NT(e.T)
		w.nodes[e.N].ReportAvailableTraffic(&nt)
	case "reload_alive":
		nt := c15NT(e.T)
		w.nodes[e.N].MarkAliveForReloadFallback(&nt)
	case "set_policy":
		p := DialerSelectionPolicy{Policy: consts.DialerSelectionPolicy(e.Policy), FixedIndex: e.Fixed}
		w.groups[e.G].SetSelectionPolicy(p)
		w.policy[e.G] = p
		if got := w.groups[e.G].GetSelectionPolicy(); got != p.Policy {
			return w.viol(step, "policy-switch-lost", fmt.Sprintf("GetSelectionPolicy()=%v after SetSelectionPolicy(%v)", got, p.Policy), -1, -1)
		}
	case "select":
		return w.checkSelect(step, e)
	}
	return nil
}

// ---- selection relation --------------------------------------------------------------

func (w *c15World) candidates(gi, t int, excl *dialer.Dialer) (alive []*dialer.Dialer, cands []*dialer.Dialer) {
	nt := c15NT(t)
	for _, d := range w.members(gi) {
		if d.MustGetAlive(&nt) {
			alive = append(alive, d)
			if d != excl {
				cands = append(cands, d)
			}
		}
	}
	return
}

func c15In(l []*dialer.Dialer, d *dialer.Dialer) bool {
	for _, x := range l {
		if x == d {
			return true
		}
	}
	return false
}

func (w *c15World) checkSelect(step int, e c15Ev) *c15Viol {
	gi := e.G
	g := w.groups[gi]
	pol := w.policy[gi]
	mem := w.members(gi)
	nt := c15NT(e.T)
	switch {
	case e.Variant == 1 && e.T/2 == 2:
		nt.UdpHealthDomain = dialer.UdpHealthDomainUnset // unset UDP domain means data UDP
	case e.Variant == 1 && e.T/2 == 0:
		nt.IsDns = true // DNS over TCP shares TCP health
	}
	var excl *dialer.Dialer
	if e.Excl >= 0 {
		excl = w.nodes[e.Excl]
	}
	ntCopy := nt
	d, _, _, err := g.SelectWithExclusionResult(&nt, e.Strict, excl)
	if nt != ntCopy {
		return w.viol(step, "select-mutates-argument", "SelectWithExclusionResult modified the caller's network type", gi, e.T)
	}
	if (d == nil) == (err == nil) {
		return w.viol(step, "select-nil-contract", fmt.Sprintf("returned dialer=%s err=%v", w.name(d), err), gi, e.T)
	}
	pname := string(pol.Policy)
	w.cnt("select/" + pname)
	if pol.Policy == consts.DialerSelectionPolicy_Fixed {
		if pol.FixedIndex >= 0 && pol.FixedIndex < len(mem) {
			if d != mem[pol.FixedIndex] {
				return w.viol(step, "fixed-wrong-node", fmt.Sprintf("fixed(%d) returned %s err=%v", pol.FixedIndex, w.name(d), err), gi, -1)
			}
			w.cnt("select_fixed_in_range")
			nta := c15NT(e.T)
			if !d.MustGetAlive(&nta) {
				w.cnt("select_fixed_returns_dead_node_as_configured")
			}
			if d == excl {
				w.cnt("select_fixed_returns_excluded_as_configured")
			}
		} else {
			if err == nil {
				return w.viol(step, "fixed-out-of-range-returns-node", fmt.Sprintf("fixed(%d) on %d nodes returned %s", pol.FixedIndex, len(mem), w.name(d)), gi, -1)
			}
			w.cnt("select_fixed_out_of_range_error")
		}
		if w.distinct != nil {
			w.distinct("fixed|select|" + fmt.Sprint(pol.FixedIndex >= 0 && pol.FixedIndex < len(mem)))
		}
		return nil
	}
	// tried types in documented order
	fam := e.T % 2
	var tried []int
	var level []string
	addFam := func(f int, tag string) {
		tried = append(tried, (e.T/2)*2+f)
		level = append(level, tag+"primary")
		if e.T/2 == 2 {
			tried = append(tried, 1*2+f, 0*2+f)
			level = append(level, tag+"dnsudp", tag+"tcp")
		}
	}
	addFam(fam, "")
	if !e.Strict {
		addFam(1-fam, "otherfamily-")
	}
	first := -1
	onlyExcludedAlive := false
	for k, t := range tried {
		alive, cands := w.candidates(gi, t, excl)
		if len(cands) > 0 {
			first = k
			break
		}
		if len(alive) > 0 {
			onlyExcludedAlive = true
		}
	}
	tol := w.h.Groups[gi].Tol
	sigBase := fmt.Sprintf("%s|select|tol%v|excl%v|strict%v|", pname, tol, excl != nil, e.Strict)
	if first < 0 {
		// no non-excluded alive node in any tried type
		switch {
		case errors.Is(err, ErrNoAliveDialer):
			w.cnt("select_noalive_reported")
			if onlyExcludedAlive {
				w.cnt("select_noalive_only_alive_node_is_excluded")
			}
			if w.distinct != nil {
				w.distinct(sigBase + "noalive")
			}
		case err == nil && len(mem) == 1 && d == mem[0]:
			w.cnt("select_single_node_last_resort")
			if d == excl {
				w.cnt("select_single_node_last_resort_is_excluded")
			}
			if w.distinct != nil {
				w.distinct(sigBase + "lastresort")
			}
		case err == nil && d == excl:
			return w.viol(step, "excluded-returned", fmt.Sprintf("%s returned the excluded node %s in a %d-node group", pname, w.name(d), len(mem)), gi, e.T)
		case err == nil && e.Strict && w.onlyOtherFamily(d, tried, fam):
			return w.viol(step, "family-fallback-when-strict", fmt.Sprintf("%s returned %s, alive only for the other IP family, although strictIpVersion was requested (tried %v)", pname, w.name(d), c15Names(tried)), gi, e.T)
		case err == nil:
			return w.viol(step, "dead-node-returned", fmt.Sprintf("%s returned %s which is not recorded alive for any tried type %v (it is alive for %v)", pname, w.name(d), c15Names(tried), w.aliveFor(d)), gi, e.T)
		default:
			return w.viol(step, "select-unexpected-error", fmt.Sprintf("error %v", err), gi, e.T)
		}
		return nil
	}
	ft := tried[first]
	_, cands := w.candidates(gi, ft, excl)
	if err != nil {
		if errors.Is(err, ErrNoAliveDialer) {
			return w.viol(step, "noalive-while-alive-exists/"+level[first], fmt.Sprintf("%s reported no alive dialer although %s has non-excluded alive nodes %s",
				pname, c15TypeNames[ft], w.names(cands)), gi, ft)
		}
		return w.viol(step, "select-unexpected-error", fmt.Sprintf("error %v", err), gi, ft)
	}
	if !c15In(cands, d) {
		switch {
		case d == excl:
			return w.viol(step, "excluded-returned", fmt.Sprintf("%s returned the excluded node %s in a %d-node group", pname, w.name(d), len(mem)), gi, ft)
		}
		for k, t := range tried {
			if _, c := w.candidates(gi, t, excl); c15In(c, d) {
				return w.viol(step, "fallback-order/"+level[k]+"-before-"+level[first], fmt.Sprintf("%s returned %s (alive for %s) although the earlier type %s has non-excluded alive nodes %s",
					pname, w.name(d), c15TypeNames[t], c15TypeNames[ft], w.names(cands)), gi, ft)
			}
		}
		return w.viol(step, "dead-node-returned", fmt.Sprintf("%s returned %s which is not recorded alive for %s (candidates %s)", pname, w.name(d), c15TypeNames[ft], w.names(cands)), gi, ft)
	}
	w.cnt("select_level/" + level[first])
	if excl != nil && c15In(mem, excl) {
		w.cnt("select_with_member_excluded")
	}
	if w.distinct != nil {
		w.distinct(sigBase + level[first])
	}
	if !c15IsMin(pol.Policy) {
		w.cnt("select_random_alive")
		return nil
	}
	// min policies: nobody with a measurement beats the pick by the tolerance or more
	ntf := c15NT(ft)
	set := g.MustGetAliveDialerSet(&ntf)
	st := set.VerifState()
	if !w.measured(d, ft) {
		w.cnt("select_min_pick_without_measurement_unjudged")
		return nil
	}
	sd := set.SortingLatency(d)
	for _, q := range cands {
		if q == d || !w.measured(q, ft) {
			continue
		}
		sq := set.SortingLatency(q)
		if sq < sd && sd-sq >= tol {
			return w.viol(step, "select-min-beaten-by-tolerance", fmt.Sprintf("%s (tolerance %v) returned %s with sorting latency %v although alive measured %s has %v",
				pname, tol, w.name(d), sd, w.name(q), sq), gi, ft)
		}
		if sq == sd {
			w.cnt("select_min_tie_unjudged")
		}
	}
	w.cnt("select_min_relation_checked")
	if excl != nil && excl == st.MinDialer {
		w.cnt("select_min_best_is_excluded_next_best_taken")
	}
	return nil
}

// onlyOtherFamily: d is recorded alive for a type the non-strict fallback
// would have tried in the other family, and for no type of the requested family.
func (w *c15World) onlyOtherFamily(d *dialer.Dialer, tried []int, fam int) bool {
	for dom := 0; dom < 3; dom++ {
		nt := c15NT(dom*2 + fam)
		if d.MustGetAlive(&nt) {
			return false
		}
	}
	for _, t := range tried {
		nt := c15NT(t ^ 1)
		if d.MustGetAlive(&nt) {
			return true
		}
	}
	return false
}

// aliveFor lists the types d is recorded alive for (diagnostics).
func (w *c15World) aliveFor(d *dialer.Dialer) []string {
	var l []string
	for t := 0; t < 6; t++ {
		nt := c15NT(t)
		if d.MustGetAlive(&nt) {
			l = append(l, c15TypeNames[t])
		}
	}
	return l
}

func c15Names(ts []int) []string {
	var l []string
	for _, t := range ts {
		l = append(l, c15TypeNames[t])
	}
	return l
}

func (w *c15World) names(ds []*dialer.Dialer) string {
	var l []string
	for _, d := range ds {
		l = append(l, w.name(d))
	}
	return "[" + strings.Join(l, " ") + "]"
}

// ---- state relations after every event -----------------------------------------------------

func (w *c15World) checkState(step int, e c15Ev) *c15Viol {
	for gi, g := range w.groups {
		pol := w.policy[gi]
		if pol.Policy == consts.DialerSelectionPolicy_Fixed {
			continue
		}
		tol := w.h.Groups[gi].Tol
		mem := w.members(gi)
		for t := 0; t < 6; t++ {
			nt := c15NT(t)
			set := g.MustGetAliveDialerSet(&nt)
			if set == nil {
				return w.viol(step, "no-alive-set-for-type", "group with a non-fixed policy has no alive set for "+c15TypeNames[t], gi, -1)
			}
			st := set.VerifState()
			if st.Policy != pol.Policy || st.Tolerance != tol {
				return w.viol(step, "set-policy-or-tolerance-differs", fmt.Sprintf("set has policy %v tolerance %v, group %v %v", st.Policy, st.Tolerance, pol.Policy, tol), gi, t)
			}
			// R1: aliveEntries <-> dialerToIndex bijection, and agreement with the node's own alive record
			seen := map[*dialer.Dialer]bool{}
			for i, en := range st.Entries {
				if idx, ok := st.Index[en.Dialer]; !ok || idx != i || seen[en.Dialer] || !c15In(mem, en.Dialer) {
					return w.viol(step, "index-bijection", fmt.Sprintf("aliveEntries[%d]=%s but dialerToIndex says %d (known=%v, duplicate=%v)", i, w.name(en.Dialer), idx, ok, seen[en.Dialer]), gi, t)
				}
				seen[en.Dialer] = true
			}
			if len(st.Index) != len(seenSet(mem)) {
				return w.viol(step, "index-bijection", fmt.Sprintf("dialerToIndex has %d keys for %d distinct nodes", len(st.Index), len(seenSet(mem))), gi, t)
			}
			for _, d := range mem {
				idx, ok := st.Index[d]
				if !ok || idx >= len(st.Entries) || (idx >= 0 && st.Entries[idx].Dialer != d) {
					return w.viol(step, "index-bijection", fmt.Sprintf("dialerToIndex[%s]=%d (known=%v) does not point at its aliveEntries slot (len %d)", w.name(d), idx, ok, len(st.Entries)), gi, t)
				}
				if d.MustGetAlive(&nt) != (idx >= 0) {
					return w.viol(step, "set-alive-differs-from-node-record", fmt.Sprintf("%s: node records alive=%v for %s but the group's alive set index is %d",
						w.name(d), d.MustGetAlive(&nt), c15TypeNames[t], idx), gi, t)
				}
			}
			if set.Len() != len(st.Entries) {
				return w.viol(step, "index-bijection", "Len() differs from aliveEntries", gi, t)
			}
			// R3: the cached best node is alive
			if st.MinDialer != nil {
				if idx, ok := st.Index[st.MinDialer]; !ok || idx < 0 {
					return w.viol(step, "best-not-alive", fmt.Sprintf("minLatency.dialer=%s is not in aliveEntries", w.name(st.MinDialer)), gi, t)
				}
			}
			if !c15IsMin(pol.Policy) {
				delete(w.prev, set)
				continue
			}
			// R2: cached sorting latency == recorded latency + offset (0 while no measurement)
			for k, en := range st.Entries {
				lat, has := st.Latency[en.Dialer]
				meas := w.measured(en.Dialer, t)
				if has != meas {
					return w.viol(step, "measurement-presence", fmt.Sprintf("%s: measurement fed=%v but dialerToLatency present=%v", w.name(en.Dialer), meas, has), gi, t)
				}
				want := time.Duration(0)
				if has {
					want = lat + st.Offset[en.Dialer]
				}
				if en.SortingLatency != want {
					return w.viol(step, "cached-sorting-latency-stale", fmt.Sprintf("aliveEntries[%d] %s caches %v, dialerToLatency+offset=%v", k, w.name(en.Dialer), en.SortingLatency, want), gi, t)
				}
				if set.SortingLatency(en.Dialer) != en.SortingLatency {
					return w.viol(step, "cached-sorting-latency-stale", "SortingLatency() differs from the cached entry", gi, t)
				}
				if meas && !w.punished[w.nodeIdx[en.Dialer]] {
					off := time.Duration(0)
					for mk, ni := range w.h.Groups[gi].Members {
						if w.nodes[ni] == en.Dialer {
							off = w.h.Groups[gi].Offsets[mk]
							break
						}
					}
					if exp := w.measure(pol.Policy, en.Dialer, t) + off; exp != en.SortingLatency {
						return w.viol(step, "sorting-latency-differs-from-measurement-plus-offset", fmt.Sprintf("%s under %v: cached %v, recomputed measurement+add_latency %v (no failure so far: no penalty)",
							w.name(en.Dialer), pol.Policy, en.SortingLatency, exp), gi, t)
					}
					w.cnt("sorting_latency_recomputed_independently")
				} else if meas {
					w.cnt("sorting_latency_taken_from_dae_possible_penalty")
				}
			}
			p := st.MinDialer
			if p == nil && len(st.Entries) > 0 {
				w.cnt("best_nil_with_alive_entries_recorded")
				// Without a cached best every selection falls back to the plain minimum, which knows no
				// tolerance: the choice then flips for any improvement however small. A latency policy
				// must therefore hold a best node whenever an alive node has a measurement.
				for _, en := range st.Entries {
					if w.measured(en.Dialer, t) {
						return w.viol(step, "no-best-although-measured-node-alive", fmt.Sprintf("%s tolerance %v: the set caches no best node although alive %s has a measurement (sorting latency %v, cached threshold %v) after %s; selections fall back to the plain minimum and ignore the tolerance",
							pol.Policy, tol, w.name(en.Dialer), en.SortingLatency, st.MinSorting, e.String()), gi, t)
					}
				}
			}
			sortOf := func(d *dialer.Dialer) time.Duration { return st.Entries[st.Index[d]].SortingLatency }
			if p != nil && w.measured(p, t) {
				if st.MinSorting != sortOf(p) {
					return w.viol(step, "best-latency-stale", fmt.Sprintf("minLatency caches %v for %s whose sorting latency is %v", st.MinSorting, w.name(p), sortOf(p)), gi, t)
				}
				// R4: no alive node with a measurement beats the best by the tolerance or more
				for _, en := range st.Entries {
					q := en.Dialer
					if q == p || !w.measured(q, t) {
						continue
					}
					if en.SortingLatency < sortOf(p) && sortOf(p)-en.SortingLatency >= tol {
						return w.viol(step, "best-beaten-by-tolerance", fmt.Sprintf("%s tolerance %v: best is %s at %v although alive measured %s is at %v (after %s)",
							pol.Policy, tol, w.name(p), sortOf(p), w.name(q), en.SortingLatency, e.K), gi, t)
					}
				}
				w.cnt("best_relation_checked")
			} else if p != nil {
				w.cnt("best_without_measurement_unjudged")
			}
			// R5: the best changes only for a licensed cause
			pv, had := w.prev[set]
			cause := ""
			if had && pv.policy == pol.Policy && pv.pick != nil && p != pv.pick && e.K != "set_policy" {
				p0 := pv.pick
				switch {
				case st.Index[p0] < 0:
					cause = "previous-stopped-being-alive"
				case !pv.measured:
					cause = "previous-had-no-measurement"
				case p == nil:
					return w.viol(step, "best-dropped-while-alive", fmt.Sprintf("best was %s (still alive) and became nil", w.name(p0)), gi, t)
				case sortOf(p) == sortOf(p0):
					cause = "tie-unjudged"
				case sortOf(p) < sortOf(p0) && sortOf(p0)-sortOf(p) >= tol:
					cause = "better-by-tolerance"
				case sortOf(p) < sortOf(p0) && sortOf(p0) < tol:
					cause = "better-while-current-below-tolerance"
				default:
					return w.viol(step, "unlicensed-switch", fmt.Sprintf("%s tolerance %v: best changed %s(%v) -> %s(%v) after %s although the old one is alive, measured and not beaten by the tolerance",
						pol.Policy, tol, w.name(p0), sortOf(p0), w.name(p), sortOf(p), e.String()), gi, t)
				}
				w.cnt("switch_cause/" + cause)
				if w.distinct != nil {
					w.distinct(fmt.Sprintf("%s|%s|%s|tol%v", pol.Policy, e.K, cause, tol))
				}
			} else if had && pv.pick != nil && p == pv.pick && e.K != "select" && w.distinct != nil {
				w.distinct(fmt.Sprintf("%s|%s|kept|tol%v", pol.Policy, e.K, tol))
			}
			w.prev[set] = c15Prev{pick: p, measured: p != nil && w.measured(p, t), policy: pol.Policy}
		}
	}
	return nil
}

func seenSet(l []*dialer.Dialer) map[*dialer.Dialer]bool {
	m := map[*dialer.Dialer]bool{}
	for _, d := range l {
		m[d] = true
	}
	return m
}

// ---- replay -------------------------------------------------------------------------------

func c15Replay(h *c15Hist, count func(string), distinct func(string)) (v *c15Viol) {
	var w *c15World
	step := -1
	defer func() {
		if r := recover(); r != nil {
			v = &c15Viol{Sig: "panic", What: fmt.Sprint(r), Step: step, Detail: map[string]any{}}
		}
		if w != nil {
			w.close()
		}
	}()
	w = c15NewWorld(h)
	w.count, w.distinct = count, distinct
	if v := w.checkState(-1, c15Ev{K: "init"}); v != nil {
		return v
	}
	for i, e := range h.Ev {
		step = i
		if v := w.apply(i, e); v != nil {
			return v
		}
		if e.K != "select" {
			w.cnt("event/" + e.K)
			if v := w.checkState(i, e); v != nil {
				return v
			}
		}
	}
	if count != nil {
		for gi := range w.cb {
			for t := 0; t < 6; t++ {
				for k := 0; k < w.cb[gi][t]; k++ {
					count("alive_change_callbacks_recorded")
				}
			}
		}
	}
	return nil
}

// ---- generator --------------------------------------------------------------------------------

var c15Lat = []time.Duration{time.Millisecond, 10 * time.Millisecond, 49 * time.Millisecond, 50 * time.Millisecond, 51 * time.Millisecond,
	60 * time.Millisecond, 99 * time.Millisecond, 100 * time.Millisecond, 101 * time.Millisecond, 110 * time.Millisecond, 150 * time.Millisecond,
	200 * time.Millisecond, time.Second, 9 * time.Second, 10 * time.Second, 11 * time.Second, 20 * time.Second, 100*time.Millisecond + 1, 100*time.Millisecond - 1}
var c15Off = []time.Duration{0, 0, 0, 50 * time.Millisecond, -50 * time.Millisecond, -500 * time.Millisecond, time.Second, 10 * time.Millisecond, -10 * time.Millisecond, time.Millisecond}
var c15Tol = []time.Duration{0, time.Millisecond, 50 * time.Millisecond, 10 * time.Second}
var c15Policies = []string{"random", "fixed", "min", "min_avg10", "min_moving_avg"}

func c15Gen(r *rand.Rand) *c15Hist {
	h := &c15Hist{}
	switch k := r.IntN(20); {
	case k < 3:
		h.Nodes = 1
	case k < 7:
		h.Nodes = 2
	default:
		h.Nodes = 3 + r.IntN(4)
	}
	ng := 1
	if r.IntN(5) == 0 {
		ng = 2
	}
	pol := func() (string, int) { // policy, fixed index
		p := c15Policies[r.IntN(len(c15Policies))]
		if r.IntN(3) != 0 {
			p = c15Policies[2+r.IntN(3)] // bias to the latency policies
		}
		return p, r.IntN(h.Nodes+2) - 1
	}
	for g := 0; g < ng; g++ {
		gs := c15GroupSpec{Tol: c15Tol[r.IntN(len(c15Tol))]}
		if ng == 1 || r.IntN(2) == 0 {
			for i := 0; i < h.Nodes; i++ {
				gs.Members = append(gs.Members, i)
			}
		} else {
			for i := 0; i < h.Nodes; i++ {
				if r.IntN(2) == 0 {
					gs.Members = append(gs.Members, i)
				}
			}
			if len(gs.Members) == 0 {
				gs.Members = []int{r.IntN(h.Nodes)}
			}
		}
		r.Shuffle(len(gs.Members), func(i, j int) { gs.Members[i], gs.Members[j] = gs.Members[j], gs.Members[i] })
		for range gs.Members {
			gs.Offsets = append(gs.Offsets, c15Off[r.IntN(len(c15Off))])
		}
		gs.Policy, gs.Fixed = pol()
		h.Groups = append(h.Groups, gs)
	}
	// a focus keeps the events of one history interacting on few (node, type) cells
	focusFam := r.IntN(2)
	// the documented data-UDP admission chain: data-udp, dns-udp, tcp of the
	// requested family, then the same of the other family
	chain := []int{4 + focusFam, 2 + focusFam, 0 + focusFam, 4 + (1 - focusFam), 2 + (1 - focusFam), 0 + (1 - focusFam)}
	focusTypes := []int{r.IntN(3)*2 + focusFam, r.IntN(6)}
	survivor := -1
	switch r.IntN(4) {
	case 0:
		focusTypes = chain[:3]
	case 1, 2:
		// everything before chain[survivor] starts dead for (almost) all nodes and the
		// later events concentrate on the survivor and its successor
		survivor = r.IntN(6)
		focusTypes = []int{chain[survivor], chain[min(survivor+1, 5)], chain[survivor]}
	}
	pickT := func() int {
		if r.IntN(10) < 8 {
			return focusTypes[r.IntN(len(focusTypes))]
		}
		return r.IntN(6)
	}
	pickN := func() int { return r.IntN(h.Nodes) }
	sel := func() c15Ev {
		e := c15Ev{K: "select", G: r.IntN(ng), T: pickT(), Strict: r.IntN(2) == 0, Excl: -1, Variant: 0}
		if r.IntN(10) < 4 {
			e.T = 4 + r.IntN(2)
		}
		if survivor >= 0 && r.IntN(10) < 6 {
			e.T = chain[0]
		}
		if r.IntN(10) < 6 {
			e.Excl = pickN()
		}
		if r.IntN(8) == 0 {
			e.Variant = 1
		}
		return e
	}
	L := 50 + r.IntN(351)
	// prelude: start with whole types dead so that the fallbacks are reachable
	for k := 0; k < survivor; k++ {
		for n := 0; n < h.Nodes; n++ {
			if r.IntN(12) != 0 {
				h.Ev = append(h.Ev, c15Ev{K: "forced_dead", N: n, T: chain[k]})
			}
		}
	}
	for len(h.Ev) < L {
		k := r.IntN(100)
		var e c15Ev
		switch {
		case k < 52:
			e = c15Ev{K: "sample", N: pickN(), T: pickT(), Lat: c15Lat[r.IntN(len(c15Lat))]}
		case k < 70:
			e = c15Ev{K: "forced_dead", N: pickN(), T: pickT()}
		case k < 78:
			e = c15Ev{K: "probe_fail", N: pickN(), T: pickT()}
		case k < 81:
			e = c15Ev{K: "traffic_fail", N: pickN(), T: pickT()}
		case k < 88:
			e = c15Ev{K: "traffic_alive", N: pickN(), T: 4 + r.IntN(2)}
		case k < 91:
			e = c15Ev{K: "reload_alive", N: pickN(), T: pickT()}
		default:
			e = c15Ev{K: "set_policy", G: r.IntN(ng)}
			e.Policy, e.Fixed = pol()
		}
		h.Ev = append(h.Ev, e)
		for n := r.IntN(4); n > 0; n-- {
			h.Ev = append(h.Ev, sel())
		}
	}
	return h
}

// c15Minimize drops events (chunks first) while the same structural signature fires.
func c15Minimize(h *c15Hist, sig string) *c15Hist {
	cur := *h
	cur.Ev = append([]c15Ev(nil), h.Ev...)
	if v := c15Replay(&cur, nil, nil); v != nil && v.Sig == sig && v.Step+1 < len(cur.Ev) {
		cur.Ev = cur.Ev[:v.Step+1]
	}
	budget := 3000
	try := func(i, chunk int) bool {
		q := cur
		q.Ev = append(append([]c15Ev(nil), cur.Ev[:i]...), cur.Ev[i+chunk:]...)
		budget--
		if v := c15Replay(&q, nil, nil); v != nil && v.Sig == sig {
			cur = q
			return true
		}
		return false
	}
	for chunk := len(cur.Ev) / 2; chunk >= 1 && budget > 0; chunk /= 2 {
		for i := 0; i+chunk <= len(cur.Ev) && budget > 0; {
			if !try(i, chunk) {
				i += chunk
			}
		}
	}
	for changed := true; changed && budget > 0; {
		changed = false
		for i := 0; i < len(cur.Ev) && budget > 0; {
			if try(i, 1) {
				changed = true
			} else {
				i++
			}
		}
	}
	return &cur
}

func TestVerifC15(t *testing.T) {
	m := vk.NewMonitor("C15", "main", "exploration",
		"generated histories (50-400 events) over 1-6 real dialer nodes in 1-2 real DialerGroups: latency samples through markAvailable+informDialerGroupUpdate, forced/probe/traffic failures, "+
			"traffic and reload revivals, run-time SetSelectionPolicy, selections (6 network types, strict/non-strict, with/without exclusion); "+
			"distinct = (policy, event kind, cause of a best-node switch or 'kept', tolerance) and (policy, selection fallback level, tolerance, exclusion, strictness); all of them are non-trivial by construction (a relation was evaluated on a populated group)")
	m.SetFloor(150)
	m.Assume("'recorded alive' is the node's own per-type record (Dialer.MustGetAlive); the alive sets are additionally required to agree with it after every event",
		"'sort' is dae's own cached sorting latency (it contains an undocumented recovery penalty after failures); measurement+add_latency is recomputed independently (min: last sample, min_avg10: mean of last <=10) only for nodes that never saw a non-forced failure; min_moving_avg's recurrence is read from the node",
		"latency samples enter through c15_verif_bridge.go VerifProbeSuccess = the two calls Dialer.check makes after a successful probe (markAvailable, informDialerGroupUpdate); Dialer.check itself measures wall-clock time and is not driven",
		"ties (equal sorting latencies) and picks without a measurement are counted, not judged; the generated histories run on a single goroutine",
		"concurrent class (c15_concurrent_verif_test.go): reports from several goroutines and run-time policy switches are released together and judged only at quiescence (all goroutines returned, no timing): the set's sorting latency of every alive node must equal the node's own current measure under the policy in force + add_latency, and the selected node must not be beaten by the tolerance or more on the nodes' own measures; only samples, forced deaths and traffic revivals are reported there, so the recovery penalty is zero",
		"dae has three latency policies (min, min_avg10, min_moving_avg) plus fixed and random; the property text says four")
	r := vk.NewRand(0xC15)
	n := vk.Scale(2000, 60000)
	reported := map[string]bool{}
	for i := 0; i < n && m.Violations() < 5; i++ {
		h := c15Gen(r)
		v := c15Replay(h, func(s string) { m.Count(s, 1) }, m.Distinct)
		m.Eval(len(h.Ev))
		m.Count("histories", 1)
		if v == nil {
			if m.WantSample() && i%97 == 0 {
				var evs []string
				for _, e := range h.Ev[:min(len(h.Ev), 25)] {
					evs = append(evs, e.String())
				}
				m.Sample(map[string]any{"nodes": h.Nodes, "groups": h.Groups, "first_events": evs, "events": len(h.Ev)})
			}
			continue
		}
		if reported[v.Sig] {
			m.Count("further_witnesses/"+v.Sig, 1)
			continue
		}
		reported[v.Sig] = true
		mh := c15Minimize(h, v.Sig)
		v2 := c15Replay(mh, nil, nil)
		if v2 == nil || v2.Sig != v.Sig {
			mh, v2 = h, v
		}
		var evs []string
		for _, e := range mh.Ev {
			evs = append(evs, e.String())
		}
		m.Violation(v2.Sig, v2.What, map[string]any{"nodes": mh.Nodes, "groups": mh.Groups, "events": evs, "failing_step": v2.Step,
			"detail": v2.Detail, "history": mh, "original_events": len(h.Ev)})
	}
	c15ConcurrentClass(m, vk.NewRand(0xC15C))
	m.Require("select/random", "select/fixed", "select/min", "select/min_avg10", "select/min_moving_avg",
		"select_level/primary", "select_level/dnsudp", "select_level/tcp", "select_level/otherfamily-primary", "select_level/otherfamily-dnsudp", "select_level/otherfamily-tcp",
		"select_noalive_reported", "select_single_node_last_resort", "select_with_member_excluded", "select_min_relation_checked", "select_min_best_is_excluded_next_best_taken",
		"select_fixed_in_range", "select_fixed_out_of_range_error", "select_fixed_returns_excluded_as_configured",
		"best_relation_checked", "sorting_latency_recomputed_independently", "sorting_latency_taken_from_dae_possible_penalty",
		"switch_cause/previous-stopped-being-alive", "switch_cause/previous-had-no-measurement", "switch_cause/better-by-tolerance", "switch_cause/better-while-current-below-tolerance",
		"event/sample", "event/forced_dead", "event/probe_fail", "event/traffic_alive", "event/set_policy")
	m.Done(t)
}
