# sourced by the /verif scripts
export VERIF_DIR="${VERIF_DIR:-$(cd "$(dirname "${BASH_SOURCE[0]}")/.." && pwd)}"
export VERIF_REPO="${VERIF_REPO:-/repo}"
export GOFLAGS=-mod=mod GOPROXY=off GOSUMDB=off GOTOOLCHAIN=local
export GOGC="${GOGC:-100}"
GO="${VERIF_GO:-go1.26}"
export VERIF_BUILD="${VERIF_BUILD:-$VERIF_DIR/build}"
BUILD="$VERIF_BUILD"
EVID="${VERIF_EVIDENCE_DIR:-$VERIF_DIR/evidence}"
mkdir -p "$BUILD/bin" "$BUILD/logs" "$BUILD/parts" "$BUILD/replay" "$BUILD/run" "$EVID"
