#!/usr/bin/env python3
# merge evidence parts written by sub-monitors of one property into evidence/<id>.json
import json, os, sys, time
pid, t0, out = sys.argv[1], float(sys.argv[2]), sys.argv[3]
parts = [json.load(open(p)) for p in sys.argv[4:]]
cov = {"evaluations": 0, "distinct_nontrivial": 0, "rule": "", "samples": [], "parts": {}}
rules, assumptions, viol = [], [], 0
for p, path in zip(parts, sys.argv[4:]):
    name = path.rsplit("/", 1)[-1][len(pid) + 1:-5]
    c = p["coverage"]
    cov["evaluations"] += c.get("evaluations", 0)
    cov["distinct_nontrivial"] += c.get("distinct_nontrivial", 0)
    rules.append("[%s] %s" % (name, c.get("rule", "")))
    cov["samples"] += [{"part": name, "case": s} for s in c.get("samples", [])[:3]]
    cov["parts"][name] = {k: v for k, v in c.items() if k not in ("samples", "rule")}
    cov["parts"][name]["wall_s"] = p.get("wall_s")
    for k in ("programs", "disagreements_checked", "states", "transitions", "traces_validated_against_impl"):
        if isinstance(c.get(k), int):
            cov[k] = cov.get(k, 0) + c[k]
    if "exhaustive" in c:
        cov["exhaustive"] = cov.get("exhaustive", True) and bool(c["exhaustive"])
    for a in p.get("assumptions", []):
        if a not in assumptions:
            assumptions.append(a)
    viol += p.get("violations", 0)
    if "inconclusive" in c:
        cov.setdefault("inconclusive", []).extend(c["inconclusive"])
cov["rule"] = " ;; ".join(rules)
ev = {"property_id": pid, "tier": os.environ.get("VERIF_TIER") or parts[0]["tier"], "seed": parts[0]["seed"], "level": parts[0]["level"],
      "coverage": cov, "assumptions": assumptions, "wall_s": time.time() - t0, "violations": viol}
json.dump(ev, open(out, "w"), indent=1)
