#!/usr/bin/env python3
"""usage: race_summary.py <ID> <seed> <out part json> <race log files...>
Deduplicates the race detector's reports of the race pass (by the pair of innermost dae frames,
line numbers stripped) and writes them as an evidence part. Observations only: not a verdict."""
import json, re, sys
pid, seed, out = sys.argv[1], int(sys.argv[2]), sys.argv[3]
blocks = []
for f in sys.argv[4:]:
    try:
        txt = open(f, errors="replace").read()
    except OSError:
        continue
    blocks += [b for b in txt.split("==================") if "WARNING: DATA RACE" in b]
pairs = {}
for b in blocks:
    tops = []
    for sec in re.split(r"\n(?=(?:Read|Write|Previous read|Previous write|Atomic) )", b):
        if not re.match(r"(Read|Write|Previous read|Previous write)", sec.strip()):
            continue
        fn = None
        for m in re.finditer(r"^  (\S+)\(\)\n\s+(\S+?):\d+", sec, flags=re.M):
            name, path = m.group(1), m.group(2)
            if "_verif_test.go" in path or "/verifkit/" in path or path.startswith("/opt/") or "/go1." in path:
                continue
            fn = name.replace("github.com/daeuniverse/dae/", "")
            break
        tops.append(fn or "(no dae frame)")
    key = " <-> ".join(sorted(tops[:2])) if tops else "(unparsed)"
    pairs[key] = pairs.get(key, 0) + 1
cov = {"evaluations": 0, "distinct_nontrivial": 0,
       "rule": "race detector reports of the race pass, deduplicated by the innermost dae frames of the two accesses; observations, not verdicts",
       "samples": [], "counters": {"race_reports": len(blocks), "race_reports_distinct": len(pairs)},
       "race_report_pairs": pairs}
json.dump({"property_id": pid, "tier": "quick", "seed": seed, "level": "exploration", "coverage": cov,
           "assumptions": [], "wall_s": 0, "violations": 0}, open(out, "w"), indent=1)
print("race pass: %d report(s), %d distinct" % (len(blocks), len(pairs)))
for k, v in sorted(pairs.items()):
    print("  race-observation: %s x%d" % (k, v))
