/* verif shim */
#include <errno.h>
