/* verif shim */
#ifdef VERIF_BPF_TARGET
#include <asm-generic/errno-base.h>
#include <asm-generic/errno.h>
#else
#include <errno.h>
#endif
