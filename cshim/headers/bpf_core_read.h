/* verif shim */
#ifndef VERIF_BPF_CORE_READ_H
#define VERIF_BPF_CORE_READ_H
#define BPF_CORE_READ(src, a, b) ((src) && (src)->a ? (src)->a->b : 0)
long verif_read_user_str(void *dst, int size, const void *unsafe_ptr);
#define bpf_core_read_user_str(dst, sz, src) verif_read_user_str(dst, sz, src)
#endif
