/* verif shim for the absent control/kern/headers/vmlinux.h: UAPI headers from
 * the build host plus the few kernel-internal bits tproxy.c names. */
#ifndef VERIF_VMLINUX_H
#define VERIF_VMLINUX_H
#include <stdbool.h>
#include <stddef.h>
#ifndef VERIF_BPF_TARGET
#include <string.h>
#endif
#include <linux/types.h>
#include <linux/bpf.h>
#include <linux/if_ether.h>
#include <linux/in.h>
#include <linux/in6.h>
#include <linux/ip.h>
#include <linux/ipv6.h>
#include <linux/tcp.h>
#include <linux/udp.h>
#include <linux/icmpv6.h>
#include <linux/pkt_cls.h>

typedef __u8 u8;
typedef __u16 u16;
typedef __u32 u32;
typedef __u64 u64;

#ifndef VERIF_BPF_TARGET
/* Native build: packets live in ordinary (red-zoned) heap buffers, so the skb
 * context needs 64-bit data pointers. Field names as in struct __sk_buff. */
struct vsk_buff {
	__u32 len;
	__u32 pkt_type;
	__u32 mark;
	__u32 queue_mapping;
	__u32 protocol;
	__u32 vlan_present;
	__u32 vlan_tci;
	__u32 vlan_proto;
	__u32 priority;
	__u32 ingress_ifindex;
	__u32 ifindex;
	__u32 tc_index;
	__u32 cb[5];
	__u32 hash;
	__u32 tc_classid;
	__u64 data;
	__u64 data_end;
	/* shim-private */
	void *verif_priv;
};
#define __sk_buff vsk_buff
#endif

struct frag_hdr {
	__u8 nexthdr;
	__u8 reserved;
	__be16 frag_off;
	__be32 identification;
};

struct mm_struct {
	unsigned long arg_start;
};
struct task_struct {
	struct mm_struct *mm;
};

#ifndef barrier
#define barrier() __asm__ __volatile__("" ::: "memory")
#endif
#endif
