/* verif shim: provided by vmlinux.h / bpf_helpers.h of this shim */
