#!/bin/bash
# usage: tools/seedcollect.sh <ID> <N>  : copy /tmp/seed<N>-<ID>/seed/* into seeded/, drop the worktree, verify + test each (serialised by a lock)
id="$1"; n="$2"; cd /verif
cp -r /tmp/seed$n-$id/seed/$id-* seeded/ || exit 1
names=$(ls /tmp/seed$n-$id/seed/ | grep "^$id-")
git -C /repo worktree remove --force /tmp/seed$n-$id; rm -f /tmp/seed$n-$id.prompt
lane=$(( 10#${id#C} % 4 )); for s in $names; do flock /tmp/seedcollect.lock.$lane tools/seedbatch.sh $s; done >> /tmp/sb$n.log 2>&1
