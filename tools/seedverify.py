#!/usr/bin/env python3
"""usage: seedverify.py <seed dir> [--checks C01,C04] [--skip-demo]
Confirms an independently written seeded change:
  1. its demonstration passes on the unchanged tree,
  2. the patch applies, the stub build of control/cmd works and the pinned suite passes,
  3. the demonstration fails with the patch applied,
then (optionally) runs /verif checks against the patched tree. Everything happens in a
scratch worktree of /repo HEAD that is removed afterwards. Results go to <seed dir>/verify.json.
"""
import json, os, re, subprocess, sys, shutil, time

seed = os.path.abspath(sys.argv[1])
checks = []
skip_demo = "--skip-demo" in sys.argv
for i, a in enumerate(sys.argv):
    if a == "--checks":
        checks = sys.argv[i + 1].split(",")
name = os.path.basename(seed)
meta = json.load(open(os.path.join(seed, "meta.json")))
env = dict(os.environ, GOFLAGS="-mod=mod", GOPROXY="off", GOSUMDB="off", GOTOOLCHAIN="local")
wt = "/tmp/sv-%s-%d" % (name, os.getpid())

def sh(cmd, cwd=None, timeout=1800):
    p = subprocess.run(cmd, shell=True, cwd=cwd, env=env, stdout=subprocess.PIPE, stderr=subprocess.STDOUT, text=True, timeout=timeout)
    return p.returncode, p.stdout

def demo_cmd():
    c = meta.get("demo_cmd", "")
    if isinstance(c, list):
        c = " && ".join(c)
    c = re.split(r"\s{2,}\(|\s{2,}#", c)[0]
    c = re.sub(r"^\(1\)\s*", "", c)
    c = re.sub(r"^(from|in) the worktree root:?\s*", "", c)
    c = re.split(r"\s+\(2\)\s+", c)[0]
    c = re.split(r"\s*;\s*optional\b[^:]*:", c)[0]
    c = re.sub(r"cd /tmp/(?:seed[2345]?|w7)-C\d\d\s*&&\s*", "", c)
    c = c.replace("/tmp/w7-%s" % meta["property"], wt).replace("/tmp/seed5-%s" % meta["property"], wt).replace("/tmp/seed4-%s" % meta["property"], wt).replace("/tmp/seed3-%s" % meta["property"], wt).replace("/tmp/seed2-%s" % meta["property"], wt).replace("/tmp/seed-%s" % meta["property"], wt)
    c = c.strip()
    if not re.search(r"\bcp\b|\bbash\b|\bsh\b", c):
        # the command does not place the demonstration files itself: place them where meta.json / the file header says
        cps = []
        blob = json.dumps(meta)
        for fn in sorted(os.listdir(seed)):
            if not fn.endswith("_test.go"):
                continue
            dst = None
            for txt in (blob, open(os.path.join(seed, fn), encoding="utf-8", errors="replace").read(1500)):
                mm = re.search(re.escape(fn) + r"[^A-Za-z]{0,8}(?:->|:)?\s*\\?\"?[^\"]{0,40}?\b(?:to|at|in|into)\s+`?((?:control|component|config|pkg|common|cmd)[\w/.-]*)", txt) or \
                     re.search(r"\b(?:[Cc]opy|[Pp]lace)[^\n\"]{0,60}?\b(?:to|at|in|into)\s+`?((?:control|component|config|pkg|common|cmd)[\w/.-]*)", txt)
                if mm:
                    dst = mm.group(1).rstrip(".")
                    break
            if dst:
                if not dst.endswith("_test.go"):
                    dst = dst.rstrip("/") + "/" + fn
                cps.append("cp seed/%s/%s %s" % (name, fn, dst))
        if cps:
            c = " && ".join(cps) + " && ( " + c + " )"
    m = re.match(r"^(.*?)\s*;\s*(rm\s+[^;&|]+)$", c, flags=re.S)
    if m:  # keep the test's exit code, not rm's
        c = "( %s ); rc=$?; %s; exit $rc" % (m.group(1), m.group(2))
    return c

res = {"seed": name, "property": meta["property"], "title": meta.get("title"), "repo_head": subprocess.check_output(["git", "-C", "/repo", "log", "--format=%h", "-1"], text=True).strip()}
subprocess.check_call(["git", "-C", "/repo", "worktree", "add", "--detach", wt], stdout=subprocess.DEVNULL, stderr=subprocess.DEVNULL)
try:
    os.makedirs(os.path.join(wt, "seed"), exist_ok=True)
    shutil.copytree(seed, os.path.join(wt, "seed", name), dirs_exist_ok=True)
    if os.path.isdir(os.path.join(seed, "sim")):  # helper tree shared by a seeding agent's demos (expected at seed/sim)
        shutil.copytree(os.path.join(seed, "sim"), os.path.join(wt, "seed", "sim"), dirs_exist_ok=True)
    def shared():
        sh_dir = os.path.join(seed, "_shared")  # helper trees a seeding agent shared between its demos (expected at seed/<name>)
        if os.path.isdir(sh_dir):
            for n in os.listdir(sh_dir):
                shutil.copytree(os.path.join(sh_dir, n), os.path.join(wt, "seed", n), dirs_exist_ok=True)
    shared()
    def relocate():
        # demonstration scripts may name the agent's own worktree: point them at this one
        for dp, _, fns in os.walk(os.path.join(wt, "seed")):
            for fn in fns:
                fp = os.path.join(dp, fn)
                try:
                    if os.path.getsize(fp) > 2 << 20:
                        continue
                    t = open(fp, encoding="utf-8").read()
                except (OSError, UnicodeDecodeError):
                    continue
                t2 = t
                for pre in ("/tmp/w7-", "/tmp/seed5-", "/tmp/seed4-", "/tmp/seed3-", "/tmp/seed2-", "/tmp/seed-"):
                    t2 = t2.replace(pre + meta["property"], wt)
                if t2 != t:
                    open(fp, "w", encoding="utf-8").write(t2)
    relocate()
    dc = demo_cmd()
    res["demo_cmd_used"] = dc
    if not skip_demo:
        rc, out = sh(dc, cwd=wt)
        res["demo_without_patch_rc"] = rc
        res["demo_without_patch_tail"] = out[-1500:]
        sh("git checkout -- . ; git clean -fdq -e seed", cwd=wt)
        shutil.copytree(seed, os.path.join(wt, "seed", name), dirs_exist_ok=True)
        if os.path.isdir(os.path.join(seed, "sim")):
            shutil.copytree(os.path.join(seed, "sim"), os.path.join(wt, "seed", "sim"), dirs_exist_ok=True)
        shared()
        relocate()
    rc, out = sh("git apply seed/%s/patch.diff" % name, cwd=wt)
    res["patch_applies"] = rc == 0
    if rc != 0:
        res["patch_apply_output"] = out[-800:]
    else:
        rc, out = sh("go1.26 build -tags dae_stub_ebpf ./control/ ./cmd/", cwd=wt)
        res["stub_build_ok"] = rc == 0
        rc, out = sh("go1.26 test -mod=mod -vet=off -count=1 ./common/... ./component/... ./config/... ./pkg/... 2>&1 | grep -v '^ok\\|no test files' ", cwd=wt)
        res["pinned_suite_output_nonok_lines"] = out[-800:]
        res["pinned_suite_pass"] = out.strip() == ""  # every line must be an "ok" (or "no test files") line
        if not skip_demo:
            rc, out = sh(dc, cwd=wt)
            res["demo_with_patch_rc"] = rc
            res["demo_with_patch_tail"] = out[-1500:]
            res["demo_confirms"] = (res.get("demo_without_patch_rc") == 0 and rc != 0)
finally:
    subprocess.call(["git", "-C", "/repo", "worktree", "remove", "--force", wt], stdout=subprocess.DEVNULL, stderr=subprocess.DEVNULL)
    shutil.rmtree(wt, ignore_errors=True)
json.dump(res, open(os.path.join(seed, "verify.json"), "w"), indent=1)
print(json.dumps({k: v for k, v in res.items() if not k.endswith("_tail") and k != "pinned_suite_output_nonok_lines"}, indent=1))
