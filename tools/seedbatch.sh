#!/bin/bash
# usage: tools/seedbatch.sh <seed-name> : verify + run own property's check (+ extra related checks)
n="$1"; id="${n%%-*}"
cd /verif
extra=""
case "$id" in C01) extra=",C04";; C04) extra=",C01";; C02) extra=",C01,C12";; C12) extra=",C01,C02";; C05) extra=",C06";; C06) extra=",C05";; C08) extra=",C10";; C10) extra=",C08";; C19) extra=",C03";; C20) extra="";; esac
[ -f seeded/$n/verify.json ] && grep -q '"demo_confirms": true' seeded/$n/verify.json || python3 tools/seedverify.py seeded/$n > /tmp/sb-$n.verify 2>&1
rm -f seeded/$n/results.txt
tools/seedtest seeded/$n "$id$extra" > /tmp/sb-$n.test 2>&1
echo "done $n: $(grep -o '"demo_confirms": [a-z]*' seeded/$n/verify.json) $(grep '^== ' seeded/$n/results.txt | tr '\n' ' ')"
