#!/usr/bin/env python3
"""Regenerates seeded/README.md from seeded/*/meta.json, verify.json and results.txt."""
import glob, json, os, re
root = os.path.join(os.path.dirname(os.path.dirname(os.path.abspath(__file__))), "seeded")
rows = []
for d in sorted(glob.glob(os.path.join(root, "C*-*"))):
    n = os.path.basename(d)
    meta = json.load(open(os.path.join(d, "meta.json")))
    ver = json.load(open(os.path.join(d, "verify.json"))) if os.path.exists(os.path.join(d, "verify.json")) else {}
    res = open(os.path.join(d, "results.txt")).read() if os.path.exists(os.path.join(d, "results.txt")) else ""
    # last block only
    blocks = res.split("--- ")
    last = blocks[-1] if blocks else ""
    caught, missed, sigs = [], [], []
    for m in re.finditer(r"== (C\d\d) exit=(\d+)", last):
        (caught if m.group(2) == "1" else missed).append(m.group(1) + ("" if m.group(2) in "01" else "(exit %s)" % m.group(2)))
    for m in re.finditer(r"signature=([^:]+):", last):
        s = m.group(1).strip()
        if s not in sigs:
            sigs.append(s)
    rows.append((n, meta.get("title", ""), meta.get("needs_to_manifest", ""), ver, caught, missed, sigs[:3]))
with open(os.path.join(root, "README.md"), "w") as o:
    o.write("# Independently seeded property-breaking changes\n\n")
    o.write("Each directory holds a change to daeuniverse/dae written by a fresh sub-agent that saw only the text of one\n"
            "property and its own scratch worktree (nothing from /verif): `patch.diff`, the agent's demonstration, `meta.json`,\n"
            "`verify.json` (my own confirmation in a scratch worktree: demonstration passes without the patch, patch applies, stub\n"
            "build + pinned suite pass with it, demonstration fails with it) and `results.txt` (the /verif checks run against the\n"
            "patched tree with `tools/seedtest`). Regenerate this table with `tools/seedreadme.py`.\n\n")
    o.write("| seed | what it breaks | confirmed (demo ok w/o patch, fails with; pinned suite passes) | caught by | not caught by (checks run) | first signatures |\n|---|---|---|---|---|---|\n")
    for n, title, needs, ver, caught, missed, sigs in rows:
        conf = "yes" if ver.get("demo_confirms") and ver.get("pinned_suite_pass") and ver.get("patch_applies") else ("NO: " + json.dumps({k: ver.get(k) for k in ("patch_applies", "pinned_suite_pass", "demo_without_patch_rc", "demo_with_patch_rc")}))
        o.write("| %s | %s | %s | %s | %s | %s |\n" % (n, title.replace("|", "/"), conf, ", ".join(caught) or "-", ", ".join(missed) or "-", "; ".join("`%s`" % s for s in sigs).replace("|", "/")))
    o.write("\n## What each change needs in order to manifest\n\n")
    for n, title, needs, ver, caught, missed, sigs in rows:
        o.write("* **%s** — %s\n" % (n, (needs if isinstance(needs, str) else json.dumps(needs)).replace("\n", " ")))
print("wrote", os.path.join(root, "README.md"), len(rows), "seeds")
