#!/usr/bin/env python3
"""Writes tools/seed_areas_r6.json: the two defect kinds of seeding round 6 plus, per property,
the places every earlier seeded change touched (so that the new ones go elsewhere)."""
import json, glob, os
KINDS = ("(1) a defect of kind ORDERING: the code is right when its steps, events or elements happen in the usual order and wrong for another legal order - "
 "for concurrent code: a check moved outside the lock it needs, state published before it is complete, a re-check dropped after a lock or wait was re-acquired, a notification sent before (or long after) the state change it announces, two steps swapped whose order only matters when another actor runs in between; "
 "for sequential code: the result depends on the order in which rules, values, files, groups, events or map entries are processed although it must not (iteration order of a Go map, an unstable sort, a pass that silently assumes another pass ran first, the second occurrence of something handled differently from the first, an event that arrives while an earlier one of another kind is half-processed); "
 "(2) a defect of kind BOUNDARY: correct for ordinary sizes and values, wrong exactly at or just past a limit - integer width, overflow, truncation or wrap-around (a counter, index, sequence number or ring cursor reaching its maximum), exactly-full or exactly-empty containers, the first/last element, the size at which the code switches algorithm, representation or batch (small-vs-large thresholds, chunk and buffer boundaries), maximal legal lengths and values (name 255, label 63, port 0/65535, prefix /0 /32 /128, TTL 0 / 2^31 / 2^32-1, mark 0 / 0xffffffff, 16-byte process names, MAX_* constants of the C program), a time exactly at a deadline. "
 "For both: the change must look like an ordinary maintenance edit (refactor, clean-up, small feature, performance tweak, log/metric addition) a reviewer would wave through, and it must need that specific order or boundary to show - ordinary use stays right. ")
out = {}
for l in open('/verif/properties.jsonl'):
    pid = json.loads(l)['id']
    touched = []
    for d in sorted(glob.glob('/verif/seeded/%s-*' % pid)):
        try:
            m = json.load(open(os.path.join(d, 'meta.json')))
        except Exception:
            continue
        touched.append("%s [%s]" % (str(m.get('title', ''))[:160], ", ".join(m.get('files', [])[:3]) if isinstance(m.get('files'), list) else m.get('files')))
    k = KINDS
    if pid == 'C13':
        k = KINDS.replace("For both:", "(3) a second defect of kind ORDERING or BOUNDARY in another of the property's three mechanisms (task queues, endpoint pool, flow-tuple tracker). For all:")
    out[pid] = k + "IMPORTANT: earlier defects for this property already touched the following places - choose OTHER functions/mechanisms of the property than these: " + " | ".join(touched)
json.dump(out, open('/verif/tools/seed_areas_r6.json', 'w'), indent=1)
print({k: len(v) for k, v in out.items()})
