#!/usr/bin/env python3
"""Regenerates /verif/MANIFEST.json from the table below (kept here so the manifest stays valid)."""
import json, os, subprocess, sys

VD = os.path.dirname(os.path.dirname(os.path.abspath(__file__)))

# id -> dict(category, text, note, technique, design)
CHECKS = {}

def chk(pid, category, technique, text, note, design):
    CHECKS[pid] = dict(category=category, technique=technique, text=text, note=note, design=design)

NA = {}
for fn in sorted(os.listdir(os.path.join(VD, "tools", "manifest.d"))):
    if fn.endswith(".py"):
        exec(open(os.path.join(VD, "tools", "manifest.d", fn)).read())

ALL = ["C%02d" % i for i in range(1, 21)]
NOT_BUILT = {}
for pid in ALL:
    if pid not in CHECKS:
        NOT_BUILT[pid] = NA.get(pid, "monitor not built yet in this session (planned, see DESIGN.md §3 %s)" % pid)

hooks_commits = subprocess.run(["git", "-C", "/repo", "log", "--format=%H", "--grep=^verif:"], capture_output=True, text=True).stdout.split()

m = {
    "version": 1,
    "setup_cmd": "bin/setup",
    "hooks": {
        "guard": "verif",
        "enable": "go1.26 test -tags verif -overlay <generated overlay adding control/zz_verif_bpfel.go (bpf2go types synthesised from bpf_stub.go), verifkit/ and the monitor *_test.go files> -c ./<pkg>  (done by bin/check)",
        "baseline_off_cmd": "bin/baseline_off",
        "source_commits": hooks_commits,
        "add_only": True,
    },
    "engines": [
        {"name": "overlay-monitors", "path": "overlay/", "serves_properties": sorted(CHECKS.keys()),
         "kind_free_text": "Go test files injected into dae's own packages with go test -overlay (real, non-stub build of package control); oracles in kit/ (verifkit)"},
        {"name": "kernsim", "path": "kernsim/", "serves_properties": [p for p in ["C02", "C03", "C19"] if p in CHECKS],
         "kind_free_text": "control/kern/tproxy.c compiled natively with clang ASan+UBSan against a helper/map shim; driven over a pipe by the Go monitors"},
    ],
    "checks": [],
    "not_applicable": [{"property_id": p, "reason": r} for p, r in sorted(NOT_BUILT.items())],
    "notes": "All checks: bin/check <ID> <tier>; env VERIF_SEED, VERIF_TIER honoured; exit 0 held / 1 VIOLATION / 2 build error / 3 inconclusive. Known findings: known_findings.txt.",
}
for pid in sorted(CHECKS):
    c = CHECKS[pid]
    m["checks"].append({
        "property_id": pid,
        "quick_cmd": "bin/check %s quick" % pid,
        "thorough_cmd": "bin/check %s thorough" % pid,
        "evidence_file": "/verif/evidence/%s.json" % pid,
        "replay_cmd_template": "cat {path}",
        "engine": "overlay-monitors",
        "level_claimed": {"category": c["category"], "text": c["text"], "design_ref": c["design"]},
        "level_note": c["note"],
        "technique": c["technique"],
    })
json.dump(m, open(os.path.join(VD, "MANIFEST.json"), "w"), indent=1)
try:
    import jsonschema
    jsonschema.validate(m, json.load(open("/root/.vp/MANIFEST.schema.json")))
    print("MANIFEST.json valid;", len(m["checks"]), "checks,", len(m["not_applicable"]), "not_applicable")
except ImportError:
    print("MANIFEST.json written (jsonschema not importable here)")
