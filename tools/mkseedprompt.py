#!/usr/bin/env python3
import json, sys
pid, wt = sys.argv[1], sys.argv[2]
t = open('/verif/tools/seed_prompt.md').read()
for l in open('/verif/properties.jsonl'):
    p = json.loads(l)
    if p['id'] == pid:
        a = p['anchors']
        anchors = "files: " + ", ".join(a.get('files', [])) + "; mechanisms: " + "; ".join("%s (%s)" % (m['name'], m['where']) for m in a.get('mechanism', []))
        print(t.replace('{ID}', pid).replace('{WT}', wt).replace('{TITLE}', p['title']).replace('{STATEMENT}', p['statement']).replace('{QUANT}', p['quantifier']['text']).replace('{ANCHORS}', anchors))
