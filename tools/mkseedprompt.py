#!/usr/bin/env python3
import json, sys
pid, wt = sys.argv[1], sys.argv[2]
rnd = sys.argv[3] if len(sys.argv) > 3 else ''
t = open('/verif/tools/seed_prompt.md').read()
for l in open('/verif/properties.jsonl'):
    p = json.loads(l)
    if p['id'] == pid:
        a = p['anchors']
        anchors = "files: " + ", ".join(a.get('files', [])) + "; mechanisms: " + "; ".join("%s (%s)" % (m['name'], m['where']) for m in a.get('mechanism', []))
        if rnd:
            areas = json.load(open('/verif/tools/seed_areas_r7.json' if rnd == 'w' else '/verif/tools/seed_areas_r6.json' if rnd == 'v' else '/verif/tools/seed_areas_r5.json' if rnd == 'u' else '/verif/tools/seed_areas_r4.json' if rnd == 't' else '/verif/tools/seed_areas_r3.json' if rnd == 's' else '/verif/tools/seed_areas.json'))[pid]
            n = areas.count('(') if pid == 'C13' else 2
            t = t.replace('The two defects must be in different mechanisms / different functions of the property (do not submit two variants of the same edit).', ('Write ' if rnd == 'w' else 'Write one defect of each of THESE kinds: ' if rnd in ('s', 't', 'u', 'v') else 'Place the defects in THESE areas, one defect per numbered area (these parts of the property have not been probed yet): ') + areas + '. If an area turns out to be impossible, pick the closest mechanism of the property and say so.')
            t = t.replace('seed/{ID}-N/', 'seed/{ID}-' + rnd + 'N/').replace('for each of the two defects N in {1,2}', 'for each defect N in {1,2' + (',3' if pid == 'C13' else '') + '}')
            if rnd == 'w':
                t = t.replace('write TWO different, realistic code changes', 'write ONE realistic code change').replace('that each BREAK', 'that BREAKS').replace('for each defect N in {1,2,3}', 'for N=1').replace('for each defect N in {1,2}', 'for N=1')
            elif pid == 'C13':
                t = t.replace('write TWO different', 'write THREE different')
        print(t.replace('{ID}', pid).replace('{WT}', wt).replace('{TITLE}', p['title']).replace('{STATEMENT}', p['statement']).replace('{QUANT}', p['quantifier']['text']).replace('{ANCHORS}', anchors))
