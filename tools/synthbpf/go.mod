module verif/synthbpf

go 1.26
