// synthbpf synthesises the bpf2go-generated declarations that package control
// needs in a real (non dae_stub_ebpf) build, from the current
// control/bpf_stub.go: every top-level declaration of the stub that
// control/bpf_utils.go (or any other non-stub, non-test file) also declares is
// dropped, the build tag is flipped, and unused imports are pruned.
//
// usage: synthbpf <repo>/control <out.go>
package main

import (
	"bytes"
	"fmt"
	"go/ast"
	"go/format"
	"go/parser"
	"go/token"
	"os"
	"path/filepath"
	"strconv"
	"strings"
)

func declNames(d ast.Decl) []string {
	var out []string
	switch x := d.(type) {
	case *ast.FuncDecl:
		if x.Recv == nil {
			out = append(out, x.Name.Name)
		} else {
			// method: Recv.Name
			t := x.Recv.List[0].Type
			if s, ok := t.(*ast.StarExpr); ok {
				t = s.X
			}
			if id, ok := t.(*ast.Ident); ok {
				out = append(out, id.Name+"."+x.Name.Name)
			}
		}
	case *ast.GenDecl:
		for _, s := range x.Specs {
			switch sp := s.(type) {
			case *ast.TypeSpec:
				out = append(out, sp.Name.Name)
			case *ast.ValueSpec:
				for _, n := range sp.Names {
					out = append(out, n.Name)
				}
			}
		}
	}
	return out
}

func main() {
	if len(os.Args) != 3 {
		fmt.Fprintln(os.Stderr, "usage: synthbpf <control dir> <out.go>")
		os.Exit(2)
	}
	dir, out := os.Args[1], os.Args[2]
	fset := token.NewFileSet()

	// names declared by real-build files
	declared := map[string]bool{}
	ents, err := os.ReadDir(dir)
	if err != nil {
		panic(err)
	}
	for _, e := range ents {
		n := e.Name()
		if !strings.HasSuffix(n, ".go") || strings.HasSuffix(n, "_test.go") || n == "bpf_stub.go" {
			continue
		}
		src, err := os.ReadFile(filepath.Join(dir, n))
		if err != nil {
			panic(err)
		}
		// skip files that are themselves stub-only
		head := string(src)
		if i := strings.Index(head, "package "); i >= 0 {
			head = head[:i]
		}
		if strings.Contains(head, "//go:build") && strings.Contains(head, "dae_stub_ebpf") && !strings.Contains(head, "!dae_stub_ebpf") {
			continue
		}
		if strings.Contains(head, "//go:build") && !strings.Contains(head, "dae_stub_ebpf") {
			// other constraints (os etc.): only count linux/amd64-compatible ones; be
			// conservative: still count them (they'd clash anyway).
		}
		f, err := parser.ParseFile(fset, n, src, parser.SkipObjectResolution)
		if err != nil {
			panic(err)
		}
		for _, d := range f.Decls {
			for _, nm := range declNames(d) {
				declared[nm] = true
			}
		}
	}

	stubSrc, err := os.ReadFile(filepath.Join(dir, "bpf_stub.go"))
	if err != nil {
		panic(err)
	}
	f, err := parser.ParseFile(fset, "bpf_stub.go", stubSrc, parser.ParseComments|parser.SkipObjectResolution)
	if err != nil {
		panic(err)
	}
	dropped := 0
	var keep []ast.Decl
	for _, d := range f.Decls {
		if g, ok := d.(*ast.GenDecl); ok && g.Tok == token.IMPORT {
			keep = append(keep, d)
			continue
		}
		if g, ok := d.(*ast.GenDecl); ok {
			var specs []ast.Spec
			for _, s := range g.Specs {
				drop := false
				switch sp := s.(type) {
				case *ast.TypeSpec:
					drop = declared[sp.Name.Name]
				case *ast.ValueSpec:
					for _, n := range sp.Names {
						if declared[n.Name] {
							drop = true
						}
					}
				}
				if drop {
					dropped++
				} else {
					specs = append(specs, s)
				}
			}
			if len(specs) == 0 {
				continue
			}
			g.Specs = specs
			keep = append(keep, g)
			continue
		}
		names := declNames(d)
		drop := false
		for _, n := range names {
			if declared[n] {
				drop = true
			}
		}
		if drop {
			dropped++
			continue
		}
		keep = append(keep, d)
	}
	f.Decls = keep
	// drop comments (they'd be misplaced) except none needed
	f.Comments = nil
	f.Doc = nil

	// prune unused imports
	used := map[string]bool{}
	ast.Inspect(f, func(n ast.Node) bool {
		if se, ok := n.(*ast.SelectorExpr); ok {
			if id, ok := se.X.(*ast.Ident); ok {
				used[id.Name] = true
			}
		}
		return true
	})
	for _, d := range f.Decls {
		g, ok := d.(*ast.GenDecl)
		if !ok || g.Tok != token.IMPORT {
			continue
		}
		var specs []ast.Spec
		for _, s := range g.Specs {
			is := s.(*ast.ImportSpec)
			p, _ := strconv.Unquote(is.Path.Value)
			name := filepath.Base(p)
			if is.Name != nil {
				name = is.Name.Name
			}
			if used[name] || name == "_" {
				specs = append(specs, s)
			}
		}
		g.Specs = specs
	}

	var buf bytes.Buffer
	buf.WriteString("//go:build !dae_stub_ebpf\n\n// Code synthesised by /verif/tools/synthbpf from control/bpf_stub.go; DO NOT EDIT.\n\n")
	var body bytes.Buffer
	if err := format.Node(&body, fset, f); err != nil {
		panic(err)
	}
	b := body.Bytes()
	// strip original build tag line if the printer kept it
	if i := bytes.Index(b, []byte("package ")); i > 0 {
		b = b[i:]
	}
	buf.Write(b)
	if err := os.WriteFile(out, buf.Bytes(), 0o644); err != nil {
		panic(err)
	}
	fmt.Fprintf(os.Stderr, "synthbpf: dropped %d declarations, wrote %s\n", dropped, out)
}
