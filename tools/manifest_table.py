# table consumed by tools/mkmanifest.py
NA = {}

chk("C01", "exploration", "runtime monitoring: differential of ControlPlane.Route against an independent first-match reference interpreter over generated routing text x boundary packets",
    "Held on the generated (program, packet) pairs of this run: every routing section is emitted as text, parsed and compiled by dae's real front end and builder (alias-only and production optimiser pipelines) and each packet's (outbound, mark, must) compared with a reference interpreter written from the documentation. Exploration, not proof: reach is the generator's grammar and the boundary packets derived from every constant.",
    "Trusted: verifkit.RefRoute (reference semantics) and the generator's text rendering. ControlPlane.Route runs on a ControlPlane holding only the compiled matcher; newControlPlane itself (needs a datapath) is not executed, so a change of the optimiser list/order at control_plane.go:636 is not seen, a change inside any optimiser/builder/matcher is.",
    "DESIGN.md §3 C01")
