#!/usr/bin/env python3
"""Writes tools/seed_areas_r7.json: the single defect kind of seeding round 7 (suffix -wN) plus, per
property, the places every earlier seeded change touched (so that the new ones go elsewhere)."""
import json, glob, os
KIND = ("ONE defect (N=1 only) of kind LEFTOVER: the code is right the first time an object, buffer, slot, key or name is used and wrong when it is used AGAIN - "
 "a pooled or reused buffer/struct/slice/map whose reset misses one field, a retry or second attempt that inherits state from the failed first one, "
 "a value computed once and remembered although one of its inputs can change later (memoised result, cached pointer, captured loop variable, a default filled in on first use), "
 "an entry removed from one index but not from its twin, a counter/flag/timer not restored on an early return or error path so that the NEXT operation starts from the wrong state, "
 "a slice that aliases its predecessor's backing array, a second registration of the same name/key that merges with instead of replacing the first. "
 "The change must look like an ordinary maintenance edit (refactor, clean-up, allocation saving, small feature) a reviewer would wave through, and it must need that second use (a specific multi-step history) to show - a single first use stays right. You have about 12 minutes: pick the first workable idea, keep the patch and the demonstration small. ")
out = {}
for l in open('/verif/properties.jsonl'):
    pid = json.loads(l)['id']
    touched = []
    for d in sorted(glob.glob('/verif/seeded/%s-*' % pid)):
        try:
            m = json.load(open(os.path.join(d, 'meta.json')))
        except Exception:
            continue
        touched.append("%s [%s]" % (str(m.get('title', ''))[:110], ", ".join(m.get('files', [])[:2]) if isinstance(m.get('files'), list) else m.get('files')))
    out[pid] = KIND + "IMPORTANT: earlier defects for this property already touched the following places - choose ANOTHER function/mechanism of the property than these: " + " | ".join(touched)
json.dump(out, open('/verif/tools/seed_areas_r7.json', 'w'), indent=1)
