#!/usr/bin/env python3
"""Re-confirms "the pinned suite passes with the patch" for seeded changes.

usage: tools/pinverify.py <worktree-dir> <seed-name>...
One scratch worktree of /repo at a FIXED path is reused for all seeds so that Go's build and
test caches serve the packages a patch does not affect (a cached "ok" is an earlier real pass of
the identical inputs). For each seed: check out the commit the seed was confirmed against
(verify.json repo_head), apply patch.diff, run the pinned suite's package list with go1.26, record
the outcome in verify.json (pinned_suite_pass, pinned_suite_rerun), revert.
"""
import json, os, subprocess, sys
wt = sys.argv[1]
env = dict(os.environ, GOFLAGS="-mod=mod", GOPROXY="off", GOSUMDB="off", GOTOOLCHAIN="local")
def sh(cmd, cwd=wt, timeout=3600):
    p = subprocess.run(cmd, shell=True, cwd=cwd, env=env, stdout=subprocess.PIPE, stderr=subprocess.STDOUT, text=True, timeout=timeout)
    return p.returncode, p.stdout
if not os.path.isdir(wt):
    subprocess.check_call(["git", "-C", "/repo", "worktree", "add", "--detach", wt], stdout=subprocess.DEVNULL, stderr=subprocess.DEVNULL)
for name in sys.argv[2:]:
    seed = os.path.join("/verif/seeded", name)
    vp = os.path.join(seed, "verify.json")
    ver = json.load(open(vp)) if os.path.exists(vp) else {}
    head = ver.get("repo_head") or subprocess.check_output(["git", "-C", "/repo", "log", "--format=%h", "-1"], text=True).strip()
    sh("git reset -q --hard; git clean -fdq; git checkout -q --detach %s" % head)
    rc, out = sh("git apply %s/patch.diff" % seed)
    how = "git apply"
    if rc != 0:
        rc, out = sh("git apply --3way %s/patch.diff" % seed)
        how = "git apply --3way"
    if rc != 0:  # the stored patch may have been rebased after a later fix: try the current head
        head = subprocess.check_output(["git", "-C", "/repo", "log", "--format=%h", "-1"], text=True).strip()
        sh("git reset -q --hard; git clean -fdq; git checkout -q --detach %s" % head)
        rc, out = sh("git apply %s/patch.diff" % seed)
        how = "git apply (current head)"
        if rc != 0:
            rc, out = sh("git apply --3way %s/patch.diff" % seed)
            how = "git apply --3way (current head)"
    rec = {"base": head, "applied_with": how, "applies": rc == 0}
    if rc == 0:
        rc, out = sh("go1.26 test -mod=mod -vet=off ./common/... ./component/... ./config/... ./pkg/... 2>&1")
        lines = [l for l in out.splitlines() if l.strip()]
        bad = [l for l in lines if not (l.startswith("ok ") or l.startswith("ok\t") or "no test files" in l)]
        rec.update({"rc": rc, "packages_ok": sum(1 for l in lines if l.startswith("ok")), "cached": sum(1 for l in lines if "(cached)" in l), "non_ok_lines": bad[-30:]})
        rec["pass"] = rc == 0 and not bad
        if not rec["pass"] and any("FAIL" in l for l in bad):
            # one retry without the cache for the failing packages only: a load-induced flake is not the patch's doing
            pk = sorted({l.split()[1] for l in bad if l.startswith("FAIL") and len(l.split()) > 1 and "/" in l.split()[1]})
            if pk:
                rc2, out2 = sh("go1.26 test -mod=mod -vet=off -count=1 %s 2>&1" % " ".join(pk))
                rec["retry_rc"] = rc2
                rec["retry_tail"] = out2[-600:]
                rec["pass"] = rc2 == 0
    else:
        rec["apply_output"] = out[-400:]
        rec["pass"] = False
    ver["pinned_suite_pass"] = rec["pass"]
    ver["pinned_suite_rerun"] = rec
    ver.pop("pinned_suite_output_nonok_lines", None)
    json.dump(ver, open(vp, "w"), indent=1)
    print(name, "pass" if rec["pass"] else "FAIL", rec.get("packages_ok"), "cached", rec.get("cached"), rec.get("non_ok_lines", [])[:3], flush=True)
sh("git reset -q --hard; git clean -fdq")
