#!/bin/bash
# usage: tools/seedcollect7.sh <ID> : copy /tmp/w7-<ID>/seed/* into seeded/, drop the worktree, verify + test each (serialised per lane)
id="$1"; cd /verif
cp -r /tmp/w7-$id/seed/$id-* seeded/ || exit 1
names=$(ls /tmp/w7-$id/seed/ | grep "^$id-")
git -C /repo worktree remove --force /tmp/w7-$id; rm -f /tmp/w7-$id.prompt
lane=$(( 10#${id#C} % 4 )); for s in $names; do flock /tmp/seedcollect.lock.$lane tools/seedbatch.sh $s; done >> /tmp/sb7.log 2>&1
