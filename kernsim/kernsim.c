// kernsim: dae's control/kern/tproxy.c compiled natively (ASan+UBSan) against
// a helper/map shim, driven over stdin/stdout by the Go monitors.
//
// build: clang -O1 -g -fsanitize=address,undefined -fno-sanitize-recover=all \
//          -I /verif/cshim -I <gen dir> -DTPROXY_C='"<repo>/control/kern/tproxy.c"' kernsim.c
#define _GNU_SOURCE
#include <stdint.h>
#include <stdio.h>
#include <stdlib.h>
#include <sys/mman.h>
#include <unistd.h>

#include TPROXY_C

// ---------------------------------------------------------------------------
// map shim
// ---------------------------------------------------------------------------
#define SHIM_MAGIC 0x5348494dU

struct hent {
	struct hent *next;
	__u8 *key;
	__u8 *val;
};

struct lpment {
	__u32 prefixlen;
	__u8 data[16];
};

struct shim_map {
	__u32 magic;
	int type;
	__u32 key_size, value_size, max_entries;
	const char *name;
	void *addr; // address of the SEC(".maps") object (static maps)
	int id;
	int log; // log mutations as events
	// ARRAY-like
	void **slots;
	// HASH
	struct hent **buckets;
	__u32 nbuckets;
	__u32 count;
	// LPM
	struct lpment *lpm;
	__u32 nlpm;
};

#define MAX_STATIC 64
static struct shim_map *static_maps[MAX_STATIC];
// Simulated CPUs: every PERCPU_ARRAY map has one copy of its slots per CPU; SET_CPU (op 14)
// selects the CPU the following programs (and MAP_* commands) run on. CPU 0 after RESET.
#define SIM_NCPU 4
static __u32 cur_cpu;
static int nstatic;
static struct shim_map *last_hit;

static void die(const char *msg)
{
	fprintf(stderr, "kernsim: %s\n", msg);
	fflush(stderr);
	abort();
}

static struct shim_map *shim_new(const char *name, int type, __u32 ks, __u32 vs, __u32 max)
{
	struct shim_map *m = calloc(1, sizeof(*m));

	m->magic = SHIM_MAGIC;
	m->type = type;
	m->key_size = ks;
	m->value_size = vs;
	m->max_entries = max;
	m->name = name;
	switch (type) {
	case BPF_MAP_TYPE_PERCPU_ARRAY:
		m->slots = calloc((size_t)(max ? max : 1) * SIM_NCPU, sizeof(void *));
		break;
	case BPF_MAP_TYPE_ARRAY:
	case BPF_MAP_TYPE_ARRAY_OF_MAPS:
		m->slots = calloc(max ? max : 1, sizeof(void *));
		break;
	case BPF_MAP_TYPE_HASH:
		m->nbuckets = 4096;
		m->buckets = calloc(m->nbuckets, sizeof(struct hent *));
		break;
	default:
		break;
	}
	return m;
}

static void shim_register(const char *name, void *addr, int type, __u32 ks, __u32 vs, __u32 max)
{
	if (nstatic >= MAX_STATIC)
		die("too many maps");
	struct shim_map *m = shim_new(name, type, ks, vs, max);

	m->addr = addr;
	m->id = nstatic;
	m->log = type == BPF_MAP_TYPE_HASH;
	static_maps[nstatic++] = m;
}

static struct shim_map *shim_find(void *map)
{
	if (last_hit && last_hit->addr == map)
		return last_hit;
	for (int i = 0; i < nstatic; i++)
		if (static_maps[i]->addr == map)
			return last_hit = static_maps[i];
	struct shim_map *m = map;

	if (m && m->magic == SHIM_MAGIC)
		return m;
	die("helper called with an unknown map pointer");
	return NULL;
}

static struct shim_map *shim_by_name(const char *name, size_t n)
{
	for (int i = 0; i < nstatic; i++)
		if (strlen(static_maps[i]->name) == n && !memcmp(static_maps[i]->name, name, n))
			return static_maps[i];
	return NULL;
}

// ---- event log (mutations performed by the program during one command)
struct event {
	__u8 kind; // 1 update, 2 delete, 3 ringbuf, 4 lookup (SOCKMAP/SOCKHASH only)
	__u8 map_id;
	__u32 klen, vlen;
	__u8 *key, *val;
};
static struct event *events;
static size_t nevents, capevents;
static int in_program; // only log while a program runs

static void ev_add(__u8 kind, int map_id, const void *k, __u32 kl, const void *v, __u32 vl)
{
	if (!in_program)
		return;
	if (nevents == capevents) {
		capevents = capevents ? capevents * 2 : 64;
		events = realloc(events, capevents * sizeof(*events));
	}
	struct event *e = &events[nevents++];

	e->kind = kind;
	e->map_id = (__u8)map_id;
	e->klen = kl;
	e->vlen = vl;
	e->key = kl ? malloc(kl) : NULL;
	e->val = vl ? malloc(vl) : NULL;
	if (kl)
		memcpy(e->key, k, kl);
	if (vl)
		memcpy(e->val, v, vl);
}

static void ev_clear(void)
{
	for (size_t i = 0; i < nevents; i++) {
		free(events[i].key);
		free(events[i].val);
	}
	nevents = 0;
}

// deferred frees (values deleted from hash maps stay readable until the
// program returns, as under RCU in the kernel)
static void **deferred;
static size_t ndeferred, capdeferred;
static void defer_free(void *p)
{
	if (ndeferred == capdeferred) {
		capdeferred = capdeferred ? capdeferred * 2 : 64;
		deferred = realloc(deferred, capdeferred * sizeof(void *));
	}
	deferred[ndeferred++] = p;
}
static void run_deferred(void)
{
	for (size_t i = 0; i < ndeferred; i++)
		free(deferred[i]);
	ndeferred = 0;
}

static __u32 hkey(const __u8 *k, __u32 n)
{
	__u32 h = 2166136261u;

	for (__u32 i = 0; i < n; i++) {
		h ^= k[i];
		h *= 16777619u;
	}
	return h;
}

static void *array_slot(struct shim_map *m, __u32 idx, int create)
{
	if (idx >= m->max_entries)
		return NULL;
	if (m->type == BPF_MAP_TYPE_PERCPU_ARRAY)
		idx += cur_cpu * m->max_entries;
	if (!m->slots[idx] && create && m->type != BPF_MAP_TYPE_ARRAY_OF_MAPS)
		m->slots[idx] = calloc(1, m->value_size ? m->value_size : 1);
	return m->slots[idx];
}

static int lpm_match(const struct lpment *e, const __u8 *data)
{
	__u32 bits = e->prefixlen;

	for (__u32 i = 0; i < bits; i++) {
		if (((e->data[i / 8] >> (7 - i % 8)) & 1) != ((data[i / 8] >> (7 - i % 8)) & 1))
			return 0;
	}
	return 1;
}

static __u32 lpm_value = 1;

void *bpf_map_lookup_elem(void *map, const void *key)
{
	struct shim_map *m = shim_find(map);

	switch (m->type) {
	case BPF_MAP_TYPE_ARRAY:
	case BPF_MAP_TYPE_PERCPU_ARRAY:
		return array_slot(m, *(const __u32 *)key, 1);
	case BPF_MAP_TYPE_ARRAY_OF_MAPS:
		return array_slot(m, *(const __u32 *)key, 0);
	case BPF_MAP_TYPE_HASH: {
		__u32 h = hkey(key, m->key_size) % m->nbuckets;

		for (struct hent *e = m->buckets[h]; e; e = e->next)
			if (!memcmp(e->key, key, m->key_size))
				return e->val;
		return NULL;
	}
	case BPF_MAP_TYPE_LPM_TRIE: {
		// kernel semantics: longest stored prefix (<= key prefixlen) whose
		// first prefixlen bits equal the key's; data beyond prefixlen ignored.
		const __u8 *k = key;
		__u32 klen = *(const __u32 *)k;
		int best = -1;

		for (__u32 i = 0; i < m->nlpm; i++) {
			if (m->lpm[i].prefixlen > klen)
				continue;
			if (lpm_match(&m->lpm[i], k + 4) && (int)m->lpm[i].prefixlen > best)
				best = (int)m->lpm[i].prefixlen;
		}
		return best >= 0 ? &lpm_value : NULL;
	}
	case BPF_MAP_TYPE_SOCKMAP:
	case BPF_MAP_TYPE_SOCKHASH:
		// no socket is ever found; the key the program asked for is logged (event kind 4 = lookup)
		// so that a monitor can compare it with the slot the control plane filled
		ev_add(4, m->id, key, m->key_size, NULL, 0);
		return NULL;
	default:
		die("lookup on unsupported map type");
	}
	return NULL;
}

long bpf_map_update_elem(void *map, const void *key, const void *value, __u64 flags)
{
	struct shim_map *m = shim_find(map);

	switch (m->type) {
	case BPF_MAP_TYPE_ARRAY:
	case BPF_MAP_TYPE_PERCPU_ARRAY: {
		if (flags == BPF_NOEXIST)
			return -EEXIST;
		void *s = array_slot(m, *(const __u32 *)key, 1);

		if (!s)
			return -E2BIG;
		memcpy(s, value, m->value_size);
		return 0;
	}
	case BPF_MAP_TYPE_HASH: {
		__u32 h = hkey(key, m->key_size) % m->nbuckets;

		for (struct hent *e = m->buckets[h]; e; e = e->next)
			if (!memcmp(e->key, key, m->key_size)) {
				if (flags == BPF_NOEXIST)
					return -EEXIST;
				// kernel (non-prealloc) swaps in a new element; the old one stays
				// readable for concurrent readers. Model: new value block.
				__u8 *nv = malloc(m->value_size);

				memcpy(nv, value, m->value_size);
				defer_free(e->val);
				e->val = nv;
				if (m->log)
					ev_add(1, m->id, key, m->key_size, value, m->value_size);
				return 0;
			}
		if (flags == BPF_EXIST)
			return -ENOENT;
		if (m->count >= m->max_entries)
			return -E2BIG;
		struct hent *e = malloc(sizeof(*e));

		e->key = malloc(m->key_size);
		e->val = malloc(m->value_size);
		memcpy(e->key, key, m->key_size);
		memcpy(e->val, value, m->value_size);
		e->next = m->buckets[h];
		m->buckets[h] = e;
		m->count++;
		if (m->log)
			ev_add(1, m->id, key, m->key_size, value, m->value_size);
		return 0;
	}
	default:
		die("update on unsupported map type");
	}
	return -EINVAL;
}

long bpf_map_delete_elem(void *map, const void *key)
{
	struct shim_map *m = shim_find(map);

	if (m->type != BPF_MAP_TYPE_HASH)
		return -EINVAL;
	__u32 h = hkey(key, m->key_size) % m->nbuckets;

	for (struct hent **pe = &m->buckets[h]; *pe; pe = &(*pe)->next)
		if (!memcmp((*pe)->key, key, m->key_size)) {
			struct hent *e = *pe;

			*pe = e->next;
			if (m->log)
				ev_add(2, m->id, key, m->key_size, NULL, 0);
			defer_free(e->val);
			free(e->key);
			free(e);
			m->count--;
			return 0;
		}
	return -ENOENT;
}

static void hash_clear(struct shim_map *m)
{
	for (__u32 i = 0; i < m->nbuckets; i++) {
		struct hent *e = m->buckets[i];

		while (e) {
			struct hent *n = e->next;

			free(e->key);
			free(e->val);
			free(e);
			e = n;
		}
		m->buckets[i] = NULL;
	}
	m->count = 0;
}

long bpf_loop(__u32 nr_loops, void *callback_fn, void *callback_ctx, __u64 flags)
{
	int (*cb)(__u32, void *) = callback_fn;
	__u32 i;

	if (flags || nr_loops > (1U << 23))
		return -EINVAL;
	for (i = 0; i < nr_loops; i++)
		if (cb(i, callback_ctx))
			return i + 1;
	return i;
}

// ---------------------------------------------------------------------------
// skb / socket / time shim
// ---------------------------------------------------------------------------
static __u64 virt_now;
__u64 bpf_ktime_get_ns(void)
{
	return virt_now;
}

enum { PULL_KERNEL = 0, PULL_FORCE_OK = 1, PULL_FORCE_FAIL = 2 };

struct skb_priv {
	__u8 *full;
	__u32 full_len;
	__u8 *linear;
	__u32 linear_len;
	int pull_mode;
	__u64 cookie;
	int sk_mode; // 0 none, 1 LISTEN non-dae, 2 dae-marked LISTEN, 3 ESTABLISHED non-dae
	int sk_refs;
	int sk_lookups;
	int redirected; // 1 bpf_redirect, 2 bpf_redirect_peer
	__u32 redir_ifindex;
	__u64 redir_flags;
	__u32 pkt_type_set;
	int sk_assigned;
	int pulls, loads, stores;
};

static struct skb_priv *cur; // program under execution

static void set_linear(struct vsk_buff *skb, struct skb_priv *p, __u32 n)
{
	__u8 *nl = malloc(n ? n : 1);

	if (n)
		memcpy(nl, p->full, n);
	free(p->linear);
	p->linear = nl;
	p->linear_len = n;
	skb->data = (__u64)(uintptr_t)nl;
	skb->data_end = (__u64)(uintptr_t)(nl + n);
}

long bpf_skb_pull_data(struct vsk_buff *skb, __u32 len)
{
	struct skb_priv *p = skb->verif_priv;

	p->pulls++;
	if (p->pull_mode == PULL_FORCE_FAIL)
		return -ENOMEM;
	if (len == 0)
		len = p->linear_len;
	if (len > p->full_len) {
		if (p->pull_mode == PULL_KERNEL)
			return -ENOMEM;
		len = p->full_len;
	}
	if (len > p->linear_len)
		set_linear(skb, p, len);
	return 0;
}

long bpf_skb_load_bytes(const struct vsk_buff *skb, __u32 offset, void *to, __u32 len)
{
	struct skb_priv *p = skb->verif_priv;

	p->loads++;
	if (offset > 0xffff || (__u64)offset + len > p->full_len) {
		memset(to, 0, len);
		return -EFAULT;
	}
	memcpy(to, p->full + offset, len);
	return 0;
}

long bpf_skb_store_bytes(struct vsk_buff *skb, __u32 offset, const void *from, __u32 len, __u64 flags)
{
	struct skb_priv *p = skb->verif_priv;

	p->stores++;
	(void)flags;
	if (offset > 0xffff || (__u64)offset + len > p->full_len)
		return -EFAULT;
	memcpy(p->full + offset, from, len);
	// kernel makes the range writable => linear
	if (offset + len > p->linear_len)
		set_linear(skb, p, offset + len);
	else
		memcpy(p->linear + offset, from, len);
	return 0;
}

long bpf_skb_change_head(struct vsk_buff *skb, __u32 len, __u64 flags)
{
	struct skb_priv *p = skb->verif_priv;

	if (flags || len == 0 || len > 256)
		return -EINVAL;
	__u8 *nf = calloc(1, p->full_len + len);

	memcpy(nf + len, p->full, p->full_len);
	free(p->full);
	p->full = nf;
	p->full_len += len;
	skb->len = p->full_len;
	set_linear(skb, p, p->linear_len + len);
	return 0;
}

long bpf_skb_change_type(struct vsk_buff *skb, __u32 type)
{
	struct skb_priv *p = skb->verif_priv;

	p->pkt_type_set = type + 1;
	skb->pkt_type = type;
	return 0;
}

long bpf_redirect(__u32 ifindex, __u64 flags)
{
	if (cur) {
		cur->redirected = 1;
		cur->redir_ifindex = ifindex;
		cur->redir_flags = flags;
	}
	return TC_ACT_REDIRECT;
}

long bpf_redirect_peer(__u32 ifindex, __u64 flags)
{
	if (cur) {
		cur->redirected = 2;
		cur->redir_ifindex = ifindex;
		cur->redir_flags = flags;
	}
	return TC_ACT_REDIRECT;
}

static struct bpf_sock the_sock;

static struct bpf_sock *sk_lookup(void)
{
	if (!cur || cur->sk_mode == 0)
		return NULL;
	cur->sk_lookups++;
	memset(&the_sock, 0, sizeof(the_sock));
	switch (cur->sk_mode) {
	case 1:
		the_sock.state = BPF_TCP_LISTEN;
		the_sock.mark = 0;
		break;
	case 2:
		the_sock.state = BPF_TCP_LISTEN;
		the_sock.mark = PARAM.dae_socket_mark;
		break;
	default:
		the_sock.state = BPF_TCP_ESTABLISHED;
		break;
	}
	cur->sk_refs++;
	return &the_sock;
}

struct bpf_sock *bpf_sk_lookup_udp(void *ctx, struct bpf_sock_tuple *tuple, __u32 tuple_size, __u64 netns, __u64 flags)
{
	(void)ctx; (void)tuple; (void)tuple_size; (void)netns; (void)flags;
	return sk_lookup();
}

struct bpf_sock *bpf_skc_lookup_tcp(void *ctx, struct bpf_sock_tuple *tuple, __u32 tuple_size, __u64 netns, __u64 flags)
{
	(void)ctx; (void)tuple; (void)tuple_size; (void)netns; (void)flags;
	return sk_lookup();
}

long bpf_sk_release(void *sock)
{
	if (cur && sock)
		cur->sk_refs--;
	return 0;
}

struct bpf_sock *bpf_sk_fullsock(struct bpf_sock *sk)
{
	return sk;
}

long bpf_sk_assign(void *ctx, void *sk, __u64 flags)
{
	(void)ctx; (void)sk; (void)flags;
	if (cur)
		cur->sk_assigned++;
	return 0;
}

__u64 bpf_get_socket_cookie(void *ctx)
{
	(void)ctx;
	return cur ? cur->cookie : 0;
}

long bpf_ringbuf_output(void *ringbuf, void *data, __u64 size, __u64 flags)
{
	struct shim_map *m = shim_find(ringbuf);

	(void)flags;
	ev_add(3, m->id, NULL, 0, data, (__u32)size);
	return 0;
}

__u64 bpf_get_current_pid_tgid(void) { return ((__u64)4242 << 32) | 4242; }
long bpf_get_current_comm(void *buf, __u32 n)
{
	memset(buf, 0, n);
	strncpy(buf, "kernsim", n - 1);
	return 0;
}
__u64 bpf_get_current_task(void) { return 0; }
long verif_read_user_str(void *dst, int size, const void *p)
{
	(void)p;
	memset(dst, 0, size);
	return 1;
}

// ---------------------------------------------------------------------------
// generated registration + layout tables
// ---------------------------------------------------------------------------
#include "maps_gen.h"

static FILE *out;
static void w8(__u8 v) { fputc(v, out); }
static void w32(__u32 v) { fwrite(&v, 4, 1, out); }
static void w64(__u64 v) { fwrite(&v, 8, 1, out); }
static void wbytes(const void *p, __u32 n)
{
	w32(n);
	if (n)
		fwrite(p, 1, n, out);
}

static char *layout_buf;
static size_t layout_len, layout_cap;
static void lay_printf(const char *fmt, ...)
{
	char tmp[512];
	va_list ap;

	__builtin_va_start(ap, fmt);
	int n = vsnprintf(tmp, sizeof(tmp), fmt, ap);

	__builtin_va_end(ap);
	if (layout_len + n + 1 > layout_cap) {
		layout_cap = (layout_cap + n + 1) * 2;
		layout_buf = realloc(layout_buf, layout_cap);
	}
	memcpy(layout_buf + layout_len, tmp, n);
	layout_len += n;
}
#define LAYOUT_EMIT(T, f, size, off) lay_printf("F %s|%s|%zu|%zu\n", T, f, (size_t)(size), (size_t)(off))
#define CONST_EMIT(name, v) lay_printf("C %s|%lld\n", name, (long long)(v))
#define TYPE_EMIT(T, f, ty) lay_printf("T %s|%s|%s\n", T, f, ty)
#define MAPTYPE_EMIT(m, k, v, t) lay_printf("M %s|%s|%s|%s\n", m, k, v, t)
#include "layout_gen.h"

// ---------------------------------------------------------------------------
// command loop
// ---------------------------------------------------------------------------
static __u8 *inbuf;
static size_t incap;

static int read_full(void *p, size_t n)
{
	return fread(p, 1, n, stdin) == n;
}

struct rd {
	const __u8 *p, *end;
};
static __u8 r8(struct rd *r)
{
	if (r->p + 1 > r->end)
		die("short command");
	return *r->p++;
}
static __u32 r32(struct rd *r)
{
	__u32 v;

	if (r->p + 4 > r->end)
		die("short command");
	memcpy(&v, r->p, 4);
	r->p += 4;
	return v;
}
static __u64 r64(struct rd *r)
{
	__u64 v;

	if (r->p + 8 > r->end)
		die("short command");
	memcpy(&v, r->p, 8);
	r->p += 8;
	return v;
}
static const __u8 *rbytes(struct rd *r, __u32 *n)
{
	*n = r32(r);
	if (r->p + *n > r->end)
		die("short command bytes");
	const __u8 *q = r->p;

	r->p += *n;
	return q;
}

static void *dupb(const __u8 *p, __u32 n)
{
	void *q = malloc(n ? n : 1);

	if (n)
		memcpy(q, p, n);
	return q;
}

static void write_param(const __u8 *b, __u32 n)
{
	static int unprotected;

	if (!unprotected) {
		long ps = sysconf(_SC_PAGESIZE);
		uintptr_t a = (uintptr_t)&PARAM & ~(uintptr_t)(ps - 1);
		uintptr_t e = ((uintptr_t)&PARAM + sizeof(PARAM) + ps - 1) & ~(uintptr_t)(ps - 1);

		if (mprotect((void *)a, e - a, PROT_READ | PROT_WRITE))
			die("mprotect PARAM");
		unprotected = 1;
	}
	if (n > sizeof(PARAM))
		n = sizeof(PARAM);
	// launder the pointer: PARAM is declared const, the compiler must not see the store target
	void *q = (void *)&PARAM;

	__asm__ __volatile__("" : "+r"(q) : : "memory");
	memset(q, 0, sizeof(PARAM));
	memcpy(q, b, n);
	__asm__ __volatile__("" : : "r"(q) : "memory");
}

static void reset_all(void)
{
	for (int i = 0; i < nstatic; i++) {
		struct shim_map *m = static_maps[i];

		switch (m->type) {
		case BPF_MAP_TYPE_HASH:
			hash_clear(m);
			break;
		case BPF_MAP_TYPE_PERCPU_ARRAY:
			for (__u32 j = 0; j < m->max_entries * SIM_NCPU; j++) {
				free(m->slots[j]);
				m->slots[j] = NULL;
			}
			break;
		case BPF_MAP_TYPE_ARRAY:
			for (__u32 j = 0; j < m->max_entries; j++) {
				free(m->slots[j]);
				m->slots[j] = NULL;
			}
			break;
		case BPF_MAP_TYPE_ARRAY_OF_MAPS:
			for (__u32 j = 0; j < m->max_entries; j++) {
				struct shim_map *in = m->slots[j];

				if (in) {
					free(in->lpm);
					free(in);
				}
				m->slots[j] = NULL;
			}
			break;
		default:
			break;
		}
	}
	virt_now = 0;
	cur_cpu = 0;
	__u8 z[sizeof(PARAM)] = { 0 };

	write_param(z, sizeof(z));
}

typedef int (*hook_fn)(struct vsk_buff *);
static hook_fn hooks[] = {
	tproxy_lan_ingress_l2, tproxy_lan_ingress_l3,
	tproxy_lan_egress_l2, tproxy_lan_egress_l3,
	tproxy_wan_ingress_l2, tproxy_wan_ingress_l3,
	tproxy_wan_egress_l2, tproxy_wan_egress_l3,
	tproxy_dae0peer_ingress, tproxy_dae0_ingress,
};

static void write_events(void)
{
	w32((__u32)nevents);
	for (size_t i = 0; i < nevents; i++) {
		w8(events[i].kind);
		w8(events[i].map_id);
		wbytes(events[i].key, events[i].klen);
		wbytes(events[i].val, events[i].vlen);
	}
	ev_clear();
}

/* Locals of the TC programs that are used without being initialised must not read as zero by
 * accident: the stack region the program is about to use is filled with a pattern first
 * (the BPF verifier rejects reads of uninitialised stack, a native build does not). */
static void __attribute__((noinline)) poison_stack(void)
{
	volatile unsigned char buf[16384];

	for (unsigned i = 0; i < sizeof(buf); i++)
		buf[i] = 0xAA;
	__asm__ volatile("" ::"r"(buf) : "memory");
}

int main(void)
{
	out = stdout;
	setvbuf(stdout, NULL, _IOFBF, 1 << 20);
	verif_register_maps();
	reset_all();
	for (;;) {
		__u32 len;

		if (!read_full(&len, 4))
			break;
		if (len > (64u << 20))
			die("oversized command");
		if (len > incap) {
			incap = len;
			inbuf = realloc(inbuf, incap);
		}
		if (len && !read_full(inbuf, len))
			break;
		// copy into an exact-size block so parsing bugs here are visible too
		struct rd r = { inbuf, inbuf + len };
		__u8 op = r8(&r);

		switch (op) {
		case 0: // FLUSH
			w8(0);
			fflush(out);
			break;
		case 1: // RESET
			reset_all();
			w8(1);
			break;
		case 2: { // MAP_UPDATE name key value flags
			__u32 nl, kl, vl;
			const __u8 *nm = rbytes(&r, &nl);
			const __u8 *k = rbytes(&r, &kl);
			const __u8 *v = rbytes(&r, &vl);
			__u64 fl = r64(&r);
			struct shim_map *m = shim_by_name((const char *)nm, nl);
			long rc = -ENOENT;

			if (m && kl == m->key_size && vl == m->value_size) {
				void *kk = dupb(k, kl), *vv = dupb(v, vl);

				rc = bpf_map_update_elem(m->addr, kk, vv, fl);
				free(kk);
				free(vv);
			} else if (m)
				rc = -EMSGSIZE;
			w8(2);
			w32((__u32)rc);
			w32(m ? m->key_size : 0);
			w32(m ? m->value_size : 0);
			break;
		}
		case 3: { // MAP_DELETE
			__u32 nl, kl;
			const __u8 *nm = rbytes(&r, &nl);
			const __u8 *k = rbytes(&r, &kl);
			struct shim_map *m = shim_by_name((const char *)nm, nl);
			long rc = -ENOENT;

			if (m && kl == m->key_size) {
				void *kk = dupb(k, kl);

				rc = bpf_map_delete_elem(m->addr, kk);
				free(kk);
			}
			run_deferred();
			w8(3);
			w32((__u32)rc);
			break;
		}
		case 4: { // MAP_GET
			__u32 nl, kl;
			const __u8 *nm = rbytes(&r, &nl);
			const __u8 *k = rbytes(&r, &kl);
			struct shim_map *m = shim_by_name((const char *)nm, nl);
			void *v = NULL;

			if (m && kl == m->key_size && m->type != BPF_MAP_TYPE_ARRAY_OF_MAPS) {
				void *kk = dupb(k, kl);

				v = bpf_map_lookup_elem(m->addr, kk);
				free(kk);
			}
			w8(4);
			w8(v != NULL);
			wbytes(v, v ? m->value_size : 0);
			break;
		}
		case 5: { // MAP_DUMP (hash maps)
			__u32 nl;
			const __u8 *nm = rbytes(&r, &nl);
			struct shim_map *m = shim_by_name((const char *)nm, nl);

			w8(5);
			if (!m || m->type != BPF_MAP_TYPE_HASH) {
				w32(0);
				break;
			}
			w32(m->count);
			for (__u32 i = 0; i < m->nbuckets; i++)
				for (struct hent *e = m->buckets[i]; e; e = e->next) {
					wbytes(e->key, m->key_size);
					wbytes(e->val, m->value_size);
				}
			break;
		}
		case 6: { // LPM_SET slot count (prefixlen,data16)*
			__u32 slot = r32(&r);
			__u32 n = r32(&r);
			struct shim_map *arr = shim_by_name("lpm_array_map", 13);
			struct shim_map *un = shim_by_name("unused_lpm_type", 15);
			long rc = 0;

			if (n == 0xffffffffu) { // LPM_DEL: the slot holds no inner map any more (core.Close deleted it)
				if (arr && slot < arr->max_entries && arr->slots[slot]) {
					struct shim_map *in = arr->slots[slot];

					free(in->lpm);
					free(in);
					arr->slots[slot] = NULL;
				} else {
					rc = -ENOENT;
				}
			} else if (!arr || !un || slot >= arr->max_entries) {
				rc = -E2BIG;
				for (__u32 i = 0; i < n; i++) {
					r32(&r);
					r.p += 16;
				}
			} else {
				struct shim_map *in = arr->slots[slot];

				if (in) {
					free(in->lpm);
					free(in);
				}
				in = shim_new("lpm_inner", BPF_MAP_TYPE_LPM_TRIE, un->key_size, un->value_size, un->max_entries);
				in->lpm = calloc(n ? n : 1, sizeof(struct lpment));
				in->nlpm = n;
				for (__u32 i = 0; i < n; i++) {
					in->lpm[i].prefixlen = r32(&r);
					if (r.p + 16 > r.end)
						die("short lpm");
					memcpy(in->lpm[i].data, r.p, 16);
					r.p += 16;
					if (in->lpm[i].prefixlen > 128)
						rc = -EINVAL;
				}
				arr->slots[slot] = in;
			}
			w8(6);
			w32((__u32)rc);
			w32(un ? un->key_size : 0);
			break;
		}
		case 7: { // SET_PARAM raw bytes
			__u32 n;
			const __u8 *b = rbytes(&r, &n);

			write_param(b, n);
			w8(7);
			w32(sizeof(PARAM));
			break;
		}
		case 8: // SET_TIME
			virt_now = r64(&r);
			w8(8);
			break;
		case 9: { // ROUTE flag[8] l4hdr(20) saddr16 daddr16 mac16
			__u32 flag[8];
			__u8 l4[20];
			__be32 sa[4], da[4], mac[4];

			for (int i = 0; i < 8; i++)
				flag[i] = r32(&r);
			if (r.p + 20 + 48 > r.end)
				die("short route");
			memcpy(l4, r.p, 20);
			r.p += 20;
			memcpy(sa, r.p, 16);
			r.p += 16;
			memcpy(da, r.p, 16);
			r.p += 16;
			memcpy(mac, r.p, 16);
			r.p += 16;
			// exact-size heap copies so that an over-read of the arguments is an ASan report
			__u32 *hflag = malloc(sizeof(flag));
			__u8 *hl4 = malloc(flag[0] == L4ProtoType_TCP ? sizeof(struct tcphdr) : sizeof(struct udphdr));
			__be32 *hsa = malloc(16), *hda = malloc(16), *hmac = malloc(16);

			memcpy(hflag, flag, sizeof(flag));
			memcpy(hl4, l4, flag[0] == L4ProtoType_TCP ? sizeof(struct tcphdr) : sizeof(struct udphdr));
			memcpy(hsa, sa, 16);
			memcpy(hda, da, 16);
			memcpy(hmac, mac, 16);
			in_program = 1;
			__s64 res = route(hflag, hl4, hsa, hda, hmac);

			in_program = 0;
			free(hflag);
			free(hl4);
			free(hsa);
			free(hda);
			free(hmac);
			run_deferred();
			ev_clear();
			w8(9);
			w64((__u64)res);
			break;
		}
		case 10: { // PKT
			__u8 hook = r8(&r);
			struct vsk_buff skb;
			struct skb_priv p;

			memset(&skb, 0, sizeof(skb));
			memset(&p, 0, sizeof(p));
			skb.protocol = r32(&r);
			skb.ifindex = r32(&r);
			skb.ingress_ifindex = r32(&r);
			skb.mark = r32(&r);
			skb.cb[0] = r32(&r);
			skb.cb[1] = r32(&r);
			p.pull_mode = r8(&r);
			__u32 headlen = r32(&r);

			p.cookie = r64(&r);
			p.sk_mode = r8(&r);
			__u32 n;
			const __u8 *b = rbytes(&r, &n);

			p.full = malloc(n ? n : 1);
			memcpy(p.full, b, n);
			p.full_len = n;
			skb.len = n;
			skb.verif_priv = &p;
			if (headlen > n)
				headlen = n;
			set_linear(&skb, &p, headlen);
			if (hook >= sizeof(hooks) / sizeof(hooks[0]))
				die("bad hook");
			cur = &p;
			in_program = 1;
			poison_stack();
			int rc = hooks[hook](&skb);

			in_program = 0;
			cur = NULL;
			run_deferred();
			w8(10);
			w32((__u32)rc);
			w32(skb.mark);
			w32(skb.cb[0]);
			w32(skb.cb[1]);
			w8((__u8)p.redirected);
			w32(p.redir_ifindex);
			w64(p.redir_flags);
			w32(p.pkt_type_set);
			w32((__u32)p.sk_refs);
			w32((__u32)p.sk_lookups);
			w32((__u32)p.sk_assigned);
			w32((__u32)p.pulls);
			w32((__u32)p.loads);
			wbytes(p.full, p.full_len);
			write_events();
			free(p.full);
			free(p.linear);
			break;
		}
		case 11: // LAYOUT
			layout_len = 0;
			verif_emit_layout();
			w8(11);
			wbytes(layout_buf, (__u32)layout_len);
			break;
		case 12: { // SET_MAX name max
			__u32 nl;
			const __u8 *nm = rbytes(&r, &nl);
			__u32 mx = r32(&r);
			struct shim_map *m = shim_by_name((const char *)nm, nl);

			if (m && m->type == BPF_MAP_TYPE_HASH)
				m->max_entries = mx;
			w8(12);
			w32(m ? m->max_entries : 0);
			break;
		}
		case 13: { // MAPINFO: list maps
			w8(13);
			w32((__u32)nstatic);
			for (int i = 0; i < nstatic; i++) {
				struct shim_map *m = static_maps[i];

				wbytes(m->name, (__u32)strlen(m->name));
				w32((__u32)m->type);
				w32(m->key_size);
				w32(m->value_size);
				w32(m->max_entries);
			}
			break;
		}
		case 14: // SET_CPU cpu: later programs see that CPU's copy of every per-CPU array
			cur_cpu = r32(&r) % SIM_NCPU;
			w8(14);
			w32(cur_cpu);
			break;
		default:
			die("unknown opcode");
		}
	}
	fflush(out);
	return 0;
}
