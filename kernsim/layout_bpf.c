// Compiled with -target bpf: sizeof/offsetof of every struct field of tproxy.c
// as the BPF target lays them out, stored as data for the Go monitor (C19).
#define VERIF_BPF_TARGET 1
#include TPROXY_C
#define ROW(size, off) { (unsigned long long)(size), (unsigned long long)(off) },
const unsigned long long verif_layout_rows[][2] __attribute__((section(".rodata.verif"), used)) = {
#include "layout_rows.h"
};
